/-
C03W — the closed-world "no lost wake-up" invariant (property C03): stages S1, A, B, C, mid-run
RE-WIRING (stages R, RA, RC, RF), and SEVERAL GROUPS — in sequence, re-entrant, nested — (stages D, E,
F: the last part of this file).

"Whenever simulated time is about to advance, no device is holding a part that is ready to leave
while one of its downstream neighbours would accept that part if it were offered; every blocked
part is genuinely blocked.  Every change that can unblock a part (…, CONNECTION ADDED) leads to a
new hand-over attempt at that same instant."

STAGE S1.  SCOPE (`S1 w`, decidable, preserved by every step — `Proofs/C03WDefs.lean`): only sources,
handlers, processors WITHOUT resource requirement, buffers (delay ≥ 0), gates and sinks;
receive/finish callbacks may change cycle time and offset of the device but not the part; sources
generate single parts and have no upstream neighbour; every downstream connection is in range and
has its upstream counterpart (`y ∈ down x → x ∈ up y`; the converse is not needed); asset ids of
devices pairwise distinct; no cycle through gates only (every chain of gates has at most
`devs.length` gates and no device reaches itself through gates); maintenance targets are processors;
scripts contain no `rewire`, no `create`, and `pause / unpause / cancel` only for asset ids that are
not a device's (everything else — failures, shutdown/restore, block toggles, budget adjustments,
cycle-time changes, offsets, work orders, resource operations — is allowed); no batch exists.

STAGE A.  SCOPE (`S2 w ⊇ S1 w`, decidable, preserved by every step: `s2_step`): as S1, but
processors may declare resource requirements `resReq = some req` (no negative amount).  If some
device does, the world must also be of the class `C11W.S` of the resource theorems (scripts do not
`reserve / release / merge / register` and do not pause / cancel the manager's events, asset id −1;
asset ids positive; fewer than 10000 devices).

STAGE B.  SCOPE (`S3 w ⊇ S2 w`, decidable, preserved by every step: `s3_step`): in addition
batchers (`Kind.batcher`, with or without a batch size), sources that generate batches
(`genBatch ≠ 0`, also empty ones) and hence parts with `kids`.  If batchers or batch-generating
sources exist (`¬ NoBatch w`), the world must also satisfy the conditions of the batcher theorems
`C17W` / the conservation theorem C02: scripts schedule failures of non-sinks only (`ScrB`), every
configured batch size is positive (`C17W.SizesPos`).

STAGE C.  SCOPE (`S4 w ⊇ S3 w`, decidable, preserved by every step: `s4_step`): in addition the
devices of ONE group (`Kind.gpath`, `Kind.ginput`, `Kind.goutput`): any number of group paths that
share one group input and one group output (a "shared group": several lines use the same
machines; the part leaves towards the downstream devices of the path it came in through — its
`stack`).  The group records must be consistent (`GroupOK`, part of `SC`): the group of a group path
names a group input and a group output of the same group and registers the path; a group input has
no upstream neighbour (it is reached through group paths only — necessary:
`group_input_upstream_false`); and there is ONE group (`OneGrp`, a conjunct of `S4` / `S4R` of its
own since the machinery's scope `SC` now admits any number of groups): every group path leads out
through every group output.  The static
bound on chains of controllers (gates, group inputs / paths / outputs) replaces the bound on chains
of gates: every chain of controllers ends within `devs.length` controllers, costs the notification
dispatch at most `2·devs.length + 1` recursion levels on the way back (`costLe`), and no device
reaches itself through controllers (`cReach`).  Group devices count as "batch devices": with them
the conditions `ScrB`, `SizesPos` of the conservation theorem are required (the proof uses C02's
"no part is held twice").
Several groups (in sequence, re-entrant, nested) are stages D, E, F below (`S5 cl w ⊇ S4 w`).
`S1 w ↔ SC w ∧ hasRes w = false ∧ NoBatch w ∧ PartsLeaf w ∧ NR w` (`S1_iff`; `NR`: no script re-wires),
`S2 w = S3 w ∧ NoBatch w`, `S3 w = S4 w ∧ NoGroups w`,
`S4 w = (SC w ∧ NR w) ∧ (hasRes w → C11W.S w) ∧ (¬ NoBatch w → ScrB w ∧ SizesPos w) ∧ OneGrp w`,
`S5 cl w = … the same with `OneGrp w ∨ C03Z.Typed cl w` in the place of `OneGrp w`.

STAGES D, E, F: SEVERAL GROUPS.  SCOPE (`S5 cl w ⊇ S4 w`, decidable for a given certificate `cl`;
`C03Z.ctxInfer w` computes one; preserved by every step: `s5_step`): the world is TYPED by group
contexts, `C03Z.Typed cl w` (`Proofs/C03ZTyp.lean`) — `cl` assigns to every device the list of the
ids of the groups it is inside (outermost first); a downstream connection stays in the context (for a
group path: the devices behind the group stand in the context of the path); the input device of the
group of a group path stands one level deeper; a group output is the output of its group and its
context ends with its group; every BATCHER stands at nesting depth ≤ 1 (`BatShallow`; necessary:
`nested_batcher_false`, finding F14).  This covers groups used one after the other or in parallel
(stage D: `exChain`), the same group entered through several paths, also twice by the same part with
other groups in between (stage E: `exShared`, `exReent`), groups nested in groups — a path of an
inner group a member or the input device of an outer group — (stage F: `exNested`, `exNestBat`), with
batchers, batches, resources, buffers, gates as in stage C.  The controller-chain bounds `costLe` /
`cReach` of `SC` are unchanged (they were group-aware already: a group output continues with the
downstream devices of the paths of ITS group).
THE INVARIANT "each entry of a part's group-path stack belongs to the group whose output the part
will leave through": `C03Z.TInv cl w` (`Proofs/C03ZFloor.lean`) — the stack of every part that a
device (not a sink) holds is TYPED for the context of the device (`C03Z.TS`: reading the stack from
the innermost entry `g`, the context is `ctx g ++ [group g]` and the rest of the stack is typed for
`ctx g` — a suffix typing: the empty stack is typed for every context, so a part generated or
unpacked inside a group is covered: it is genuinely blocked at the group output); the stacks of the
parts INSIDE a held batch are typed for the context below the stack of the batch; a batch under
construction has the empty stack.  `C03Z.gchain_ts`: a hand-over chain (`C08W.GChain`) carries typed
stacks to typed stacks; `C03Z.consS_of_ts`: a typed stack meets, at every group output an offer can
reach, the output of the group of its innermost path (`consS`), which is what the machinery needs
(`exits_through_own_output`).  Preservation along the event loop (`C03Z.tinv_step`,
`Proofs/C03ZWorld.lean`) follows the pattern of the routing invariant C08W (slot view, `Steps`,
hand-over `tv_bump`; the moves of a batcher — unpacking, packing — need the nesting depth ≤ 1:
`C03Z.ts_flat`).  `GoodB` has the new clause `k : C03Z.GC w` ("there is one group, or the world is
typed and `TInv` holds for some certificate"); `GoodD cl w` = `GoodB w`, `NR w`, and — unless there
is one group only — `Typed cl w ∧ TInv cl w` for the certificate of the scope.
Theorems: `wake5_init`, `wake5_step`, `wake5_runLoop`, `wake5_reachable`, `wake5_simulate`, `s5_step`,
`stacks_typed`, `exits_through_own_output`, `blocked_genuinely5`, `no_lost_wakeup5`,
**`no_lost_wakeup5_reachable`**, `no_lost_wakeup5_simulate`, `no_lost_wakeup5_infer` (the computed
certificate: a decidable scope of the world alone); re-wiring issued from OUTSIDE (`ReachD`: the
re-wired world must be in `SC` and typed by the same certificate — decidable on the current world):
`S5.rewire`, `wake5_rewire`, `wake5_rewire_reachable`, **`no_lost_wakeup5_rewire_reachable`**.
NOT covered (`no_lost_wakeup5_partial`): batchers at nesting depth ≥ 2 (FALSE: `nested_batcher_false`);
a group whose paths stand in different contexts; re-wiring IN SCRIPTS together with several groups
(`S5` requires `NR`; the stages R … RF keep `OneGrp`) — covered by STAGE V below.
Changed with respect to the one-group version of this file: `GoodB` (clause `k`), `GoodF` (clause
`o : OneGrp w`), `S4`, `S4R` (conjunct `OneGrp w`; the worlds are the same as before); the helper
theorems stated for the machinery's invariant `G` — `wakeB_exec`, `wake_w3_of`,
`blocked_genuinely_of`, `quiescent_of` — take the additional hypothesis `C03Z.GC w` (for one group:
`Or.inl`), since `G.sc : SC w` no longer implies that there is one group only.

STAGE V: SEVERAL GROUPS AND RE-WIRING IN SCRIPTS (the last part of this file; machinery
`Proofs/C03V*.lean`).  SCOPE `S5R cl w ⊇ S4R w, S5 cl w` (decidable; preserved by every step:
`s5r_reachable`): `S4R` with "one group" replaced by "one group, or the ENVELOPE is typed by the
certificate", `C03V.TE cl w = C03Z.Typed cl (envl w)` — the wiring plus every connection `u → x` that a
scripted `rewire x ups`, `u ∈ ups`, may add respects the group contexts (`C03Z.ctxInfer (envl w)`
computes a candidate).  No other side condition: what is re-wired may be a plain device, a group
path, a group output, inside whichever group (`exChainS`, `exNestedS`, `exNestedT`); the condition is
NECESSARY (`script_rewire_untyped_false`, `outside_rewire_untyped_false`: a connection across two
group contexts loses a wake-up).  Invariant `GoodV cl w` = `GoodF` with the clause "one group"
replaced by "one group, or `TE cl w ∧ C03Z.TInv cl w`".  Method: the machinery's condition `C03Z.GC`
contains `NR` as baggage only; the wake-up invariant `G` reads the scripts through its scope only
(`C03V.G.esG`) and `passPart` is blind to the scripts, so the hand-over step is taken in the world
without its scripts (`C03V.G.passPartV`, `G.stepV`); the typed-stacks invariant reads neither scripts
nor wiring: the actions that run no script are taken in the world without scripts
(`C03Z.tinv_exec`), the others are frames (`C03V.RW`, `rw_exec_scr`, `C03V.tinv_stepV`); the envelope
can only shrink (`C03V.RW.envl`, `TE.of_rw`).  Theorems: `wakeV_init`, `wakeV_step`, `wakeV_runLoop`,
`wakeV_runBegin`, `wakeV_applyOp`, `wakeV_rewire`, `ReachV` (events, runs, outside operations of the
scripts' vocabulary, outside re-wirings that leave the envelope typed), `wakeV_reachable`,
`s5r_reachable`, `stacks_typedV`, `blocked_genuinelyV`, `no_lost_wakeupV`,
**`no_lost_wakeup5_script_rewire_reachable`**, `…_runLoop`, `…_infer`; `ReachF.reachV`, `ReachD.reachV`
(stage V subsumes stage RF and stages D, E, F with outside re-wiring); `…_partial`: what remains.
(B) ALL PATHS OF A GROUP IN ONE CONTEXT: contexts are labels — a group shared between two nesting
levels IS in the scope `S5` if the two usages are not connected by the wiring (`exLevels`,
`s5_exLevels`); if they are connected, no certificate exists (`shared_levels_untypable`: the
restriction is necessary for the typing / `TInv`), while `Quiescent` holds along the whole run of the
concrete world (`shared_levels_run_quiescent`, by evaluation; no failure of `Quiescent` is known, a
general proof would need sets of contexts per device).  (C) `create`: not covered.

RE-WIRING.  The machinery's scope `SC w` (decidable) admits `rewire x ups` in scripts:
  * `RewOK w x ups` (per operation, a condition on the static world, independent of the order in
    which the scripts run): `x` exists; a source / a group input gets no upstream neighbour; `x` is
    nobody's downstream neighbour twice (`set_upstream` removes ONE entry per old upstream
    neighbour);
  * `EnvOK w` (on the script text): the controller conditions (`costLe`, `cReach`) hold for the
    ENVELOPE `envl w` — the wiring plus every connection `u → x` that some `rewire x ups`, `u ∈ ups`,
    of a script may add.  Every wiring that the scripts can ever produce is a sub-wiring of the
    envelope (`SC.rewired`, `TopoSub`), so the class is preserved by every step INCLUDING the
    re-wiring steps (`s1r_step`, `wakeE_step`, `G.rewireG`).
  For a re-wiring issued from OUTSIDE between two events the conditions are checked on the current
  world: `RewOK w x ups ∧ SC (w.rewire x ups)` (`G.rewireD`).
  `rewire` tells a new upstream neighbour about the space downstream only if that neighbour has been
  initialised: the worlds must satisfy the registration invariant `C20W.Reg` (every device is
  registered; C20W proves that every registered device is initialised by `simulateInit`), carried
  as `Ini w` / `IOK w = NR w ∨ Ini w` (`Proofs/C03YIni.lean`).
STAGE R  (`S1R w ⊇ S1 w` = `SC` without requirements, batchers, batches, groups; scripts may
  re-wire): `wakeR_init`, `wakeR_step`, `s1r_step`, `wakeR_applyOp`, `wakeR_rewire`, `ReachR`
  (events, runs, outside operations from the scripts' vocabulary, outside re-wirings),
  `wakeR_reachable`, `blocked_genuinely_rewire`, `no_lost_wakeup_rewire`,
  **`no_lost_wakeup_rewire_reachable`**, `connection_added` (the new upstream neighbour's attempt is
  queued at that same instant if the newly connected device would accept), `connection_removed`.
STAGE RA (`S2R w ⊇ S1R w`: processors may declare requirements AND scripts may re-wire; if a
  requirement is declared, `C11W.S` must hold for the scripts WITHOUT their re-wirings, `S11R`):
  the resource invariant `C11W.Inv` is carried for the world without its scripts (`es w []` — no
  function of the model but `runScript` reads the scripts: `Proofs/C03YEs*.lean`), a script run is
  handled operation by operation (`C11W.inv_applyOp` / `inv11_rewire`): `wakeE_init`, `wakeE_step`,
  `wakeE_reachable`, **`no_lost_wakeupA_rewire_reachable`**.
STAGE RC (scopes `S2 ⊆ S3 ⊆ S4` as they are — scripts without re-wiring —, re-wiring issued from
  OUTSIDE: the invariants of C11W / C17W are not disturbed by a re-wiring: `inv11_rewire`,
  `ci_rewire`): `ReachC`, `wakeC_rewire`, `wakeC_rewire_reachable`,
  **`no_lost_wakeupC_rewire_reachable`**.
STAGE RF (`S4R w ⊇ S4 w, S2R w`: THE WHOLE SCOPE — resources, batchers, batches, the shared group —
  AND re-wiring in scripts; `S4R w = SC w ∧ (hasRes w → S11R w) ∧ (¬ NoBatch w → ScrB w ∧ SizesPos w)`):
  both auxiliary invariants are carried for the world without its scripts, `C11W.Inv (es w [])` and
  `C17W.CI (es w [])`; an operation `o` of a script is the script run of the world `es v [[o]]`, a
  re-wiring is a frame step (`Proofs/C03YBatR.lean`: `GCI.step`): `wakeF_init`, `wakeF_step`,
  `wakeF_applyOp`, `wakeF_rewire`, `ReachF`, `wakeF_reachable`, `s4r_reachable`,
  **`no_lost_wakeup_rewire_all_reachable`** (subsumes the stages R, RA, RC; `…_partial`: what
  remains excluded — several groups, as in stage C).
Necessity (machine-checked): `rewire_duplicate_false` (third clause of `RewOK`: a lost wake-up),
`rewire_uninitialised_false` (registration: a lost wake-up), `rewire_cycle_breaks_scope` (`EnvOK`),
`rewire_source_breaks_scope` (first two clauses of `RewOK`), `group_input_upstream_false`.
Non-vacuity: `exRew` (a script connects a waiting source to a free machine at t = 5, the part moves
at t = 5), `exCut` (the only would-be acceptor is disconnected: the holder stays flagged, the state
is quiescent), `exResRew` (resources and a scripted by-pass), `reachC_exWaiting` (a by-pass
connected from outside in front of a processor that waits for resources), `exBatRew` (a blocked
batcher gets a second, free sink), `exGrpRew` (a second machine is connected to the group input
mid-run: both lines in front of the group are woken), `exPathRew` (a group path gets a second
downstream neighbour: the machine inside the group is woken through the group output).

DEFINITIONS.  `ready w d p` — `d` holds `p` (finished part of a handler / processor / batcher,
supplied part of a source, head of a buffer) and `p` may leave now; `wouldAccept f w x p` — the pure
acceptance predicate = the answer `give` would return (`give_answerB`, `give_answerC`; a group path
pushes itself on the part's stack and asks the group input, a group output asks the downstream
devices of the innermost group path of the stack; a processor with a
requirement answers what its attempt to acquire, `procAcquire`, would answer: `procReal`; a buffer
counts all parts of a batch: `canAcceptBasic`, `leafCount`); `wouldAcceptR` — the same, except that
a processor that is REGISTERED with the resource manager (`waitingRes`, no reservation) counts as
refusing; `Quiescent w`; `Wake w` (S1) / `WakeA w` (stages A, B) — every holder `d` of a part `p` has
(W1) a live PASS_PART event of `d` queued for the due time of `p` or earlier (`Att`; due time =
`now`, for the head of a buffer `max now (t + delay)`), or (W2) is flagged `waitingDS` and no
downstream neighbour would accept `p` (`BlockedW` with `wouldAccept` / `BlockedR` with
`wouldAcceptR`).  The third clause (W3) of stage A is the theorem `registered_refuses`: a processor
that `wouldAcceptR` counts as refusing although its state would allow acceptance is registered, and
either its request does not fit now or a live `rmCheck` event (the manager's availability check,
which calls `procResourceCb` → `notify`) is queued for the current instant; hence `wake_w3`: every
holder has (W1), or is flagged and genuinely blocked (W2), or is flagged and a live availability
check is pending at `now` (W3).
`Good w` (S1) = `S1`, the queue invariant of C01, `0 ≤ now`, no pending failure of a non-processor
(`EvOK`), every held part exists (`HeldValid`), and `Wake`.  `GoodB w` (stages A, B) = the
generalised invariant `G [] [] [] w` (scope `SC`, `C01.Inv`, `0 ≤ now`, `EvOK`, `HeldValid`,
`KidsValid`, `StkOK` — if there is a group output, every entry of a part's stack is a group path —,
registration `WR`, `WakeA`), and — if a requirement is declared — the resource
invariant `C11W.Inv w`, and — if batchers / batches exist — the batcher and conservation invariant
`C17W.CI w` (no part is held twice, the batchers are settled), and `IOK w` (no script re-wires, or
every device has been initialised).  `GoodA w = GoodB w ∧ NoBatch w`.  `GoodR` (stage R), `GoodE`
(stage RA): see below.

THEOREMS.  S1: `give_answer`, `wake_init`, `wake_exec`, `wake_step`, `wake_runLoop`,
`wake_reachable`, `no_lost_wakeup`, `blocked_genuinely`, `wake_passPart`, `wake_notify`,
`wake_acceptPart` (all as before, now corollaries of the generalised machinery; `wake_passPart`,
`wake_exec`, `wakeB_exec` — stated for the machinery's invariant `G`, which now admits re-wiring
scripts — take the additional hypothesis `NR w` resp. `IOK w`).
Stage A: `give_answerA`, `wakeA_init`, `wakeA_step`, `wakeA_runLoop`, `wakeA_reachable`,
`wakeA_simulate`, `s2_step`, `blocked_genuinelyA`, `no_lost_wakeupA`, `no_lost_wakeupA_reachable`.
Stage B: `give_answerB`, `wakeB_init`, `wakeB_exec`, `wakeB_step`, `wakeB_runLoop`,
`wakeB_reachable`, `wakeB_simulate`, `s3_step`, `wakeA_of_good`, `registered_refuses`, `wake_w3`,
`blocked_genuinelyB`, `no_lost_wakeupB`, `no_lost_wakeupB_reachable`.
Stage C (same invariant `GoodB`): `give_answerC`, `tryList_answerC`, `refused_round_registersC`,
`wakeC_init`, `wakeC_step`, `wakeC_runLoop`, `wakeC_reachable`, `wakeC_simulate`, `s4_step`,
`s4_runLoop`, `blocked_genuinelyC`, `no_lost_wakeupC`, `no_lost_wakeupC_reachable`.
The machinery (generalised invariant `G E N A` with a set `E` of exempt devices, a set `N` of
devices whose notification is pending and a set `A` of batchers that have just notified) is in
`Proofs/C03W*.lean`, `Proofs/C03X*.lean`; re-wiring in `Proofs/C03Y*.lean` (`C03YTopo`: envelope,
sub-wirings, `SC.rewired`; `C03YRewire`: `G.rewiring`, `G.connectG`, `G.rewireG`, `G.rewireD`;
`C03YIni`: initialisation; `C03YSwr`, `C03YSwrW`: the static data without the wiring; `C03YAux`:
C11W / C17W invariants under `rewire`; `C03YEs*`: blindness to the scripts; `C03YResR`: stage RA;
`C03YBatR`: stage RF).
Necessity counterexamples: `wake_exec_false_cancel`, `wake_exec_false_target` (the restrictions on
scripts and maintenance targets cannot be dropped), `cancel_manager_false` (in stage A a script must
not cancel the manager's events); `group_input_upstream_false` (a device wired directly in front of
a group input is never woken); `empty_batch_full_buffer_quiescent` (finding F12, repaired).
-/
import SimProc.Proofs.C03XRes
import SimProc.Proofs.C03YAux
import SimProc.Proofs.C03YResR
import SimProc.Proofs.C03YBatR
import SimProc.Props.C02
import SimProc.Props.C20W
import SimProc.Proofs.C03VTyp

namespace SimProc
namespace C03W
open World FloorCoreL C03

/-! ### the statements' vocabulary -/

/-- (W2) `d` is flagged and no downstream neighbour would accept `p`. -/
def BlockedW (w : World) (d p : Nat) : Prop :=
  (w.dev d).waitingDS = true ∧ ∀ y ∈ (w.dev d).down, wouldAccept w.fuel w y p = false

instance (w : World) (d p : Nat) : Decidable (BlockedW w d p) := by unfold BlockedW; infer_instance

/-- (W2, stages A, B) `d` is flagged and no downstream neighbour would accept `p`, registered
processors counted as refusing. -/
def BlockedR (w : World) (d p : Nat) : Prop :=
  (w.dev d).waitingDS = true ∧ ∀ y ∈ (w.dev d).down, wouldAcceptR w.fuel w y p = false

instance (w : World) (d p : Nat) : Decidable (BlockedR w d p) := by unfold BlockedR; infer_instance

/-- **The wake-up invariant** (decidable form: device indices bounded by the number of devices). -/
def Wake (w : World) : Prop :=
  ∀ d ∈ List.range w.devs.length, ∀ p ∈ (holdsD (w.dev d)).toList, Att w d ∨ BlockedW w d p

instance (w : World) : Decidable (Wake w) := by unfold Wake; infer_instance

/-- **The wake-up invariant of stages A and B.** -/
def WakeA (w : World) : Prop :=
  ∀ d ∈ List.range w.devs.length, ∀ p ∈ (holdsD (w.dev d)).toList, Att w d ∨ BlockedR w d p

instance (w : World) : Decidable (WakeA w) := by unfold WakeA; infer_instance

/-- **Quiescent**: no ready part has a downstream neighbour that would accept it. -/
def Quiescent (w : World) : Prop :=
  ∀ d ∈ List.range w.devs.length, ∀ p ∈ (holdsD (w.dev d)).toList,
    expiredD w.now (w.dev d) = true → ∀ x ∈ (w.dev d).down, wouldAccept w.fuel w x p = false

instance (w : World) : Decidable (Quiescent w) := by unfold Quiescent; infer_instance

theorem blockedR_iff (w : World) (d p : Nat) : BlockedR w d p ↔ Blocked w [] [] d p := Iff.rfl

theorem noGrp_of_noBatch {w : World} (hb : NoBatch w) : NoGrp w := (noGroups_of_noBatch hb).noGrp

theorem blockedW_iff {w : World} (hn : hasRes w = false) (hb : NoBatch w) (d p : Nat) :
    BlockedW w d p ↔ Blocked w [] [] d p := by
  unfold BlockedW Blocked
  simp only [wouldAcceptN_nil hn (noGrp_of_noBatch hb)]

theorem wakeA_iff (w : World) : WakeA w ↔ WakeG [] [] [] w := by
  unfold WakeA WakeG
  constructor
  · intro h d p hd _
    exact h d (by simpa using holdsD_lt hd) p (by simp [hd])
  · intro h d _ p hp
    have hd : holdsD (w.dev d) = some p := by simpa using hp
    exact h d p hd (by simp)

theorem wake_iff {w : World} (hn : hasRes w = false) (hb : NoBatch w) :
    Wake w ↔ WakeG [] [] [] w := by
  rw [← wakeA_iff]
  unfold Wake WakeA
  simp only [blockedW_iff hn hb, blockedR_iff]

/-- `Wake` without the bound on the device index. -/
theorem wake_spec {w : World} (hn : hasRes w = false) (hb : NoBatch w) :
    Wake w ↔ ∀ d p, holdsD (w.dev d) = some p → Att w d ∨ BlockedW w d p := by
  rw [wake_iff hn hb]
  unfold WakeG
  constructor
  · intro h d p hd
    have := h d p hd (by simp)
    rwa [← blockedW_iff hn hb] at this
  · intro h d p hd _
    have := h d p hd
    rwa [blockedW_iff hn hb] at this

/-- `WakeA` without the bound on the device index. -/
theorem wakeA_spec (w : World) :
    WakeA w ↔ ∀ d p, holdsD (w.dev d) = some p → Att w d ∨ BlockedR w d p := by
  rw [wakeA_iff]
  unfold WakeG
  exact ⟨fun h d p hd => h d p hd (by simp), fun h d p hd _ => h d p hd⟩

/-- For a READY part, (W1) is a live PASS_PART event of `d` for exactly the present instant (the
queue invariant of C01 excludes events in the past). -/
theorem att_ready_now {w : World} (hi : C01.Inv w.env) {d p : Nat} (hr : ready w d p) (ha : Att w d) :
    ∃ e ∈ w.env.events, e.act = (Action.passPart d).toNat ∧ e.asset = (w.dev d).aid ∧
      e.cancelled = false ∧ e.time = w.now := by
  obtain ⟨e, he, h1, h2, h3, h4⟩ := ha
  refine ⟨e, he, h1, h2, h3, ?_⟩
  rw [dueD_of_expired hr.2] at h4
  have := hi.future e he
  unfold World.now at h4 ⊢
  omega

/-- `Quiescent` in the form of the property text. -/
theorem quiescent_iff (w : World) :
    Quiescent w ↔ ∀ d p x, ready w d p → x ∈ (w.dev d).down → wouldAccept w.fuel w x p = false := by
  unfold Quiescent ready
  constructor
  · intro h d p x hr hx
    exact h d (by simpa using holdsD_lt hr.1) p (by simp [hr.1]) hr.2 x hx
  · intro h d _ p hp hex x hx
    exact h d p x ⟨by simpa using hp, hex⟩ hx

/-- Everything the closed-world induction carries (stage S1). -/
structure Good (w : World) : Prop where
  s1 : S1 w
  inv : C01.Inv w.env
  now0 : 0 ≤ w.now
  ev : EvOK w
  valid : HeldValid w
  wake : Wake w

theorem kidsValid_of_leaf {w : World} (h : PartsLeaf w) : KidsValid w := by
  intro r hr l hl
  rw [h r hr] at hl; cases hl

theorem stkOK_of_noParts {w : World} (h : w.parts = []) : StkOK w :=
  Or.inr (fun r hr => by rw [h] at hr; cases hr)

theorem stkOK_of_noBatch {w : World} (hb : NoBatch w) : StkOK w :=
  Or.inl (fun x => (noBatch_grp hb x).2.2)

/-- `Good` is the generalised invariant in a world without resource requirements, batchers and
batch-generating sources. -/
theorem good_iff (w : World) :
    Good w ↔ G [] [] [] w ∧ hasRes w = false ∧ NoBatch w ∧ NR w := by
  constructor
  · intro h
    have hpl : PartsLeaf w := ((S1_iff w).mp h.s1).2.2.2.1
    exact ⟨⟨h.s1.sc, fun _ => hpl, h.inv, h.now0, h.ev, h.valid, kidsValid_of_leaf hpl,
      stkOK_of_noBatch h.s1.noBatch, Or.inl h.s1.noRes, (fun _ hx => nomatch hx),
      (wake_iff h.s1.noRes h.s1.noBatch).mp h.wake⟩,
      h.s1.noRes, h.s1.noBatch, h.s1.nr⟩
  · rintro ⟨h, hn, hb, hr⟩
    exact ⟨(S1_iff w).mpr ⟨h.sc, hn, hb, h.pl hb, hr⟩, h.inv, h.now0, h.ev, h.valid,
      (wake_iff hn hb).mpr h.wake⟩

theorem invB_of_noBatch {w : World} (hb : NoBatch w) : InvB w := fun hn => absurd hb hn

theorem settled_of_noBatch {w : World} (hb : NoBatch w) : Settled w :=
  fun x hk _ => absurd hk (noBatch_dev hb x).1

theorem Good.goodB {w : World} (h : Good w) : GoodB w :=
  ⟨((good_iff w).mp h).1, (fun hr => by rw [h.s1.noRes] at hr; cases hr),
    fun hn => absurd h.s1.noBatch hn, Or.inl h.s1.nr, C03Z.gc_noGrp (noGrp_of_noBatch h.s1.noBatch)⟩

/-- the invariant of stage A: that of stage B, without batchers and batch-generating sources -/
structure GoodA (w : World) : Prop where
  b : GoodB w
  nb : NoBatch w

/-! ### (a) the acceptance predicate -/

/-- **(a, stages A and B)** In a world of the scope the Boolean answer of `give` is `wouldAccept`:
it depends neither on the order in which the downstream devices are tried nor on anything `give`
changes on the way (a refusing processor registers with the resource manager — that does not
change anybody's answer). -/
theorem give_answerC (f : Nat) (w : World) (x p : Nat) (h : S4 w) (hp : p < w.parts.length) :
    (give f w x p).2 = wouldAccept f w x p :=
  give_answer_eq f w x p h.1.1.kok (Or.inl hp)

/-- Without group devices the part need not exist. -/
theorem give_answerB (f : Nat) (w : World) (x p : Nat) (h : S3 w) :
    (give f w x p).2 = wouldAccept f w x p :=
  give_answer_eq f w x p h.1.1.1.kok (Or.inr h.2.noGrp)

theorem give_answerA (f : Nat) (w : World) (x p : Nat) (h : S2 w) :
    (give f w x p).2 = wouldAccept f w x p :=
  give_answerB f w x p h.s3

/-- **(a)** In an S1 world the Boolean answer of `give` is `wouldAccept`. -/
theorem give_answer (f : Nat) (w : World) (x p : Nat) (h : S1 w) :
    (give f w x p).2 = wouldAccept f w x p :=
  give_answerA f w x p h.s2

/-- The same for a whole offer round: it succeeds iff some downstream device would accept. -/
theorem tryList_answerC (w : World) (x p : Nat) (h : S4 w) (hp : p < w.parts.length) :
    (tryList givePart w (w.sortedDown x) p).2 =
      (w.dev x).down.any (fun y => wouldAccept w.fuel w y p) := by
  rw [tryList_givePart_answer w _ p h.1.1.kok (Or.inl hp)]
  exact any_perm (C08.sortedDown_perm w x) _

theorem tryList_answerB (w : World) (x p : Nat) (h : S3 w) :
    (tryList givePart w (w.sortedDown x) p).2 =
      (w.dev x).down.any (fun y => wouldAccept w.fuel w y p) := by
  rw [tryList_givePart_answer w _ p h.1.1.1.kok (Or.inr h.2.noGrp)]
  exact any_perm (C08.sortedDown_perm w x) _

theorem tryList_answer' (w : World) (x p : Nat) (h : S1 w) :
    (tryList givePart w (w.sortedDown x) p).2 =
      (w.dev x).down.any (fun y => wouldAccept w.fuel w y p) :=
  tryList_answerB w x p h.s2.s3

/-- After a refused offer round every downstream device refuses in the invariant's sense: a
processor that refused for want of resources is registered now. -/
theorem refused_round_registersC {w w1 : World} (h : S4 w) {x p : Nat} (hp : p < w.parts.length)
    (ht : tryList givePart w (w.sortedDown x) p = (w1, false)) :
    ∀ y ∈ (w.dev x).down, wouldAcceptR w.fuel w1 y p = false :=
  (tryGive_refused h.1.1 (Or.inl hp) ht).2

theorem refused_round_registers {w w1 : World} (h : S3 w) {x p : Nat}
    (ht : tryList givePart w (w.sortedDown x) p = (w1, false)) :
    ∀ y ∈ (w.dev x).down, wouldAcceptR w.fuel w1 y p = false :=
  (tryGive_refused h.1.1.1 (Or.inr h.2.noGrp) ht).2

/-! ### 1. initialisation -/

/-- nobody holds anything -/
theorem heldValid_fresh {w : World} (h : C02.Fresh w) : HeldValid w := by
  intro d hd p hp
  have := h.2.2.2.2 d hd
  unfold C02.held at this
  unfold heldL at hp
  rw [this] at hp; cases hp

theorem wakeG_fresh {w : World} (h : C02.Fresh w) : WakeG [] [] [] w := by
  intro d p hd' _
  have h1 := holdsD_mem_heldL hd'
  have := h.2.2.2.2 (w.dev d) (dev_mem (holdsD_lt hd'))
  unfold C02.held at this
  unfold heldL at h1
  rw [this] at h1; cases h1

theorem wake_fresh {w : World} (h : C02.Fresh w) : Wake w := by
  intro d hd p hp
  have hd' : holdsD (w.dev d) = some p := by simpa using hp
  have h1 := holdsD_mem_heldL hd'
  have := h.2.2.2.2 (w.dev d) (dev_mem (by simpa using hd))
  unfold C02.held at this
  unfold heldL at h1
  rw [this] at h1; cases h1

theorem partsLeaf_fresh {w : World} (h : C02.Fresh w) : PartsLeaf w := by
  intro r hr; rw [h.1] at hr; cases hr

/-- A fresh S1 world (queue invariant, clock not negative, no pending failure of a non-processor)
is good. -/
theorem good_fresh {w : World} (hs : S1 w) (hi : C01.Inv w.env) (h0 : 0 ≤ w.now) (he : EvOK w)
    (hf : C02.Fresh w) : Good w :=
  ⟨hs, hi, h0, he, heldValid_fresh hf, wake_fresh hf⟩

/-- **1. `wake_init`**: after `simulateInit` of a fresh S1 world the invariant holds. -/
theorem wake_init {w : World} (hs : S1 w) (hi : C01.Inv w.env) (h0 : 0 ≤ w.now) (he : EvOK w)
    (hf : C02.Fresh w) : Good w.simulateInit :=
  (good_iff _).mpr ⟨((good_iff w).mp (good_fresh hs hi h0 he hf)).1.simulateInitG,
    by rw [hasRes_of_ss (C02V.ss_simulateInit w)]; exact hs.noRes,
    (noBatch_of_sw (sw_simulateInit w).sw_eq).mpr hs.noBatch, hs.nr.of_sw (sw_simulateInit w)⟩

/-- Fresh worlds of stages A and B: nobody holds anything (`C02.Fresh`), no device is flagged as
waiting for resources, and — if a requirement is declared — the resource manager is fresh
(`C11W.FreshR`: not initialised, no reservations, nobody waiting, …). -/
def FreshA (w : World) : Prop :=
  C02.Fresh w ∧ NoFlag w ∧ (hasRes w = true → C11W.FreshR w)

/-- **1C. `wakeC_init`**: after `simulateInit` of a fresh world of the scope the invariant of
stages B and C holds. -/
theorem wakeC_init {w : World} (hs : S4 w) (hi : C01.Inv w.env) (h0 : 0 ≤ w.now) (he : EvOK w)
    (hf : FreshA w) : GoodB w.simulateInit := by
  have hg : G [] [] [] w :=
    ⟨hs.1.1, fun _ => partsLeaf_fresh hf.1, hi, h0, he, heldValid_fresh hf.1,
      kidsValid_of_leaf (partsLeaf_fresh hf.1), stkOK_of_noParts hf.1.1,
      wr_fresh hf.2.1 (fun hr => (hf.2.2 hr).2.2.1), (fun _ hx => nomatch hx), wakeG_fresh hf.1⟩
  refine ⟨hg.simulateInitG, fun hr => ?_, fun hn => ?_, Or.inl (hs.1.2.of_sw (sw_simulateInit w)),
    Or.inl (hs.2.2.2.of_sw (sw_simulateInit w).sw_eq)⟩
  · rw [hasRes_of_ss (C02V.ss_simulateInit w)] at hr
    exact C11W.inv_simulateInit w (hs.2.1 hr) (hf.2.2 hr)
  · have hn0 : ¬ NoBatch w := fun hb => hn ((noBatch_of_sw (sw_simulateInit w).sw_eq).mpr hb)
    exact C17W.ci_init w ⟨hf.1, static_of hs.1.1 hs.1.2 (hs.2.2.1 hn0).1 he, (hs.2.2.1 hn0).2⟩

/-- **1B. `wakeB_init`**. -/
theorem wakeB_init {w : World} (hs : S3 w) (hi : C01.Inv w.env) (h0 : 0 ≤ w.now) (he : EvOK w)
    (hf : FreshA w) : GoodB w.simulateInit := wakeC_init hs.s4 hi h0 he hf

/-- **1A. `wakeA_init`**. -/
theorem wakeA_init {w : World} (hs : S2 w) (hi : C01.Inv w.env) (h0 : 0 ≤ w.now) (he : EvOK w)
    (hf : FreshA w) : GoodA w.simulateInit :=
  ⟨wakeB_init hs.s3 hi h0 he hf, (noBatch_of_sw (sw_simulateInit w).sw_eq).mpr hs.2⟩

/-! ### 2. every event preserves the invariant -/

/-- **(b) `wake_passPart`**: if the invariant holds for every device except `d` (whose hand-over
attempt has just been popped), then after `passPart d` it holds for every device: `d` has handed
its part over, or has queued a new attempt (buffer head not yet due), or is flagged with no
downstream device willing. -/
theorem wake_passPart {w : World} {d : Nat} (h : G [d] [] [] w) (hn : hasRes w = false)
    (hb : NoBatch w) (hr : NR w) : Good (w.passPart d) :=
  (good_iff _).mpr ⟨h.passPartG (invB_of_noBatch hb) (settled_of_noBatch hb)
      (C03Z.gc_noGrp (noGrp_of_noBatch hb)),
    by rw [hasRes_of_sd (C02V.sd_passPart w d)]; exact hn,
    (noBatch_of_swv (C02V.swv_passPart w d)).mpr hb, hr.of_scripts (C02V.scr_passPart w d)⟩

/-- **(c)** a notification never destroys the invariant … -/
theorem wake_notify {w : World} (h : Good w) (x : Nat) : Good (w.notify x) :=
  (good_iff _).mpr ⟨((good_iff w).mp h).1.notify x (fun _ hy => Or.inr hy),
    by rw [hasRes_of_sd (C02V.sd_notify w x)]; exact h.s1.noRes,
    (noBatch_of_swv (C02V.swv_notify w x)).mpr h.s1.noBatch,
    h.s1.nr.of_scripts (C02V.scr_notify w x)⟩

/-- **(c)** … nor does a downstream device accepting a part. -/
theorem wake_acceptPart {w : World} (h : Good w) (x p : Nat) (hp : p < w.parts.length) :
    Good (w.acceptPart x p) :=
  (good_iff _).mpr ⟨((good_iff w).mp h).1.acceptPart x p hp
      (fun hk => absurd hk (noBatch_dev h.s1.noBatch x).1),
    by rw [hasRes_of_sd (C02V.sd_acceptPart w x p)]; exact h.s1.noRes,
    (noBatch_of_swv (C02V.swv_acceptPart w x p)).mpr h.s1.noBatch,
    h.s1.nr.of_scripts (C02V.scr_acceptPart w x p)⟩

/-- **2. `wake_exec`** — one lemma for all twelve action kinds: `terminate`, `script k`,
`finishCycle d`, `passPart d` (with `d` exempt beforehand: its attempt has just been popped),
`fail d` (of a processor), `releaseIfIdle d`, `rmCheck`, `startWork`, `finishWork`, `schedUpdate`,
`periodicSense`, `unknown`. -/
theorem wake_exec {w : World} (a : Action) (h : G (exemptA a) [] [] w) (hn : hasRes w = false)
    (hb : NoBatch w) (hr : NR w) (ha : ∀ d, a = .fail d → (w.dev d).kind = .processor) :
    Good (w.exec a) :=
  (good_iff _).mpr ⟨h.execG a ha (invB_of_noBatch hb) (settled_of_noBatch hb) (Or.inl hr)
      (C03Z.gc_noGrp (noGrp_of_noBatch hb)),
    by rw [hasRes_of_ss (nr_exec w a hr)]; exact hn,
    (noBatch_of_sw (sw_exec w a hr).sw_eq).mpr hb, hr.of_sw (sw_exec w a hr)⟩

/-- The same for stages A and B (the wake-up part of the invariant; the resource part is
`C11W.inv_exec`, the batcher part `C17W`): if batchers or batches exist, the conservation
invariant of C02 must hold and the batchers must be settled. -/
theorem wakeB_exec {w : World} (a : Action) (h : G (exemptA a) [] [] w)
    (ha : ∀ d, a = .fail d → (w.dev d).kind = .processor) (hI : InvB w) (hset : Settled w)
    (hio : IOK w) (hgc : C03Z.GC w) : G [] [] [] (w.exec a) :=
  h.execG a ha hI hset hio hgc

/-- For every action other than `passPart` the hypothesis of `wake_exec` is `Good w`. -/
theorem wake_exec' {w : World} (a : Action) (h : Good w) (hp : ∀ d, a ≠ .passPart d)
    (ha : ∀ d, a = .fail d → (w.dev d).kind = .processor) : Good (w.exec a) := by
  refine wake_exec a ?_ h.s1.noRes h.s1.noBatch h.s1.nr ha
  have : exemptA a = [] := by
    cases a <;> first | rfl | exact absurd rfl (hp _)
  rw [this]; exact ((good_iff w).mp h).1

/-- **2B. `wakeB_step`**: `Environment.step` (pop, set the clock, run the action unless cancelled)
preserves the invariant of stage B — including the scope of the machinery, the queue invariant,
`EvOK`, `HeldValid`, the registration invariant, the resource invariant of C11W and the batcher /
conservation invariant of C17W. -/
theorem wakeB_step {w w' : World} {e : Event} (h : GoodB w) (hst : w.step = some (e, w')) :
    GoodB w' := h.step hst

/-- **2C. `wakeC_step`** = `wakeB_step`: the invariant covers group devices too. -/
theorem wakeC_step {w w' : World} {e : Event} (h : GoodB w) (hst : w.step = some (e, w')) :
    GoodB w' := h.step hst

/-- The scope of stage C is preserved by every step. -/
theorem s4_step {w w' : World} {e : Event} (hs : S4 w) (h : GoodB w) (hst : w.step = some (e, w')) :
    S4 w' :=
  hs.of_sw (h.step hst).g.sc (sw_step w w' e hs.1.2 hst) (nr_step w w' e hs.1.2 hst)

theorem s4_runLoop (n : Nat) {w : World} (hs : S4 w) (h : GoodB w) : S4 (runLoop n w) :=
  hs.of_sw (h.runLoop n).g.sc (sw_runLoop n w hs.1.2) (nr_runLoop n w hs.1.2)

/-- The scope of stage B is preserved by every step. -/
theorem s3_step {w w' : World} {e : Event} (hs : S3 w) (h : GoodB w) (hst : w.step = some (e, w')) :
    S3 w' :=
  hs.of_sw (h.step hst).g.sc (sw_step w w' e hs.1.1.2 hst) (nr_step w w' e hs.1.1.2 hst)

theorem s3_runLoop (n : Nat) {w : World} (hs : S3 w) (h : GoodB w) : S3 (runLoop n w) :=
  hs.of_sw (h.runLoop n).g.sc (sw_runLoop n w hs.1.1.2) (nr_runLoop n w hs.1.1.2)

/-- **2A. `wakeA_step`**. -/
theorem wakeA_step {w w' : World} {e : Event} (h : GoodA w) (hst : w.step = some (e, w')) :
    GoodA w' :=
  ⟨h.b.step hst, (noBatch_of_swr' (swrw_step w w' e h.b.g.sc.nc hst)).mpr h.nb⟩

/-- The scope of stage A is preserved by every step. -/
theorem s2_step {w w' : World} {e : Event} (hs : S2 w) (h : GoodA w) (hst : w.step = some (e, w')) :
    S2 w' :=
  ⟨s3_step hs.s3 h.b hst, (wakeA_step h hst).nb⟩

/-- **2. `wake_step`**: `Environment.step` preserves the invariant — including `S1`, the queue
invariant, `EvOK`, `HeldValid`. -/
theorem wake_step {w w' : World} {e : Event} (h : Good w) (hst : w.step = some (e, w')) : Good w' :=
  (good_iff _).mpr ⟨(h.goodB.step hst).g,
    by rw [hasRes_of_ss (nr_step w w' e h.s1.nr hst)]; exact h.s1.noRes,
    (noBatch_of_sw (sw_step w w' e h.s1.nr hst).sw_eq).mpr h.s1.noBatch,
    h.s1.nr.of_sw (sw_step w w' e h.s1.nr hst)⟩

/-- `S1` is preserved by every step. -/
theorem s1_step {w w' : World} {e : Event} (h : Good w) (hst : w.step = some (e, w')) : S1 w' :=
  (wake_step h hst).s1

/-! ### 3. all reachable states -/

/-- **3. `wake_runLoop`**. -/
theorem wake_runLoop (n : Nat) {w : World} (h : Good w) : Good (runLoop n w) :=
  (good_iff _).mpr ⟨(h.goodB.runLoop n).g,
    by rw [hasRes_of_ss (nr_runLoop n w h.s1.nr)]; exact h.s1.noRes,
    (noBatch_of_sw (sw_runLoop n w h.s1.nr).sw_eq).mpr h.s1.noBatch,
    h.s1.nr.of_sw (sw_runLoop n w h.s1.nr)⟩

theorem wakeB_runLoop (n : Nat) {w : World} (h : GoodB w) : GoodB (runLoop n w) := h.runLoop n

theorem wakeC_runLoop (n : Nat) {w : World} (h : GoodB w) : GoodB (runLoop n w) := h.runLoop n

theorem wakeA_runLoop (n : Nat) {w : World} (h : GoodA w) : GoodA (runLoop n w) :=
  ⟨h.b.runLoop n, (noBatch_of_swr' (swrw_runLoop n w h.b.g.sc.nc)).mpr h.nb⟩

/-- In every state reachable from an initialised fresh S1 world the invariant holds. -/
theorem wake_reachable (n : Nat) {w : World} (hs : S1 w) (hi : C01.Inv w.env) (h0 : 0 ≤ w.now)
    (he : EvOK w) (hf : C02.Fresh w) : Good (runLoop n w.simulateInit) :=
  wake_runLoop n (wake_init hs hi h0 he hf)

/-- **3B.** In every state reachable from an initialised fresh world of the scope of stage B the
invariant holds. -/
theorem wakeB_reachable (n : Nat) {w : World} (hs : S3 w) (hi : C01.Inv w.env) (h0 : 0 ≤ w.now)
    (he : EvOK w) (hf : FreshA w) : GoodB (runLoop n w.simulateInit) :=
  wakeB_runLoop n (wakeB_init hs hi h0 he hf)

/-- **3C.** In every state reachable from an initialised fresh world of the scope of stage C the
invariant holds. -/
theorem wakeC_reachable (n : Nat) {w : World} (hs : S4 w) (hi : C01.Inv w.env) (h0 : 0 ≤ w.now)
    (he : EvOK w) (hf : FreshA w) : GoodB (runLoop n w.simulateInit) :=
  wakeC_runLoop n (wakeC_init hs hi h0 he hf)

/-- **3A.** -/
theorem wakeA_reachable (n : Nat) {w : World} (hs : S2 w) (hi : C01.Inv w.env) (h0 : 0 ≤ w.now)
    (he : EvOK w) (hf : FreshA w) : GoodA (runLoop n w.simulateInit) :=
  wakeA_runLoop n (wakeA_init hs hi h0 he hf)

/-- `Environment.run(d)` begins by scheduling the terminate event: the invariant is kept. -/
theorem wake_runBegin {w : World} (h : Good w) (d : Int) : Good (w.runBegin d).1 :=
  (good_iff _).mpr ⟨((good_iff w).mp h).1.runBeginG d,
    by rw [hasRes_of_ss (ss_runBegin w d)]; exact h.s1.noRes,
    (noBatch_of_sw (sw_runBegin w d).sw_eq).mpr h.s1.noBatch, h.s1.nr.of_sw (sw_runBegin w d)⟩

theorem wakeB_runBegin {w : World} (h : GoodB w) (d : Int) : GoodB (w.runBegin d).1 := h.runBegin d

theorem wakeA_runBegin {w : World} (h : GoodA w) (d : Int) : GoodA (w.runBegin d).1 :=
  ⟨h.b.runBegin d, (noBatch_of_sw (sw_runBegin w d).sw_eq).mpr h.nb⟩

/-- `System.simulate(d)` = initialise, begin the run, loop: every state reached is good. -/
theorem wake_simulate (n : Nat) (d : Int) {w : World} (hs : S1 w) (hi : C01.Inv w.env)
    (h0 : 0 ≤ w.now) (he : EvOK w) (hf : C02.Fresh w) :
    Good (runLoop n (w.simulateInit.runBegin d).1) :=
  wake_runLoop n (wake_runBegin (wake_init hs hi h0 he hf) d)

theorem wakeB_simulate (n : Nat) (d : Int) {w : World} (hs : S3 w) (hi : C01.Inv w.env)
    (h0 : 0 ≤ w.now) (he : EvOK w) (hf : FreshA w) :
    GoodB (runLoop n (w.simulateInit.runBegin d).1) :=
  wakeB_runLoop n (wakeB_runBegin (wakeB_init hs hi h0 he hf) d)

theorem wakeC_simulate (n : Nat) (d : Int) {w : World} (hs : S4 w) (hi : C01.Inv w.env)
    (h0 : 0 ≤ w.now) (he : EvOK w) (hf : FreshA w) :
    GoodB (runLoop n (w.simulateInit.runBegin d).1) :=
  wakeC_runLoop n (wakeB_runBegin (wakeC_init hs hi h0 he hf) d)

theorem wakeA_simulate (n : Nat) (d : Int) {w : World} (hs : S2 w) (hi : C01.Inv w.env)
    (h0 : 0 ≤ w.now) (he : EvOK w) (hf : FreshA w) :
    GoodA (runLoop n (w.simulateInit.runBegin d).1) :=
  wakeA_runLoop n (wakeA_runBegin (wakeA_init hs hi h0 he hf) d)

/-- "time is about to advance": the next event to be popped (if any) lies in the future -/
def ClockAdvances (w : World) : Prop := ∀ e, w.env.events.head? = some e → w.now < e.time

instance (w : World) : Decidable (ClockAdvances w) := by
  unfold ClockAdvances
  cases h : w.env.events.head? with
  | none => exact isTrue (fun e he => by cases he)
  | some e0 =>
    exact decidable_of_iff (w.now < e0.time)
      ⟨fun hh e he => by cases he; exact hh, fun hh => hh e0 rfl⟩

theorem no_event_now {w : World} (hi : C01.Inv w.env) (hc : ClockAdvances w) :
    ∀ e ∈ w.env.events, w.now < e.time := by
  intro e he
  cases hev : w.env.events with
  | nil => rw [hev] at he; cases he
  | cons e0 es =>
    have h0 := hc e0 (by rw [hev]; rfl)
    rw [hev] at he
    rcases List.mem_cons.mp he with rfl | he
    · exact h0
    · have hs : SortedEv (e0 :: es) := hev ▸ hi.sorted
      have := Event.nlt_time (hs.head_min e he)
      omega

/-! ### 4. the statements of stages A and B -/

/-- what `GoodB` says about holders, in decidable form -/
theorem wakeA_of_good {w : World} (h : GoodB w) : WakeA w := (wakeA_iff w).mpr h.g.wake

/-- **(W3) `registered_refuses`.**  In a reachable state, a processor that the invariant counts as
refusing for want of resources (declared requirement, no reservation, registered with the resource
manager) cannot get its resources now — or a live availability check (`rmCheck`, which will call
`procResourceCb` and thereby notify upstream) is queued for the current instant. -/
theorem registered_refuses {w : World} (h : GoodB w) (y : Nat) (hk : (w.dev y).kind = .processor)
    (hm : procM (w.dev y) = false) :
    procReal w y = false ∨ C11W.QueuedL w .rmCheck w.now pOtherHigh (-1) :=
  h.registered y hk hm

/-- **The three clauses**, from the wake-up invariant `G` and the clause `C11W.Pend` of the resource
invariant ("a feasible waiting request has a live availability check queued for now"). -/
theorem wake_w3_of {w : World} (hg : G [] [] [] w) (hp : hasRes w = true → C11W.Pend w)
    (hgc : C03Z.GC w) (d p : Nat) (hd : holdsD (w.dev d) = some p) :
    Att w d ∨ BlockedW w d p ∨
      ((w.dev d).waitingDS = true ∧ C11W.QueuedL w .rmCheck w.now pOtherHigh (-1)) := by
  rcases hg.wake d p hd (by simp) with ha | hb
  · exact Or.inl ha
  · by_cases hq : C11W.QueuedL w .rmCheck w.now pOtherHigh (-1)
    · exact Or.inr (Or.inr ⟨hb.1, hq⟩)
    · exact Or.inr (Or.inl ⟨hb.1, fun y hy => real_of_R_of hg hp hgc hq _ hd hy (hb.2 y hy)⟩)

/-- **The three clauses.**  Every holder `d` of a part `p` has (W1) a live hand-over attempt queued,
or (W2) is flagged and NO downstream neighbour would accept `p` (`wouldAccept`: what `give` would
really answer, resources included), or (W3) is flagged and a live availability check of the
resource manager is queued for the current instant. -/
theorem wake_w3 {w : World} (h : GoodB w) (d p : Nat) (hd : holdsD (w.dev d) = some p) :
    Att w d ∨ BlockedW w d p ∨
      ((w.dev d).waitingDS = true ∧ C11W.QueuedL w .rmCheck w.now pOtherHigh (-1)) :=
  wake_w3_of h.g (fun hr => (h.r hr).pend) h.k d p hd

theorem blocked_genuinely_of {w : World} (hg : G [] [] [] w) (hp : hasRes w = true → C11W.Pend w)
    (hgc : C03Z.GC w) (hc : ClockAdvances w) (d p : Nat) (hr : ready w d p) : BlockedW w d p := by
  have hadv := no_event_now hg.inv hc
  rcases wake_w3_of hg hp hgc d p hr.1 with ⟨e, he, _, _, _, ht⟩ | hb | ⟨_, hq⟩
  · exfalso
    have := hadv e he
    rw [dueD_of_expired hr.2] at ht
    omega
  · exact hb
  · exact absurd hq (no_check_of_advance hadv)

theorem quiescent_of {w : World} (hg : G [] [] [] w) (hp : hasRes w = true → C11W.Pend w)
    (hgc : C03Z.GC w) (hc : ClockAdvances w) : Quiescent w := by
  rw [quiescent_iff]
  intro d p x hr hx
  exact (blocked_genuinely_of hg hp hgc hc d p hr).2 x hx

/-- **4B. `blocked_genuinelyB`**: when time is about to advance, every ready part is flagged and no
downstream neighbour would accept it — the answer `give` would return, resources and batch sizes
included. -/
theorem blocked_genuinelyB {w : World} (h : GoodB w) (hc : ClockAdvances w) (d p : Nat)
    (hr : ready w d p) : BlockedW w d p :=
  blocked_genuinely_of h.g (fun hr => (h.r hr).pend) h.k hc d p hr

theorem blocked_genuinelyA {w : World} (h : GoodA w) (hc : ClockAdvances w) (d p : Nat)
    (hr : ready w d p) : BlockedW w d p := blocked_genuinelyB h.b hc d p hr

/-- **3B. `no_lost_wakeupB`**: when time is about to advance (the queue is empty or its first event
lies in the future), the state is quiescent. -/
theorem no_lost_wakeupB {w : World} (h : GoodB w) (hc : ClockAdvances w) : Quiescent w := by
  rw [quiescent_iff]
  intro d p x hr hx
  exact (blocked_genuinelyB h hc d p hr).2 x hx

theorem no_lost_wakeupA {w : World} (h : GoodA w) (hc : ClockAdvances w) : Quiescent w :=
  no_lost_wakeupB h.b hc

/-- **The closed-world statement of stage B**: in every state reachable by `runLoop` from an
initialised fresh world of the scope `S3`, whenever the clock is about to advance no ready part
could be handed over. -/
theorem no_lost_wakeupB_reachable (n : Nat) {w : World} (hs : S3 w) (hi : C01.Inv w.env)
    (h0 : 0 ≤ w.now) (he : EvOK w) (hf : FreshA w)
    (hc : ClockAdvances (runLoop n w.simulateInit)) : Quiescent (runLoop n w.simulateInit) :=
  no_lost_wakeupB (wakeB_reachable n hs hi h0 he hf) hc

/-- **4C.** `blocked_genuinelyC` = `blocked_genuinelyB` (the invariant `GoodB` covers group devices):
a ready part inside or in front of a group is flagged, and no downstream neighbour — group path,
group input, group output … — would pass it on to anybody who accepts. -/
theorem blocked_genuinelyC {w : World} (h : GoodB w) (hc : ClockAdvances w) (d p : Nat)
    (hr : ready w d p) : BlockedW w d p := blocked_genuinelyB h hc d p hr

theorem no_lost_wakeupC {w : World} (h : GoodB w) (hc : ClockAdvances w) : Quiescent w :=
  no_lost_wakeupB h hc

/-- **The closed-world statement of stage C**: in every state reachable by `runLoop` from an
initialised fresh world of the scope `S4` (one group, shared by any number of group paths),
whenever the clock is about to advance no ready part could be handed over. -/
theorem no_lost_wakeupC_reachable (n : Nat) {w : World} (hs : S4 w) (hi : C01.Inv w.env)
    (h0 : 0 ≤ w.now) (he : EvOK w) (hf : FreshA w)
    (hc : ClockAdvances (runLoop n w.simulateInit)) : Quiescent (runLoop n w.simulateInit) :=
  no_lost_wakeupC (wakeC_reachable n hs hi h0 he hf) hc

/-- Stage C is PARTIAL with respect to "groups" in general: `S4` admits ONE group (shared by any
number of group paths).  Several groups — in sequence, re-entrant, nested — are stages D, E, F at
the end of this file (`no_lost_wakeup5_reachable`; the invariant tying every entry of a part's
group-path stack to the group output the part will leave through is `C03Z.TInv`). -/
theorem no_lost_wakeupC_partial (n : Nat) {w : World} (hs : S4 w) (hi : C01.Inv w.env)
    (h0 : 0 ≤ w.now) (he : EvOK w) (hf : FreshA w)
    (hc : ClockAdvances (runLoop n w.simulateInit)) : Quiescent (runLoop n w.simulateInit) :=
  no_lost_wakeupC_reachable n hs hi h0 he hf hc

/-- **The closed-world statement of stage A.** -/
theorem no_lost_wakeupA_reachable (n : Nat) {w : World} (hs : S2 w) (hi : C01.Inv w.env)
    (h0 : 0 ≤ w.now) (he : EvOK w) (hf : FreshA w)
    (hc : ClockAdvances (runLoop n w.simulateInit)) : Quiescent (runLoop n w.simulateInit) :=
  no_lost_wakeupB_reachable n hs.s3 hi h0 he hf hc

/-! ### 4. the statements of stage S1 -/

/-- **4. `blocked_genuinely`**: when time is about to advance, every ready part is flagged and no
downstream neighbour would accept it. -/
theorem blocked_genuinely {w : World} (h : Good w) (hc : ClockAdvances w) (d p : Nat)
    (hr : ready w d p) : BlockedW w d p :=
  blocked_genuinelyB h.goodB hc d p hr

/-- **3. `no_lost_wakeup`**: when time is about to advance (the queue is empty or its first event
lies in the future), the state is quiescent. -/
theorem no_lost_wakeup {w : World} (h : Good w) (hc : ClockAdvances w) : Quiescent w :=
  no_lost_wakeupB h.goodB hc

/-- The closed-world statement: in every state reachable by `runLoop` from an initialised fresh S1
world, whenever the clock is about to advance no ready part could be handed over. -/
theorem no_lost_wakeup_reachable (n : Nat) {w : World} (hs : S1 w) (hi : C01.Inv w.env)
    (h0 : 0 ≤ w.now) (he : EvOK w) (hf : C02.Fresh w)
    (hc : ClockAdvances (runLoop n w.simulateInit)) : Quiescent (runLoop n w.simulateInit) :=
  no_lost_wakeup (wake_reachable n hs hi h0 he hf) hc

/-! ### non-vacuity -/

/-- source 0 (cycle 1, 5 parts) → handler 1 (cycle 0) → slow sink 2 (cycle 10) -/
def exLine : World :=
  { devs := [{ kind := .source, aid := 1, down := [1], cycle := 1, maxParts := some 5 },
             { kind := .handler, aid := 2, up := [0], down := [2] },
             { kind := .sink, aid := 3, up := [1], cycle := 10 }],
    assets := [.dev 0, .dev 1, .dev 2] }

theorem s1_exLine : S1 exLine := by decide

theorem fresh_exLine : C02.Fresh exLine := by
  refine ⟨rfl, rfl, rfl, rfl, ?_⟩
  decide

theorem evOK_exLine : EvOK exLine := by
  intro n hn; simp [C02V.acts, exLine] at hn

/-- the hypotheses of the closed-world theorems are satisfiable -/
theorem good_exLine (n : Nat) : Good (runLoop n exLine.simulateInit) :=
  wake_reachable n s1_exLine C01.inv_init (by decide) evOK_exLine fresh_exLine


/-- the congested state: at time 3 the source holds part 2 and the handler holds part 1, both flagged;
the sink is busy until time 11 -/
def exCongested : World := runLoop 8 (exLine.simulateInit.runBegin 100).1

/-- the closed-world theorem applies to it … -/
example : Good exCongested := wake_simulate 8 100 s1_exLine C01.inv_init (by decide) evOK_exLine fresh_exLine

/-- … and its conclusions are non-trivial: the clock is about to advance (next event at time 11),
two parts are ready, both holders are flagged, and `Wake` / `Quiescent` hold (computed). -/
example : S1 exCongested ∧ Wake exCongested ∧ Quiescent exCongested ∧ ClockAdvances exCongested ∧
    exCongested.now = 3 ∧ ready exCongested 0 2 ∧ ready exCongested 1 1 ∧
    BlockedW exCongested 0 2 ∧ BlockedW exCongested 1 1 ∧
    wouldAccept exCongested.fuel exCongested 2 1 = false := by decide

/-- a state in which `Wake` holds through (W1): the source holds part 1 and its attempt is queued
for the present instant — the clock is NOT about to advance, and the handler would accept -/
example : Wake (runLoop 4 (exLine.simulateInit.runBegin 100).1) ∧
    Att (runLoop 4 (exLine.simulateInit.runBegin 100).1) 0 ∧
    ¬ ClockAdvances (runLoop 4 (exLine.simulateInit.runBegin 100).1) ∧
    ¬ Quiescent (runLoop 4 (exLine.simulateInit.runBegin 100).1) := by decide

/-- `give` answers `wouldAccept` on the congested state (refused) and on the state above (accepted) -/
example : (exCongested.givePart 2 1).2 = false ∧
    wouldAccept exCongested.fuel exCongested 2 1 = false ∧
    ((runLoop 4 (exLine.simulateInit.runBegin 100).1).givePart 1 1).2 = true := by decide

/-- source 0 → gate 1 (quality ≥ 1) → buffer 2 (capacity 1, delay 2) → slow sink 3 -/
def exGB : World :=
  { devs := [{ kind := .source, aid := 1, down := [1], cycle := 1, maxParts := some 6 },
             { kind := .gate, aid := 2, up := [0], down := [2], pred := .qualityGe 1 },
             { kind := .buffer, aid := 3, up := [1], down := [3], cap := some 1, delay := 2 },
             { kind := .sink, aid := 4, up := [2], cycle := 10 }],
    assets := [.dev 0, .dev 1, .dev 2, .dev 3] }

theorem s1_exGB : S1 exGB := by decide

/-- at time 5: the buffer's head (stored at 3, delay 2) is ready and refused by the busy sink, the
source is blocked behind the gate by the full buffer; the clock is about to advance to 13 -/
example : Good (runLoop 9 (exGB.simulateInit.runBegin 100).1) :=
  wake_simulate 9 100 s1_exGB C01.inv_init (by decide)
    (by intro n hn; simp [C02V.acts, exGB] at hn) ⟨rfl, rfl, rfl, rfl, by decide⟩

example : Wake (runLoop 9 (exGB.simulateInit.runBegin 100).1) ∧
    Quiescent (runLoop 9 (exGB.simulateInit.runBegin 100).1) ∧
    ClockAdvances (runLoop 9 (exGB.simulateInit.runBegin 100).1) ∧
    ready (runLoop 9 (exGB.simulateInit.runBegin 100).1) 0 2 ∧
    ready (runLoop 9 (exGB.simulateInit.runBegin 100).1) 2 1 ∧
    wouldAccept (runLoop 9 (exGB.simulateInit.runBegin 100).1).fuel
      (runLoop 9 (exGB.simulateInit.runBegin 100).1) 1 2 = false := by decide

/-- at time 2 the buffer's head (stored at 1) is NOT yet ready: (W1) holds through the PASS_PART
event queued for the expiry time 3 -/
example : Wake (runLoop 4 (exGB.simulateInit.runBegin 100).1) ∧
    Att (runLoop 4 (exGB.simulateInit.runBegin 100).1) 2 ∧
    ¬ ready (runLoop 4 (exGB.simulateInit.runBegin 100).1) 2 0 ∧
    holdsD ((runLoop 4 (exGB.simulateInit.runBegin 100).1).dev 2) = some 0 := by decide

/-! ### the restrictions of S1 are needed (machine-checked counterexamples) -/

/-- source 0 holds part 0 and its attempt is queued; the input of handler 1 is blocked; script 0
cancels the events of the source's asset id -/
def cexCancel : World :=
  { devs := [{ kind := .source, aid := 1, down := [1], output := some 0 },
             { kind := .handler, aid := 2, up := [0], blockInput := true }],
    parts := [{}],
    scripts := [[.cancel 1]],
    env := { events := [{ uid := 0, time := 0, prio := 28, weight := 0, asset := 1, act := 3 }],
             nextUid := 1 } }

/-- **A script that cancels a device's events destroys the invariant**: the world satisfies `S1`
except for that script (it does without it) and `Wake`; after the script the source holds a ready
part, is not flagged and has no live attempt. -/
theorem wake_exec_false_cancel :
    S1 { cexCancel with scripts := [] } ∧ ¬ S1 cexCancel ∧ Wake cexCancel ∧ HeldValid cexCancel ∧
    ¬ Wake (cexCancel.exec (.script 0)) := by decide

/-- handler 0 holds part 0 with its attempt queued, sink 1 is free; maintenance target 0 is the
HANDLER (not a processor), with an active work order -/
def cexTarget : World :=
  { devs := [{ kind := .handler, aid := 1, down := [1], output := some 0 },
             { kind := .sink, aid := 2, up := [0] }],
    parts := [{}],
    targets := [{ dev := some 0, params := [(0, 5, 0, 0)] }],
    maints := [{ m := { active := [{ seq := 0, target := 0, tag := 0, needed := 0 }] }, aid := 3 }],
    env := { events := [{ uid := 0, time := 0, prio := 28, weight := 0, asset := 1, act := 3 }],
             nextUid := 1 } }

/-- **Maintenance of a device that is not a processor loses a wake-up**: `_shutdown` pauses the
handler's PASS_PART event although a plain handler stays operational; afterwards the clock is about
to advance (next event: the end of the work at time 5) while the free sink would accept the
handler's ready part. -/
theorem wake_exec_false_target :
    S1 { cexTarget with targets := [] } ∧ ¬ S1 cexTarget ∧ Wake cexTarget ∧
    ClockAdvances (cexTarget.exec (.startWork 0 0)) ∧
    ¬ Quiescent (cexTarget.exec (.startWork 0 0)) := by decide

/-- source 0 (flagged) holds the EMPTY batch 1; buffer 1 is full (1 of 1), its input is blocked;
script 0 unblocks it -/
def cexBatch : World :=
  { devs := [{ kind := .source, aid := 1, down := [1], output := some 1, waitingDS := true,
               genBatch := -1 },
             { kind := .buffer, aid := 2, up := [0], down := [2], cap := some 1, level := 1,
               delay := 100, buf := [(0, 0)], blockInput := true },
             { kind := .sink, aid := 3, up := [1] }],
    parts := [{}, { kids := some [] }],
    scripts := [[.block 1 false]],
    env := { events := [{ uid := 0, time := 100, prio := 28, weight := 0, asset := 2, act := 19 }],
             nextUid := 1 } }

/-- **Empty batches (finding F12, repaired).**  Unblocking the input of a FULL buffer notifies
nobody (a full buffer does not forward `notify_upstream_of_available_space`).  Before the repair a
full buffer still accepted an empty batch (it has no parts), so this state lost a wake-up: the clock
was about to advance (to 100), the source held a ready empty batch that the buffer would have
accepted, and no attempt was queued.  Since the repair a full buffer refuses every offer
(`canAcceptBasic`: `level < cap`), so the same state is quiescent: the part is genuinely blocked. -/
theorem empty_batch_full_buffer_quiescent :
    Wake cexBatch ∧ ClockAdvances (cexBatch.exec (.script 0)) ∧
    ready (cexBatch.exec (.script 0)) 0 1 ∧
    ((cexBatch.exec (.script 0)).givePart 1 1).2 = false ∧
    Quiescent (cexBatch.exec (.script 0)) ∧ Wake (cexBatch.exec (.script 0)) := by decide

/-! ### non-vacuity, stage A -/

/-- one scripted event: at t = 5 script 0 adds one unit of capacity to pool 0 -/
def exEnvA : Env :=
  (({ terminated := false } : Env).applyAll Arith.exact [.sched 5 0 (Action.script 0).toNat 8 0]).1

/-- source 0 (cycle 1, 3 parts) → processor 1 (cycle 2, needs one unit of pool 0) → sink 2; the pool
has capacity 0 until the script adds a unit at t = 5 -/
def exRes : World :=
  { env := exEnvA
    scripts := [[.addRes 0 1]]
    rm := { pools := [(0, 0, 0)] }
    devs := [{ kind := .source, aid := 1, down := [1], cycle := 1, maxParts := some 3 },
             { kind := .processor, aid := 2, up := [0], down := [2], cycle := 2, resReq := some [(0, 1)] },
             { kind := .sink, aid := 3, up := [1] }]
    assets := [.dev 0, .dev 1, .dev 2] }

/-- the world is in the scope of stage A, not in that of stage S1 -/
theorem s2_exRes : S2 exRes ∧ ¬ S1 exRes ∧ hasRes exRes = true := by decide

theorem freshA_exRes : FreshA exRes :=
  ⟨⟨rfl, rfl, rfl, rfl, by decide⟩, by decide, fun _ => by decide⟩

theorem evOK_exRes : EvOK exRes := by
  intro n hn d hd
  have : n = 1 := by
    simpa [C02V.acts, exRes, exEnvA, Env.applyAll, Env.apply, Env.schedule, insort, Env.newEvent,
      Action.toNat] using hn
  subst this
  simp [Action.ofNat] at hd

/-- the hypotheses of the closed-world theorems of stage A are satisfiable -/
theorem goodA_exRes (n : Nat) : GoodA (runLoop n exRes.simulateInit) :=
  wakeA_reachable n s2_exRes.1 (by decide) (by decide) evOK_exRes freshA_exRes

/-- t = 1: the source holds part 0 and has been refused — the processor cannot get its unit, it
is registered with the manager (`waitingRes`, one waiting request), the source is flagged; the next
event is the script at t = 5: the clock is about to advance, the part is genuinely blocked -/
def exWaiting : World := runLoop 3 exRes.simulateInit

example : exWaiting.now = 1 ∧ ClockAdvances exWaiting ∧ ready exWaiting 0 0 ∧
    (exWaiting.dev 1).waitingRes = true ∧ exWaiting.rm.waiting = [([(0, 1)], Cb.proc 1)] ∧
    procReal exWaiting 1 = false ∧ procM (exWaiting.dev 1) = false ∧
    WakeA exWaiting ∧ BlockedR exWaiting 0 0 ∧ BlockedW exWaiting 0 0 ∧
    wouldAccept exWaiting.fuel exWaiting 1 0 = false ∧ Quiescent exWaiting := by decide

/-- … as the theorem says -/
example : Quiescent exWaiting := no_lost_wakeupA (goodA_exRes 3) (by decide)

/-- t = 5, right after the script has added the unit: (W3) — the processor WOULD accept now
(`wouldAccept`), the source is still flagged and has no attempt queued, but the manager's
availability check is queued for the current instant; the clock is not about to advance -/
def exChecking : World := runLoop 4 exRes.simulateInit

example : exChecking.now = 5 ∧ ready exChecking 0 0 ∧ ¬ Att exChecking 0 ∧
    (exChecking.dev 0).waitingDS = true ∧
    wouldAccept exChecking.fuel exChecking 1 0 = true ∧ procReal exChecking 1 = true ∧
    wouldAcceptR exChecking.fuel exChecking 1 0 = false ∧ ¬ BlockedW exChecking 0 0 ∧
    BlockedR exChecking 0 0 ∧ WakeA exChecking ∧
    C11W.QueuedL exChecking .rmCheck exChecking.now pOtherHigh (-1) ∧
    ¬ ClockAdvances exChecking ∧ ¬ Quiescent exChecking := by decide

/-- one event later the check has called the processor back (`procResourceCb` → `notify`): the
source has its attempt queued (W1); another event later the part has been handed over and the
processor holds its reservation -/
example : Att (runLoop 5 exRes.simulateInit) 0 ∧
    ((runLoop 5 exRes.simulateInit).dev 1).waitingRes = false ∧
    (runLoop 5 exRes.simulateInit).rm.waiting = [] ∧
    ((runLoop 6 exRes.simulateInit).dev 1).part = some 0 ∧
    ((runLoop 6 exRes.simulateInit).dev 1).reserved = some 0 ∧
    ((runLoop 6 exRes.simulateInit).dev 0).output = none := by decide

/-- `give` answers `wouldAccept` in both states (refused for want of resources / accepted) -/
example : (exWaiting.givePart 1 0).2 = false ∧ (exChecking.givePart 1 0).2 = true := by decide

/-- t = 8: the processor is busy with part 1 (holding its reservation), the source is blocked with
part 2 for the ordinary reason; the clock advances to 9 -/
example : ClockAdvances (runLoop 14 exRes.simulateInit) ∧ ready (runLoop 14 exRes.simulateInit) 0 2 ∧
    BlockedW (runLoop 14 exRes.simulateInit) 0 2 ∧ Quiescent (runLoop 14 exRes.simulateInit) := by
  decide

/-- As `exRes`, but the script also cancels the events of asset −1 (the resource manager's). -/
def cexCancelM : World := { exRes with scripts := [[.addRes 0 1, .cancel (-1)]] }

/-- **In stage A a script must not cancel the manager's events.**  The world is of the machinery's
scope `SC` and fresh, only `C11W.S` fails (the script cancels asset −1).  The script cancels the
availability check it has just caused: at t = 5 the queue runs empty while the source holds a ready
part that the processor — whose request fits now — would accept. -/
theorem cancel_manager_false :
    SC cexCancelM ∧ ¬ S2 cexCancelM ∧ FreshA cexCancelM ∧
    ClockAdvances (runLoop 5 cexCancelM.simulateInit) ∧
    ready (runLoop 5 cexCancelM.simulateInit) 0 0 ∧
    wouldAccept (runLoop 5 cexCancelM.simulateInit).fuel (runLoop 5 cexCancelM.simulateInit) 1 0 = true ∧
    ¬ Quiescent (runLoop 5 cexCancelM.simulateInit) := by
  refine ⟨by decide, by decide, ⟨⟨rfl, rfl, rfl, rfl, by decide⟩, by decide, fun _ => by decide⟩,
    by decide, by decide, by decide, by decide⟩

/-! ### non-vacuity, stage B -/

/-- source 0 (cycle 1, 7 parts) → batcher 1 (batches of 2) → slow sink 2 (cycle 5) -/
def exBat : World :=
  { devs := [{ kind := .source, aid := 1, down := [1], cycle := 1, maxParts := some 7 },
             { kind := .batcher, aid := 2, up := [0], down := [2], bsize := some 2 },
             { kind := .sink, aid := 3, up := [1], cycle := 5 }],
    assets := [.dev 0, .dev 1, .dev 2] }

/-- source 0 generates batches of 3 → buffer 1 (capacity 4) → unbatcher 2 → slow sink 3 -/
def exUnb : World :=
  { devs := [{ kind := .source, aid := 1, down := [1], cycle := 1, maxParts := some 4, genBatch := 3 },
             { kind := .buffer, aid := 2, up := [0], down := [2], cap := some 4 },
             { kind := .batcher, aid := 3, up := [1], down := [3] },
             { kind := .sink, aid := 4, up := [2], cycle := 2 }],
    assets := [.dev 0, .dev 1, .dev 2, .dev 3] }

/-- both are in the scope of stage B, not in that of stage A -/
theorem s3_exBat : S3 exBat ∧ ¬ S2 exBat ∧ S3 exUnb ∧ ¬ S2 exUnb := by decide

theorem freshA_exBat : FreshA exBat ∧ FreshA exUnb :=
  ⟨⟨⟨rfl, rfl, rfl, rfl, by decide⟩, by decide, fun h => by cases h⟩,
   ⟨⟨rfl, rfl, rfl, rfl, by decide⟩, by decide, fun h => by cases h⟩⟩

theorem evOK_exBat : EvOK exBat ∧ EvOK exUnb :=
  ⟨fun n hn => by simp [C02V.acts, exBat] at hn, fun n hn => by simp [C02V.acts, exUnb] at hn⟩

/-- the hypotheses of the closed-world theorems of stage B are satisfiable -/
theorem goodB_exBat (n : Nat) : GoodB (runLoop n (exBat.simulateInit.runBegin 100).1) :=
  wakeB_simulate n 100 s3_exBat.1 C01.inv_init (by decide) evOK_exBat.1 freshA_exBat.1

theorem goodB_exUnb (n : Nat) : GoodB (runLoop n (exUnb.simulateInit.runBegin 100).1) :=
  wakeB_simulate n 100 s3_exBat.2.2.1 C01.inv_init (by decide) evOK_exBat.2 freshA_exBat.2

/-- t = 5: the batcher holds the complete batch 4 = [3, 5] in its output slot and is flagged (the
sink is busy until 7), the source holds part 6 and is flagged (the batcher refuses: its output is
occupied); the clock is about to advance; both parts are genuinely blocked -/
def exBatBlocked : World := runLoop 12 (exBat.simulateInit.runBegin 100).1

example : exBatBlocked.now = 5 ∧ ClockAdvances exBatBlocked ∧
    (exBatBlocked.part 4).kids = some [3, 5] ∧ ready exBatBlocked 1 4 ∧ ready exBatBlocked 0 6 ∧
    BlockedW exBatBlocked 1 4 ∧ BlockedW exBatBlocked 0 6 ∧ WakeA exBatBlocked ∧
    Quiescent exBatBlocked := by decide

example : Quiescent exBatBlocked := no_lost_wakeupB (goodB_exBat 12) (by decide)

/-- t = 7: the sink has notified, the batcher has handed its batch over and — counted as willing
after its own notification — is free again; the source's attempt is queued (W1); one event later
the batcher has taken part 6 into a new batch under construction and accepts again without any
further notification -/
example : Att (runLoop 14 (exBat.simulateInit.runBegin 100).1) 0 ∧
    ((runLoop 14 (exBat.simulateInit.runBegin 100).1).dev 1).output = none ∧
    ((runLoop 15 (exBat.simulateInit.runBegin 100).1).dev 1).inprog = some 7 ∧
    ((runLoop 15 (exBat.simulateInit.runBegin 100).1).part 7).kids = some [6] ∧
    wouldAccept (runLoop 15 (exBat.simulateInit.runBegin 100).1).fuel
      (runLoop 15 (exBat.simulateInit.runBegin 100).1) 1 0 = true := by decide

/-- t = 3 in the second line: the buffer holds batch 7 (3 parts, level 3 of 4); the source holds
batch 11 (3 parts) and is refused because 3 + 3 > 4 — a buffer counts all parts of a batch; the
buffer's head is refused by the busy unbatcher; the clock is about to advance, everything is
genuinely blocked.  A SINGLE part would be accepted by the buffer. -/
def exUnbBlocked : World := runLoop 15 (exUnb.simulateInit.runBegin 100).1

example : exUnbBlocked.now = 3 ∧ ClockAdvances exUnbBlocked ∧
    exUnbBlocked.leafCount 11 = 3 ∧ (exUnbBlocked.dev 1).level = 3 ∧
    ready exUnbBlocked 0 11 ∧ ready exUnbBlocked 1 7 ∧ ready exUnbBlocked 2 2 ∧
    wouldAccept exUnbBlocked.fuel exUnbBlocked 1 11 = false ∧
    wouldAccept exUnbBlocked.fuel exUnbBlocked 1 2 = true ∧
    BlockedW exUnbBlocked 0 11 ∧ BlockedW exUnbBlocked 1 7 ∧ BlockedW exUnbBlocked 2 2 ∧
    WakeA exUnbBlocked ∧ Quiescent exUnbBlocked := by decide

example : Quiescent exUnbBlocked := no_lost_wakeupB (goodB_exUnb 15) (by decide)

/-- `give` answers `wouldAccept` for a batch offered to the buffer (refused) -/
example : (exUnbBlocked.givePart 1 11).2 = false := by decide

/-! #### stage C: one group shared by two lines -/

/-- two lines share the machine 5 of one group: source 0 → group path 2 → sink 7 and source 1 →
group path 3 → sink 8; the group (input 4 → handler 5 (cycle 2) → output 6) is entered through
either path, and the part leaves towards the sink of the path it came in through (slow sinks,
cycle 5) -/
def exGrp : World :=
  { devs := [{ kind := .source, aid := 1, down := [2], cycle := 1, maxParts := some 3 },
             { kind := .source, aid := 2, down := [3], cycle := 1, maxParts := some 3 },
             { kind := .gpath, aid := 3, group := 0, up := [0], down := [7] },
             { kind := .gpath, aid := 4, group := 0, up := [1], down := [8] },
             { kind := .ginput, aid := 5, group := 0, down := [5] },
             { kind := .handler, aid := 6, up := [4], down := [6], cycle := 2 },
             { kind := .goutput, aid := 7, group := 0, up := [5] },
             { kind := .sink, aid := 8, up := [2], cycle := 5 },
             { kind := .sink, aid := 9, up := [3], cycle := 5 }],
    groups := [{ paths := [2, 3], input := 4, output := 6 }],
    assets := [.dev 0, .dev 1, .dev 2, .dev 3, .dev 4, .dev 5, .dev 6, .dev 7, .dev 8] }

/-- in the scope of stage C, not in that of stage B -/
theorem s4_exGrp : S4 exGrp ∧ ¬ S3 exGrp := by decide

theorem freshA_exGrp : FreshA exGrp :=
  ⟨⟨rfl, rfl, rfl, rfl, by decide⟩, by decide, fun h => by cases h⟩

theorem evOK_exGrp : EvOK exGrp := fun n hn => by simp [C02V.acts, exGrp] at hn

/-- the hypotheses of the closed-world theorems of stage C are satisfiable -/
theorem goodC_exGrp (n : Nat) : GoodB (runLoop n (exGrp.simulateInit.runBegin 100).1) :=
  wakeC_simulate n 100 s4_exGrp.1 C01.inv_init (by decide) evOK_exGrp freshA_exGrp

/-- t = 5: the shared machine 5 holds part 2 of the first line (group-path stack [2]) and is flagged:
the sink 7 of ITS path is busy until 8 (the sink 8 of the other line is idle — the group output
passes the part on along the path it came in through only); both sources hold a part and are
flagged, the machine being occupied; the clock is about to advance; everything is genuinely
blocked -/
def exGrpBlocked : World := runLoop 14 (exGrp.simulateInit.runBegin 100).1

example : exGrpBlocked.now = 5 ∧ ClockAdvances exGrpBlocked ∧
    (exGrpBlocked.part 2).stack = [2] ∧ (exGrpBlocked.dev 8).part = none ∧
    ready exGrpBlocked 5 2 ∧ ready exGrpBlocked 0 3 ∧ ready exGrpBlocked 1 1 ∧
    BlockedW exGrpBlocked 5 2 ∧ BlockedW exGrpBlocked 0 3 ∧ BlockedW exGrpBlocked 1 1 ∧
    WakeA exGrpBlocked ∧ Quiescent exGrpBlocked := by decide

example : Quiescent exGrpBlocked := no_lost_wakeupC (goodC_exGrp 14) (by decide)

/-- `give` answers `wouldAccept` through the group: the offer of part 3 to group path 2 is refused
(the machine is occupied) -/
example : (exGrpBlocked.givePart 2 3).2 = false ∧
    wouldAccept exGrpBlocked.fuel exGrpBlocked 2 3 = false := by decide

/-- t = 8: the sink 7 has notified its group path, the notification has gone through the group
output to the machine, which has handed its part over and notified — through the group input —
BOTH group paths: both sources have a hand-over attempt queued (W1) -/
example : (runLoop 16 (exGrp.simulateInit.runBegin 100).1).now = 8 ∧
    Att (runLoop 16 (exGrp.simulateInit.runBegin 100).1) 0 ∧
    Att (runLoop 16 (exGrp.simulateInit.runBegin 100).1) 1 ∧
    ((runLoop 16 (exGrp.simulateInit.runBegin 100).1).dev 5).output = none := by decide

/-- Necessity of "a group input has no upstream neighbour" (`GroupOK`): a device wired DIRECTLY in
front of a group input (not through a group path) is never woken — a group input forwards
notifications to the group paths only. -/
def cexGin : World :=
  { devs := [{ kind := .source, aid := 1, down := [1], cycle := 1, maxParts := some 3 },
             { kind := .ginput, aid := 2, group := 0, up := [0], down := [2] },
             { kind := .handler, aid := 3, up := [1], down := [3], cycle := 3 },
             { kind := .sink, aid := 4, up := [2] }],
    groups := [{ paths := [], input := 1, output := 0 }],
    assets := [.dev 0, .dev 1, .dev 2, .dev 3] }

/-- t = 4: the handler has handed its part over and is free, the source still holds part 1 and is
flagged, nothing is queued before the end of the run: a lost wake-up.  The world violates only the
clause "a group input has no upstream neighbour" of the scope. -/
theorem group_input_upstream_false :
    ¬ S4 cexGin ∧ FreshA cexGin ∧
    ClockAdvances (runLoop 6 (cexGin.simulateInit.runBegin 100).1) ∧
    ready (runLoop 6 (cexGin.simulateInit.runBegin 100).1) 0 1 ∧
    wouldAccept (runLoop 6 (cexGin.simulateInit.runBegin 100).1).fuel
      (runLoop 6 (cexGin.simulateInit.runBegin 100).1) 1 1 = true ∧
    ¬ Quiescent (runLoop 6 (cexGin.simulateInit.runBegin 100).1) := by
  refine ⟨by decide, ⟨⟨rfl, rfl, rfl, rfl, by decide⟩, by decide, fun h => by cases h⟩,
    by decide, by decide, by decide, by decide⟩

/-! ## STAGE R: mid-run re-wiring ("connection added")

`S1R w` — the scope of stage S1, but scripts MAY contain `rewire x ups` (`OpSC`, `RewOK`, `EnvOK`).
`GoodR w` — what the induction carries.  `ReachR w0 w` — the reachable states: initialisation,
events, whole runs, beginnings of runs, and operations issued from outside between events that are
taken from the vocabulary of the scripts. -/

/-- **The scope of stage S1 with mid-run re-wiring**: the machinery's scope `SC` (which admits
`rewire x ups` in scripts under the static conditions `RewOK`, `EnvOK`) without resource
requirements, batchers, batches and groups. -/
def S1R (w : World) : Prop := SC w ∧ hasRes w = false ∧ NoBatch w ∧ PartsLeaf w

instance (w : World) : Decidable (S1R w) := by unfold S1R; infer_instance

/-- S1 is S1R without re-wiring scripts. -/
theorem s1_iff_s1r (w : World) : S1 w ↔ S1R w ∧ NR w := by
  rw [S1_iff]
  constructor
  · rintro ⟨a, b, c, d, e⟩; exact ⟨⟨a, b, c, d⟩, e⟩
  · rintro ⟨⟨a, b, c, d⟩, e⟩; exact ⟨a, b, c, d, e⟩

theorem S1.s1r {w : World} (h : S1 w) : S1R w := ((s1_iff_s1r w).mp h).1

/-- `RewOK` in a world without group devices. -/
theorem rewOK_iff_of_s1r {w : World} (h : S1R w) (x : Nat) (ups : List Nat) :
    RewOK w x ups ↔ (x < w.devs.length ∧ ((w.dev x).kind = .source → ups = []) ∧
      ∀ d ∈ w.devs, d.down.count x ≤ 1) := by
  have hg := noGrp_of_noBatch h.2.2.1
  unfold RewOK
  constructor
  · rintro ⟨h1, h2, h3⟩; exact ⟨h1, fun hk => h2 (Or.inl hk), h3⟩
  · rintro ⟨h1, h2, h3⟩
    exact ⟨h1, fun hk => hk.elim h2 (fun hk => absurd hk (hg x).2.1), h3⟩

/-- Everything the closed-world induction carries (stage R). -/
structure GoodR (w : World) : Prop where
  s : S1R w
  inv : C01.Inv w.env
  now0 : 0 ≤ w.now
  ev : EvOK w
  valid : HeldValid w
  wake : Wake w
  /-- no script re-wires, or every device is registered and has been initialised -/
  ini : IOK w

theorem goodR_iff (w : World) :
    GoodR w ↔ G [] [] [] w ∧ hasRes w = false ∧ NoBatch w ∧ IOK w := by
  constructor
  · intro h
    obtain ⟨hsc, hn, hb, hpl⟩ := h.s
    exact ⟨⟨hsc, fun _ => hpl, h.inv, h.now0, h.ev, h.valid, kidsValid_of_leaf hpl,
      stkOK_of_noBatch hb, Or.inl hn, (fun _ hx => nomatch hx), (wake_iff hn hb).mp h.wake⟩,
      hn, hb, h.ini⟩
  · rintro ⟨h, hn, hb, hi⟩
    exact ⟨⟨h.sc, hn, hb, h.pl hb⟩, h.inv, h.now0, h.ev, h.valid, (wake_iff hn hb).mpr h.wake, hi⟩

theorem GoodR.goodB {w : World} (h : GoodR w) : GoodB w :=
  ⟨((goodR_iff w).mp h).1, (fun hr => by rw [h.s.2.1] at hr; cases hr),
    fun hn => absurd h.s.2.2.1 hn, h.ini, C03Z.gc_noGrp (noGrp_of_noBatch h.s.2.2.1)⟩

theorem goodR_of_goodB {w : World} (h : GoodB w) (hn : hasRes w = false) (hb : NoBatch w) :
    GoodR w := (goodR_iff w).mpr ⟨h.g, hn, hb, h.i⟩

/-- `Good` (stage S1) is `GoodR` in a world whose scripts do not re-wire. -/
theorem Good.goodR {w : World} (h : Good w) : GoodR w :=
  goodR_of_goodB h.goodB h.s1.noRes h.s1.noBatch

/-- **R1. `wakeR_init`**: after `simulateInit` of a fresh world of the scope that satisfies the
registration invariant (`C20W.Reg`: every device is registered, asset id = registration index + 1,
nothing initialised yet — what the constructors of the Python library guarantee) the invariant
holds, and every device has been initialised. -/
theorem wakeR_init {w : World} (hs : S1R w) (hi : C01.Inv w.env) (h0 : 0 ≤ w.now) (he : EvOK w)
    (hf : C02.Fresh w) (hreg : C20W.Reg w) : GoodR w.simulateInit := by
  obtain ⟨hsc, hn, hb, hpl⟩ := hs
  have hg : G [] [] [] w :=
    ⟨hsc, fun _ => hpl, hi, h0, he, heldValid_fresh hf, kidsValid_of_leaf hpl, stkOK_of_noBatch hb,
      Or.inl hn, (fun _ hx => nomatch hx), wakeG_fresh hf⟩
  exact (goodR_iff _).mpr ⟨hg.simulateInitG,
    by rw [hasRes_of_ss (C02V.ss_simulateInit w)]; exact hn,
    (noBatch_of_sw (sw_simulateInit w).sw_eq).mpr hb, Or.inr (ini_simulateInit hreg)⟩

/-- **R2. `wakeR_step`**: `Environment.step` preserves the invariant — including the scope `S1R`
(whatever the scripts re-wire), the queue invariant, `EvOK`, `HeldValid` and `Wake`. -/
theorem wakeR_step {w w' : World} {e : Event} (h : GoodR w) (hst : w.step = some (e, w')) :
    GoodR w' := by
  have r := swrw_step w w' e h.goodB.g.sc.nc hst
  exact goodR_of_goodB (h.goodB.step hst) (by rw [hasRes_of_swr' r]; exact h.s.2.1)
    ((noBatch_of_swr' r).mpr h.s.2.2.1)

/-- The scope of stage R is preserved by every step (the re-wired world is in the scope again). -/
theorem s1r_step {w w' : World} {e : Event} (h : GoodR w) (hst : w.step = some (e, w')) : S1R w' :=
  (wakeR_step h hst).s

theorem wakeR_runLoop (n : Nat) {w : World} (h : GoodR w) : GoodR (runLoop n w) := by
  have r := swrw_runLoop n w h.goodB.g.sc.nc
  exact goodR_of_goodB (h.goodB.runLoop n) (by rw [hasRes_of_swr' r]; exact h.s.2.1)
    ((noBatch_of_swr' r).mpr h.s.2.2.1)

theorem wakeR_runBegin {w : World} (h : GoodR w) (d : Int) : GoodR (w.runBegin d).1 :=
  goodR_of_goodB (h.goodB.runBegin d) (by rw [hasRes_of_ss (ss_runBegin w d)]; exact h.s.2.1)
    ((noBatch_of_sw (sw_runBegin w d).sw_eq).mpr h.s.2.2.1)

/-- **R2'. An operation issued from outside** between two events preserves the invariant, if it is
taken from the vocabulary of the scripts (every operation a script of the world contains is
admissible whenever it is issued — the conditions of the scope do not depend on the state). -/
theorem wakeR_applyOp {w : World} (h : GoodR w) (o : Op) (ho : ∃ l ∈ w.scripts, o ∈ l) :
    GoodR (w.applyOp o).1 := by
  obtain ⟨l, hl, hol⟩ := ho
  have hg := ((goodR_iff w).mp h).1
  have hop := hg.sc.scriptOp hl hol
  have hnc := opSC_not_create hop
  have r : C02V.swr (w.applyOp o).1 = C02V.swr w := C02V.swr_applyOp w o hnc
  refine (goodR_iff _).mpr ⟨hg.applyOpG o hop h.ini ⟨l, hl, hol⟩,
    by rw [hasRes_of_swr r]; exact h.s.2.1, (noBatch_of_swr r).mpr h.s.2.2.1, ?_⟩
  have := h.ini.step (istep_applyOp w o hnc)
  exact this.step ⟨rfl, C20W.Pv.of_same rfl⟩

/-- **A re-wiring issued from outside** (between two events), whether or not a script contains it:
the invariant is kept if the re-wiring is admissible (`RewOK`) and the re-wired world is in the
scope `SC` again — both decidable on the current world — and every device has been initialised. -/
theorem wakeR_rewire {w : World} (h : GoodR w) (hi : Ini w) (x : Nat) (ups : List Nat)
    (hok : RewOK w x ups) (hfin : SC (w.rewire x ups)) :
    GoodR (w.rewire x ups) ∧ Ini (w.rewire x ups) := by
  have hg := ((goodR_iff w).mp h).1.rewireD x ups hok hfin (fun z hz => hi.inited hz)
  have r : C02V.swr (w.rewire x ups) = C02V.swr w := C02V.swr_rewire w x ups
  have hi' : Ini (w.rewire x ups) :=
    hi.step ⟨C02V.scr_rewire w x ups, C20W.Pv_applyOp w (.rewire x ups) rfl⟩
  exact ⟨(goodR_iff _).mpr ⟨hg, by rw [hasRes_of_swr r]; exact h.s.2.1,
    (noBatch_of_swr r).mpr h.s.2.2.1, Or.inr hi'⟩, hi'⟩

/-- **Reachable states** (stage R): `System.simulate`'s initialisation of the fresh world, then any
number of events (`Environment.step`, or whole runs of the event loop `runLoop` with any fuel),
beginnings of `Environment.run(d)`, operations issued from outside between events that occur in
some script of the world, and ANY re-wiring issued from outside that is admissible and leaves the
world in the scope (`RewOK`, `SC` of the re-wired world: decidable on the current world). -/
inductive ReachR (w0 : World) : World → Prop
  | init : ReachR w0 w0.simulateInit
  | step {w w' : World} {e : Event} : ReachR w0 w → w.step = some (e, w') → ReachR w0 w'
  | loop {w : World} (n : Nat) : ReachR w0 w → ReachR w0 (runLoop n w)
  | run {w : World} (d : Int) : ReachR w0 w → ReachR w0 (w.runBegin d).1
  | op {w : World} (o : Op) : ReachR w0 w → (∃ l ∈ w.scripts, o ∈ l) → ReachR w0 (w.applyOp o).1
  | rew {w : World} (x : Nat) (ups : List Nat) : ReachR w0 w → RewOK w x ups →
      SC (w.rewire x ups) → ReachR w0 (w.applyOp (.rewire x ups)).1

/-- the invariant and "every device has been initialised" hold in every reachable state -/
theorem wakeR_reachable' {w0 w : World} (hs : S1R w0) (hi : C01.Inv w0.env) (h0 : 0 ≤ w0.now)
    (he : EvOK w0) (hf : C02.Fresh w0) (hreg : C20W.Reg w0) (hr : ReachR w0 w) :
    GoodR w ∧ Ini w := by
  induction hr with
  | init => exact ⟨wakeR_init hs hi h0 he hf hreg, ini_simulateInit hreg⟩
  | step _ hst ih => exact ⟨wakeR_step ih.1 hst, ih.2.step (istep_step hst)⟩
  | loop n _ ih => exact ⟨wakeR_runLoop n ih.1, ih.2.step (istep_runLoop n _)⟩
  | run d _ ih => exact ⟨wakeR_runBegin ih.1 d, ih.2.step (istep_runBegin _ d)⟩
  | @op w o _ ho ih =>
    obtain ⟨l, hl, hol⟩ := ho
    have hnc := opSC_not_create (((goodR_iff w).mp ih.1).1.sc.scriptOp hl hol)
    refine ⟨wakeR_applyOp ih.1 o ⟨l, hl, hol⟩, ?_⟩
    exact (ih.2.step (istep_applyOp w o hnc)).step ⟨rfl, C20W.Pv.of_same rfl⟩
  | rew x ups _ hok hfin ih => exact wakeR_rewire ih.1 ih.2 x ups hok hfin

/-- **R3. `wakeR_reachable`**: the invariant holds in every reachable state. -/
theorem wakeR_reachable {w0 w : World} (hs : S1R w0) (hi : C01.Inv w0.env) (h0 : 0 ≤ w0.now)
    (he : EvOK w0) (hf : C02.Fresh w0) (hreg : C20W.Reg w0) (hr : ReachR w0 w) : GoodR w :=
  (wakeR_reachable' hs hi h0 he hf hreg hr).1

/-- the static class is preserved along every reachable state -/
theorem s1r_reachable {w0 w : World} (hs : S1R w0) (hi : C01.Inv w0.env) (h0 : 0 ≤ w0.now)
    (he : EvOK w0) (hf : C02.Fresh w0) (hreg : C20W.Reg w0) (hr : ReachR w0 w) : S1R w :=
  (wakeR_reachable hs hi h0 he hf hreg hr).s

theorem wakeR_simulate (n : Nat) (d : Int) {w : World} (hs : S1R w) (hi : C01.Inv w.env)
    (h0 : 0 ≤ w.now) (he : EvOK w) (hf : C02.Fresh w) (hreg : C20W.Reg w) :
    GoodR (runLoop n (w.simulateInit.runBegin d).1) :=
  wakeR_reachable hs hi h0 he hf hreg (.loop n (.run d .init))

/-- **R4. `blocked_genuinely_rewire`**: when time is about to advance, every ready part is flagged
and no downstream neighbour — in the wiring of that moment — would accept it. -/
theorem blocked_genuinely_rewire {w : World} (h : GoodR w) (hc : ClockAdvances w) (d p : Nat)
    (hr : ready w d p) : BlockedW w d p :=
  blocked_genuinelyB h.goodB hc d p hr

theorem no_lost_wakeup_rewire {w : World} (h : GoodR w) (hc : ClockAdvances w) : Quiescent w :=
  no_lost_wakeupB h.goodB hc

/-- **The closed-world statement with mid-run re-wiring**: in every state reachable (by events,
runs, and outside operations from the scripts' vocabulary) from an initialised fresh world of the
scope `S1R` — whose scripts may re-wire the line — whenever the clock is about to advance no ready
part could be handed over. -/
theorem no_lost_wakeup_rewire_reachable {w0 w : World} (hs : S1R w0) (hi : C01.Inv w0.env)
    (h0 : 0 ≤ w0.now) (he : EvOK w0) (hf : C02.Fresh w0) (hreg : C20W.Reg w0) (hr : ReachR w0 w)
    (hc : ClockAdvances w) : Quiescent w :=
  no_lost_wakeup_rewire (wakeR_reachable hs hi h0 he hf hreg hr) hc

/-- the same in the shape of `no_lost_wakeup_reachable` -/
theorem no_lost_wakeup_rewire_runLoop (n : Nat) {w : World} (hs : S1R w) (hi : C01.Inv w.env)
    (h0 : 0 ≤ w.now) (he : EvOK w) (hf : C02.Fresh w) (hreg : C20W.Reg w)
    (hc : ClockAdvances (runLoop n w.simulateInit)) : Quiescent (runLoop n w.simulateInit) :=
  no_lost_wakeup_rewire_reachable hs hi h0 he hf hreg (.loop n .init) hc

/-- **"Connection added" — the one-call statement inside the closed world.**  In a state of the
invariant, after `rewire x ups` (issued by a script or from outside) every holder of a part — in
particular every new upstream neighbour `u ∈ ups` — has a live hand-over attempt queued for the due
time of its part, or is flagged and genuinely blocked IN THE NEW WIRING: if the newly connected `x`
would accept the part of `u`, the attempt of `u` is queued at that same instant. -/
theorem connection_added {w : World} (h : GoodR w) (x : Nat) (ups : List Nat)
    (ho : ∃ l ∈ w.scripts, Op.rewire x ups ∈ l) (u p : Nat)
    (hu : ready (w.rewire x ups) u p) (hx : x ∈ ((w.rewire x ups).dev u).down)
    (hacc : wouldAccept (w.rewire x ups).fuel (w.rewire x ups) x p = true) :
    ∃ e ∈ (w.rewire x ups).env.events, e.act = (Action.passPart u).toNat ∧
      e.asset = ((w.rewire x ups).dev u).aid ∧ e.cancelled = false ∧ e.time = (w.rewire x ups).now := by
  have hg : GoodR (w.applyOp (.rewire x ups)).1 := wakeR_applyOp h _ ho
  have hg' : GoodR (w.rewire x ups) := hg
  rcases (wake_spec hg'.s.2.1 hg'.s.2.2.1).mp hg'.wake u p hu.1 with ha | hb
  · exact att_ready_now hg'.inv hu ha
  · rw [hb.2 x hx] at hacc; cases hacc

/-- **"Connection removed".**  After `rewire x ups` a holder that has lost its only would-be
acceptor is still covered by the invariant: flagged with no downstream neighbour willing, or with
an attempt queued (which will find nobody and flag it). -/
theorem connection_removed {w : World} (h : GoodR w) (x : Nat) (ups : List Nat)
    (ho : ∃ l ∈ w.scripts, Op.rewire x ups ∈ l) : Wake (w.rewire x ups) :=
  (show GoodR (w.rewire x ups) from wakeR_applyOp h _ ho).wake

/-! ### non-vacuity, stage R -/

/-- one scripted event: script `k` runs at time `t` -/
def envAt (t : Int) (k : Nat) : Env :=
  (({ terminated := false } : Env).applyAll Arith.exact [.sched t 0 (Action.script k).toNat 8 0]).1

/-- the only event queued initially is the script's: no failure is pending -/
theorem evOK_envAt5 (w : World) (h : w.env = envAt 5 0) : EvOK w := by
  intro n hn d hd
  have : n = 1 := by
    rw [h] at hn
    simpa [C02V.acts, envAt, Env.applyAll, Env.apply, Env.schedule, insort, Env.newEvent,
      Action.toNat] using hn
  subst this
  simp [Action.ofNat] at hd

theorem evOK_envAt3 (w : World) (h : w.env = envAt 3 0) : EvOK w := by
  intro n hn d hd
  have : n = 1 := by
    rw [h] at hn
    simpa [C02V.acts, envAt, Env.applyAll, Env.apply, Env.schedule, insort, Env.newEvent,
      Action.toNat] using hn
  subst this
  simp [Action.ofNat] at hd

/-- source 0 (cycle 1, 5 parts) is NOT connected; machine 1 (cycle 3) → sink 2; at t = 5 script 0
connects the source to the machine: `rewire 1 [0]` -/
def exRew : World :=
  { env := envAt 5 0
    scripts := [[.rewire 1 [0]]]
    devs := [{ kind := .source, aid := 1, cycle := 1, maxParts := some 5 },
             { kind := .handler, aid := 2, down := [2], cycle := 3 },
             { kind := .sink, aid := 3, up := [1] }]
    assets := [.dev 0, .dev 1, .dev 2] }

/-- the world is in the scope of stage R (its script re-wires), not in that of stage S1; it
satisfies the registration invariant; the re-wiring is admissible and within the envelope -/
theorem s1r_exRew : S1R exRew ∧ ¬ S1 exRew ∧ C20W.Reg exRew ∧ RewOK exRew 1 [0] ∧ EnvOK exRew := by
  decide

theorem fresh_exRew : C02.Fresh exRew := ⟨rfl, rfl, rfl, rfl, by decide⟩

/-- the hypotheses of the closed-world theorem of stage R are satisfiable -/
theorem goodR_exRew (n : Nat) : GoodR (runLoop n exRew.simulateInit) :=
  wakeR_reachable s1r_exRew.1 (by decide) (by decide) (evOK_envAt5 _ rfl) fresh_exRew
    s1r_exRew.2.2.1 (.loop n .init)

/-- t = 1: the source holds part 0, has found nobody to hand it to (no downstream neighbour) and is
flagged; the clock is about to advance to 5; the part is genuinely blocked -/
example : (runLoop 2 exRew.simulateInit).now = 1 ∧ ClockAdvances (runLoop 2 exRew.simulateInit) ∧
    ready (runLoop 2 exRew.simulateInit) 0 0 ∧ BlockedW (runLoop 2 exRew.simulateInit) 0 0 ∧
    ((runLoop 2 exRew.simulateInit).dev 0).down = [] ∧
    Quiescent (runLoop 2 exRew.simulateInit) := by decide

/-- **Connection added.**  t = 5, right after the script: the source is connected to the free
machine (`down = [1]`), which would accept its part; the source is no longer flagged and its
hand-over attempt is queued for this very instant (W1): the clock is NOT about to advance -/
example : (runLoop 3 exRew.simulateInit).now = 5 ∧
    ((runLoop 3 exRew.simulateInit).dev 0).down = [1] ∧
    ((runLoop 3 exRew.simulateInit).dev 1).up = [0] ∧
    wouldAccept (runLoop 3 exRew.simulateInit).fuel (runLoop 3 exRew.simulateInit) 1 0 = true ∧
    ((runLoop 3 exRew.simulateInit).dev 0).waitingDS = false ∧
    Att (runLoop 3 exRew.simulateInit) 0 ∧ Wake (runLoop 3 exRew.simulateInit) ∧
    ¬ ClockAdvances (runLoop 3 exRew.simulateInit) ∧ S1R (runLoop 3 exRew.simulateInit) := by decide

/-- … and one event later — still at t = 5 — the part has moved into the machine -/
example : (runLoop 4 exRew.simulateInit).now = 5 ∧
    ((runLoop 4 exRew.simulateInit).dev 1).part = some 0 ∧
    ((runLoop 4 exRew.simulateInit).dev 0).output = none := by decide

/-- the theorem applies to the state at t = 6 (machine busy, source blocked behind it): quiescent -/
example : Quiescent (runLoop 6 exRew.simulateInit) :=
  no_lost_wakeup_rewire (goodR_exRew 6) (by decide)

example : ready (runLoop 6 exRew.simulateInit) 0 1 ∧ BlockedW (runLoop 6 exRew.simulateInit) 0 1 ∧
    wouldAccept (runLoop 6 exRew.simulateInit).fuel (runLoop 6 exRew.simulateInit) 1 1 = false := by
  decide

/-- source 0 → slow machine 1 (cycle 10) → sink 2; at t = 3 script 0 DISCONNECTS the machine from
the source: `rewire 1 []` -/
def exCut : World :=
  { env := envAt 3 0
    scripts := [[.rewire 1 []]]
    devs := [{ kind := .source, aid := 1, down := [1], cycle := 1, maxParts := some 5 },
             { kind := .handler, aid := 2, up := [0], down := [2], cycle := 10 },
             { kind := .sink, aid := 3, up := [1] }]
    assets := [.dev 0, .dev 1, .dev 2] }

theorem s1r_exCut : S1R exCut ∧ C20W.Reg exCut := by decide

theorem goodR_exCut (n : Nat) : GoodR (runLoop n exCut.simulateInit) :=
  wakeR_reachable s1r_exCut.1 (by decide) (by decide) (evOK_envAt3 _ rfl)
    ⟨rfl, rfl, rfl, rfl, by decide⟩ s1r_exCut.2 (.loop n .init)

/-- **Connection removed.**  t = 11: the machine — the only would-be acceptor of the source's part —
has finished, is free and WOULD accept, but it is no longer a downstream neighbour of the source
(`down = []`); the source is still flagged, nothing is queued, the part is genuinely blocked: the
state is quiescent (the removed device notifies its NEW upstream neighbours only — nobody) -/
example : (runLoop 8 exCut.simulateInit).now = 11 ∧ ClockAdvances (runLoop 8 exCut.simulateInit) ∧
    ready (runLoop 8 exCut.simulateInit) 0 1 ∧
    ((runLoop 8 exCut.simulateInit).dev 0).down = [] ∧
    wouldAccept (runLoop 8 exCut.simulateInit).fuel (runLoop 8 exCut.simulateInit) 1 1 = true ∧
    BlockedW (runLoop 8 exCut.simulateInit) 0 1 ∧ Quiescent (runLoop 8 exCut.simulateInit) := by
  decide

example : Quiescent (runLoop 8 exCut.simulateInit) :=
  no_lost_wakeup_rewire (goodR_exCut 8) (by decide)

/-- an operation issued from outside (taken from the scripts' vocabulary): re-wiring at t = 1 -/
example : GoodR ((runLoop 2 exRew.simulateInit).applyOp (.rewire 1 [0])).1 :=
  wakeR_applyOp (goodR_exRew 2) _ ⟨_, List.mem_singleton.mpr rfl, List.mem_singleton.mpr rfl⟩

/-! ### the restrictions of stage R are needed (machine-checked counterexamples) -/

/-- as `exCut`, but the machine is entered TWICE in the source's `down` list; the script runs at
t = 2 -/
def cexDup : World :=
  { env := envAt 2 0
    scripts := [[.rewire 1 []]]
    devs := [{ kind := .source, aid := 1, down := [1, 1], cycle := 1, maxParts := some 5 },
             { kind := .handler, aid := 2, up := [0], down := [2], cycle := 3 },
             { kind := .sink, aid := 3, up := [1] }]
    assets := [.dev 0, .dev 1, .dev 2] }

/-- **A re-wired device must be nobody's downstream neighbour twice** (`RewOK`, third clause).
`set_upstream` removes ONE entry per old upstream neighbour: the machine stays in the source's
`down` list but no longer notifies the source.  The world violates only that clause (without the
script it is in the scope; it is fresh and registered); at t = 4 the queue runs empty while the
source holds a ready part that the free machine would accept: a lost wake-up. -/
theorem rewire_duplicate_false :
    S1R { cexDup with scripts := [] } ∧ ¬ S1R cexDup ∧ C20W.Reg cexDup ∧ C02.Fresh cexDup ∧
    (1 < cexDup.devs.length ∧ (cexDup.dev 1).kind ≠ .source ∧
      ¬ ∀ d ∈ cexDup.devs, d.down.count 1 ≤ 1) ∧
    ClockAdvances (runLoop 7 cexDup.simulateInit) ∧ ready (runLoop 7 cexDup.simulateInit) 0 1 ∧
    1 ∈ ((runLoop 7 cexDup.simulateInit).dev 0).down ∧
    wouldAccept (runLoop 7 cexDup.simulateInit).fuel (runLoop 7 cexDup.simulateInit) 1 1 = true ∧
    ¬ Quiescent (runLoop 7 cexDup.simulateInit) := by
  refine ⟨by decide, by decide, by decide, ⟨rfl, rfl, rfl, rfl, by decide⟩, by decide, by decide,
    by decide, by decide, by decide, by decide⟩

/-- source 0 → machine 1 (cycle 0, NOT registered with the system, hence never initialised); sink 2
is not connected; at t = 5 script 0 connects the machine to the sink: `rewire 2 [1]` -/
def cexIni : World :=
  { env := envAt 5 0
    scripts := [[.rewire 2 [1]]]
    devs := [{ kind := .source, aid := 1, down := [1], cycle := 1, maxParts := some 5 },
             { kind := .handler, aid := 2, up := [0] },
             { kind := .sink, aid := 3 }]
    assets := [.dev 0, .dev 2] }

/-- **Every device must be registered (hence initialised)**: `set_upstream` tells a new upstream
neighbour about the space downstream only if that neighbour has been initialised.  The world is in
the scope and fresh, only the registration invariant fails (device 1 is not registered); after the
script has connected the flagged machine 1 to the free sink nothing is queued: a lost wake-up. -/
theorem rewire_uninitialised_false :
    S1R cexIni ∧ ¬ C20W.Reg cexIni ∧ C02.Fresh cexIni ∧
    ClockAdvances (runLoop 6 cexIni.simulateInit) ∧ ready (runLoop 6 cexIni.simulateInit) 1 0 ∧
    2 ∈ ((runLoop 6 cexIni.simulateInit).dev 1).down ∧
    wouldAccept (runLoop 6 cexIni.simulateInit).fuel (runLoop 6 cexIni.simulateInit) 2 0 = true ∧
    ¬ Quiescent (runLoop 6 cexIni.simulateInit) := by
  refine ⟨by decide, by decide, ⟨rfl, rfl, rfl, rfl, by decide⟩, by decide, by decide, by decide,
    by decide, by decide⟩

/-- source 0 → gate 1 → sink 3; gate 2 → gate 1; script 0 makes gate 1 an upstream neighbour of
gate 2: a cycle of gates 1 → 2 → 1 -/
def cexCyc : World :=
  { env := envAt 5 0
    scripts := [[.rewire 2 [1]]]
    devs := [{ kind := .source, aid := 1, down := [1], cycle := 1, maxParts := some 5 },
             { kind := .gate, aid := 2, up := [0, 2], down := [3] },
             { kind := .gate, aid := 3, down := [1] },
             { kind := .sink, aid := 4, up := [1], cycle := 10 }]
    assets := [.dev 0, .dev 1, .dev 2, .dev 3] }

/-- **The connections the scripts may add must keep the controller conditions** (`EnvOK`: checked
on the envelope, i.e. on the script text).  Without the script the world is in the scope; the
script is admissible device by device (`RewOK`), only `EnvOK` fails; after the script has run the
static class of the machinery is broken (gate 1 reaches itself through gates). -/
theorem rewire_cycle_breaks_scope :
    S1R { cexCyc with scripts := [] } ∧ RewOK cexCyc 2 [1] ∧ ¬ EnvOK cexCyc ∧ ¬ S1R cexCyc ∧
    (runLoop 5 cexCyc.simulateInit).now = 5 ∧
    ((runLoop 5 cexCyc.simulateInit).dev 1).down = [3, 2] ∧
    ((runLoop 5 cexCyc.simulateInit).dev 2).down = [1] ∧
    ¬ SC { runLoop 5 cexCyc.simulateInit with scripts := [] } := by decide

/-- script 0 gives the SOURCE an upstream neighbour / re-wires a device that does not exist -/
def cexSrc : World :=
  { scripts := [[.rewire 0 [1]]]
    devs := [{ kind := .source, aid := 1, down := [1], cycle := 1, maxParts := some 5 },
             { kind := .handler, aid := 2, up := [0], down := [2] },
             { kind := .sink, aid := 3, up := [1] }]
    assets := [.dev 0, .dev 1, .dev 2] }

def cexOut : World := { cexSrc with scripts := [[.rewire 7 [1]]] }

/-- **A source gets no upstream neighbour, the re-wired device exists** (`RewOK`, first two
clauses): otherwise the static class is broken after the script (a source / a device that does not
exist becomes somebody's downstream neighbour — the hand-over would "deliver" a part to it). -/
theorem rewire_source_breaks_scope :
    S1R { cexSrc with scripts := [] } ∧ ¬ S1R cexSrc ∧ ¬ S1R cexOut ∧
    ¬ SC { cexSrc.simulateInit.exec (.script 0) with scripts := [] } ∧
    ¬ SC { cexOut.simulateInit.exec (.script 0) with scripts := [] } ∧
    wouldAccept (cexOut.simulateInit.exec (.script 0)).fuel (cexOut.simulateInit.exec (.script 0)) 7 0
      = true := by decide

/-! ## STAGES A, B, C with re-wiring issued from outside

The classes of the resource theorems (`C11W.S`) and of the batcher / conservation theorems (`C17W`,
`C02V.Static`) — which may not be changed — do not admit `rewire` in SCRIPTS; the invariants they
maintain (`C11W.Inv`, `C17W.CI`) are, however, not disturbed by a re-wiring (`inv11_rewire`,
`ci_rewire`).  Hence: in the scopes `S2 ⊆ S3 ⊆ S4` the line may be re-wired FROM OUTSIDE between two
events (any admissible re-wiring after which the world is in the scope: `RewOK`, `S4`-part `SC` of
the re-wired world — decidable on the current world), and no wake-up is lost. -/

/-- **Reachable states** (stages A, B, C with outside re-wiring). -/
inductive ReachC (w0 : World) : World → Prop
  | init : ReachC w0 w0.simulateInit
  | step {w w' : World} {e : Event} : ReachC w0 w → w.step = some (e, w') → ReachC w0 w'
  | loop {w : World} (n : Nat) : ReachC w0 w → ReachC w0 (runLoop n w)
  | run {w : World} (d : Int) : ReachC w0 w → ReachC w0 (w.runBegin d).1
  | rew {w : World} (x : Nat) (ups : List Nat) : ReachC w0 w → RewOK w x ups →
      SC (w.rewire x ups) → ReachC w0 (w.applyOp (.rewire x ups)).1

/-- **`wakeC_rewire`**: a re-wiring issued from outside preserves the invariant of stages A, B, C
and the scope. -/
theorem wakeC_rewire {w : World} (hs : S4 w) (h : GoodB w) (hi : Ini w) (x : Nat) (ups : List Nat)
    (hok : RewOK w x ups) (hfin : SC (w.rewire x ups)) :
    GoodB (w.rewire x ups) ∧ S4 (w.rewire x ups) ∧ Ini (w.rewire x ups) := by
  obtain ⟨h1, h2⟩ := h.rewireD hi hs.1.2 (fun hn => (hs.2.2.1 hn).1) x ups hok hfin
    (fun h1 => absurd hs.2.2.2 h1)
  exact ⟨h1, hs.rewire x ups hfin, h2⟩

/-- **In every reachable state** (events, runs, outside re-wirings) of a fresh world of the scope
`S4` that satisfies the registration invariant: the invariant of stages A, B, C holds, the world is
in the scope, every device has been initialised. -/
theorem wakeC_rewire_reachable {w0 w : World} (hs : S4 w0) (hi : C01.Inv w0.env) (h0 : 0 ≤ w0.now)
    (he : EvOK w0) (hf : FreshA w0) (hreg : C20W.Reg w0) (hr : ReachC w0 w) :
    GoodB w ∧ S4 w ∧ Ini w := by
  induction hr with
  | init =>
    have hg := wakeC_init hs hi h0 he hf
    exact ⟨hg, hs.of_sw hg.g.sc (sw_simulateInit w0) (C02V.ss_simulateInit w0), ini_simulateInit hreg⟩
  | step _ hst ih => exact ⟨ih.1.step hst, s4_step ih.2.1 ih.1 hst, ih.2.2.step (istep_step hst)⟩
  | loop n _ ih => exact ⟨ih.1.runLoop n, s4_runLoop n ih.2.1 ih.1, ih.2.2.step (istep_runLoop n _)⟩
  | run d _ ih =>
    exact ⟨ih.1.runBegin d, ih.2.1.of_sw (ih.1.runBegin d).g.sc (sw_runBegin _ d) (ss_runBegin _ d),
      ih.2.2.step (istep_runBegin _ d)⟩
  | rew x ups _ hok hfin ih => exact wakeC_rewire ih.2.1 ih.1 ih.2.2 x ups hok hfin

/-- **The closed-world statement of stages A, B, C with re-wiring issued from outside**: whenever
the clock is about to advance no ready part could be handed over — resources, batchers and the
shared group included, in the wiring of that moment. -/
theorem no_lost_wakeupC_rewire_reachable {w0 w : World} (hs : S4 w0) (hi : C01.Inv w0.env)
    (h0 : 0 ≤ w0.now) (he : EvOK w0) (hf : FreshA w0) (hreg : C20W.Reg w0) (hr : ReachC w0 w)
    (hc : ClockAdvances w) : Quiescent w :=
  no_lost_wakeupC (wakeC_rewire_reachable hs hi h0 he hf hreg hr).1 hc

/-- The same under its `_partial` name: in the scopes S2 / S3 / S4 AS THEY ARE (classes of C11W /
C17W: no `rewire` in scripts) re-wiring is covered when issued from outside; re-wiring IN SCRIPTS for
the whole scope is stage RF below (`no_lost_wakeup_rewire_all_reachable`). -/
theorem no_lost_wakeupC_rewire_partial {w0 w : World} (hs : S4 w0) (hi : C01.Inv w0.env)
    (h0 : 0 ≤ w0.now) (he : EvOK w0) (hf : FreshA w0) (hreg : C20W.Reg w0) (hr : ReachC w0 w)
    (hc : ClockAdvances w) : Quiescent w :=
  no_lost_wakeupC_rewire_reachable hs hi h0 he hf hreg hr hc

/-! ### non-vacuity: a by-pass connected from outside -/

/-- `exWaiting` (t = 1: the source is blocked in front of the processor that cannot get its
resources) is reachable; the re-wiring `rewire 2 [0, 1]` (the sink becomes a downstream neighbour of
the source as well) is admissible there and leaves the world in the scope -/
theorem reachC_exWaiting : ReachC exRes exWaiting ∧ C20W.Reg exRes ∧ RewOK exWaiting 2 [0, 1] ∧
    SC (exWaiting.rewire 2 [0, 1]) :=
  ⟨.loop 3 .init, by decide, by decide, by decide⟩

/-- the state after the outside re-wiring is covered by the theorem … -/
example : GoodB (exWaiting.rewire 2 [0, 1]) :=
  (wakeC_rewire_reachable s2_exRes.1.s3.s4 (by decide) (by decide) evOK_exRes freshA_exRes
    reachC_exWaiting.2.1
    (.rew 2 [0, 1] reachC_exWaiting.1 reachC_exWaiting.2.2.1 reachC_exWaiting.2.2.2)).1

/-- … the flagged source has been woken at once (its attempt is queued for t = 1, the present
instant), and one event later — still at t = 1 — its part has gone to the sink past the processor
that is still waiting for its resources -/
example : (exWaiting.dev 0).waitingDS = true ∧
    ((exWaiting.rewire 2 [0, 1]).dev 0).down = [1, 2] ∧
    ((exWaiting.rewire 2 [0, 1]).dev 0).waitingDS = false ∧ Att (exWaiting.rewire 2 [0, 1]) 0 ∧
    ¬ ClockAdvances (exWaiting.rewire 2 [0, 1]) ∧
    (runLoop 1 (exWaiting.rewire 2 [0, 1])).now = 1 ∧
    ((runLoop 1 (exWaiting.rewire 2 [0, 1])).dev 0).output = none ∧
    (runLoop 1 (exWaiting.rewire 2 [0, 1])).delivered = [0] ∧
    ((runLoop 1 (exWaiting.rewire 2 [0, 1])).dev 1).waitingRes = true := by decide

/-- the same re-wiring in front of the blocked batcher line is admissible, too -/
example : RewOK exBatBlocked 2 [0, 1] ∧ SC (exBatBlocked.rewire 2 [0, 1]) ∧ C20W.Reg exBat := by
  decide

/-! ## STAGE RA: resources AND re-wiring in scripts

`S2R w` — the scope of stage A (processors may declare resource requirements), but scripts MAY
contain `rewire x ups`: the machinery's scope `SC` without batchers, batches and groups, and — if a
requirement is declared — the class `C11W.S` of the resource theorems FOR THE SCRIPTS WITHOUT THEIR
RE-WIRINGS (`S11R`).  The resource invariant `C11W.Inv` is carried for the world without its
scripts (`es w []`; no function of the model but `runScript` reads them: `Proofs/C03YEs*.lean`). -/

/-- **The scope of stage A with mid-run re-wiring.** -/
def S2R (w : World) : Prop := SC w ∧ NoBatch w ∧ (hasRes w = true → S11R w)

instance (w : World) : Decidable (S2R w) := by unfold S2R; infer_instance

theorem S1R.s2r {w : World} (h : S1R w) : S2R w :=
  ⟨h.1, h.2.2.1, fun hr => by rw [h.2.1] at hr; cases hr⟩

/-- Everything the closed-world induction carries (stage RA). -/
structure GoodE (w : World) : Prop where
  g : G [] [] [] w
  nb : NoBatch w
  /-- the resource invariant of C11W, for the world without its scripts -/
  r : hasRes w = true → C11W.Inv (es w [])
  s : hasRes w = true → S11R w
  i : IOK w

theorem GoodE.s2r {w : World} (h : GoodE w) : S2R w := ⟨h.g.sc, h.nb, h.s⟩

theorem GoodE.pend {w : World} (h : GoodE w) (hr : hasRes w = true) : C11W.Pend w := (h.r hr).pend

theorem GoodE.gc {w : World} (h : GoodE w) : C03Z.GC w := C03Z.gc_noGrp (noGrp_of_noBatch h.nb)

theorem GoodE.procs {w : World} (h : GoodE w) (hr : hasRes w = true) :
    ∀ e ∈ w.rm.waiting, ∃ x, e.2 = Cb.proc x := by
  rcases h.g.wr with hn | hreg
  · rw [hr] at hn; cases hn
  · exact hreg.1

/-- **RA2. `wakeE_step`**: every event preserves the invariant (scope included). -/
theorem wakeE_step {w w' : World} {e : Event} (h : GoodE w) (hst : w.step = some (e, w')) :
    GoodE w' := by
  have r := swrw_step w w' e h.g.sc.nc hst
  have hres : hasRes w' = true → hasRes w = true := fun hr => by rw [← hasRes_of_swr' r]; exact hr
  exact ⟨h.g.stepG (invB_of_noBatch h.nb) (settled_of_noBatch h.nb) h.i
      (C03Z.gc_noGrp (noGrp_of_noBatch h.nb)) hst,
    (noBatch_of_swr' r).mpr h.nb,
    fun hr => inv11_es_step (h.r (hres hr)) (h.s (hres hr)).opsOK h.g.sc.nc (h.procs (hres hr)) hst,
    fun hr => (h.s (hres hr)).of_step r, h.i.step (istep_step hst)⟩

theorem wakeE_runLoop (n : Nat) : ∀ {w : World}, GoodE w → GoodE (runLoop n w) := by
  induction n with
  | zero =>
    intro w h
    have r := swrw_runLoop 0 w h.g.sc.nc
    have hres : hasRes (runLoop 0 w) = true → hasRes w = true :=
      fun hr => by rw [← hasRes_of_swr' r]; exact hr
    refine ⟨h.g.setErr _, (noBatch_of_swr' r).mpr h.nb, fun hr => ?_, fun hr => (h.s (hres hr)).of_step r,
      h.i.step (istep_runLoop 0 w)⟩
    show C11W.Inv (es (w.setErr "fuel") [])
    rw [← es_setErr]
    exact (h.r (hres hr)).mono (C11W.monoS_setErr _ _).toMono
  | succ n ih =>
    intro w h
    unfold World.runLoop
    split
    · split
      · exact h
      · next e w' hst => exact ih (wakeE_step h hst)
    · exact h

theorem wakeE_runBegin {w : World} (h : GoodE w) (d : Int) : GoodE (w.runBegin d).1 := by
  have r := swrw_runBegin w d
  have hres : hasRes (w.runBegin d).1 = true → hasRes w = true :=
    fun hr => by rw [← hasRes_of_swr' r]; exact hr
  refine ⟨h.g.runBeginG d, (noBatch_of_swr' r).mpr h.nb, fun hr => ?_,
    fun hr => (h.s (hres hr)).of_step r, h.i.step (istep_runBegin w d)⟩
  rw [← es_runBegin]
  exact C11W.inv_runBegin (es w []) d (h.r (hres hr))

/-- **RA1. `wakeE_init`**: after `simulateInit` of a fresh world of the scope that satisfies the
registration invariant the invariant holds. -/
theorem wakeE_init {w : World} (hs : S2R w) (hi : C01.Inv w.env) (h0 : 0 ≤ w.now) (he : EvOK w)
    (hf : FreshA w) (hreg : C20W.Reg w) : GoodE w.simulateInit := by
  have hg : G [] [] [] w :=
    ⟨hs.1, fun _ => partsLeaf_fresh hf.1, hi, h0, he, heldValid_fresh hf.1,
      kidsValid_of_leaf (partsLeaf_fresh hf.1), stkOK_of_noParts hf.1.1,
      wr_fresh hf.2.1 (fun hr => (hf.2.2 hr).2.2.1), (fun _ hx => nomatch hx), wakeG_fresh hf.1⟩
  have r := swrw_simulateInit w
  have hres : hasRes w.simulateInit = true → hasRes w = true :=
    fun hr => by rw [← hasRes_of_swr' r]; exact hr
  refine ⟨hg.simulateInitG, (noBatch_of_swr' r).mpr hs.2.1, fun hr => ?_,
    fun hr => (hs.2.2 (hres hr)).of_step r, Or.inr (ini_simulateInit hreg)⟩
  rw [← es_simulateInit]
  exact C11W.inv_simulateInit (es w []) (hs.2.2 (hres hr)).nil (hf.2.2 (hres hr))

/-- an operation issued from outside that some script of the world contains -/
theorem wakeE_applyOp {w : World} (h : GoodE w) (o : Op) (ho : ∃ l ∈ w.scripts, o ∈ l) :
    GoodE (w.applyOp o).1 := by
  obtain ⟨l, hl, hol⟩ := ho
  have hop := h.g.sc.scriptOp hl hol
  have hnc := opSC_not_create hop
  have r : C02V.swr (w.applyOp o).1 = C02V.swr w := C02V.swr_applyOp w o hnc
  have hres : hasRes (w.applyOp o).1 = true → hasRes w = true :=
    fun hr => by rw [← hasRes_of_swr r]; exact hr
  refine ⟨h.g.applyOpG o hop h.i ⟨l, hl, hol⟩, (noBatch_of_swr r).mpr h.nb,
    fun hr => inv11_es_applyOp1 (h.r (hres hr)) o ((h.s (hres hr)).opsOK l hl o hol) hnc,
    fun hr => (h.s (hres hr)).of_swr r (C02V.scr_applyOp w o), ?_⟩
  exact (h.i.step (istep_applyOp w o hnc)).step ⟨rfl, C20W.Pv.of_same rfl⟩

/-- a re-wiring issued from outside (admissible, leaves the world in the scope) -/
theorem wakeE_rewire {w : World} (h : GoodE w) (hi : Ini w) (x : Nat) (ups : List Nat)
    (hok : RewOK w x ups) (hfin : SC (w.rewire x ups)) :
    GoodE (w.rewire x ups) ∧ Ini (w.rewire x ups) := by
  have r : C02V.swr (w.rewire x ups) = C02V.swr w := C02V.swr_rewire w x ups
  have hres : hasRes (w.rewire x ups) = true → hasRes w = true :=
    fun hr => by rw [← hasRes_of_swr r]; exact hr
  have hi' : Ini (w.rewire x ups) :=
    hi.step ⟨C02V.scr_rewire w x ups, C20W.Pv_applyOp w (.rewire x ups) rfl⟩
  refine ⟨⟨h.g.rewireD x ups hok hfin (fun z hz => hi.inited hz), (noBatch_of_swr r).mpr h.nb,
    fun hr => ?_, fun hr => (h.s (hres hr)).of_swr r (C02V.scr_rewire w x ups), Or.inr hi'⟩, hi'⟩
  rw [← es_rewire]
  exact inv11_rewire (h.r (hres hr)) x ups

/-- **Reachable states** (stage RA): as `ReachR`. -/
inductive ReachE (w0 : World) : World → Prop
  | init : ReachE w0 w0.simulateInit
  | step {w w' : World} {e : Event} : ReachE w0 w → w.step = some (e, w') → ReachE w0 w'
  | loop {w : World} (n : Nat) : ReachE w0 w → ReachE w0 (runLoop n w)
  | run {w : World} (d : Int) : ReachE w0 w → ReachE w0 (w.runBegin d).1
  | op {w : World} (o : Op) : ReachE w0 w → (∃ l ∈ w.scripts, o ∈ l) → ReachE w0 (w.applyOp o).1
  | rew {w : World} (x : Nat) (ups : List Nat) : ReachE w0 w → RewOK w x ups →
      SC (w.rewire x ups) → ReachE w0 (w.applyOp (.rewire x ups)).1

/-- **RA3. `wakeE_reachable`**: the invariant holds in every reachable state (and every device has
been initialised). -/
theorem wakeE_reachable {w0 w : World} (hs : S2R w0) (hi : C01.Inv w0.env) (h0 : 0 ≤ w0.now)
    (he : EvOK w0) (hf : FreshA w0) (hreg : C20W.Reg w0) (hr : ReachE w0 w) : GoodE w ∧ Ini w := by
  induction hr with
  | init => exact ⟨wakeE_init hs hi h0 he hf hreg, ini_simulateInit hreg⟩
  | step _ hst ih => exact ⟨wakeE_step ih.1 hst, ih.2.step (istep_step hst)⟩
  | loop n _ ih => exact ⟨wakeE_runLoop n ih.1, ih.2.step (istep_runLoop n _)⟩
  | run d _ ih => exact ⟨wakeE_runBegin ih.1 d, ih.2.step (istep_runBegin _ d)⟩
  | @op w o _ ho ih =>
    obtain ⟨l, hl, hol⟩ := ho
    have hnc := opSC_not_create (ih.1.g.sc.scriptOp hl hol)
    exact ⟨wakeE_applyOp ih.1 o ⟨l, hl, hol⟩,
      (ih.2.step (istep_applyOp w o hnc)).step ⟨rfl, C20W.Pv.of_same rfl⟩⟩
  | rew x ups _ hok hfin ih => exact wakeE_rewire ih.1 ih.2 x ups hok hfin

/-- the three clauses (W1), (W2), (W3) in stage RA -/
theorem wakeE_w3 {w : World} (h : GoodE w) (d p : Nat) (hd : holdsD (w.dev d) = some p) :
    Att w d ∨ BlockedW w d p ∨
      ((w.dev d).waitingDS = true ∧ C11W.QueuedL w .rmCheck w.now pOtherHigh (-1)) :=
  wake_w3_of h.g h.pend h.gc d p hd

theorem blocked_genuinelyA_rewire {w : World} (h : GoodE w) (hc : ClockAdvances w) (d p : Nat)
    (hr : ready w d p) : BlockedW w d p := blocked_genuinely_of h.g h.pend h.gc hc d p hr

theorem no_lost_wakeupA_rewire {w : World} (h : GoodE w) (hc : ClockAdvances w) : Quiescent w :=
  quiescent_of h.g h.pend h.gc hc

/-- **The closed-world statement of stage A with mid-run re-wiring** (in scripts and from outside):
whenever the clock is about to advance no ready part could be handed over — resources included,
in the wiring of that moment. -/
theorem no_lost_wakeupA_rewire_reachable {w0 w : World} (hs : S2R w0) (hi : C01.Inv w0.env)
    (h0 : 0 ≤ w0.now) (he : EvOK w0) (hf : FreshA w0) (hreg : C20W.Reg w0) (hr : ReachE w0 w)
    (hc : ClockAdvances w) : Quiescent w :=
  no_lost_wakeupA_rewire (wakeE_reachable hs hi h0 he hf hreg hr).1 hc

/-- the scope is preserved -/
theorem s2r_reachable {w0 w : World} (hs : S2R w0) (hi : C01.Inv w0.env) (h0 : 0 ≤ w0.now)
    (he : EvOK w0) (hf : FreshA w0) (hreg : C20W.Reg w0) (hr : ReachE w0 w) : S2R w :=
  (wakeE_reachable hs hi h0 he hf hreg hr).1.s2r

/-! ### non-vacuity, stage RA -/

/-- source 0 → processor 1 (needs one unit of pool 0, capacity 0) → sink 2; at t = 5 script 0
connects the sink to the source as well (a by-pass: `rewire 2 [0, 1]`) and adds one unit -/
def exResRew : World :=
  { env := envAt 5 0
    scripts := [[.rewire 2 [0, 1], .addRes 0 1]]
    rm := { pools := [(0, 0, 0)] }
    devs := [{ kind := .source, aid := 1, down := [1], cycle := 1, maxParts := some 3 },
             { kind := .processor, aid := 2, up := [0], down := [2], cycle := 2, resReq := some [(0, 1)] },
             { kind := .sink, aid := 3, up := [1] }]
    assets := [.dev 0, .dev 1, .dev 2] }

/-- in the scope of stage RA (a requirement is declared AND a script re-wires): neither in that of
stage R nor in that of stage A -/
theorem s2r_exResRew : S2R exResRew ∧ ¬ S1R exResRew ∧ ¬ S2 exResRew ∧ C20W.Reg exResRew ∧
    hasRes exResRew = true := by decide

theorem freshA_exResRew : FreshA exResRew :=
  ⟨⟨rfl, rfl, rfl, rfl, by decide⟩, by decide, fun _ => by decide⟩

/-- the hypotheses of the closed-world theorem of stage RA are satisfiable -/
theorem goodE_exResRew (n : Nat) : GoodE (runLoop n exResRew.simulateInit) :=
  (wakeE_reachable s2r_exResRew.1 (by decide) (by decide) (evOK_envAt5 _ rfl) freshA_exResRew
    s2r_exResRew.2.2.2.1 (.loop n .init)).1

/-- t = 1: the source is blocked in front of the processor, which is registered with the resource
manager; the clock is about to advance to 5; genuinely blocked -/
example : (runLoop 3 exResRew.simulateInit).now = 1 ∧ ClockAdvances (runLoop 3 exResRew.simulateInit) ∧
    ready (runLoop 3 exResRew.simulateInit) 0 0 ∧
    ((runLoop 3 exResRew.simulateInit).dev 1).waitingRes = true ∧
    BlockedW (runLoop 3 exResRew.simulateInit) 0 0 ∧ Quiescent (runLoop 3 exResRew.simulateInit) := by
  decide

example : Quiescent (runLoop 3 exResRew.simulateInit) :=
  no_lost_wakeupA_rewire (goodE_exResRew 3) (by decide)

/-- t = 5, right after the script: the by-pass is connected (`down = [1, 2]`), the source has its
attempt queued for this instant (W1), and the manager's availability check is queued as well -/
example : (runLoop 4 exResRew.simulateInit).now = 5 ∧
    ((runLoop 4 exResRew.simulateInit).dev 0).down = [1, 2] ∧
    ((runLoop 4 exResRew.simulateInit).dev 0).waitingDS = false ∧
    Att (runLoop 4 exResRew.simulateInit) 0 ∧
    C11W.QueuedL (runLoop 4 exResRew.simulateInit) .rmCheck 5 pOtherHigh (-1) ∧
    ¬ ClockAdvances (runLoop 4 exResRew.simulateInit) ∧ S2R (runLoop 4 exResRew.simulateInit) := by
  decide

/-- later the parts flow through both branches: t = 7, parts 1 and 2 have reached the sink through
the by-pass, part 0 through the processor -/
example : (runLoop 12 exResRew.simulateInit).now = 7 ∧
    (runLoop 12 exResRew.simulateInit).delivered = [1, 2, 0] := by decide

/-! ## STAGE RF: the whole scope (resources, batchers, batches, the shared group) AND re-wiring in
scripts

`S4R w ⊇ S4 w, S2R w` — the machinery's scope `SC` (scripts may re-wire), with the classes of the
resource theorems (`S11R`: the re-wirings of the scripts aside) and of the batcher / conservation
theorems (`ScrB`, `SizesPos`) where they are needed.  Both auxiliary invariants are carried for
the world without its scripts: `C11W.Inv (es w [])`, `C17W.CI (es w [])` (`Proofs/C03YResR.lean`,
`Proofs/C03YBatR.lean`). -/

/-- **The whole scope with mid-run re-wiring.** -/
def S4R (w : World) : Prop :=
  SC w ∧ (hasRes w = true → S11R w) ∧ (¬ NoBatch w → ScrB w ∧ C17W.SizesPos w) ∧ OneGrp w

instance (w : World) : Decidable (S4R w) := by unfold S4R; infer_instance

theorem S2R.s4r {w : World} (h : S2R w) : S4R w :=
  ⟨h.1, h.2.2, fun hn => absurd h.2.1 hn, oneGrp_of_noBatch h.2.1⟩

/-- the class of C11W implies the class "re-wirings aside" -/
theorem s11R_of_S {w : World} (h : C11W.S w) : S11R w := by
  unfold S11R C11W.S C11W.SB at *
  simp only [es_devs, es_scripts, sc, Bool.and_eq_true, List.all_eq_true] at h ⊢
  refine ⟨⟨⟨⟨fun l hl op hop => ?_, h.1.1.1.2⟩, h.1.1.2⟩, h.1.2⟩, h.2⟩
  obtain ⟨l0, hl0, rfl⟩ := List.mem_map.mp hl
  exact h.1.1.1.1 l0 hl0 op (List.mem_filter.mp hop).1

theorem S4.s4r {w : World} (h : S4 w) : S4R w := ⟨h.1.1, fun hr => s11R_of_S (h.2.1 hr), h.2.2⟩

/-- Everything the closed-world induction carries (stage RF). -/
structure GoodF (w : World) : Prop where
  g : G [] [] [] w
  r : hasRes w = true → C11W.Inv (es w [])
  s : hasRes w = true → S11R w
  c : ¬ NoBatch w → C17W.CI (es w [])
  cs : ¬ NoBatch w → ScrB w ∧ C17W.SizesPos w
  i : IOK w
  /-- there is one group only -/
  o : OneGrp w

theorem GoodF.s4r {w : World} (h : GoodF w) : S4R w := ⟨h.g.sc, h.s, h.cs, h.o⟩

theorem GoodF.gc {w : World} (h : GoodF w) : C03Z.GC w := Or.inl h.o

theorem GoodF.invB {w : World} (h : GoodF w) : InvB w :=
  fun hnb => (h.c hnb).inv.of_sv (w := es w []) (w' := w) rfl

theorem GoodF.settled {w : World} (h : GoodF w) : Settled w := by
  intro x hk ho
  have hnb : ¬ NoBatch w := fun hn => (noBatch_dev hn x).1 hk
  rcases ((h.c hnb).bat x hk).settled with h1 | h1
  · have h1' : (w.dev x).output.isSome = true := h1
    rw [ho] at h1'; cases h1'
  · exact h1

theorem GoodF.procs {w : World} (h : GoodF w) (hr : hasRes w = true) :
    ∀ e ∈ w.rm.waiting, ∃ x, e.2 = Cb.proc x := by
  rcases h.g.wr with hn | hreg
  · rw [hr] at hn; cases hn
  · exact hreg.1

theorem GoodF.gci {w : World} (h : GoodF w) (hn : ¬ NoBatch w) : GCI w :=
  ⟨h.c hn, h.g.sc, (h.cs hn).1⟩

theorem GoodF.pend {w : World} (h : GoodF w) (hr : hasRes w = true) : C11W.Pend w := (h.r hr).pend

/-- **RF2. `wakeF_step`**: every event preserves the invariant (scope included). -/
theorem wakeF_step {w w' : World} {e : Event} (h : GoodF w) (hst : w.step = some (e, w')) :
    GoodF w' := by
  have r := swrw_step w w' e h.g.sc.nc hst
  have hres : hasRes w' = true → hasRes w = true := fun hr => by rw [← hasRes_of_swr' r]; exact hr
  have hnb : ¬ NoBatch w' → ¬ NoBatch w := fun hn hb => hn ((noBatch_of_swr' r).mpr hb)
  exact ⟨h.g.stepG h.invB h.settled h.i h.gc hst,
    fun hr => inv11_es_step (h.r (hres hr)) (h.s (hres hr)).opsOK h.g.sc.nc (h.procs (hres hr)) hst,
    fun hr => (h.s (hres hr)).of_step r,
    fun hn => ((h.gci (hnb hn)).step hst).1,
    fun hn => ⟨((h.gci (hnb hn)).step hst).2.scrB, sizesPos_of_swr r.1 (h.cs (hnb hn)).2⟩,
    h.i.step (istep_step hst), oneGrp_of_swr h.o r.1⟩

theorem wakeF_runLoop (n : Nat) : ∀ {w : World}, GoodF w → GoodF (runLoop n w) := by
  induction n with
  | zero =>
    intro w h
    have r := swrw_runLoop 0 w h.g.sc.nc
    have hres : hasRes (runLoop 0 w) = true → hasRes w = true :=
      fun hr => by rw [← hasRes_of_swr' r]; exact hr
    have hnb : ¬ NoBatch (runLoop 0 w) → ¬ NoBatch w := fun hn hb => hn ((noBatch_of_swr' r).mpr hb)
    refine ⟨h.g.setErr _, fun hr => ?_, fun hr => (h.s (hres hr)).of_step r,
      fun hn => ((h.gci (hnb hn)).setErr _).1,
      fun hn => ⟨((h.gci (hnb hn)).setErr _).2.scrB, sizesPos_of_swr r.1 (h.cs (hnb hn)).2⟩,
      h.i.step (istep_runLoop 0 w), oneGrp_of_swr h.o r.1⟩
    show C11W.Inv (es (w.setErr "fuel") [])
    rw [← es_setErr]
    exact (h.r (hres hr)).mono (C11W.monoS_setErr _ _).toMono
  | succ n ih =>
    intro w h
    unfold World.runLoop
    split
    · split
      · exact h
      · next e w' hst => exact ih (wakeF_step h hst)
    · exact h

theorem wakeF_runBegin {w : World} (h : GoodF w) (d : Int) : GoodF (w.runBegin d).1 := by
  have r := swrw_runBegin w d
  have hres : hasRes (w.runBegin d).1 = true → hasRes w = true :=
    fun hr => by rw [← hasRes_of_swr' r]; exact hr
  have hnb : ¬ NoBatch (w.runBegin d).1 → ¬ NoBatch w := fun hn hb => hn ((noBatch_of_swr' r).mpr hb)
  refine ⟨h.g.runBeginG d, fun hr => ?_, fun hr => (h.s (hres hr)).of_step r, fun hn => ?_,
    fun hn => ⟨scrB_of_kind r.2 (fun y => stat0_kind (stat0_of_swr r.1 y)) (h.cs (hnb hn)).1,
      sizesPos_of_swr r.1 (h.cs (hnb hn)).2⟩, h.i.step (istep_runBegin w d), oneGrp_of_swr h.o r.1⟩
  · rw [← es_runBegin]
    exact C11W.inv_runBegin (es w []) d (h.r (hres hr))
  · rw [← es_runBegin]
    exact C17W.ci_runBegin (es w []) d (h.c (hnb hn))

/-- **RF1. `wakeF_init`**: after `simulateInit` of a fresh world of the scope that satisfies the
registration invariant the invariant holds. -/
theorem wakeF_init {w : World} (hs : S4R w) (hi : C01.Inv w.env) (h0 : 0 ≤ w.now) (he : EvOK w)
    (hf : FreshA w) (hreg : C20W.Reg w) : GoodF w.simulateInit := by
  have hg : G [] [] [] w :=
    ⟨hs.1, fun _ => partsLeaf_fresh hf.1, hi, h0, he, heldValid_fresh hf.1,
      kidsValid_of_leaf (partsLeaf_fresh hf.1), stkOK_of_noParts hf.1.1,
      wr_fresh hf.2.1 (fun hr => (hf.2.2 hr).2.2.1), (fun _ hx => nomatch hx), wakeG_fresh hf.1⟩
  have r := swrw_simulateInit w
  have hres : hasRes w.simulateInit = true → hasRes w = true :=
    fun hr => by rw [← hasRes_of_swr' r]; exact hr
  have hnb : ¬ NoBatch w.simulateInit → ¬ NoBatch w := fun hn hb => hn ((noBatch_of_swr' r).mpr hb)
  refine ⟨hg.simulateInitG, fun hr => ?_, fun hr => (hs.2.1 (hres hr)).of_step r, fun hn => ?_,
    fun hn => ⟨scrB_of_kind r.2 (fun y => stat0_kind (stat0_of_swr r.1 y)) (hs.2.2.1 (hnb hn)).1,
      sizesPos_of_swr r.1 (hs.2.2.1 (hnb hn)).2⟩, Or.inr (ini_simulateInit hreg),
    oneGrp_of_swr hs.2.2.2 r.1⟩
  · rw [← es_simulateInit]
    exact C11W.inv_simulateInit (es w []) (hs.2.1 (hres hr)).nil (hf.2.2 (hres hr))
  · rw [← es_simulateInit]
    refine C17W.ci_init (es w []) ⟨hf.1, ?_, (hs.2.2.1 (hnb hn)).2⟩
    exact static_of hs.1.es_nil (fun l hl => nomatch hl) (fun l hl => nomatch hl) he

/-- an operation issued from outside that some script of the world contains -/
theorem wakeF_applyOp {w : World} (h : GoodF w) (o : Op) (ho : ∃ l ∈ w.scripts, o ∈ l) :
    GoodF (w.applyOp o).1 := by
  obtain ⟨l, hl, hol⟩ := ho
  have hop := h.g.sc.scriptOp hl hol
  have hnc := opSC_not_create hop
  have r : C02V.swr (w.applyOp o).1 = C02V.swr w := C02V.swr_applyOp w o hnc
  have hscr : (w.applyOp o).1.scripts = w.scripts := C02V.scr_applyOp w o
  have hres : hasRes (w.applyOp o).1 = true → hasRes w = true :=
    fun hr => by rw [← hasRes_of_swr r]; exact hr
  have hnb : ¬ NoBatch (w.applyOp o).1 → ¬ NoBatch w := fun hn hb => hn ((noBatch_of_swr r).mpr hb)
  have hgci : ¬ NoBatch (w.applyOp o).1 → GCI (w.applyOp o).1 := by
    intro hn
    obtain ⟨h1, h2⟩ := ci_es_applyOps [o] w (h.c (hnb hn)) (h.gci (hnb hn)).2
      (fun op hop => by rw [List.mem_singleton] at hop; subst hop; exact ⟨l, hl, hol⟩)
    have e : w.applyOps [o] = (w.applyOp o).1.addRes (w.applyOp o).2 := rfl
    rw [e] at h1 h2
    exact ⟨ci_frame (v := es ((w.applyOp o).1.addRes (w.applyOp o).2) []) (v' := es (w.applyOp o).1 [])
      h1 rfl rfl rfl rfl rfl, ⟨h2.sc.of_sw rfl, scrB_of_kind rfl (fun _ => rfl) h2.scrB⟩⟩
  refine ⟨h.g.applyOpG o hop h.i ⟨l, hl, hol⟩,
    fun hr => inv11_es_applyOp1 (h.r (hres hr)) o ((h.s (hres hr)).opsOK l hl o hol) hnc,
    fun hr => (h.s (hres hr)).of_swr r hscr, fun hn => (hgci hn).1,
    fun hn => ⟨(hgci hn).2.scrB, sizesPos_of_swr r (h.cs (hnb hn)).2⟩, ?_, oneGrp_of_swr h.o r⟩
  exact (h.i.step (istep_applyOp w o hnc)).step ⟨rfl, C20W.Pv.of_same rfl⟩

/-- a re-wiring issued from outside (admissible, leaves the world in the scope) -/
theorem wakeF_rewire {w : World} (h : GoodF w) (hi : Ini w) (x : Nat) (ups : List Nat)
    (hok : RewOK w x ups) (hfin : SC (w.rewire x ups)) :
    GoodF (w.rewire x ups) ∧ Ini (w.rewire x ups) := by
  have r : C02V.swr (w.rewire x ups) = C02V.swr w := C02V.swr_rewire w x ups
  have hscr : (w.rewire x ups).scripts = w.scripts := C02V.scr_rewire w x ups
  have hres : hasRes (w.rewire x ups) = true → hasRes w = true :=
    fun hr => by rw [← hasRes_of_swr r]; exact hr
  have hnb : ¬ NoBatch (w.rewire x ups) → ¬ NoBatch w := fun hn hb => hn ((noBatch_of_swr r).mpr hb)
  have hi' : Ini (w.rewire x ups) := hi.step ⟨hscr, C20W.Pv_applyOp w (.rewire x ups) rfl⟩
  refine ⟨⟨h.g.rewireD x ups hok hfin (fun z hz => hi.inited hz), fun hr => ?_,
    fun hr => (h.s (hres hr)).of_swr r hscr, fun hn => ci_es_rewire (h.c (hnb hn)) x ups hfin,
    fun hn => ⟨scrB_of_kind hscr (kind_rewire w x ups) (h.cs (hnb hn)).1,
      sizesPos_of_swr r (h.cs (hnb hn)).2⟩, Or.inr hi', oneGrp_of_swr h.o r⟩, hi'⟩
  rw [← es_rewire]
  exact inv11_rewire (h.r (hres hr)) x ups

/-- **Reachable states** (stage RF): initialisation, events, runs, beginnings of runs, operations
issued from outside that some script contains, re-wirings issued from outside that are admissible
and leave the world in the scope. -/
inductive ReachF (w0 : World) : World → Prop
  | init : ReachF w0 w0.simulateInit
  | step {w w' : World} {e : Event} : ReachF w0 w → w.step = some (e, w') → ReachF w0 w'
  | loop {w : World} (n : Nat) : ReachF w0 w → ReachF w0 (runLoop n w)
  | run {w : World} (d : Int) : ReachF w0 w → ReachF w0 (w.runBegin d).1
  | op {w : World} (o : Op) : ReachF w0 w → (∃ l ∈ w.scripts, o ∈ l) → ReachF w0 (w.applyOp o).1
  | rew {w : World} (x : Nat) (ups : List Nat) : ReachF w0 w → RewOK w x ups →
      SC (w.rewire x ups) → ReachF w0 (w.applyOp (.rewire x ups)).1

/-- **RF3. `wakeF_reachable`**: the invariant holds in every reachable state. -/
theorem wakeF_reachable {w0 w : World} (hs : S4R w0) (hi : C01.Inv w0.env) (h0 : 0 ≤ w0.now)
    (he : EvOK w0) (hf : FreshA w0) (hreg : C20W.Reg w0) (hr : ReachF w0 w) : GoodF w ∧ Ini w := by
  induction hr with
  | init => exact ⟨wakeF_init hs hi h0 he hf hreg, ini_simulateInit hreg⟩
  | step _ hst ih => exact ⟨wakeF_step ih.1 hst, ih.2.step (istep_step hst)⟩
  | loop n _ ih => exact ⟨wakeF_runLoop n ih.1, ih.2.step (istep_runLoop n _)⟩
  | run d _ ih => exact ⟨wakeF_runBegin ih.1 d, ih.2.step (istep_runBegin _ d)⟩
  | @op w o _ ho ih =>
    obtain ⟨l, hl, hol⟩ := ho
    have hnc := opSC_not_create (ih.1.g.sc.scriptOp hl hol)
    exact ⟨wakeF_applyOp ih.1 o ⟨l, hl, hol⟩,
      (ih.2.step (istep_applyOp w o hnc)).step ⟨rfl, C20W.Pv.of_same rfl⟩⟩
  | rew x ups _ hok hfin ih => exact wakeF_rewire ih.1 ih.2 x ups hok hfin

theorem wakeF_w3 {w : World} (h : GoodF w) (d p : Nat) (hd : holdsD (w.dev d) = some p) :
    Att w d ∨ BlockedW w d p ∨
      ((w.dev d).waitingDS = true ∧ C11W.QueuedL w .rmCheck w.now pOtherHigh (-1)) :=
  wake_w3_of h.g h.pend h.gc d p hd

theorem blocked_genuinelyF {w : World} (h : GoodF w) (hc : ClockAdvances w) (d p : Nat)
    (hr : ready w d p) : BlockedW w d p := blocked_genuinely_of h.g h.pend h.gc hc d p hr

theorem no_lost_wakeupF {w : World} (h : GoodF w) (hc : ClockAdvances w) : Quiescent w :=
  quiescent_of h.g h.pend h.gc hc

/-- **The closed-world statement for the whole scope with mid-run re-wiring** (sources, handlers,
processors with or without resources, buffers, gates, batchers, batches, one shared group;
re-wiring in scripts and from outside): whenever the clock is about to advance no ready part could
be handed over, in the wiring of that moment. -/
theorem no_lost_wakeup_rewire_all_reachable {w0 w : World} (hs : S4R w0) (hi : C01.Inv w0.env)
    (h0 : 0 ≤ w0.now) (he : EvOK w0) (hf : FreshA w0) (hreg : C20W.Reg w0) (hr : ReachF w0 w)
    (hc : ClockAdvances w) : Quiescent w :=
  no_lost_wakeupF (wakeF_reachable hs hi h0 he hf hreg hr).1 hc

theorem s4r_reachable {w0 w : World} (hs : S4R w0) (hi : C01.Inv w0.env) (h0 : 0 ≤ w0.now)
    (he : EvOK w0) (hf : FreshA w0) (hreg : C20W.Reg w0) (hr : ReachF w0 w) : S4R w :=
  (wakeF_reachable hs hi h0 he hf hreg hr).1.s4r

/-- What remains PARTIAL with respect to "mid-run re-wiring" in the whole scope: re-wiring IN SCRIPTS
is covered for ONE group only (any number of group paths; re-wiring may connect and disconnect
group paths, machines inside the group, the group output; a group input keeps `up = []`:
`group_input_upstream_false`); with several groups re-wiring is covered when issued from OUTSIDE
(`no_lost_wakeup5_rewire_reachable`).  Not covered either: `create` (assets constructed mid-run). -/
theorem no_lost_wakeup_rewire_all_partial {w0 w : World} (hs : S4R w0) (hi : C01.Inv w0.env)
    (h0 : 0 ≤ w0.now) (he : EvOK w0) (hf : FreshA w0) (hreg : C20W.Reg w0) (hr : ReachF w0 w)
    (hc : ClockAdvances w) : Quiescent w :=
  no_lost_wakeup_rewire_all_reachable hs hi h0 he hf hreg hr hc

/-! ### non-vacuity, stage RF -/

/-- source 0 → batcher 1 (batches of 2) → slow sink 2 (cycle 5); sink 3 is not connected; at t = 5
script 0 gives the batcher the free sink 3 as a second downstream neighbour: `rewire 3 [1]` -/
def exBatRew : World :=
  { env := envAt 5 0
    scripts := [[.rewire 3 [1]]]
    devs := [{ kind := .source, aid := 1, down := [1], cycle := 1, maxParts := some 7 },
             { kind := .batcher, aid := 2, up := [0], down := [2], bsize := some 2 },
             { kind := .sink, aid := 3, up := [1], cycle := 5 },
             { kind := .sink, aid := 4 }],
    assets := [.dev 0, .dev 1, .dev 2, .dev 3] }

/-- two lines share one group (input 4, machine 5, output 6; paths 2 and 3); a second machine 9
stands ready inside the group (already wired to the group output) but is not connected to the
group input; at t = 5 script 0 connects it: `rewire 9 [4]` -/
def exGrpRew : World :=
  { env := envAt 5 0
    scripts := [[.rewire 9 [4]]]
    devs := [{ kind := .source, aid := 1, down := [2], cycle := 1, maxParts := some 3 },
             { kind := .source, aid := 2, down := [3], cycle := 1, maxParts := some 3 },
             { kind := .gpath, aid := 3, group := 0, up := [0], down := [7] },
             { kind := .gpath, aid := 4, group := 0, up := [1], down := [8] },
             { kind := .ginput, aid := 5, group := 0, down := [5] },
             { kind := .handler, aid := 6, up := [4], down := [6], cycle := 10 },
             { kind := .goutput, aid := 7, group := 0, up := [5, 9] },
             { kind := .sink, aid := 8, up := [2] },
             { kind := .sink, aid := 9, up := [3] },
             { kind := .handler, aid := 10, down := [6], cycle := 10 }],
    groups := [{ paths := [2, 3], input := 4, output := 6 }],
    assets := [.dev 0, .dev 1, .dev 2, .dev 3, .dev 4, .dev 5, .dev 6, .dev 7, .dev 8, .dev 9] }

/-- both are in the whole scope with re-wiring (batchers resp. group devices AND a re-wiring script),
not in the scopes of the stages before -/
theorem s4r_exBatRew : S4R exBatRew ∧ ¬ S2R exBatRew ∧ ¬ S4 exBatRew ∧ C20W.Reg exBatRew ∧
    S4R exGrpRew ∧ ¬ S2R exGrpRew ∧ ¬ S4 exGrpRew ∧ C20W.Reg exGrpRew := by decide

theorem freshA_exBatRew : FreshA exBatRew ∧ FreshA exGrpRew :=
  ⟨⟨⟨rfl, rfl, rfl, rfl, by decide⟩, by decide, fun h => by cases h⟩,
   ⟨⟨rfl, rfl, rfl, rfl, by decide⟩, by decide, fun h => by cases h⟩⟩

/-- the hypotheses of the closed-world theorem of stage RF are satisfiable -/
theorem goodF_exBatRew (n : Nat) : GoodF (runLoop n exBatRew.simulateInit) :=
  (wakeF_reachable s4r_exBatRew.1 (by decide) (by decide) (evOK_envAt5 _ rfl) freshA_exBatRew.1
    s4r_exBatRew.2.2.2.1 (.loop n .init)).1

theorem goodF_exGrpRew (n : Nat) : GoodF (runLoop n exGrpRew.simulateInit) :=
  (wakeF_reachable s4r_exBatRew.2.2.2.2.1 (by decide) (by decide) (evOK_envAt5 _ rfl)
    freshA_exBatRew.2 s4r_exBatRew.2.2.2.2.2.2.2 (.loop n .init)).1

/-- t = 4: the batcher holds the complete batch 4 and is flagged (the slow sink is busy until 7); the
clock is about to advance; genuinely blocked -/
example : (runLoop 10 exBatRew.simulateInit).now = 4 ∧ ClockAdvances (runLoop 10 exBatRew.simulateInit) ∧
    ready (runLoop 10 exBatRew.simulateInit) 1 4 ∧ BlockedW (runLoop 10 exBatRew.simulateInit) 1 4 ∧
    Quiescent (runLoop 10 exBatRew.simulateInit) := by decide

example : Quiescent (runLoop 10 exBatRew.simulateInit) := no_lost_wakeupF (goodF_exBatRew 10) (by decide)

/-- t = 5, right after the script: the free sink 3 is connected, the batcher is no longer flagged and
its attempt is queued for this instant; one event later the batch [3, 5] has been delivered to the
new sink, still at t = 5 -/
example : (runLoop 13 exBatRew.simulateInit).now = 5 ∧
    ((runLoop 13 exBatRew.simulateInit).dev 1).down = [2, 3] ∧
    ((runLoop 13 exBatRew.simulateInit).dev 1).waitingDS = false ∧
    Att (runLoop 13 exBatRew.simulateInit) 1 ∧
    (runLoop 14 exBatRew.simulateInit).now = 5 ∧
    (runLoop 14 exBatRew.simulateInit).delivered = [0, 2, 3, 5] ∧
    S4R (runLoop 14 exBatRew.simulateInit) := by decide

/-- the group: t = 2, both sources are blocked in front of the group (its only machine is busy until
11) and flagged; the clock is about to advance to 5; genuinely blocked -/
example : (runLoop 6 exGrpRew.simulateInit).now = 2 ∧ ClockAdvances (runLoop 6 exGrpRew.simulateInit) ∧
    ready (runLoop 6 exGrpRew.simulateInit) 0 2 ∧ ready (runLoop 6 exGrpRew.simulateInit) 1 1 ∧
    BlockedW (runLoop 6 exGrpRew.simulateInit) 0 2 ∧ BlockedW (runLoop 6 exGrpRew.simulateInit) 1 1 ∧
    Quiescent (runLoop 6 exGrpRew.simulateInit) := by decide

example : Quiescent (runLoop 6 exGrpRew.simulateInit) := no_lost_wakeupF (goodF_exGrpRew 6) (by decide)

/-- t = 5, right after the script has connected the second machine to the group input: the
notification has gone through the group input to BOTH group paths, both sources have their attempts
queued for this instant; one event later a part has moved into the new machine, at t = 5 -/
example : (runLoop 7 exGrpRew.simulateInit).now = 5 ∧
    ((runLoop 7 exGrpRew.simulateInit).dev 4).down = [5, 9] ∧
    Att (runLoop 7 exGrpRew.simulateInit) 0 ∧ Att (runLoop 7 exGrpRew.simulateInit) 1 ∧
    (runLoop 8 exGrpRew.simulateInit).now = 5 ∧
    ((runLoop 8 exGrpRew.simulateInit).dev 9).part = some 2 ∧
    S4R (runLoop 8 exGrpRew.simulateInit) := by decide

/-- the shared group again (machine 5, cycle 1); the sink 7 of the first line is slow (cycle 20); a
free sink 9 is not connected; at t = 5 script 0 makes it a second downstream neighbour OF THE GROUP
PATH 2 of the first line: `rewire 9 [2]` -/
def exPathRew : World :=
  { env := envAt 5 0
    scripts := [[.rewire 9 [2]]]
    devs := [{ kind := .source, aid := 1, down := [2], cycle := 1, maxParts := some 3 },
             { kind := .source, aid := 2, down := [3], cycle := 1, maxParts := some 3 },
             { kind := .gpath, aid := 3, group := 0, up := [0], down := [7] },
             { kind := .gpath, aid := 4, group := 0, up := [1], down := [8] },
             { kind := .ginput, aid := 5, group := 0, down := [5] },
             { kind := .handler, aid := 6, up := [4], down := [6], cycle := 1 },
             { kind := .goutput, aid := 7, group := 0, up := [5] },
             { kind := .sink, aid := 8, up := [2], cycle := 20 },
             { kind := .sink, aid := 9, up := [3], cycle := 20 },
             { kind := .sink, aid := 10 }],
    groups := [{ paths := [2, 3], input := 4, output := 6 }],
    assets := [.dev 0, .dev 1, .dev 2, .dev 3, .dev 4, .dev 5, .dev 6, .dev 7, .dev 8, .dev 9] }

theorem s4r_exPathRew : S4R exPathRew ∧ C20W.Reg exPathRew ∧ RewOK exPathRew 9 [2] := by decide

theorem goodF_exPathRew (n : Nat) : GoodF (runLoop n exPathRew.simulateInit) :=
  (wakeF_reachable s4r_exPathRew.1 (by decide) (by decide) (evOK_envAt5 _ rfl)
    ⟨⟨rfl, rfl, rfl, rfl, by decide⟩, by decide, fun h => by cases h⟩ s4r_exPathRew.2.1
    (.loop n .init)).1

/-- t = 3: the machine INSIDE the group holds part 2 — which came in through group path 2 (its stack)
and can leave towards the downstream devices of that path only — and is flagged: the sink 7 is busy
until 22; both sources are blocked in front of the group; the clock is about to advance -/
example : (runLoop 14 exPathRew.simulateInit).now = 3 ∧
    ClockAdvances (runLoop 14 exPathRew.simulateInit) ∧
    ((runLoop 14 exPathRew.simulateInit).part 2).stack = [2] ∧
    ready (runLoop 14 exPathRew.simulateInit) 5 2 ∧ BlockedW (runLoop 14 exPathRew.simulateInit) 5 2 ∧
    Quiescent (runLoop 14 exPathRew.simulateInit) := by decide

example : Quiescent (runLoop 14 exPathRew.simulateInit) :=
  no_lost_wakeupF (goodF_exPathRew 14) (by decide)

/-- t = 5, right after the script: the group path has the free sink 9 as a second downstream
neighbour; the notification has gone from the path through the group output to the machine inside,
whose attempt is queued for this instant; one event later — at t = 5 — part 2 has been delivered
to the new sink -/
example : (runLoop 15 exPathRew.simulateInit).now = 5 ∧
    ((runLoop 15 exPathRew.simulateInit).dev 2).down = [7, 9] ∧
    ((runLoop 15 exPathRew.simulateInit).dev 5).waitingDS = false ∧
    Att (runLoop 15 exPathRew.simulateInit) 5 ∧
    (runLoop 16 exPathRew.simulateInit).now = 5 ∧
    (runLoop 16 exPathRew.simulateInit).delivered = [0, 2] := by decide

/-! ## STAGES D, E, F: SEVERAL GROUPS (in sequence, re-entrant, nested)

`S5 cl w ⊇ S4 w` — the scope of stage C with "there is one group only" (`OneGrp`) replaced by "one
group, or the topology is TYPED by group contexts" (`C03Z.Typed cl w`, decidable; `cl` assigns to
every device its context: the ids of the groups it is inside, outermost first; `C03Z.ctxInfer w`
computes a candidate).  Typed means: a downstream connection stays in the context (for a group path:
the devices behind the group are in the context of the path); the input device of the group of a
group path is one level deeper; a group output is the output of its group and stands in a context
that ends with its group; and the world is flat (`C03Z.Flat cl`: no nesting — stages D, E: groups
used one after the other, in parallel, the same group through several paths; batchers anywhere) or
has no batcher (`C03Z.NoBat w` — stage F: groups nested in groups).
The invariant: `GoodB` as before; its clause `k : C03Z.GC w` ("one group, or typed stacks") now
carries `C03Z.TInv cl w`: the group-path stack of every part a device holds is typed for the context
of the device (`C03Z.TS`; in flat worlds also the stacks of the parts inside held batches).  This is
the invariant "each entry of a part's stack belongs to the group whose output the part will leave
through" (`C03Z.consS_of_ts`).
Re-wiring: in `S5` scripts do not re-wire (`NR`); a re-wiring issued from OUTSIDE is covered if the
re-wired world is typed again (`ReachD`). -/

theorem S5.sc {cl : List (List Nat)} {w : World} (h : S5 cl w) : SC w := h.1.1

/-- nobody holds anything in a fresh world (slot view) -/
theorem held_nil_fresh {w : World} (h : C02.Fresh w) : ∀ d ∈ w.devs, (C02V.sdev d).held = [] :=
  fun d hd => h.2.2.2.2 d hd

/-- **Everything the closed-world induction carries for several groups**: the invariant `GoodB` of
stages A, B, C (whose clause `k` says "one group, or typed stacks for SOME certificate"), the
scripts do not re-wire, and — unless there is one group only — the world is typed by the
certificate `cl` of the scope and the typed-stacks invariant holds for `cl`. -/
structure GoodD (cl : List (List Nat)) (w : World) : Prop where
  b : GoodB w
  nr : NR w
  t : ¬ OneGrp w → C03Z.Typed cl w ∧ C03Z.TInv cl w

/-- **D1. `wake5_init`**: after `simulateInit` of a fresh world of the scope `S5` the invariant
holds. -/
theorem wake5_init {cl : List (List Nat)} {w : World} (hs : S5 cl w) (hi : C01.Inv w.env)
    (h0 : 0 ≤ w.now) (he : EvOK w) (hf : FreshA w) : GoodD cl w.simulateInit := by
  have hg : G [] [] [] w :=
    ⟨hs.1.1, fun _ => partsLeaf_fresh hf.1, hi, h0, he, heldValid_fresh hf.1,
      kidsValid_of_leaf (partsLeaf_fresh hf.1), stkOK_of_noParts hf.1.1,
      wr_fresh hf.2.1 (fun hr => (hf.2.2 hr).2.2.1), (fun _ hx => nomatch hx), wakeG_fresh hf.1⟩
  have hgc : C03Z.GC w := by
    rcases hs.2.2.2 with h1 | h1
    · exact Or.inl h1
    · exact C03Z.gc_fresh hs.1.2 h1 (held_nil_fresh hf.1)
  have hIw : C02V.InvW w := (C02.consS_iff w).1 (C02.consS_fresh w hf.1)
  have esw := (sw_simulateInit w).sw_eq
  refine ⟨⟨hg.simulateInitG, fun hr => ?_, fun hn => ?_, Or.inl (hs.1.2.of_sw (sw_simulateInit w)),
    C03Z.gc_simulateInit hgc (fun _ => hIw) esw⟩, hs.1.2.of_sw (sw_simulateInit w), fun h1 => ?_⟩
  · rw [hasRes_of_ss (C02V.ss_simulateInit w)] at hr
    exact C11W.inv_simulateInit w (hs.2.1 hr) (hf.2.2 hr)
  · have hn0 : ¬ NoBatch w := fun hb => hn ((noBatch_of_sw (sw_simulateInit w).sw_eq).mpr hb)
    exact C17W.ci_init w ⟨hf.1, static_of hs.1.1 hs.1.2 (hs.2.2.1 hn0).1 he, (hs.2.2.1 hn0).2⟩
  · have hty : C03Z.Typed cl w := hs.2.2.2.resolve_left (fun ho => h1 (ho.of_sw esw))
    exact ⟨hty.of_sw esw,
      C03Z.tinv_simulateInit w hIw (C03Z.tinv_of_empty w (held_nil_fresh hf.1)) hty.tst.nb⟩

/-- **D2. `wake5_step`**: every event preserves the invariant — including the typed-stacks
invariant `C03Z.TInv cl`. -/
theorem wake5_step {cl : List (List Nat)} {w w' : World} {e : Event} (h : GoodD cl w)
    (hst : w.step = some (e, w')) : GoodD cl w' := by
  have r := swrw_step w w' e h.b.g.sc.nc hst
  have esw := (sw_step w w' e h.nr hst).sw_eq
  refine ⟨h.b.step hst, h.nr.of_sw (sw_step w w' e h.nr hst), fun h1 => ?_⟩
  have h0 : ¬ OneGrp w := fun ho => h1 (oneGrp_of_swr ho r.1)
  obtain ⟨hty, hti⟩ := h.t h0
  have hci := h.b.ci_of h0
  exact ⟨hty.of_sw esw, (C03Z.tinv_step w w' e hci.inv hti hty.tst hci.stat hst).2.1⟩

theorem wake5_runLoop {cl : List (List Nat)} (n : Nat) : ∀ {w : World}, GoodD cl w →
    GoodD cl (runLoop n w) := by
  induction n with
  | zero =>
    intro w h
    have esw : sw (w.setErr "fuel") = sw w :=
      C03Z.sw_of_swv (C02V.swv_setErr w _) (C02V.scr_setErr ..)
    refine ⟨h.b.runLoop 0, C03Z.nr_of_sw h.nr esw, fun h1 => ?_⟩
    have h0 : ¬ OneGrp w := fun ho => h1 (ho.of_sw esw)
    obtain ⟨hty, hti⟩ := h.t h0
    exact ⟨hty.of_sw esw, hti.of_frame_st (C02V.sv_setErr ..) (C02V.st_setErr ..) (setErr_parts ..)⟩
  | succ n ih =>
    intro w h
    unfold World.runLoop
    split
    · split
      · exact h
      · next e w' hst => exact ih (wake5_step h hst)
    · exact h

theorem wake5_runBegin {cl : List (List Nat)} {w : World} (h : GoodD cl w) (d : Int) :
    GoodD cl (w.runBegin d).1 := by
  have esw := (sw_runBegin w d).sw_eq
  refine ⟨h.b.runBegin d, h.nr.of_sw (sw_runBegin w d), fun h1 => ?_⟩
  have h0 : ¬ OneGrp w := fun ho => h1 (ho.of_sw esw)
  obtain ⟨hty, hti⟩ := h.t h0
  exact ⟨hty.of_sw esw, C03Z.tinv_runBegin w d hti⟩

/-- The scope `S5` is preserved by every step. -/
theorem s5_step {cl : List (List Nat)} {w w' : World} {e : Event} (hs : S5 cl w) (h : GoodD cl w)
    (hst : w.step = some (e, w')) : S5 cl w' :=
  hs.of_sw (h.b.step hst).g.sc (sw_step w w' e hs.1.2 hst) (nr_step w w' e hs.1.2 hst)

theorem s5_runLoop {cl : List (List Nat)} (n : Nat) {w : World} (hs : S5 cl w) (h : GoodD cl w) :
    S5 cl (runLoop n w) :=
  hs.of_sw (h.b.runLoop n).g.sc (sw_runLoop n w hs.1.2) (nr_runLoop n w hs.1.2)

/-- **D3. `wake5_reachable`**: in every state reachable from an initialised fresh world of the
scope `S5` the invariant holds. -/
theorem wake5_reachable {cl : List (List Nat)} (n : Nat) {w : World} (hs : S5 cl w)
    (hi : C01.Inv w.env) (h0 : 0 ≤ w.now) (he : EvOK w) (hf : FreshA w) :
    GoodD cl (runLoop n w.simulateInit) :=
  wake5_runLoop n (wake5_init hs hi h0 he hf)

theorem wake5_simulate {cl : List (List Nat)} (n : Nat) (d : Int) {w : World} (hs : S5 cl w)
    (hi : C01.Inv w.env) (h0 : 0 ≤ w.now) (he : EvOK w) (hf : FreshA w) :
    GoodD cl (runLoop n (w.simulateInit.runBegin d).1) :=
  wake5_runLoop n (wake5_runBegin (wake5_init hs hi h0 he hf) d)

/-- **The typed-stacks invariant in words**: in a state of the invariant (several groups), the
group-path stack of every part that a device `d` (not a sink) holds — in a slot, in its buffer, as
its batch under construction — is typed for the context of `d`: reading the stack from the
innermost entry, each entry is a group path of the group that is the last entry of the context at
that level. -/
theorem stacks_typed {cl : List (List Nat)} {w : World} (h : GoodD cl w) (h1 : ¬ OneGrp w)
    {d p : Nat} (hd : d < w.devs.length) (hk : (w.dev d).kind ≠ .sink) (hp : p ∈ heldL (w.dev d)) :
    C03Z.TS (C08W.topo w) (C03Z.cx cl) (C03Z.cx cl d) (w.part p).stack :=
  (h.t h1).2.1 d (C02V.sdev (w.dev d)) p (C02V.sv_get w d hd) hk hp

/-- Every group output that an offer of a held part can reach is the output of the group of the
innermost group path on the stack of the part at that point (`consS`): "each entry of the stack
belongs to the group the part will leave through". -/
theorem exits_through_own_output {w : World} (h : GoodB w) {d p y : Nat}
    (hd : holdsD (w.dev d) = some p) (hy : y ∈ (w.dev d).down) (f : Nat) :
    consS f w y (w.part p).stack = true :=
  h.k.cs h.g.stk (holdsD_lt hd) (holdsD_hl hd).2 (holdsD_mem_heldL hd) hy f

/-- **D4. `blocked_genuinely5`**: when time is about to advance, every ready part — inside, between
or in front of the groups — is flagged, and no downstream neighbour (group path, group input, group
output of whichever group, …) would pass it on to anybody who accepts. -/
theorem blocked_genuinely5 {cl : List (List Nat)} {w : World} (h : GoodD cl w)
    (hc : ClockAdvances w) (d p : Nat) (hr : ready w d p) : BlockedW w d p :=
  blocked_genuinelyB h.b hc d p hr

theorem no_lost_wakeup5 {cl : List (List Nat)} {w : World} (h : GoodD cl w)
    (hc : ClockAdvances w) : Quiescent w := no_lost_wakeupB h.b hc

/-- **The closed-world statement for several groups** (stages D, E, F): in every state reachable by
`runLoop` from an initialised fresh world of the scope `S5 cl` — any number of groups, used one
after the other, in parallel, entered several times through different group paths, nested in each
other (then: no batcher) — whenever the clock is about to advance no ready part could be handed
over. -/
theorem no_lost_wakeup5_reachable {cl : List (List Nat)} (n : Nat) {w : World} (hs : S5 cl w)
    (hi : C01.Inv w.env) (h0 : 0 ≤ w.now) (he : EvOK w) (hf : FreshA w)
    (hc : ClockAdvances (runLoop n w.simulateInit)) : Quiescent (runLoop n w.simulateInit) :=
  no_lost_wakeup5 (wake5_reachable n hs hi h0 he hf) hc

theorem no_lost_wakeup5_simulate {cl : List (List Nat)} (n : Nat) (d : Int) {w : World}
    (hs : S5 cl w) (hi : C01.Inv w.env) (h0 : 0 ≤ w.now) (he : EvOK w) (hf : FreshA w)
    (hc : ClockAdvances (runLoop n (w.simulateInit.runBegin d).1)) :
    Quiescent (runLoop n (w.simulateInit.runBegin d).1) :=
  no_lost_wakeup5 (wake5_simulate n d hs hi h0 he hf) hc

/-- The same with the computed certificate: the scope `S5 (C03Z.ctxInfer w) w` is a decidable
predicate of the world alone. -/
theorem no_lost_wakeup5_infer (n : Nat) {w : World} (hs : S5 (C03Z.ctxInfer w) w)
    (hi : C01.Inv w.env) (h0 : 0 ≤ w.now) (he : EvOK w) (hf : FreshA w)
    (hc : ClockAdvances (runLoop n w.simulateInit)) : Quiescent (runLoop n w.simulateInit) :=
  no_lost_wakeup5_reachable n hs hi h0 he hf hc

/-! ### several groups and re-wiring from outside -/

/-- the scope `S5` survives an admissible re-wiring after which the world is in `SC` and typed
again -/
theorem S5.rewire {cl : List (List Nat)} {w : World} (h : S5 cl w) (x : Nat) (ups : List Nat)
    (hfin : SC (w.rewire x ups)) (hty : ¬ OneGrp w → C03Z.Typed cl (w.rewire x ups)) :
    S5 cl (w.rewire x ups) := by
  have r : C02V.swr (w.rewire x ups) = C02V.swr w := C02V.swr_rewire w x ups
  have hscr : (w.rewire x ups).scripts = w.scripts := C02V.scr_rewire w x ups
  refine ⟨⟨hfin, h.1.2.of_scripts hscr⟩, fun hr => ?_, fun hn => ?_, ?_⟩
  · exact (h.2.1 (by rw [← hasRes_of_swr r]; exact hr)).of_ss ⟨sd_of_swr r, hscr⟩
  · have := h.2.2.1 (fun hb => hn ((noBatch_of_swr r).mpr hb))
    exact ⟨scrB_of_kind hscr (kind_rewire w x ups) this.1, sizesPos_of_swr r this.2⟩
  · by_cases h1 : OneGrp w
    · exact Or.inl (oneGrp_of_swr h1 r)
    · exact Or.inr (hty h1)

/-- **Reachable states** (several groups, re-wiring issued from outside): initialisation, events,
runs, beginnings of runs, and re-wirings that are admissible (`RewOK`) and leave the world in the
scope `SC` and — unless there is one group only — typed by the certificate of the scope (all
decidable on the current world). -/
inductive ReachD (cl : List (List Nat)) (w0 : World) : World → Prop
  | init : ReachD cl w0 w0.simulateInit
  | step {w w' : World} {e : Event} : ReachD cl w0 w → w.step = some (e, w') → ReachD cl w0 w'
  | loop {w : World} (n : Nat) : ReachD cl w0 w → ReachD cl w0 (runLoop n w)
  | run {w : World} (d : Int) : ReachD cl w0 w → ReachD cl w0 (w.runBegin d).1
  | rew {w : World} (x : Nat) (ups : List Nat) : ReachD cl w0 w → RewOK w x ups →
      SC (w.rewire x ups) → (¬ OneGrp w → C03Z.Typed cl (w.rewire x ups)) →
      ReachD cl w0 (w.applyOp (.rewire x ups)).1

/-- a re-wiring issued from outside preserves invariant and scope (the typed-stacks invariant does
not read the wiring) -/
theorem wake5_rewire {cl : List (List Nat)} {w : World} (hs : S5 cl w) (h : GoodD cl w) (hi : Ini w)
    (x : Nat) (ups : List Nat) (hok : RewOK w x ups) (hfin : SC (w.rewire x ups))
    (hty : ¬ OneGrp w → C03Z.Typed cl (w.rewire x ups)) :
    GoodD cl (w.rewire x ups) ∧ S5 cl (w.rewire x ups) ∧ Ini (w.rewire x ups) := by
  have r : C02V.swr (w.rewire x ups) = C02V.swr w := C02V.swr_rewire w x ups
  have hscr : (w.rewire x ups).scripts = w.scripts := C02V.scr_rewire w x ups
  have hl : (w.rewire x ups).devs.length = w.devs.length := by
    have := congrArg (fun t => t.1.length) r
    simpa [C02V.swr] using this
  have hkind := kind_rewire w x ups
  have hgroup : ∀ y, ((w.rewire x ups).dev y).group = (w.dev y).group :=
    fun y => stat0_group (stat0_of_swr r y)
  have hgr : (w.rewire x ups).groups = w.groups := congrArg (fun t => t.2.2) r
  have hk : C03Z.GC (w.rewire x ups) := by
    by_cases h1 : OneGrp w
    · exact Or.inl (oneGrp_of_swr h1 r)
    · obtain ⟨_, hti⟩ := h.t h1
      exact Or.inr ⟨cl, h.nr.of_scripts hscr, hty h1,
        hti.of_kinds (C02V.sv_rewire w x ups) hkind hgroup (parts_rewire w x ups)⟩
  -- the part of the invariant shared with stages A, B, C
  have hg := h.b.g.rewireD x ups hok hfin (fun z hz => hi.inited hz)
  have hi' : Ini (w.rewire x ups) := by
    obtain ⟨h1, h2, _⟩ := C20W.Pv_applyOp w (.rewire x ups) rfl hi.1
    exact ⟨h1, h2.trans hi.2⟩
  have hb : GoodB (w.rewire x ups) := by
    refine ⟨hg, fun hr => inv11_rewire (h.b.r (by rw [← hasRes_of_swr r]; exact hr)) x ups,
      fun hn => ?_, Or.inr hi', hk⟩
    have hn0 : ¬ NoBatch w := fun hb0 => hn ((noBatch_of_swr r).mpr hb0)
    exact ci_rewire (h.b.c hn0) x ups hfin h.nr (hs.2.2.1 hn0).1 hg.ev
  refine ⟨⟨hb, h.nr.of_scripts hscr, fun h1 => ?_⟩, hs.rewire x ups hfin hty, hi'⟩
  have h0 : ¬ OneGrp w := fun ho => h1 (oneGrp_of_swr ho r)
  exact ⟨hty h0, (h.t h0).2.of_kinds (C02V.sv_rewire w x ups) hkind hgroup (parts_rewire w x ups)⟩

/-- **In every reachable state** (events, runs, outside re-wirings): invariant, scope, every device
initialised. -/
theorem wake5_rewire_reachable {cl : List (List Nat)} {w0 w : World} (hs : S5 cl w0)
    (hi : C01.Inv w0.env) (h0 : 0 ≤ w0.now) (he : EvOK w0) (hf : FreshA w0) (hreg : C20W.Reg w0)
    (hr : ReachD cl w0 w) : GoodD cl w ∧ S5 cl w ∧ Ini w := by
  induction hr with
  | init =>
    have hg := wake5_init hs hi h0 he hf
    exact ⟨hg, hs.of_sw hg.b.g.sc (sw_simulateInit w0) (C02V.ss_simulateInit w0), ini_simulateInit hreg⟩
  | step _ hst ih => exact ⟨wake5_step ih.1 hst, s5_step ih.2.1 ih.1 hst, ih.2.2.step (istep_step hst)⟩
  | loop n _ ih =>
    exact ⟨wake5_runLoop n ih.1, s5_runLoop n ih.2.1 ih.1, ih.2.2.step (istep_runLoop n _)⟩
  | run d _ ih =>
    exact ⟨wake5_runBegin ih.1 d,
      ih.2.1.of_sw (ih.1.b.runBegin d).g.sc (sw_runBegin _ d) (ss_runBegin _ d),
      ih.2.2.step (istep_runBegin _ d)⟩
  | rew x ups _ hok hfin hty ih => exact wake5_rewire ih.2.1 ih.1 ih.2.2 x ups hok hfin hty

/-- **The closed-world statement for several groups with re-wiring issued from outside.** -/
theorem no_lost_wakeup5_rewire_reachable {cl : List (List Nat)} {w0 w : World} (hs : S5 cl w0)
    (hi : C01.Inv w0.env) (h0 : 0 ≤ w0.now) (he : EvOK w0) (hf : FreshA w0) (hreg : C20W.Reg w0)
    (hr : ReachD cl w0 w) (hc : ClockAdvances w) : Quiescent w :=
  no_lost_wakeup5 (wake5_rewire_reachable hs hi h0 he hf hreg hr).1 hc

/-- What remains PARTIAL with respect to "several groups": (1) a batcher at nesting depth ≥ 2 is
outside the scope (`Typed`: `BatShallow`) — for a batcher INSIDE AN INNER group that unpacks batches
formed in an OUTER group the property is FALSE (`nested_batcher_false`, finding F14);
(2) all paths of a group must stand in the SAME context (a group shared between two different
nesting levels is not typed); (3) re-wiring IN SCRIPTS together with several groups (`S5` requires
`NR`; re-wiring from outside is covered: `no_lost_wakeup5_rewire_reachable`).
LATER STAGE V (end of this file) settles (3): `no_lost_wakeup5_script_rewire_reachable` (scope `S5R`,
typed envelope), and refines (2): a group shared between two nesting levels IS in scope when its usages
are not connected by the wiring (`s5_exLevels`); what remains open is listed at
`no_lost_wakeup5_script_rewire_partial`. -/
theorem no_lost_wakeup5_partial {cl : List (List Nat)} (n : Nat) {w : World} (hs : S5 cl w)
    (hi : C01.Inv w.env) (h0 : 0 ≤ w.now) (he : EvOK w) (hf : FreshA w)
    (hc : ClockAdvances (runLoop n w.simulateInit)) : Quiescent (runLoop n w.simulateInit) :=
  no_lost_wakeup5_reachable n hs hi h0 he hf hc

/-! ### non-vacuity, several groups -/

/-- STAGE D — two groups used one after the other: source 0 → group path 1 (group 0: input 2 →
machine 3 → output 4) → group path 5 (group 1: input 6 → machine 7 → output 8) → slow sink 9 -/
def exChain : World :=
  { devs := [{ kind := .source, aid := 1, down := [1], cycle := 1, maxParts := some 4 },
             { kind := .gpath, aid := 2, group := 0, up := [0], down := [5] },
             { kind := .ginput, aid := 3, group := 0, down := [3] },
             { kind := .handler, aid := 4, up := [2], down := [4], cycle := 1 },
             { kind := .goutput, aid := 5, group := 0, up := [3] },
             { kind := .gpath, aid := 6, group := 1, up := [1], down := [9] },
             { kind := .ginput, aid := 7, group := 1, down := [7] },
             { kind := .handler, aid := 8, up := [6], down := [8], cycle := 1 },
             { kind := .goutput, aid := 9, group := 1, up := [7] },
             { kind := .sink, aid := 10, up := [5], cycle := 5 }],
    groups := [{ paths := [1], input := 2, output := 4 }, { paths := [5], input := 6, output := 8 }],
    assets := [.dev 0, .dev 1, .dev 2, .dev 3, .dev 4, .dev 5, .dev 6, .dev 7, .dev 8, .dev 9] }

/-- its contexts: the machines, inputs and outputs are inside their groups, everything else outside -/
def clChain : List (List Nat) := [[], [], [0], [0], [0], [], [1], [1], [1], []]

/-- in the scope `S5` (typed, flat), not in the scope of stage C (two groups); the computed
certificate is the one above -/
theorem s5_exChain : S5 clChain exChain ∧ ¬ S4 exChain ∧ ¬ OneGrp exChain ∧ C03Z.Flat clChain := by
  decide

set_option maxRecDepth 4000 in
theorem ctxInfer_exChain : C03Z.ctxInfer exChain = clChain := by decide

/-- … so the world is in the certificate-free scope -/
theorem s5i_exChain : S5 (C03Z.ctxInfer exChain) exChain := ctxInfer_exChain ▸ s5_exChain.1

theorem freshA_exChain : FreshA exChain :=
  ⟨⟨rfl, rfl, rfl, rfl, by decide⟩, by decide, fun h => by cases h⟩

theorem evOK_exChain : EvOK exChain := fun n hn => by simp [C02V.acts, exChain] at hn

/-- the hypotheses of the closed-world theorems for several groups are satisfiable -/
theorem goodD_exChain (n : Nat) : GoodD clChain (runLoop n (exChain.simulateInit.runBegin 100).1) :=
  wake5_simulate n 100 s5_exChain.1 C01.inv_init (by decide) evOK_exChain freshA_exChain

/-- t = 4: the sink is busy until 8; the machine 7 of the SECOND group holds part 1 (stack [5]), the
machine 3 of the FIRST group holds part 2 (stack [1]: it would leave through the output of group 0
to group path 5 of group 1, whose machine is occupied), the source holds part 3; all three are
flagged; the clock is about to advance; everything is genuinely blocked -/
def exChainBlocked : World := runLoop 21 (exChain.simulateInit.runBegin 100).1

example : exChainBlocked.now = 4 ∧ ClockAdvances exChainBlocked ∧
    (exChainBlocked.part 1).stack = [5] ∧ (exChainBlocked.part 2).stack = [1] ∧
    ready exChainBlocked 7 1 ∧ ready exChainBlocked 3 2 ∧ ready exChainBlocked 0 3 ∧
    BlockedW exChainBlocked 7 1 ∧ BlockedW exChainBlocked 3 2 ∧ BlockedW exChainBlocked 0 3 ∧
    WakeA exChainBlocked ∧ Quiescent exChainBlocked := by decide

example : Quiescent exChainBlocked := no_lost_wakeup5 (goodD_exChain 21) (by decide)

/-- the stacks are typed for the contexts of the holders (the invariant, computed): part 1 inside
group 1 entered through path 5, part 2 inside group 0 entered through path 1 -/
example : C03Z.TS (C08W.topo exChainBlocked) (C03Z.cx clChain) (C03Z.cx clChain 7)
      (exChainBlocked.part 1).stack ∧
    C03Z.TS (C08W.topo exChainBlocked) (C03Z.cx clChain) (C03Z.cx clChain 3)
      (exChainBlocked.part 2).stack ∧
    ¬ C03Z.TS (C08W.topo exChainBlocked) (C03Z.cx clChain) (C03Z.cx clChain 7)
      (exChainBlocked.part 2).stack := by decide

/-- … as the theorem says -/
example : C03Z.TS (C08W.topo exChainBlocked) (C03Z.cx clChain) (C03Z.cx clChain 7)
    (exChainBlocked.part 1).stack :=
  stacks_typed (goodD_exChain 21) (by decide) (by decide) (by decide) (by decide)

/-- `give` answers `wouldAccept` through BOTH groups: the offer of part 2 to the output 4 of group 0
(pop path 1, on to path 5, push, input 6, machine 7: occupied) is refused -/
example : (exChainBlocked.givePart 4 2).2 = false ∧
    wouldAccept exChainBlocked.fuel exChainBlocked 4 2 = false := by decide

/-- t = 8: the sink has notified group path 5; through the output 8 of group 1 the machine 7 has
been woken (W1); one event later it has handed part 1 over and its notification has gone — group
input 6, group path 5, group path 1, OUTPUT 4 OF GROUP 0 — to the machine 3, whose attempt is queued;
another event later part 2 has moved from group 0 into group 1 (stack [5]) and the source is woken -/
example : (runLoop 22 (exChain.simulateInit.runBegin 100).1).now = 8 ∧
    Att (runLoop 22 (exChain.simulateInit.runBegin 100).1) 7 ∧
    ((runLoop 23 (exChain.simulateInit.runBegin 100).1).dev 9).part = some 1 ∧
    Att (runLoop 23 (exChain.simulateInit.runBegin 100).1) 3 ∧
    ((runLoop 24 (exChain.simulateInit.runBegin 100).1).dev 7).part = some 2 ∧
    ((runLoop 24 (exChain.simulateInit.runBegin 100).1).part 2).stack = [5] ∧
    Att (runLoop 24 (exChain.simulateInit.runBegin 100).1) 0 := by decide

/-- STAGE E — a group shared by two lines, with a second group behind one of them: source 0 → path 2
→ path 7 (group 1: input 8 → machine 9 → output 10) → sink 11, and source 1 → path 3 → sink 12; the
paths 2 and 3 share group 0 (input 4 → machine 5 → output 6) -/
def exShared : World :=
  { devs := [{ kind := .source, aid := 1, down := [2], cycle := 1, maxParts := some 3 },
             { kind := .source, aid := 2, down := [3], cycle := 1, maxParts := some 3 },
             { kind := .gpath, aid := 3, group := 0, up := [0], down := [7] },
             { kind := .gpath, aid := 4, group := 0, up := [1], down := [12] },
             { kind := .ginput, aid := 5, group := 0, down := [5] },
             { kind := .handler, aid := 6, up := [4], down := [6], cycle := 2 },
             { kind := .goutput, aid := 7, group := 0, up := [5] },
             { kind := .gpath, aid := 8, group := 1, up := [2], down := [11] },
             { kind := .ginput, aid := 9, group := 1, down := [9] },
             { kind := .handler, aid := 10, up := [8], down := [10], cycle := 1 },
             { kind := .goutput, aid := 11, group := 1, up := [9] },
             { kind := .sink, aid := 12, up := [7], cycle := 5 },
             { kind := .sink, aid := 13, up := [3], cycle := 5 }],
    groups := [{ paths := [2, 3], input := 4, output := 6 }, { paths := [7], input := 8, output := 10 }],
    assets := [.dev 0, .dev 1, .dev 2, .dev 3, .dev 4, .dev 5, .dev 6, .dev 7, .dev 8, .dev 9, .dev 10,
      .dev 11, .dev 12] }

def clShared : List (List Nat) := [[], [], [], [], [0], [0], [0], [], [1], [1], [1], [], []]

/-- in the scope `S5`; the certificate is the computed one -/
theorem s5_exShared : S5 clShared exShared ∧ ¬ S4 exShared := by decide

set_option maxRecDepth 4000 in
theorem ctxInfer_exShared : C03Z.ctxInfer exShared = clShared := by decide

theorem goodD_exShared (n : Nat) :
    GoodD clShared (runLoop n (exShared.simulateInit.runBegin 100).1) :=
  wake5_simulate n 100 s5_exShared.1 C01.inv_init (by decide)
    (fun n hn => by simp [C02V.acts, exShared] at hn)
    ⟨⟨rfl, rfl, rfl, rfl, by decide⟩, by decide, fun h => by cases h⟩

/-- t = 7: the shared machine 5 holds part 3 of the FIRST line (stack [2]): it would leave through
path 2 into the second group, whose machine 9 holds part 2 (stack [7]) in front of the busy sink 11;
the source of the second line is blocked in front of the shared machine although ITS sink 12 is idle;
the clock is about to advance; everything is genuinely blocked -/
example : (runLoop 24 (exShared.simulateInit.runBegin 100).1).now = 7 ∧
    ClockAdvances (runLoop 24 (exShared.simulateInit.runBegin 100).1) ∧
    ((runLoop 24 (exShared.simulateInit.runBegin 100).1).part 3).stack = [2] ∧
    ((runLoop 24 (exShared.simulateInit.runBegin 100).1).part 2).stack = [7] ∧
    ((runLoop 24 (exShared.simulateInit.runBegin 100).1).dev 12).part = none ∧
    BlockedW (runLoop 24 (exShared.simulateInit.runBegin 100).1) 5 3 ∧
    BlockedW (runLoop 24 (exShared.simulateInit.runBegin 100).1) 9 2 ∧
    BlockedW (runLoop 24 (exShared.simulateInit.runBegin 100).1) 1 1 ∧
    Quiescent (runLoop 24 (exShared.simulateInit.runBegin 100).1) := by decide

example : Quiescent (runLoop 24 (exShared.simulateInit.runBegin 100).1) :=
  no_lost_wakeup5 (goodD_exShared 24) (by decide)

/-- t = 9: sink 11 has notified; machine 9 is woken through the output of group 1, hands part 2 over,
and the shared machine 5 is woken through the output of group 0 -/
example : (runLoop 25 (exShared.simulateInit.runBegin 100).1).now = 9 ∧
    Att (runLoop 25 (exShared.simulateInit.runBegin 100).1) 9 ∧
    ((runLoop 26 (exShared.simulateInit.runBegin 100).1).dev 11).part = some 2 ∧
    Att (runLoop 26 (exShared.simulateInit.runBegin 100).1) 5 := by decide

/-- STAGE E — re-entrant use with another group in between: source 0 → path 1 (group 0: input 2 →
machine 3 → output 4) → path 5 (group 1: input 6 → machine 7 → output 8) → path 9 (GROUP 0 AGAIN) →
sink 10; every part passes the machine 3 twice -/
def exReent : World :=
  { devs := [{ kind := .source, aid := 1, down := [1], cycle := 4, maxParts := some 3 },
             { kind := .gpath, aid := 2, group := 0, up := [0], down := [5] },
             { kind := .ginput, aid := 3, group := 0, down := [3] },
             { kind := .handler, aid := 4, up := [2], down := [4], cycle := 1 },
             { kind := .goutput, aid := 5, group := 0, up := [3] },
             { kind := .gpath, aid := 6, group := 1, up := [1], down := [9] },
             { kind := .ginput, aid := 7, group := 1, down := [7] },
             { kind := .handler, aid := 8, up := [6], down := [8], cycle := 1 },
             { kind := .goutput, aid := 9, group := 1, up := [7] },
             { kind := .gpath, aid := 10, group := 0, up := [5], down := [10] },
             { kind := .sink, aid := 11, up := [9], cycle := 5 }],
    groups := [{ paths := [1, 9], input := 2, output := 4 }, { paths := [5], input := 6, output := 8 }],
    assets := [.dev 0, .dev 1, .dev 2, .dev 3, .dev 4, .dev 5, .dev 6, .dev 7, .dev 8, .dev 9, .dev 10] }

def clReent : List (List Nat) := [[], [], [0], [0], [0], [], [1], [1], [1], [], []]

theorem s5_exReent : S5 clReent exReent ∧ ¬ S4 exReent := by decide

theorem goodD_exReent (n : Nat) :
    GoodD clReent (runLoop n (exReent.simulateInit.runBegin 100).1) :=
  wake5_simulate n 100 s5_exReent.1 C01.inv_init (by decide)
    (fun n hn => by simp [C02V.acts, exReent] at hn)
    ⟨⟨rfl, rfl, rfl, rfl, by decide⟩, by decide, fun h => by cases h⟩

/-- t = 11: part 1 is in the machine 3 for the SECOND time (history 0, 1, 3, 5, 7, 9, 3), now with
the stack [9]: it will leave group 0 through path 9 to the sink, which is busy until 12; the
machine is flagged, the clock is about to advance, the part is genuinely blocked; at t = 12 the sink
notifies path 9, the machine is woken through the output of group 0 and hands the part over -/
example : (runLoop 16 (exReent.simulateInit.runBegin 100).1).now = 11 ∧
    ClockAdvances (runLoop 16 (exReent.simulateInit.runBegin 100).1) ∧
    ((runLoop 16 (exReent.simulateInit.runBegin 100).1).part 1).stack = [9] ∧
    ((runLoop 16 (exReent.simulateInit.runBegin 100).1).part 1).hist = [0, 1, 3, 5, 7, 9, 3] ∧
    BlockedW (runLoop 16 (exReent.simulateInit.runBegin 100).1) 3 1 ∧
    Quiescent (runLoop 16 (exReent.simulateInit.runBegin 100).1) ∧
    Att (runLoop 18 (exReent.simulateInit.runBegin 100).1) 3 ∧
    ((runLoop 20 (exReent.simulateInit.runBegin 100).1).dev 10).part = some 1 := by decide

example : Quiescent (runLoop 16 (exReent.simulateInit.runBegin 100).1) :=
  no_lost_wakeup5 (goodD_exReent 16) (by decide)

/-- STAGE F — a group nested in a group: source 0 → group path 1 of the OUTER group 0 (input 2 →
machine 3 → group path 4 of the INNER group 1 (input 5 → machine 6 → output 7) → output 8) → slow
sink 9; the path of the inner group is a member of the outer group (its last one) -/
def exNested : World :=
  { devs := [{ kind := .source, aid := 1, down := [1], cycle := 1, maxParts := some 4 },
             { kind := .gpath, aid := 2, group := 0, up := [0], down := [9] },
             { kind := .ginput, aid := 3, group := 0, down := [3] },
             { kind := .handler, aid := 4, up := [2], down := [4], cycle := 1 },
             { kind := .gpath, aid := 5, group := 1, up := [3], down := [8] },
             { kind := .ginput, aid := 6, group := 1, down := [6] },
             { kind := .handler, aid := 7, up := [5], down := [7], cycle := 1 },
             { kind := .goutput, aid := 8, group := 1, up := [6] },
             { kind := .goutput, aid := 9, group := 0, up := [4] },
             { kind := .sink, aid := 10, up := [1], cycle := 5 }],
    groups := [{ paths := [1], input := 2, output := 8 }, { paths := [4], input := 5, output := 7 }],
    assets := [.dev 0, .dev 1, .dev 2, .dev 3, .dev 4, .dev 5, .dev 6, .dev 7, .dev 8, .dev 9] }

def clNested : List (List Nat) := [[], [], [0], [0], [0], [0, 1], [0, 1], [0, 1], [0], []]

/-- in the scope `S5` (typed, NOT flat, no batcher); the inner machine stands in the context [0, 1] -/
theorem s5_exNested : S5 clNested exNested ∧ ¬ S4 exNested ∧ ¬ C03Z.Flat clNested ∧
    C03Z.NoBat exNested := by decide

set_option maxRecDepth 4000 in
theorem ctxInfer_exNested : C03Z.ctxInfer exNested = clNested := by decide

theorem goodD_exNested (n : Nat) :
    GoodD clNested (runLoop n (exNested.simulateInit.runBegin 100).1) :=
  wake5_simulate n 100 s5_exNested.1 C01.inv_init (by decide)
    (fun n hn => by simp [C02V.acts, exNested] at hn)
    ⟨⟨rfl, rfl, rfl, rfl, by decide⟩, by decide, fun h => by cases h⟩

/-- t = 4: the INNER machine 6 holds part 1 with the stack [1, 4] (outer path, inner path), the outer
machine 3 holds part 2 (stack [1]), the source part 3; the sink is busy until 8; all are flagged, the
clock is about to advance, everything is genuinely blocked: the offer of part 1 goes through the
inner output 7 (pop 4), the outer output 8 (pop 1) to the sink -/
def exNestedBlocked : World := runLoop 21 (exNested.simulateInit.runBegin 100).1

example : exNestedBlocked.now = 4 ∧ ClockAdvances exNestedBlocked ∧
    (exNestedBlocked.part 1).stack = [1, 4] ∧ (exNestedBlocked.part 2).stack = [1] ∧
    ready exNestedBlocked 6 1 ∧ ready exNestedBlocked 3 2 ∧ ready exNestedBlocked 0 3 ∧
    BlockedW exNestedBlocked 6 1 ∧ BlockedW exNestedBlocked 3 2 ∧ BlockedW exNestedBlocked 0 3 ∧
    (exNestedBlocked.givePart 7 1).2 = false ∧ Quiescent exNestedBlocked := by decide

example : Quiescent exNestedBlocked := no_lost_wakeup5 (goodD_exNested 21) (by decide)

/-- the stack [1, 4] is typed for the context [0, 1] of the inner machine -/
example : C03Z.TS (C08W.topo exNestedBlocked) (C03Z.cx clNested)
    (C03Z.cx clNested 6) (exNestedBlocked.part 1).stack :=
  stacks_typed (goodD_exNested 21) (by decide) (by decide) (by decide) (by decide)

/-- t = 8: the sink has notified the OUTER group path 1; the notification has gone through the outer
output 8 to the inner group path 4 and through the INNER output 7 to the machine 6 (W1); one event
later part 1 is in the sink with the empty stack and the outer machine 3 is woken -/
example : (runLoop 22 (exNested.simulateInit.runBegin 100).1).now = 8 ∧
    Att (runLoop 22 (exNested.simulateInit.runBegin 100).1) 6 ∧
    ((runLoop 23 (exNested.simulateInit.runBegin 100).1).dev 9).part = some 1 ∧
    ((runLoop 23 (exNested.simulateInit.runBegin 100).1).part 1).stack = [] ∧
    Att (runLoop 23 (exNested.simulateInit.runBegin 100).1) 3 := by decide

/-! #### several groups and a re-wiring from outside -/

/-- `exChain` with a free sink 10 that is not connected -/
def exChainR : World :=
  { exChain with devs := exChain.devs ++ [{ kind := .sink, aid := 11 }],
                 assets := exChain.assets ++ [.dev 10] }

theorem s5_exChainR : S5 (clChain ++ [[]]) exChainR ∧ C20W.Reg exChainR := by decide

/-- the blocked state at t = 4 (as `exChainBlocked`) is reachable; connecting the free sink behind
group path 5 (`rewire 10 [5]`) is admissible there and leaves the world in the scope and typed -/
theorem reachD_exChainR :
    ReachD (clChain ++ [[]]) exChainR (runLoop 21 (exChainR.simulateInit.runBegin 100).1) ∧
    RewOK (runLoop 21 (exChainR.simulateInit.runBegin 100).1) 10 [5] ∧
    SC ((runLoop 21 (exChainR.simulateInit.runBegin 100).1).rewire 10 [5]) ∧
    C03Z.Typed (clChain ++ [[]]) ((runLoop 21 (exChainR.simulateInit.runBegin 100).1).rewire 10 [5]) :=
  ⟨.loop 21 (.run 100 .init), by decide, by decide, by decide⟩

/-- the state after the outside re-wiring is covered by the theorem … -/
example : GoodD (clChain ++ [[]]) ((runLoop 21 (exChainR.simulateInit.runBegin 100).1).rewire 10 [5]) :=
  (wake5_rewire_reachable s5_exChainR.1 C01.inv_init (by decide)
    (fun n hn => by simp [C02V.acts, exChainR, exChain] at hn)
    ⟨⟨rfl, rfl, rfl, rfl, by decide⟩, by decide, fun h => by cases h⟩ s5_exChainR.2
    (.rew 10 [5] reachD_exChainR.1 reachD_exChainR.2.1 reachD_exChainR.2.2.1
      (fun _ => reachD_exChainR.2.2.2))).1

/-- … the notification has gone from group path 5 through the output of group 1 to the machine 7,
whose attempt is queued for the present instant; one event later part 1 has been delivered to the new
sink -/
example : Quiescent (runLoop 21 (exChainR.simulateInit.runBegin 100).1) ∧
    (((runLoop 21 (exChainR.simulateInit.runBegin 100).1).rewire 10 [5]).dev 5).down = [9, 10] ∧
    Att ((runLoop 21 (exChainR.simulateInit.runBegin 100).1).rewire 10 [5]) 7 ∧
    (runLoop 1 ((runLoop 21 (exChainR.simulateInit.runBegin 100).1).rewire 10 [5])).delivered = [0, 1] :=
  by decide

/-! ### FALSE for a batcher inside an inner group (finding F14)

`group.py` keeps the group-path stack on the object that is handed over; the parts INSIDE a batch
keep the stacks they had when they were batched.  A batch formed inside an outer group (its parts
carry the outer path) that enters an inner group and is unpacked THERE yields parts whose innermost
stack entry is the OUTER path: the inner group output sends them out through the outer path —
by-passing the rest of the outer group — and the wake-up that later comes back along the outer path
reaches the output of the OUTER group only: the unbatcher inside the inner group is never woken. -/

/-- source 0 → OUTER group 0 (path 1, input 2, output 9): batcher 3 (batches of 2) → INNER group 1
(path 4, input 5, output 7): unbatcher 6 → machine 8 → outer output 9; slow sink 10 behind path 1 -/
def cexNestBat : World :=
  { devs := [{ kind := .source, aid := 1, down := [1], cycle := 1, maxParts := some 4 },
             { kind := .gpath, aid := 2, group := 0, up := [0], down := [10] },
             { kind := .ginput, aid := 3, group := 0, down := [3] },
             { kind := .batcher, aid := 4, up := [2], down := [4], bsize := some 2 },
             { kind := .gpath, aid := 5, group := 1, up := [3], down := [8] },
             { kind := .ginput, aid := 6, group := 1, down := [6] },
             { kind := .batcher, aid := 7, up := [5], down := [7] },
             { kind := .goutput, aid := 8, group := 1, up := [6] },
             { kind := .handler, aid := 9, up := [4], down := [9] },
             { kind := .goutput, aid := 10, group := 0, up := [8] },
             { kind := .sink, aid := 11, up := [1], cycle := 10 }],
    groups := [{ paths := [1], input := 2, output := 9 }, { paths := [4], input := 5, output := 7 }],
    assets := [.dev 0, .dev 1, .dev 2, .dev 3, .dev 4, .dev 5, .dev 6, .dev 7, .dev 8, .dev 9, .dev 10] }

def clNestBat : List (List Nat) := [[], [], [0], [0], [0], [0, 1], [0, 1], [0, 1], [0], [0], []]

/-- **Nested groups with a batcher in the inner group lose a wake-up.**  The world satisfies every
condition of the scope `S5` — the wiring is typed by `clNestBat` — except "every batcher stands at
nesting depth ≤ 1" (`BatShallow`: the unbatcher 6 stands in the context [0, 1]); it is fresh.  At the end of the run (t = 100, nothing queued any more) the unbatcher 6 inside the INNER
group still holds part 2, whose stack is [1] (the OUTER path), flagged, while the sink — reached
through the inner output 7 and the downstream list of path 1 — is idle and would accept it. -/
theorem nested_batcher_false :
    (SC cexNestBat ∧ NR cexNestBat) ∧ (∀ x ∈ List.range cexNestBat.devs.length,
      C03Z.TypedAt clNestBat cexNestBat x) ∧ ¬ C03Z.BatShallow clNestBat cexNestBat ∧
    C03Z.cx clNestBat 6 = [0, 1] ∧
    ¬ S5 clNestBat cexNestBat ∧ FreshA cexNestBat ∧
    ClockAdvances (runLoop 20 (cexNestBat.simulateInit.runBegin 100).1) ∧
    ((runLoop 20 (cexNestBat.simulateInit.runBegin 100).1).part 2).stack = [1] ∧
    ready (runLoop 20 (cexNestBat.simulateInit.runBegin 100).1) 6 2 ∧
    ((runLoop 20 (cexNestBat.simulateInit.runBegin 100).1).dev 6).waitingDS = true ∧
    wouldAccept (runLoop 20 (cexNestBat.simulateInit.runBegin 100).1).fuel
      (runLoop 20 (cexNestBat.simulateInit.runBegin 100).1) 7 2 = true ∧
    (runLoop 20 (cexNestBat.simulateInit.runBegin 100).1).error = none ∧
    ¬ Quiescent (runLoop 20 (cexNestBat.simulateInit.runBegin 100).1) := by
  refine ⟨by decide, by decide, by decide, by decide, by decide,
    ⟨⟨rfl, rfl, rfl, rfl, by decide⟩, by decide, fun h => by cases h⟩,
    by decide, by decide, by decide, by decide, by decide, by decide, by decide⟩

/-- **Nested groups WITH batchers, all at nesting depth ≤ 1**: as `cexNestBat`, but the unbatcher
stands BEHIND the inner group (device 8, context [0]) and the inner group contains a plain machine
(device 6): the batches formed in the outer group pass the inner group as batches and are unpacked
in the outer group again -/
def exNestBat : World :=
  { devs := [{ kind := .source, aid := 1, down := [1], cycle := 1, maxParts := some 6 },
             { kind := .gpath, aid := 2, group := 0, up := [0], down := [10] },
             { kind := .ginput, aid := 3, group := 0, down := [3] },
             { kind := .batcher, aid := 4, up := [2], down := [4], bsize := some 2 },
             { kind := .gpath, aid := 5, group := 1, up := [3], down := [8] },
             { kind := .ginput, aid := 6, group := 1, down := [6] },
             { kind := .handler, aid := 7, up := [5], down := [7], cycle := 1 },
             { kind := .goutput, aid := 8, group := 1, up := [6] },
             { kind := .batcher, aid := 9, up := [4], down := [9] },
             { kind := .goutput, aid := 10, group := 0, up := [8] },
             { kind := .sink, aid := 11, up := [1], cycle := 4 }],
    groups := [{ paths := [1], input := 2, output := 9 }, { paths := [4], input := 5, output := 7 }],
    assets := [.dev 0, .dev 1, .dev 2, .dev 3, .dev 4, .dev 5, .dev 6, .dev 7, .dev 8, .dev 9, .dev 10] }

/-- in the scope: typed by the same certificate, neither flat nor without batchers, but every
batcher at depth ≤ 1 -/
theorem s5_exNestBat : S5 clNestBat exNestBat ∧ ¬ C03Z.Flat clNestBat ∧ ¬ C03Z.NoBat exNestBat ∧
    C03Z.BatShallow clNestBat exNestBat := by decide

theorem goodD_exNestBat (n : Nat) :
    GoodD clNestBat (runLoop n (exNestBat.simulateInit.runBegin 100).1) :=
  wake5_simulate n 100 s5_exNestBat.1 C01.inv_init (by decide)
    (fun n hn => by simp [C02V.acts, exNestBat] at hn)
    ⟨⟨rfl, rfl, rfl, rfl, by decide⟩, by decide, fun h => by cases h⟩

/-- t = 8: the inner machine 6 holds the BATCH 7 = [6, 8] (stack [4]: the inner path; its parts carry
[1], the outer path), the unbatcher 8 holds part 3 (stack [1]) in front of the busy sink; both are
flagged; the clock is about to advance; everything is genuinely blocked; at t = 11 the sink notifies
and the parts flow again (part 3 delivered, part 5 unpacked) -/
example : (runLoop 30 (exNestBat.simulateInit.runBegin 100).1).now = 8 ∧
    ClockAdvances (runLoop 30 (exNestBat.simulateInit.runBegin 100).1) ∧
    ((runLoop 30 (exNestBat.simulateInit.runBegin 100).1).part 7).kids = some [6, 8] ∧
    ((runLoop 30 (exNestBat.simulateInit.runBegin 100).1).part 7).stack = [4] ∧
    ((runLoop 30 (exNestBat.simulateInit.runBegin 100).1).part 6).stack = [1] ∧
    BlockedW (runLoop 30 (exNestBat.simulateInit.runBegin 100).1) 6 7 ∧
    BlockedW (runLoop 30 (exNestBat.simulateInit.runBegin 100).1) 8 3 ∧
    Quiescent (runLoop 30 (exNestBat.simulateInit.runBegin 100).1) ∧
    (runLoop 32 (exNestBat.simulateInit.runBegin 100).1).delivered = [0, 2, 3] := by decide

example : Quiescent (runLoop 30 (exNestBat.simulateInit.runBegin 100).1) :=
  no_lost_wakeup5 (goodD_exNestBat 30) (by decide)

/-- the same batcher arrangement WITHOUT nesting (both batchers in the one outer group) is in the
scope: flat worlds may have batchers anywhere -/
def exFlatBat : World :=
  { devs := [{ kind := .source, aid := 1, down := [1], cycle := 1, maxParts := some 4 },
             { kind := .gpath, aid := 2, group := 0, up := [0], down := [6] },
             { kind := .ginput, aid := 3, group := 0, down := [3] },
             { kind := .batcher, aid := 4, up := [2], down := [4], bsize := some 2 },
             { kind := .batcher, aid := 5, up := [3], down := [5] },
             { kind := .goutput, aid := 6, group := 0, up := [4] },
             { kind := .gpath, aid := 7, group := 1, up := [1], down := [10] },
             { kind := .ginput, aid := 8, group := 1, down := [8] },
             { kind := .handler, aid := 9, up := [7], down := [9], cycle := 1 },
             { kind := .goutput, aid := 10, group := 1, up := [8] },
             { kind := .sink, aid := 11, up := [6], cycle := 10 }],
    groups := [{ paths := [1], input := 2, output := 5 }, { paths := [6], input := 7, output := 9 }],
    assets := [.dev 0, .dev 1, .dev 2, .dev 3, .dev 4, .dev 5, .dev 6, .dev 7, .dev 8, .dev 9, .dev 10] }

def clFlatBat : List (List Nat) := [[], [], [0], [0], [0], [0], [], [1], [1], [1], []]

theorem s5_exFlatBat : S5 clFlatBat exFlatBat ∧ ¬ S4 exFlatBat ∧ C03Z.Flat clFlatBat ∧
    ¬ C03Z.NoBat exFlatBat := by decide

theorem goodD_exFlatBat (n : Nat) :
    GoodD clFlatBat (runLoop n (exFlatBat.simulateInit.runBegin 100).1) :=
  wake5_simulate n 100 s5_exFlatBat.1 C01.inv_init (by decide)
    (fun n hn => by simp [C02V.acts, exFlatBat] at hn)
    ⟨⟨rfl, rfl, rfl, rfl, by decide⟩, by decide, fun h => by cases h⟩

/-! ## STAGE V: SEVERAL GROUPS AND RE-WIRING IN SCRIPTS

`S5R cl w ⊇ S4R w, S5 cl w`: the scope of stage RF (resources, batchers, batches, re-wiring scripts)
with "there is one group only" replaced by "one group, or the ENVELOPE is typed by group contexts":
`C03V.TE cl w = C03Z.Typed cl (envl w)` (`Proofs/C03VTyp.lean`).  Every wiring the scripts can ever
produce is a sub-wiring of the envelope, and a sub-wiring of a typed wiring is typed
(`C03V.Typed.sub`), so the typing is preserved by every step, the re-wiring steps included.  The
invariant `GoodV cl w` carries the typed-stacks invariant `C03Z.TInv cl w` (which reads neither the
scripts nor the wiring) next to the invariants of stage RF. -/

/-- **The whole scope: several groups AND mid-run re-wiring in scripts.**  As `S4R`, with "there is
one group only" replaced by "one group, or the ENVELOPE is typed by group contexts"
(`C03V.TE cl w = C03Z.Typed cl (envl w)`): the wiring plus every connection `u → x` that a scripted
`rewire x ups`, `u ∈ ups`, may add respects the contexts of the certificate `cl`. -/
def S5R (cl : List (List Nat)) (w : World) : Prop :=
  SC w ∧ (hasRes w = true → S11R w) ∧ (¬ NoBatch w → ScrB w ∧ C17W.SizesPos w) ∧
    (OneGrp w ∨ C03V.TE cl w)

instance (cl : List (List Nat)) (w : World) : Decidable (S5R cl w) := by unfold S5R; infer_instance

/-- stage RF (one group, scripted re-wiring) is a sub-scope -/
theorem S4R.s5r {w : World} (h : S4R w) (cl : List (List Nat)) : S5R cl w :=
  ⟨h.1, h.2.1, h.2.2.1, Or.inl h.2.2.2⟩

/-- stages D, E, F (several groups, no scripted re-wiring) are a sub-scope -/
theorem S5.s5r {cl : List (List Nat)} {w : World} (h : S5 cl w) : S5R cl w :=
  ⟨h.1.1, fun hr => s11R_of_S (h.2.1 hr), h.2.2.1, h.2.2.2.imp id (C03V.te_of_nr h.1.2)⟩

/-- without re-wiring scripts the scope is that of stages D, E, F with `S11R` for `C11W.S` -/
theorem s5r_iff_of_nr {cl : List (List Nat)} {w : World} (hn : NR w) :
    S5R cl w ↔ SC w ∧ (hasRes w = true → S11R w) ∧ (¬ NoBatch w → ScrB w ∧ C17W.SizesPos w) ∧
      (OneGrp w ∨ C03Z.Typed cl w) := by
  unfold S5R; rw [C03V.te_iff_of_nr hn]

/-- Everything the closed-world induction carries (stage V): as `GoodF` (stage RF), with the clause
"one group" replaced by "one group, or the envelope is typed by the certificate of the scope and the
typed-stacks invariant holds". -/
structure GoodV (cl : List (List Nat)) (w : World) : Prop where
  g : G [] [] [] w
  r : hasRes w = true → C11W.Inv (es w [])
  s : hasRes w = true → S11R w
  c : ¬ NoBatch w → C17W.CI (es w [])
  cs : ¬ NoBatch w → ScrB w ∧ C17W.SizesPos w
  i : IOK w
  t : ¬ OneGrp w → C03V.TE cl w ∧ C03Z.TInv cl w

theorem GoodV.s5r {cl : List (List Nat)} {w : World} (h : GoodV cl w) : S5R cl w :=
  ⟨h.g.sc, h.s, h.cs, by
    by_cases h1 : OneGrp w
    · exact Or.inl h1
    · exact Or.inr (h.t h1).1⟩

/-- the machinery's condition, for the world without its scripts -/
theorem GoodV.gc {cl : List (List Nat)} {w : World} (h : GoodV cl w) : C03Z.GC (es w []) :=
  C03V.gc_es h.t

theorem GoodV.invB {cl : List (List Nat)} {w : World} (h : GoodV cl w) : InvB w :=
  fun hnb => (h.c hnb).inv.of_sv (w := es w []) (w' := w) rfl

theorem GoodV.settled {cl : List (List Nat)} {w : World} (h : GoodV cl w) : Settled w := by
  intro x hk ho
  have hnb : ¬ NoBatch w := fun hn => (noBatch_dev hn x).1 hk
  rcases ((h.c hnb).bat x hk).settled with h1 | h1
  · have h1' : (w.dev x).output.isSome = true := h1
    rw [ho] at h1'; cases h1'
  · exact h1

theorem GoodV.procs {cl : List (List Nat)} {w : World} (h : GoodV cl w) (hr : hasRes w = true) :
    ∀ e ∈ w.rm.waiting, ∃ x, e.2 = Cb.proc x := by
  rcases h.g.wr with hn | hreg
  · rw [hr] at hn; cases hn
  · exact hreg.1

theorem GoodV.gci {cl : List (List Nat)} {w : World} (h : GoodV cl w) (hn : ¬ NoBatch w) : GCI w :=
  ⟨h.c hn, h.g.sc, (h.cs hn).1⟩

theorem GoodV.pend {cl : List (List Nat)} {w : World} (h : GoodV cl w) (hr : hasRes w = true) :
    C11W.Pend w := (h.r hr).pend

theorem GoodV.nb {cl : List (List Nat)} {w : World} (_ : GoodV cl w) (h1 : ¬ OneGrp w) :
    ¬ NoBatch w := fun hb => h1 (oneGrp_of_noBatch hb)

/-- the typed-stacks part of the invariant, in the form of `GoodD` -/
theorem GoodV.typed {cl : List (List Nat)} {w : World} (h : GoodV cl w) (h1 : ¬ OneGrp w) :
    C03Z.Typed cl w ∧ C03Z.TInv cl w := ⟨(h.t h1).1.typed, (h.t h1).2⟩

/-- **V2. `wakeV_step`**: every event preserves the invariant (scope included) — also the events
that run a re-wiring script. -/
theorem wakeV_step {cl : List (List Nat)} {w w' : World} {e : Event} (h : GoodV cl w)
    (hst : w.step = some (e, w')) : GoodV cl w' := by
  have r := swrw_step w w' e h.g.sc.nc hst
  have hres : hasRes w' = true → hasRes w = true := fun hr => by rw [← hasRes_of_swr' r]; exact hr
  have hnb : ¬ NoBatch w' → ¬ NoBatch w := fun hn hb => hn ((noBatch_of_swr' r).mpr hb)
  refine ⟨C03V.G.stepV h.g h.invB h.settled h.i h.gc hst,
    fun hr => inv11_es_step (h.r (hres hr)) (h.s (hres hr)).opsOK h.g.sc.nc (h.procs (hres hr)) hst,
    fun hr => (h.s (hres hr)).of_step r,
    fun hn => ((h.gci (hnb hn)).step hst).1,
    fun hn => ⟨((h.gci (hnb hn)).step hst).2.scrB, sizesPos_of_swr r.1 (h.cs (hnb hn)).2⟩,
    h.i.step (istep_step hst), fun h1 => ?_⟩
  have h0 : ¬ OneGrp w := fun ho => h1 (oneGrp_of_swr ho r.1)
  obtain ⟨hte, hti⟩ := h.t h0
  have := C03V.tinv_stepV (h.c (h.nb h0)) h.g.sc hte hti hst
  exact ⟨this.2, this.1⟩

theorem wakeV_runLoop {cl : List (List Nat)} (n : Nat) : ∀ {w : World}, GoodV cl w →
    GoodV cl (runLoop n w) := by
  induction n with
  | zero =>
    intro w h
    have r := swrw_runLoop 0 w h.g.sc.nc
    have hres : hasRes (runLoop 0 w) = true → hasRes w = true :=
      fun hr => by rw [← hasRes_of_swr' r]; exact hr
    have hnb : ¬ NoBatch (runLoop 0 w) → ¬ NoBatch w := fun hn hb => hn ((noBatch_of_swr' r).mpr hb)
    have esw : sw (w.setErr "fuel") = sw w :=
      C03Z.sw_of_swv (C02V.swv_setErr w _) (C02V.scr_setErr ..)
    refine ⟨h.g.setErr _, fun hr => ?_, fun hr => (h.s (hres hr)).of_step r,
      fun hn => ((h.gci (hnb hn)).setErr _).1,
      fun hn => ⟨((h.gci (hnb hn)).setErr _).2.scrB, sizesPos_of_swr r.1 (h.cs (hnb hn)).2⟩,
      h.i.step (istep_runLoop 0 w), fun h1 => ?_⟩
    · show C11W.Inv (es (w.setErr "fuel") [])
      rw [← es_setErr]
      exact (h.r (hres hr)).mono (C11W.monoS_setErr _ _).toMono
    · have h0 : ¬ OneGrp w := fun ho => h1 (oneGrp_of_swr ho r.1)
      obtain ⟨hte, hti⟩ := h.t h0
      exact ⟨hte.of_sw esw,
        hti.of_frame_st (C02V.sv_setErr ..) (C02V.st_setErr ..) (setErr_parts ..)⟩
  | succ n ih =>
    intro w h
    unfold World.runLoop
    split
    · split
      · exact h
      · next e w' hst => exact ih (wakeV_step h hst)
    · exact h

theorem wakeV_runBegin {cl : List (List Nat)} {w : World} (h : GoodV cl w) (d : Int) :
    GoodV cl (w.runBegin d).1 := by
  have r := swrw_runBegin w d
  have hres : hasRes (w.runBegin d).1 = true → hasRes w = true :=
    fun hr => by rw [← hasRes_of_swr' r]; exact hr
  have hnb : ¬ NoBatch (w.runBegin d).1 → ¬ NoBatch w := fun hn hb => hn ((noBatch_of_swr' r).mpr hb)
  refine ⟨h.g.runBeginG d, fun hr => ?_, fun hr => (h.s (hres hr)).of_step r, fun hn => ?_,
    fun hn => ⟨scrB_of_kind r.2 (fun y => stat0_kind (stat0_of_swr r.1 y)) (h.cs (hnb hn)).1,
      sizesPos_of_swr r.1 (h.cs (hnb hn)).2⟩, h.i.step (istep_runBegin w d), fun h1 => ?_⟩
  · rw [← es_runBegin]
    exact C11W.inv_runBegin (es w []) d (h.r (hres hr))
  · rw [← es_runBegin]
    exact C17W.ci_runBegin (es w []) d (h.c (hnb hn))
  · have h0 : ¬ OneGrp w := fun ho => h1 (oneGrp_of_swr ho r.1)
    obtain ⟨hte, hti⟩ := h.t h0
    exact ⟨hte.of_sw (sw_runBegin w d).sw_eq, C03Z.tinv_runBegin w d hti⟩

/-- **V1. `wakeV_init`**: after `simulateInit` of a fresh world of the scope that satisfies the
registration invariant the invariant holds. -/
theorem wakeV_init {cl : List (List Nat)} {w : World} (hs : S5R cl w) (hi : C01.Inv w.env)
    (h0 : 0 ≤ w.now) (he : EvOK w) (hf : FreshA w) (hreg : C20W.Reg w) :
    GoodV cl w.simulateInit := by
  have hg : G [] [] [] w :=
    ⟨hs.1, fun _ => partsLeaf_fresh hf.1, hi, h0, he, heldValid_fresh hf.1,
      kidsValid_of_leaf (partsLeaf_fresh hf.1), stkOK_of_noParts hf.1.1,
      wr_fresh hf.2.1 (fun hr => (hf.2.2 hr).2.2.1), (fun _ hx => nomatch hx), wakeG_fresh hf.1⟩
  have r := swrw_simulateInit w
  have hres : hasRes w.simulateInit = true → hasRes w = true :=
    fun hr => by rw [← hasRes_of_swr' r]; exact hr
  have hnb : ¬ NoBatch w.simulateInit → ¬ NoBatch w := fun hn hb => hn ((noBatch_of_swr' r).mpr hb)
  have esw := (sw_simulateInit w).sw_eq
  refine ⟨hg.simulateInitG, fun hr => ?_, fun hr => (hs.2.1 (hres hr)).of_step r, fun hn => ?_,
    fun hn => ⟨scrB_of_kind r.2 (fun y => stat0_kind (stat0_of_swr r.1 y)) (hs.2.2.1 (hnb hn)).1,
      sizesPos_of_swr r.1 (hs.2.2.1 (hnb hn)).2⟩, Or.inr (ini_simulateInit hreg), fun h1 => ?_⟩
  · rw [← es_simulateInit]
    exact C11W.inv_simulateInit (es w []) (hs.2.1 (hres hr)).nil (hf.2.2 (hres hr))
  · rw [← es_simulateInit]
    refine C17W.ci_init (es w []) ⟨hf.1, ?_, (hs.2.2.1 (hnb hn)).2⟩
    exact static_of hs.1.es_nil (fun l hl => nomatch hl) (fun l hl => nomatch hl) he
  · have hte : C03V.TE cl w := hs.2.2.2.resolve_left (fun ho => h1 (oneGrp_of_swr ho r.1))
    have hIw : C02V.InvW w := (C02.consS_iff w).1 (C02.consS_fresh w hf.1)
    exact ⟨hte.of_sw esw,
      C03Z.tinv_simulateInit w hIw (C03Z.tinv_of_empty w (held_nil_fresh hf.1)) hte.typed.tst.nb⟩

/-- an operation issued from outside that some script of the world contains (a re-wiring
included) -/
theorem wakeV_applyOp {cl : List (List Nat)} {w : World} (h : GoodV cl w) (o : Op)
    (ho : ∃ l ∈ w.scripts, o ∈ l) : GoodV cl (w.applyOp o).1 := by
  obtain ⟨l, hl, hol⟩ := ho
  have hop := h.g.sc.scriptOp hl hol
  have hnc := opSC_not_create hop
  have r : C02V.swr (w.applyOp o).1 = C02V.swr w := C02V.swr_applyOp w o hnc
  have hscr : (w.applyOp o).1.scripts = w.scripts := C02V.scr_applyOp w o
  have hres : hasRes (w.applyOp o).1 = true → hasRes w = true :=
    fun hr => by rw [← hasRes_of_swr r]; exact hr
  have hnb : ¬ NoBatch (w.applyOp o).1 → ¬ NoBatch w := fun hn hb => hn ((noBatch_of_swr r).mpr hb)
  have hgci : ¬ NoBatch (w.applyOp o).1 → GCI (w.applyOp o).1 := by
    intro hn
    obtain ⟨h1, h2⟩ := ci_es_applyOps [o] w (h.c (hnb hn)) (h.gci (hnb hn)).2
      (fun op hop => by rw [List.mem_singleton] at hop; subst hop; exact ⟨l, hl, hol⟩)
    have e : w.applyOps [o] = (w.applyOp o).1.addRes (w.applyOp o).2 := rfl
    rw [e] at h1 h2
    exact ⟨ci_frame (v := es ((w.applyOp o).1.addRes (w.applyOp o).2) []) (v' := es (w.applyOp o).1 [])
      h1 rfl rfl rfl rfl rfl, ⟨h2.sc.of_sw rfl, scrB_of_kind rfl (fun _ => rfl) h2.scrB⟩⟩
  refine ⟨h.g.applyOpG o hop h.i ⟨l, hl, hol⟩,
    fun hr => inv11_es_applyOp1 (h.r (hres hr)) o ((h.s (hres hr)).opsOK l hl o hol) hnc,
    fun hr => (h.s (hres hr)).of_swr r hscr, fun hn => (hgci hn).1,
    fun hn => ⟨(hgci hn).2.scrB, sizesPos_of_swr r (h.cs (hnb hn)).2⟩, ?_, fun h1 => ?_⟩
  · exact (h.i.step (istep_applyOp w o hnc)).step ⟨rfl, C20W.Pv.of_same rfl⟩
  · have h0 : ¬ OneGrp w := fun ho => h1 (oneGrp_of_swr ho r)
    obtain ⟨hte, hti⟩ := h.t h0
    have rw := C03V.rw_applyOp w o hnc ⟨l, hl, hol⟩
    exact ⟨hte.of_rw rw, C03V.TInv.of_rw hti rw⟩

/-- a re-wiring issued from outside: admissible, leaves the world in the scope `SC` and — unless
there is one group only — its envelope typed -/
theorem wakeV_rewire {cl : List (List Nat)} {w : World} (h : GoodV cl w) (hi : Ini w) (x : Nat)
    (ups : List Nat) (hok : RewOK w x ups) (hfin : SC (w.rewire x ups))
    (hty : ¬ OneGrp w → C03V.TE cl (w.rewire x ups)) :
    GoodV cl (w.rewire x ups) ∧ Ini (w.rewire x ups) := by
  have r : C02V.swr (w.rewire x ups) = C02V.swr w := C02V.swr_rewire w x ups
  have hscr : (w.rewire x ups).scripts = w.scripts := C02V.scr_rewire w x ups
  have hres : hasRes (w.rewire x ups) = true → hasRes w = true :=
    fun hr => by rw [← hasRes_of_swr r]; exact hr
  have hnb : ¬ NoBatch (w.rewire x ups) → ¬ NoBatch w := fun hn hb => hn ((noBatch_of_swr r).mpr hb)
  have hi' : Ini (w.rewire x ups) := hi.step ⟨hscr, C20W.Pv_applyOp w (.rewire x ups) rfl⟩
  refine ⟨⟨h.g.rewireD x ups hok hfin (fun z hz => hi.inited hz), fun hr => ?_,
    fun hr => (h.s (hres hr)).of_swr r hscr, fun hn => ci_es_rewire (h.c (hnb hn)) x ups hfin,
    fun hn => ⟨scrB_of_kind hscr (kind_rewire w x ups) (h.cs (hnb hn)).1,
      sizesPos_of_swr r (h.cs (hnb hn)).2⟩, Or.inr hi', fun h1 => ?_⟩, hi'⟩
  · rw [← es_rewire]
    exact inv11_rewire (h.r (hres hr)) x ups
  · have h0 : ¬ OneGrp w := fun ho => h1 (oneGrp_of_swr ho r)
    exact ⟨hty h0, (h.t h0).2.of_kinds (C02V.sv_rewire w x ups) (kind_rewire w x ups)
      (fun y => stat0_group (stat0_of_swr r y)) (parts_rewire w x ups)⟩

/-- **Reachable states** (stage V): initialisation, events (the scripts' re-wirings included), runs,
beginnings of runs, operations issued from outside that some script contains, re-wirings issued from
outside that are admissible and leave the world in the scope (all conditions decidable on the
current world). -/
inductive ReachV (cl : List (List Nat)) (w0 : World) : World → Prop
  | init : ReachV cl w0 w0.simulateInit
  | step {w w' : World} {e : Event} : ReachV cl w0 w → w.step = some (e, w') → ReachV cl w0 w'
  | loop {w : World} (n : Nat) : ReachV cl w0 w → ReachV cl w0 (runLoop n w)
  | run {w : World} (d : Int) : ReachV cl w0 w → ReachV cl w0 (w.runBegin d).1
  | op {w : World} (o : Op) : ReachV cl w0 w → (∃ l ∈ w.scripts, o ∈ l) →
      ReachV cl w0 (w.applyOp o).1
  | rew {w : World} (x : Nat) (ups : List Nat) : ReachV cl w0 w → RewOK w x ups →
      SC (w.rewire x ups) → (¬ OneGrp w → C03V.TE cl (w.rewire x ups)) →
      ReachV cl w0 (w.applyOp (.rewire x ups)).1

/-- **V3. `wakeV_reachable`**: the invariant holds in every reachable state. -/
theorem wakeV_reachable {cl : List (List Nat)} {w0 w : World} (hs : S5R cl w0)
    (hi : C01.Inv w0.env) (h0 : 0 ≤ w0.now) (he : EvOK w0) (hf : FreshA w0) (hreg : C20W.Reg w0)
    (hr : ReachV cl w0 w) : GoodV cl w ∧ Ini w := by
  induction hr with
  | init => exact ⟨wakeV_init hs hi h0 he hf hreg, ini_simulateInit hreg⟩
  | step _ hst ih => exact ⟨wakeV_step ih.1 hst, ih.2.step (istep_step hst)⟩
  | loop n _ ih => exact ⟨wakeV_runLoop n ih.1, ih.2.step (istep_runLoop n _)⟩
  | run d _ ih => exact ⟨wakeV_runBegin ih.1 d, ih.2.step (istep_runBegin _ d)⟩
  | @op w o _ ho ih =>
    obtain ⟨l, hl, hol⟩ := ho
    have hnc := opSC_not_create (ih.1.g.sc.scriptOp hl hol)
    exact ⟨wakeV_applyOp ih.1 o ⟨l, hl, hol⟩,
      (ih.2.step (istep_applyOp w o hnc)).step ⟨rfl, C20W.Pv.of_same rfl⟩⟩
  | rew x ups _ hok hfin hty ih => exact wakeV_rewire ih.1 ih.2 x ups hok hfin hty

/-- the scope is preserved along every reachable state -/
theorem s5r_reachable {cl : List (List Nat)} {w0 w : World} (hs : S5R cl w0) (hi : C01.Inv w0.env)
    (h0 : 0 ≤ w0.now) (he : EvOK w0) (hf : FreshA w0) (hreg : C20W.Reg w0)
    (hr : ReachV cl w0 w) : S5R cl w :=
  (wakeV_reachable hs hi h0 he hf hreg hr).1.s5r

/-- the invariant gives the machinery's invariants for the world without its scripts -/
theorem GoodV.quiescent_es {cl : List (List Nat)} {w : World} (h : GoodV cl w)
    (hc : ClockAdvances w) (d p : Nat) (hr : ready w d p) : BlockedW (es w []) d p :=
  blocked_genuinely_of (w := es w []) (C03V.G.esG h.g [] h.g.sc.es_nil)
    (fun hr => (h.r hr).pend) h.gc hc d p hr

/-- **V4. `blocked_genuinelyV`**: when time is about to advance, every ready part — inside, between
or in front of the groups, in the wiring of that moment — is flagged, and no downstream neighbour
would pass it on to anybody who accepts. -/
theorem blocked_genuinelyV {cl : List (List Nat)} {w : World} (h : GoodV cl w)
    (hc : ClockAdvances w) (d p : Nat) (hr : ready w d p) : BlockedW w d p := by
  obtain ⟨h1, h2⟩ := h.quiescent_es hc d p hr
  refine ⟨h1, fun y hy => ?_⟩
  have := h2 y hy
  rw [C03V.wouldAccept_es] at this
  exact this

theorem no_lost_wakeupV {cl : List (List Nat)} {w : World} (h : GoodV cl w)
    (hc : ClockAdvances w) : Quiescent w := by
  rw [quiescent_iff]
  intro d p x hr hx
  exact (blocked_genuinelyV h hc d p hr).2 x hx

/-- the stacks of the held parts are typed for the contexts of their holders, whatever the scripts
have re-wired so far -/
theorem stacks_typedV {cl : List (List Nat)} {w : World} (h : GoodV cl w) (h1 : ¬ OneGrp w)
    {d p : Nat} (hd : d < w.devs.length) (hk : (w.dev d).kind ≠ .sink) (hp : p ∈ heldL (w.dev d)) :
    C03Z.TS (C08W.topo w) (C03Z.cx cl) (C03Z.cx cl d) (w.part p).stack :=
  (h.t h1).2.1 d (C02V.sdev (w.dev d)) p (C02V.sv_get w d hd) hk hp

/-- **The closed-world statement for several groups with re-wiring IN SCRIPTS** (and from outside):
in every state reachable from an initialised fresh world of the scope `S5R cl` — any number of
groups, in sequence, re-entrant, nested; resources, batchers (nesting depth ≤ 1), batches, buffers,
gates; scripts that re-wire devices outside, between, inside the groups, group paths and group
outputs, within the typed envelope — whenever the clock is about to advance no ready part could be
handed over, in the wiring of that moment. -/
theorem no_lost_wakeup5_script_rewire_reachable {cl : List (List Nat)} {w0 w : World}
    (hs : S5R cl w0) (hi : C01.Inv w0.env) (h0 : 0 ≤ w0.now) (he : EvOK w0) (hf : FreshA w0)
    (hreg : C20W.Reg w0) (hr : ReachV cl w0 w) (hc : ClockAdvances w) : Quiescent w :=
  no_lost_wakeupV (wakeV_reachable hs hi h0 he hf hreg hr).1 hc

theorem no_lost_wakeup5_script_rewire_runLoop {cl : List (List Nat)} (n : Nat) {w : World}
    (hs : S5R cl w) (hi : C01.Inv w.env) (h0 : 0 ≤ w.now) (he : EvOK w) (hf : FreshA w)
    (hreg : C20W.Reg w) (hc : ClockAdvances (runLoop n w.simulateInit)) :
    Quiescent (runLoop n w.simulateInit) :=
  no_lost_wakeup5_script_rewire_reachable hs hi h0 he hf hreg (.loop n .init) hc

/-- The same with the computed certificate (a decidable scope of the world alone): the contexts are
inferred from the ENVELOPE. -/
theorem no_lost_wakeup5_script_rewire_infer {w0 w : World}
    (hs : S5R (C03Z.ctxInfer (envl w0)) w0) (hi : C01.Inv w0.env) (h0 : 0 ≤ w0.now) (he : EvOK w0)
    (hf : FreshA w0) (hreg : C20W.Reg w0) (hr : ReachV (C03Z.ctxInfer (envl w0)) w0 w)
    (hc : ClockAdvances w) : Quiescent w :=
  no_lost_wakeup5_script_rewire_reachable hs hi h0 he hf hreg hr hc

/-- stage V subsumes stage RF: the states reachable there are reachable here -/
theorem ReachF.reachV {w0 w : World} (cl : List (List Nat)) (hs : S4R w0) (hi : C01.Inv w0.env)
    (h0 : 0 ≤ w0.now) (he : EvOK w0) (hf : FreshA w0) (hreg : C20W.Reg w0) (hr : ReachF w0 w) :
    ReachV cl w0 w := by
  induction hr with
  | init => exact .init
  | step _ hst ih => exact .step ih hst
  | loop n _ ih => exact .loop n ih
  | run d _ ih => exact .run d ih
  | op o _ ho ih => exact .op o ih ho
  | rew x ups hr' hok hfin ih =>
    exact .rew x ups ih hok hfin
      (fun h1 => absurd (wakeF_reachable hs hi h0 he hf hreg hr').1.o h1)

/-- stage V subsumes stages D, E, F with re-wiring from outside -/
theorem ReachD.reachV {cl : List (List Nat)} {w0 w : World} (hs : S5 cl w0) (hi : C01.Inv w0.env)
    (h0 : 0 ≤ w0.now) (he : EvOK w0) (hf : FreshA w0) (hreg : C20W.Reg w0) (hr : ReachD cl w0 w) :
    ReachV cl w0 w := by
  induction hr with
  | init => exact .init
  | step _ hst ih => exact .step ih hst
  | loop n _ ih => exact .loop n ih
  | run d _ ih => exact .run d ih
  | @rew w x ups hr' hok hfin hty ih =>
    refine .rew x ups ih hok hfin (fun h1 => C03V.te_of_nr ?_ (hty h1))
    exact (wake5_rewire_reachable hs hi h0 he hf hreg hr').1.nr.of_scripts
      (C02V.scr_rewire w x ups)

/-- What remains PARTIAL after stage V with respect to "several groups": (1) a batcher at nesting
depth ≥ 2 (FALSE: `nested_batcher_false`); (2) a group whose paths stand in different contexts AND are
connected by the wiring (no certificate exists: `shared_levels_untypable`; groups shared between
nesting levels in different components of the wiring ARE covered: `exLevels`); (3) `create` (assets
constructed mid-run).  Scripted re-wiring is covered whenever the envelope is typed (necessary:
`script_rewire_untyped_false`, `outside_rewire_untyped_false`). -/
theorem no_lost_wakeup5_script_rewire_partial {cl : List (List Nat)} {w0 w : World}
    (hs : S5R cl w0) (hi : C01.Inv w0.env) (h0 : 0 ≤ w0.now) (he : EvOK w0) (hf : FreshA w0)
    (hreg : C20W.Reg w0) (hr : ReachV cl w0 w) (hc : ClockAdvances w) : Quiescent w :=
  no_lost_wakeup5_script_rewire_reachable hs hi h0 he hf hreg hr hc

/-! ### non-vacuity, stage V -/

/-- STAGE D with a scripted re-wiring: `exChain` (two groups in sequence) with a free sink 10 that
is not connected; at t = 5 script 0 connects it behind group path 5 of the second group:
`rewire 10 [5]` -/
def exChainS : World :=
  { exChainR with env := envAt 5 0, scripts := [[.rewire 10 [5]]] }

/-- in the scope of stage V — typed envelope — and in none of the scopes before (several groups AND
a re-wiring script); registered; the certificate is the one computed from the envelope -/
theorem s5r_exChainS : S5R (clChain ++ [[]]) exChainS ∧ ¬ S4R exChainS ∧
    ¬ S5 (clChain ++ [[]]) exChainS ∧ ¬ OneGrp exChainS ∧ ¬ NR exChainS ∧ C20W.Reg exChainS := by
  decide

set_option maxRecDepth 4000 in
theorem ctxInfer_exChainS : C03Z.ctxInfer (envl exChainS) = clChain ++ [[]] := by decide

theorem freshA_exChainS : FreshA exChainS :=
  ⟨⟨rfl, rfl, rfl, rfl, by decide⟩, by decide, fun h => by cases h⟩

/-- the hypotheses of the closed-world theorem of stage V are satisfiable -/
theorem goodV_exChainS (n : Nat) : GoodV (clChain ++ [[]]) (runLoop n exChainS.simulateInit) :=
  (wakeV_reachable s5r_exChainS.1 (by decide) (by decide) (evOK_envAt5 _ rfl) freshA_exChainS
    s5r_exChainS.2.2.2.2.2 (.loop n .init)).1

/-- t = 4 (as `exChainBlocked`): the machine 7 of the second group holds part 1 (stack [5]), the
machine 3 of the first group part 2 (stack [1]), the source part 3; the sink is busy until 8; all
flagged; the clock is about to advance to 5; everything is genuinely blocked -/
example : (runLoop 21 exChainS.simulateInit).now = 4 ∧ ClockAdvances (runLoop 21 exChainS.simulateInit) ∧
    ((runLoop 21 exChainS.simulateInit).part 1).stack = [5] ∧
    BlockedW (runLoop 21 exChainS.simulateInit) 7 1 ∧ BlockedW (runLoop 21 exChainS.simulateInit) 3 2 ∧
    BlockedW (runLoop 21 exChainS.simulateInit) 0 3 ∧
    Quiescent (runLoop 21 exChainS.simulateInit) := by decide

example : Quiescent (runLoop 21 exChainS.simulateInit) :=
  no_lost_wakeupV (goodV_exChainS 21) (by decide)

/-- … instantiating the closed-world theorem itself -/
example : Quiescent (runLoop 21 exChainS.simulateInit) :=
  no_lost_wakeup5_script_rewire_runLoop 21 s5r_exChainS.1 (by decide) (by decide)
    (evOK_envAt5 _ rfl) freshA_exChainS s5r_exChainS.2.2.2.2.2 (by decide)

/-- t = 5, right after the SCRIPT has re-wired: group path 5 has the free sink as a second downstream
neighbour; the notification has gone from the path through the output of group 1 to the machine 7,
whose attempt is queued for this instant; one event later part 1 has been delivered to the new
sink, still at t = 5; the scope is preserved -/
example : (runLoop 22 exChainS.simulateInit).now = 5 ∧
    ((runLoop 22 exChainS.simulateInit).dev 5).down = [9, 10] ∧
    ((runLoop 22 exChainS.simulateInit).dev 7).waitingDS = false ∧
    Att (runLoop 22 exChainS.simulateInit) 7 ∧
    (runLoop 23 exChainS.simulateInit).now = 5 ∧
    (runLoop 23 exChainS.simulateInit).delivered = [0, 1] ∧
    S5R (clChain ++ [[]]) (runLoop 23 exChainS.simulateInit) := by decide

/-- STAGE F with a scripted re-wiring INSIDE THE INNER GROUP: `exNested` with a slow inner machine 6
(cycle 10) and a second inner machine 10 (context [0, 1], already wired to the inner output 7) that is
not connected to the inner group input 5; at t = 5 script 0 connects it: `rewire 10 [5]` -/
def exNestedS : World :=
  { env := envAt 5 0
    scripts := [[.rewire 10 [5]]]
    devs := [{ kind := .source, aid := 1, down := [1], cycle := 1, maxParts := some 4 },
             { kind := .gpath, aid := 2, group := 0, up := [0], down := [9] },
             { kind := .ginput, aid := 3, group := 0, down := [3] },
             { kind := .handler, aid := 4, up := [2], down := [4], cycle := 1 },
             { kind := .gpath, aid := 5, group := 1, up := [3], down := [8] },
             { kind := .ginput, aid := 6, group := 1, down := [6] },
             { kind := .handler, aid := 7, up := [5], down := [7], cycle := 10 },
             { kind := .goutput, aid := 8, group := 1, up := [6, 10] },
             { kind := .goutput, aid := 9, group := 0, up := [4] },
             { kind := .sink, aid := 10, up := [1] },
             { kind := .handler, aid := 11, down := [7], cycle := 1 }],
    groups := [{ paths := [1], input := 2, output := 8 }, { paths := [4], input := 5, output := 7 }],
    assets := [.dev 0, .dev 1, .dev 2, .dev 3, .dev 4, .dev 5, .dev 6, .dev 7, .dev 8, .dev 9, .dev 10] }

/-- in the scope of stage V (nested groups, a re-wiring script); the context [0, 1] of the new machine
is found by inferring the contexts from the ENVELOPE (the wiring alone does not reach it) -/
theorem s5r_exNestedS : S5R (clNested ++ [[0, 1]]) exNestedS ∧ ¬ S4R exNestedS ∧
    ¬ C03Z.Flat (clNested ++ [[0, 1]]) ∧ C20W.Reg exNestedS := by decide

set_option maxRecDepth 4000 in
theorem ctxInfer_exNestedS : C03Z.ctxInfer (envl exNestedS) = clNested ++ [[0, 1]] ∧
    C03Z.ctxInfer exNestedS ≠ clNested ++ [[0, 1]] := by decide

theorem goodV_exNestedS (n : Nat) : GoodV (clNested ++ [[0, 1]]) (runLoop n exNestedS.simulateInit) :=
  (wakeV_reachable s5r_exNestedS.1 (by decide) (by decide) (evOK_envAt5 _ rfl)
    ⟨⟨rfl, rfl, rfl, rfl, by decide⟩, by decide, fun h => by cases h⟩ s5r_exNestedS.2.2.2
    (.loop n .init)).1

/-- t = 3: the inner machine 6 is busy until 12; the OUTER machine 3 holds part 1 (stack [1]) in front
of the inner group and is flagged, the source holds part 2; the clock is about to advance to 5;
genuinely blocked -/
example : (runLoop 11 exNestedS.simulateInit).now = 3 ∧ ClockAdvances (runLoop 11 exNestedS.simulateInit) ∧
    ((runLoop 11 exNestedS.simulateInit).part 1).stack = [1] ∧
    BlockedW (runLoop 11 exNestedS.simulateInit) 3 1 ∧ BlockedW (runLoop 11 exNestedS.simulateInit) 0 2 ∧
    Quiescent (runLoop 11 exNestedS.simulateInit) := by decide

example : Quiescent (runLoop 11 exNestedS.simulateInit) :=
  no_lost_wakeupV (goodV_exNestedS 11) (by decide)

/-- t = 5, right after the script: the inner group input has the new machine as a second downstream
neighbour; the notification has gone from the inner group input through the inner group path 4 to
the outer machine 3, whose attempt is queued for this instant; one event later part 1 stands in the
new inner machine with the stack [1, 4] — typed for its context [0, 1], as the invariant says -/
example : (runLoop 12 exNestedS.simulateInit).now = 5 ∧
    ((runLoop 12 exNestedS.simulateInit).dev 5).down = [6, 10] ∧
    Att (runLoop 12 exNestedS.simulateInit) 3 ∧
    ((runLoop 13 exNestedS.simulateInit).dev 10).part = some 1 ∧
    ((runLoop 13 exNestedS.simulateInit).part 1).stack = [1, 4] ∧
    (runLoop 20 exNestedS.simulateInit).delivered = [1] := by decide

example : C03Z.TS (C08W.topo (runLoop 13 exNestedS.simulateInit)) (C03Z.cx (clNested ++ [[0, 1]]))
    (C03Z.cx (clNested ++ [[0, 1]]) 10) ((runLoop 13 exNestedS.simulateInit).part 1).stack :=
  stacks_typedV (goodV_exNestedS 13) (by decide) (by decide) (by decide) (by decide)

/-- an operation issued from outside (taken from the scripts' vocabulary): the re-wiring at t = 3 -/
example : GoodV (clNested ++ [[0, 1]]) ((runLoop 11 exNestedS.simulateInit).applyOp (.rewire 10 [5])).1 :=
  wakeV_applyOp (goodV_exNestedS 11) _ ⟨_, List.mem_singleton.mpr rfl, List.mem_singleton.mpr rfl⟩

/-- WHAT IS RE-WIRED MAY BE A GROUP OUTPUT: as `exNestedS`, but the second inner machine 10 is
connected to the inner group input 5 from the start and has NO downstream neighbour; at t = 5 script 0
re-wires the OUTPUT 7 OF THE INNER GROUP: `rewire 7 [6, 10]` (no condition "what is re-wired is a
plain device" is needed: the typing of the envelope is all) -/
def exNestedT : World :=
  { env := envAt 5 0
    scripts := [[.rewire 7 [6, 10]]]
    devs := [{ kind := .source, aid := 1, down := [1], cycle := 1, maxParts := some 4 },
             { kind := .gpath, aid := 2, group := 0, up := [0], down := [9] },
             { kind := .ginput, aid := 3, group := 0, down := [3] },
             { kind := .handler, aid := 4, up := [2], down := [4], cycle := 1 },
             { kind := .gpath, aid := 5, group := 1, up := [3], down := [8] },
             { kind := .ginput, aid := 6, group := 1, down := [10, 6] },
             { kind := .handler, aid := 7, up := [5], down := [7], cycle := 10 },
             { kind := .goutput, aid := 8, group := 1, up := [6] },
             { kind := .goutput, aid := 9, group := 0, up := [4] },
             { kind := .sink, aid := 10, up := [1] },
             { kind := .handler, aid := 11, up := [5], cycle := 1 }],
    groups := [{ paths := [1], input := 2, output := 8 }, { paths := [4], input := 5, output := 7 }],
    assets := [.dev 0, .dev 1, .dev 2, .dev 3, .dev 4, .dev 5, .dev 6, .dev 7, .dev 8, .dev 9, .dev 10] }

theorem s5r_exNestedT : S5R (clNested ++ [[0, 1]]) exNestedT ∧ C20W.Reg exNestedT := by decide

theorem goodV_exNestedT (n : Nat) : GoodV (clNested ++ [[0, 1]]) (runLoop n exNestedT.simulateInit) :=
  (wakeV_reachable s5r_exNestedT.1 (by decide) (by decide) (evOK_envAt5 _ rfl)
    ⟨⟨rfl, rfl, rfl, rfl, by decide⟩, by decide, fun h => by cases h⟩ s5r_exNestedT.2
    (.loop n .init)).1

/-- t = 4: the inner machine 10 holds part 0 (stack [1, 4]) and has nobody to hand it to: flagged,
genuinely blocked, the clock is about to advance; t = 5, right after the script: the inner group
output has the machine as a second upstream neighbour, the machine has been told and its attempt is
queued for this instant; one event later part 0 has left both groups and is delivered -/
example : (runLoop 18 exNestedT.simulateInit).now = 4 ∧ ClockAdvances (runLoop 18 exNestedT.simulateInit) ∧
    ((runLoop 18 exNestedT.simulateInit).part 0).stack = [1, 4] ∧
    ((runLoop 18 exNestedT.simulateInit).dev 10).down = [] ∧
    BlockedW (runLoop 18 exNestedT.simulateInit) 10 0 ∧
    (runLoop 19 exNestedT.simulateInit).now = 5 ∧
    ((runLoop 19 exNestedT.simulateInit).dev 10).down = [7] ∧
    Att (runLoop 19 exNestedT.simulateInit) 10 ∧
    (runLoop 20 exNestedT.simulateInit).delivered = [0] := by decide

example : Quiescent (runLoop 18 exNestedT.simulateInit) :=
  no_lost_wakeupV (goodV_exNestedT 18) (by decide)

/-- BATCHERS, TWO GROUPS AND A RE-WIRING SCRIPT: `exFlatBat` (batcher and unbatcher inside group 0,
group 1 behind it, slow sink 10) with a free sink 11; at t = 5 script 0 connects it behind group path 6
of the second group: `rewire 11 [6]` -/
def exFlatBatS : World :=
  { exFlatBat with
      env := envAt 5 0
      scripts := [[.rewire 11 [6]]]
      devs := exFlatBat.devs ++ [{ kind := .sink, aid := 12 }]
      assets := exFlatBat.assets ++ [.dev 11] }

theorem s5r_exFlatBatS : S5R (clFlatBat ++ [[]]) exFlatBatS ∧ ¬ S4R exFlatBatS ∧
    ¬ C03Z.NoBat exFlatBatS ∧ C20W.Reg exFlatBatS := by decide

theorem goodV_exFlatBatS (n : Nat) : GoodV (clFlatBat ++ [[]]) (runLoop n exFlatBatS.simulateInit) :=
  (wakeV_reachable s5r_exFlatBatS.1 (by decide) (by decide) (evOK_envAt5 _ rfl)
    ⟨⟨rfl, rfl, rfl, rfl, by decide⟩, by decide, fun h => by cases h⟩ s5r_exFlatBatS.2.2.2
    (.loop n .init)).1

/-- t = 4: the machine 8 of the second group holds part 2 (stack [6]) in front of the busy sink, the
unbatcher 4 of the first group holds the unpacked part 3 (stack [1]); both flagged; the clock is about
to advance; t = 5, after the script: the machine 8 has been woken through the output of group 1 and
delivers part 2 to the new sink -/
example : (runLoop 18 exFlatBatS.simulateInit).now = 4 ∧ ClockAdvances (runLoop 18 exFlatBatS.simulateInit) ∧
    BlockedW (runLoop 18 exFlatBatS.simulateInit) 8 2 ∧ BlockedW (runLoop 18 exFlatBatS.simulateInit) 4 3 ∧
    (runLoop 21 exFlatBatS.simulateInit).now = 5 ∧ Att (runLoop 21 exFlatBatS.simulateInit) 8 ∧
    (runLoop 22 exFlatBatS.simulateInit).delivered = [0, 2] := by decide

example : Quiescent (runLoop 18 exFlatBatS.simulateInit) :=
  no_lost_wakeupV (goodV_exFlatBatS 18) (by decide)

/-! ### the typing of the envelope is needed (machine-checked counterexamples) -/

/-- two groups (group 0: path 1, input 2, machine 3, output 4, in front of the slow sink 9; group 1:
path 5, input 6, machine 7, output 8); at t = 1 script 0 makes the machine 3 INSIDE GROUP 0 a second
upstream neighbour of the machine 7 INSIDE GROUP 1: `rewire 7 [6, 3]` — a connection across the
contexts [0] and [1] -/
def cexCross : World :=
  { env := envAt 1 0
    scripts := [[.rewire 7 [6, 3]]]
    devs := [{ kind := .source, aid := 1, down := [1], cycle := 1, maxParts := some 3 },
             { kind := .gpath, aid := 2, group := 0, up := [0], down := [9] },
             { kind := .ginput, aid := 3, group := 0, down := [3] },
             { kind := .handler, aid := 4, up := [2], down := [4], cycle := 1 },
             { kind := .goutput, aid := 5, group := 0, up := [3] },
             { kind := .gpath, aid := 6, group := 1, down := [10] },
             { kind := .ginput, aid := 7, group := 1, down := [7] },
             { kind := .handler, aid := 8, up := [6], down := [8], cycle := 1 },
             { kind := .goutput, aid := 9, group := 1, up := [7] },
             { kind := .sink, aid := 10, up := [1], cycle := 10 },
             { kind := .sink, aid := 11, up := [5] }],
    groups := [{ paths := [1], input := 2, output := 4 }, { paths := [5], input := 6, output := 8 }],
    assets := [.dev 0, .dev 1, .dev 2, .dev 3, .dev 4, .dev 5, .dev 6, .dev 7, .dev 8, .dev 9, .dev 10] }

def clCross : List (List Nat) := [[], [], [0], [0], [0], [], [1], [1], [1], [], []]

/-- **A scripted re-wiring across group contexts loses a wake-up.**  The world satisfies every
condition of the scope `S5R` — `SC` (the re-wiring is admissible: `RewOK`, `EnvOK`), the conditions
of the conservation theorem, the wiring of the moment is typed by `clCross` — except that the
ENVELOPE is not typed (the scripted connection 3 → 7 leads from the context [0] into the context
[1]); it is fresh and registered.  Part 0 moves from the machine 3 (stack [1], a path of group 0)
straight into the machine 7 of group 1; its way out leads through the output 8 of group 1 and the
downstream list of path 1 to the sink 9; when the sink becomes idle its notification goes up along
path 1 to the output of group 0 only: at the end of the run (t = 23, nothing queued any more) the
machine 7 still holds part 0, flagged, while the sink would accept it. -/
theorem script_rewire_untyped_false :
    SC cexCross ∧ (¬ NoBatch cexCross → ScrB cexCross ∧ C17W.SizesPos cexCross) ∧
    hasRes cexCross = false ∧ C03Z.Typed clCross cexCross ∧ ¬ C03V.TE clCross cexCross ∧
    ¬ S5R clCross cexCross ∧ FreshA cexCross ∧ C20W.Reg cexCross ∧
    ClockAdvances (runLoop 23 cexCross.simulateInit) ∧
    ((runLoop 23 cexCross.simulateInit).part 0).stack = [1] ∧
    ready (runLoop 23 cexCross.simulateInit) 7 0 ∧
    ((runLoop 23 cexCross.simulateInit).dev 7).waitingDS = true ∧
    wouldAccept (runLoop 23 cexCross.simulateInit).fuel (runLoop 23 cexCross.simulateInit) 8 0 = true ∧
    (runLoop 23 cexCross.simulateInit).error = none ∧
    ¬ Quiescent (runLoop 23 cexCross.simulateInit) := by
  refine ⟨by decide, by decide, by decide, by decide, by decide, by decide,
    ⟨⟨rfl, rfl, rfl, rfl, by decide⟩, by decide, fun h => by cases h⟩,
    by decide, by decide, by decide, by decide, by decide, by decide, by decide, by decide⟩

/-- the same world without the script -/
def cexCrossO : World := { cexCross with env := {}, scripts := [] }

/-- **The same re-wiring issued from outside**: the world is in the scope `S5` of stages D, E, F; the
re-wiring is admissible and leaves the world in the scope `SC` — the first two conditions of
`ReachD.rew` / `ReachV.rew` — but not typed (the third condition); the same wake-up is lost. -/
theorem outside_rewire_untyped_false :
    S5 clCross cexCrossO ∧ RewOK (cexCrossO.simulateInit.runBegin 100).1 7 [6, 3] ∧
    SC ((cexCrossO.simulateInit.runBegin 100).1.rewire 7 [6, 3]) ∧
    ¬ C03Z.Typed clCross ((cexCrossO.simulateInit.runBegin 100).1.rewire 7 [6, 3]) ∧
    ClockAdvances (runLoop 23 ((cexCrossO.simulateInit.runBegin 100).1.rewire 7 [6, 3])) ∧
    ready (runLoop 23 ((cexCrossO.simulateInit.runBegin 100).1.rewire 7 [6, 3])) 7 0 ∧
    (runLoop 23 ((cexCrossO.simulateInit.runBegin 100).1.rewire 7 [6, 3])).error = none ∧
    ¬ Quiescent (runLoop 23 ((cexCrossO.simulateInit.runBegin 100).1.rewire 7 [6, 3])) := by
  refine ⟨by decide, by decide, by decide, by decide, by decide, by decide, by decide, by decide⟩

/-! ## (B) ALL PATHS OF A GROUP IN THE SAME CONTEXT

`C03Z.Typed` assigns ONE context to every device, hence to the devices inside a group; the input
device of a group stands in the context of each of its paths extended by the group.  The contexts
of the certificate are LABELS, however: nothing forces the top level of the plant to carry the empty
context.  A group shared between two different nesting levels is typed (by a certificate that places
the outer usage "virtually inside" the enclosing group of the inner usage) whenever the two usages
are not connected by the wiring: `exLevels`, covered by the theorems of stages D, E, F as they are.
If the usages ARE connected (the same part passes the shared group at level 0 and again at level 1),
no certificate exists: `shared_levels_untypable` — the restriction is necessary for the typing, hence
for the invariant `TInv`.  `Quiescent` itself is not known to fail there: on the concrete world
`cexLevels` the stacks route every part correctly through both levels ([1] at the first passage,
[2, 5] at the second), every wake-up arrives (through the outputs of BOTH groups), and the state is
quiescent at every clock advance of the run (`shared_levels_run_quiescent`, by evaluation); a proof
for all such worlds needs a typing with SETS of contexts per device and is not attempted. -/

/-- line 1 (top level): source 0 → group path 2 of group 0 → sink 11; line 2: source 1 → group path 3
of group 1 (input 4 → machine 5 → GROUP PATH 6 OF GROUP 0 → output 7) → sink 12; group 0 (input 8 →
machine 9 → output 10) is shared between the top level (path 2) and the inside of group 1 (path 6) -/
def exLevels : World :=
  { devs := [{ kind := .source, aid := 1, down := [2], cycle := 1, maxParts := some 3 },
             { kind := .source, aid := 2, down := [3], cycle := 1, maxParts := some 3 },
             { kind := .gpath, aid := 3, group := 0, up := [0], down := [11] },
             { kind := .gpath, aid := 4, group := 1, up := [1], down := [12] },
             { kind := .ginput, aid := 5, group := 1, down := [5] },
             { kind := .handler, aid := 6, up := [4], down := [6], cycle := 1 },
             { kind := .gpath, aid := 7, group := 0, up := [5], down := [7] },
             { kind := .goutput, aid := 8, group := 1, up := [6] },
             { kind := .ginput, aid := 9, group := 0, down := [9] },
             { kind := .handler, aid := 10, up := [8], down := [10], cycle := 2 },
             { kind := .goutput, aid := 11, group := 0, up := [9] },
             { kind := .sink, aid := 12, up := [2], cycle := 5 },
             { kind := .sink, aid := 13, up := [3], cycle := 5 }],
    groups := [{ paths := [2, 6], input := 8, output := 10 }, { paths := [3], input := 4, output := 7 }],
    assets := [.dev 0, .dev 1, .dev 2, .dev 3, .dev 4, .dev 5, .dev 6, .dev 7, .dev 8, .dev 9, .dev 10,
      .dev 11, .dev 12] }

/-- the certificate: line 1 carries the label [1] ("virtually inside group 1"), the shared group
stands in the context [1, 0] -/
def clLevels : List (List Nat) :=
  [[1], [], [1], [], [1], [1], [1], [1], [1, 0], [1, 0], [1, 0], [1], []]

/-- **A group shared between two nesting levels is in the scope `S5`** (typed by `clLevels`); the
contexts computed by propagation from the sources (top level = empty context) are NOT a typing. -/
theorem s5_exLevels : S5 clLevels exLevels ∧ ¬ S4 exLevels ∧ ¬ C03Z.Flat clLevels := by decide

set_option maxRecDepth 4000 in
theorem ctxInfer_exLevels : ¬ C03Z.Typed (C03Z.ctxInfer exLevels) exLevels := by decide

theorem goodD_exLevels (n : Nat) :
    GoodD clLevels (runLoop n (exLevels.simulateInit.runBegin 100).1) :=
  wake5_simulate n 100 s5_exLevels.1 C01.inv_init (by decide)
    (fun n hn => by simp [C02V.acts, exLevels] at hn)
    ⟨⟨rfl, rfl, rfl, rfl, by decide⟩, by decide, fun h => by cases h⟩

/-- the shared machine 9 holds a part of line 1 with the stack [2] (depth 1) at t = 5 and a part of
line 2 with the stack [3, 6] (depth 2) at t = 17; both states are quiescent when the clock advances,
by the theorem -/
example : ((runLoop 18 (exLevels.simulateInit.runBegin 100).1).part 2).stack = [2] ∧
    ready (runLoop 18 (exLevels.simulateInit.runBegin 100).1) 9 2 ∧
    ((runLoop 44 (exLevels.simulateInit.runBegin 100).1).part 3).stack = [3, 6] ∧
    ready (runLoop 44 (exLevels.simulateInit.runBegin 100).1) 9 3 ∧
    BlockedW (runLoop 44 (exLevels.simulateInit.runBegin 100).1) 9 3 := by decide

example : Quiescent (runLoop 18 (exLevels.simulateInit.runBegin 100).1) ∧
    Quiescent (runLoop 44 (exLevels.simulateInit.runBegin 100).1) :=
  ⟨no_lost_wakeup5 (goodD_exLevels 18) (by decide), no_lost_wakeup5 (goodD_exLevels 44) (by decide)⟩

/-- ONE line passes the shared group 0 twice — at the top level through path 1, and again inside
group 1 through path 5: source 0 → path 1 (group 0) → path 2 (group 1: input 3 → machine 4 → PATH 5 OF
GROUP 0 → output 6) → sink 10; group 0: input 7 → machine 8 → output 9 -/
def cexLevels : World :=
  { devs := [{ kind := .source, aid := 1, down := [1], cycle := 4, maxParts := some 3 },
             { kind := .gpath, aid := 2, group := 0, up := [0], down := [2] },
             { kind := .gpath, aid := 3, group := 1, up := [1], down := [10] },
             { kind := .ginput, aid := 4, group := 1, down := [4] },
             { kind := .handler, aid := 5, up := [3], down := [5], cycle := 1 },
             { kind := .gpath, aid := 6, group := 0, up := [4], down := [6] },
             { kind := .goutput, aid := 7, group := 1, up := [5] },
             { kind := .ginput, aid := 8, group := 0, down := [8] },
             { kind := .handler, aid := 9, up := [7], down := [9], cycle := 2 },
             { kind := .goutput, aid := 10, group := 0, up := [8] },
             { kind := .sink, aid := 11, up := [2], cycle := 7 }],
    groups := [{ paths := [1, 5], input := 7, output := 9 }, { paths := [2], input := 3, output := 6 }],
    assets := [.dev 0, .dev 1, .dev 2, .dev 3, .dev 4, .dev 5, .dev 6, .dev 7, .dev 8, .dev 9, .dev 10] }

/-- **No certificate types a group whose usages at two nesting levels are connected by the wiring**:
the input device 7 of group 0 would have to stand in the context of path 1 and in that of path 5,
each extended by the group, and the wiring 1 → 2 ⇒ 3 → 4 → 5 puts path 5 one level below path 1.  The
world satisfies every other condition of the scope `S5`. -/
theorem shared_levels_untypable :
    ((SC cexLevels ∧ NR cexLevels) ∧ (hasRes cexLevels = true → C11W.S cexLevels) ∧
      (¬ NoBatch cexLevels → ScrB cexLevels ∧ C17W.SizesPos cexLevels)) ∧
    ∀ cl, ¬ C03Z.Typed cl cexLevels := by
  refine ⟨by decide, fun cl h => ?_⟩
  have h1 := (h.at 1).2.1 (by decide)
  have h5 := (h.at 5).2.1 (by decide)
  have h2 := (h.at 2).2.1 (by decide)
  have e12 := (h.at 1).1 2 (by decide)
  have e34 := (h.at 3).1 4 (by decide)
  have e45 := (h.at 4).1 5 (by decide)
  have g1 : groupIn cexLevels 1 = 7 := by decide
  have g5 : groupIn cexLevels 5 = 7 := by decide
  have g2 : groupIn cexLevels 2 = 3 := by decide
  rw [g1] at h1; rw [g5] at h5; rw [g2] at h2
  have k1 : (cexLevels.dev 1).group = 0 := by decide
  have k5 : (cexLevels.dev 5).group = 0 := by decide
  rw [k1] at h1; rw [k5] at h5
  have e15 : C03Z.cx cl 1 = C03Z.cx cl 5 := List.append_cancel_right (h1.symm.trans h5)
  have : (C03Z.cx cl 5).length = (C03Z.cx cl 1).length + 1 := by
    rw [e45, e34, h2, e12]; simp
  rw [e15] at this
  omega

/-- **… but the run is quiescent at every clock advance** (by evaluation, up to the end of the run at
fuel 35: every part delivered, no error): at t = 6 the shared machine 8 holds part 0 with the stack
[1], at t = 9 with the stack [2, 5]; at t = 14 it holds part 1 (stack [2, 5]) in front of the busy sink,
flagged, the clock is about to advance; at t = 16 the notification of the sink has gone through the
output of group 1 AND the output of group 0 to the machine 8, whose attempt is queued -/
theorem shared_levels_run_quiescent :
    (∀ n ∈ List.range 36, ClockAdvances (runLoop n (cexLevels.simulateInit.runBegin 100).1) →
      Quiescent (runLoop n (cexLevels.simulateInit.runBegin 100).1)) ∧
    ((runLoop 3 (cexLevels.simulateInit.runBegin 100).1).part 0).stack = [1] ∧
    ((runLoop 9 (cexLevels.simulateInit.runBegin 100).1).part 0).stack = [2, 5] ∧
    ClockAdvances (runLoop 19 (cexLevels.simulateInit.runBegin 100).1) ∧
    BlockedW (runLoop 19 (cexLevels.simulateInit.runBegin 100).1) 8 1 ∧
    Att (runLoop 20 (cexLevels.simulateInit.runBegin 100).1) 8 ∧
    (runLoop 35 (cexLevels.simulateInit.runBegin 100).1).delivered = [0, 1, 2] ∧
    (runLoop 35 (cexLevels.simulateInit.runBegin 100).1).error = none := by
  refine ⟨by decide, by decide, by decide, by decide, by decide, by decide, by decide, by decide⟩


end C03W
end SimProc
