/-
C03W — the closed-world "no lost wake-up" invariant (property C03, stage S1).

"Whenever simulated time is about to advance, no device is holding a part that is ready to leave
while one of its downstream neighbours would accept that part if it were offered; every blocked
part is genuinely blocked."

SCOPE (`S1 w`, decidable, preserved by every step — `Proofs/C03WDefs.lean`): only sources, handlers,
processors WITHOUT resource requirement, buffers (delay ≥ 0), gates and sinks; receive/finish
callbacks may change cycle time and offset of the device but not the part; sources generate single
parts and have no upstream neighbour; wiring symmetric and in range; asset ids of devices pairwise
distinct; no cycle through gates only (every chain of gates has at most `devs.length` gates and no
device reaches itself through gates); maintenance targets are processors; scripts contain no
`rewire`, no `create`, and `pause / unpause / cancel` only for asset ids that are not a device's
(everything else — failures, shutdown/restore, block toggles, budget adjustments, cycle-time
changes, offsets, work orders, resource operations — is allowed); no batch exists.

DEFINITIONS.  `ready w d p` — `d` holds `p` and `p` may leave now; `wouldAccept f w x p` — the pure
acceptance predicate; `Quiescent w`; `Wake w` — every holder `d` of a part `p` has (W1) a live
PASS_PART event of `d` queued for the due time of `p` or earlier (`Att`; due time = `now`, for the
head of a buffer `max now (t + delay)`), or (W2) is flagged `waitingDS` and no downstream neighbour
would accept `p` (`BlockedW`).  `Good w` = `S1`, the queue invariant of C01, `0 ≤ now`, no pending
failure of a non-processor (`EvOK`), every held part exists (`HeldValid`), and `Wake`.

THEOREMS.  `give_answer` (the answer of `give` is `wouldAccept`, independent of the order of the
offers), `wake_init`, `wake_exec` (every action kind), `wake_step`, `wake_runLoop`, `wake_reachable`,
`no_lost_wakeup`, `blocked_genuinely`, plus the building blocks `wake_passPart`, `wake_notify`,
`wake_acceptPart`.  The machinery (generalised invariant `G E N` with a set `E` of exempt devices
and a set `N` of devices whose notification is pending) is in `Proofs/C03W*.lean`.
Two necessity counterexamples (`wake_exec_false_cancel`, `wake_exec_false_target`) show that the
restrictions on scripts and maintenance targets cannot be dropped.
-/
import SimProc.Proofs.C03WWorld
import SimProc.Props.C02

namespace SimProc
namespace C03W
open World FloorCoreL C03

/-! ### the statements' vocabulary -/

/-- (W2) `d` is flagged and no downstream neighbour would accept `p`. -/
def BlockedW (w : World) (d p : Nat) : Prop :=
  (w.dev d).waitingDS = true ∧ ∀ y ∈ (w.dev d).down, wouldAccept w.fuel w y p = false

instance (w : World) (d p : Nat) : Decidable (BlockedW w d p) := by unfold BlockedW; infer_instance

/-- **The wake-up invariant** (decidable form: device indices bounded by the number of devices). -/
def Wake (w : World) : Prop :=
  ∀ d ∈ List.range w.devs.length, ∀ p ∈ (holdsD (w.dev d)).toList, Att w d ∨ BlockedW w d p

instance (w : World) : Decidable (Wake w) := by unfold Wake; infer_instance

/-- **Quiescent**: no ready part has a downstream neighbour that would accept it. -/
def Quiescent (w : World) : Prop :=
  ∀ d ∈ List.range w.devs.length, ∀ p ∈ (holdsD (w.dev d)).toList,
    expiredD w.now (w.dev d) = true → ∀ x ∈ (w.dev d).down, wouldAccept w.fuel w x p = false

instance (w : World) : Decidable (Quiescent w) := by unfold Quiescent; infer_instance

theorem blockedW_iff (w : World) (d p : Nat) : BlockedW w d p ↔ Blocked w [] d p := by
  unfold BlockedW Blocked
  simp only [wouldAcceptN_nil]

theorem wake_iff (w : World) : Wake w ↔ WakeG [] [] w := by
  unfold Wake WakeG
  constructor
  · intro h d p hd _
    have := h d (by simpa using holdsD_lt hd) p (by simp [hd])
    rwa [blockedW_iff] at this
  · intro h d _ p hp
    have hd : holdsD (w.dev d) = some p := by simpa using hp
    have := h d p hd (by simp)
    rwa [← blockedW_iff] at this

/-- `Wake` without the bound on the device index. -/
theorem wake_spec (w : World) :
    Wake w ↔ ∀ d p, holdsD (w.dev d) = some p → Att w d ∨ BlockedW w d p := by
  rw [wake_iff]
  unfold WakeG
  constructor
  · intro h d p hd
    have := h d p hd (by simp)
    rwa [← blockedW_iff] at this
  · intro h d p hd _
    have := h d p hd
    rwa [blockedW_iff] at this

/-- For a READY part, (W1) is a live PASS_PART event of `d` for exactly the present instant (the
queue invariant of C01 excludes events in the past). -/
theorem att_ready_now {w : World} (hi : C01.Inv w.env) {d p : Nat} (hr : ready w d p) (ha : Att w d) :
    ∃ e ∈ w.env.events, e.act = (Action.passPart d).toNat ∧ e.asset = (w.dev d).aid ∧
      e.cancelled = false ∧ e.time = w.now := by
  obtain ⟨e, he, h1, h2, h3, h4⟩ := ha
  refine ⟨e, he, h1, h2, h3, ?_⟩
  rw [dueD_of_expired hr.2] at h4
  have := hi.future e he
  unfold World.now at h4 ⊢
  omega

/-- `Quiescent` in the form of the property text. -/
theorem quiescent_iff (w : World) :
    Quiescent w ↔ ∀ d p x, ready w d p → x ∈ (w.dev d).down → wouldAccept w.fuel w x p = false := by
  unfold Quiescent ready
  constructor
  · intro h d p x hr hx
    exact h d (by simpa using holdsD_lt hr.1) p (by simp [hr.1]) hr.2 x hx
  · intro h d _ p hp hex x hx
    exact h d p x ⟨by simpa using hp, hex⟩ hx

/-- Everything the closed-world induction carries. -/
structure Good (w : World) : Prop where
  s1 : S1 w
  inv : C01.Inv w.env
  now0 : 0 ≤ w.now
  ev : EvOK w
  valid : HeldValid w
  wake : Wake w

theorem good_iff (w : World) : Good w ↔ G [] [] w :=
  ⟨fun h => ⟨h.s1, h.inv, h.now0, h.ev, h.valid, (wake_iff w).mp h.wake⟩,
   fun h => ⟨h.s1, h.inv, h.now0, h.ev, h.valid, (wake_iff w).mpr h.wake⟩⟩

/-! ### (a) the acceptance predicate -/

/-- **(a)** In an S1 world the Boolean answer of `give` is `wouldAccept`: it depends neither on the
order in which the downstream devices are tried nor on anything `give` changes on the way. -/
theorem give_answer (f : Nat) (w : World) (x p : Nat) (h : S1 w) :
    (give f w x p).2 = wouldAccept f w x p :=
  give_answer_eq f w x p h.kok

/-- The same for a whole offer round: it succeeds iff some downstream device would accept. -/
theorem tryList_answer' (w : World) (x p : Nat) (h : S1 w) :
    (tryList givePart w (w.sortedDown x) p).2 =
      (w.dev x).down.any (fun y => wouldAccept w.fuel w y p) := by
  rw [tryList_givePart_answer w _ p h.kok]
  exact any_perm (C08.sortedDown_perm w x) _

/-! ### 1. initialisation -/

/-- nobody holds anything -/
theorem heldValid_fresh {w : World} (h : C02.Fresh w) : HeldValid w := by
  intro d hd p hp
  have := h.2.2.2.2 d hd
  unfold C02.held at this
  unfold heldL at hp
  have hpp : p ∈ d.part.toList ++ d.output.toList ++ d.buf.map (·.2) ++ d.inprog.toList :=
    List.mem_append_left _ hp
  rw [this] at hpp; cases hpp

theorem wake_fresh {w : World} (h : C02.Fresh w) : Wake w := by
  intro d hd p hp
  have hd' : holdsD (w.dev d) = some p := by simpa using hp
  have h1 := holdsD_mem_heldL hd'
  have := h.2.2.2.2 (w.dev d) (dev_mem (by simpa using hd))
  unfold C02.held at this
  unfold heldL at h1
  have hpp : p ∈ (w.dev d).part.toList ++ (w.dev d).output.toList ++ (w.dev d).buf.map (·.2) ++
      (w.dev d).inprog.toList := List.mem_append_left _ h1
  rw [this] at hpp; cases hpp

/-- A fresh S1 world (queue invariant, clock not negative, no pending failure of a non-processor)
is good. -/
theorem good_fresh {w : World} (hs : S1 w) (hi : C01.Inv w.env) (h0 : 0 ≤ w.now) (he : EvOK w)
    (hf : C02.Fresh w) : Good w :=
  ⟨hs, hi, h0, he, heldValid_fresh hf, wake_fresh hf⟩

/-- **1. `wake_init`**: after `simulateInit` of a fresh S1 world the invariant holds. -/
theorem wake_init {w : World} (hs : S1 w) (hi : C01.Inv w.env) (h0 : 0 ≤ w.now) (he : EvOK w)
    (hf : C02.Fresh w) : Good w.simulateInit :=
  (good_iff _).mpr (((good_iff w).mp (good_fresh hs hi h0 he hf)).simulateInitG)

/-! ### 2. every event preserves the invariant -/

/-- **(b) `wake_passPart`**: if the invariant holds for every device except `d` (whose hand-over
attempt has just been popped), then after `passPart d` it holds for every device: `d` has handed
its part over, or has queued a new attempt (buffer head not yet due), or is flagged with no
downstream device willing. -/
theorem wake_passPart {w : World} {d : Nat} (h : G [d] [] w) : Good (w.passPart d) :=
  (good_iff _).mpr h.passPartG

/-- **(c)** a notification never destroys the invariant … -/
theorem wake_notify {w : World} (h : Good w) (x : Nat) : Good (w.notify x) :=
  (good_iff _).mpr (((good_iff w).mp h).notify x (fun _ hy => Or.inr hy))

/-- **(c)** … nor does a downstream device accepting a part. -/
theorem wake_acceptPart {w : World} (h : Good w) (x p : Nat) (hp : p < w.parts.length) :
    Good (w.acceptPart x p) :=
  (good_iff _).mpr (((good_iff w).mp h).acceptPart x p hp)

/-- **2. `wake_exec`** — one lemma for all twelve action kinds: `terminate`, `script k`,
`finishCycle d`, `passPart d` (with `d` exempt beforehand: its attempt has just been popped),
`fail d` (of a processor), `releaseIfIdle d`, `rmCheck`, `startWork`, `finishWork`, `schedUpdate`,
`periodicSense`, `unknown`. -/
theorem wake_exec {w : World} (a : Action) (h : G (exemptA a) [] w)
    (ha : ∀ d, a = .fail d → (w.dev d).kind = .processor) : Good (w.exec a) :=
  (good_iff _).mpr (h.execG a ha)

/-- For every action other than `passPart` the hypothesis of `wake_exec` is `Good w`. -/
theorem wake_exec' {w : World} (a : Action) (h : Good w) (hp : ∀ d, a ≠ .passPart d)
    (ha : ∀ d, a = .fail d → (w.dev d).kind = .processor) : Good (w.exec a) := by
  refine wake_exec a ?_ ha
  have : exemptA a = [] := by
    cases a <;> first | rfl | exact absurd rfl (hp _)
  rw [this]; exact (good_iff w).mp h

/-- **2. `wake_step`**: `Environment.step` (pop, set the clock, run the action unless cancelled)
preserves the invariant — including `S1`, the queue invariant, `EvOK`, `HeldValid`. -/
theorem wake_step {w w' : World} {e : Event} (h : Good w) (hst : w.step = some (e, w')) : Good w' :=
  (good_iff _).mpr (((good_iff w).mp h).stepG hst)

/-- `S1` is preserved by every step. -/
theorem s1_step {w w' : World} {e : Event} (h : Good w) (hst : w.step = some (e, w')) : S1 w' :=
  (wake_step h hst).s1

/-! ### 3. all reachable states -/

/-- **3. `wake_runLoop`**. -/
theorem wake_runLoop (n : Nat) {w : World} (h : Good w) : Good (runLoop n w) :=
  (good_iff _).mpr (((good_iff w).mp h).runLoopG n)

/-- In every state reachable from an initialised fresh S1 world the invariant holds. -/
theorem wake_reachable (n : Nat) {w : World} (hs : S1 w) (hi : C01.Inv w.env) (h0 : 0 ≤ w.now)
    (he : EvOK w) (hf : C02.Fresh w) : Good (runLoop n w.simulateInit) :=
  wake_runLoop n (wake_init hs hi h0 he hf)

/-- `Environment.run(d)` begins by scheduling the terminate event: the invariant is kept. -/
theorem wake_runBegin {w : World} (h : Good w) (d : Int) : Good (w.runBegin d).1 :=
  (good_iff _).mpr (((good_iff w).mp h).runBeginG d)

/-- `System.simulate(d)` = initialise, begin the run, loop: every state reached is good. -/
theorem wake_simulate (n : Nat) (d : Int) {w : World} (hs : S1 w) (hi : C01.Inv w.env)
    (h0 : 0 ≤ w.now) (he : EvOK w) (hf : C02.Fresh w) :
    Good (runLoop n (w.simulateInit.runBegin d).1) :=
  wake_runLoop n (wake_runBegin (wake_init hs hi h0 he hf) d)

/-- "time is about to advance": the next event to be popped (if any) lies in the future -/
def ClockAdvances (w : World) : Prop := ∀ e, w.env.events.head? = some e → w.now < e.time

instance (w : World) : Decidable (ClockAdvances w) := by
  unfold ClockAdvances
  cases h : w.env.events.head? with
  | none => exact isTrue (fun e he => by cases he)
  | some e0 =>
    exact decidable_of_iff (w.now < e0.time)
      ⟨fun hh e he => by cases he; exact hh, fun hh => hh e0 rfl⟩

theorem no_event_now {w : World} (hi : C01.Inv w.env) (hc : ClockAdvances w) :
    ∀ e ∈ w.env.events, w.now < e.time := by
  intro e he
  cases hev : w.env.events with
  | nil => rw [hev] at he; cases he
  | cons e0 es =>
    have h0 := hc e0 (by rw [hev]; rfl)
    rw [hev] at he
    rcases List.mem_cons.mp he with rfl | he
    · exact h0
    · have hs : SortedEv (e0 :: es) := hev ▸ hi.sorted
      have := Event.nlt_time (hs.head_min e he)
      omega

/-- **4. `blocked_genuinely`**: when time is about to advance, every ready part is flagged and no
downstream neighbour would accept it. -/
theorem blocked_genuinely {w : World} (h : Good w) (hc : ClockAdvances w) (d p : Nat)
    (hr : ready w d p) : BlockedW w d p := by
  have hw := (wake_iff w).mp h.wake d p hr.1 (by simp)
  rcases hw with ⟨e, he, _, _, _, ht⟩ | hb
  · exfalso
    have := no_event_now h.inv hc e he
    rw [dueD_of_expired hr.2] at ht
    omega
  · exact (blockedW_iff w d p).mpr hb

/-- **3. `no_lost_wakeup`**: when time is about to advance (the queue is empty or its first event
lies in the future), the state is quiescent. -/
theorem no_lost_wakeup {w : World} (h : Good w) (hc : ClockAdvances w) : Quiescent w := by
  rw [quiescent_iff]
  intro d p x hr hx
  exact (blocked_genuinely h hc d p hr).2 x hx

/-- The closed-world statement: in every state reachable by `runLoop` from an initialised fresh S1
world, whenever the clock is about to advance no ready part could be handed over. -/
theorem no_lost_wakeup_reachable (n : Nat) {w : World} (hs : S1 w) (hi : C01.Inv w.env)
    (h0 : 0 ≤ w.now) (he : EvOK w) (hf : C02.Fresh w)
    (hc : ClockAdvances (runLoop n w.simulateInit)) : Quiescent (runLoop n w.simulateInit) :=
  no_lost_wakeup (wake_reachable n hs hi h0 he hf) hc

/-! ### non-vacuity -/

/-- source 0 (cycle 1, 5 parts) → handler 1 (cycle 0) → slow sink 2 (cycle 10) -/
def exLine : World :=
  { devs := [{ kind := .source, aid := 1, down := [1], cycle := 1, maxParts := some 5 },
             { kind := .handler, aid := 2, up := [0], down := [2] },
             { kind := .sink, aid := 3, up := [1], cycle := 10 }],
    assets := [.dev 0, .dev 1, .dev 2] }

theorem s1_exLine : S1 exLine := by decide

theorem fresh_exLine : C02.Fresh exLine := by
  refine ⟨rfl, rfl, rfl, rfl, ?_⟩
  decide

theorem evOK_exLine : EvOK exLine := by
  intro n hn; simp [C02V.acts, exLine] at hn

/-- the hypotheses of the closed-world theorems are satisfiable -/
theorem good_exLine (n : Nat) : Good (runLoop n exLine.simulateInit) :=
  wake_reachable n s1_exLine C01.inv_init (by decide) evOK_exLine fresh_exLine


/-- the congested state: at time 3 the source holds part 2 and the handler holds part 1, both flagged;
the sink is busy until time 11 -/
def exCongested : World := runLoop 8 (exLine.simulateInit.runBegin 100).1

/-- the closed-world theorem applies to it … -/
example : Good exCongested := wake_simulate 8 100 s1_exLine C01.inv_init (by decide) evOK_exLine fresh_exLine

/-- … and its conclusions are non-trivial: the clock is about to advance (next event at time 11),
two parts are ready, both holders are flagged, and `Wake` / `Quiescent` hold (computed). -/
example : S1 exCongested ∧ Wake exCongested ∧ Quiescent exCongested ∧ ClockAdvances exCongested ∧
    exCongested.now = 3 ∧ ready exCongested 0 2 ∧ ready exCongested 1 1 ∧
    BlockedW exCongested 0 2 ∧ BlockedW exCongested 1 1 ∧
    wouldAccept exCongested.fuel exCongested 2 1 = false := by decide

/-- a state in which `Wake` holds through (W1): the source holds part 1 and its attempt is queued
for the present instant — the clock is NOT about to advance, and the handler would accept -/
example : Wake (runLoop 4 (exLine.simulateInit.runBegin 100).1) ∧
    Att (runLoop 4 (exLine.simulateInit.runBegin 100).1) 0 ∧
    ¬ ClockAdvances (runLoop 4 (exLine.simulateInit.runBegin 100).1) ∧
    ¬ Quiescent (runLoop 4 (exLine.simulateInit.runBegin 100).1) := by decide

/-- `give` answers `wouldAccept` on the congested state (refused) and on the state above (accepted) -/
example : (exCongested.givePart 2 1).2 = false ∧
    wouldAccept exCongested.fuel exCongested 2 1 = false ∧
    ((runLoop 4 (exLine.simulateInit.runBegin 100).1).givePart 1 1).2 = true := by decide

/-- source 0 → gate 1 (quality ≥ 1) → buffer 2 (capacity 1, delay 2) → slow sink 3 -/
def exGB : World :=
  { devs := [{ kind := .source, aid := 1, down := [1], cycle := 1, maxParts := some 6 },
             { kind := .gate, aid := 2, up := [0], down := [2], pred := .qualityGe 1 },
             { kind := .buffer, aid := 3, up := [1], down := [3], cap := some 1, delay := 2 },
             { kind := .sink, aid := 4, up := [2], cycle := 10 }],
    assets := [.dev 0, .dev 1, .dev 2, .dev 3] }

theorem s1_exGB : S1 exGB := by decide

/-- at time 5: the buffer's head (stored at 3, delay 2) is ready and refused by the busy sink, the
source is blocked behind the gate by the full buffer; the clock is about to advance to 13 -/
example : Good (runLoop 9 (exGB.simulateInit.runBegin 100).1) :=
  wake_simulate 9 100 s1_exGB C01.inv_init (by decide)
    (by intro n hn; simp [C02V.acts, exGB] at hn) ⟨rfl, rfl, rfl, rfl, by decide⟩

example : Wake (runLoop 9 (exGB.simulateInit.runBegin 100).1) ∧
    Quiescent (runLoop 9 (exGB.simulateInit.runBegin 100).1) ∧
    ClockAdvances (runLoop 9 (exGB.simulateInit.runBegin 100).1) ∧
    ready (runLoop 9 (exGB.simulateInit.runBegin 100).1) 0 2 ∧
    ready (runLoop 9 (exGB.simulateInit.runBegin 100).1) 2 1 ∧
    wouldAccept (runLoop 9 (exGB.simulateInit.runBegin 100).1).fuel
      (runLoop 9 (exGB.simulateInit.runBegin 100).1) 1 2 = false := by decide

/-- at time 2 the buffer's head (stored at 1) is NOT yet ready: (W1) holds through the PASS_PART
event queued for the expiry time 3 -/
example : Wake (runLoop 4 (exGB.simulateInit.runBegin 100).1) ∧
    Att (runLoop 4 (exGB.simulateInit.runBegin 100).1) 2 ∧
    ¬ ready (runLoop 4 (exGB.simulateInit.runBegin 100).1) 2 0 ∧
    holdsD ((runLoop 4 (exGB.simulateInit.runBegin 100).1).dev 2) = some 0 := by decide

/-! ### the restrictions of S1 are needed (machine-checked counterexamples) -/

/-- source 0 holds part 0 and its attempt is queued; the input of handler 1 is blocked; script 0
cancels the events of the source's asset id -/
def cexCancel : World :=
  { devs := [{ kind := .source, aid := 1, down := [1], output := some 0 },
             { kind := .handler, aid := 2, up := [0], blockInput := true }],
    parts := [{}],
    scripts := [[.cancel 1]],
    env := { events := [{ uid := 0, time := 0, prio := 28, weight := 0, asset := 1, act := 3 }],
             nextUid := 1 } }

/-- **A script that cancels a device's events destroys the invariant**: the world satisfies `S1`
except for that script (it does without it) and `Wake`; after the script the source holds a ready
part, is not flagged and has no live attempt. -/
theorem wake_exec_false_cancel :
    S1 { cexCancel with scripts := [] } ∧ ¬ S1 cexCancel ∧ Wake cexCancel ∧ HeldValid cexCancel ∧
    ¬ Wake (cexCancel.exec (.script 0)) := by decide

/-- handler 0 holds part 0 with its attempt queued, sink 1 is free; maintenance target 0 is the
HANDLER (not a processor), with an active work order -/
def cexTarget : World :=
  { devs := [{ kind := .handler, aid := 1, down := [1], output := some 0 },
             { kind := .sink, aid := 2, up := [0] }],
    parts := [{}],
    targets := [{ dev := some 0, params := [(0, 5, 0, 0)] }],
    maints := [{ m := { active := [{ seq := 0, target := 0, tag := 0, needed := 0 }] }, aid := 3 }],
    env := { events := [{ uid := 0, time := 0, prio := 28, weight := 0, asset := 1, act := 3 }],
             nextUid := 1 } }

/-- **Maintenance of a device that is not a processor loses a wake-up**: `_shutdown` pauses the
handler's PASS_PART event although a plain handler stays operational; afterwards the clock is about
to advance (next event: the end of the work at time 5) while the free sink would accept the
handler's ready part. -/
theorem wake_exec_false_target :
    S1 { cexTarget with targets := [] } ∧ ¬ S1 cexTarget ∧ Wake cexTarget ∧
    ClockAdvances (cexTarget.exec (.startWork 0 0)) ∧
    ¬ Quiescent (cexTarget.exec (.startWork 0 0)) := by decide

/-- source 0 (flagged) holds the EMPTY batch 1; buffer 1 is full (1 of 1), its input is blocked;
script 0 unblocks it -/
def cexBatch : World :=
  { devs := [{ kind := .source, aid := 1, down := [1], output := some 1, waitingDS := true,
               genBatch := -1 },
             { kind := .buffer, aid := 2, up := [0], down := [2], cap := some 1, level := 1,
               delay := 100, buf := [(0, 0)], blockInput := true },
             { kind := .sink, aid := 3, up := [1] }],
    parts := [{}, { kids := some [] }],
    scripts := [[.block 1 false]],
    env := { events := [{ uid := 0, time := 100, prio := 28, weight := 0, asset := 2, act := 19 }],
             nextUid := 1 } }

/-- **Empty batches (finding F12, repaired).**  Unblocking the input of a FULL buffer notifies
nobody (a full buffer does not forward `notify_upstream_of_available_space`).  Before the repair a
full buffer still accepted an empty batch (it has no parts), so this state lost a wake-up: the clock
was about to advance (to 100), the source held a ready empty batch that the buffer would have
accepted, and no attempt was queued.  Since the repair a full buffer refuses every offer
(`canAcceptBasic`: `level < cap`), so the same state is quiescent: the part is genuinely blocked. -/
theorem empty_batch_full_buffer_quiescent :
    Wake cexBatch ∧ ClockAdvances (cexBatch.exec (.script 0)) ∧
    ready (cexBatch.exec (.script 0)) 0 1 ∧
    ((cexBatch.exec (.script 0)).givePart 1 1).2 = false ∧
    Quiescent (cexBatch.exec (.script 0)) ∧ Wake (cexBatch.exec (.script 0)) := by decide

end C03W
end SimProc
