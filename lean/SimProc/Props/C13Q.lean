/-
C13Q — A MACHINE THAT IS DOWN IS QUIET: the positive forms left open by C13W.

`C13W.down_is_inert` had to make an exception: in the class `C06W.Static' ∧ C06W.Init` a stray live
release / pass-part event of a processor may sit in the INITIAL queue under a foreign asset id, survive
the shutdown (which pauses by asset id) and fire while the machine is down
(`C13W.down_pending_false`).  Here the class is strengthened by the decidable clause `InitQ`:

* `InitQ w` : the initial queue (pending and paused) holds no live pass-part and no live release event
  of any device, and no processor has a part budget (`max_parts`, the attribute of sources that
  `adjust_part_count` manipulates — the model applies the operation to any kind of device, the
  library only to sources).  Scripts' events, failures, maintainer / sensor / scheduler events in the
  initial queue are fine.
* `QI x w` (`Proofs/C13QWorld.lean`), the queue invariant of processor `x`: every live pass-part /
  release event of `x`, pending or paused, carries the asset id of `x`; while `x` is shut down none is
  pending; while `x` is operational none is paused.  `qi_step`: preserved by every step of the event
  loop from a state of `C06W.WI`; `qi_run`: holds in every world of the run of a fresh world of the
  class `Static' ∧ Init ∧ InitQ` (reachability of C06T: `wAt w0.simulateInit k`).

Machinery (`Proofs/C13Q*.lean`): the frame relation `QK x` (flags of `x`, the paused list unchanged,
new pending events are never pass / release events of `x` unless they carry its asset id and `x` is
operational) for EVERY function of the factory floor except shutdown / failure / restore; the
environment-level invariant `QE` under pause / unpause / cancel of the own and of a foreign asset id;
`QP x` (invariant-preserving) for shutdown / failure / restore, every scripted operation of the
static class, the resource check and the maintainer's events.

1. `down_is_quiet`   2. `reservation_kept_while_down`, `no_own_event_fires_while_down`
3. `initq_needed`, `budget_clause_needed`    (the restore / failure refinements of the sketch are NOT proved here, see report)
-/
import SimProc.Proofs.C13QStep

namespace SimProc
namespace C13Q
open World FloorCoreL C06W C06T

variable {x : Nat}

/-! ### the strengthened initial condition -/

/-- The initial queue holds no live pass-part (code 3) or release (code 5) event of any device, and
no processor has a part budget. -/
structure InitQ (w : World) : Prop where
  noDevEv : ∀ e ∈ w.env.events ++ w.env.paused, e.live = true → e.act % 16 ≠ 3 ∧ e.act % 16 ≠ 5
  noBudget : ∀ d ∈ w.devs, d.kind = .processor → d.maxParts = none

instance (w : World) : Decidable (InitQ w) :=
  decidable_of_iff
    ((∀ e ∈ w.env.events ++ w.env.paused, e.live = true → e.act % 16 ≠ 3 ∧ e.act % 16 ≠ 5) ∧
      (∀ d ∈ w.devs, d.kind = .processor → d.maxParts = none))
    ⟨fun h => ⟨h.1, h.2⟩, fun h => ⟨h.1, h.2⟩⟩

/-- The invariant holds before the simulation. -/
theorem qi_fresh {w : World} (hq : InitQ w) (hk : (w.dev x).kind = .processor) : QI x w := by
  have noq : ∀ e ∈ w.env.events ++ w.env.paused, isQ x e = false := by
    intro e he
    rw [qe_false_iff]; intro hqe
    obtain ⟨hl, ha⟩ := (isQ_iff x e).mp hqe
    have := hq.noDevEv e he hl
    simp only [passAct, relAct, Action.toNat] at ha
    omega
  refine ⟨⟨?_, ?_, ?_⟩, ?_⟩
  · intro e he hqe; rw [noq e he] at hqe; cases hqe
  · intro _ e he; exact noq e (List.mem_append.mpr (Or.inl he))
  · intro _ e he; exact noq e (List.mem_append.mpr (Or.inr he))
  · rcases dev_mem_or_default w x with h | h
    · exact hq.noBudget _ h hk
    · rw [h]; rfl

/-- … after initialisation … -/
theorem qi_start {w0 : World} (hq : InitQ w0) (hk : (w0.simulateInit.dev x).kind = .processor) :
    QI x w0.simulateInit := by
  have hf := qk_simulateInit (x := x) w0
  have hk0 : (w0.dev x).kind = .processor := by rw [← hf.kind]; exact hk
  exact hf.qp.inv hk0 (qi_fresh hq hk0)

/-- … along the trace of every run from a state of both invariants … -/
theorem qi_trace {w : World} (h : WI w) (hq : QI x w) (hk : (w.dev x).kind = .processor) (k : Nat) :
    QI x (wAt w k) := by
  induction k with
  | zero => exact hq
  | succ k ih =>
    cases hs : (wAt w k).step with
    | none => rw [wAt_succ_none hs]; exact ih
    | some p =>
      have hst := step_wAt (e := p.1) (w' := p.2) hs
      exact qi_step (wi_wAt h k) (by rw [kind_wAt h]; exact hk) ih hst

/-- **… hence in every world of the run of a fresh world of the class `Static' ∧ Init ∧ InitQ`.** -/
theorem qi_run (w0 : World) (hs : Static' w0) (hi : Init w0) (hq : InitQ w0)
    (hk : (w0.simulateInit.dev x).kind = .processor) (k : Nat) : QI x (wAt w0.simulateInit k) :=
  qi_trace (wi_start hs hi) (qi_start hq hk) hk k

/-! ### 1. a machine that is down is quiet -/

/-- **While processor `x` is shut down (maintenance or failure) NO live pass-part, release or finish
event of `x` is pending**, in every state of the two invariants; its live PAUSED pass-part / release
/ finish events all carry the asset id of `x` (they are the events a maintenance shutdown paused: the
library pauses by asset id), the paused finish events are exactly the timer of the part in process
(one, if there is a part; none otherwise); and while `x` is operational no live pass-part / release
event of `x` is paused. -/
theorem down_is_quiet {w : World} (h : WI w) (hq : QI x w) (hk : (w.dev x).kind = .processor) :
    ((w.dev x).shutDown = true →
      (∀ e ∈ w.env.events, e.live = true →
        Action.ofNat e.act ≠ .passPart x ∧ Action.ofNat e.act ≠ .releaseIfIdle x ∧
        Action.ofNat e.act ≠ .finishCycle x) ∧
      (∀ e ∈ w.env.paused, e.live = true →
        (Action.ofNat e.act = .passPart x ∨ Action.ofNat e.act = .releaseIfIdle x ∨
          Action.ofNat e.act = .finishCycle x) → e.asset = (w.dev x).aid) ∧
      (∀ p, (w.dev x).part = some p → ∃ e0, finP w.env x = [e0] ∧ e0.cancelled = false) ∧
      ((w.dev x).part = none → finP w.env x = [])) ∧
    ((w.dev x).shutDown = false →
      ∀ e ∈ w.env.paused, e.live = true →
        Action.ofNat e.act ≠ .passPart x ∧ Action.ofNat e.act ≠ .releaseIfIdle x) := by
  have hT : isT (w.dev x).kind = true := by rw [hk]; rfl
  have hqa : ∀ e : Event, e.live = true →
      (Action.ofNat e.act = .passPart x ∨ Action.ofNat e.act = .releaseIfIdle x) → isQ x e = true := by
    intro e hl ha
    rw [isQ_iff]
    refine ⟨hl, ?_⟩
    rcases ha with ha | ha
    · exact Or.inl (ofNat_pass ha)
    · exact Or.inr (ofNat_rel ha)
  constructor
  · intro hd
    have hop : w.operational x = false := by simp [World.operational, hk, hd]
    obtain ⟨t1, t2⟩ := timer_spec h x hT
    have hfinE : finE w.env x = [] := by
      cases hp : (w.dev x).part with
      | none => exact (t2 hp).1
      | some p =>
        obtain ⟨e0, hE, _⟩ := (t1 p hp).2.2 hop
        exact hE
    refine ⟨?_, ?_, ?_, fun hp => (t2 hp).2⟩
    · intro e he hl
      have hn := hq.qe.dn hd e he
      refine ⟨?_, ?_, ?_⟩
      · intro ha; rw [hqa e hl (Or.inl ha)] at hn; cases hn
      · intro ha; rw [hqa e hl (Or.inr ha)] at hn; cases hn
      · intro ha
        have : e ∈ finE w.env x := mem_finE.mpr ⟨he, by simpa [Event.live] using hl, ofNat_finish ha⟩
        rw [hfinE] at this; cases this
    · intro e he hl ha
      rcases ha with ha | ha | ha
      · exact hq.qe.qa e (List.mem_append.mpr (Or.inr he)) (hqa e hl (Or.inl ha))
      · exact hq.qe.qa e (List.mem_append.mpr (Or.inr he)) (hqa e hl (Or.inr ha))
      · have hm : e ∈ finP w.env x := mem_finP.mpr ⟨he, by simpa [Event.live] using hl, ofNat_finish ha⟩
        have ht := h.fi.timer x (by rw [hk]; decide)
        have := ht.asset e (List.mem_append.mpr (Or.inr hm))
        exact this
    · intro p hp
      obtain ⟨e0, _, hP, _, hc, _⟩ := (t1 p hp).2.2 hop
      exact ⟨e0, hP, hc⟩
  · intro hd e he hl
    have hn := hq.qe.up hd e he
    refine ⟨?_, ?_⟩
    · intro ha; rw [hqa e hl (Or.inl ha)] at hn; cases hn
    · intro ha; rw [hqa e hl (Or.inr ha)] at hn; cases hn

/-! ### 2. the reservation of a machine that is down -/

/-- **No event of its own fires while a machine is down**: a step taken while processor `x` is shut
down never executes a live pass-part, release or finish event of `x`. -/
theorem no_own_event_fires_while_down {w w' : World} {e : Event} (h : WI w) (hq : QI x w)
    (hk : (w.dev x).kind = .processor) (hst : w.step = some (e, w'))
    (hd : (w.dev x).shutDown = true) (hl : e.live = true) :
    Action.ofNat e.act ≠ .passPart x ∧ Action.ofNat e.act ≠ .releaseIfIdle x ∧
    Action.ofNat e.act ≠ .finishCycle x := by
  obtain ⟨env', henv, _⟩ := step_spec h hst
  exact ((down_is_quiet h hq hk).1 hd).1 e (mem_events_of_step henv) hl

/-- **The reservation of a machine that is down is kept**: across every step in which processor `x`
is shut down before and after, its reservation is unchanged unless the step is the live FAILURE of
`x` (which gives it back).  The exception for release events of `C13W.Inert.reserved` is gone. -/
theorem reservation_kept_while_down {w w' : World} {e : Event} (h : WI w) (hq : QI x w)
    (hk : (w.dev x).kind = .processor) (hst : w.step = some (e, w'))
    (hd : (w.dev x).shutDown = true) (hd' : (w'.dev x).shutDown = true) :
    (w'.dev x).reserved = (w.dev x).reserved ∨
      (e.live = true ∧ Action.ofNat e.act = .fail x ∧ (w'.dev x).reserved = none) := by
  rcases (C13W.down_is_inert h hk hst hd hd').1.reserved with h1 | ⟨hl, h2 | h2, h3⟩
  · exact Or.inl h1
  · exact Or.inr ⟨hl, h2, h3⟩
  · exact absurd h2 (no_own_event_fires_while_down h hq hk hst hd hl).2.1

/-- Run form: for the run of a fresh world of the class. -/
theorem reservation_kept_run (w0 : World) (hs : Static' w0) (hi : Init w0) (hq : InitQ w0)
    (hk : (w0.simulateInit.dev x).kind = .processor) {k : Nat} {e : Event}
    (hst : (wAt w0.simulateInit k).step = some (e, wAt w0.simulateInit (k + 1)))
    (hd : ((wAt w0.simulateInit k).dev x).shutDown = true)
    (hd' : ((wAt w0.simulateInit (k + 1)).dev x).shutDown = true) :
    ((wAt w0.simulateInit (k + 1)).dev x).reserved = ((wAt w0.simulateInit k).dev x).reserved ∨
      (e.live = true ∧ Action.ofNat e.act = .fail x ∧
        ((wAt w0.simulateInit (k + 1)).dev x).reserved = none) :=
  reservation_kept_while_down (C13W.wi_run w0 hs hi k) (qi_run w0 hs hi hq hk k)
    (by rw [kind_wAt (wi_start hs hi)]; exact hk) hst hd hd'

/-! ### 3. necessity of `InitQ` -/

/-- **`InitQ` is needed**: the counterexample of `C13W.down_pending_false` is in the class
`Static' ∧ Init`, violates `InitQ` (two stray events in the initial queue), and in `w_4` of its run
the processor is down while a live pass-part and a live release event of it are pending: the first
clause of `down_is_quiet` fails; and step 7 → 8 gives the reservation of the down machine back
without being a failure: `reservation_kept_while_down` fails. -/
theorem initq_needed :
    Static' C13W.exStray ∧ Init C13W.exStray ∧ ¬ InitQ C13W.exStray ∧
    ((wAt C13W.exStray.simulateInit 4).dev 1).shutDown = true ∧
    (∃ e ∈ (wAt C13W.exStray.simulateInit 4).env.events, e.live = true ∧
      Action.ofNat e.act = .passPart 1) ∧
    (∃ e ∈ (wAt C13W.exStray.simulateInit 4).env.events, e.live = true ∧
      Action.ofNat e.act = .releaseIfIdle 1) ∧
    ¬ QI 1 (wAt C13W.exStray.simulateInit 4) ∧
    ((wAt C13W.exStray.simulateInit 7).dev 1).shutDown = true ∧
    ((wAt C13W.exStray.simulateInit 8).dev 1).shutDown = true ∧
    ((wAt C13W.exStray.simulateInit 8).dev 1).reserved ≠
      ((wAt C13W.exStray.simulateInit 7).dev 1).reserved ∧
    (evAt C13W.exStray.simulateInit 7).map (fun e => Action.ofNat e.act) = some (.releaseIfIdle 1) := by
  obtain ⟨a1, a2, a3, a4, a5, a6, a7, a8, a9, a10, a11⟩ := C13W.down_pending_false
  refine ⟨a1, a2, by decide, a3, a4, a5, ?_, a6, a7, by rw [a9, a10]; decide, by decide⟩
  intro hq
  obtain ⟨e, he, hl, ha⟩ := a4
  have := hq.qe.dn a3 e he
  rw [(isQ_iff 1 e).mpr ⟨hl, Or.inl (ofNat_pass ha)⟩] at this
  cases this

/-- The example with a part budget on the PROCESSOR (`maxParts := some 0`, an attribute only sources
have in the library) and a script that calls `adjust_part_count` on it at time 4, in the middle of
the work order (started at 3, duration 3). -/
def exAdj : World :=
  { C13W.exW with
    devs := [C13W.exSrc, { C13W.exProc with maxParts := some 0 }, C13W.exSink]
    scripts := [[.workOrder 0 0 0 10], [.adjust 1 5], [], [], [], []]
    env := { C13W.exEnv with events := [C13W.scr 0 3 0, C13W.scr 1 4 1] } }

/-- **The second clause of `InitQ` is needed too** (a quirk of the model, which applies
`adjust_part_count` to any kind of device): `exAdj` is in the class `Static' ∧ Init`, its initial
queue holds no device event, but its processor has a part budget; the scripted `adjust` at time 4 —
while the machine is down for maintenance — queues a live pass-part event of the machine: in `w_5`
it is down with a live pass-part event pending. -/
theorem budget_clause_needed :
    Static' exAdj ∧ Init exAdj ∧
    (∀ e ∈ exAdj.env.events ++ exAdj.env.paused, e.live = true → e.act % 16 ≠ 3 ∧ e.act % 16 ≠ 5) ∧
    ¬ InitQ exAdj ∧
    ((wAt exAdj.simulateInit 5).dev 1).shutDown = true ∧
    (∃ e ∈ (wAt exAdj.simulateInit 5).env.events, e.live = true ∧ Action.ofNat e.act = .passPart 1) ∧
    ¬ QI 1 (wAt exAdj.simulateInit 5) := by
  have h5 : ((wAt exAdj.simulateInit 5).dev 1).shutDown = true := by decide
  have he : ∃ e ∈ (wAt exAdj.simulateInit 5).env.events, e.live = true ∧
      Action.ofNat e.act = .passPart 1 := by decide
  refine ⟨C13W.static'_line3 exAdj C13W.exSrc { C13W.exProc with maxParts := some 0 } C13W.exSink rfl rfl
      rfl rfl rfl rfl (by decide) (by decide) (by decide) (by decide) (by decide),
    C13W.init_of exAdj (by decide) (by decide) (by decide) (by decide) rfl rfl, by decide, by decide,
    h5, he, ?_⟩
  intro hq
  obtain ⟨e, hm, hl, ha⟩ := he
  have := hq.qe.dn h5 e hm
  rw [(isQ_iff 1 e).mpr ⟨hl, Or.inl (ofNat_pass ha)⟩] at this
  cases this

/-! ### non-vacuity -/

-- the example world of C13W (maintenance, a work order, two failures) is in the class
theorem initQ_exW : InitQ C13W.exW := by decide

example (k : Nat) : QI 1 (wAt C13W.ex0 k) :=
  qi_run C13W.exW C13W.static'_exW C13W.init_exW initQ_exW (by decide) k

-- `down_is_quiet` in w_4 (down for maintenance, part 0 in process): by the theorem …
example := (down_is_quiet (C13W.wi_run C13W.exW C13W.static'_exW C13W.init_exW 4)
  (qi_run C13W.exW C13W.static'_exW C13W.init_exW initQ_exW (by decide) 4) (C13W.kind_ex0 4)).1 (by decide)
-- … and evaluated: the pending events are the source's only; the paused ones are the finish timer of
-- the part in process and nothing else (no hand-over was pending at the shutdown)
example : ((wAt C13W.ex0 4).dev 1).shutDown = true ∧
    (wAt C13W.ex0 4).env.events.map (fun e => (e.live, Action.ofNat e.act)) =
      [(true, .finishCycle 0), (true, .finishWork 0 0), (true, .script 1), (true, .script 2),
       (true, .script 3), (true, .script 4), (true, .script 5)] ∧
    (wAt C13W.ex0 4).env.paused.map (fun e => (e.live, Action.ofNat e.act, e.asset)) =
      [(true, .finishCycle 1, 2)] := by decide
-- after the FAILURE at time 12 (w_14): nothing of the machine is pending, and its finish event is
-- cancelled (it sits in the queue, not live)
example : ((wAt C13W.ex0 14).dev 1).shutDown = true ∧
    ((wAt C13W.ex0 14).env.events.filter (fun e => e.asset == 2)).map
      (fun e => (e.live, Action.ofNat e.act)) = [(false, .finishCycle 1)] ∧
    (wAt C13W.ex0 14).env.paused = [] := by decide
-- the second failure (w_23) finds a finished part waiting: the pass-part event of the machine is
-- cancelled with it; after the restoration (w_24) a new one is pending
example : ((wAt C13W.ex0 23).dev 1).shutDown = true ∧
    ((wAt C13W.ex0 23).env.events.filter (fun e => e.asset == 2)).map
      (fun e => (e.live, Action.ofNat e.act)) = [] ∧
    ((wAt C13W.ex0 24).env.events.filter (fun e => e.asset == 2)).map
      (fun e => (e.live, Action.ofNat e.act, e.time)) = [(true, .passPart 1, 23)] := by decide

/-- The example with a resource requirement of the processor (capacity 1 of resource 0) and NO stray
events: in the class `Static' ∧ Init ∧ InitQ`. -/
def exR : World :=
  { C13W.exW with
    devs := [C13W.exSrc, { C13W.exProc with resReq := some [(0, 1)] }, C13W.exSink]
    rm := { pools := [(0, 0, 1)] } }

theorem static'_exR : Static' exR :=
  C13W.static'_line3 exR C13W.exSrc { C13W.exProc with resReq := some [(0, 1)] } C13W.exSink rfl rfl rfl
    rfl rfl rfl (by decide) (by decide) (by decide) (by decide) (by decide)
theorem init_exR : Init exR := C13W.init_of exR (by decide) (by decide) (by decide) (by decide) rfl rfl
theorem initQ_exR : InitQ exR := by decide

-- `reservation_kept_while_down` on step 4 → 5 of its run (down for maintenance, reservation 0 held):
-- by the theorem, and evaluated
example : ∃ e, (wAt exR.simulateInit 4).step = some (e, wAt exR.simulateInit 5) ∧
    (((wAt exR.simulateInit 5).dev 1).reserved = ((wAt exR.simulateInit 4).dev 1).reserved ∨
      (e.live = true ∧ Action.ofNat e.act = .fail 1 ∧ ((wAt exR.simulateInit 5).dev 1).reserved = none)) := by
  obtain ⟨e, hst⟩ := C13W.step_of_some (w := exR.simulateInit) (k := 4) (by decide)
  exact ⟨e, hst, reservation_kept_run exR static'_exR init_exR initQ_exR (by decide) hst (by decide)
    (by decide)⟩
example : ((wAt exR.simulateInit 4).dev 1).shutDown = true ∧
    ((wAt exR.simulateInit 5).dev 1).shutDown = true ∧
    ((wAt exR.simulateInit 4).dev 1).reserved = some 0 ∧
    ((wAt exR.simulateInit 5).dev 1).reserved = some 0 := by decide

end C13Q
end SimProc
