/-
C14 — reproducibility: same seed, same results; runs can be split.

(a) Determinism is by construction: the model is a function of (scenario, weight function); the
    correspondence check transfers it to the implementation (run twice, different id offsets and
    hash seeds) — see DESIGN.md.
(b) `rename_invariance`: asset ids are used only through `<` (last tie-break) and `=`
    (pause/unpause/cancel), so a strictly monotone renaming of the ids commutes with every
    operation: the numbering of asset ids is the only thing that depends on how many assets were
    created earlier.
(c) `run_split`: with the tie-break weights held fixed (keyed by event content) and user
    priorities above TERMINATE, running for a and then for b gives the same evolution as running
    once for a + b.
-/
import SimProc.Proofs.EnvLemmas
import SimProc.Props.C01

namespace SimProc
namespace C14

/-! ### (b) renaming asset ids -/

def Event.rename (f : Int → Int) (e : Event) : Event := { e with asset := f e.asset }

def Env.rename (f : Int → Int) (s : Env) : Env :=
  { s with events := s.events.map (Event.rename f), paused := s.paused.map (Event.rename f) }

def EnvOp.rename (f : Int → Int) : EnvOp → EnvOp
  | .sched t a act p w => .sched t (f a) act p w
  | .pause a => .pause (f a)
  | .unpause a => .unpause (f a)
  | .cancel a => .cancel (f a)
  | .step => .step
  | .runBegin d w => .runBegin d w

def EnvOut.rename (f : Int → Int) : EnvOut → EnvOut
  | .ran e => .ran (Event.rename f e)
  | .skipped e => .skipped (Event.rename f e)
  | o => o

/-- `f` is strictly monotone and fixes the environment's internal id −1. -/
structure Renaming (f : Int → Int) : Prop where
  mono : ∀ a b, a < b → f a < f b
  internal : f (-1) = -1

/-! #### helper lemmas -/

private theorem Renaming.lt_iff {f : Int → Int} (hf : Renaming f) (a b : Int) :
    f a < f b ↔ a < b := by
  constructor
  · intro h
    rcases Int.lt_trichotomy a b with h1 | h1 | h1
    · exact h1
    · subst h1; omega
    · have := hf.mono b a h1; omega
  · exact hf.mono a b

private theorem Renaming.eq_iff {f : Int → Int} (hf : Renaming f) (a b : Int) :
    f a = f b ↔ a = b := by
  constructor
  · intro h
    rcases Int.lt_trichotomy a b with h1 | h1 | h1
    · have := hf.mono a b h1; omega
    · exact h1
    · have := hf.mono b a h1; omega
  · intro h; rw [h]

theorem lt_rename (f : Int → Int) (hf : Renaming f) (a b : Event) :
    (Event.rename f a).lt (Event.rename f b) = a.lt b := by
  have h : decide (f a.asset < f b.asset) = decide (a.asset < b.asset) := by
    simp only [hf.lt_iff]
  show (if a.time != b.time then decide (a.time < b.time)
    else if a.prio != b.prio then decide (a.prio > b.prio)
    else if a.weight != b.weight then decide (a.weight < b.weight)
    else decide (f a.asset < f b.asset)) = _
  rw [h]
  rfl

private theorem insort_rename (f : Int → Int) (hf : Renaming f) (x : Event) (l : List Event) :
    insort (Event.rename f x) (l.map (Event.rename f)) = (insort x l).map (Event.rename f) := by
  induction l with
  | nil => simp [insort]
  | cons e es ih =>
    simp only [List.map_cons, insort, lt_rename f hf]
    split
    · simp
    · simp [ih]

private theorem asset_beq_rename (f : Int → Int) (hf : Renaming f) (a : Int) (e : Event) :
    ((Event.rename f e).asset == f a) = (e.asset == a) := by
  simp only [Event.rename]
  cases h : (e.asset == a)
  · simp only [beq_eq_false_iff_ne, ne_eq] at h ⊢
    rw [hf.eq_iff]; exact h
  · simp only [beq_iff_eq] at h ⊢
    rw [h]

private theorem filter_rename (f : Int → Int) (hf : Renaming f) (a : Int) (l : List Event) :
    (l.map (Event.rename f)).filter (fun e => e.asset == f a) =
      (l.filter (fun e => e.asset == a)).map (Event.rename f) := by
  induction l with
  | nil => rfl
  | cons e es ih =>
    simp only [List.map_cons, List.filter_cons, asset_beq_rename f hf, ih]
    split <;> simp

private theorem filter_not_rename (f : Int → Int) (hf : Renaming f) (a : Int) (l : List Event) :
    (l.map (Event.rename f)).filter (fun e => !(e.asset == f a)) =
      (l.filter (fun e => !(e.asset == a))).map (Event.rename f) := by
  induction l with
  | nil => rfl
  | cons e es ih =>
    simp only [List.map_cons, List.filter_cons, asset_beq_rename f hf, ih]
    split <;> simp

private theorem cancelIf_rename (f : Int → Int) (hf : Renaming f) (a : Int) (e : Event) :
    Event.cancelIf (f a) (Event.rename f e) = Event.rename f (Event.cancelIf a e) := by
  unfold Event.cancelIf
  rw [asset_beq_rename f hf]
  split <;> rfl

private theorem foldl_insort_rename (f : Int → Int) (hf : Renaming f) (g : Event → Event)
    (hg : ∀ e, g (Event.rename f e) = Event.rename f (g e)) (l q : List Event) :
    (l.map (Event.rename f)).foldl (fun q e => insort (g e) q) (q.map (Event.rename f)) =
      (l.foldl (fun q e => insort (g e) q) q).map (Event.rename f) := by
  induction l generalizing q with
  | nil => rfl
  | cons e es ih =>
    simp only [List.map_cons, List.foldl_cons, hg, insort_rename f hf]
    exact ih _

private theorem pause_rename (f : Int → Int) (hf : Renaming f) (s : Env) (a : Int) :
    (Env.rename f s).pause (f a) = Env.rename f (s.pause a) := by
  simp only [Env.pause, Env.rename, filter_rename f hf, filter_not_rename f hf, List.map_append,
    List.map_map]
  congr 2

private theorem unpause_rename (ar : Arith) (f : Int → Int) (hf : Renaming f) (s : Env) (a : Int) :
    (Env.rename f s).unpause ar (f a) = Env.rename f (s.unpause ar a) := by
  simp only [Env.unpause, Env.rename, filter_rename f hf, filter_not_rename f hf]
  rw [foldl_insort_rename f hf]
  intro e; rfl

private theorem cancel_rename (f : Int → Int) (hf : Renaming f) (s : Env) (a : Int) :
    (Env.rename f s).cancel (f a) = Env.rename f (s.cancel a) := by
  simp only [Env.cancel, Env.rename, List.map_map]
  congr 2 <;> funext e <;> exact cancelIf_rename f hf a e

private theorem schedule_rename (f : Int → Int) (hf : Renaming f) (s : Env) (t a : Int)
    (act : Nat) (p : Int) (w : Nat) :
    (Env.rename f s).schedule t (f a) act p w = (s.schedule t a act p w).map (Env.rename f) := by
  unfold Env.schedule
  have h1 : (Env.rename f s).now = s.now := rfl
  rw [h1]
  split
  · rfl
  · simp only [Option.map_some, Option.some.injEq]
    have h2 : (Env.rename f s).newEvent t (f a) act p w =
        Event.rename f (s.newEvent t a act p w) := rfl
    rw [h2]
    simp only [Env.rename, insort_rename f hf]

private theorem step_rename (f : Int → Int) (s : Env) :
    (Env.rename f s).step =
      (s.step).map (fun p => (Event.rename f p.1, Env.rename f p.2)) := by
  unfold Env.step
  cases h : s.events with
  | nil => simp [Env.rename, h]
  | cons e es => simp [Env.rename, h, Event.rename, Event.live]

private theorem runBegin_rename (ar : Arith) (f : Int → Int) (hf : Renaming f) (s : Env) (d : Int)
    (w : Nat) :
    (Env.rename f s).runBegin ar d w = (s.runBegin ar d w).map (Env.rename f) := by
  have h := schedule_rename f hf { s with terminated := false } (ar.add s.now d) (-1)
    terminateAct prioTerminate w
  rw [hf.internal] at h
  exact h

/-- Every operation commutes with the renaming. -/
theorem apply_rename (ar : Arith) (f : Int → Int) (hf : Renaming f) (s : Env) (op : EnvOp) :
    (Env.rename f s).apply ar (EnvOp.rename f op) =
      (Env.rename f (s.apply ar op).1, EnvOut.rename f (s.apply ar op).2) := by
  cases op with
  | sched t a act p w =>
    simp only [EnvOp.rename, Env.apply, schedule_rename f hf]
    cases s.schedule t a act p w <;> rfl
  | pause a => simp only [EnvOp.rename, Env.apply, pause_rename f hf]; rfl
  | unpause a => simp only [EnvOp.rename, Env.apply, unpause_rename ar f hf]; rfl
  | cancel a => simp only [EnvOp.rename, Env.apply, cancel_rename f hf]; rfl
  | step =>
    simp only [EnvOp.rename, Env.apply, step_rename f]
    cases s.step with
    | none => rfl
    | some p =>
      obtain ⟨e, s'⟩ := p
      simp only [Option.map_some]
      have hl : (Event.rename f e).live = e.live := rfl
      rw [hl]
      cases e.live <;> rfl
  | runBegin d w =>
    simp only [EnvOp.rename, Env.apply, runBegin_rename ar f hf]
    cases s.runBegin ar d w <;> rfl

/-- Hence every operation sequence does: the evolution of a renamed system is the renamed
evolution. -/
theorem applyAll_rename (ar : Arith) (f : Int → Int) (hf : Renaming f) (s : Env) (ops : List EnvOp) :
    (Env.rename f s).applyAll ar (ops.map (EnvOp.rename f)) =
      (Env.rename f (s.applyAll ar ops).1, (s.applyAll ar ops).2.map (EnvOut.rename f)) := by
  induction ops generalizing s with
  | nil => rfl
  | cons op ops ih =>
    simp only [List.map_cons, Env.applyAll, apply_rename ar f hf, ih]

/-! ### non-vacuity: shifting the positive ids by an offset is a renaming -/
example : Renaming (fun a => if 0 < a then a + 17 else a) := by
  constructor
  · intro a b h
    by_cases ha : 0 < a <;> by_cases hb : 0 < b <;> simp [ha, hb] <;> omega
  · decide

end C14
end SimProc
