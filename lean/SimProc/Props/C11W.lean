/-
C11W — the closed-world version of C11 (resources of processors) and of the last clause of C10
("when time advances no feasible request is still waiting"), for EVERY state reachable from a fresh
world of the static class `S` (`Reachable`: `simulateInit`, then any number of events / runs of the
event loop, `runBegin`s and operations of the class issued from outside).

The class (`S`, decidable, `Proofs/C11WBase.lean`; preserved by every event: `S_step`): scripts
contain no `rewire` / `create` and no direct operations on reservations (`reserve`, `release`,
`merge`, `register`; capacity changes `addRes` — also negative ones — are allowed); scripts `pause` /
`unpause` / `cancel` only asset ids that are neither a device's nor the manager's (−1); every
declared requirement `resReq` is a dictionary with non-negative amounts; device asset ids are
positive and pairwise distinct; fewer than 10000 devices (the fuel of the model's
`_check_pending_requests` loop — the Python loop is unbounded).  `Static` of C02 is NOT needed:
wiring, sink failures and dangling device indices are irrelevant here.  That distinct asset ids and
"no script cancels a device's events" are needed is shown by the counterexamples
`distinct_aids_needed`, `no_script_cancel_needed` at the end.

Fresh worlds (`FreshR`, decidable, `Proofs/C11WLoop.lean`): not started, manager not initialised,
pools unused, no reservations, nobody waiting, no device references a reservation, no processor has
a part in process (what `C02.Fresh` says about processors: `fresh_part_none`), queue invariant
`C01.Inv`, and no `finishCycle` / `releaseIfIdle` event queued initially (script, failure, … events
may be).

The invariant `Inv` (`Proofs/C11WInv.lean`: resource layer `RInv`, event layer `EInv`, `Pend`,
`Rel`) and its preservation by every step is the machinery (`Proofs/C11W*.lean`); the theorems below
are its readable consequences.  Covered: items 1, 2, 4, 3 of the task, fully (nothing `_partial`),
under the two hypotheses `S w0` and `FreshR w0` only.  The invariant behind item 3 is: an
operational idle holder has a live RELEASE event with time = `now` (`release_pending`); a shut-down
idle holder has it among the paused events with `pausedAt = some time` (`release_paused`), so that
the event resumed by `restore_functionality` is due at once; and no `finishCycle` / `releaseIfIdle`
event of a shut-down processor is live in the queue (`no_release_while_shut_down`).
-/
import SimProc.Proofs.C11WLoop
import SimProc.Proofs.C11WStatic
import SimProc.Props.C02

namespace SimProc
namespace C11W
open World FloorCoreL

/-- **Reachable states**: `System.simulate`'s initialisation of the fresh world, then any number
of events (`Environment.step`, or whole runs of the event loop `runLoop` with any fuel), beginnings
of `Environment.run(d)` (`runBegin`, which schedules the terminate event), and operations of the
class issued from outside between events. -/
inductive Reachable (w0 : World) : World → Prop
  | init : Reachable w0 w0.simulateInit
  | step {w w' : World} {e : Event} : Reachable w0 w → w.step = some (e, w') → Reachable w0 w'
  | loop {w : World} (n : Nat) : Reachable w0 w → Reachable w0 (runLoop n w)
  | run {w : World} (d : Int) : Reachable w0 w → Reachable w0 (w.runBegin d).1
  | op {w : World} (o : Op) : Reachable w0 w → opOK (w.devs.map (·.aid)) o = true →
      Reachable w0 (w.applyOp o).1

/-- The simplest reachable states: initialise, then run the event loop with fuel `n`. -/
def reach (n : Nat) (w : World) : World := runLoop n w.simulateInit

theorem reach_reachable (n : Nat) (w : World) : Reachable w (reach n w) := .loop n .init

/-- **The closed-world invariant holds in every reachable state.** -/
theorem inv_reachable {w0 w : World} (hS : S w0) (hF : FreshR w0) (hr : Reachable w0 w) : Inv w := by
  induction hr with
  | init => exact inv_simulateInit w0 hS hF
  | step _ hst ih => exact inv_step _ _ _ ih hst
  | loop n _ ih => exact inv_runLoop n _ ih
  | run d _ ih => exact inv_runBegin _ d ih
  | op o _ hok ih => exact inv_applyOp _ o ih hok

/-! ### 0. the class and the invariant are preserved -/

/-- The class `S` is preserved by every event (`Environment.step`), unconditionally: nothing but
`rewire` / `create` changes the scripts or the kind, asset id and declared requirement of a
device (`Proofs/C11WStatic.lean`). -/
theorem S_step (w w' : World) (e : Event) (h : S w) (hst : w.step = some (e, w')) : S w' :=
  S_step_uncond w w' e h hst

theorem S_runLoop (n : Nat) (w : World) (h : S w) : S (runLoop n w) := S_runLoop_uncond n w h

theorem S_simulateInit (w : World) (h : S w) : S w.simulateInit := S_simulateInit_uncond w h

theorem S_reachable {w0 w : World} (hS : S w0) (hF : FreshR w0) (hr : Reachable w0 w) : S w :=
  (inv_reachable hS hF hr).r.s

/-- Initialisation of a fresh world of the class establishes the invariant, … -/
theorem inv_init (w : World) (hS : S w) (hF : FreshR w) : Inv w.simulateInit :=
  inv_simulateInit w hS hF

/-- … and every event (`Environment.step`) preserves it. -/
theorem inv_step' (w w' : World) (e : Event) (h : Inv w) (hst : w.step = some (e, w')) : Inv w' :=
  inv_step w w' e h hst

/-- What `C02.Fresh` says about processors is the device clause of `FreshR`. -/
theorem fresh_part_none {w : World} (h : C02.Fresh w) : ∀ d ∈ w.devs, d.part = none := by
  intro d hd
  have := h.2.2.2.2 d hd
  unfold C02.held at this
  cases hp : d.part with
  | none => rfl
  | some p => rw [hp] at this; simp at this

section
variable {w0 w : World} (hS : S w0) (hF : FreshR w0) (hr : Reachable w0 w)
include hS hF hr

/-! ### 1. the resource manager's invariant -/

/-- **1.** `C09.Inv` (usage = sum of outstanding reservations, ids, positivity, capacities ≥ 0) of
the manager in every reachable state; the manager is initialised. -/
theorem rmInv_reachable : C09.Inv w.rm ∧ w.rm.inited = true :=
  ⟨(inv_reachable hS hF hr).r.rmI, (inv_reachable hS hF hr).r.ini⟩

/-! ### 2. processors hold exactly what they declare; usage is the sum over the holders -/

/-- **2a.** The local invariant of every processor: whatever it holds is its declared reservation,
and it has a part in process only while it holds a reservation. -/
theorem procInv_reachable (x : Nat) (hk : (w.dev x).kind = .processor) : C11.ProcInv w x :=
  (inv_reachable hS hF hr).r.proc x hk

/-- **2b.** In particular: a processor that declares `req` and has a part in process holds a
reservation whose holdings are exactly the positive entries of `req`. -/
theorem part_only_while_holding (x p : Nat) (req : Req) (hk : (w.dev x).kind = .processor)
    (hreq : (w.dev x).resReq = some req) (hp : (w.dev x).part = some p) : C11.Holding w x req :=
  (procInv_reachable hS hF hr x hk).holding hreq (by rw [hp]; rfl)

/-- **2c.** Every reference of a device names an existing reservation; every non-empty reservation
is referenced by exactly one device; no two devices share a reservation. -/
theorem ownedBy_reachable :
    C11.OwnedBy w ∧
    ∀ x y id, (w.dev x).reserved = some id → (w.dev y).reserved = some id → x = y :=
  ⟨(inv_reachable hS hF hr).r.own, (inv_reachable hS hF hr).r.uniq⟩

/-- **2d.** At every instant the usage of every pool equals the sum of the holdings of the devices
currently holding reservations. -/
theorem usage_sum_reachable (r : Nat) : w.rm.usage r = C11.holdersSum w r :=
  C11.usage_is_sum_of_holders _ (inv_reachable hS hF hr).r.rmI (inv_reachable hS hF hr).r.own r

/-- **2e.** Only processors wait for resources, each at most once, and a waiting processor has its
`waitingRes` flag set; hence there are never more waiting requests than devices. -/
theorem waiting_reachable : Wait w ∧ w.rm.waiting.length ≤ w.devs.length :=
  ⟨(inv_reachable hS hF hr).r.wait, wait_length_le (inv_reachable hS hF hr).r.wait⟩

/-! ### 4. a feasible waiting request has a check pending; none is left when time advances -/

/-- **4a (`C10.PendInv` lifted to the world).** If some waiting request fits, a live availability
check (`rmCheck`, priority `OTHER_HIGH`, asset −1) is queued for the current instant. -/
theorem check_pending (hf : C10.feasibleWaiting w.rm) : QueuedL w .rmCheck w.now pOtherHigh (-1) :=
  (inv_reachable hS hF hr).pend hf

/-- **4b.** In a reachable state in which no live queued event is due at the current instant (the
clock is about to advance), no waiting request fits. -/
theorem no_feasible_waiting_at_advance
    (hadv : ∀ e ∈ w.env.events, e.cancelled = false → e.time ≠ w.now) :
    ∀ e ∈ w.rm.waiting, w.rm.canFulfill e.1 = false := by
  intro e he
  cases hc : w.rm.canFulfill e.1 with
  | false => rfl
  | true =>
    obtain ⟨ev, hev, _, ht, _, _, hl⟩ := check_pending hS hF hr ⟨e, he, hc⟩
    exact absurd ht (hadv ev hev hl)

/-- **4b′ (in terms of `Environment.step`).** If the next step advances the clock, no waiting
request fits. -/
theorem no_feasible_waiting_when_clock_advances (e : Event) (env' : Env)
    (hst : w.env.step = some (e, env')) (hadv : w.env.now < env'.now) :
    ∀ r ∈ w.rm.waiting, w.rm.canFulfill r.1 = false := by
  have hI := inv_reachable hS hF hr
  apply no_feasible_waiting_at_advance hS hF hr
  intro ev hev _ ht
  have h1 := C01.step_min_time hI.e.q hst ev hev
  have h2 := (C01.step_clock hI.e.q hst).1
  unfold World.now at ht
  omega

/-! ### 3. an idle holder has its RELEASE event pending; none is left when time advances -/

/-- **3a.** An operational processor that holds a reservation and has no part in process has a
live RELEASE event (`releaseIfIdle x`, priority `pRelease`, its own asset id) queued for the
current instant.  (The event is the one `_finish_cycle` scheduled, or — after a maintenance
shutdown — the same event resumed: an event paused at its own due time has remaining delay 0.) -/
theorem release_pending (x : Nat) (hk : (w.dev x).kind = .processor)
    (hs : (w.dev x).shutDown = false) (hres : (w.dev x).reserved ≠ none)
    (hp : (w.dev x).part = none) :
    QueuedL w (.releaseIfIdle x) w.now pRelease (w.dev x).aid :=
  (inv_reachable hS hF hr).rel x hk hs hres hp

/-- **3b.** A processor that is shut down (for maintenance) while it holds a reservation without a
part in process has its RELEASE event among the paused events, paused at its own due time — so it
is due at once when the processor is restored. -/
theorem release_paused (x : Nat) (hk : (w.dev x).kind = .processor)
    (hs : (w.dev x).shutDown = true) (hres : (w.dev x).reserved ≠ none)
    (hp : (w.dev x).part = none) :
    ∃ e ∈ w.env.paused, e.act = (Action.releaseIfIdle x).toNat ∧ e.asset = (w.dev x).aid ∧
      e.prio = pRelease ∧ e.cancelled = false ∧ e.pausedAt = some e.time :=
  (inv_reachable hS hF hr).e.relP x hk hs hres hp

/-- **3c.** No `finishCycle` / `releaseIfIdle` event of a processor that is shut down is live in
the queue (they are paused or cancelled with the machine's other events): the model's
`_release_resources_if_idle` never runs on a shut-down processor with a part in process. -/
theorem no_release_while_shut_down (x : Nat) (hk : (w.dev x).kind = .processor)
    (hs : (w.dev x).shutDown = true) :
    ∀ e ∈ w.env.events, e.cancelled = false →
      evAct e ≠ .finishCycle x ∧ evAct e ≠ .releaseIfIdle x :=
  (inv_reachable hS hF hr).e.noRun x hk hs

/-- **3d.** In a reachable state in which no live queued event is due at the current instant (the
clock is about to advance), no idle operational processor holds resources. -/
theorem no_idle_holder_at_advance
    (hadv : ∀ e ∈ w.env.events, e.cancelled = false → e.time ≠ w.now)
    (x : Nat) (hk : (w.dev x).kind = .processor) (hop : w.operational x = true)
    (hp : (w.dev x).part = none) : (w.dev x).reserved = none := by
  cases hres : (w.dev x).reserved with
  | none => rfl
  | some id =>
    obtain ⟨ev, hev, _, ht, _, _, hl⟩ := release_pending hS hF hr x hk (operational_proc hk hop)
      (by rw [hres]; exact fun h => by cases h) hp
    exact absurd ht (hadv ev hev hl)

/-- **3d′ (in terms of `Environment.step`).** If the next step advances the clock, no idle
operational processor holds resources. -/
theorem no_idle_holder_when_clock_advances (e : Event) (env' : Env)
    (hst : w.env.step = some (e, env')) (hadv : w.env.now < env'.now)
    (x : Nat) (hk : (w.dev x).kind = .processor) (hop : w.operational x = true)
    (hp : (w.dev x).part = none) : (w.dev x).reserved = none := by
  have hI := inv_reachable hS hF hr
  apply no_idle_holder_at_advance hS hF hr ?_ x hk hop hp
  intro ev hev _ ht
  have h1 := C01.step_min_time hI.e.q hst ev hev
  have h2 := (C01.step_clock hI.e.q hst).1
  unfold World.now at ht
  omega

/-- **3e.** Consequently, when the clock is about to advance, every holder is a processor with a
part in process or a processor that is shut down: pool usage is the sum of their holdings and of
nothing else. -/
theorem holders_at_advance
    (hadv : ∀ e ∈ w.env.events, e.cancelled = false → e.time ≠ w.now)
    (x : Nat) (hk : (w.dev x).kind = .processor) (hres : (w.dev x).reserved ≠ none) :
    (w.dev x).part ≠ none ∨ (w.dev x).shutDown = true := by
  cases hp : (w.dev x).part with
  | some p => exact Or.inl (fun h => by cases h)
  | none =>
    right
    cases hs : (w.dev x).shutDown with
    | true => rfl
    | false =>
      have hop : w.operational x = true := by
        unfold operational; simp [hk, hs]
      exact absurd (no_idle_holder_at_advance hS hF hr hadv x hk hop hp) hres

end

/-! ### non-vacuity -/

instance (w : World) (act : Action) (t prio asset : Int) : Decidable (QueuedL w act t prio asset) := by
  unfold QueuedL; infer_instance
instance (w : World) (act : Action) (t prio asset : Int) : Decidable (Queued w act t prio asset) := by
  unfold Queued; infer_instance
instance (rm : RM) : Decidable (C10.feasibleWaiting rm) := by
  unfold C10.feasibleWaiting; infer_instance

/-- Two scripted events: capacity of pool 0 drops by 1 at t = 4 and comes back at t = 9. -/
def exEnv : Env :=
  (({ terminated := false } : Env).applyAll Arith.exact
    [.sched 4 0 (Action.script 0).toNat 8 0, .sched 9 0 (Action.script 1).toNat 8 0]).1

/-- A source feeding two processors (cycle times 3 and 2) that compete for the single unit of
pool 0, and a sink. -/
def exW : World :=
  { env := exEnv
    scripts := [[.addRes 0 (-1)], [.addRes 0 1]]
    rm := { pools := [(0, 0, 1)] }
    devs := [{ kind := .source, aid := 1, down := [1, 2], cycle := 1, maxParts := some 3 },
             { kind := .processor, aid := 2, up := [0], down := [3], cycle := 3, resReq := some [(0, 1)] },
             { kind := .processor, aid := 3, up := [0], down := [3], cycle := 2, resReq := some [(0, 1)] },
             { kind := .sink, aid := 4, up := [1, 2] }]
    assets := [.dev 0, .dev 1, .dev 2, .dev 3] }

/-- The hypotheses of all theorems are satisfiable on a non-trivial world. -/
example : S exW ∧ FreshR exW := by decide

/-- … and fail where they should: a script that reserves, two devices with the same asset id, a
requirement with a negative amount, a script cancelling the events of a device. -/
example : ¬ S { exW with scripts := [[.reserve 0 [(0, 1)]]] } ∧
    ¬ S { exW with devs := exW.devs ++ [{ kind := .processor, aid := 2 }] } ∧
    ¬ S { exW with devs := [{ kind := .processor, aid := 1, resReq := some [(0, -1)] }] } ∧
    ¬ S { exW with scripts := [[.cancel 2]] } ∧
    S { exW with scripts := [[.cancel 77, .addRes 0 (-5), .shutdown 1, .restore 1, .schedFail 2 3]] } := by
  decide


/-- 2: after two events processor 1 has part 0 in process and holds exactly the declared unit; usage
of the pool = 1 = the sum over the holders. -/
example :
    ((reach 2 exW).dev 1).part = some 0 ∧ ((reach 2 exW).dev 1).reserved = some 0 ∧
    (reach 2 exW).rm.held 0 = some [(0, 1)] ∧ (reach 2 exW).rm.usage 0 = 1 ∧
    C11.holdersSum (reach 2 exW) 0 = 1 := by decide

/-- … as the theorems say (their hypotheses are discharged by `decide`). -/
example : C11.Holding (reach 2 exW) 1 [(0, 1)] :=
  part_only_while_holding (by decide) (by decide) (reach_reachable 2 exW) 1 0 _ (by decide)
    (by decide) (by decide)
example : (reach 2 exW).rm.usage 0 = C11.holdersSum (reach 2 exW) 0 :=
  usage_sum_reachable (by decide) (by decide) (reach_reachable 2 exW) 0

/-- 4b is not trivial: after five events (t = 2) processor 2 has been refused and is waiting, its
check has run, nothing is due at the current instant — and indeed its request does not fit. -/
example :
    (reach 5 exW).now = 2 ∧ (reach 5 exW).rm.waiting = [([(0, 1)], Cb.proc 2)] ∧
    ((reach 5 exW).dev 2).waitingRes = true ∧
    (∀ e ∈ (reach 5 exW).env.events, e.cancelled = false → e.time ≠ (reach 5 exW).now) ∧
    (reach 5 exW).rm.canFulfill [(0, 1)] = false ∧
    ((reach 5 exW).dev 1).reserved = some 0 ∧ ((reach 5 exW).dev 1).part = some 0 := by decide

/-- The capacity drop (script 0 at t = 4): capacity 0 < usage 1 — the holder keeps what it holds,
usage is still the sum over the holders, a check is run (and finds nothing feasible). -/
example :
    (reach 10 exW).now = 4 ∧ (reach 10 exW).rm.capacity 0 = 0 ∧ (reach 10 exW).rm.usage 0 = 1 ∧
    C11.holdersSum (reach 10 exW) 0 = 1 ∧
    QueuedL (reach 10 exW) .rmCheck 4 pOtherHigh (-1) ∧
    ¬ C10.feasibleWaiting (reach 10 exW).rm := by decide

/-- 3a: at t = 10 the source is exhausted; processor 1 has handed its last part over and is an idle
operational holder — its RELEASE event is queued for the current instant … -/
example :
    (reach 23 exW).now = 10 ∧ ((reach 23 exW).dev 1).part = none ∧
    ((reach 23 exW).dev 1).reserved = some 0 ∧ (reach 23 exW).operational 1 = true ∧
    QueuedL (reach 23 exW) (.releaseIfIdle 1) 10 pRelease 2 := by decide

/-- … 4a: one event later it has released, the waiting request of processor 2 fits (capacity is
back to 1 since t = 9) and the check is queued for the current instant … -/
example :
    ((reach 24 exW).dev 1).reserved = none ∧ (reach 24 exW).rm.usage 0 = 0 ∧
    C10.feasibleWaiting (reach 24 exW).rm ∧
    QueuedL (reach 24 exW) .rmCheck 10 pOtherHigh (-1) := by decide

/-- … and one event later processor 2 has been called back and nobody waits. -/
example :
    (reach 25 exW).rm.waiting = [] ∧ ((reach 25 exW).dev 2).waitingRes = false := by decide

/-- The same line with a single part; script 0 (priority between PASS_PART and RELEASE) shuts
processor 1 down for maintenance at t = 4, right after it has handed its part over; script 1
restores it at t = 7. -/
def exEnv2 : Env :=
  (({ terminated := false } : Env).applyAll Arith.exact
    [.sched 4 0 (Action.script 0).toNat 26 0, .sched 7 0 (Action.script 1).toNat 8 0]).1

def exW2 : World :=
  { exW with
    env := exEnv2
    scripts := [[.shutdown 1], [.restore 1]]
    devs := [{ kind := .source, aid := 1, down := [1, 2], cycle := 1, maxParts := some 1 },
             { kind := .processor, aid := 2, up := [0], down := [3], cycle := 3, resReq := some [(0, 1)] },
             { kind := .processor, aid := 3, up := [0], down := [3], cycle := 2, resReq := some [(0, 1)] },
             { kind := .sink, aid := 4, up := [1, 2] }] }

example : S exW2 ∧ FreshR exW2 := by decide

/-- 3b / 3e: shut down while idle and holding: the RELEASE event is paused at its own due time, the
clock advances (t = 4 → 7) while the shut-down processor keeps its reservation … -/
example :
    (reach 7 exW2).now = 4 ∧ ((reach 7 exW2).dev 1).shutDown = true ∧
    ((reach 7 exW2).dev 1).part = none ∧ ((reach 7 exW2).dev 1).reserved = some 0 ∧
    (reach 7 exW2).rm.usage 0 = 1 ∧
    (∀ e ∈ (reach 7 exW2).env.events, e.cancelled = false → e.time ≠ (reach 7 exW2).now) ∧
    (reach 7 exW2).env.paused.map (fun e => (Action.ofNat e.act, e.time, e.pausedAt)) =
      [(.releaseIfIdle 1, 4, some 4)] := by decide

/-- … 3a after the restore at t = 7: the resumed RELEASE event is due at once (it still carries its
pause time, which is why `QueuedL` and not `World.Queued` is the right notion) … -/
example :
    (reach 8 exW2).now = 7 ∧ ((reach 8 exW2).dev 1).shutDown = false ∧
    ((reach 8 exW2).dev 1).reserved = some 0 ∧
    QueuedL (reach 8 exW2) (.releaseIfIdle 1) 7 pRelease 2 ∧
    ¬ Queued (reach 8 exW2) (.releaseIfIdle 1) 7 pRelease 2 := by decide

/-- … and the resources are given back before the clock moves again. -/
example :
    (reach 9 exW2).now = 7 ∧ ((reach 9 exW2).dev 1).reserved = none ∧
    (reach 9 exW2).rm.usage 0 = 0 := by decide

/-- The statements about the moment the clock advances, applied to the example. -/
example : ((reach 7 exW2).dev 1).part ≠ none ∨ ((reach 7 exW2).dev 1).shutDown = true :=
  holders_at_advance (by decide) (by decide) (reach_reachable 7 exW2) (by decide) 1 (by decide)
    (by decide)

/-! ### the static conditions are needed (counterexamples outside the class) -/

/-- As `exW2`, but processor 2 carries the asset id of processor 1 and the scripts shut down /
restore processor 2. -/
def exW3 : World :=
  { exW2 with
    scripts := [[.shutdown 2], [.restore 2]]
    devs := [{ kind := .source, aid := 1, down := [1, 2], cycle := 1, maxParts := some 1 },
             { kind := .processor, aid := 2, up := [0], down := [3], cycle := 3, resReq := some [(0, 1)] },
             { kind := .processor, aid := 2, up := [0], down := [3], cycle := 2, resReq := some [(0, 1)] },
             { kind := .sink, aid := 4, up := [1, 2] }] }

/-- As `exW2`, but script 0 cancels the events of asset 2 (processor 1) directly. -/
def exW4 : World := { exW2 with scripts := [[.cancel 2], []] }

/-- **Distinct asset ids are needed.**  In the fresh world `exW3` (everything of the class except
that two processors share an asset id) the maintenance shutdown of processor 2 pauses the RELEASE
event of processor 1: at t = 4 nothing is due any more, the clock advances to t = 7, and the
operational idle processor 1 still holds its unit (3d fails). -/
theorem distinct_aids_needed :
    FreshR exW3 ∧ ¬ S exW3 ∧
    (∀ e ∈ (reach 7 exW3).env.events, e.cancelled = false → e.time ≠ (reach 7 exW3).now) ∧
    ((reach 7 exW3).dev 1).kind = .processor ∧ (reach 7 exW3).operational 1 = true ∧
    ((reach 7 exW3).dev 1).part = none ∧ ((reach 7 exW3).dev 1).reserved = some 0 ∧
    (reach 7 exW3).now = 4 ∧ (reach 8 exW3).now = 7 := by decide

/-- **Scripts must not cancel a device's events.**  In `exW4` the script cancels the RELEASE event
of processor 1: the run ends (queue empty at t = 7) with the idle operational processor still
holding its unit (3a and 3d fail). -/
theorem no_script_cancel_needed :
    FreshR exW4 ∧ ¬ S exW4 ∧
    (reach 10 exW4).env.events = [] ∧ (reach 10 exW4).now = 7 ∧
    (reach 10 exW4).operational 1 = true ∧
    ((reach 10 exW4).dev 1).part = none ∧ ((reach 10 exW4).dev 1).reserved = some 0 ∧
    (reach 10 exW4).rm.usage 0 = 1 := by decide

end C11W
end SimProc
