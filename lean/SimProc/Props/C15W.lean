/-
C15W — the recorded data is a faithful log, closed-world: the record and counter invariants of
C15 hold in EVERY state reachable from a fresh world (`Fresh`) by initialisation, steps of the
event loop, whole runs and scripted operations (`Reachable`), for every topology, every parameter
choice, every script that creates no assets (`NoCreate` — weaker than `Static` of C02: rewiring,
failures of any device, dangling wiring are all allowed) and every tie-break weight.

Method (`SimProc/Proofs/C15W*.lean`): the observable key of a world (`key`: clock and queue, log,
per device `kind / produced / costProduced / recvCount / recvValue / level / val`, delivery log,
pools, maintainer values); every function of the model is a step of the abstract transition
system `KStep` on keys, whose constructors are exactly the sites at which the library writes
datapoints or changes counters (`C15WPass`, `C15WWorld`); the invariants are proved by induction
on `KStep` (`C15WInv`) and lifted to reachable states (`C15WReach`).

1. `supplied_count_reachable` — `produced` of every device = number of its `supplied_new_part`
   records.
2. `received_count_reachable` — the counters of the sinks add up to the number of delivered leaf
   parts (ghost log `delivered`); only sinks count; `received_count_per_sink` — without batches
   (`NoBatch`, which is then an invariant: `no_batches_reachable`) the counter of every sink is the
   number of its `received_part` records (false with batches:
   `received_count_per_sink_batch_false`); `received_value_reachable` — the value collected by a
   sink is the sum of the values in its `received_part` records.
3. `last_level_reachable` — the last `level` record of every device is its level (0 without one).
4. `last_resource_reachable` — once the manager is initialised (`rm_inited_reachable`), every
   resource with a pool has a `resource_update` record and the last one shows `(usage, capacity)`.
5. `records_stamped_now` (one step of the event loop) and `log_sorted_reachable`.
`supplied_count_create_false`: the hypothesis `NoCreate` cannot be dropped.
-/
import SimProc.Proofs.C16WSteps
import SimProc.Proofs.C15WCount
import SimProc.Props.C02

namespace SimProc
namespace C15W
open World C15

/-! ### hypotheses -/

/-- `Static` (C02) implies `NoCreate`. -/
theorem noCreate_of_static {w : World} (h : C02V.Static w) : NoCreate w := by
  intro l hl op hop
  have := h.1 l hl op hop
  cases op <;> first | rfl | exact absurd this id

/-- The states the closed-world theorems of C02 talk about are reachable. -/
theorem reachable_runLoop (n : Nat) (w0 : World) : Reachable w0 (runLoop n w0.simulateInit) :=
  .run n .init

/-- `System.simulate(d)` (initialise, begin the run, loop) ends in a reachable state. -/
theorem reachable_simulate (n : Nat) (d : Int) (w0 : World) :
    Reachable w0 (runLoop n (w0.simulateInit.runBegin d).1) :=
  .run n (.runBegin d .init)

/-- Scripts never change, so `NoCreate` holds in every reachable state. -/
theorem noCreate_reachable {w0 w : World} (hf : Fresh w0) (hn : NoCreate w0) (hr : Reachable w0 w) :
    NoCreate w := (reach_key hn hf.2.2.1 hr).2.2

/-! ### 1. sources: counter = number of records -/

/-- **supplied_count**, closed world: in every reachable state the counter `produced` of every
device (a fortiori of every source) equals the number of its `supplied_new_part` records. -/
theorem supplied_count_reachable {w0 w : World} (hf : Fresh w0) (hn : NoCreate w0)
    (hr : Reachable w0 w) (x : Nat) : (w.dev x).produced = countSupplied w x := by
  have := reach_inv (I0 := SupInv) (I := SupInv) SupInv.step (fun _ h => h) SupInv.step
    (fun _ _ h => h) hf.supInv hn hf.2.2.1 hr x
  rw [key_dev] at this
  exact this

/-- The form of C02's closed-world theorems: statically well-formed world, initialise, run. -/
theorem supplied_count_static (n : Nat) (w0 : World) (hf : Fresh w0) (hs : C02V.Static w0) (x : Nat) :
    ((runLoop n w0.simulateInit).dev x).produced = countSupplied (runLoop n w0.simulateInit) x :=
  supplied_count_reachable hf (noCreate_of_static hs) (reachable_runLoop n w0) x

/-! ### 2. sinks: counters = delivered parts, value = recorded values -/

theorem sum_filter_of_zero {α} (f : α → Int) (p : α → Bool) (l : List α)
    (h : ∀ a ∈ l, p a = false → f a = 0) : ((l.filter p).map f).sum = (l.map f).sum := by
  induction l with
  | nil => rfl
  | cons a l ih =>
    have ih' := ih (fun b hb => h b (List.mem_cons_of_mem _ hb))
    by_cases hp : p a = true
    · simp only [List.filter_cons, hp, if_true, List.map_cons, List.sum_cons, ih']
    · have hp' : p a = false := by simpa using hp
      have h0 := h a (List.mem_cons_self ..) hp'
      rw [List.filter_cons, if_neg hp, ih', List.map_cons, List.sum_cons, h0]
      omega

/-- **received_count**, closed world: the counters of the sinks add up to the number of leaf parts
delivered (a batch counts its parts), … -/
theorem received_count_reachable {w0 w : World} (hf : Fresh w0) (hn : NoCreate w0)
    (hr : Reachable w0 w) :
    ((w.devs.filter (fun d => d.kind == .sink)).map (·.recvCount)).sum = w.delivered.length := by
  have h := reach_inv (I0 := DelivInv) (I := DelivInv) DelivInv.step (fun _ h => h) DelivInv.step
    (fun _ _ h => h) hf.delivInv hn hf.2.2.1 hr
  have h1 : (w.devs.map (·.recvCount)).sum = w.delivered.length := by
    have := h.1
    simp only [recvTotal, key, List.map_map] at this
    exact this
  rw [← h1]
  apply sum_filter_of_zero
  intro d hd hk
  obtain ⟨y, hy, rfl⟩ := List.getElem_of_mem hd
  have h2 := h.2 y
  rw [key_dev] at h2
  have e : w.dev y = w.devs[y] := by
    simp [World.dev, List.getD_eq_getElem?_getD, hy]
  rw [e] at h2
  have hk' : ¬ w.devs[y].kind = .sink := by simpa using hk
  exact h2 hk'

/-- … and only sinks count. -/
theorem only_sinks_count {w0 w : World} (hf : Fresh w0) (hn : NoCreate w0) (hr : Reachable w0 w)
    (x : Nat) (hk : (w.dev x).kind ≠ .sink) : (w.dev x).recvCount = 0 := by
  have h := (reach_inv (I0 := DelivInv) (I := DelivInv) DelivInv.step (fun _ h => h) DelivInv.step
    (fun _ _ h => h) hf.delivInv hn hf.2.2.1 hr).2 x
  rw [key_dev] at h
  exact h hk

/-- The values in the `received_part` records of device `x`, added up. -/
def receivedValue (w : World) (x : Nat) : Int := recvSum w.recs x

/-- The value collected by a sink is the sum of the values recorded in its `received_part`
records (each record carries the part's value at receipt, `C15.received_record`). -/
theorem received_value_reachable {w0 w : World} (hf : Fresh w0) (hn : NoCreate w0)
    (hr : Reachable w0 w) (x : Nat) (hk : (w.dev x).kind = .sink) :
    (w.dev x).recvValue = receivedValue w x := by
  have h := reach_inv (I0 := RecvValInv) (I := RecvValInv) RecvValInv.step (fun _ h => h)
    RecvValInv.step (fun _ _ h => h) hf.recvValInv hn hf.2.2.1 hr x
  rw [key_dev] at h
  exact h hk

/-- The number of `received_part` records of device `x`. -/
def countReceived (w : World) (x : Nat) : Nat := countRecv w.recs x

/-- Without batches (`NoBatch`: no source generates batches, no batcher builds them, no part is
one) none ever appears, … -/
theorem no_batches_reachable {w0 w : World} (hf : Fresh w0) (hn : NoCreate w0) (hb : NoBatch w0)
    (hr : Reachable w0 w) :
    (∀ p, (w.part p).kids = none) ∧ ∀ x, (w.dev x).genBatch = 0 ∧ (w.dev x).bsize = none := by
  have h := reach_inv (I0 := LeafInv) (I := LeafInv) LeafInv.step (fun _ h => h) LeafInv.step
    (fun _ _ h => h) hb.leafInv hn hf.2.2.1 hr
  refine ⟨fun p => part_kids_of_pl w p h.2, fun x => ?_⟩
  have := h.1 x
  rw [key_dev] at this
  exact this

/-- … and the counter of every sink is the number of its `received_part` records. -/
theorem received_count_per_sink {w0 w : World} (hf : Fresh w0) (hn : NoCreate w0) (hb : NoBatch w0)
    (hr : Reachable w0 w) (x : Nat) (hk : (w.dev x).kind = .sink) :
    (w.dev x).recvCount = countReceived w x := by
  have h := (reach_inv (I0 := CountInv) (I := CountInv) CountInv.step (fun _ h => h) CountInv.step
    (fun _ _ h => h) (hf.countInv hb) hn hf.2.2.1 hr).2 x
  rw [key_dev] at h
  exact h hk

/-! ### 3. buffers: last `level` record = level -/

/-- **last_level**, closed world (the invariant `C15.LevelInv`): in every reachable state the last
`level` record of every device is its level; a device without such a record has level 0. -/
theorem last_level_reachable {w0 w : World} (hf : Fresh w0) (hn : NoCreate w0)
    (hr : Reachable w0 w) : LevelInv w := by
  intro x
  have := reach_inv (I0 := LevelInvK) (I := LevelInvK) LevelInvK.step (fun _ h => h) LevelInvK.step
    (fun _ _ h => h) hf.levelInv hn hf.2.2.1 hr x
  rw [key_dev] at this
  exact this

/-- The same, spelled out for a buffer. -/
theorem last_level_buffer {w0 w : World} (hf : Fresh w0) (hn : NoCreate w0) (hr : Reachable w0 w)
    (x : Nat) :
    (∀ n, lastLevel w.recs x = some n → n = (w.dev x).level) ∧
    (lastLevel w.recs x = none → (w.dev x).level = 0) := by
  have h := last_level_reachable hf hn hr x
  constructor
  · intro n e; rw [e] at h; exact h
  · intro e; rw [e] at h; exact h.symm

theorem last_level_static (n : Nat) (w0 : World) (hf : Fresh w0) (hs : C02V.Static w0) :
    LevelInv (runLoop n w0.simulateInit) :=
  last_level_reachable hf (noCreate_of_static hs) (reachable_runLoop n w0)

/-! ### 4. resources: last `resource_update` record = pool -/

/-- **last_resource**, closed world: once the resource manager is initialised, every resource that
has a pool has a `resource_update` record, and the last one carries `(usage, capacity)`. -/
theorem last_resource_reachable {w0 w : World} (hf : Fresh w0) (hn : NoCreate w0)
    (hr : Reachable w0 w) (hi : w.rm.inited = true) (r : Nat) (hp : (w.rm.lookup r).isSome) :
    lastResUpdate w.recs r = some (w.rm.usage r, w.rm.capacity r) := by
  have h1 := (reach_inv (I0 := ResInv) (I := ResInv) ResInv.step (fun _ h => h) ResInv.step
    (fun _ _ h => h) hf.resInv hn hf.2.2.1 hr).2.1 hi r
  have h2 := (reach_inv (I0 := HasRecInv) (I := HasRecInv) HasRecInv.step (fun _ h => h)
    HasRecInv.step (fun _ _ h => h) hf.hasRecInv hn hf.2.2.1 hr).2 hi r hp
  have e := usage_congr (a := rmOf (key w)) (b := w.rm) rfl r
  rw [e.1, e.2] at h1
  change (lastResUpdate w.recs r).getD (0, 0) = _ at h1
  change (lastResUpdate w.recs r).isSome at h2
  cases e' : lastResUpdate w.recs r with
  | none => rw [e'] at h2; cases h2
  | some v => rw [e'] at h1; exact congrArg some h1

/-- The hypothesis `w.rm.inited = true` holds in every state reachable from a world that had not
been started: `simulate` initialises the manager and nothing ever resets it. -/
theorem rm_inited_reachable {w0 w : World} (hf : Fresh w0) (hn : NoCreate w0)
    (hs : w0.started = false) (hr : Reachable w0 w) : w.rm.inited = true := by
  obtain ⟨_, h2, _⟩ := reach_key hn hf.2.2.1 hr
  exact KRun.preserve (I := fun k => k.rmInited = true) (fun h hi => inited_step h hi)
    (fun _ _ h => h) h2 (simulateInit_inited w0 hs)

/-- A resource without any record has an empty pool (usage = capacity = 0). -/
theorem no_record_no_pool {w0 w : World} (hf : Fresh w0) (hn : NoCreate w0) (hr : Reachable w0 w)
    (hi : w.rm.inited = true) (r : Nat) (h : lastResUpdate w.recs r = none) :
    w.rm.usage r = 0 ∧ w.rm.capacity r = 0 := by
  have h1 := (reach_inv (I0 := ResInv) (I := ResInv) ResInv.step (fun _ h => h) ResInv.step
    (fun _ _ h => h) hf.resInv hn hf.2.2.1 hr).2.1 hi r
  have e := usage_congr (a := rmOf (key w)) (b := w.rm) rfl r
  rw [e.1, e.2] at h1
  change (lastResUpdate w.recs r).getD (0, 0) = _ at h1
  rw [h] at h1
  exact ⟨(congrArg Prod.fst h1).symm, (congrArg Prod.snd h1).symm⟩

/-- Before the resource manager is initialised there is no `resource_update` record, and the
names of the pools stay distinct. -/
theorem resource_silent_before_init {w0 w : World} (hf : Fresh w0) (hn : NoCreate w0)
    (hr : Reachable w0 w) :
    (w.rm.pools.map (·.1)).Nodup ∧ (w.rm.inited = false → ∀ r, lastResUpdate w.recs r = none) := by
  have h := reach_inv (I0 := ResInv) (I := ResInv) ResInv.step (fun _ h => h) ResInv.step
    (fun _ _ h => h) hf.resInv hn hf.2.2.1 hr
  exact ⟨h.1, h.2.2⟩

/-! ### 5. time stamps -/

/-- **records_stamped_now**: every record appended by a step of the event loop carries the clock
value of that step. -/
theorem records_stamped_now {w w' : World} {e : Event} (hn : NoCreate w) (h : w.step = some (e, w')) :
    w'.now = e.time ∧ ∃ l, w'.recs = w.recs ++ l ∧ ∀ r ∈ l, Rec.time r = w'.now := by
  obtain ⟨env', henv, rfl⟩ := step_cases h
  have hnow : env'.now = e.time := by
    obtain ⟨es, _, rfl⟩ := Env.step_some.mp henv
    rfl
  split
  · have hs := (KS_exec (ph := .run) ({ w with env := env' } : World) (Action.ofNat e.act)
      (hn.of_scripts rfl) (fun _ _ => ⟨rfl, fun _ => rfl⟩) (fun _ _ _ => rfl)).stamped
    obtain ⟨h1, l, h2, h3⟩ := hs
    have h1' : (({ w with env := env' } : World).exec (Action.ofNat e.act)).now = env'.now := h1
    refine ⟨h1'.trans hnow, l, h2, fun r hr => ?_⟩
    rw [h3 r hr]
    exact h1'.symm
  · exact ⟨hnow, [], by simp, by simp⟩

/-- Every function that runs inside an event stamps its records with the clock: the general form
for actions. -/
theorem exec_stamped (w : World) (a : Action) (hn : NoCreate w) :
    (w.exec a).now = w.now ∧ ∃ l, (w.exec a).recs = w.recs ++ l ∧ ∀ r ∈ l, Rec.time r = w.now :=
  (KS_exec (ph := .run) w a hn (fun _ _ => ⟨rfl, fun _ => rfl⟩) (fun _ _ _ => rfl)).stamped

/-- **The log is sorted by time** and lies in the past, in every reachable state; the queue
invariant of C01 holds (so the clock never goes back). -/
theorem log_sorted_reachable {w0 w : World} (hf : Fresh w0) (he : C01.Inv w0.env) (hn : NoCreate w0)
    (hr : Reachable w0 w) :
    C01.Inv w.env ∧ (∀ r ∈ w.recs, Rec.time r ≤ w.now) ∧
    w.recs.Pairwise (fun a b => Rec.time a ≤ Rec.time b) := by
  obtain ⟨h1, h2, _⟩ := reach_key hn hf.2.2.1 hr
  exact TimeInv.run h2 (TimeInv.step h1 (hf.timeInv he))

/-- The clock of a reachable state is not before the clock of the fresh world. -/
theorem clock_mono_step {w0 w w' : World} {e : Event} (hf : Fresh w0) (he : C01.Inv w0.env)
    (hn : NoCreate w0) (hr : Reachable w0 w) (h : w.step = some (e, w')) : w.now ≤ w'.now := by
  have hI := (log_sorted_reachable hf he hn hr).1
  obtain ⟨env', henv, _⟩ := step_cases h
  have := (records_stamped_now (noCreate_reachable hf hn hr) h).1
  rw [this]
  exact ((C01.step_clock hI henv).1 ▸ (C01.step_clock hI henv).2)

/-! ### the hypothesis `NoCreate` is needed

A constructor call issued by a script may create a device with arbitrary field values (the model's
`Op.create` takes a whole `Dev`): the invariants are about devices as the library's constructors
make them. -/

/-- A script that creates, at time 1, a "source" whose counter already shows 5. -/
def cexCreate : World :=
  (({ scripts := [[.create (.dev { kind := .source, produced := 5, maxParts := some 0 })]] } : World).applyOp
    (.sched 1 0 0 pOtherLow)).1

/-- `supplied_count_reachable` is false without `NoCreate`. -/
theorem supplied_count_create_false :
    Fresh cexCreate ∧ ¬ NoCreate cexCreate ∧
    Reachable cexCreate (runLoop 50 (cexCreate.simulateInit.runBegin 5).1) ∧
    ((runLoop 50 (cexCreate.simulateInit.runBegin 5).1).dev 0).produced = 5 ∧
    countSupplied (runLoop 50 (cexCreate.simulateInit.runBegin 5).1) 0 = 0 :=
  ⟨by decide, by decide, reachable_simulate 50 5 cexCreate, by decide +kernel, by decide +kernel⟩

/-! ### the hypothesis `NoBatch` of `received_count_per_sink` is needed -/

/-- A source that generates batches of two parts, in front of a sink. -/
def cexBatch : World :=
  let w : World := {}
  let w := w.addAsset (.dev { kind := .source, cycle := 2, maxParts := some 2, genBatch := 2, genValue := 1 })
  w.addAsset (.dev { kind := .sink, up := [0] })

/-- With batches the sink counts 4 parts in 2 `received_part` records (the general statement
`received_count_reachable` holds: 4 leaf parts delivered). -/
theorem received_count_per_sink_batch_false :
    Fresh cexBatch ∧ NoCreate cexBatch ∧ ¬ NoBatch cexBatch ∧
    ((runLoop 100 (cexBatch.simulateInit.runBegin 10).1).dev 1).kind = .sink ∧
    ((runLoop 100 (cexBatch.simulateInit.runBegin 10).1).dev 1).recvCount = 4 ∧
    countReceived (runLoop 100 (cexBatch.simulateInit.runBegin 10).1) 1 = 2 ∧
    (runLoop 100 (cexBatch.simulateInit.runBegin 10).1).delivered.length = 4 :=
  ⟨by decide, by decide, by decide, by decide +kernel, by decide +kernel, by decide +kernel,
   by decide +kernel⟩

/-! ### non-vacuity -/

/-- A small line: a source (3 parts of value 5, one every 2 time units) → a buffer (capacity 2,
delay 1) → a processor (cycle 3, needs one unit of resource 0, adds value 4) → a sink; a resource
manager with one pool; a maintainer and a maintenance target; a script that issues a work order at
time 1. -/
def exW : World :=
  let w : World := { rm := { pools := [(0, 0, 1)] }, targets := [{ params := [(1, 2, 0, 7)] }],
                     scripts := [[.workOrder 0 0 1 0]] }
  let w := w.addAsset (.dev { kind := .source, cycle := 2, maxParts := some 3, genValue := 5 })
  let w := w.addAsset (.dev { kind := .buffer, up := [0], cap := some 2, delay := 1 })
  let w := w.addAsset (.dev { kind := .processor, up := [1], cycle := 3, resReq := some [(0, 1)],
                              finCbs := [{ addValue := 4 }] })
  let w := w.addAsset (.dev { kind := .sink, up := [2] })
  let w := w.addAsset (.maint none 100)
  (w.applyOp (.sched 1 0 0 pOtherLow)).1

/-- `System.simulate(20)` on it. -/
def exR : World := runLoop 200 (exW.simulateInit.runBegin 20).1

/-- The hypotheses hold … -/
example : Fresh exW ∧ NoCreate exW := by decide
example : Reachable exW exR := reachable_simulate 200 20 exW
example : C01.Inv exW.env := by
  have : exW.env =
      (({} : Env).applyAll Arith.exact [.sched 1 0 (Action.script 0).toNat pOtherLow 0]).1 := rfl
  rw [this]; exact C01.inv_reachable _ _

/-- … the run completes and writes 27 records … -/
example : exR.error = none ∧ exR.now = 20 ∧ exR.recs.length = 27 := by decide +kernel

/-- … and the conclusions are about non-trivial data: three parts supplied, … -/
example : (exR.dev 0).produced = 3 ∧ countSupplied exR 0 = 3 := by decide +kernel
/-- … three received by the sink with total value 27 (5 + 4 each), … -/
example : (exR.dev 3).recvCount = 3 ∧ exR.delivered = [0, 1, 2] ∧ (exR.dev 3).recvValue = 27 ∧
    receivedValue exR 3 = 27 := by decide +kernel
/-- … (no batches in this line: the per-sink count applies) … -/
example : NoBatch exW ∧ countReceived exR 3 = 3 := by decide +kernel
/-- … the buffer filled up to 2 and is empty again, six `level` records, … -/
example : lastLevel exR.recs 1 = some 0 ∧ (exR.dev 1).level = 0 ∧
    (exR.recs.filter isLevel).length = 6 := by decide +kernel
/-- … the pool was taken and given back (3 `resource_update` records). -/
example : exR.rm.inited = true ∧ (exR.rm.lookup 0).isSome ∧
    lastResUpdate exR.recs 0 = some (0, 1) ∧ exR.rm.usage 0 = 0 ∧ exR.rm.capacity 0 = 1 := by
  decide +kernel

/-- In the middle of the run (after 12 steps) the buffer holds parts and the pool is in use: the
invariants are about such states, too. -/
example : Reachable exW (runLoop 12 (exW.simulateInit.runBegin 20).1) := reachable_simulate 12 20 exW
example : lastLevel (runLoop 12 (exW.simulateInit.runBegin 20).1).recs 1 = some 2 ∧
    ((runLoop 12 (exW.simulateInit.runBegin 20).1).dev 1).level = 2 ∧
    lastResUpdate (runLoop 12 (exW.simulateInit.runBegin 20).1).recs 0 = some (1, 1) ∧
    (runLoop 12 (exW.simulateInit.runBegin 20).1).rm.usage 0 = 1 := by decide +kernel

/-- The theorems applied to the example. -/
example : ∀ x, (exR.dev x).produced = countSupplied exR x :=
  supplied_count_reachable (by decide) (by decide) (reachable_simulate 200 20 exW)
example : LevelInv exR := last_level_reachable (by decide) (by decide) (reachable_simulate 200 20 exW)

/-- One step of the event loop: the clock moves to 1, the work-order records are stamped 1. -/
example : ∃ e w', (exW.simulateInit.runBegin 20).1.step = some (e, w') ∧ w'.now = 1 ∧
    w'.recs = [Rec.resUpdate 0 0 0 1, Rec.workOrder 0 0 1 0 1 0] := by
  refine ⟨_, _, rfl, ?_⟩
  decide +kernel

/-- `Static` worlds (C02) satisfy `NoCreate`. -/
example : NoCreate C02.exLine := noCreate_of_static C02.static_exLine

end C15W
end SimProc
