/-
C14W — reproducibility and run splitting at the level of the whole closed world.

C14 (informal): a simulation is a deterministic function of the model and the seed; running for
`d1` and then for `d2` gives exactly the same final state, records and results as running once for
`d1 + d2`; the outcome depends on the tie-break weights only through the order of events due at
the same instant with the same priority.

`Props/C14Split.lean` proves the split for an ABSTRACT system whose actions return lists of queue
operations; `Props/C01W.lean` proves that every world function acts on the queue only through
library operations.  Here the two are joined, by a relational-parametricity argument
(`Proofs/C14W*.lean`):

0. `exec_queue_blind` — the action of an event does not look at the queue: replacing the pending
   and paused events, the uid counter, the terminated flag and the weight key of a world (keeping
   its clock) changes nothing in the rest of the result.  Unconditional.
   `exec_parametric` — every relation `Q` between queues that is preserved by the library
   operations (`Cong Q`) is preserved by the action of every event, in every world that satisfies
   the closed-world invariant `C01W.Good`.
1. `world_run_split` — from a world between runs, `run(d1); run(d2)` and `run(d1 + d2)` end in
   worlds that are equal in every field except the queue, and whose queues have the same clock,
   terminated flag, pending and paused events up to uids (`SameUpToUids`).
2. `uid_irrelevant` — worlds that are equal up to the numbering of their events take the same
   steps and stay equal up to the numbering; `uid_renumbering` — with an explicit renumbering `ρ`
   (any function, in particular an order-preserving one), the SAME `ρ` relates the successors.
3. `weights_only_break_ties` — two worlds that differ only in the tie-break weights (seed, `wmod`,
   the weights and hence the order of ties in the queue) pop the same event whenever that event is
   alone in its (time, priority) class, and again differ only in the weights afterwards.
-/
import SimProc.Proofs.C14WSteps
import SimProc.Props.C01W

namespace SimProc
namespace C14W
open World C01W

/-! ### 0. the queue is a parameter -/

/-- **The action of an event is blind to the queue.**  Replace the queue of `w` by any queue `e`
with the same clock, and the weight key by any `(s, m)`: the result of the action is the same in
every other field. -/
theorem exec_queue_blind (w : World) (e : Env) (s m : Nat) (a : Action) (hn : e.now = w.env.now) :
    ({ (({ w with env := e, seed := s, wmod := m } : World).exec a) with
        env := {}, seed := 0, wmod := 0 } : World) =
      { (w.exec a) with env := {}, seed := 0, wmod := 0 } := by
  have h1 : ({ w with env := e, seed := s, wmod := m } : World) = sw w ⟨e, s, m⟩ :=
    Same.eq_sw (w := w) (w2 := { w with env := e, seed := s, wmod := m }) rfl hn
  rw [h1, (bl_exec a).eq]
  rfl

/-- … and the weight key of a world never changes. -/
theorem exec_seed (w : World) (a : Action) : (w.exec a).seed = w.seed ∧ (w.exec a).wmod = w.wmod := by
  have h := (bl_exec a).eq w ⟨w.env, w.seed, w.wmod⟩
  rw [sw_self] at h
  exact ⟨by rw [h]; rfl, by rw [h]; rfl⟩

/-- **Relational parametricity in the queue.**  Let `Q` be a relation between event queues that is
preserved by the library operations (`Cong`: `.sched` of a non-terminate action above the
`TERMINATE` priority — with the weights of key `(s1, m1)` on the left and `(s2, m2)` on the right
—, `.pause` / `.unpause` / `.cancel` of an asset id other than −1).  If two worlds agree on
everything but the queue and the weight key (`Same`), have the same clock and `Q`-related queues,
then so do the results of the action of any event. -/
theorem exec_parametric {Q : Env → Env → Prop} {s1 m1 s2 m2 : Nat} (hQ : Cong Q s1 m1 s2 m2)
    {w w2 : World} (a : Action) (hsame : Same w w2) (hn : w2.env.now = w.env.now) (g : Good w)
    (hs1 : w.seed = s1) (hm1 : w.wmod = m1) (hs2 : w2.seed = s2) (hm2 : w2.wmod = m2)
    (hq : Q w.env w2.env) :
    Same (w.exec a) (w2.exec a) ∧ Good (w.exec a) ∧ Q (w.exec a).env (w2.exec a).env := by
  obtain ⟨r1, r2, _, _, _, _, r7⟩ := par_fun (fun v => v.exec a) (bl_exec a)
    (fun hpp => pp_exec hQ hpp a) hsame hn g hs1 hm1 hs2 hm2 hq
  exact ⟨r1, r2, r7⟩

/-- What `Same` says: every field except the queue and the weight key. -/
theorem same_iff (w w2 : World) :
    Same w w2 ↔ ({ w with env := {}, seed := 0, wmod := 0 } : World) =
      { w2 with env := {}, seed := 0, wmod := 0 } := by
  constructor
  · intro h; unfold Same at h; rw [h]
  · intro h
    unfold Same
    have : w2 = { ({ w2 with env := {}, seed := 0, wmod := 0 } : World) with
        env := w2.env, seed := w2.seed, wmod := w2.wmod } := rfl
    rw [this, ← h]

/-! ### 1. a run can be split -/

/-- `RunsTo w w'` is `runLoop` with enough fuel: from some fuel on, `runLoop n w = w'`. -/
theorem runsTo_runLoop {w w' : World} (h : RunsTo w w') : ∃ n0, ∀ n, n0 ≤ n → runLoop n w = w' := by
  induction h with
  | @done w hr =>
    refine ⟨1, fun n hn => ?_⟩
    obtain ⟨k, rfl⟩ : ∃ k, n = k + 1 := ⟨n - 1, by omega⟩
    rw [runLoop]; simp [hr]
  | @step w w1 w' e hr hs _ ih =>
    obtain ⟨n0, h0⟩ := ih
    refine ⟨n0 + 1, fun n hn => ?_⟩
    obtain ⟨k, rfl⟩ : ∃ k, n = k + 1 := ⟨n - 1, by omega⟩
    rw [runLoop]; simp only [hr, if_true, hs]
    exact h0 k (by omega)

/-- Conversely `runLoop` either carries the run through or sets the error flag (`"fuel"`, if
nothing went wrong before). -/
theorem runLoop_runsTo_or_error (n : Nat) (w : World) :
    RunsTo w (runLoop n w) ∨ (runLoop n w).error.isSome = true := runLoop_runsTo n w

/-- **A run of the closed world can be split** (`RunsTo`: each loop is carried through).  Let `w`
satisfy the closed-world invariant and the queue invariant, with no terminate event pending
(`C01.UserState`: the state between runs — all three hold in every `C01W.ReachI` world).  Then

  `runBegin d1; loop; runBegin d2; loop`   and   `runBegin (d1 + d2); loop`

end in worlds `wb`, `wc` with `SameUpToUids wc wb`: every field other than the queue is equal
(devices, parts, resource manager, maintainers, schedulers, sensors, records, results, error flag,
ghost logs, weight key, …) and the queues have the same clock, the same terminated flag and the
same pending and paused events up to their uids (the split execution has created one more
terminate event, which shifts the numbering). -/
theorem world_run_split {w w1 wa w2 wb w3 wc : World} {d1 d2 : Int} (g : Good w)
    (hi : C01.Inv w.env) (hu : C01.UserState w.env)
    (hb1 : w.runBegin d1 = (w1, .ok)) (hr1 : RunsTo w1 wa)
    (hb2 : wa.runBegin d2 = (w2, .ok)) (hr2 : RunsTo w2 wb)
    (hb3 : w.runBegin (d1 + d2) = (w3, .ok)) (hr3 : RunsTo w3 wc) :
    SameUpToUids wc wb :=
  world_run_split_runsTo g hi hu hb1 hr1 hb2 hr2 hb3 hr3

/-- The same with `runLoop` and explicit fuel: if none of the three loops reports an error (in
particular the fuel did not run out), the final worlds are equal up to uids. -/
theorem world_run_split_fuel {w : World} {d1 d2 : Int} (n1 n2 n : Nat) (g : Good w)
    (hi : C01.Inv w.env) (hu : C01.UserState w.env) (h1 : 0 ≤ d1) (h2 : 0 ≤ d2)
    (e1 : (runLoop n1 (w.runBegin d1).1).error = none)
    (e2 : (runLoop n2 ((runLoop n1 (w.runBegin d1).1).runBegin d2).1).error = none)
    (e3 : (runLoop n (w.runBegin (d1 + d2)).1).error = none) :
    SameUpToUids (runLoop n (w.runBegin (d1 + d2)).1)
      (runLoop n2 ((runLoop n1 (w.runBegin d1).1).runBegin d2).1) := by
  have ok : ∀ (v : World) (d : Int), 0 ≤ d → v.runBegin d = ((v.runBegin d).1, .ok) :=
    fun v d hd => Prod.ext rfl ((runBegin_ok_iff v d).mpr hd)
  have rt : ∀ (k : Nat) (v : World), (runLoop k v).error = none → RunsTo v (runLoop k v) := by
    intro k v he
    rcases runLoop_runsTo k v with h | h
    · exact h
    · rw [he] at h; cases h
  exact world_run_split g hi hu (ok w d1 h1) (rt _ _ e1) (ok _ d2 h2) (rt _ _ e2)
    (ok w (d1 + d2) (by omega)) (rt _ _ e3)

/-- In every world reached with completed runs only (`C01W.ReachI`). -/
theorem world_run_split_reach {w w1 wa w2 wb w3 wc : World} {h : List Event} {d1 d2 : Int}
    (hr : ReachI w h)
    (hb1 : w.runBegin d1 = (w1, .ok)) (hr1 : RunsTo w1 wa)
    (hb2 : wa.runBegin d2 = (w2, .ok)) (hr2 : RunsTo w2 wb)
    (hb3 : w.runBegin (d1 + d2) = (w3, .ok)) (hr3 : RunsTo w3 wc) :
    SameUpToUids wc wb :=
  world_run_split (good_reachable (reachI_reach hr).1) (envInv_reachable (reachI_reach hr).1).1
    (reachI_reach hr).2 hb1 hr1 hb2 hr2 hb3 hr3

/-! ### 2. uids are only names -/

/-- **The world never inspects uids.**  Two worlds that are equal up to the numbering of their
events pop the same event (up to its uid) and are equal up to the numbering afterwards. -/
theorem uid_irrelevant {w w2 w' : World} {e : Event} (g : Good w) (h : SameUpToUids w w2)
    (hs : w.step = some (e, w')) :
    ∃ e2 w2', w2.step = some (e2, w2') ∧ C14.noUid e2 = C14.noUid e ∧ SameUpToUids w' w2' ∧
      Good w' := uid_step g h hs

/-- … and one stops exactly when the other does. -/
theorem uid_irrelevant_none {w w2 : World} (h : SameUpToUids w w2) (hs : w.step = none) :
    w2.step = none := uid_step_none h hs

/-- The same for the action of an event, for `runBegin` and for the run loop. -/
theorem uid_irrelevant_exec {w w2 : World} (g : Good w) (h : SameUpToUids w w2) (a : Action) :
    SameUpToUids (w.exec a) (w2.exec a) := uid_exec g h a

theorem uid_irrelevant_run {w w2 : World} (g : Good w) (h : SameUpToUids w w2) (d : Int) (n : Nat) :
    SameUpToUids (runLoop n (w.runBegin d).1) (runLoop n (w2.runBegin d).1) ∧
      (w.runBegin d).2 = (w2.runBegin d).2 :=
  ⟨uid_runLoop n (runBegin_good w d g) (uid_runBegin h d).1, (uid_runBegin h d).2⟩

/-- **Renumbering commutes with the step**: if the queue of `w2` is the queue of `w` with every uid
`u` replaced by `ρ u` (and `ρ` maps the fresh uids of `w` to the fresh uids of `w2`), then `w2` pops
the renumbered event and its successor is the successor of `w` renumbered by the same `ρ`.  No
property of `ρ` is used — in particular it holds for every order-preserving renumbering. -/
theorem uid_renumbering {ρ : Nat → Nat} {w w2 w' : World} {e : Event} (g : Good w)
    (h : Renumbered ρ w w2) (hs : w.step = some (e, w')) :
    ∃ w2', w2.step = some (reuid ρ e, w2') ∧ Renumbered ρ w' w2' ∧ Good w' := renum_step g h hs

/-- A renumbered world is equal up to uids. -/
theorem renumbered_sameUpToUids {ρ : Nat → Nat} {w w2 : World} (h : Renumbered ρ w w2) :
    SameUpToUids w w2 := by
  obtain ⟨hr, hn, ht, he, hp, _⟩ := h
  refine ⟨hr, hn, ht, ?_, ?_⟩
  · rw [he, List.map_map]; rfl
  · rw [hp, List.map_map]; rfl

/-! ### 3. the weights only break ties -/

/-- **The weights only break ties.**  `w` and `w2` differ only in the tie-break weights: another
seed or `wmod`, other weights on the pending and paused events and therefore possibly another order
of the events of one (time, priority) class in the queue (`SameUpToWeights`; both queues sorted:
`C01.Inv`, which holds in every reachable world).  If the event `e` popped by `w` is alone in its
(time, priority) class among the pending events of `w` (cancelled ones included — they are popped
too), then `w2` pops the same event (`nw e2 = nw e`: same uid, time, priority, asset, action,
flags) and the successors again differ only in the weights. -/
theorem weights_only_break_ties {w w2 w' : World} {e : Event} (g : Good w) (hi : C01.Inv w.env)
    (hi2 : C01.Inv w2.env) (h : SameUpToWeights w w2) (hs : w.step = some (e, w'))
    (hsingle : ∀ e' ∈ w.env.events, e'.time = e.time → e'.prio = e.prio → e'.uid = e.uid) :
    ∃ e2 w2', w2.step = some (e2, w2') ∧ nw e2 = nw e ∧ SameUpToWeights w' w2' ∧ Good w' :=
  weights_step g hi hi2 h hs hsingle

/-- The underlying fact about the queue alone (with `C01.step_min`: the popped event is a minimum
of the dispatch order): a head that is strictly before every other pending event in (time,
priority) is the head of every sorted queue holding the same events up to weights. -/
theorem head_independent_of_weights {x y : Env} (h : WtRel x y) (hiy : C01.Inv y) {e : Event}
    {es : List Event} (hev : x.events = e :: es)
    (hu : ∀ e' ∈ es, e.time < e'.time ∨ (e.time = e'.time ∧ e'.prio < e.prio)) :
    ∃ e2 es2, y.events = e2 :: es2 ∧ nw e2 = nw e := by
  obtain ⟨e2, es2, h1, h2, _⟩ := wt_head h hiy.sorted hev hu
  exact ⟨e2, es2, h1, h2⟩

/-! ### what the relations give, field by field -/

theorem SameUpToUids.recs {w w2 : World} (h : SameUpToUids w w2) : w.recs = w2.recs := by
  have h1 := congrArg World.recs h.rest
  exact h1
theorem SameUpToUids.results {w w2 : World} (h : SameUpToUids w w2) : w.results = w2.results := by
  have h1 := congrArg World.results h.rest
  exact h1
theorem SameUpToUids.error {w w2 : World} (h : SameUpToUids w w2) : w.error = w2.error := by
  have h1 := congrArg World.error h.rest
  exact h1
theorem SameUpToUids.devs {w w2 : World} (h : SameUpToUids w w2) : w.devs = w2.devs := by
  have h1 := congrArg World.devs h.rest
  exact h1
theorem SameUpToUids.parts {w w2 : World} (h : SameUpToUids w w2) : w.parts = w2.parts := by
  have h1 := congrArg World.parts h.rest
  exact h1
theorem SameUpToUids.rm {w w2 : World} (h : SameUpToUids w w2) : w.rm = w2.rm := by
  have h1 := congrArg World.rm h.rest
  exact h1
theorem SameUpToUids.now {w w2 : World} (h : SameUpToUids w w2) : w.now = w2.now := h.env.1
theorem SameUpToUids.pending {w w2 : World} (h : SameUpToUids w w2) :
    w.env.events.map C14.noUid = w2.env.events.map C14.noUid := h.env.2.2.1

theorem SameUpToWeights.recs {w w2 : World} (h : SameUpToWeights w w2) : w.recs = w2.recs := by
  have h1 := congrArg World.recs h.rest
  exact h1
theorem SameUpToWeights.results {w w2 : World} (h : SameUpToWeights w w2) :
    w.results = w2.results := by
  have h1 := congrArg World.results h.rest
  exact h1

theorem exec_queue_blind_recs (w : World) (e : Env) (s m : Nat) (a : Action)
    (hn : e.now = w.env.now) :
    (({ w with env := e, seed := s, wmod := m } : World).exec a).recs = (w.exec a).recs := by
  have h1 := congrArg World.recs (exec_queue_blind w e s m a hn)
  exact h1

/-- Shift every uid of a world by `c`. -/
def shiftUids (c : Nat) (w : World) : World :=
  { w with env := { w.env with events := w.env.events.map (reuid (· + c)),
                               paused := w.env.paused.map (reuid (· + c)),
                               nextUid := w.env.nextUid + c } }

theorem renumbered_shift (c : Nat) (w : World) : Renumbered (· + c) w (shiftUids c w) :=
  ⟨rfl, rfl, rfl, rfl, rfl, fun k => by show w.env.nextUid + k + c = w.env.nextUid + c + k; omega⟩

/-- The same world under another weight key. -/
def rekey (s m : Nat) (w : World) : World := { w with seed := s, wmod := m }

theorem rekey_env (s m : Nat) (w : World) : (rekey s m w).env = w.env := rfl

theorem sameUpToWeights_rekey (w : World) (s m : Nat) : SameUpToWeights w (rekey s m w) :=
  ⟨rfl, rfl, rfl, rfl, List.Perm.refl _, List.Perm.refl _⟩

/-! ### non-vacuity -/

/-- The line of `C01W.ex1` (source → processor → sink, a scripted failure of the machine),
initialised: a world between runs. -/
def exW : World := ex1.simulateInit

theorem reachI_exW : ReachI exW [] := reachI_ex1.simulateInit

-- the relations of the three theorems are preserved by the library operations
example : Cong C14.EnvEq 0 0 0 0 := cong_envEq 0 0
example : Cong (Renum (· + 10)) 0 0 0 0 := cong_renum _ 0 0
example : Cong WtRel 0 0 3 7 := cong_wtRel 0 0 3 7
example : Cong (SplitRel 6 2 6 9) 0 0 0 0 := cong_splitRel 6 2 6 9 0 0

-- 0. replacing the queue of `exW` by the empty queue (same clock) and the weight key by (3, 7)
-- does not change what the source's finish-cycle action does to the rest of the world
example : ((({ exW with env := {}, seed := 3, wmod := 7 } : World).exec (.finishCycle 0)).devs.map
      (·.output)) = ((exW.exec (.finishCycle 0)).devs.map (·.output)) ∧
    (exW.exec (.finishCycle 0)).devs.map (·.output) = [some 0, none, none] := by decide

example : (({ exW with env := {}, seed := 3, wmod := 7 } : World).exec (.finishCycle 0)).recs =
    (exW.exec (.finishCycle 0)).recs :=
  exec_queue_blind_recs exW {} 3 7 (.finishCycle 0) (by decide)

-- 1. `run(2); run(4)` against `run(6)`: the hypotheses hold …
theorem exW_split : SameUpToUids (runLoop 100 (exW.runBegin (2 + 4)).1)
    (runLoop 100 ((runLoop 100 (exW.runBegin 2).1).runBegin 4).1) :=
  world_run_split_fuel 100 100 100 (good_reachable (reachI_reach reachI_exW).1)
    (envInv_reachable (reachI_reach reachI_exW).1).1 (reachI_reach reachI_exW).2
    (by decide) (by decide) (by decide) (by decide) (by decide)

-- … and the conclusion is not trivial: both executions end at time 6 with two pending events,
-- which carry different uids (the split execution has created one more terminate event); seven
-- records have been written
example :
    (runLoop 100 (exW.runBegin (2 + 4)).1).env.events.map (fun e => (e.uid, e.time, e.act)) =
      [(11, 7, 2), (10, 8, 18)] ∧
    (runLoop 100 ((runLoop 100 (exW.runBegin 2).1).runBegin 4).1).env.events.map
      (fun e => (e.uid, e.time, e.act)) = [(12, 7, 2), (11, 8, 18)] ∧
    (runLoop 100 (exW.runBegin (2 + 4)).1).now = 6 ∧
    (runLoop 100 (exW.runBegin (2 + 4)).1).recs.length = 7 := by decide

-- what `SameUpToUids` gives, e.g. the records and the results of the two executions
example : (runLoop 100 (exW.runBegin (2 + 4)).1).recs =
      (runLoop 100 ((runLoop 100 (exW.runBegin 2).1).runBegin 4).1).recs ∧
    (runLoop 100 (exW.runBegin (2 + 4)).1).results =
      (runLoop 100 ((runLoop 100 (exW.runBegin 2).1).runBegin 4).1).results :=
  ⟨exW_split.recs, exW_split.results⟩

/-- **Why `RunsTo` / `error = none` and not just `terminated = true`** (the hypothesis of the
abstract `C14.run_split`): with exactly as much fuel as the run has iterations, `runLoop` completes
the run (`terminated = true`) AND reports `"fuel"` — `runLoop 0` sets the error before it looks at
the loop condition — so the error flags of two completed executions can differ.  The statement
"if the three loops end with `terminated = true`, the final worlds are equal up to uids" is
false: -/
theorem world_run_split_terminated_false :
    ¬ ∀ n1 n2 n : Nat,
      (runLoop n1 (exW.runBegin 2).1).env.terminated = true →
      (runLoop n2 ((runLoop n1 (exW.runBegin 2).1).runBegin 4).1).env.terminated = true →
      (runLoop n (exW.runBegin (2 + 4)).1).env.terminated = true →
      SameUpToUids (runLoop n (exW.runBegin (2 + 4)).1)
        (runLoop n2 ((runLoop n1 (exW.runBegin 2).1).runBegin 4).1) := by
  intro h
  have h1 := (h 100 100 10 (by decide) (by decide) (by decide)).error
  revert h1
  decide

-- `RunsTo` is `runLoop` with enough fuel
example : RunsTo (exW.runBegin 6).1 (runLoop 100 (exW.runBegin 6).1) :=
  (runLoop_runsTo_or_error 100 _).resolve_right (by decide)

-- 2. the same world with every uid shifted by 10
def exW10 : World := shiftUids 10 exW

theorem renumbered_exW : Renumbered (· + 10) exW exW10 := renumbered_shift 10 exW

example : exW.env.events.map (·.uid) = [1, 0] ∧ exW10.env.events.map (·.uid) = [11, 10] := by decide

-- the step of the renumbered world pops the renumbered event (uid 11 instead of 1)
example : ∃ e w' w2', exW.step = some (e, w') ∧ exW10.step = some (reuid (· + 10) e, w2') ∧
    Renumbered (· + 10) w' w2' ∧ e.uid = 1 := by
  have hu : exW.step.map (·.1.uid) = some 1 := by decide
  cases hs : exW.step with
  | none => rw [hs] at hu; cases hu
  | some q =>
    obtain ⟨e, w'⟩ := q
    rw [hs] at hu
    obtain ⟨w2', h1, h2, _⟩ :=
      uid_renumbering (good_reachable (reachI_reach reachI_exW).1) renumbered_exW hs
    exact ⟨e, w', w2', rfl, h1, h2, by simpa using hu⟩

-- 3. the same world under another weight key
def exV : World := rekey 3 7 exW

theorem sameUpToWeights_exW : SameUpToWeights exW exV := sameUpToWeights_rekey exW 3 7

-- the first event (uid 1, time 2, FINISH) is alone in its class: both worlds pop it …
example : ∃ e w' e2 w2', exW.step = some (e, w') ∧ exV.step = some (e2, w2') ∧ nw e2 = nw e ∧
    SameUpToWeights w' w2' ∧ e.uid = 1 := by
  have hu : exW.step.map (·.1.uid) = some 1 := by decide
  have hi := (envInv_reachable (reachI_reach reachI_exW).1).1
  have hi2 : C01.Inv exV.env := by
    rw [show exV.env = exW.env from rekey_env 3 7 exW]; exact hi
  cases hs : exW.step with
  | none => rw [hs] at hu; cases hu
  | some q =>
    obtain ⟨e, w'⟩ := q
    rw [hs] at hu
    have hu' : e.uid = 1 := by simpa using hu
    have hsingle : ∀ e' ∈ exW.env.events, e'.time = e.time → e'.prio = e.prio → e'.uid = e.uid := by
      have he : e ∈ exW.env.events := (dispatch_order_world (reachI_reach reachI_exW).1 hs).1
      have hall : ∀ a ∈ exW.env.events, ∀ b ∈ exW.env.events,
          a.time = b.time → a.prio = b.prio → a.uid = b.uid := by decide
      exact fun e' he' ht hp => hall e' he' e he ht hp
    obtain ⟨e2, w2', h1, h2, h3, _⟩ :=
      weights_only_break_ties (good_reachable (reachI_reach reachI_exW).1) hi hi2
        sameUpToWeights_exW hs hsingle
    exact ⟨e, w', e2, w2', rfl, h1, h2, h3, hu'⟩

-- … and from then on the two queues carry different weights
example : (stepN 1 exW).env.events.map (fun e => (e.uid, e.weight)) = [(2, 0), (0, 0)] ∧
    (stepN 1 exV).env.events.map (fun e => (e.uid, e.weight)) = [(2, 1), (0, 0)] := by
  decide

/-- Two sources with the same cycle time feeding one sink: their first finish events are due at the
same instant with the same priority. -/
def exTie (s m : Nat) : World :=
  (((({ seed := s, wmod := m } : World).addAsset (.dev { kind := .source, cycle := 2 })).addAsset
    (.dev { kind := .source, cycle := 2 })).addAsset (.dev { kind := .sink, up := [0, 1] })).simulateInit

-- the hypothesis of `weights_only_break_ties` cannot be dropped: here the class of the first event
-- has two members, the two weight keys order them differently, and the records differ
example :
    (exTie 0 0).env.events.map (fun e => (e.uid, e.time, e.prio, e.weight)) =
      [(0, 2, 32, 0), (1, 2, 32, 0)] ∧
    (exTie 3 7).env.events.map (fun e => (e.uid, e.time, e.prio, e.weight)) =
      [(1, 2, 32, 0), (0, 2, 32, 3)] ∧
    (runLoop 100 ((exTie 0 0).runBegin 3).1).recs ≠ (runLoop 100 ((exTie 3 7).runBegin 3).1).recs := by
  decide

end C14W
end SimProc
