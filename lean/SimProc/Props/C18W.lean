/-
C18W — action schedules follow their timetable, closed-world.

`Props/C18.lean` proves the timetable for the `Sched` component alone.  Here: the world glue
(`World.schedUpdate`, `initAsset (.sched s)`, the action `.schedUpdate s`, the scripted operations
`regObj` / `unregObj`) in EVERY state reachable (`Reachable`: `simulateInit`, then any sequence of
`step`, `runLoop n`, `runBegin d`, external scripted operations of the static class) from a fresh
world (`Fresh`) of the static class (`Static`), for every topology, parameter choice, script and
tie-break weight.

Static class: the asset ids of schedulers and sensors differ from 0 and from every device id, the
scripts (and the external operations) neither pause / resume / cancel those ids nor create assets,
durations and sensor intervals are not negative, every asset is registered once, scheduler /
sensor entries of the registry refer to existing schedulers / sensors.  Each condition is needed:
`pending_false_*` at the end.

1. `pending_transition` (C18W-1): as long as the schedule of a registered scheduler has not ended
   there is exactly one `.schedUpdate s` event — pending, not paused, not cancelled, carrying the
   scheduler's asset id — and it is due at `t0 + T tt K` (`K` = number of transitions so far);
   after the end of an acyclic schedule there is none; `cyclic_never_ends`.
2. `records_timetable_prefix` (C18W-2): the `.schedUpdate s` records are exactly the first `K`
   entries `(t0 + T tt k, state k)` of the timetable run started at the initialisation time.
3. `transition_step`, `no_acts_elsewhere`, `ops_no_acts`, `init_acts`, `acts_reachable` (C18W-3):
   an executed transition appends exactly one `.act s obj now state override` per object
   registered at that moment, in registration order; nothing else appends `.act` results; in every
   reachable state the `.act` results are one such block per `.schedUpdate` record.
Machinery: `Proofs/C18W*.lean`, `Proofs/C19W{Inv,Global,Step}.lean`.
-/
import SimProc.Proofs.C19WStep

namespace SimProc
namespace C18W
open World FloorCoreL C19W

/-! ### vocabulary -/

/-- the pending `.schedUpdate s` events -/
def pendingEvents (w : World) (s : Nat) : List Event := w.env.events.filter (suEv s)
/-- the paused `.schedUpdate s` events -/
def pausedEvents (w : World) (s : Nat) : List Event := w.env.paused.filter (suEv s)
/-- the `.schedUpdate s` records: (time stamp, state), in order -/
def transitions (w : World) (s : Nat) : List (Int × Int) := schedLog w.recs s

/-- `C18.T` is monotone when no duration is negative. -/
theorem T_mono {tt : List (Int × Int)} (hd : ∀ p ∈ tt, 0 ≤ p.1) {k m : Nat} (h : k ≤ m) :
    C18.T tt k ≤ C18.T tt m := by
  induction m with
  | zero => have : k = 0 := by omega
            subst this; exact Int.le_refl _
  | succ m ih =>
    by_cases hk : k = m + 1
    · subst hk; exact Int.le_refl _
    · have := ih (by omega)
      have h2 := ttDur_nonneg hd m
      rw [T_succ]
      omega

/-! ### the invariant in every reachable state -/

theorem schedS_of_ss {a b : TK} (h : sstat b = sstat a) (s : Nat) :
    schedS (b.scheds.getD s default) = schedS (a.scheds.getD s default) := by
  have h1 : b.scheds.map schedS = a.scheds.map schedS := congrArg (·.1) h
  rw [← getD_map schedS, ← getD_map schedS, h1]

/-- Asset id, timetable and the cyclic flag of a scheduler never change. -/
theorem sched_static {w0 w : World} (hs : Static w0) (hf : Fresh w0) (hr : Reachable w0 w) (s : Nat) :
    (w.scheds.getD s default).aid = (w0.scheds.getD s default).aid ∧
    (w.scheds.getD s default).s.tt = (w0.scheds.getD s default).s.tt ∧
    (w.scheds.getD s default).s.cyc = (w0.scheds.getD s default).s.cyc ∧
    w.scheds.length = w0.scheds.length := by
  have h := wi_reachable hs hf hr
  have := schedS_of_ss h.ss s
  simp only [schedS, Prod.mk.injEq] at this
  exact ⟨this.1, this.2.1, this.2.2, (lengths_of_sstat h.ss).1⟩

/-- The scheduler invariant holds for every registered scheduler in every reachable state. -/
theorem si_reachable {w0 w : World} (hs : Static w0) (hf : Fresh w0) (hr : Reachable w0 w) {s : Nat}
    (hl : AssetRef.sched s ∈ w0.assets) : SI w0.now w.env (tk w) s := by
  have h := wi_reachable hs hf hr
  have hlt : s < w0.scheds.length := (refs_of_static hs).1 s hl
  exact (h.gi.sched s).1 ⟨by rw [(lengths_of_sstat h.ss).1]; exact hlt, hl⟩

/-- The queue invariant of C01 holds in every reachable state. -/
theorem queue_reachable {w0 w : World} (hs : Static w0) (hf : Fresh w0) (hr : Reachable w0 w) :
    C01.Inv w.env := (wi_reachable hs hf hr).inv

theorem transitions_tk (w : World) (s : Nat) : schedLog (tk w).recsT s = transitions w s :=
  schedLog_filter w.recs s

/-! ### C18W-1: the pending transition event -/

/-- **C18W-1.**  For every registered scheduler `s` in every reachable state, with `K` the number
of its transitions so far and `t0` the initialisation time:

* the schedule has not ended (`idx < tt.length`): exactly one event with action `.schedUpdate s`
  exists; it is pending (not paused), not cancelled, carries the asset id of the scheduler and
  priority `OTHER_HIGH`, and is due at `t0 + T tt K`, the time of the next transition — not before
  the clock;
* the schedule has ended (`tt.length ≤ idx`): no such event exists, pending or paused; all
  `tt.length` transitions have been made; the schedule is acyclic (or the timetable is empty). -/
theorem pending_transition {w0 w : World} (hs : Static w0) (hf : Fresh w0) (hr : Reachable w0 w)
    {s : Nat} (hl : AssetRef.sched s ∈ w0.assets) :
    ((w.scheds.getD s default).s.idx < (w.scheds.getD s default).s.tt.length →
      ∃ e, pendingEvents w s = [e] ∧ pausedEvents w s = [] ∧ e.cancelled = false ∧
        e.time = w0.now + C18.T (w.scheds.getD s default).s.tt (transitions w s).length ∧
        w.now ≤ e.time ∧ e.asset = (w.scheds.getD s default).aid ∧ e.prio = pOtherHigh) ∧
    ((w.scheds.getD s default).s.tt.length ≤ (w.scheds.getD s default).s.idx →
      pendingEvents w s = [] ∧ pausedEvents w s = [] ∧
      (transitions w s).length = (w.scheds.getD s default).s.tt.length ∧
      ((w.scheds.getD s default).s.cyc = false ∨ (w.scheds.getD s default).s.tt = [])) := by
  have hsi := si_reachable hs hf hr hl
  have hq := queue_reachable hs hf hr
  unfold SI at hsi
  rw [transitions_tk] at hsi
  constructor
  · intro hlt
    obtain ⟨_, _, _, ⟨e, h1, h2, h3, h4, h5⟩, h6⟩ := hsi.running hlt
    refine ⟨e, h1, h6, h3, h2, ?_, h4, h5⟩
    have hm : e ∈ w.env.events.filter (suEv s) := by
      rw [show w.env.events.filter (suEv s) = [e] from h1]; simp
    exact hq.future e (List.mem_filter.mp hm).1
  · intro hge
    obtain ⟨h1, h2, h3, _, h5⟩ := hsi.ended hge
    refine ⟨h1, h2, h3, ?_⟩
    rcases h5 with h5 | h5
    · exact Or.inl h5
    · exact Or.inr (List.length_eq_zero_iff.mp h5)

/-- A cyclic schedule (with a non-empty timetable) never ends: there is always exactly one pending
transition event. -/
theorem cyclic_never_ends {w0 w : World} (hs : Static w0) (hf : Fresh w0) (hr : Reachable w0 w)
    {s : Nat} (hl : AssetRef.sched s ∈ w0.assets) (hc : (w.scheds.getD s default).s.cyc = true)
    (hne : (w.scheds.getD s default).s.tt ≠ []) :
    (w.scheds.getD s default).s.idx < (w.scheds.getD s default).s.tt.length := by
  apply Nat.lt_of_not_le
  intro hge
  rcases ((pending_transition hs hf hr hl).2 hge).2.2.2 with h | h
  · rw [hc] at h; cases h
  · exact hne h

/-! ### C18W-2: the records are a prefix of the timetable -/

/-- **C18W-2.**  The `.schedUpdate s` records of a registered scheduler, in order, are exactly the
first `K` entries of the timetable run started at the initialisation time `t0`: the `k`-th record
is stamped `t0 + T tt k` (`C18.T`) and carries the state of timetable entry `k mod n`.  These are
the transitions that have been executed: all of them lie at or before the clock, the next one
(`pending_transition`) has not been executed and is not before the clock; a non-empty timetable
has made at least the initial transition, an acyclic one at most `n`; the scheduler's current state
is the state of the last record. -/
theorem records_timetable_prefix {w0 w : World} (hs : Static w0) (hf : Fresh w0)
    (hr : Reachable w0 w) {s : Nat} (hl : AssetRef.sched s ∈ w0.assets) :
    transitions w s = (List.range (transitions w s).length).map (fun k =>
      (w0.now + C18.T (w0.scheds.getD s default).s.tt k,
       ((w0.scheds.getD s default).s.tt.getD (k % (w0.scheds.getD s default).s.tt.length) (0, 0)).2)) ∧
    (∀ k, k < (transitions w s).length →
      w0.now + C18.T (w0.scheds.getD s default).s.tt k ≤ w.now) ∧
    ((w0.scheds.getD s default).s.tt ≠ [] → 1 ≤ (transitions w s).length) ∧
    ((w0.scheds.getD s default).s.cyc = false →
      (transitions w s).length ≤ (w0.scheds.getD s default).s.tt.length) ∧
    (1 ≤ (transitions w s).length → (w.scheds.getD s default).s.state =
      some ((w0.scheds.getD s default).s.tt.getD
        (((transitions w s).length - 1) % (w0.scheds.getD s default).s.tt.length) (0, 0)).2) := by
  have hsi := si_reachable hs hf hr hl
  obtain ⟨_, htt, hcy, _⟩ := sched_static hs hf hr s
  unfold SI at hsi
  rw [transitions_tk, show (tk w).scheds = w.scheds from rfl, htt, hcy] at hsi
  have hlt : s < w0.scheds.length := (refs_of_static hs).1 s hl
  have hd : ∀ p ∈ (w0.scheds.getD s default).s.tt, 0 ≤ p.1 := hs.dur _ (getD_mem _ _ hlt)
  refine ⟨hsi.log, ?_, ?_, ?_, fun hk => (hsi.last hk).1⟩
  · intro k hk
    have h1 := (hsi.last (by omega)).2
    have h2 := T_mono hd (show k ≤ (transitions w s).length - 1 by omega)
    show _ ≤ w.env.now
    omega
  · intro hne
    have hpos : 0 < (w0.scheds.getD s default).s.tt.length := List.length_pos_iff.mpr hne
    by_cases hlt' : (w.scheds.getD s default).s.idx < (w0.scheds.getD s default).s.tt.length
    · exact (hsi.running hlt').1
    · have := (hsi.ended (Nat.le_of_not_lt hlt')).2.2.1
      omega
  · intro hc
    by_cases hlt' : (w.scheds.getD s default).s.idx < (w0.scheds.getD s default).s.tt.length
    · exact (hsi.running hlt').2.2.1 hc
    · have := (hsi.ended (Nat.le_of_not_lt hlt')).2.2.1
      omega

/-- The `k`-th record, as in `C18.transition_times_cyclic` / `_acyclic`. -/
theorem kth_record {w0 w : World} (hs : Static w0) (hf : Fresh w0) (hr : Reachable w0 w) {s : Nat}
    (hl : AssetRef.sched s ∈ w0.assets) (k : Nat) (hk : k < (transitions w s).length) :
    (transitions w s)[k]? = some
      (w0.now + C18.T (w0.scheds.getD s default).s.tt k,
       ((w0.scheds.getD s default).s.tt.getD (k % (w0.scheds.getD s default).s.tt.length) (0, 0)).2) := by
  have h := (records_timetable_prefix hs hf hr hl).1
  rw [h, List.getElem?_map, List.getElem?_range hk]
  rfl


/-- The records are those of the component-level run `C18.start` (`Props/C18.lean`): cyclic … -/
theorem kth_record_cyclic {w0 w : World} (hs : Static w0) (hf : Fresh w0) (hr : Reachable w0 w)
    {s : Nat} (hl : AssetRef.sched s ∈ w0.assets) (hne : (w0.scheds.getD s default).s.tt ≠ [])
    (reg : List (Nat × Option Nat)) (n k : Nat) (hk : k < (transitions w s).length) (hkn : k ≤ n) :
    (transitions w s)[k]? =
      ((C18.start n w0.now { tt := (w0.scheds.getD s default).s.tt, cyc := true, reg := reg })[k]?).map
        (fun x => (x.1, x.2.1)) := by
  rw [kth_record hs hf hr hl k hk, C18.transition_times_cyclic _ reg w0.now hne n k hkn]
  rfl

/-- … and acyclic. -/
theorem kth_record_acyclic {w0 w : World} (hs : Static w0) (hf : Fresh w0) (hr : Reachable w0 w)
    {s : Nat} (hl : AssetRef.sched s ∈ w0.assets) (hc : (w0.scheds.getD s default).s.cyc = false)
    (reg : List (Nat × Option Nat)) (n k : Nat) (hk : k < (transitions w s).length) (hkn : k ≤ n) :
    (transitions w s)[k]? =
      ((C18.start n w0.now { tt := (w0.scheds.getD s default).s.tt, cyc := false, reg := reg })[k]?).map
        (fun x => (x.1, x.2.1)) := by
  have hlen := (records_timetable_prefix hs hf hr hl).2.2.2.1 hc
  have hk' : k < (w0.scheds.getD s default).s.tt.length := by omega
  rw [kth_record hs hf hr hl k hk, C18.transition_times_acyclic _ reg w0.now n k hk' hkn,
    Nat.mod_eq_of_lt hk']
  rfl

/-- A scheduler that is not registered with the system is never initialised: it has no event and
no record. -/
theorem unregistered_silent {w0 w : World} (hs : Static w0) (hf : Fresh w0) (hr : Reachable w0 w)
    {s : Nat} (hn : AssetRef.sched s ∉ w0.assets) :
    pendingEvents w s = [] ∧ pausedEvents w s = [] ∧ transitions w s = [] := by
  have h := ((wi_reachable hs hf hr).gi.sched s).2 (fun hc => hn hc.2)
  exact ⟨h.ev, h.pa, by rw [← transitions_tk]; exact h.log⟩

/-- Every `.schedUpdate` / `.periodicSense` event in the queue or paused is THE pending event of a
registered scheduler / periodic sensor (in particular it carries that asset id and is not paused). -/
theorem tracked_events_owned {w0 w : World} (hs : Static w0) (hf : Fresh w0) (hr : Reachable w0 w)
    {x : Event} (hx : x ∈ w.env.events ++ w.env.paused) (ht : tracked x = true) :
    (∃ s, suEv s x = true ∧ AssetRef.sched s ∈ w0.assets ∧ x ∈ w.env.events ∧
      x.asset = (w.scheds.getD s default).aid) ∨
    (∃ s, psEv s x = true ∧ AssetRef.sensor s ∈ w0.assets ∧ x ∈ w.env.events ∧
      (w.sensors.getD s default).s.kind = .periodic ∧ x.asset = (w.sensors.getD s default).aid) := by
  rcases (wi_reachable hs hf hr).gi.owner hx ht with ⟨s, h1, _, h3, h4, h5⟩ | ⟨s, h1, _, h3, h4, h5, h6⟩
  · exact Or.inl ⟨s, h1, h3, h4, h5⟩
  · exact Or.inr ⟨s, h1, h3, h4, h5, h6⟩

/-! ### C18W-3: `.act` results -/

theorem acts_tk (w : World) : acts (tk w).resT = acts w.results := acts_filter w.results

theorem suEv_inj {s s' : Nat} {ev : Event} (h : suEv s ev = true) (h' : suEv s' ev = true) : s' = s := by
  have a1 : ev.act = 9 + 16 * s := by simpa [suEv] using h
  have a2 : ev.act = 9 + 16 * s' := by simpa [suEv] using h'
  omega

/-- `ASched … true` inverted, for a scheduler in the middle of its run. -/
theorem ASched.inv_advance {e e' : Env} {c c' : TK} {s : Nat} (ha : ASched e c s true e' c')
    (hlt : s < c.scheds.length) {K : Nat} (hK : 1 ≤ K)
    (hidx : (c.scheds.getD s default).s.idx = (K - 1) % (c.scheds.getD s default).s.tt.length)
    (hil : (c.scheds.getD s default).s.idx < (c.scheds.getD s default).s.tt.length)
    (hc : (c.scheds.getD s default).s.cyc = false → K ≤ (c.scheds.getD s default).s.tt.length) :
    (((c.scheds.getD s default).s.cyc = false ∧ K = (c.scheds.getD s default).s.tt.length) →
      c'.recsT = c.recsT ∧ c'.resT = c.resT ∧
      (c'.scheds.getD s default).s.idx = (c.scheds.getD s default).s.tt.length) ∧
    (¬ ((c.scheds.getD s default).s.cyc = false ∧ K = (c.scheds.getD s default).s.tt.length) →
      c'.recsT = c.recsT ++ [Rec.schedUpdate s e.now (ttState (c.scheds.getD s default).s.tt K)] ∧
      c'.resT = c.resT ++ (c.scheds.getD s default).s.reg.map (fun p =>
        Res.act s p.1 e.now (ttState (c.scheds.getD s default).s.tt K) p.2) ∧
      (c'.scheds.getD s default).s.state = Option.some (ttState (c.scheds.getD s default).s.tt K) ∧
      (c'.scheds.getD s default).s.reg = (c.scheds.getD s default).s.reg) := by
  have hup := update_advance (c.scheds.getD s default).s K hK hidx hil hc
  have hget : ∀ x : SchedW, (c.scheds.set s x).getD s default = x :=
    fun x => getD_set_same _ _ _ _ hlt
  cases ha with
  | none s2 hu =>
    rcases hup with ⟨h1, h2, hu'⟩ | ⟨_, hu'⟩
    · rw [hu'] at hu
      simp only [Prod.mk.injEq, and_true] at hu
      subst hu
      refine ⟨fun _ => ⟨rfl, rfl, ?_⟩, fun hn => absurd ⟨h1, h2⟩ hn⟩
      show ((c.scheds.set s _).getD s default).s.idx = _
      rw [hget]
    · rw [hu'] at hu; simp at hu
  | some s2 st objs dur wt hu _ =>
    rcases hup with ⟨_, _, hu'⟩ | ⟨hne, hu'⟩
    · rw [hu'] at hu; simp at hu
    · rw [hu'] at hu
      simp only [Prod.mk.injEq, Option.some.injEq] at hu
      obtain ⟨rfl, rfl, rfl, rfl⟩ := hu
      refine ⟨fun hy => absurd hy hne, fun _ => ⟨rfl, rfl, ?_, ?_⟩⟩
      · show ((c.scheds.set s _).getD s default).s.state = _
        rw [hget]
      · show ((c.scheds.set s _).getD s default).s.reg = _
        rw [hget]

/-- `ASched … false` inverted, for a scheduler at position 0 with a non-empty timetable. -/
theorem ASched.inv_start {e e' : Env} {c c' : TK} {s : Nat} (ha : ASched e c s false e' c')
    (hlt : s < c.scheds.length) (hi : (c.scheds.getD s default).s.idx = 0)
    (hne : (c.scheds.getD s default).s.tt ≠ []) :
    c'.recsT = c.recsT ++ [Rec.schedUpdate s e.now (ttState (c.scheds.getD s default).s.tt 0)] ∧
    c'.resT = c.resT ++ (c.scheds.getD s default).s.reg.map (fun p =>
      Res.act s p.1 e.now (ttState (c.scheds.getD s default).s.tt 0) p.2) ∧
    (c'.scheds.getD s default).s.state = Option.some (ttState (c.scheds.getD s default).s.tt 0) := by
  have hup := update_start (c.scheds.getD s default).s hi
  have hget : ∀ x : SchedW, (c.scheds.set s x).getD s default = x :=
    fun x => getD_set_same _ _ _ _ hlt
  rcases hup with ⟨h0, _⟩ | ⟨_, hu'⟩
  · exact absurd (List.length_eq_zero_iff.mp h0) hne
  · cases ha with
    | none s2 hu => rw [hu'] at hu; simp at hu
    | some s2 st objs dur wt hu _ =>
      rw [hu'] at hu
      simp only [Prod.mk.injEq, Option.some.injEq] at hu
      obtain ⟨rfl, rfl, rfl, rfl⟩ := hu
      refine ⟨rfl, rfl, ?_⟩
      show ((c.scheds.set s _).getD s default).s.state = _
      rw [hget]

theorem schedLog_single (s : Nat) (t st : Int) : schedLog [Rec.schedUpdate s t st] s = [(t, st)] := by
  simp [schedLog]

/-- **C18W-3, the transition.**  A step of the event loop that executes the `.schedUpdate s` event
`ev` in a reachable state `w` (`K` transitions so far): the event is live and due at `t0 + T tt K`;

* if the schedule is acyclic and all `n` entries have been visited, the schedule ends: no record,
  no `.act` result, position `n`;
* otherwise the transition `K` is made at `ev.time`: one record `(ev.time, state K)` is appended,
  and for every object registered AT THAT MOMENT (`reg` of `w`) exactly one result
  `.act s obj ev.time (state K) override` is appended, in registration order; nothing else is
  appended to the `.act` results; the scheduler is in state `state K`, its registrations unchanged. -/
theorem transition_step {w0 w w' : World} {ev : Event} (hs : Static w0) (hf : Fresh w0)
    (hr : Reachable w0 w) (hst : w.step = some (ev, w')) {s : Nat} (hev : suEv s ev = true) :
    ev.cancelled = false ∧ AssetRef.sched s ∈ w0.assets ∧
    ev.time = w0.now + C18.T (w.scheds.getD s default).s.tt (transitions w s).length ∧
    (((w.scheds.getD s default).s.cyc = false ∧
        (transitions w s).length = (w.scheds.getD s default).s.tt.length) →
      transitions w' s = transitions w s ∧ acts w'.results = acts w.results ∧
      (w'.scheds.getD s default).s.idx = (w.scheds.getD s default).s.tt.length) ∧
    (¬ ((w.scheds.getD s default).s.cyc = false ∧
        (transitions w s).length = (w.scheds.getD s default).s.tt.length) →
      transitions w' s = transitions w s ++
        [(ev.time, ttState (w.scheds.getD s default).s.tt (transitions w s).length)] ∧
      acts w'.results = acts w.results ++ (w.scheds.getD s default).s.reg.map (fun p =>
        Res.act s p.1 ev.time (ttState (w.scheds.getD s default).s.tt (transitions w s).length) p.2) ∧
      (w'.scheds.getD s default).s.state =
        some (ttState (w.scheds.getD s default).s.tt (transitions w s).length) ∧
      (w'.scheds.getD s default).s.reg = (w.scheds.getD s default).s.reg) := by
  have hwi := wi_reachable hs hf hr
  cases step_kinds hwi hst with
  | sense s' es he hps _ _ _ _ => rw [psEv_not_suEv hev] at hps; cases hps
  | other es he ht _ _ _ => rw [suEv_tracked hev] at ht; cases ht
  | sched s' es he hs' hlt hcan ha =>
    have : s' = s := suEv_inj hev hs'
    subst this
    have hown := hwi.gi.owner (x := ev) (by rw [he]; simp) (suEv_tracked hev)
    have hl : AssetRef.sched s' ∈ w0.assets := by
      rcases hown with ⟨s2, h1, _, h3, _⟩ | ⟨s2, h1, _⟩
      · have := suEv_inj hev h1; subst this; exact h3
      · rw [psEv_not_suEv hev] at h1; cases h1
    have hsi := si_reachable hs hf hr hl
    obtain ⟨hmid, _, _⟩ := hsi.pop he hev (w.env.terminated || (ev.live && ev.act == terminateAct))
    have hnow : ev.time = w0.now + C18.T (w.scheds.getD s' default).s.tt (transitions w s').length := by
      have := hmid.now
      rw [transitions_tk] at this
      exact this
    obtain ⟨i1, i2⟩ := ha.inv_advance hlt hmid.pos hmid.idx hmid.lt hmid.cyc
    rw [transitions_tk] at i1 i2
    refine ⟨hcan, hl, hnow, fun hc => ?_, fun hc => ?_⟩
    · obtain ⟨j1, j2, j3⟩ := i1 hc
      refine ⟨?_, ?_, j3⟩
      · rw [← transitions_tk w', ← transitions_tk w, j1]
      · rw [← acts_tk w', ← acts_tk w, j2]
    · obtain ⟨j1, j2, j3, j4⟩ := i2 hc
      refine ⟨?_, ?_, j3, j4⟩
      · rw [← transitions_tk w', j1, schedLog_append, schedLog_single, transitions_tk]
        rfl
      · rw [← acts_tk w', j2, acts_append, acts_act, acts_tk]
        rfl

/-- **C18W-3, nothing else.**  A step that executes any other event (in particular a script that
registers or unregisters objects) appends no `.act` result and no `.schedUpdate` record:
registration changes take effect from the next transition (`transition_step` uses the
registrations of the state in which the transition is made). -/
theorem no_acts_elsewhere {w0 w w' : World} {ev : Event} (hs : Static w0) (hf : Fresh w0)
    (hr : Reachable w0 w) (hst : w.step = some (ev, w')) (hev : ∀ s, suEv s ev = false) :
    acts w'.results = acts w.results ∧ ∀ s, transitions w' s = transitions w s := by
  have hwi := wi_reachable hs hf hr
  cases step_kinds hwi hst with
  | sched s' es he hs' _ _ _ => rw [hev s'] at hs'; cases hs'
  | other es he ht _ _ hc =>
    refine ⟨by rw [← acts_tk w', ← acts_tk w]; exact CRun.acts hc, fun s => ?_⟩
    rw [← transitions_tk w', ← transitions_tk w]
    exact (hc.sched_logs s).1
  | sense s' es he hps _ _ _ ha =>
    have hfr := ha.frame
    obtain ⟨l, hl, hall⟩ := hfr.res
    refine ⟨?_, fun s => ?_⟩
    · rw [← acts_tk w', ← acts_tk w, hl, acts_append]
      have : acts l = [] := by
        unfold acts
        apply filter_eq_nil_of_forall
        intro r hr
        obtain ⟨cb, t, vals, rfl⟩ := hall r hr
        rfl
      rw [this, List.append_nil]
    · rw [← transitions_tk w', ← transitions_tk w, hfr.recs]

/-- External scripted operations of the static class and `runBegin` write no `.act` result and no
`.schedUpdate` record. -/
theorem ops_no_acts {w0 w : World} (hs : Static w0) (hf : Fresh w0) (hr : Reachable w0 w) :
    (∀ ops : List Op, (∀ op ∈ ops, opOK (tk w0).ta op = true) →
      acts (w.applyOps ops).results = acts w.results ∧
      ∀ s, transitions (w.applyOps ops) s = transitions w s) ∧
    (∀ d, acts (w.runBegin d).1.results = acts w.results ∧
      ∀ s, transitions (w.runBegin d).1 s = transitions w s) := by
  have hwi := wi_reachable hs hf hr
  constructor
  · intro ops hops
    have hf' := Fr_applyOps w ops (by rw [ta_of_ss hwi rfl]; exact hops)
    obtain ⟨_, hc⟩ := hf' hwi.gi.stat
    refine ⟨by rw [← acts_tk, ← acts_tk w]; exact CRun.acts hc, fun s => ?_⟩
    rw [← transitions_tk, ← transitions_tk w]
    exact (hc.sched_logs s).1
  · intro d
    have : (w.runBegin d).1.results = w.results ∧ (w.runBegin d).1.recs = w.recs := by
      unfold World.runBegin
      dsimp only
      split <;> exact ⟨rfl, rfl⟩
    refine ⟨by rw [this.1], fun s => by unfold transitions; rw [this.2]⟩

/-- the `.act` results of scheduler `s`, in order -/
def actResults (w : World) (s : Nat) : List Res := actLog w.results s

/-- **C18W-3, in every reachable state**: the `.act` results of every scheduler `s` consist of exactly
one block per `.schedUpdate s` record `(t, state)` — i.e. (`records_timetable_prefix`) per executed
transition, the initial one included — and the block of a transition is one result
`.act s obj t state override` per object of a list `(obj, override)` (the objects registered when
the transition was made, `transition_step` / `init_acts`), in order. -/
theorem acts_reachable {w0 w : World} (hs : Static w0) (hf : Fresh w0) (hr : Reachable w0 w) (s : Nat) :
    ∃ regs : List (List (Nat × Option Nat)), regs.length = (transitions w s).length ∧
      actResults w s = (regs.zip (transitions w s)).flatMap
        (fun x => x.1.map (fun p => Res.act s p.1 x.2.1 x.2.2 p.2)) := by
  obtain ⟨regs, h1, h2⟩ := (wi_reachable hs hf hr).gi.acts s
  rw [transitions_tk] at h1 h2
  rw [show (tk w).resT = w.results.filter trackedRes from rfl, actLog_filter] at h2
  exact ⟨regs, h1, h2⟩

/-- **C18W-3, initialisation** (`initAsset (.sched s)` in any world whose timetable durations are
not negative): the initial transition enters the state of the scheduler's current timetable entry,
writes one record stamped `now` and one `.act` result per registered object, in registration
order, and schedules the next transition one duration later. -/
theorem init_acts (w : World) (s : Nat) (hlt : s < w.scheds.length)
    (hd : ∀ p ∈ (w.scheds.getD s default).s.tt, 0 ≤ p.1)
    (hi : (w.scheds.getD s default).s.idx = 0) (hne : (w.scheds.getD s default).s.tt ≠ []) :
    transitions (w.initAsset (.sched s)) s = transitions w s ++
      [(w.now, ttState (w.scheds.getD s default).s.tt 0)] ∧
    acts (w.initAsset (.sched s)).results = acts w.results ++
      (w.scheds.getD s default).s.reg.map (fun p =>
        Res.act s p.1 w.now (ttState (w.scheds.getD s default).s.tt 0) p.2) ∧
    ((w.initAsset (.sched s)).scheds.getD s default).s.state =
      some (ttState (w.scheds.getD s default).s.tt 0) := by
  have ha : ASched w.env (tk w) s false (w.schedUpdate s false).env (tk (w.schedUpdate s false)) :=
    schedUpdate_refines w s false hd
  obtain ⟨j1, j2, j3⟩ := ha.inv_start hlt hi hne
  show transitions (w.schedUpdate s false) s = _ ∧ acts (w.schedUpdate s false).results = _ ∧
    ((w.schedUpdate s false).scheds.getD s default).s.state = _
  refine ⟨?_, ?_, j3⟩
  · rw [← transitions_tk (w.schedUpdate s false), j1, schedLog_append, schedLog_single, transitions_tk]
    rfl
  · rw [← acts_tk (w.schedUpdate s false), j2, acts_append, acts_act, acts_tk]
    rfl

/-! ### non-vacuity -/

/-- A line source → processor → sink with a cyclic scheduler (asset id 4, timetable
`[(4, 10), (0, 20), (3, 30)]`, object 7 registered), an acyclic scheduler (asset id 5, timetable
`[(5, 1), (2, 2)]`), a periodic sensor (asset id 6, interval 3, capacity 2, probing variable 0) and an
output-part sensor on the processor (asset id 7, sensing interval 1, probing quality and value).
Script 0 (run at time 5) registers object 9 with scheduler 0, sets variable 0 and adds both sensors
to the cms. -/
def exW : World :=
  { devs := [{ kind := .source, aid := 1, down := [1], maxParts := some 3, cycle := 2, genValue := 5 },
             { kind := .processor, aid := 2, up := [0], down := [2], cycle := 3 },
             { kind := .sink, aid := 3, up := [1] }]
    scheds := [{ s := { tt := [(4, 10), (0, 20), (3, 30)], cyc := true, reg := [(7, none)] }, aid := 4 },
               { s := { tt := [(5, 1), (2, 2)], cyc := false }, aid := 5 }]
    sensors := [{ s := { kind := .periodic, interval := 3, cap := some 2, nprobes := 1 }, aid := 6, vars := [0] },
                { s := { kind := .output, interval := 1, nprobes := 2 }, aid := 7, proc := 1, attrs := [0, 1] }]
    cmsSensors := [[]]
    assets := [.dev 0, .dev 1, .dev 2, .sched 0, .sched 1, .sensor 0, .sensor 1, .cms 0]
    scripts := [[.regObj 0 9 (some 1), .setVar 0 42, .addSensor 0 0, .addSensor 0 1]]
    env := { terminated := false, nextUid := 1
             events := [{ uid := 0, time := 5, prio := pOtherLow, weight := 0, asset := -1,
                          act := (Action.script 0).toNat }] } }

theorem static_exW : Static exW where
  aids := by decide
  scr := by decide
  dur := by decide
  ivl := by decide
  nodup := by decide
  refs := by decide

theorem fresh_exW : Fresh exW where
  notStarted := rfl
  queue := ⟨by unfold SortedEv; decide, by decide, by decide, by decide⟩
  noTracked := by decide
  idx := by decide
  unreg := by decide
  noFin := by decide
  recs := by decide
  results := by decide

/-- the example after initialisation and `n` steps -/
def exRun (n : Nat) : World := runLoop n exW.simulateInit

theorem reach_exRun (n : Nat) : Reachable exW (exRun n) := .run n .init


-- the hypotheses hold for the example (theorems `static_exW`, `fresh_exW`); the conclusions are
-- not trivial: at time 11 (25 steps) the cyclic scheduler has made 6 transitions
-- (0, 4, 4, 7, 11, 11 = 0 + T tt k), the next one is pending at 14 = T tt 6 with its asset id 4 …
example : (exRun 25).now = 11 ∧
    transitions (exRun 25) 0 = [(0, 10), (4, 20), (4, 30), (7, 10), (11, 20), (11, 30)] ∧
    (pendingEvents (exRun 25) 0).map (fun e => (e.time, e.asset, e.cancelled)) = [(14, 4, false)] ∧
    pausedEvents (exRun 25) 0 = [] ∧ C18.T [(4, 10), (0, 20), (3, 30)] 6 = 14 := by decide

-- … the acyclic scheduler has visited both entries (at 0 and 5), its last event (due at 7) has been
-- executed: the schedule has ended, no event is left, the scheduler stays in state 2
example : transitions (exRun 25) 1 = [(0, 1), (5, 2)] ∧ pendingEvents (exRun 25) 1 = [] ∧
    ((exRun 25).scheds.getD 1 default).s.idx = 2 ∧ ((exRun 25).scheds.getD 1 default).s.state = some 2 := by
  decide

/-- `acts_reachable` on the example: six blocks, the first three for object 7 alone. -/
example : actResults (exRun 25) 0 =
    ([[(7, none)], [(7, none)], [(7, none)], [(7, none), (9, some 1)], [(7, none), (9, some 1)],
      [(7, none), (9, some 1)]].zip (transitions (exRun 25) 0)).flatMap
      (fun x => x.1.map (fun p => Res.act 0 p.1 x.2.1 x.2.2 p.2)) := by decide

-- object 9 is registered by the script at time 5 (between the transitions at 4 and 7): it is acted
-- on from the transition at 7 on, after object 7, with its override
example : acts (exRun 25).results =
    [.act 0 7 0 10 none, .act 0 7 4 20 none, .act 0 7 4 30 none,
     .act 0 7 7 10 none, .act 0 9 7 10 (some 1), .act 0 7 11 20 none, .act 0 9 11 20 (some 1),
     .act 0 7 11 30 none, .act 0 9 11 30 (some 1)] := by decide

/-- `pending_transition` instantiated on the example. -/
example : ∃ e, pendingEvents (exRun 25) 0 = [e] ∧ e.cancelled = false ∧ e.time = 14 ∧ e.asset = 4 := by
  obtain ⟨e, h1, _, h3, h4, _, h6, _⟩ :=
    (pending_transition static_exW fresh_exW (reach_exRun 25) (s := 0) (by decide)).1 (by decide)
  refine ⟨e, h1, h3, ?_, ?_⟩
  · rw [h4]; decide
  · rw [h6]; decide

/-- `transition_step` instantiated: the step taken after 13 steps executes the event of scheduler 0
due at 7 (its fourth transition, state 10 again) with objects 7 and 9 registered. -/
example : ∃ ev w', (exRun 13).step = some (ev, w') ∧ suEv 0 ev = true ∧
    acts w'.results = acts (exRun 13).results ++ [.act 0 7 7 10 none, .act 0 9 7 10 (some 1)] := by
  have hex : ((exRun 13).step.map (fun p => suEv 0 p.1)) = some true := by decide
  cases hst : (exRun 13).step with
  | none => rw [hst] at hex; cases hex
  | some q =>
    obtain ⟨ev, w'⟩ := q
    rw [hst] at hex
    have hev : suEv 0 ev = true := by simpa using hex
    have := (transition_step static_exW fresh_exW (reach_exRun 13) hst hev).2.2.2.2 (by decide)
    refine ⟨ev, w', rfl, hev, ?_⟩
    rw [this.2.1]
    have ht : ev.time = 7 := by
      rw [(transition_step static_exW fresh_exW (reach_exRun 13) hst hev).2.2.1]; decide
    rw [ht]
    decide

/-! #### non-vacuity, continued: every condition of the static class is needed -/

/-- A scheduler alone; `tt`, asset id, scripts, the initial queue and the registry vary. -/
def exS (tt : List (Int × Int)) (aid : Int) (scripts : List (List Op)) (assets : List AssetRef) : World :=
  { devs := [{ kind := .processor, aid := 2 }]
    scheds := [{ s := { tt := tt, cyc := true }, aid := aid }]
    assets := assets
    scripts := scripts
    env := { terminated := false, nextUid := 1
             events := [{ uid := 0, time := 1, prio := pOtherLow, weight := 0, asset := -1,
                          act := (Action.script 0).toNat }] } }

/-- **Negative durations are excluded for a reason**: the request for the next transition lies in the
past, is rejected (`sched-past`), and the chain of transitions breaks — all other conditions hold. -/
theorem pending_false_negative_duration :
    let w := exS [(-1, 1), (1, 2)] 4 [] [.sched 0]
    Fresh w ∧ (∀ a ∈ (tk w).ta, a ≠ 0 ∧ ∀ d ∈ w.devs, d.aid ≠ a) ∧
    (∀ l ∈ w.scripts, ∀ op ∈ l, opOK (tk w).ta op = true) ∧ w.assets.Nodup ∧
    (∀ a ∈ w.assets, refOK w a = true) ∧
    (w.simulateInit.scheds.getD 0 default).s.idx < (w.simulateInit.scheds.getD 0 default).s.tt.length ∧
    pendingEvents w.simulateInit 0 = [] ∧ w.simulateInit.error = some "sched-past" := by
  refine ⟨⟨rfl, ⟨by unfold SortedEv; decide, by decide, by decide, by decide⟩, by decide, by decide,
    by decide, by decide, by decide, by decide⟩, by decide, by decide, by decide, by decide, by decide,
    by decide, by decide⟩

/-- **Scripts must not pause the asset id of a scheduler**: after the script (one step) the
transition event is paused, none is pending, though the schedule has not ended. -/
theorem pending_false_script_pause :
    let w := exS [(5, 1)] 4 [[.pause 4]] [.sched 0]
    Fresh w ∧ (∀ a ∈ (tk w).ta, a ≠ 0 ∧ ∀ d ∈ w.devs, d.aid ≠ a) ∧
    (∀ sw ∈ w.scheds, ∀ p ∈ sw.s.tt, 0 ≤ p.1) ∧ w.assets.Nodup ∧ (∀ a ∈ w.assets, refOK w a = true) ∧
    ((runLoop 1 w.simulateInit).scheds.getD 0 default).s.idx <
      ((runLoop 1 w.simulateInit).scheds.getD 0 default).s.tt.length ∧
    pendingEvents (runLoop 1 w.simulateInit) 0 = [] ∧
    (pausedEvents (runLoop 1 w.simulateInit) 0).length = 1 := by
  refine ⟨⟨rfl, ⟨by unfold SortedEv; decide, by decide, by decide, by decide⟩, by decide, by decide,
    by decide, by decide, by decide, by decide⟩, by decide, by decide, by decide, by decide, by decide,
    by decide, by decide⟩

/-- **The asset id of a scheduler must differ from the device ids**: a maintenance shutdown of the
processor (asset id 2) pauses the events of asset id 2 — the scheduler's transition event with it. -/
theorem pending_false_shared_id :
    let w := exS [(5, 1)] 2 [[.shutdown 0]] [.sched 0]
    Fresh w ∧ (∀ l ∈ w.scripts, ∀ op ∈ l, opOK (tk w).ta op = true) ∧
    (∀ sw ∈ w.scheds, ∀ p ∈ sw.s.tt, 0 ≤ p.1) ∧ w.assets.Nodup ∧ (∀ a ∈ w.assets, refOK w a = true) ∧
    ((runLoop 1 w.simulateInit).scheds.getD 0 default).s.idx <
      ((runLoop 1 w.simulateInit).scheds.getD 0 default).s.tt.length ∧
    pendingEvents (runLoop 1 w.simulateInit) 0 = [] ∧
    (pausedEvents (runLoop 1 w.simulateInit) 0).length = 1 := by
  refine ⟨⟨rfl, ⟨by unfold SortedEv; decide, by decide, by decide, by decide⟩, by decide, by decide,
    by decide, by decide, by decide, by decide⟩, by decide, by decide, by decide, by decide, by decide,
    by decide, by decide⟩

/-- **The asset id 0 is excluded for a reason**: library operations on a device that does not exist
read the default device, whose asset id is 0 — here a stale `fail` event for a non-existent device
7 (the initial queue is arbitrary) cancels the events of asset id 0, the scheduler's among them. -/
theorem pending_false_id_zero :
    let w : World := { exS [(5, 1)] 0 [] [.sched 0] with
      env := { terminated := false, nextUid := 1
               events := [{ uid := 0, time := 1, prio := pFail, weight := 0, asset := 9,
                            act := (Action.fail 7).toNat }] } }
    Fresh w ∧ (∀ a ∈ (tk w).ta, ∀ d ∈ w.devs, d.aid ≠ a) ∧
    (∀ l ∈ w.scripts, ∀ op ∈ l, opOK (tk w).ta op = true) ∧
    (∀ sw ∈ w.scheds, ∀ p ∈ sw.s.tt, 0 ≤ p.1) ∧ w.assets.Nodup ∧ (∀ a ∈ w.assets, refOK w a = true) ∧
    (pendingEvents (runLoop 1 w.simulateInit) 0).map (·.cancelled) = [true] := by
  refine ⟨⟨rfl, ⟨by unfold SortedEv; decide, by decide, by decide, by decide⟩, by decide, by decide,
    by decide, by decide, by decide, by decide⟩, by decide, by decide, by decide, by decide, by decide,
    by decide⟩

/-- **Every asset is registered once**: a scheduler listed twice is initialised twice and runs two
chains of transitions. -/
theorem pending_false_registered_twice :
    let w := exS [(5, 1)] 4 [] [.sched 0, .sched 0]
    Fresh w ∧ (∀ a ∈ (tk w).ta, a ≠ 0 ∧ ∀ d ∈ w.devs, d.aid ≠ a) ∧
    (∀ l ∈ w.scripts, ∀ op ∈ l, opOK (tk w).ta op = true) ∧
    (∀ sw ∈ w.scheds, ∀ p ∈ sw.s.tt, 0 ≤ p.1) ∧ (∀ a ∈ w.assets, refOK w a = true) ∧
    (pendingEvents w.simulateInit 0).length = 2 := by
  refine ⟨⟨rfl, ⟨by unfold SortedEv; decide, by decide, by decide, by decide⟩, by decide, by decide,
    by decide, by decide, by decide, by decide⟩, by decide, by decide, by decide, by decide, by decide⟩

end C18W
end SimProc
