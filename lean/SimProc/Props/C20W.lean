/-
C20W — system lifecycle in the closed world: registration, single initialisation, assets created
while the simulation runs.

`Props/C20.lean` proves the lifecycle for the abstract model of `System` (`SysM`).  This file proves
it for the world model's own creation path: `World.addDev`, `World.addAsset`, `World.initAsset`,
`World.simulateInit` and the scripted / external operation `Op.create spec`.

1. REGISTRATION (`register_*`, `addDev_frame`, `addDev_closed_form`, `registered_once`,
   `aid_is_index_*`).  A constructor call appends exactly one entry to the registration list (two
   for a group), the new component gets asset id = registration index + 1, the other maintainers,
   schedulers, sensors, targets and the resource manager are untouched, an existing device keeps
   everything but its wiring and its two flow flags; when no upstream device has to be woken the
   new device list is given in closed form (`down` of each named upstream device extended by the
   new index, once).
2. INITIALISED EXACTLY ONCE (`reg_reachable`, `inited_iff_started_*`, `count_reachable`,
   `simulateInit_idem`).  In every world reachable from a world satisfying the registration
   invariant `Reg` (e.g. the empty world) by constructor calls, scripted operations (scripts may
   themselves construct assets), `simulateInit`, `runBegin` and event steps: every device,
   maintainer and sensor is registered exactly once, its asset id is its registration index + 1,
   and its "initialised" flag equals `started`.  The ghost counter of the instrumented model `GW`
   (a counter per registration entry, incremented by every call of `initAsset` and by nothing
   else; forgetting the counters gives exactly the model, `ghost_*_w`) is 1 for every registered
   asset if the system has started and 0 otherwise.  (Model remark: `World.addAsset .cms` on a
   started system leaves the call `initAsset (.cms c)` out, because it is the identity —
   `initAsset_cms`; the ghost counts that call, the world is the same.)
3. LATE CREATION = EARLY CREATION (`create_is_addAsset`, `create_started`, `create_not_started`,
   `simulateInit_sweep`, `create_commutes`, `create_commutes_of_idle_upstream`).  On a started
   system `create` is the registration followed by `initAsset` of the new asset at the current
   time; on a not-started system it is the registration only and `simulateInit` initialises the
   asset with the others.  For a not-started world satisfying `Reg`, constructing before or after
   `simulateInit` gives THE SAME WORLD (all fields, including the event queue with its uids and
   weights — stronger than asked: no queue hypothesis is needed): unconditionally for
   maintainers, schedulers, sensors and cms (`create_commutes_nondev`); for devices of every kind
   under the side conditions `CommuteOK`: every output-part sensor is attached to an existing
   device, and wiring the new device to its (by then initialised) upstream devices wakes nobody —
   checked by the decidable mirror `quietSA` of the notification `space_available_downstream`
   (through gates and group controllers: no part handler on the way is waiting for space
   downstream, the recursion budget suffices).  Simple sufficient condition
   (`create_commutes_of_idle_upstream`): the named upstream devices are part handlers that are not
   waiting.  The conditions are necessary: `commute_false_waiting`, `commute_false_gate_cycle`,
   `commute_false_dangling_sensor`.
4. INVARIANTS SURVIVE CREATION (`reg_create`, `good_create`, `consS_create`, `rm_create`,
   `rmInv_create`, `late_processor_bookkeeping`, `late_processor_uptime`,
   `old_processors_undisturbed`).

Not covered: the commutation theorem for a `group` spec (two interleaved device constructors:
`create_group`; registration and initialisation of both are covered by parts 1, 2, 4).
-/
import SimProc.Proofs.C20WQuiet
import SimProc.Proofs.C20WGhost
import SimProc.Props.C01W
import SimProc.Props.C02
import SimProc.Props.C09
import SimProc.Props.C13

namespace SimProc
namespace C20W
open World FloorCoreL RKey

/-! ## 0. the registration invariant, readable and decidable -/

/-- `RegK` with the quantifiers bounded (decidable). -/
def RegD (k : RKey) : Prop :=
  k.assets.Nodup ∧ (∀ a ∈ k.assets, k.valid a = true) ∧
  (∀ d, d < k.devs.length → AssetRef.dev d ∈ k.assets) ∧
  (∀ m, m < k.maints.length → AssetRef.maint m ∈ k.assets) ∧
  (∀ s, s < k.scheds.length → AssetRef.sched s ∈ k.assets) ∧
  (∀ s, s < k.sensors.length → AssetRef.sensor s ∈ k.assets) ∧
  (∀ i, (h : i < k.assets.length) → ∀ x ∈ k.aidOf k.assets[i], x = (i : Int) + 1) ∧
  (∀ a ∈ k.assets, ∀ b ∈ k.flagOf a, b = k.started) ∧
  (∀ l ∈ k.scripts, ∀ op ∈ l, opFresh op = true)

instance (k : RKey) : Decidable (RegD k) := by unfold RegD; infer_instance

theorem regK_iff (k : RKey) : RegK k ↔ RegD k := by
  constructor
  · intro h
    refine ⟨h.nodup, h.valid, ?_, ?_, ?_, ?_, ?_, ?_, h.scripts⟩
    · intro d hd; exact h.complete _ (by simpa [valid] using hd) rfl
    · intro d hd; exact h.complete _ (by simpa [valid] using hd) rfl
    · intro d hd; exact h.complete _ (by simpa [valid] using hd) rfl
    · intro d hd; exact h.complete _ (by simpa [valid] using hd) rfl
    · intro i hi x hx; exact h.aid i hi x hx
    · intro a ha b hb; exact h.flag a ha b hb
  · rintro ⟨h1, h2, h3, h4, h5, h6, h7, h8, h9⟩
    refine ⟨h1, h2, ?_, fun i hi x hx => h7 i hi x hx, fun a ha b hb => h8 a ha b hb, h9⟩
    intro a hv hc
    cases a with
    | dev d => exact h3 d (by simpa [valid] using hv)
    | maint m => exact h4 m (by simpa [valid] using hv)
    | sched s => exact h5 s (by simpa [valid] using hv)
    | sensor s => exact h6 s (by simpa [valid] using hv)
    | cms c => cases hc

instance (w : World) : Decidable (Reg w) := decidable_of_iff _ (regK_iff (RK w)).symm

/-- A world without assets satisfies the invariant (scripts that construct fresh assets only). -/
theorem reg_empty (w : World) (hd : w.devs = []) (hm : w.maints = []) (hs : w.scheds = [])
    (hn : w.sensors = []) (ha : w.assets = [])
    (hscr : ∀ l ∈ w.scripts, ∀ op ∈ l, opFresh op = true) : Reg w :=
  regK_empty (by simp [RK, hd]) (by simp [RK, hm]) (by simp [RK, hs]) (by simp [RK, hn]) ha hscr

section consequences
variable {w : World} (h : Reg w)
include h

/-- Every asset is registered at most once … -/
theorem registered_once : w.assets.Nodup := h.nodup

/-- … every device, maintainer, scheduler and sensor that exists is registered … -/
theorem dev_registered (d : Nat) (hd : d < w.devs.length) : AssetRef.dev d ∈ w.assets :=
  h.complete _ (by simp [valid, RK, hd]) rfl
theorem maint_registered (m : Nat) (hm : m < w.maints.length) : AssetRef.maint m ∈ w.assets :=
  h.complete _ (by simp [valid, RK, hm]) rfl
theorem sched_registered (s : Nat) (hs : s < w.scheds.length) : AssetRef.sched s ∈ w.assets :=
  h.complete _ (by simp [valid, RK, hs]) rfl
theorem sensor_registered (s : Nat) (hs : s < w.sensors.length) : AssetRef.sensor s ∈ w.assets :=
  h.complete _ (by simp [valid, RK, hs]) rfl

/-- … and every registration entry points to an existing component. -/
theorem registered_valid : ∀ a ∈ w.assets, match a with
    | .dev d => d < w.devs.length
    | .maint m => m < w.maints.length
    | .sched s => s < w.scheds.length
    | .sensor s => s < w.sensors.length
    | .cms c => c < w.cmsSensors.length := by
  intro a ha
  have := h.valid a ha
  cases a <;> simpa [valid, RK] using this

/-- **Asset id = registration index + 1.** -/
theorem aid_is_index_dev (i d : Nat) (hi : w.assets[i]? = some (.dev d)) : (w.dev d).aid = (i : Int) + 1 := by
  obtain ⟨hlt, he⟩ := List.getElem?_eq_some_iff.1 hi
  have hd : d < w.devs.length := by
    have := registered_valid h _ (List.mem_of_getElem? hi); exact this
  refine h.aid i hlt _ ?_
  show (RK w).aidOf w.assets[i] = _
  rw [he]
  simp [aidOf, RK, World.dev, dk, List.getD_eq_getElem?_getD, hd]
theorem aid_is_index_maint (i m : Nat) (hi : w.assets[i]? = some (.maint m)) :
    (w.maints.getD m default).aid = (i : Int) + 1 := by
  obtain ⟨hlt, he⟩ := List.getElem?_eq_some_iff.1 hi
  have hd : m < w.maints.length := by
    have := registered_valid h _ (List.mem_of_getElem? hi); exact this
  refine h.aid i hlt _ ?_
  show (RK w).aidOf w.assets[i] = _
  rw [he]
  simp [aidOf, RK, mk, List.getD_eq_getElem?_getD, hd]
theorem aid_is_index_sched (i s : Nat) (hi : w.assets[i]? = some (.sched s)) :
    (w.scheds.getD s default).aid = (i : Int) + 1 := by
  obtain ⟨hlt, he⟩ := List.getElem?_eq_some_iff.1 hi
  have hd : s < w.scheds.length := by
    have := registered_valid h _ (List.mem_of_getElem? hi); exact this
  refine h.aid i hlt _ ?_
  show (RK w).aidOf w.assets[i] = _
  rw [he]
  simp [aidOf, RK, List.getD_eq_getElem?_getD, hd]
theorem aid_is_index_sensor (i s : Nat) (hi : w.assets[i]? = some (.sensor s)) :
    (w.sensors.getD s default).aid = (i : Int) + 1 := by
  obtain ⟨hlt, he⟩ := List.getElem?_eq_some_iff.1 hi
  have hd : s < w.sensors.length := by
    have := registered_valid h _ (List.mem_of_getElem? hi); exact this
  refine h.aid i hlt _ ?_
  show (RK w).aidOf w.assets[i] = _
  rw [he]
  simp [aidOf, RK, sk, List.getD_eq_getElem?_getD, hd]

/-- **Initialised exactly when the system has started** (the observable flags). -/
theorem inited_iff_started_dev (d : Nat) (hd : d < w.devs.length) : (w.dev d).inited = w.started :=
  h.flag _ (dev_registered h d hd) _ (by simp [flagOf, RK, World.dev, dk, List.getD_eq_getElem?_getD, hd])
theorem inited_iff_started_maint (m : Nat) (hm : m < w.maints.length) :
    (w.maints.getD m default).inited = w.started :=
  h.flag _ (maint_registered h m hm) _ (by simp [flagOf, RK, mk, List.getD_eq_getElem?_getD, hm])
theorem registered_iff_started_sensor (s : Nat) (hs : s < w.sensors.length) :
    (w.sensors.getD s default).registered = w.started :=
  h.flag _ (sensor_registered h s hs) _ (by simp [flagOf, RK, sk, List.getD_eq_getElem?_getD, hs])

end consequences

/-! ## 1. registration -/

/-- **A device constructor call, any world, on the registration key**: one device and one
registration entry are appended; the new device has kind `d.kind`, asset id = registration index
+ 1, and is initialised iff the system has started.  Nothing else in the key changes. -/
theorem register_dev (w : World) (d : Dev) (hd : d.inited = false) :
    (w.addAsset (.dev d)).assets = w.assets ++ [AssetRef.dev w.devs.length] ∧
    (w.addAsset (.dev d)).devs.length = w.devs.length + 1 ∧
    ((w.addAsset (.dev d)).dev w.devs.length).kind = d.kind ∧
    ((w.addAsset (.dev d)).dev w.devs.length).aid = (w.assets.length : Int) + 1 ∧
    ((w.addAsset (.dev d)).dev w.devs.length).inited = w.started ∧
    (w.addAsset (.dev d)).started = w.started ∧
    (∀ u, u < w.devs.length →
      ((w.addAsset (.dev d)).dev u).kind = (w.dev u).kind ∧ ((w.addAsset (.dev d)).dev u).aid = (w.dev u).aid ∧
      ((w.addAsset (.dev d)).dev u).inited = (w.dev u).inited) := by
  have hk := RK_addDev w d hd
  have hdevs : (w.addDev d).devs.map dk = w.devs.map dk ++ [(d.kind, (w.assets.length : Int) + 1, w.started)] := by
    have := congrArg RKey.devs hk; simpa [RK, pushDev] using this
  have hlen : (w.addDev d).devs.length = w.devs.length + 1 := by
    have := congrArg List.length hdevs; simpa using this
  have hget : ∀ u, dk ((w.addDev d).dev u) =
      (w.devs.map dk ++ [(d.kind, (w.assets.length : Int) + 1, w.started)]).getD u (dk default) := by
    intro u
    rw [← hdevs]; unfold World.dev; exact (getD_map dk _ u default).symm
  have hnew := hget w.devs.length
  rw [show w.devs.length = (w.devs.map dk).length by simp, getD_append_singleton] at hnew
  simp only [List.length_map] at hnew
  refine ⟨?_, hlen, congrArg (·.1) hnew, congrArg (·.2.1) hnew, congrArg (·.2.2) hnew, ?_, ?_⟩
  · have : (w.addDev d).assets = w.assets ++ [AssetRef.dev w.devs.length] := by
      have := congrArg RKey.assets hk; simpa [RK, pushDev] using this
    exact this
  · have := congrArg RKey.started hk; exact this
  · intro u hu
    have h1 := hget u
    rw [getD_append_left _ _ _ _ (by simpa using hu)] at h1
    have h2 : dk ((w.addDev d).dev u) = dk (w.dev u) := by
      rw [h1]; unfold World.dev; exact getD_map dk _ u default
    exact ⟨congrArg (·.1) h2, congrArg (·.2.1) h2, congrArg (·.2.2) h2⟩

/-- **Frame of a device constructor call, any world.**  The resource manager, the maintainers,
schedulers, sensors, cms slots and maintenance targets are untouched; an existing device keeps
every field except its wiring (`up`, `down`) and its two flow flags (`since`, `waitingDS`) —
`C03.stat` erases exactly these four. -/
theorem addDev_frame (w : World) (d : Dev) :
    (w.addAsset (.dev d)).rm = w.rm ∧ (w.addAsset (.dev d)).maints = w.maints ∧
    (w.addAsset (.dev d)).scheds = w.scheds ∧ (w.addAsset (.dev d)).sensors = w.sensors ∧
    (w.addAsset (.dev d)).cmsSensors = w.cmsSensors ∧ (w.addAsset (.dev d)).targets = w.targets ∧
    (∀ u, u < w.devs.length → C03.stat ((w.addAsset (.dev d)).dev u) = C03.stat (w.dev u)) :=
  ⟨addDev_rm w d, addDev_maints w d, addDev_scheds w d, addDev_sensors w d, addDev_cmsSensors w d,
    addDev_targets w d, fun u hu => addDev_stat w d u hu⟩

/-- **Closed form of a device registration** when no upstream device has to be woken (in
particular in every not-started world satisfying `Reg`, where no device is initialised): the
world is the old one with the device list `regF …`, the group table `regG …` and one more
registration entry. -/
theorem addDev_closed_form (w : World) (d : Dev) (hd : d.inited = false) (hst : w.started = false)
    (hq : ∀ u ∈ d.up, u < w.devs.length → QuietD (w.dev u)) :
    w.addAsset (.dev d) =
      { w with devs := regF w.devs.length ((w.assets.length : Int) + 1) d w.devs,
               groups := regG w.devs.length d w.groups,
               assets := w.assets ++ [AssetRef.dev w.devs.length] } := by
  show w.addDev d = _
  have hs0 : (regDev w d).started = false := by
    have := congrArg RKey.started (RK_regDev w d); exact this.trans hst
  rw [addDev_eq_regDev, hs0]
  simp only [Bool.false_eq_true, if_false]
  rw [regDev_eq w d hd hq]
  simp [Tr.app, regT]

/-- … and the device list `regF` device by device: an existing device `j` only gets the new index
appended to its `down` list, iff it is named as upstream device and the index is not there yet;
the new device is the constructor's record with its asset id, its `up` list, and itself as
downstream neighbour iff it names itself. -/
theorem regF_old (i : Nat) (aid : Int) (d : Dev) (l : List Dev) (hi : i = l.length) (j : Nat)
    (hj : j < l.length) :
    (regF i aid d l).getD j default =
      if j ∈ d.up ∧ i ∉ (l.getD j default).down then addDown i (l.getD j default) else l.getD j default := by
  unfold regF
  rw [links_getD]
  have hne : i ≠ j := by omega
  have e : (setUpL i d.up (l ++ [{ d with aid := aid, up := [] }])).getD j default = l.getD j default := by
    unfold setUpL
    rw [getD_set_ne _ _ _ _ _ hne, getD_append_left _ _ _ _ hj]
  have hl : j < (setUpL i d.up (l ++ [{ d with aid := aid, up := [] }])).length := by
    simp [setUpL]; omega
  rw [e]
  simp [hl]

theorem regF_new (i : Nat) (aid : Int) (d : Dev) (l : List Dev) (hi : i = l.length) :
    (regF i aid d l).getD i default =
      if i ∈ d.up ∧ i ∉ d.down then addDown i { d with aid := aid, up := d.up }
      else { d with aid := aid, up := d.up } := by
  unfold regF
  rw [links_getD]
  have e : (setUpL i d.up (l ++ [{ d with aid := aid, up := [] }])).getD i default =
      { d with aid := aid, up := d.up } := by
    unfold setUpL
    rw [getD_set_same _ _ _ _ (by simp; omega)]
    subst hi
    rw [getD_append_singleton]
  have hl : i < (setUpL i d.up (l ++ [{ d with aid := aid, up := [] }])).length := by
    simp [setUpL]; omega
  rw [e]
  simp [hl]

/-- The other constructors, on the registration key (they touch nothing else but their own
component list and — an output-part sensor initialised at once — the `finSensors` of its
processor). -/
theorem register_maint (w : World) (cap : Option Int) (v : Int) :
    RK (w.addAsset (.maint cap v)) = (RK w).pushMaint w.started := RK_addMaint w cap v
theorem register_sched (w : World) (tt : List (Int × Int)) (cyc : Bool) :
    RK (w.addAsset (.sched tt cyc)) = (RK w).pushSched := RK_addSched w tt cyc
theorem register_sensor (w : World) (sw : SensorW) (h : sw.registered = false) :
    RK (w.addAsset (.sensor sw)) = (RK w).pushSensor w.started := RK_addSensor w sw h
theorem register_cms (w : World) : RK (w.addAsset .cms) = (RK w).pushCms := RK_addCms w
/-- A group registers TWO devices: its input and its output controller. -/
theorem register_group (w : World) (gid : Nat) (dvs ins outs : List Nat) :
    RK (w.addAsset (.group gid dvs ins outs)) =
      ((RK w).pushDev .ginput w.started).pushDev .goutput w.started := RK_addGroup w gid dvs ins outs

/-- Every constructor call appends to the registration list: one entry (two for a group). -/
theorem register_appends (w : World) (spec : AssetSpec) (hs : specFresh spec = true) :
    ∃ new, (w.addAsset spec).assets = w.assets ++ new ∧
      new.length = (match spec with | .group .. => 2 | _ => 1) := by
  cases spec with
  | dev d =>
    exact ⟨_, (register_dev w d (by simpa [specFresh] using hs)).1, rfl⟩
  | group gid dvs ins outs =>
    have := congrArg RKey.assets (register_group w gid dvs ins outs)
    exact ⟨[.dev w.devs.length, .dev (w.devs.length + 1)], by simpa [RK, pushDev] using this, rfl⟩
  | maint cap v =>
    have := congrArg RKey.assets (register_maint w cap v)
    exact ⟨_, by simpa [RK, pushMaint] using this, rfl⟩
  | sched tt cyc =>
    have := congrArg RKey.assets (register_sched w tt cyc)
    exact ⟨_, by simpa [RK, pushSched] using this, rfl⟩
  | sensor sw =>
    have := congrArg RKey.assets (register_sensor w sw (by simpa [specFresh] using hs))
    exact ⟨_, by simpa [RK, pushSensor] using this, rfl⟩
  | cms =>
    have := congrArg RKey.assets (register_cms w)
    exact ⟨_, by simpa [RK, pushCms] using this, rfl⟩

/-! ## 2. initialised exactly once -/

/-- Everything that can happen to a world: constructor calls and scripted operations issued from
outside (fresh payloads), `System.simulate`'s initialisation, the start of a run, event steps
(whose actions may run scripts that construct assets). -/
inductive Reach (w0 : World) : World → Prop
  | init : Reach w0 w0
  | construct {w : World} (spec : AssetSpec) : specFresh spec = true → Reach w0 w → Reach w0 (w.addAsset spec)
  | op {w : World} (o : Op) : opFresh o = true → Reach w0 w → Reach w0 (w.applyOp o).1
  | simulateInit {w : World} : Reach w0 w → Reach w0 w.simulateInit
  | runBegin {w : World} (d : Int) : Reach w0 w → Reach w0 (w.runBegin d).1
  | step {w w' : World} {e : Event} : Reach w0 w → w.step = some (e, w') → Reach w0 w'
  | runLoop {w : World} (n : Nat) : Reach w0 w → Reach w0 (World.runLoop n w)

/-- **The registration invariant holds in every reachable world.** -/
theorem reg_reachable {w0 w : World} (h0 : Reg w0) (hr : Reach w0 w) : Reg w := by
  induction hr with
  | init => exact h0
  | construct spec hs _ ih => exact (Pv_addAsset _ spec hs ih).1
  | op o ho _ ih => exact (Pv_applyOp _ o ho ih).1
  | simulateInit _ ih => exact reg_simulateInit _ ih
  | runBegin d _ ih => exact (Pv.of_same (Same_runBegin _ d) ih).1
  | step _ hs ih => exact (Pv_step hs ih).1
  | runLoop n _ ih => exact (Pv_runLoop n _ ih).1

/-- **Initialised exactly when started, in every reachable world**: every device (maintainer,
sensor) that exists is registered, exactly once, and has been initialised iff `simulate` has been
called (asset id = registration index + 1: `aid_is_index_*` with `reg_reachable`). -/
theorem initialised_iff_started_reachable {w0 w : World} (h0 : Reg w0) (hr : Reach w0 w) :
    w.assets.Nodup ∧
    (∀ d, d < w.devs.length → AssetRef.dev d ∈ w.assets ∧ (w.dev d).inited = w.started) ∧
    (∀ m, m < w.maints.length →
      AssetRef.maint m ∈ w.assets ∧ (w.maints.getD m default).inited = w.started) ∧
    (∀ s, s < w.sensors.length →
      AssetRef.sensor s ∈ w.assets ∧ (w.sensors.getD s default).registered = w.started) := by
  have h := reg_reachable h0 hr
  exact ⟨registered_once h, fun d hd => ⟨dev_registered h d hd, inited_iff_started_dev h d hd⟩,
    fun m hm => ⟨maint_registered h m hm, inited_iff_started_maint h m hm⟩,
    fun s hs => ⟨sensor_registered h s hs, registered_iff_started_sensor h s hs⟩⟩

/-- An event step (whatever its action does: hand-overs, failures, scripts that construct assets,
callbacks, maintenance hooks) never changes `started`, never removes or reorders a registration
entry, and keeps the invariant. -/
theorem step_keeps {w w' : World} {e : Event} (h : Reg w) (hs : w.step = some (e, w')) :
    Reg w' ∧ w'.started = w.started ∧ w.assets <+: w'.assets := Pv_step hs h

/-- The same for a scripted operation (a constructor call included) and for a whole run. -/
theorem applyOp_keeps {w : World} (h : Reg w) (o : Op) (ho : opFresh o = true) :
    Reg (w.applyOp o).1 ∧ (w.applyOp o).1.started = w.started ∧ w.assets <+: (w.applyOp o).1.assets :=
  Pv_applyOp w o ho h
theorem runLoop_keeps {w : World} (h : Reg w) (n : Nat) :
    Reg (runLoop n w) ∧ (runLoop n w).started = w.started ∧ w.assets <+: (runLoop n w).assets :=
  Pv_runLoop n w h

/-- `simulateInit` starts the system … -/
theorem simulateInit_started (w : World) : w.simulateInit.started = true := by
  cases hst : w.started
  · rw [simulateInit_eq w hst]
  · unfold World.simulateInit; rw [if_pos hst]; exact hst

/-- … and a second `simulateInit` is a no-op: nothing is initialised twice. -/
theorem simulateInit_idem (w : World) : w.simulateInit.simulateInit = w.simulateInit := by
  have h := simulateInit_started w
  generalize w.simulateInit = w1 at h
  unfold World.simulateInit
  rw [if_pos h]

/-- On a started system `simulateInit` does nothing at all. -/
theorem simulateInit_of_started (w : World) (h : w.started = true) : w.simulateInit = w := by
  unfold World.simulateInit; rw [if_pos h]

/-- Initialising a cms does nothing (the model's constructor of a cms therefore omits the call). -/
theorem initAsset_cms (w : World) (c : Nat) : w.initAsset (.cms c) = w := rfl

/-! ### the ghost counter

`GW` (`Proofs/C20WGhost.lean`): a world and one counter per registration entry.  `GW.initAsset`
increments the counter of the asset it initialises; a registration appends a counter 0; nothing
else touches the counters.  The `ghost_*_w` theorems say that the instrumented functions are the
model's functions once the counters are forgotten. -/

theorem ghost_addAsset_w (g : GW) (spec : AssetSpec) : (g.addAsset spec).w = g.w.addAsset spec :=
  GW.addAsset_w g spec
theorem ghost_applyOp_w (g : GW) (o : Op) :
    (g.applyOp o).1.w = (g.w.applyOp o).1 ∧ (g.applyOp o).2 = (g.w.applyOp o).2 := GW.applyOp_w g o
theorem ghost_simulateInit_w (g : GW) : g.simulateInit.w = g.w.simulateInit := GW.simulateInit_w g
theorem ghost_exec_w (g : GW) (a : Action) : (g.exec a).w = g.w.exec a := GW.exec_w g a
theorem ghost_step_w (g : GW) : g.step.map (fun p => (p.1, p.2.w)) = g.w.step := GW.step_w g
theorem ghost_runLoop_w (n : Nat) (g : GW) : (GW.runLoop n g).w = World.runLoop n g.w := GW.runLoop_w n g

/-- Reachability of the instrumented model (the same constructors as `Reach`). -/
inductive GReach (w0 : World) : GW → Prop
  | init : GReach w0 ⟨w0, List.replicate w0.assets.length 0⟩
  | construct {g : GW} (spec : AssetSpec) : specFresh spec = true → GReach w0 g → GReach w0 (g.addAsset spec)
  | op {g : GW} (o : Op) : opFresh o = true → GReach w0 g → GReach w0 (g.applyOp o).1
  | simulateInit {g : GW} : GReach w0 g → GReach w0 g.simulateInit
  | runBegin {g : GW} (d : Int) : GReach w0 g → GReach w0 (g.runBegin d).1
  | step {g g' : GW} {e : Event} : GReach w0 g → g.step = some (e, g') → GReach w0 g'
  | runLoop {g : GW} (n : Nat) : GReach w0 g → GReach w0 (GW.runLoop n g)

/-- The instrumentation restricts nothing: the worlds of the instrumented model are exactly the
reachable worlds. -/
theorem greach_reach {w0 : World} {g : GW} (h : GReach w0 g) : Reach w0 g.w := by
  induction h with
  | init => exact Reach.init
  | construct spec hs _ ih => rw [GW.addAsset_w]; exact Reach.construct spec hs ih
  | op o ho _ ih => rw [(GW.applyOp_w _ o).1]; exact Reach.op o ho ih
  | simulateInit _ ih => rw [GW.simulateInit_w]; exact Reach.simulateInit ih
  | runBegin d _ ih => exact Reach.runBegin d ih
  | @step g g' e _ hs ih =>
    have h1 := GW.step_w g
    rw [hs] at h1
    exact Reach.step ih h1.symm
  | runLoop n _ ih => rw [GW.runLoop_w]; exact Reach.runLoop n ih

theorem reach_greach {w0 w : World} (h : Reach w0 w) : ∃ g, GReach w0 g ∧ g.w = w := by
  induction h with
  | init => exact ⟨_, GReach.init, rfl⟩
  | construct spec hs _ ih =>
    obtain ⟨g, hg, rfl⟩ := ih
    exact ⟨_, GReach.construct spec hs hg, GW.addAsset_w g spec⟩
  | op o ho _ ih =>
    obtain ⟨g, hg, rfl⟩ := ih
    exact ⟨_, GReach.op o ho hg, (GW.applyOp_w g o).1⟩
  | simulateInit _ ih =>
    obtain ⟨g, hg, rfl⟩ := ih
    exact ⟨_, GReach.simulateInit hg, GW.simulateInit_w g⟩
  | runBegin d _ ih =>
    obtain ⟨g, hg, rfl⟩ := ih
    exact ⟨_, GReach.runBegin d hg, rfl⟩
  | @step w w' e _ hs ih =>
    obtain ⟨g, hg, rfl⟩ := ih
    have h1 := GW.step_w g
    rw [hs] at h1
    cases hgs : g.step with
    | none => rw [hgs] at h1; cases h1
    | some q =>
      obtain ⟨e', g'⟩ := q
      rw [hgs] at h1
      simp only [Option.map_some, Option.some.injEq, Prod.mk.injEq] at h1
      exact ⟨g', GReach.step hg (h1.1 ▸ hgs), h1.2⟩
  | runLoop n _ ih =>
    obtain ⟨g, hg, rfl⟩ := ih
    exact ⟨_, GReach.runLoop n hg, GW.runLoop_w n g⟩

/-- **Initialised exactly once.**  In every world reachable from a not-started world satisfying
the registration invariant, the ghost counter of every registered asset is 1 if the system has
started and 0 otherwise. -/
theorem count_reachable {w0 : World} {g : GW} (h0 : Reg w0) (hs0 : w0.started = false)
    (hr : GReach w0 g) :
    g.cnt = List.replicate g.w.assets.length (if g.w.started then 1 else 0) := by
  have key : GW.GInv g := by
    induction hr with
    | init => exact ⟨h0, by unfold GW.CntOK; simp [hs0]⟩
    | construct spec hs _ ih => exact GW.GPv_addAsset _ spec hs ih
    | op o ho _ ih => exact GW.GPv_applyOp _ o ho ih
    | simulateInit _ ih => exact GW.GPv_simulateInit _ ih
    | runBegin d _ ih => exact GW.GPv_runBegin _ d ih
    | step _ hs ih => exact GW.GPv_step hs ih
    | runLoop n _ ih => exact GW.GPv_runLoop n _ ih
  exact key.2

/-- Per asset: the counter at registration index `i`. -/
theorem count_reachable_at {w0 : World} {g : GW} (h0 : Reg w0) (hs0 : w0.started = false)
    (hr : GReach w0 g) (i : Nat) (hi : i < g.w.assets.length) :
    g.cnt[i]? = some (if g.w.started then 1 else 0) := by
  rw [count_reachable h0 hs0 hr, List.getElem?_replicate, if_pos hi]

/-! ## 3. late creation = early creation, shifted -/

/-- The registration half of a constructor call: everything the constructor does before
`System.add_asset` looks at the `started` flag (for a device: `regDev`, i.e. append, wire up,
register a group path). -/
def registerOnly (w : World) : AssetSpec → World
  | .dev d => regDev w d
  | .maint cap v =>
    { w with maints := w.maints ++ [({ m := { cap := cap, val := { init := v, value := v } }, aid := w.assets.length + 1 } : MaintW)],
             assets := w.assets ++ [AssetRef.maint w.maints.length] }
  | .sched tt cyc =>
    { w with scheds := w.scheds ++ [({ s := { tt := tt, cyc := cyc }, aid := w.assets.length + 1 } : SchedW)],
             assets := w.assets ++ [AssetRef.sched w.scheds.length] }
  | .sensor sw =>
    { w with sensors := w.sensors ++ [{ sw with aid := w.assets.length + 1 }],
             assets := w.assets ++ [AssetRef.sensor w.sensors.length] }
  | .cms =>
    { w with assets := w.assets ++ [AssetRef.cms w.cmsSensors.length], cmsSensors := w.cmsSensors ++ [[]] }
  | .group gid dvs ins outs => w.addAsset (.group gid dvs ins outs)

/-- The registration entry of the new asset. -/
def newRef (w : World) : AssetSpec → AssetRef
  | .dev _ => .dev w.devs.length
  | .maint _ _ => .maint w.maints.length
  | .sched _ _ => .sched w.scheds.length
  | .sensor _ => .sensor w.sensors.length
  | .cms => .cms w.cmsSensors.length
  | .group _ _ _ _ => .dev w.devs.length

def isGroup : AssetSpec → Bool
  | .group _ _ _ _ => true
  | _ => false

/-- The scripted / external operation `create` is the constructor call. -/
theorem create_is_addAsset (w : World) (spec : AssetSpec) :
    w.applyOp (.create spec) = (w.addAsset spec, .ok) := rfl

/-- **`create_started`**: on a started system (at time `t = w.now`) the constructor call is the
registration followed by `initAsset` of the new asset — at once, at time `t`
(`registerOnly_now`). -/
theorem create_started (w : World) (spec : AssetSpec) (hst : w.started = true) (hg : isGroup spec = false) :
    (w.applyOp (.create spec)).1 = (registerOnly w spec).initAsset (newRef w spec) := by
  show w.addAsset spec = _
  cases spec with
  | dev d =>
    have hs1 : (regDev w d).started = true := by
      have := congrArg RKey.started (RK_regDev w d); exact this.trans hst
    show w.addDev d = _
    rw [addDev_eq_regDev, hs1]; rfl
  | group gid dvs ins outs => cases hg
  | maint cap v =>
    unfold World.addAsset
    show (if w.started = true then (_ : World) else _) = _
    rw [if_pos hst]; rfl
  | sched tt cyc =>
    unfold World.addAsset
    show (if w.started = true then (_ : World) else _) = _
    rw [if_pos hst]; rfl
  | sensor sw =>
    unfold World.addAsset
    show (if w.started = true then (_ : World) else _) = _
    rw [if_pos hst]; rfl
  | cms => rfl

/-- On a system that has not started the constructor call only registers … -/
theorem create_not_started (w : World) (spec : AssetSpec) (hst : w.started = false) :
    (w.applyOp (.create spec)).1 = registerOnly w spec := by
  show w.addAsset spec = _
  cases spec with
  | dev d =>
    have hs1 : (regDev w d).started = false := by
      have := congrArg RKey.started (RK_regDev w d); exact this.trans hst
    show w.addDev d = _
    rw [addDev_eq_regDev, hs1]; rfl
  | group gid dvs ins outs => rfl
  | maint cap v =>
    unfold World.addAsset
    show (if w.started = true then (_ : World) else _) = _
    rw [if_neg (by simp [hst])]; rfl
  | sched tt cyc =>
    unfold World.addAsset
    show (if w.started = true then (_ : World) else _) = _
    rw [if_neg (by simp [hst])]; rfl
  | sensor sw =>
    unfold World.addAsset
    show (if w.started = true then (_ : World) else _) = _
    rw [if_neg (by simp [hst])]; rfl
  | cms => rfl

/-- … the clock is not touched by the registration … -/
theorem registerOnly_now (w : World) (spec : AssetSpec) (hg : isGroup spec = false) :
    (registerOnly w spec).now = w.now := by
  cases spec with
  | dev d => exact (keeps_regDev w d 0).2
  | group gid dvs ins outs => cases hg
  | maint cap v => rfl
  | sched tt cyc => rfl
  | sensor sw => rfl
  | cms => rfl

/-- … and `simulateInit` initialises the resource manager and then every registered asset, in
registration order (`sweepW` = the fold of `initAsset` over the registration list) — the asset
constructed before the start together with the others. -/
theorem simulateInit_sweep (w : World) (hst : w.started = false) :
    w.simulateInit = { sweepW (rmStart w) w.assets with started := true } := by
  rw [simulateInit_eq w hst, (Same_rmStart w).assets]

/-- A group is two device constructor calls (each registered and, on a started system,
initialised at once) with the rewiring of the group's first and last devices in between. -/
theorem create_group (w : World) (gid : Nat) (dvs ins outs : List Nat) :
    w.addAsset (.group gid dvs ins outs) =
      let ins' := if ins.isEmpty then dvs.take 1 else ins
      let outs' := if outs.isEmpty then dvs.getLast?.toList else outs
      let gi := w.devs.length
      let groups := if w.groups.length ≤ gid then w.groups ++ List.replicate (gid + 1 - w.groups.length) ({} : Group) else w.groups
      let w1 : World := { w with groups := groups.set gid { paths := [], input := gi, output := gi + 1 } }
      let w2 := w1.addDev { kind := .ginput, group := gid }
      let w3 := ins'.foldl (fun w d => w.rewire d [gi]) w2
      (w3.addDev { kind := .goutput, group := gid }).rewire (gi + 1) outs' := rfl

/-- The side conditions of the commutation theorem.  None for maintainers, schedulers, sensors and
cms; for a device: a constructor-fresh record, every output-part sensor is attached to an
existing device, and connecting the new device wakes no upstream device: in the world after
`simulateInit` with the new device appended (`appendedW`), every named upstream device is not
initialised or the notification `space_available_downstream` from it changes nothing
(`QuietU`, decidable: `quietSA` mirrors the recursion of the notification through gates and group
controllers and checks that no part handler on the way is waiting for space downstream and that
the recursion budget suffices; `spaceAvail_quiet`). -/
def CommuteOK (w : World) : AssetSpec → Prop
  | .dev d => d.inited = false ∧ SensorsWired w ∧
      ∀ u ∈ d.up, QuietU (appendedW w.simulateInit d) u
  | .group _ _ _ _ => False
  | _ => True

instance (w : World) (spec : AssetSpec) : Decidable (CommuteOK w spec) := by
  cases spec <;> unfold CommuteOK <;> infer_instance

/-- **Construct-then-start = start-then-construct.**  For a not-started world satisfying the
registration invariant the two orders give the same world — every field, the event queue with
uids and weights included. -/
theorem create_commutes (w : World) (spec : AssetSpec) (hst : w.started = false) (hr : Reg w)
    (hc : CommuteOK w spec) :
    w.simulateInit.addAsset spec = (w.addAsset spec).simulateInit := by
  cases spec with
  | dev d => exact commute_dev' w d hst hr hc.2.1 hc.1 hc.2.2
  | group gid dvs ins outs => exact absurd hc id
  | maint cap v => exact commute_maint w cap v hst hr
  | sched tt cyc => exact commute_sched w tt cyc hst hr
  | sensor sw => exact commute_sensor w sw hst hr
  | cms => exact commute_cms w hst hr

/-- The same in terms of the operation `create`. -/
theorem create_commutes_op (w : World) (spec : AssetSpec) (hst : w.started = false) (hr : Reg w)
    (hc : CommuteOK w spec) :
    (w.simulateInit.applyOp (.create spec)).1 = (w.applyOp (.create spec)).1.simulateInit :=
  create_commutes w spec hst hr hc

/-- Maintainers, schedulers, sensors and cms: unconditionally. -/
theorem create_commutes_nondev (w : World) (spec : AssetSpec) (hst : w.started = false) (hr : Reg w)
    (hd : ∀ d, spec ≠ .dev d) (hg : isGroup spec = false) :
    w.simulateInit.addAsset spec = (w.addAsset spec).simulateInit := by
  refine create_commutes w spec hst hr ?_
  cases spec with
  | dev d => exact absurd rfl (hd d)
  | group gid dvs ins outs => cases hg
  | maint cap v => trivial
  | sched tt cyc => trivial
  | sensor sw => trivial
  | cms => trivial

/-- A sufficient condition for devices in terms of the world before the start: every named
upstream device is a part handler (source, handler, processor, buffer, batcher — not a flow
controller) that is not waiting for space downstream. -/
theorem create_commutes_of_idle_upstream (w : World) (d : Dev) (hst : w.started = false) (hr : Reg w)
    (hs : SensorsWired w) (hd : d.inited = false)
    (hu : ∀ u ∈ d.up, u < w.devs.length →
      isHandlerLike (w.dev u).kind = true ∧ (w.dev u).waitingDS = false) :
    w.simulateInit.addAsset (.dev d) = (w.addAsset (.dev d)).simulateInit :=
  commute_dev w d hst hr hs hd
    (fun u hm hlt => quiet_simulateInit w u (hu u hm hlt).1 (hu u hm hlt).2)

/-! ## 4. invariants survive creation -/

/-- The registration invariant. -/
theorem reg_create (w : World) (spec : AssetSpec) (h : Reg w) (hs : specFresh spec = true) :
    Reg (w.applyOp (.create spec)).1 := (Pv_addAsset w spec hs h).1

/-- The closed-world queue invariant `C01W.Good`, and the event queue is only touched through
library operations (C01W). -/
theorem good_create (w : World) (spec : AssetSpec) (g : C01W.Good w) :
    C01W.Good (w.applyOp (.create spec)).1 ∧ C01W.Refines w.env (w.applyOp (.create spec)).1.env :=
  C01W.env_refines_addAsset w spec g

/-- Conservation of parts (`C02.ConsS`) for a constructor-fresh device (empty slots). -/
theorem consS_create (w : World) (spec : AssetSpec) (h : C02.ConsS w) (hs : C02.SpecOK spec) :
    C02.ConsS (w.applyOp (.create spec)).1 := C02.consS_applyOp w (.create spec) h hs

/-- No constructor call touches the resource manager … -/
theorem rm_create (w : World) (spec : AssetSpec) : (w.applyOp (.create spec)).1.rm = w.rm :=
  addAsset_rm w spec

/-- … so `C09.Inv` (and the `inited` flag of the manager) survive. -/
theorem rmInv_create (w : World) (spec : AssetSpec) (h : C09.Inv w.rm) :
    C09.Inv (w.applyOp (.create spec)).1.rm := by rw [rm_create]; exact h

/-- **A processor constructed at time `t`** (on a started system, from a constructor-fresh record:
operational, bookkeeping invariant of the record): the invariant `C13.UpInv` holds for it, its
uptime interval is opened at `t` (`lastRestore = t`), its public `uptime` is the constructor's
value (0 for a fresh machine), its utilisation is the record's, the clock is not moved. -/
theorem late_processor_bookkeeping (w : World) (d : Dev) (hst : w.started = true)
    (hk : d.kind = .processor) (hs : d.shutDown = false) (hu : d.UpInv) :
    let w' := (w.applyOp (.create (.dev d))).1
    C13.UpInv w' w.devs.length ∧ C13.uptimeAt w' w.devs.length = d.uptime ∧
    C13.utilAt w' w.devs.length = d.utilAt w.now ∧ w'.now = w.now ∧
    (w'.dev w.devs.length).lastRestore = some w.now := by
  obtain ⟨h1, h2, h3, h4, h5, _, _⟩ := late_processor w d hst hk hs hu
  exact ⟨h1, h2, h3, h4, h5⟩

/-- … and from `t` on its uptime is the time elapsed since its creation: when only the clock
advances to `t'`, `uptime = (constructor's value) + (t' − t)`.  (`C13.UpInv` is kept by every
later call on the machine: the preservation theorems of `Props/C13.lean`.) -/
theorem late_processor_uptime (w : World) (d : Dev) (hst : w.started = true)
    (hk : d.kind = .processor) (hs : d.shutDown = false) (hu : d.UpInv) (t' : Int) :
    C13.uptimeAt (C13.advance (w.applyOp (.create (.dev d))).1 t') w.devs.length =
      d.uptime + (t' - w.now) := by
  obtain ⟨h1, h2, _, h4, _, h6, _⟩ := late_processor w d hst hk hs hu
  have := C13.uptime_rate (w.addDev d) w.devs.length t' h1
  rw [h2, h6, h4] at this
  show C13.uptimeAt (C13.advance (w.addDev d) t') w.devs.length = _
  simpa using this

/-- The bookkeeping of the machines that exist already is not disturbed by a device constructor
call: invariant, public `uptime` and `utilization_time` are unchanged. -/
theorem old_processors_undisturbed (w : World) (d : Dev) (x : Nat) (hx : x < w.devs.length) :
    let w' := (w.applyOp (.create (.dev d))).1
    (C13.UpInv w' x ↔ C13.UpInv w x) ∧ C13.uptimeAt w' x = C13.uptimeAt w x ∧
    C13.utilAt w' x = C13.utilAt w x := addDev_upInv_old w d x hx

/-! ## 5. the side conditions are necessary -/

/-- a sink downstream of device 0 -/
def sinkSpec : AssetSpec := .dev { kind := .sink, up := [0] }

/-- A not-started world whose only device, a handler, is (already) waiting for space downstream. -/
def cexWait : World :=
  { devs := [{ kind := .handler, aid := 1, waitingDS := true }], assets := [.dev 0] }

/-- **`create_commutes` is false without the "not waiting" condition**: a sink constructed AFTER the
start wakes the waiting upstream handler (a `PASS_PART` event is scheduled at once), a sink
constructed BEFORE the start does not (the handler is not initialised yet when it is wired). -/
theorem commute_false_waiting :
    Reg cexWait ∧ cexWait.started = false ∧ SensorsWired cexWait ∧
    (cexWait.simulateInit.addAsset sinkSpec).env.events.length = 1 ∧
    ((cexWait.addAsset sinkSpec).simulateInit).env.events.length = 0 ∧
    ¬ CommuteOK cexWait sinkSpec := by
  refine ⟨by decide, rfl, by decide, by decide, by decide, ?_⟩
  intro h
  have := h.2.2 0 (by decide)
  revert this
  decide

/-- Two gates that are each other's upstream device. -/
def cexGate : World :=
  { devs := [{ kind := .gate, aid := 1, up := [1], down := [1] }, { kind := .gate, aid := 2, up := [0], down := [0] }],
    assets := [.dev 0, .dev 1] }

/-- **`create_commutes` is false for an upstream flow controller in general**: wiring a sink to a
started gate notifies upstream through the gates; in a gate cycle the notification runs out of
its recursion budget (the model's error `fuel`; the library recurses without a bound).  Before
the start nothing is notified. -/
theorem commute_false_gate_cycle :
    Reg cexGate ∧ cexGate.started = false ∧ SensorsWired cexGate ∧
    (cexGate.simulateInit.addAsset sinkSpec).error = some "fuel" ∧
    ((cexGate.addAsset sinkSpec).simulateInit).error = none ∧ ¬ CommuteOK cexGate sinkSpec := by
  refine ⟨by decide, rfl, by decide, by decide, by decide, by decide⟩

/-- An output-part sensor registered for a processor that does not exist yet. -/
def cexSensor : World :=
  { sensors := [{ s := { kind := .output }, aid := 1, proc := 0 }], assets := [.sensor 0] }

/-- **`create_commutes` is false with a dangling sensor attachment**: the sensor's initialisation
attaches it to device 0 only if device 0 exists at that moment. -/
theorem commute_false_dangling_sensor :
    Reg cexSensor ∧ cexSensor.started = false ∧ ¬ SensorsWired cexSensor ∧
    ((cexSensor.simulateInit.addAsset (.dev { kind := .processor })).dev 0).finSensors = [] ∧
    (((cexSensor.addAsset (.dev { kind := .processor })).simulateInit).dev 0).finSensors = [0] := by
  refine ⟨by decide, rfl, by decide, by decide, by decide⟩

/-- **`reg_reachable` is false for a stale constructor payload**: a device record that claims to be
initialised already breaks "initialised iff started". -/
theorem reg_false_stale_spec :
    Reg ({} : World) ∧ specFresh (.dev { kind := .sink, inited := true }) = false ∧
    ¬ Reg (({} : World).addAsset (.dev { kind := .sink, inited := true })) := by
  refine ⟨by decide, rfl, by decide⟩

/-! ### non-vacuity -/

/-- Script 0 (run by an event at time 4, while the simulation is running) constructs a sink
downstream of the processor, a maintainer, a periodic sensor and a cms. -/
def ex0 : World :=
  { scripts := [[Op.create (.dev { kind := .sink, up := [1] }), Op.create (.maint (some 2) 5),
                 Op.create (.sensor { s := { kind := .periodic, interval := 3 } }), Op.create .cms]] }

/-- source → processor, a scheduler, built by the constructors before the start; script 0 is
scheduled for time 4. -/
def ex1 : World :=
  ((((ex0.addAsset (.dev { kind := .source, cycle := 2, maxParts := some 3 })).addAsset
    (.dev { kind := .processor, up := [0], cycle := 1 })).addAsset (.sched [(3, 1), (2, 0)] true)).applyOp
      (.sched 4 0 0 8)).1

/-- `System.simulate(10)`. -/
def ex2 : World := runLoop 40 (ex1.simulateInit.runBegin 10).1

theorem reach_ex2 : Reach ex0 ex2 :=
  Reach.runLoop 40 (Reach.runBegin 10 (Reach.simulateInit (Reach.op _ rfl
    (Reach.construct _ rfl (Reach.construct _ rfl (Reach.construct _ rfl Reach.init))))))

-- the hypotheses are satisfiable …
example : Reg ex0 ∧ ex0.started = false := by decide
-- … the theorem applies to the state after the run …
example : Reg ex2 := reg_reachable (by decide) reach_ex2
-- … in which four assets were constructed late, registered in order with consecutive asset ids
-- and initialised (the new sink has received parts: the late wiring works)
example : ex2.assets = [.dev 0, .dev 1, .sched 0, .dev 2, .maint 0, .sensor 0, .cms 0] ∧
    ex2.started = true ∧ (ex2.dev 2).kind = .sink ∧ (ex2.dev 2).aid = 4 ∧ (ex2.dev 2).inited = true ∧
    (ex2.maints.getD 0 default).aid = 5 ∧ (ex2.maints.getD 0 default).inited = true ∧
    (ex2.sensors.getD 0 default).aid = 6 ∧ (ex2.sensors.getD 0 default).registered = true ∧
    (ex2.dev 1).down = [2] ∧ (ex2.dev 2).recvCount = 3 ∧ ex2.error = none := by decide
-- … consistent with the theorems (instances)
example : (ex2.dev 2).inited = ex2.started :=
  inited_iff_started_dev (reg_reachable (by decide) reach_ex2) 2 (by decide)
example : (ex2.dev 2).aid = 4 :=
  aid_is_index_dev (reg_reachable (by decide) reach_ex2) 3 2 (by decide)

/-- the same run in the instrumented model -/
def gex2 : GW :=
  GW.runLoop 40 ((((((((⟨ex0, []⟩ : GW).addAsset (.dev { kind := .source, cycle := 2, maxParts := some 3 })).addAsset
    (.dev { kind := .processor, up := [0], cycle := 1 })).addAsset (.sched [(3, 1), (2, 0)] true)).applyOp
      (.sched 4 0 0 8)).1).simulateInit).runBegin 10).1

theorem greach_gex2 : GReach ex0 gex2 :=
  GReach.runLoop 40 (GReach.runBegin 10 (GReach.simulateInit (GReach.op _ rfl
    (GReach.construct _ rfl (GReach.construct _ rfl (GReach.construct _ rfl GReach.init))))))

-- every one of the seven assets was initialised exactly once: three by `simulateInit`, four at
-- their (late) construction
example : gex2.cnt = [1, 1, 1, 1, 1, 1, 1] ∧ gex2.w.assets.length = 7 := by decide
example : gex2.cnt = List.replicate gex2.w.assets.length (if gex2.w.started then 1 else 0) :=
  count_reachable (by decide) rfl greach_gex2
-- before the start nothing is initialised
example : ((((⟨ex0, []⟩ : GW).addAsset (.dev { kind := .source, cycle := 2 })).addAsset
    (.dev { kind := .processor, up := [0] })).cnt) = [0, 0] := by decide

/-- the world before the start, without the scheduled script -/
def ex3 : World :=
  ((ex0.addAsset (.dev { kind := .source, cycle := 2, maxParts := some 3 })).addAsset
    (.dev { kind := .processor, up := [0], cycle := 1 })).addAsset (.sched [(3, 1), (2, 0)] true)

-- construct-then-start = start-then-construct, for a sink downstream of the processor, a
-- maintainer, a scheduler, a sensor attached to the processor, a cms …
example : ex3.simulateInit.addAsset (.dev { kind := .sink, up := [1] }) =
    (ex3.addAsset (.dev { kind := .sink, up := [1] })).simulateInit :=
  create_commutes_of_idle_upstream ex3 _ rfl (by decide) (by decide) rfl (by decide)
example : ex3.simulateInit.addAsset (.sensor { s := { kind := .output }, proc := 1 }) =
    (ex3.addAsset (.sensor { s := { kind := .output }, proc := 1 })).simulateInit :=
  create_commutes ex3 _ rfl (by decide) trivial
example : CommuteOK ex3 (.dev { kind := .sink, up := [1] }) := by decide
-- … and the common world is not trivial: two initial events (source cycle, scheduler update),
-- the new sink initialised, the processor wired to it
example : (ex3.simulateInit.addAsset (.dev { kind := .sink, up := [1] })).env.events.length = 2 ∧
    ((ex3.simulateInit.addAsset (.dev { kind := .sink, up := [1] })).dev 1).down = [2] ∧
    ((ex3.simulateInit.addAsset (.dev { kind := .sink, up := [1] })).dev 2).inited = true := by decide

/-- source → gate: the new sink is wired behind a flow controller -/
def ex4 : World :=
  (ex0.addAsset (.dev { kind := .source, cycle := 2, maxParts := some 3 })).addAsset
    (.dev { kind := .gate, up := [0] })

-- the general condition covers upstream flow controllers (the notification runs from the gate
-- to the source, which is not waiting)
example : ex4.simulateInit.addAsset (.dev { kind := .sink, up := [1] }) =
    (ex4.addAsset (.dev { kind := .sink, up := [1] })).simulateInit :=
  create_commutes ex4 _ rfl (by decide) (by decide)

-- a processor constructed at time 10 (after the run): uptime 0 at creation, 3 at time 13
example : C13.uptimeAt (C13.advance (ex2.applyOp (.create (.dev { kind := .processor, cycle := 1 }))).1 13) 3 = 3 := by
  have h := late_processor_uptime ex2 { kind := .processor, cycle := 1 } (by decide) rfl rfl
    ⟨by simp, by simp⟩ 13
  have e : ex2.devs.length = 3 := by decide
  have e2 : ex2.now = 10 := by decide
  rw [e, e2] at h
  simpa using h
example : C13.UpInv (ex2.applyOp (.create (.dev { kind := .processor }))).1 3 := by
  have h := (late_processor_bookkeeping ex2 { kind := .processor } (by decide) rfl rfl C13.upInv_fresh).1
  have e : ex2.devs.length = 3 := by decide
  rw [e] at h
  exact h

end C20W
end SimProc
