/-
C07R — repeated pause / resume cycles of ONE event.

`Props/C07.lean` states the remaining-delay law for one resume.  The statement below is its
repetition-safe form: an event that is paused and resumed any number of times fires at its original
time plus the SUM of the pause lengths, whatever pause stamp an earlier cycle left on it (neither
the library nor the model clears `paused_at` on resume; every new pause overwrites it).  A change
that keeps a stale stamp ("set `paused_at` only when it is `None`") satisfies every one-cycle
statement and breaks this one.

Between the calls the clock moves (other events run); `Env.at` models that: it changes `now` only.
All amounts of time use `Arith.exact`.
-/
import SimProc.Props.C07

namespace SimProc
namespace C07R

open C07

/-- The clock has moved to `n` (events of other assets ran; the queue entries this file follows are
not touched by that: `C07.pause_frame`, `C07.later_events_unaffected_pause`). -/
def Env.at (s : Env) (n : Int) : Env := { s with now := n }

/-- One cycle: at time `pn.1` the asset's events are paused, at time `pn.2` they are resumed. -/
def cycle (a : Int) (s : Env) (pn : Int × Int) : Env :=
  ((Env.at s pn.1).pause a |> (Env.at · pn.2)).unpause Arith.exact a

/-- Sum of the pause lengths. -/
def total : List (Int × Int) → Int
  | [] => 0
  | (p, n) :: r => (n - p) + total r

/-- The cycles are well timed for an event due at `t` when the clock shows `now`: each pause is not
before the clock, not after the (shifted) due time — otherwise the event would have run — and each
resume is not before its pause. -/
def Timed : Int → Int → List (Int × Int) → Prop
  | _, _, [] => True
  | t, now, (p, n) :: r => now ≤ p ∧ p ≤ t ∧ p ≤ n ∧ Timed (t + (n - p)) n r

/-- A new pause stamps the CURRENT time on the event, whatever stamp it carried. -/
theorem pause_stamps_now (s : Env) (a : Int) (e : Event) (he : e ∈ s.events) (ha : e.asset = a) :
    { e with pausedAt := some s.now } ∈ (s.pause a).paused := by
  unfold Env.pause
  refine List.mem_append.mpr (Or.inr ?_)
  exact List.mem_map.mpr ⟨e, List.mem_filter.mpr ⟨he, by simpa using ha⟩, rfl⟩

/-- One cycle shifts the event by exactly the length of THIS pause, whatever `e.pausedAt` was. -/
theorem cycle_exact (s : Env) (a : Int) (e : Event) (p n : Int)
    (he : e ∈ s.events) (ha : e.asset = a) (hpt : p ≤ e.time) (hpn : p ≤ n) :
    ∃ e' ∈ (cycle a s (p, n)).events,
      e'.uid = e.uid ∧ e'.asset = a ∧ e'.act = e.act ∧ e'.prio = e.prio ∧
      e'.cancelled = e.cancelled ∧ e'.time = e.time + (n - p) := by
  have h1 : { e with pausedAt := some p } ∈ ((Env.at s p).pause a).paused :=
    pause_stamps_now (Env.at s p) a e he ha
  refine ⟨{ e with pausedAt := some p, time := shiftTime Arith.exact n e.time p }, ?_,
    rfl, ha, rfl, rfl, rfl, unpause_shift_exact n e.time p hpt hpn⟩
  unfold cycle
  refine (unpause_perm Arith.exact _ a).mem_iff.mpr ?_
  refine List.mem_append.mpr (Or.inl ?_)
  unfold resumed
  refine List.mem_map.mpr ⟨{ e with pausedAt := some p }, List.mem_filter.mpr ⟨h1, by simpa using ha⟩, ?_⟩
  rfl

/-- **Any number of cycles**: the event ends up due at its original time plus the sum of the pause
lengths, so its remaining delay is preserved across every interruption. -/
theorem cycles_exact (a : Int) (cs : List (Int × Int)) :
    ∀ (s : Env) (e : Event), e ∈ s.events → e.asset = a → Timed e.time s.now cs →
    ∃ e' ∈ (cs.foldl (cycle a) s).events,
      e'.uid = e.uid ∧ e'.asset = a ∧ e'.act = e.act ∧ e'.prio = e.prio ∧
      e'.cancelled = e.cancelled ∧ e'.time = e.time + total cs := by
  induction cs with
  | nil =>
    intro s e he ha _
    exact ⟨e, he, rfl, ha, rfl, rfl, rfl, by simp [total]⟩
  | cons pn r ih =>
    obtain ⟨p, n⟩ := pn
    intro s e he ha ht
    obtain ⟨_, hpt, hpn, hr⟩ := ht
    obtain ⟨e1, he1, hu1, ha1, hact1, hp1, hc1, ht1⟩ := cycle_exact s a e p n he ha hpt hpn
    have hnow : (cycle a s (p, n)).now = n := rfl
    have hr' : Timed e1.time (cycle a s (p, n)).now r := by rw [ht1, hnow]; exact hr
    obtain ⟨e2, he2, hu2, ha2, hact2, hp2, hc2, ht2⟩ := ih (cycle a s (p, n)) e1 he1 ha1 hr'
    refine ⟨e2, he2, hu2.trans hu1, ha2, hact2.trans hact1, hp2.trans hp1, hc2.trans hc1, ?_⟩
    rw [ht2, ht1]; simp only [total]; omega

/-- Non-vacuity: two cycles (pause 2–5, pause 6–10) of an event due at 8 — it ends up due at 15;
with a stale first stamp kept it would be 8 + 3 + (10 − 2) = 19. -/
def exE : Event := { uid := 0, time := 8, prio := 0, weight := 0, asset := 1, act := 1 }
def exS : Env := { now := 0, events := [exE] }

example : Timed exE.time exS.now [(2, 5), (6, 10)] := by
  simp [Timed, exE, exS]

example : (([(2, 5), (6, 10)].foldl (cycle 1) exS).events.map (·.time)) = [15] := by
  decide

end C07R
end SimProc
