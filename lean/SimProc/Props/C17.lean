/-
C17 — the part batcher (`part_batcher.py`): "A batcher configured with size n emits batches of
exactly n parts, a batcher configured for single parts emits parts one by one, and in both cases the
concatenated sequence of parts leaving equals the sequence of parts arriving (input batches are
unpacked front to back); the batcher accepts new input only when it has nothing left to unpack and
nothing waiting to leave."

All theorems are about the MODEL functions `World.batcherLoop`, `World.tryMove`,
`World.canAcceptBasic`, `World.give`, `World.acceptPart` (SimProc/Model/Floor.lean).  The
definitions they are stated with live in SimProc/Proofs/C17Lemmas.lean:

* `seqOf w x : List Nat` — leaves of the output ++ parts of the batch under construction ++ leaves
  of the input of device `x`, i.e. the parts inside the batcher in the order in which they leave;
* `Wf w x` (decidable) — structural well-formedness of batcher `x`: the shell of the batch under
  construction is an existing part (`< w.parts.length`) different from the input part; a batcher
  for single parts (`bsize = none`) has no batch under construction and the parts of its input
  batch are single parts;
* `InputNonempty w x` (decidable) — the input is not an EMPTY batch: the precondition under which
  `tryMove` enters `batcherLoop` (`tryMove` drops an empty input batch first);
* `Item`, `BSt`, `BSt.step`, `BSt.loop`, `abs` — an abstract list machine (state: output item,
  parts of the batch under construction, input item) and the abstraction function.

No hypothesis `x < w.devs.length` or `kind = batcher` is needed for `batcherLoop` (it does not look
at the kind, and does nothing on a device index that is out of range); no hypothesis on the output
slot is needed (the loop only runs while it is empty).
-/
import SimProc.Proofs.C17Lemmas

namespace SimProc
namespace C17
open World FloorCoreL

variable {w : World} {x : Nat}

/-! ### 0. `batcherLoop` refines the abstract list machine -/

/-- The loop unfolds into iterations of its body: `batcherStep` (= `_get_part_from_input` followed
by `_add_part_to_output`, the identity once the output is set or the input is exhausted). -/
theorem batcherLoop_unfold (f : Nat) (w : World) (x : Nat) :
    batcherLoop (f + 1) w x = batcherLoop f (batcherStep w x) x :=
  batcherLoop_succ f w x

/-- Well-formedness, non-emptiness of the input batch and the configured size are invariants of
the loop (for every fuel). -/
theorem wf_batcherLoop (n : Nat) (hwf : Wf w x) (hne : InputNonempty w x) :
    Wf (batcherLoop n w x) x ∧ InputNonempty (batcherLoop n w x) x ∧
    ((batcherLoop n w x).dev x).bsize = (w.dev x).bsize :=
  let ⟨a, b, c, _⟩ := batcherLoop_refines n hwf hne; ⟨a, b, c⟩

/-- Refinement: seen through the abstraction function `abs` (output item, parts of the batch under
construction, input item), `n` iterations of the model loop are `n` iterations of the abstract list
machine `BSt.step` — take the FIRST part of the input item; single mode: it becomes the output;
batch mode: append it to the batch under construction, which becomes the output when it holds `n`
parts. -/
theorem abs_batcherLoop (n : Nat) (hwf : Wf w x) (hne : InputNonempty w x) :
    abs (batcherLoop n w x) x = BSt.loop (w.dev x).bsize n (abs w x) :=
  (batcherLoop_refines n hwf hne).2.2.2

/-! ### 1. order preservation -/

/-- `seqOf` is what the abstract state contains, in order. -/
theorem seqOf_eq_abs (w : World) (x : Nat) : seqOf w x = (abs w x).seq := (seq_abs w x).symm

/-- The internal move preserves the sequence of parts inside the batcher: after any number of
iterations, output leaves ++ parts of the batch under construction ++ remaining input leaves is the
same list as before (input batches are unpacked front to back, nothing is lost, duplicated or
reordered). -/
theorem seqOf_batcherLoop (n : Nat) (hwf : Wf w x) (hne : InputNonempty w x) :
    seqOf (batcherLoop n w x) x = seqOf w x := by
  rw [← seq_abs, ← seq_abs, abs_batcherLoop n hwf hne, BSt.loop_seq n (abs_ok hwf hne)]

private theorem batcherLoop_dev_self' (n : Nat) (w : World) (x : Nat) :
    ∃ a b c, (batcherLoop n w x).dev x = { w.dev x with part := a, output := b, inprog := c } :=
  (batcherLoop_frame n w x).self

/-- Everything `_try_move_part_to_output` does on a batcher, in one statement.  For a well-formed
batcher: well-formedness is kept, the sequence of parts inside is unchanged (an EMPTY input batch is
dropped — it contributes no leaves), the size is unchanged, and afterwards either an output is
waiting to leave or the input is exhausted (the fuel `leafCount + 2` of the model is enough). -/
theorem tryMove_batcher_spec (hk : (w.dev x).kind = .batcher) (hwf : Wf w x) :
    Wf (w.tryMove x) x ∧ seqOf (w.tryMove x) x = seqOf w x ∧
    ((w.tryMove x).dev x).bsize = (w.dev x).bsize ∧
    (((w.tryMove x).dev x).output.isSome ∨ ((w.tryMove x).dev x).part = none) ∧
    ((w.tryMove x).dev x).kind = .batcher := by
  rcases tryMove_batcher hk with ⟨e, h⟩ | ⟨p, hp, ho, hkids, e⟩ | ⟨p, hp, ho, hkids, e⟩
  · rw [e]; exact ⟨hwf, rfl, rfl, h.symm, hk⟩
  · -- an empty input batch is dropped
    have hx : x < w.devs.length := lt_of_part_isSome (by simp [hp])
    rw [e]
    have hd : (w.modDev x (fun d => { d with part := none })).dev x = { w.dev x with part := none } :=
      dev_modDev_same hx
    refine ⟨⟨?_, ?_, ?_, ?_⟩, ?_, by rw [hd], Or.inr (by rw [hd]), by rw [hd]; exact hk⟩
    · rw [hd]; exact hwf.prog_valid
    · rw [hd]; intro b _ q hq; simp at hq
    · rw [hd]; exact hwf.single_noprog
    · rw [hd]; intro _ q hq; simp at hq
    · simp only [seqOf, hd, hp, leavesOf, part_modDev, hkids, List.append_nil]
  · -- the loop runs, then a pass attempt is scheduled
    have hne : InputNonempty w x := by
      intro q hq; rw [hp] at hq; obtain rfl : p = q := by simpa using hq
      exact hkids
    obtain ⟨l1, l2, l3⟩ := wf_batcherLoop (w.leafCount p + 2) hwf hne
    have hseq := seqOf_batcherLoop (w.leafCount p + 2) hwf hne
    have hdone : ((batcherLoop (w.leafCount p + 2) w x).dev x).output.isSome ∨
        ((batcherLoop (w.leafCount p + 2) w x).dev x).part = none := by
      have := BSt.loop_done (bs := (w.dev x).bsize) (w.leafCount p + 2) (abs_ok hwf hne)
        (by simp only [BSt.inpLen, abs, hp, Option.map_some, optLeaves_some, leaves_itemOf]
            unfold leafCount leavesOf; split <;> simp_all <;> omega)
      rw [← abs_batcherLoop _ hwf hne] at this
      simpa [abs] using this
    have hv : SameView (batcherLoop (w.leafCount p + 2) w x) (w.tryMove x) x := by
      rw [e]; split
      · exact SameView.of_core (schedulePass_core _ _ _) x
      · exact SameView.refl _ x
    have hkind : ((batcherLoop (w.leafCount p + 2) w x).dev x).kind = .batcher := by
      obtain ⟨a, b, c, e'⟩ := batcherLoop_dev_self' (w.leafCount p + 2) w x
      rw [e']; exact hk
    exact ⟨hv.wf l1, hv.seqOf.trans hseq, hv.bsize.trans l3, by rw [hv.output, hv.part]; exact hdone,
      hv.kind.trans hkind⟩

/-- A batcher stays a batcher. -/
theorem kind_tryMove (hk : (w.dev x).kind = .batcher) (hwf : Wf w x) :
    ((w.tryMove x).dev x).kind = .batcher := (tryMove_batcher_spec hk hwf).2.2.2.2

/-- `tryMove` on a batcher preserves the sequence of parts inside it. -/
theorem seqOf_tryMove (hk : (w.dev x).kind = .batcher) (hwf : Wf w x) :
    seqOf (w.tryMove x) x = seqOf w x := (tryMove_batcher_spec hk hwf).2.1

/-- `tryMove` on a batcher preserves well-formedness. -/
theorem wf_tryMove (hk : (w.dev x).kind = .batcher) (hwf : Wf w x) : Wf (w.tryMove x) x :=
  (tryMove_batcher_spec hk hwf).1

/-! ### 2. exact sizes -/

/-- Batch mode, size `n > 0`: if the batch under construction holds fewer than `n` parts before
the loop, it still does afterwards (for whatever shell is then under construction), and an output
produced by the loop is a batch of EXACTLY `n` parts. -/
theorem batch_sizes {n : Nat} (f : Nat) (hbs : (w.dev x).bsize = some n) (hn : 0 < n)
    (hwf : Wf w x) (hne : InputNonempty w x)
    (hlt : ∀ b ∈ (w.dev x).inprog, ((w.part b).kids.getD []).length < n) :
    (∀ b ∈ ((batcherLoop f w x).dev x).inprog,
        (((batcherLoop f w x).part b).kids.getD []).length < n) ∧
    ((w.dev x).output = none → ∀ o ∈ ((batcherLoop f w x).dev x).output,
        ∃ l, ((batcherLoop f w x).part o).kids = some l ∧ l.length = n) := by
  cases ho : (w.dev x).output with
  | some o =>
    rw [batcherLoop_stopped (Or.inl (by simp [ho]))]
    exact ⟨hlt, fun h => by simp at h⟩
  | none =>
    have hs : (abs w x).Sized n := by
      refine ⟨?_, Or.inl (by simp [abs, ho])⟩
      cases hb : (w.dev x).inprog with
      | none => simpa [abs, hb] using hn
      | some b => simpa [abs, hb] using hlt b (by simp [hb])
    have hok := abs_ok hwf hne
    rw [hbs] at hok
    have hs' := BSt.loop_sized f hok hs
    rw [← hbs, ← abs_batcherLoop f hwf hne] at hs'
    obtain ⟨h1, h2⟩ := hs'
    refine ⟨?_, fun _ => ?_⟩
    · intro b hb
      simp only [Option.mem_def] at hb
      simpa [abs, hb] using h1
    · intro o ho'
      simp only [Option.mem_def] at ho'
      rcases h2 with h2 | ⟨l, h2, hl⟩
      · simp [abs, ho'] at h2
      · refine ⟨l, ?_, hl⟩
        simp only [abs, ho', Option.map_some, Option.some.injEq, itemOf] at h2
        split at h2
        · next l' hk => rw [hk]; simpa using h2
        · simp at h2

/-- Single mode: the loop never creates a batch under construction nor a new part, and an output
produced by the loop is a single part (`kids = none`), namely the FIRST leaf of the input — what is
left of the input are the other leaves, in order. -/
theorem single_mode (f : Nat) (hbs : (w.dev x).bsize = none) (hwf : Wf w x)
    (hne : InputNonempty w x) :
    ((batcherLoop f w x).dev x).inprog = none ∧
    (batcherLoop f w x).parts.length = w.parts.length ∧
    ((w.dev x).output = none → ∀ o ∈ ((batcherLoop f w x).dev x).output,
      ((batcherLoop f w x).part o).kids = none ∧
      ∃ p, (w.dev x).part = some p ∧
        w.leavesOf p = o :: (match ((batcherLoop f w x).dev x).part with
                             | some p' => (batcherLoop f w x).leavesOf p'
                             | none => [])) := by
  obtain ⟨l1, _, l3⟩ := wf_batcherLoop f hwf hne
  have hi : ((batcherLoop f w x).dev x).inprog = none := l1.single_noprog (l3.trans hbs)
  refine ⟨hi, batcherLoop_no_growth f w x (Or.inr hbs), ?_⟩
  intro ho o ho'
  simp only [Option.mem_def] at ho'
  have hseq := seqOf_batcherLoop f hwf hne
  have hok := abs_ok hwf hne
  rw [hbs] at hok
  have habs := abs_batcherLoop f hwf hne
  rw [hbs] at habs
  rcases BSt.loop_single f hok with e | ⟨it, t, r, _, _, _, e⟩
  · rw [e] at habs
    have := congrArg BSt.out habs
    simp [abs, ho, ho'] at this
  · rw [e] at habs
    have hout := congrArg BSt.out habs
    simp only [abs, ho', Option.map_some, Option.some.injEq, itemOf] at hout
    have hleaf : ((batcherLoop f w x).part o).kids = none := by
      split at hout
      · simp at hout
      · next h => exact h
    refine ⟨hleaf, ?_⟩
    cases hp : (w.dev x).part with
    | none =>
      rw [batcherLoop_stopped (Or.inr hp)] at ho'
      rw [ho] at ho'; simp at ho'
    | some p =>
      refine ⟨p, rfl, ?_⟩
      simp only [seqOf, ho', hi, ho, hp, hwf.single_noprog hbs, leavesOf, hleaf,
        List.append_nil, List.nil_append] at hseq
      simp only [leavesOf]
      rw [← hseq]; rfl

/-- The same at the level of `_try_move_part_to_output` (which is what the simulator calls): after
`tryMove` on a well-formed batcher of size `n > 0` whose batch under construction holds fewer than
`n` parts, the batch under construction still holds fewer than `n` parts and an output produced by
this call is a batch of EXACTLY `n` parts. -/
theorem tryMove_batch_sizes {n : Nat} (hk : (w.dev x).kind = .batcher)
    (hbs : (w.dev x).bsize = some n) (hn : 0 < n) (hwf : Wf w x)
    (hlt : ∀ b ∈ (w.dev x).inprog, ((w.part b).kids.getD []).length < n) :
    (∀ b ∈ ((w.tryMove x).dev x).inprog, (((w.tryMove x).part b).kids.getD []).length < n) ∧
    ((w.dev x).output = none → ∀ o ∈ ((w.tryMove x).dev x).output,
        ∃ l, ((w.tryMove x).part o).kids = some l ∧ l.length = n) := by
  rcases tryMove_batcher hk with ⟨e, _⟩ | ⟨p, hp, ho, hkids, e⟩ | ⟨p, hp, ho, hkids, e⟩
  · rw [e]; exact ⟨hlt, fun h o ho' => by rw [h] at ho'; simp at ho'⟩
  · have hx : x < w.devs.length := lt_of_part_isSome (by simp [hp])
    rw [e]
    simp only [dev_modDev_same hx, part_modDev]
    exact ⟨hlt, fun h o ho' => by rw [h] at ho'; simp at ho'⟩
  · have hne : InputNonempty w x := by
      intro q hq; rw [hp] at hq; obtain rfl : p = q := by simpa using hq
      exact hkids
    obtain ⟨s1, s2⟩ := batch_sizes (w.leafCount p + 2) hbs hn hwf hne hlt
    have hv : SameView (batcherLoop (w.leafCount p + 2) w x) (w.tryMove x) x := by
      rw [e]; split
      · exact SameView.of_core (schedulePass_core _ _ _) x
      · exact SameView.refl _ x
    rw [hv.inprog, hv.output]
    simp only [hv.kids]
    exact ⟨s1, s2⟩

/-- Single mode at the level of `tryMove`: no batch under construction appears, and an output
produced by this call is a single part. -/
theorem tryMove_single (hk : (w.dev x).kind = .batcher) (hbs : (w.dev x).bsize = none)
    (hwf : Wf w x) :
    ((w.tryMove x).dev x).inprog = none ∧
    ((w.dev x).output = none → ∀ o ∈ ((w.tryMove x).dev x).output,
        ((w.tryMove x).part o).kids = none) := by
  have hi := hwf.single_noprog hbs
  rcases tryMove_batcher hk with ⟨e, _⟩ | ⟨p, hp, ho, hkids, e⟩ | ⟨p, hp, ho, hkids, e⟩
  · rw [e]; exact ⟨hi, fun h o ho' => by rw [h] at ho'; simp at ho'⟩
  · have hx : x < w.devs.length := lt_of_part_isSome (by simp [hp])
    rw [e]
    simp only [dev_modDev_same hx, part_modDev]
    exact ⟨hi, fun h o ho' => by rw [h] at ho'; simp at ho'⟩
  · have hne : InputNonempty w x := by
      intro q hq; rw [hp] at hq; obtain rfl : p = q := by simpa using hq
      exact hkids
    obtain ⟨s1, _, s3⟩ := single_mode (w.leafCount p + 2) hbs hwf hne
    have hv : SameView (batcherLoop (w.leafCount p + 2) w x) (w.tryMove x) x := by
      rw [e]; split
      · exact SameView.of_core (schedulePass_core _ _ _) x
      · exact SameView.refl _ x
    rw [hv.inprog, hv.output]
    simp only [hv.kids]
    exact ⟨s1, fun h o ho' => (s3 h o ho').1⟩

/-! ### 3. progress / termination -/

/-- With fuel at least the number of input leaves the loop has stopped by itself: the output is set
or the input is exhausted (the model calls it with `leafCount + 2`). -/
theorem batcherLoop_done (n : Nat) (hwf : Wf w x) (hne : InputNonempty w x)
    (hn : ∀ p ∈ (w.dev x).part, w.leafCount p ≤ n) :
    ((batcherLoop n w x).dev x).output.isSome ∨ ((batcherLoop n w x).dev x).part = none := by
  have hlen : (abs w x).inpLen ≤ n := by
    cases hp : (w.dev x).part with
    | none => simp [BSt.inpLen, abs, hp]
    | some p =>
      have := hn p (by simp [hp])
      simp only [BSt.inpLen, abs, hp, Option.map_some, optLeaves_some, leaves_itemOf]
      unfold leafCount at this; unfold leavesOf; split <;> simp_all
  have := BSt.loop_done (bs := (w.dev x).bsize) n (abs_ok hwf hne) hlen
  rw [← abs_batcherLoop _ hwf hne] at this
  simpa [abs] using this

/-- Once the loop has stopped by itself, more fuel changes nothing: the result does not depend on
the fuel as soon as it is at least the number of input leaves. -/
theorem batcherLoop_fuel_irrelevant (n k : Nat) (hwf : Wf w x) (hne : InputNonempty w x)
    (hn : ∀ p ∈ (w.dev x).part, w.leafCount p ≤ n) :
    batcherLoop (n + k) w x = batcherLoop n w x := by
  rw [batcherLoop_add, batcherLoop_stopped (batcherLoop_done n hwf hne hn)]

/-! ### 4. acceptance -/

/-- A batcher accepts a part exactly when it is operational, its input is not blocked, and it has
nothing left to unpack (`part = none`) and nothing waiting to leave (`output = none`). -/
theorem canAcceptBasic_batcher (hk : (w.dev x).kind = .batcher) (p : Nat) :
    w.canAcceptBasic x p = true ↔
      w.operational x = true ∧ (w.dev x).blockInput = false ∧ (w.dev x).part = none ∧
        (w.dev x).output = none := by
  unfold canAcceptBasic
  simp [hk, and_assoc]

/-- A batcher is always operational (only processors shut down), so the acceptance condition is:
not blocked, input slot empty, output slot empty. -/
theorem canAcceptBasic_batcher' (hk : (w.dev x).kind = .batcher) (p : Nat) :
    w.canAcceptBasic x p = true ↔
      (w.dev x).blockInput = false ∧ (w.dev x).part = none ∧ (w.dev x).output = none := by
  rw [canAcceptBasic_batcher hk, operational_batcher hk]; simp

/-- `give_part` on a batcher: accept if `canAcceptBasic`, otherwise refuse and change nothing. -/
theorem give_batcher (hk : (w.dev x).kind = .batcher) (f p : Nat) :
    give (f + 1) w x p = if w.canAcceptBasic x p then (w.acceptPart x p, true) else (w, false) := by
  simp [give, hk]

/-- `give_part` on a batcher succeeds iff the batcher is operational, not blocked, has nothing left
to unpack and nothing waiting to leave. -/
theorem give_batcher_iff (hk : (w.dev x).kind = .batcher) (f p : Nat) :
    (give (f + 1) w x p).2 = true ↔
      w.operational x = true ∧ (w.dev x).blockInput = false ∧ (w.dev x).part = none ∧
        (w.dev x).output = none := by
  rw [give_batcher hk, ← canAcceptBasic_batcher hk p]
  split <;> simp_all

/-- The same for the entry point `givePart` (its fuel is positive). -/
theorem givePart_batcher_iff (hk : (w.dev x).kind = .batcher) (p : Nat) :
    (w.givePart x p).2 = true ↔
      w.operational x = true ∧ (w.dev x).blockInput = false ∧ (w.dev x).part = none ∧
        (w.dev x).output = none :=
  give_batcher_iff hk (2 * w.devs.length + 2) p

/-- A refused part leaves the world unchanged. -/
theorem givePart_batcher_refused (hk : (w.dev x).kind = .batcher) (p : Nat)
    (h : (w.givePart x p).2 = false) : (w.givePart x p).1 = w := by
  have e : w.givePart x p = give (2 * w.devs.length + 2 + 1) w x p := rfl
  rw [e, give_batcher hk] at h ⊢
  split at h <;> simp_all

/-! ### 5. frame (no well-formedness needed) -/

/-- Other devices are untouched. -/
theorem batcherLoop_dev_other (n : Nat) (w : World) {x y : Nat} (h : y ≠ x) :
    (batcherLoop n w x).dev y = w.dev y := (batcherLoop_frame n w x).others y h

/-- Of the batcher itself only the three slots change. -/
theorem batcherLoop_dev_self (n : Nat) (w : World) (x : Nat) :
    ∃ a b c, (batcherLoop n w x).dev x = { w.dev x with part := a, output := b, inprog := c } :=
  (batcherLoop_frame n w x).self

/-- The number of devices and every component of the world other than devices and parts (event
queue, logs, error flag, resource manager, ...) are unchanged. -/
theorem batcherLoop_rest (n : Nat) (w : World) (x : Nat) :
    (batcherLoop n w x).devs.length = w.devs.length ∧
    (batcherLoop n w x).noDevsParts = w.noDevsParts :=
  ⟨(batcherLoop_frame n w x).devs_length, (batcherLoop_frame n w x).rest⟩

/-- The input slot is only ever cleared, the in-progress slot holds the old shell or a fresh part. -/
theorem batcherLoop_slots (n : Nat) (w : World) (x : Nat) :
    (∀ p, ((batcherLoop n w x).dev x).part = some p → (w.dev x).part = some p) ∧
    (∀ b, ((batcherLoop n w x).dev x).inprog = some b →
      (w.dev x).inprog = some b ∨ w.parts.length ≤ b) :=
  ⟨(batcherLoop_frame n w x).part_slot, (batcherLoop_frame n w x).prog_slot⟩

/-- Every existing part other than the input and the shell under construction is unchanged (in
particular its `kids`). -/
theorem batcherLoop_part_other (n : Nat) (w : World) (x : Nat) {q : Nat} (hq : q < w.parts.length)
    (hp : (w.dev x).part ≠ some q) (hb : (w.dev x).inprog ≠ some q) :
    (batcherLoop n w x).part q = w.part q := (batcherLoop_frame n w x).parts_old q hq hp hb

/-- Of the input and the shell only `kids` changes. -/
theorem batcherLoop_part_fields (n : Nat) (w : World) (x : Nat) {q : Nat} (hq : q < w.parts.length) :
    ({ (batcherLoop n w x).part q with kids := none } : PartRec) = { w.part q with kids := none } :=
  (batcherLoop_frame n w x).parts_fields q hq

/-- At most one part (the shell of a new batch) is created, and none if a shell exists already or
the batcher emits single parts. -/
theorem batcherLoop_parts_length (n : Nat) (w : World) (x : Nat) :
    w.parts.length ≤ (batcherLoop n w x).parts.length ∧
    (batcherLoop n w x).parts.length ≤ w.parts.length + 1 ∧
    ((w.dev x).inprog.isSome ∨ (w.dev x).bsize = none →
      (batcherLoop n w x).parts.length = w.parts.length) := by
  refine ⟨(batcherLoop_frame n w x).parts_le, ?_, batcherLoop_no_growth n w x⟩
  rcases batcherLoop_grow n w w x (Or.inl rfl) with h | ⟨h, _⟩ <;> omega

/-! ### 6. arriving and leaving -/

/-- Arrival: when a batcher with empty input and output slots accepts part `p` (`_accept_part`:
store it, extend the routing history, run the receive callbacks, try to move), the leaves of `p` are
appended AT THE END of the sequence of parts inside the batcher, in order; well-formedness is kept,
and afterwards an output is waiting to leave or the input is exhausted.  The two hypotheses on the
arriving part hold for every part in transit: it is not the shell under construction, and (single
mode) the parts of an arriving batch are single parts. -/
theorem acceptPart_batcher {p : Nat} (hk : (w.dev x).kind = .batcher) (hwf : Wf w x)
    (hp : (w.dev x).part = none) (ho : (w.dev x).output = none)
    (hpb : ∀ b ∈ (w.dev x).inprog, b ≠ p)
    (hleaves : (w.dev x).bsize = none → ∀ l ∈ (w.part p).kids, ∀ k ∈ l, (w.part k).kids = none) :
    Wf (w.acceptPart x p) x ∧
    seqOf (w.acceptPart x p) x = seqOf w x ++ w.leavesOf p ∧
    ((w.acceptPart x p).dev x).bsize = (w.dev x).bsize ∧
    (((w.acceptPart x p).dev x).output.isSome ∨ ((w.acceptPart x p).dev x).part = none) ∧
    ((w.acceptPart x p).dev x).kind = .batcher := by
  have hx : x < w.devs.length :=
    Nat.lt_of_not_le fun hge => by rw [dev_of_length_le hge] at hk; cases hk
  -- the world with `p` in the input slot
  have hd1 : (w.modDev x (fun d => { d with part := some p })).dev x = { w.dev x with part := some p } :=
    dev_modDev_same hx
  have hwf1 : Wf (w.modDev x (fun d => { d with part := some p })) x := by
    refine ⟨?_, ?_, ?_, ?_⟩
    · rw [hd1]; exact hwf.prog_valid
    · rw [hd1]; intro b hb q hq
      obtain rfl : p = q := by simpa using hq
      exact hpb b hb
    · rw [hd1]; exact hwf.single_noprog
    · rw [hd1]; intro hbs q hq
      obtain rfl : p = q := by simpa using hq
      exact hleaves hbs
  have hseq1 : seqOf (w.modDev x (fun d => { d with part := some p })) x = seqOf w x ++ w.leavesOf p := by
    simp only [seqOf, hd1, hp, ho, leavesOf, part_modDev, List.append_nil]
  -- the steps up to `tryMove` do not change the batcher's view
  have hv : SameView (w.modDev x (fun d => { d with part := some p }))
      ((((((w.modDev x (fun d => { d with part := some p })).addHist p x).setWaiting x false false).addRec
        (.received x ((((w.modDev x (fun d => { d with part := some p })).addHist p x).setWaiting x false false).now) p
          (((((w.modDev x (fun d => { d with part := some p })).addHist p x).setWaiting x false false).part p).quality)
          ((((w.modDev x (fun d => { d with part := some p })).addHist p x).setWaiting x false false).partValue p))).dev x).recvCbs.foldl
        (fun w c => w.applyPartCb x p c)
        ((((w.modDev x (fun d => { d with part := some p })).addHist p x).setWaiting x false false).addRec
          (.received x ((((w.modDev x (fun d => { d with part := some p })).addHist p x).setWaiting x false false).now) p
            (((((w.modDev x (fun d => { d with part := some p })).addHist p x).setWaiting x false false).part p).quality)
            ((((w.modDev x (fun d => { d with part := some p })).addHist p x).setWaiting x false false).partValue p)))) x :=
    (((SameView.addHist _ p x x).trans (SameView.of_core (setWaiting_core _ _ _ _) x)).trans
      (SameView.of_core (addRec_core _ _) x)).trans (SameView.foldl_applyPartCb _ _ x p x)
  generalize hw5 : (List.foldl _ _ _ : World) = w5 at hv
  have hk5 : (w5.dev x).kind = .batcher := by rw [hv.kind, hd1]; exact hk
  have ho5 : (w5.dev x).output = none := by rw [hv.output, hd1]; exact ho
  have hacc : w.acceptPart x p = w5.tryMove x := by
    have hk' : ((w.dev x).kind == Kind.sink) = false := by rw [hk]; rfl
    have hk3 : ((((w.modDev x (fun d => { d with part := some p })).addHist p x).setWaiting x false false).dev x).kind
        = .batcher := by
      rw [core_eq_dev_kind (setWaiting_core _ _ _ _), dev_addHist, hd1]; exact hk
    unfold acceptPart onReceived
    simp only [hk', hk3, Bool.false_eq_true, if_false, hw5, ho5, Option.isNone_none, if_true]
  rw [hacc]
  obtain ⟨t1, t2, t3, t4, t5⟩ := tryMove_batcher_spec hk5 (hv.wf hwf1)
  refine ⟨t1, ?_, ?_, t4, t5⟩
  · rw [t2, hv.seqOf, hseq1]
  · rw [t3, hv.bsize, hd1]

/-- Leaving: clearing the output slot (what `_pass_part_downstream` does after a successful
hand-over of the output, followed by the notification upstream) removes exactly the leaves of the
output from the FRONT of the sequence of parts inside the batcher. -/
theorem seqOf_leave {o : Nat} (hx : x < w.devs.length) (ho : (w.dev x).output = some o) :
    seqOf w x = w.leavesOf o ++
      seqOf ((w.modDev x (fun d => { d with output := none })).notify x) x := by
  rw [(SameView.of_core (notify_core _ _) x).seqOf]
  simp only [seqOf, dev_modDev_same hx, ho, part_modDev, leavesOf, List.nil_append, List.append_assoc]

/-! ### non-vacuity -/

/-- A batcher of size 2 (device 0) with one part (5) already in the batch under construction
(shell 4) and an input batch (part 0) of three parts 1, 2, 3. -/
def exW : World :=
  { devs := [{ kind := .batcher, bsize := some 2, part := some 0, inprog := some 4 }],
    parts := [{ kids := some [1, 2, 3] }, {}, {}, {}, { kids := some [5] }, {}] }

/-- The same batcher configured for single parts, nothing under construction. -/
def exS : World :=
  { devs := [{ kind := .batcher, bsize := none, part := some 0 }],
    parts := [{ kids := some [1, 2, 3] }, {}, {}, {}] }

/-- A batcher whose input is an empty batch. -/
def exE : World :=
  { devs := [{ kind := .batcher, bsize := some 2, part := some 0, inprog := some 1 }],
    parts := [{ kids := some [] }, { kids := some [7] }, {}] }

/-- An idle batcher of size 2 and a batch (part 0) of three parts about to arrive. -/
def exI : World :=
  { devs := [{ kind := .batcher, bsize := some 2 }],
    parts := [{ kids := some [1, 2, 3] }, {}, {}, {}] }

-- the hypotheses of the theorems hold
example : Wf exW 0 ∧ InputNonempty exW 0 ∧ Wf exS 0 ∧ InputNonempty exS 0 ∧ Wf exE 0 ∧
    ¬ InputNonempty exE 0 ∧ Wf exI 0 := by decide

-- order: the sequence inside the batcher before and after the loop (and what happened)
example :
    seqOf exW 0 = [5, 1, 2, 3] ∧ seqOf (batcherLoop 5 exW 0) 0 = [5, 1, 2, 3] ∧
    ((batcherLoop 5 exW 0).dev 0).output = some 4 ∧
    ((batcherLoop 5 exW 0).part 4).kids = some [5, 1] ∧
    ((batcherLoop 5 exW 0).dev 0).inprog = none ∧
    ((batcherLoop 5 exW 0).dev 0).part = some 0 ∧
    ((batcherLoop 5 exW 0).part 0).kids = some [2, 3] ∧
    (batcherLoop 5 exW 0).parts.length = 6 := by decide

-- the abstract machine on the same state
example :
    abs exW 0 = { out := none, prog := some [5], inp := some (.batch [1, 2, 3]) } ∧
    BSt.loop (some 2) 5 (abs exW 0) =
      { out := some (.batch [5, 1]), prog := none, inp := some (.batch [2, 3]) } ∧
    abs (batcherLoop 5 exW 0) 0 = BSt.loop (some 2) 5 (abs exW 0) := by decide

-- the next round (output handed over): a fresh shell (part 6) is created, filled with exactly 2
-- parts and becomes the output; the input is exhausted and cleared
example :
    let w1 := (batcherLoop 5 exW 0).modDev 0 (fun d => { d with output := none })
    seqOf w1 0 = [2, 3] ∧ seqOf (batcherLoop 4 w1 0) 0 = [2, 3] ∧
    ((batcherLoop 4 w1 0).dev 0).output = some 6 ∧
    ((batcherLoop 4 w1 0).part 6).kids = some [2, 3] ∧
    ((batcherLoop 4 w1 0).dev 0).part = none ∧ ((batcherLoop 4 w1 0).dev 0).inprog = none ∧
    (batcherLoop 4 w1 0).parts.length = 7 := by decide

-- a batch that is not completed stays under construction (size 5, four parts so far)
example :
    let w := { exW with devs := [{ kind := .batcher, bsize := some 5, part := some 0, inprog := some 4 }] }
    ((batcherLoop 5 w 0).dev 0).output = none ∧ ((batcherLoop 5 w 0).dev 0).part = none ∧
    ((batcherLoop 5 w 0).dev 0).inprog = some 4 ∧
    ((batcherLoop 5 w 0).part 4).kids = some [5, 1, 2, 3] ∧ seqOf (batcherLoop 5 w 0) 0 = [5, 1, 2, 3] := by
  decide

-- single mode: one part at a time, from the front
example :
    seqOf exS 0 = [1, 2, 3] ∧ seqOf (batcherLoop 5 exS 0) 0 = [1, 2, 3] ∧
    ((batcherLoop 5 exS 0).dev 0).output = some 1 ∧ ((batcherLoop 5 exS 0).dev 0).inprog = none ∧
    ((batcherLoop 5 exS 0).part 0).kids = some [2, 3] ∧ (batcherLoop 5 exS 0).parts.length = 4 := by
  decide

-- without the non-emptiness precondition the loop would treat an empty input batch as a part
-- (this is why `tryMove` drops it first): `seqOf` changes
example : seqOf exE 0 = [7] ∧ seqOf (batcherLoop 3 exE 0) 0 = [7, 0] := by decide

-- each clause of `Wf` is needed for order preservation (none of these states is reachable):
-- single mode with a nested input batch / with a batch under construction; a shell id that is not
-- an existing part; the shell being the input part itself
example :
    let nLeaf : World :=
      { devs := [{ kind := .batcher, bsize := none, part := some 0 }],
        parts := [{ kids := some [1] }, { kids := some [2, 3] }, {}, {}] }
    let nProg : World :=
      { devs := [{ kind := .batcher, bsize := none, part := some 0, inprog := some 2 }],
        parts := [{ kids := some [1] }, {}, { kids := some [5] }] }
    let nValid : World :=
      { devs := [{ kind := .batcher, bsize := some 2, part := some 0, inprog := some 99 }],
        parts := [{ kids := some [1, 2, 3] }, {}, {}, {}] }
    let nSame : World :=
      { devs := [{ kind := .batcher, bsize := some 5, part := some 0, inprog := some 0 }],
        parts := [{ kids := some [1, 2, 3] }, {}, {}, {}] }
    (seqOf nLeaf 0 = [1] ∧ seqOf (batcherLoop 5 nLeaf 0) 0 = [2, 3]) ∧
    (seqOf nProg 0 = [5, 1] ∧ seqOf (batcherLoop 5 nProg 0) 0 = [1, 5]) ∧
    (seqOf nValid 0 = [1, 2, 3] ∧ seqOf (batcherLoop 5 nValid 0) 0 = []) ∧
    seqOf (batcherLoop 5 nSame 0) 0 ≠ seqOf nSame 0 := by decide

-- `tryMove` drops the empty input batch; `seqOf` is unchanged
example : ((exE.tryMove 0).dev 0).part = none ∧ seqOf (exE.tryMove 0) 0 = [7] := by decide

-- acceptance
example :
    exI.canAcceptBasic 0 0 = true ∧ exW.canAcceptBasic 0 9 = false ∧
    (batcherLoop 4 ((batcherLoop 5 exW 0).modDev 0 (fun d => { d with output := none })) 0).canAcceptBasic 0 9
      = false := by decide

-- the model's own entry points on the examples: `tryMove` emits a batch of exactly 2; `acceptPart`
-- of a batch of 3 into the idle batcher of size 2 emits a batch [1, 2] and keeps [3]; the batcher
-- then refuses further input
example :
    ((exW.tryMove 0).dev 0).output = some 4 ∧ ((exW.tryMove 0).part 4).kids = some [5, 1] := by decide

example :
    ((exI.acceptPart 0 0).dev 0).output = some 4 ∧ ((exI.acceptPart 0 0).part 4).kids = some [1, 2] ∧
    ((exI.acceptPart 0 0).part 0).kids = some [3] ∧ (exI.givePart 0 0).2 = true ∧
    ((exI.givePart 0 0).1.givePart 0 9).2 = false := by decide

-- the theorems applied to the examples
example : seqOf (exW.tryMove 0) 0 = [5, 1, 2, 3] :=
  (seqOf_tryMove (by decide) (by decide)).trans (by decide)

example : seqOf (exI.acceptPart 0 0) 0 = [1, 2, 3] :=
  (acceptPart_batcher (w := exI) (x := 0) (p := 0) (by decide) (by decide) (by decide) (by decide)
    (by decide) (by decide)).2.1.trans (by decide)

end C17
end SimProc
