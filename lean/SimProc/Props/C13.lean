/-
C13 — shutdown, failure, restore and the accounting of a `PartProcessor`.

"While a processor is shut down for maintenance or failed it accepts no part and releases no
part; a failure discards exactly the part in process, reporting it once to the shutdown callbacks
and in the failure log, keeps an already finished part which leaves after restoration, and
repeated shutdown or restore calls are no-ops.  At every instant uptime equals the total time the
processor was operational and utilization equals the total time it spent processing parts,
callbacks of each kind run once per occurrence in registration order."

All theorems are about `SimProc/Model/Floor.lean`, for an ARBITRARY world `w` and a device index
`x` that is in range (`x < w.devs.length`) or is a processor (`(w.dev x).kind = .processor`, which
implies being in range).  The notification / scheduling noise is handled with the frame library
(`FloorCore`, `FloorCore2`, `C13Lemmas`).
-/
import SimProc.Proofs.C13Lemmas

namespace SimProc
namespace C13
open World FloorCoreL

/-! ### a. a shut-down processor accepts no part and releases no part -/

/-- A processor that is shut down (for maintenance or by a failure) refuses every part: the state
part of `_can_accept_part` is false, and `give_part` returns `False` without changing anything
(no resources are reserved, nothing is logged), for every amount of fuel and also when the part is
offered through the `tryList` loop of an upstream device. -/
theorem down_refuses (w : World) {x : Nat} (p : Nat) (hk : (w.dev x).kind = .processor)
    (hs : (w.dev x).shutDown = true) :
    w.canAcceptBasic x p = false ∧ (∀ f, give (f + 1) w x p = (w, false)) ∧
    w.givePart x p = (w, false) ∧ tryList givePart w [x] p = (w, false) := by
  have hop : w.operational x = false := by simp [operational, hk, hs]
  have hc : w.canAcceptBasic x p = false := by simp [canAcceptBasic, hk, hop]
  have hg : ∀ f, give (f + 1) w x p = (w, false) := by
    intro f; simp [give, hk, hc]
  have hgp : w.givePart x p = (w, false) := hg _
  refine ⟨hc, hg, hgp, ?_⟩
  simp [tryList, hgp]

/-- A processor that is shut down releases no part: its pass-part event handler, the hand-over
routine and `_try_move_part_to_output` change nothing at all (in particular `part` and `output`
stay where they are and nothing is offered downstream). -/
theorem down_releases_nothing (w : World) {x : Nat} (hk : (w.dev x).kind = .processor)
    (hs : (w.dev x).shutDown = true) :
    w.passPart x = w ∧ w.passHandler x = w ∧ w.tryMove x = w := by
  have hop : w.operational x = false := by simp [operational, hk, hs]
  have hph : w.passHandler x = w := by simp [passHandler, hop]
  refine ⟨?_, hph, ?_⟩
  · simp [passPart, hk, hph]
  · simp [tryMove, hk, hop]

/-! ### b. a failure discards exactly the part in process -/

/-- Every record `releaseRecs` stands for is a `resource_update` record. -/
theorem releaseRecs_resUpdate (w : World) (x : Nat) :
    ∀ r ∈ w.releaseRecs x, ∃ a t u c, r = Rec.resUpdate a t u c := by
  intro r hr
  unfold releaseRecs at hr
  split at hr
  · cases hr
  · obtain ⟨q, _, rfl⟩ := List.mem_map.mp hr
    exact ⟨_, _, _, _, rfl⟩

/-- `_fail()` discards the part in process and nothing else: afterwards the input slot is empty,
an already finished part is still in the output slot, the machine is shut down; the ghost log of
lost parts grew by exactly the leaves of the dropped part (by nothing if there was none), the table
of parts is untouched; the data log grew by the `resource_update` records of giving back the
reserved resources (`releaseRecs`, see `releaseRecs_resUpdate`) followed by exactly ONE
`device_failure` record naming the lost part; no other device changes. -/
theorem fail_drops_input_only (w : World) {x : Nat} (hx : x < w.devs.length) :
    ((w.failDev x).dev x).part = none ∧
    ((w.failDev x).dev x).output = (w.dev x).output ∧
    ((w.failDev x).dev x).shutDown = true ∧
    (w.failDev x).lost = w.lost ++ (match (w.dev x).part with
      | some p => w.leavesOf p
      | none => []) ∧
    (w.failDev x).recs = w.recs ++ w.releaseRecs x ++ [Rec.failure x w.now (w.dev x).part] ∧
    (w.failDev x).parts = w.parts ∧
    (∀ y, y ≠ x → (w.failDev x).dev y = w.dev y) := by
  obtain ⟨h1, h2, h3, _, _⟩ := failDev_frame w hx
  have hd := failDev_dev_same w hx
  refine ⟨?_, ?_, ?_, h2, h1, h3, fun y hy => failDev_dev_ne_c13 w hx hy⟩
  · rw [hd]; split <;> rfl
  · rw [hd]; split <;> rfl
  · rw [hd]; split
    · next h => exact h
    · rfl

/-! ### c. callbacks run once per occurrence, in registration order -/

/-- `_shutdown(is_failure, lost)`: if the machine was operational, or if this is a failure that
loses a part (F6 repair: the machine may already be down for maintenance), each of the `nShutCbs`
registered shutdown callbacks is called exactly once, in registration order, with the arguments
`(is_failure, lost)`; in every other case (a redundant shutdown) none is called.  Nothing else is
appended to the action log. -/
theorem shutdown_reports_once (w : World) {x : Nat} (isF : Bool) (lost : Option Nat)
    (hx : x < w.devs.length) :
    (w.shutdownDev x isF lost).results =
      w.results ++
        (if (w.dev x).shutDown = false ∨ (isF = true ∧ lost.isSome = true)
         then (List.range (w.dev x).nShutCbs).map (fun k => Res.shut x k isF lost) else []) := by
  rw [shutdownDev_results w isF lost hx]
  cases (w.dev x).shutDown <;> cases isF <;> cases lost <;> simp [shutLog]

/-- `_fail()`: if the machine was operational, or was down with a part in process, every shutdown
callback is called exactly once, in registration order, with `is_failure = True` and the lost part
(`None` if the input slot was empty); a failure of a machine that is already down and has no part
in process calls no callback. -/
theorem fail_reports_once (w : World) {x : Nat} (hx : x < w.devs.length) :
    (w.failDev x).results =
      w.results ++
        (if (w.dev x).shutDown = false ∨ (w.dev x).part.isSome = true
         then (List.range (w.dev x).nShutCbs).map (fun k => Res.shut x k true (w.dev x).part)
         else []) := by
  rw [failDev_results w hx]
  cases (w.dev x).shutDown <;> cases (w.dev x).part <;> simp [shutLog]

/-- A maintenance shutdown of an operational machine calls every shutdown callback once, in
order, with `(False, None)`. -/
theorem maintenance_reports_once (w : World) {x : Nat} (hx : x < w.devs.length)
    (hs : (w.dev x).shutDown = false) :
    (w.shutdownDev x false none).results =
      w.results ++ (List.range (w.dev x).nShutCbs).map (fun k => Res.shut x k false none) := by
  rw [shutdown_reports_once w false none hx]; simp [hs]

/-- `restore_functionality()` of a machine that is down calls every restored callback exactly
once, in registration order; on an operational machine it calls none. -/
theorem restore_reports_once (w : World) (x : Nat) :
    (w.restoreDev x).results =
      w.results ++
        (if (w.dev x).shutDown = true
         then (List.range (w.dev x).nRestCbs).map (fun k => Res.restored x k) else []) := by
  cases hs : (w.dev x).shutDown
  · rw [restoreDev_eq_up w x hs]; simp
  · have h := quiet_eq_results (restoreDev_quiet w x hs)
    rw [h]; simp [restLog]

/-! ### d. repeated shutdown / restore calls are no-ops -/

/-- After `_shutdown` the machine is shut down, whatever it was before. -/
theorem shutdown_sets_flag (w : World) {x : Nat} (isF : Bool) (lost : Option Nat)
    (hx : x < w.devs.length) : ((w.shutdownDev x isF lost).dev x).shutDown = true := by
  rw [shutdownDev_dev_same w isF lost hx]
  split
  · next h => exact h
  · rfl

/-- A shutdown request on a machine that is already down (maintenance, or a failure that loses
nothing) changes nothing at all. -/
theorem shutdown_down_noop (w : World) (x : Nat) (isF : Bool) (lost : Option Nat)
    (hs : (w.dev x).shutDown = true) (h : isF = false ∨ lost = none) :
    w.shutdownDev x isF lost = w := by
  rw [shutdownDev_eq_down w x isF lost hs]
  rcases h with rfl | rfl <;> simp

/-- `shutdown()` twice is `shutdown()` once. -/
theorem shutdown_idem (w : World) {x : Nat} (hx : x < w.devs.length) :
    (w.shutdownDev x false none).shutdownDev x false none = w.shutdownDev x false none :=
  shutdown_down_noop _ x false none (shutdown_sets_flag w false none hx) (Or.inl rfl)

/-- `shutdown()` after a failure changes nothing (the machine stays failed, nothing is paused). -/
theorem shutdown_after_fail_noop (w : World) {x : Nat} (hx : x < w.devs.length) :
    (w.failDev x).shutdownDev x false none = w.failDev x :=
  shutdown_down_noop _ x false none (fail_drops_input_only w hx).2.2.1 (Or.inl rfl)

/-- `restore_functionality()` on an operational machine changes nothing at all. -/
theorem restore_up_noop (w : World) (x : Nat) (hs : (w.dev x).shutDown = false) :
    w.restoreDev x = w := restoreDev_eq_up w x hs

/-- After `restore_functionality()` the machine is operational, whatever it was before. -/
theorem restore_clears_flag (w : World) (x : Nat) : ((w.restoreDev x).dev x).shutDown = false := by
  cases hs : (w.dev x).shutDown
  · rw [restoreDev_eq_up w x hs]; exact hs
  · have hx := lt_of_shutDown hs
    have h := core_eq_dev_shutDown (core_of_quiet_eq (restoreDev_quiet w x hs)) x
    rw [h]
    show ((w.setDev x (restDev w.now (w.dev x))).dev x).shutDown = false
    rw [dev_setDev_same hx]; rfl

/-- `restore_functionality()` twice is `restore_functionality()` once (no hypothesis at all). -/
theorem restore_idem (w : World) (x : Nat) : (w.restoreDev x).restoreDev x = w.restoreDev x :=
  restore_up_noop _ x (restore_clears_flag w x)

/-! ### e. uptime and utilisation as integrals of indicators -/

/-- `PartProcessor.uptime` (the public property) of device `x` in world `w`: the accumulator plus,
while an uptime interval is open, the time since it was opened (`uptimeAt_eq`). -/
def uptimeAt (w : World) (x : Nat) : Int := (w.dev x).uptimeAt w.now

/-- `PartProcessor.utilization_time` (the public property), likewise (`utilAt_eq`). -/
def utilAt (w : World) (x : Nat) : Int := (w.dev x).utilAt w.now

/-- `uptime` spelled out in the fields of the device record. -/
theorem uptimeAt_eq (w : World) (x : Nat) :
    uptimeAt w x =
      (w.dev x).uptime + (match (w.dev x).lastRestore with | some t => w.now - t | none => 0) := rfl

/-- `utilization_time` spelled out in the fields of the device record. -/
theorem utilAt_eq (w : World) (x : Nat) :
    utilAt w x =
      (w.dev x).timeInUse + (match (w.dev x).lastUseStart with | some t => w.now - t | none => 0) :=
  rfl

/-- The bookkeeping invariant of processor `x` in world `w` (spelled out in `upInv_iff`). -/
def UpInv (w : World) (x : Nat) : Prop := (w.dev x).UpInv

/-- The invariant: the uptime interval is open exactly while the machine is operational, the
utilisation interval is open exactly while an operational machine has a part in process. -/
theorem upInv_iff (w : World) (x : Nat) :
    UpInv w x ↔
      (((w.dev x).lastRestore.isSome = true ↔ (w.dev x).shutDown = false) ∧
       ((w.dev x).lastUseStart.isSome = true ↔
         ((w.dev x).part.isSome = true ∧ (w.dev x).shutDown = false))) :=
  ⟨fun h => ⟨h.restore, h.use⟩, fun h => ⟨h.1, h.2⟩⟩

/-- The world with the clock advanced to `t` and nothing else changed (what `Environment.step`
does before it runs the action of the popped event). -/
def advance (w : World) (t : Int) : World := { w with env := { w.env with now := t } }

/-! #### the invariant is preserved -/

/-- A freshly constructed processor record satisfies the invariant. -/
theorem upInv_fresh : ({ kind := .processor } : Dev).UpInv := ⟨by simp, by simp⟩

/-- `_shutdown` (maintenance or failure, first or repeated) preserves the invariant. -/
theorem upInv_shutdown (w : World) {x : Nat} (isF : Bool) (lost : Option Nat)
    (hx : x < w.devs.length) (h : UpInv w x) : UpInv (w.shutdownDev x isF lost) x := by
  unfold UpInv
  rw [shutdownDev_dev_same w isF lost hx]
  split
  · exact h
  · exact shutDev_upInv _ _

/-- `_fail` preserves the invariant. -/
theorem upInv_fail (w : World) {x : Nat} (hx : x < w.devs.length) (h : UpInv w x) :
    UpInv (w.failDev x) x := by
  unfold UpInv
  rw [failDev_dev_same w hx]
  split
  · next hs =>
    have h1 : (w.dev x).lastUseStart = none := by
      cases hl : (w.dev x).lastUseStart with
      | none => rfl
      | some t => have := (h.use.mp (by simp [hl])).2; simp [hs] at this
    exact ⟨h.restore, by simp [h1]⟩
  · exact shutDev_upInv _ _

/-- `restore_functionality` preserves the invariant. -/
theorem upInv_restore (w : World) (x : Nat) (h : UpInv w x) : UpInv (w.restoreDev x) x := by
  cases hs : (w.dev x).shutDown
  · rw [restoreDev_eq_up w x hs]; exact h
  · have hx := lt_of_shutDown hs
    have hc := quiet_eq_dev (restoreDev_quiet w x hs) x
    refine upInv_of_core_eq hc ?_
    show ((w.setDev x (restDev w.now (w.dev x))).dev x).UpInv
    rw [dev_setDev_same hx]
    exact restDev_upInv _ _ h hs

/-- `initialize` of an operational processor preserves the invariant (and establishes its first
half).  For a processor that was shut down BEFORE it is initialised the first half fails
afterwards, see `init_breaks_invariant_when_down` below. -/
theorem upInv_init (w : World) {x : Nat} (hk : (w.dev x).kind = .processor)
    (hs : (w.dev x).shutDown = false) (h : UpInv w x) : UpInv (w.initDev x) x := by
  have hx := lt_of_processor hk
  have hc := quiet_eq_dev (initDev_proc_quiet w hk) x
  refine upInv_of_core_eq hc ?_
  rw [dev_setDev_same hx]
  exact ⟨by simp [hs], h.use⟩

/-- `_finish_cycle` of a processor preserves the invariant, provided the output slot is free
whenever a part is in process (otherwise the library's own assertion `_output == None` fails and
the model reports the error `assert-output-full`). -/
theorem upInv_finishCycle (w : World) {x : Nat} (hk : (w.dev x).kind = .processor)
    (h : UpInv w x) (hout : (w.dev x).part.isSome = true → (w.dev x).output = none) :
    UpInv (w.finishCycle x) x := by
  unfold UpInv
  rw [finishCycle_proc_field (fun d => d.UpInv) upInv_core upInv_cycle_offset w hk]
  exact finDev_upInv _ _ _ h (by simp [operational, hk]) hout


/-- `_try_move_part_to_output` of a processor establishes the invariant when it is reached the
way the library reaches it (inside `_accept_part`: no utilisation interval is open yet) and the
output slot is free whenever a part is in process. -/
theorem upInv_tryMove (w : World) {x : Nat} (hk : (w.dev x).kind = .processor)
    (hr : (w.dev x).lastRestore.isSome = true ↔ (w.dev x).shutDown = false)
    (hl : (w.dev x).lastUseStart = none)
    (hout : (w.dev x).part.isSome = true → (w.dev x).output = none) : UpInv (w.tryMove x) x := by
  unfold UpInv
  rw [tryMove_proc_field (fun d => d.UpInv) upInv_core upInv_cycle_offset w hk]
  split
  · next hc =>
    simp only [Bool.and_eq_true, operational, hk, Bool.not_eq_true', Option.isNone_iff_eq_none] at hc
    exact moveDev_upInv _ _ _ hr hc.1.1 hc.1.2 hc.2
  · next hc =>
    refine ⟨hr, ?_⟩
    simp only [hl, Option.isSome_none, Bool.false_eq_true, false_iff, not_and]
    intro hp hs
    apply hc
    simp [operational, hk, hs, hp, hout hp]

/-- `_accept_part` of a processor that can accept the part (state part of `_can_accept_part`)
preserves the invariant: the part is in process from now on. -/
theorem upInv_accept (w : World) {x : Nat} (p : Nat) (hk : (w.dev x).kind = .processor)
    (hacc : w.canAcceptBasic x p = true) (h : UpInv w x) : UpInv (w.acceptPart x p) x := by
  have hacc' : (w.dev x).shutDown = false ∧ (w.dev x).part = none ∧ (w.dev x).output = none := by
    simp [canAcceptBasic, hk, operational] at hacc
    exact ⟨hacc.1.1.1, hacc.1.2, hacc.2⟩
  unfold UpInv
  rw [acceptPart_proc_field' (fun d => d.UpInv) upInv_core upInv_cycle_offset w p hk hacc]
  exact moveDev_upInv _ _ _ h.restore hacc'.1 rfl hacc'.2.2

/-! #### continuity: nothing jumps inside an event -/

/-- `_shutdown` does not change the two public properties at the instant it runs: the open
intervals are closed into the accumulators. -/
theorem shutdown_continuous (w : World) {x : Nat} (isF : Bool) (lost : Option Nat)
    (hx : x < w.devs.length) :
    uptimeAt (w.shutdownDev x isF lost) x = uptimeAt w x ∧
    utilAt (w.shutdownDev x isF lost) x = utilAt w x := by
  unfold uptimeAt utilAt
  rw [(shutdownDev_frame w isF lost hx).2.2.2.1, shutdownDev_dev_same w isF lost hx]
  split
  · exact ⟨rfl, rfl⟩
  · exact shutDev_acct _ _

/-- `_fail` does not change the two public properties at the instant it runs. -/
theorem fail_continuous (w : World) {x : Nat} (hx : x < w.devs.length) :
    uptimeAt (w.failDev x) x = uptimeAt w x ∧ utilAt (w.failDev x) x = utilAt w x := by
  unfold uptimeAt utilAt
  rw [(failDev_frame w hx).2.2.2.1, failDev_dev_same w hx]
  split
  · exact ⟨rfl, rfl⟩
  · exact shutDev_acct _ { w.dev x with part := none, reserved := none }

/-- `restore_functionality` does not change the two public properties at the instant it runs
(given the invariant: on a machine that is down no interval is open). -/
theorem restore_continuous (w : World) (x : Nat) (h : UpInv w x) :
    uptimeAt (w.restoreDev x) x = uptimeAt w x ∧ utilAt (w.restoreDev x) x = utilAt w x := by
  cases hs : (w.dev x).shutDown
  · rw [restoreDev_eq_up w x hs]; exact ⟨rfl, rfl⟩
  · have hx := lt_of_shutDown hs
    have hq := restoreDev_quiet w x hs
    have hc := quiet_eq_dev hq x
    have hn : (w.restoreDev x).now = w.now := by have := quiet_eq_now hq; exact this
    unfold uptimeAt utilAt
    rw [hn]
    have h1 := acct_of_core_eq hc w.now
    rw [h1.1, h1.2]
    show ((w.setDev x (restDev w.now (w.dev x))).dev x).uptimeAt w.now = _ ∧
      ((w.setDev x (restDev w.now (w.dev x))).dev x).utilAt w.now = _
    rw [dev_setDev_same hx]
    exact restDev_acct _ _ h hs

/-- `_finish_cycle` of a processor does not change the two public properties at the instant it
runs. -/
theorem finishCycle_continuous (w : World) {x : Nat} (hk : (w.dev x).kind = .processor) :
    uptimeAt (w.finishCycle x) x = uptimeAt w x ∧ utilAt (w.finishCycle x) x = utilAt w x := by
  unfold uptimeAt utilAt
  rw [now_finishCycle_proc w hk,
    finishCycle_proc_field (fun d => d.uptimeAt w.now) (fun _ => rfl) (fun _ _ _ => rfl) w hk,
    finishCycle_proc_field (fun d => d.utilAt w.now) (fun _ => rfl) (fun _ _ _ => rfl) w hk]
  exact finDev_acct _ _ _

/-- `_schedule_finish_cycle` of a processor does not change the two public properties at the
instant it runs (whether it schedules the finish event or finishes at once). -/
theorem scheduleFinish_continuous (w : World) {x : Nat} (hk : (w.dev x).kind = .processor) :
    uptimeAt (w.scheduleFinish x) x = uptimeAt w x ∧
    utilAt (w.scheduleFinish x) x = utilAt w x := by
  unfold uptimeAt utilAt
  rw [now_scheduleFinish_proc w hk,
    scheduleFinish_proc_field (fun d => d.uptimeAt w.now) (fun _ => rfl) (fun _ _ _ => rfl) w hk,
    scheduleFinish_proc_field (fun d => d.utilAt w.now) (fun _ => rfl) (fun _ _ _ => rfl) w hk]
  split
  · exact ⟨rfl, rfl⟩
  · exact finDev_acct _ _ _

/-- `_try_move_part_to_output` of a processor does not change the two public properties at the
instant it runs, when no utilisation interval is open (the way the library reaches it). -/
theorem tryMove_continuous (w : World) {x : Nat} (hk : (w.dev x).kind = .processor)
    (hl : (w.dev x).lastUseStart = none) :
    uptimeAt (w.tryMove x) x = uptimeAt w x ∧ utilAt (w.tryMove x) x = utilAt w x := by
  unfold uptimeAt utilAt
  rw [now_tryMove_proc w hk,
    tryMove_proc_field (fun d => d.uptimeAt w.now) (fun _ => rfl) (fun _ _ _ => rfl) w hk,
    tryMove_proc_field (fun d => d.utilAt w.now) (fun _ => rfl) (fun _ _ _ => rfl) w hk]
  split
  · exact moveDev_acct _ _ _ hl
  · exact ⟨rfl, rfl⟩

/-- `_accept_part` of a processor that can accept the part does not change the two public
properties at the instant it runs. -/
theorem accept_continuous (w : World) {x : Nat} (p : Nat) (hk : (w.dev x).kind = .processor)
    (hacc : w.canAcceptBasic x p = true) (h : UpInv w x) :
    uptimeAt (w.acceptPart x p) x = uptimeAt w x ∧ utilAt (w.acceptPart x p) x = utilAt w x := by
  have hp : (w.dev x).part = none := by
    simp [canAcceptBasic, hk, operational] at hacc
    exact hacc.1.2
  have hl : (w.dev x).lastUseStart = none := by
    cases hl : (w.dev x).lastUseStart with
    | none => rfl
    | some t => have := (h.use.mp (by simp [hl])).1; simp [hp] at this
  unfold uptimeAt utilAt
  rw [now_acceptPart_proc w p hk,
    acceptPart_proc_field' (fun d => d.uptimeAt w.now) (fun _ => rfl) (fun _ _ _ => rfl) w p hk hacc,
    acceptPart_proc_field' (fun d => d.utilAt w.now) (fun _ => rfl) (fun _ _ _ => rfl) w p hk hacc]
  exact moveDev_acct _ _ { w.dev x with part := some p } hl

/-- `initialize` of a processor starts the uptime clock: right afterwards the public `uptime` is
the accumulator alone (0 for a fresh processor), whatever the constructor's provisional
`_last_restore = 0` was; the utilisation is untouched. -/
theorem init_starts_uptime (w : World) {x : Nat} (hk : (w.dev x).kind = .processor) :
    uptimeAt (w.initDev x) x = (w.dev x).uptime ∧ utilAt (w.initDev x) x = utilAt w x := by
  have hx := lt_of_processor hk
  have hq := initDev_proc_quiet w hk
  have hc := quiet_eq_dev hq x
  have hn : (w.initDev x).now = w.now := by have := quiet_eq_now hq; exact this
  unfold uptimeAt utilAt
  rw [hn]
  have h1 := acct_of_core_eq hc w.now
  rw [h1.1, h1.2, dev_setDev_same hx]
  unfold Dev.uptimeAt Dev.utilAt
  simp

/-! #### rates: what the passing of time does -/

/-- Advancing the clock changes no device … -/
@[simp] theorem advance_dev (w : World) (t : Int) (x : Nat) : (advance w t).dev x = w.dev x := rfl
/-- … and sets the clock. -/
@[simp] theorem advance_now (w : World) (t : Int) : (advance w t).now = t := rfl

/-- Advancing the clock does not touch the invariant. -/
theorem upInv_advance (w : World) (t : Int) (x : Nat) : UpInv (advance w t) x ↔ UpInv w x :=
  Iff.rfl

/-- When only the clock advances, `uptime` grows by the elapsed time if the machine is
operational and not at all otherwise: `uptime` is the integral of the operational indicator. -/
theorem uptime_rate (w : World) (x : Nat) (t : Int) (h : UpInv w x) :
    uptimeAt (advance w t) x =
      uptimeAt w x + (if (w.dev x).shutDown = false then t - w.now else 0) := by
  unfold uptimeAt Dev.uptimeAt
  rw [advance_dev, advance_now]
  have hr := h.restore
  cases hl : (w.dev x).lastRestore with
  | none =>
    have : ¬ (w.dev x).shutDown = false := by simpa [hl] using hr
    simp [this]
  | some t0 =>
    have : (w.dev x).shutDown = false := by simpa [hl] using hr
    simp only [this, if_true]; omega

/-- When only the clock advances, `utilization_time` grows by the elapsed time if the machine is
operational and has a part in process, and not at all otherwise: `utilization_time` is the
integral of the processing indicator. -/
theorem utilization_rate (w : World) (x : Nat) (t : Int) (h : UpInv w x) :
    utilAt (advance w t) x =
      utilAt w x +
        (if (w.dev x).part.isSome = true ∧ (w.dev x).shutDown = false then t - w.now else 0) := by
  unfold utilAt Dev.utilAt
  rw [advance_dev, advance_now]
  have hu := h.use
  cases hl : (w.dev x).lastUseStart with
  | none =>
    have : ¬ ((w.dev x).part.isSome = true ∧ (w.dev x).shutDown = false) := by simpa [hl] using hu
    simp [this]
  | some t0 =>
    have : (w.dev x).part.isSome = true ∧ (w.dev x).shutDown = false := by simpa [hl] using hu
    simp only [this, and_self, if_true]; omega

/-- The first half of `Environment.step` (pop the next event, set the clock to its time) lets
`uptime` grow by the time that passed iff the machine is operational … -/
theorem uptime_rate_step (w : World) {e : Event} {env' : Env} (hst : w.env.step = some (e, env'))
    (x : Nat) (h : UpInv w x) :
    uptimeAt ({ w with env := env' } : World) x =
      uptimeAt w x + (if (w.dev x).shutDown = false then e.time - w.now else 0) := by
  obtain ⟨es, _, rfl⟩ := Env.step_some.mp hst
  exact uptime_rate w x e.time h

/-- … and `utilization_time` iff it is operational with a part in process; the invariant is not
affected.  (The second half of the step runs the event's action: one of the functions above.) -/
theorem utilization_rate_step (w : World) {e : Event} {env' : Env}
    (hst : w.env.step = some (e, env')) (x : Nat) (h : UpInv w x) :
    utilAt ({ w with env := env' } : World) x =
      utilAt w x +
        (if (w.dev x).part.isSome = true ∧ (w.dev x).shutDown = false then e.time - w.now else 0) ∧
    UpInv ({ w with env := env' } : World) x := by
  obtain ⟨es, _, rfl⟩ := Env.step_some.mp hst
  exact ⟨utilization_rate w x e.time h, h⟩

/-! ### a finished part survives and leaves after the restoration -/

/-- A part that is already finished (in the output slot) is kept by a failure and by a
maintenance shutdown; while the machine is down it stays there (`down_releases_nothing`); the
restoration keeps it and schedules exactly one pass-part event of the machine at the current time
(on top of resuming the machine's paused events), whose action hands it downstream. -/
theorem finished_part_survives (w : World) {x : Nat} (q : Nat) (hk : (w.dev x).kind = .processor)
    (ho : (w.dev x).output = some q) :
    ((w.failDev x).dev x).output = some q ∧
    ((w.shutdownDev x false none).dev x).output = some q ∧
    ((w.dev x).shutDown = true →
      ((w.restoreDev x).dev x).output = some q ∧
      (w.restoreDev x).env =
        { w.env.unpause Arith.exact (w.dev x).aid with
          events := insort
            { uid := (w.env.unpause Arith.exact (w.dev x).aid).nextUid
              time := if w.now < 0 then 0 else w.now
              prio := pPassPart
              weight := weightOf w.seed w.wmod (if w.now < 0 then 0 else w.now) (w.dev x).aid
                (Action.passPart x).toNat pPassPart
              asset := (w.dev x).aid
              act := (Action.passPart x).toNat }
            (w.env.unpause Arith.exact (w.dev x).aid).events
          nextUid := (w.env.unpause Arith.exact (w.dev x).aid).nextUid + 1 }) := by
  have hx := lt_of_processor hk
  refine ⟨(fail_drops_input_only w hx).2.1.trans ho, ?_, ?_⟩
  · rw [shutdownDev_dev_same w false none hx]
    split
    · exact ho
    · exact ho
  · intro hs
    constructor
    · rw [core_eq_dev_output (core_of_quiet_eq (restoreDev_quiet w x hs)) x]
      show ((w.setDev x (restDev w.now (w.dev x))).dev x).output = some q
      rw [dev_setDev_same hx]; exact ho
    · rw [restoreDev_env_output w hk hs (by simp [ho])]
      rfl

/-- Neither a maintenance shutdown nor a restoration moves a part: the part in process stays in
process (its processing is merely suspended), a finished part stays in the output slot. -/
theorem maintenance_keeps_parts (w : World) {x : Nat} (hx : x < w.devs.length) :
    ((w.shutdownDev x false none).dev x).part = (w.dev x).part ∧
    ((w.shutdownDev x false none).dev x).output = (w.dev x).output ∧
    ((w.restoreDev x).dev x).part = (w.dev x).part ∧
    ((w.restoreDev x).dev x).output = (w.dev x).output := by
  have h1 := shutdownDev_dev_same w false none hx
  have h2 : ((w.restoreDev x).dev x).core =
      (if (w.dev x).shutDown then restDev w.now (w.dev x) else w.dev x).core := by
    cases hs : (w.dev x).shutDown
    · rw [restoreDev_eq_up w x hs]; rfl
    · rw [quiet_eq_dev (restoreDev_quiet w x hs) x]
      show ((w.setDev x (restDev w.now (w.dev x))).dev x).core = _
      rw [dev_setDev_same hx]; rfl
  refine ⟨?_, ?_, ?_, ?_⟩
  · rw [h1]; split <;> rfl
  · rw [h1]; split <;> rfl
  · have := congrArg Dev.part h2
    refine Eq.trans this ?_
    split <;> rfl
  · have := congrArg Dev.output h2
    refine Eq.trans this ?_
    split <;> rfl

/-- The finish-processing callbacks run once per finished part, in registration order: after
`_finish_cycle` of a processor its record is (flow flags aside) the bookkeeping result `finDev`
with — iff a part is in the output slot — the callbacks' effects on `cycle` / `offset` folded over
the list of callbacks from first to last. -/
theorem finish_callbacks_in_order (w : World) {x : Nat} (hk : (w.dev x).kind = .processor) :
    ((w.finishCycle x).dev x).core =
      (match (finDev w.now (w.operational x) (w.dev x)).output with
       | none => finDev w.now (w.operational x) (w.dev x)
       | some _ => (w.dev x).finCbs.foldl (fun d c => cbDev c d)
            (finDev w.now (w.operational x) (w.dev x))).core :=
  finishCycle_proc_dev_core w hk

/-! ### non-vacuity -/

/-- A processor (cycle time 5, two shutdown callbacks, one restored callback) that accepted part 0
at time 2 and is still processing it at time 3, feeding a sink; its finish event is pending. -/
def exProc : Dev :=
  { kind := .processor, aid := 1, cycle := 5, inited := true, down := [1], part := some 0,
    lastUseStart := some 2, nShutCbs := 2, nRestCbs := 1 }
/-- The sink behind it. -/
def exSink : Dev := { kind := .sink, aid := 2, up := [0], inited := true }
/-- The pending finish event of part 0 (due at 2 + 5 = 7). -/
def exEv : Event :=
  { uid := 0, time := 7, prio := pFinish, weight := 0, asset := 1, act := (Action.finishCycle 0).toNat }
/-- The world at time 3. -/
def exW : World :=
  { devs := [exProc, exSink], parts := [{}], env := { now := 3, events := [exEv], nextUid := 1 } }
/-- The same machine idle. -/
def exIdle : World :=
  { exW with devs := [{ exProc with part := none, lastUseStart := none }, exSink],
             env := { now := 3 } }
/-- The same machine with a finished part waiting in the output slot. -/
def exDone : World :=
  { exW with devs := [{ exProc with part := none, lastUseStart := none, output := some 0 }, exSink],
             env := { now := 3 } }

-- the invariant holds in the example worlds, and the hypotheses of the theorems are satisfiable
example : UpInv exW 0 ∧ UpInv exIdle 0 := ⟨⟨by decide, by decide⟩, ⟨by decide, by decide⟩⟩
example : (exW.dev 0).kind = .processor ∧ 0 < exW.devs.length := by decide
-- a. the idle machine accepts; shut down (or failed) it refuses, and `give` changes nothing
example : exIdle.canAcceptBasic 0 0 = true ∧
    (exIdle.shutdownDev 0 false none).canAcceptBasic 0 0 = false ∧
    (exIdle.failDev 0).canAcceptBasic 0 0 = false ∧
    ((exIdle.shutdownDev 0 false none).dev 0).shutDown = true := by decide
-- b./c. a failure drops the part in process, logs it once, calls both callbacks in order
example : ((exW.failDev 0).dev 0).part = none ∧ (exW.failDev 0).lost = [0] ∧
    (exW.failDev 0).recs = [Rec.failure 0 3 (some 0)] ∧
    (exW.failDev 0).results = [Res.shut 0 0 true (some 0), Res.shut 0 1 true (some 0)] := by decide
-- F6 repair: a failure of a machine that is down for maintenance with a part in process still
-- reports the part; a maintenance shutdown reports `(False, None)`; a redundant one nothing
example : ((exW.shutdownDev 0 false none).failDev 0).results =
      [Res.shut 0 0 false none, Res.shut 0 1 false none,
       Res.shut 0 0 true (some 0), Res.shut 0 1 true (some 0)] ∧
    ((exW.shutdownDev 0 false none).shutdownDev 0 false none).results =
      [Res.shut 0 0 false none, Res.shut 0 1 false none] ∧
    ((exW.shutdownDev 0 false none).restoreDev 0).results =
      [Res.shut 0 0 false none, Res.shut 0 1 false none, Res.restored 0 0] := by decide
-- a finished part survives the failure and a pass-part event is scheduled by the restoration
example : ((exDone.failDev 0).dev 0).output = some 0 ∧
    (((exDone.failDev 0).restoreDev 0).env.events.map (fun e => (e.time, e.asset, e.act))) =
      [(3, 1, (Action.passPart 0).toNat)] := by decide
-- e. at time 3 the machine was up for 3 and busy for 1 time units; 7 time units later: 10 and 8;
-- shut down at 3, the numbers stay at 3 and 1; failed, likewise
example : uptimeAt exW 0 = 3 ∧ utilAt exW 0 = 1 ∧
    uptimeAt (advance exW 10) 0 = 10 ∧ utilAt (advance exW 10) 0 = 8 ∧
    uptimeAt (advance (exW.shutdownDev 0 false none) 10) 0 = 3 ∧
    utilAt (advance (exW.shutdownDev 0 false none) 10) 0 = 1 ∧
    uptimeAt (advance (exW.failDev 0) 10) 0 = 3 ∧ utilAt (advance (exW.failDev 0) 10) 0 = 1 ∧
    uptimeAt (advance ((advance (exW.shutdownDev 0 false none) 10).restoreDev 0) 12) 0 = 5 ∧
    utilAt (advance ((advance (exW.shutdownDev 0 false none) 10).restoreDev 0) 12) 0 = 3 := by
  decide
-- the idle machine accepts part 0 at time 3: processing starts, the properties do not jump
example : utilAt (exIdle.acceptPart 0 0) 0 = 0 ∧ utilAt (advance (exIdle.acceptPart 0 0) 5) 0 = 2 ∧
    ((exIdle.acceptPart 0 0).dev 0).lastUseStart = some 3 := by decide

/-- FINDING (model and library alike): `initialize` stamps `_last_restore = now` even if the
processor was shut down before it was initialised; from then on `uptime` grows although the machine
is down, i.e. `upInv_init` really needs its hypothesis `shutDown = false`. -/
def exDownEarly : World :=
  { devs := [{ kind := .processor, aid := 1, shutDown := true, lastRestore := none }],
    env := { now := 4 } }

example : UpInv exDownEarly 0 := ⟨by decide, by decide⟩
/-- After `initialize` the shut-down machine has an open uptime interval: 6 time units later its
`uptime` is 6 although it was never operational. -/
theorem init_breaks_invariant_when_down :
    ((exDownEarly.initDev 0).dev 0).shutDown = true ∧
    ((exDownEarly.initDev 0).dev 0).lastRestore = some 4 ∧
    uptimeAt (advance (exDownEarly.initDev 0) 10) 0 = 6 := by decide

/-- `upInv_finishCycle` needs the free output slot: a finish event on a processor whose output slot
is occupied trips the library's assertion and closes the utilisation interval although the part
stays in process. -/
def exFull : World :=
  { exW with devs := [{ exProc with output := some 0 }, exSink] }

example : ((exFull.finishCycle 0).dev 0).lastUseStart = none ∧
    ((exFull.finishCycle 0).dev 0).part = some 0 ∧
    (exFull.finishCycle 0).error = some "assert-output-full" := by decide

end C13
end SimProc
