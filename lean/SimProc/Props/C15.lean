/-
C15 — the data the simulator records (`simulation_data`, modelled by `World.recs`) is a faithful
log.

(a) The log is append-only: every model function that can run inside an event only appends
    records (`Ext`), and none of them moves the clock (`ExtN`); hence every step of the event loop
    extends the log (`trace_is_append_only`).
(b) Exactly one record per occurrence, stamped with the current time and the current values, for
    every `add_datapoint` site of the model: failure, received, produced, supplied, resource
    update, schedule update, work orders.  The counter of a source moves exactly with its
    `supplied_new_part` records (`supplied_count`), the counter of a sink with the parts received.
(c) Last-record invariants in one-step form: the records returned by the resource manager are a
    faithful log of the pools (`last_resource_eq_*`), the `level` records of a buffer show its
    level (`last_level_eq_*`), and nothing else changes a level.  Beyond one step: every function
    of the factory floor logs every level change (`level_always_logged`), so "last `level` record
    = level" is an invariant of all script-free event actions (`last_level_eq_exec`).
(d) The `add_datapoint` sites regenerated from the Python sources are exactly the ones the model
    mirrors (`sites_complete`).
-/
import SimProc.Proofs.C15Lemmas
import SimProc.Gen.Facts

namespace SimProc
namespace C15
open World

/-! ### (a) the log is append-only -/

/-- `Ext` is reflexive. -/
theorem ext_refl (w : World) : Ext w w := Ext.refl w

/-- `Ext` is transitive. -/
theorem ext_trans {a b c : World} (h₁ : Ext a b) (h₂ : Ext b c) : Ext a c := h₁.trans h₂

/-- `ExtN w w'` (the form in which everything below is stated) says: same clock, and `Ext w w'`. -/
theorem extN_iff (w w' : World) : ExtN w w' ↔ w'.now = w.now ∧ Ext w w' :=
  ⟨fun h => ⟨h.now_eq, h.ext⟩, fun h => ⟨h.1, h.2⟩⟩

/-! Functions that write no record at all: the log and the clock are unchanged. -/

/-- `setWaiting` writes no record and does not move the clock. -/
theorem recs_setWaiting (w : World) (x : Nat) (a b : Bool) :
    (w.setWaiting x a b).recs = w.recs ∧ (w.setWaiting x a b).now = w.now :=
  ⟨RN_recs (RN_setWaiting w x a b), RN_now (RN_setWaiting w x a b)⟩

/-- `schedulePass` writes no record and does not move the clock. -/
theorem recs_schedulePass (w : World) (x : Nat) (o : Int) :
    (w.schedulePass x o).recs = w.recs ∧ (w.schedulePass x o).now = w.now :=
  ⟨RN_recs (RN_schedulePass w x o), RN_now (RN_schedulePass w x o)⟩

/-- `notifyUp` writes no record and does not move the clock. -/
theorem recs_notifyUp (w : World) (n x : Nat) :
    (notifyUp n w x).recs = w.recs ∧ (notifyUp n w x).now = w.now :=
  ⟨RN_recs (RN_notifyUp n w x), RN_now (RN_notifyUp n w x)⟩

/-- `spaceAvail` writes no record and does not move the clock. -/
theorem recs_spaceAvail (w : World) (n x : Nat) :
    (spaceAvail n w x).recs = w.recs ∧ (spaceAvail n w x).now = w.now :=
  ⟨RN_recs (RN_spaceAvail n w x), RN_now (RN_spaceAvail n w x)⟩

/-- `notify` writes no record and does not move the clock. -/
theorem recs_notify (w : World) (x : Nat) :
    (w.notify x).recs = w.recs ∧ (w.notify x).now = w.now :=
  ⟨RN_recs (RN_notify w x), RN_now (RN_notify w x)⟩

/-- `spaceAvailable` writes no record and does not move the clock. -/
theorem recs_spaceAvailable (w : World) (x : Nat) :
    (w.spaceAvailable x).recs = w.recs ∧ (w.spaceAvailable x).now = w.now :=
  ⟨RN_recs (RN_spaceAvailable w x), RN_now (RN_spaceAvailable w x)⟩

/-- `applyPartCb` writes no record and does not move the clock. -/
theorem recs_applyPartCb (w : World) (x p : Nat) (c : PartCb) :
    (w.applyPartCb x p c).recs = w.recs ∧ (w.applyPartCb x p c).now = w.now :=
  ⟨RN_recs (RN_applyPartCb w x p c), RN_now (RN_applyPartCb w x p c)⟩

/-- `senseOutput` writes no record and does not move the clock. -/
theorem recs_senseOutput (w : World) (s p : Nat) :
    (w.senseOutput s p).recs = w.recs ∧ (w.senseOutput s p).now = w.now :=
  ⟨RN_recs (RN_senseOutput w s p), RN_now (RN_senseOutput w s p)⟩

/-- `finishCycleHandler` writes no record and does not move the clock. -/
theorem recs_finishCycleHandler (w : World) (x : Nat) :
    (w.finishCycleHandler x).recs = w.recs ∧ (w.finishCycleHandler x).now = w.now :=
  ⟨RN_recs (RN_finishCycleHandler w x), RN_now (RN_finishCycleHandler w x)⟩

/-- `genPart` writes no record and does not move the clock. -/
theorem recs_genPart (w : World) (x : Nat) :
    ((w.genPart x).1).recs = w.recs ∧ ((w.genPart x).1).now = w.now :=
  ⟨RN_recs (RN_genPart w x), RN_now (RN_genPart w x)⟩

/-- `addHist` writes no record and does not move the clock. -/
theorem recs_addHist (w : World) (p d : Nat) :
    (w.addHist p d).recs = w.recs ∧ (w.addHist p d).now = w.now :=
  ⟨RN_recs (RN_addHist w p d), RN_now (RN_addHist w p d)⟩

/-- `dropHist` writes no record and does not move the clock. -/
theorem recs_dropHist (w : World) (p : Nat) :
    (w.dropHist p).recs = w.recs ∧ (w.dropHist p).now = w.now :=
  ⟨RN_recs (RN_dropHist w p), RN_now (RN_dropHist w p)⟩

/-- `batcherLoop` writes no record and does not move the clock. -/
theorem recs_batcherLoop (w : World) (n x : Nat) :
    (batcherLoop n w x).recs = w.recs ∧ (batcherLoop n w x).now = w.now :=
  ⟨RN_recs (RN_batcherLoop n w x), RN_now (RN_batcherLoop n w x)⟩

/-- `shutdownDev` writes no record and does not move the clock. -/
theorem recs_shutdownDev (w : World) (x : Nat) (f : Bool) (lost : Option Nat) :
    (w.shutdownDev x f lost).recs = w.recs ∧ (w.shutdownDev x f lost).now = w.now :=
  ⟨RN_recs (RN_shutdownDev w x f lost), RN_now (RN_shutdownDev w x f lost)⟩

/-- `restoreDev` writes no record and does not move the clock. -/
theorem recs_restoreDev (w : World) (x : Nat) :
    (w.restoreDev x).recs = w.recs ∧ (w.restoreDev x).now = w.now :=
  ⟨RN_recs (RN_restoreDev w x), RN_now (RN_restoreDev w x)⟩

/-- `procResourceCb` writes no record and does not move the clock. -/
theorem recs_procResourceCb (w : World) (x : Nat) :
    (w.procResourceCb x).recs = w.recs ∧ (w.procResourceCb x).now = w.now :=
  ⟨RN_recs (RN_procResourceCb w x), RN_now (RN_procResourceCb w x)⟩

/-- `setBlock` writes no record and does not move the clock. -/
theorem recs_setBlock (w : World) (x : Nat) (b : Bool) :
    (w.setBlock x b).recs = w.recs ∧ (w.setBlock x b).now = w.now :=
  ⟨RN_recs (RN_setBlock w x b), RN_now (RN_setBlock w x b)⟩

/-- `adjustParts` writes no record and does not move the clock. -/
theorem recs_adjustParts (w : World) (x : Nat) (v : Int) :
    (w.adjustParts x v).recs = w.recs ∧ (w.adjustParts x v).now = w.now :=
  ⟨RN_recs (RN_adjustParts w x v), RN_now (RN_adjustParts w x v)⟩

/-- `rewire` writes no record and does not move the clock. -/
theorem recs_rewire (w : World) (x : Nat) (ups : List Nat) :
    (w.rewire x ups).recs = w.recs ∧ (w.rewire x ups).now = w.now :=
  ⟨RN_recs (RN_rewire w x ups), RN_now (RN_rewire w x ups)⟩

/-! Every function that can run inside an event only extends the log, and keeps the clock. -/

/-- `setWaiting` only extends the log (trivially: it writes nothing). -/
theorem ext_setWaiting (w : World) (x : Nat) (a b : Bool) : ExtN w (w.setWaiting x a b) :=
  ExtN.of_RN (RN_setWaiting w x a b)

/-- `schedulePass` only extends the log (trivially: it writes nothing). -/
theorem ext_schedulePass (w : World) (x : Nat) (o : Int) : ExtN w (w.schedulePass x o) :=
  ExtN.of_RN (RN_schedulePass w x o)

/-- `notifyUp` only extends the log (trivially: it writes nothing). -/
theorem ext_notifyUp (w : World) (n x : Nat) : ExtN w (notifyUp n w x) :=
  ExtN.of_RN (RN_notifyUp n w x)

/-- `spaceAvail` only extends the log (trivially: it writes nothing). -/
theorem ext_spaceAvail (w : World) (n x : Nat) : ExtN w (spaceAvail n w x) :=
  ExtN.of_RN (RN_spaceAvail n w x)

/-- `notify` only extends the log (trivially: it writes nothing). -/
theorem ext_notify (w : World) (x : Nat) : ExtN w (w.notify x) :=
  ExtN.of_RN (RN_notify w x)

/-- `spaceAvailable` only extends the log (trivially: it writes nothing). -/
theorem ext_spaceAvailable (w : World) (x : Nat) : ExtN w (w.spaceAvailable x) :=
  ExtN.of_RN (RN_spaceAvailable w x)

/-- `applyPartCb` only extends the log (trivially: it writes nothing). -/
theorem ext_applyPartCb (w : World) (x p : Nat) (c : PartCb) : ExtN w (w.applyPartCb x p c) :=
  ExtN.of_RN (RN_applyPartCb w x p c)

/-- `senseOutput` only extends the log (trivially: it writes nothing). -/
theorem ext_senseOutput (w : World) (s p : Nat) : ExtN w (w.senseOutput s p) :=
  ExtN.of_RN (RN_senseOutput w s p)

/-- `finishCycleHandler` only extends the log (trivially: it writes nothing). -/
theorem ext_finishCycleHandler (w : World) (x : Nat) : ExtN w (w.finishCycleHandler x) :=
  ExtN.of_RN (RN_finishCycleHandler w x)

/-- `genPart` only extends the log (trivially: it writes nothing). -/
theorem ext_genPart (w : World) (x : Nat) : ExtN w ((w.genPart x).1) :=
  ExtN.of_RN (RN_genPart w x)

/-- `addHist` only extends the log (trivially: it writes nothing). -/
theorem ext_addHist (w : World) (p d : Nat) : ExtN w (w.addHist p d) :=
  ExtN.of_RN (RN_addHist w p d)

/-- `dropHist` only extends the log (trivially: it writes nothing). -/
theorem ext_dropHist (w : World) (p : Nat) : ExtN w (w.dropHist p) :=
  ExtN.of_RN (RN_dropHist w p)

/-- `batcherLoop` only extends the log (trivially: it writes nothing). -/
theorem ext_batcherLoop (w : World) (n x : Nat) : ExtN w (batcherLoop n w x) :=
  ExtN.of_RN (RN_batcherLoop n w x)

/-- `shutdownDev` only extends the log (trivially: it writes nothing). -/
theorem ext_shutdownDev (w : World) (x : Nat) (f : Bool) (lost : Option Nat) : ExtN w (w.shutdownDev x f lost) :=
  ExtN.of_RN (RN_shutdownDev w x f lost)

/-- `restoreDev` only extends the log (trivially: it writes nothing). -/
theorem ext_restoreDev (w : World) (x : Nat) : ExtN w (w.restoreDev x) :=
  ExtN.of_RN (RN_restoreDev w x)

/-- `procResourceCb` only extends the log (trivially: it writes nothing). -/
theorem ext_procResourceCb (w : World) (x : Nat) : ExtN w (w.procResourceCb x) :=
  ExtN.of_RN (RN_procResourceCb w x)

/-- `setBlock` only extends the log (trivially: it writes nothing). -/
theorem ext_setBlock (w : World) (x : Nat) (b : Bool) : ExtN w (w.setBlock x b) :=
  ExtN.of_RN (RN_setBlock w x b)

/-- `adjustParts` only extends the log (trivially: it writes nothing). -/
theorem ext_adjustParts (w : World) (x : Nat) (v : Int) : ExtN w (w.adjustParts x v) :=
  ExtN.of_RN (RN_adjustParts w x v)

/-- `rewire` only extends the log (trivially: it writes nothing). -/
theorem ext_rewire (w : World) (x : Nat) (ups : List Nat) : ExtN w (w.rewire x ups) :=
  ExtN.of_RN (RN_rewire w x ups)

/-- `rmEffects` only extends the log and keeps the clock. -/
theorem ext_rmEffects (w : World) (recs : List ResRec) (chk : Bool) : ExtN w (w.rmEffects recs chk) :=
  ExtN_rmEffects w recs chk

/-- `releaseReserved` only extends the log and keeps the clock. -/
theorem ext_releaseReserved (w : World) (x : Nat) : ExtN w (w.releaseReserved x) :=
  ExtN_releaseReserved w x

/-- `procAcquire` only extends the log and keeps the clock. -/
theorem ext_procAcquire (w : World) (x : Nat) : ExtN w ((w.procAcquire x).1) :=
  ExtN_procAcquire w x

/-- `finishCycle` only extends the log and keeps the clock. -/
theorem ext_finishCycle (w : World) (x : Nat) : ExtN w (w.finishCycle x) :=
  ExtN_finishCycle w x

/-- `scheduleFinish` only extends the log and keeps the clock. -/
theorem ext_scheduleFinish (w : World) (x : Nat) : ExtN w (w.scheduleFinish x) :=
  ExtN_scheduleFinish w x

/-- `tryMove` only extends the log and keeps the clock. -/
theorem ext_tryMove (w : World) (x : Nat) : ExtN w (w.tryMove x) :=
  ExtN_tryMove w x

/-- `onReceived` only extends the log and keeps the clock. -/
theorem ext_onReceived (w : World) (x p : Nat) : ExtN w (w.onReceived x p) :=
  ExtN_onReceived w x p

/-- `acceptPart` only extends the log and keeps the clock. -/
theorem ext_acceptPart (w : World) (x p : Nat) : ExtN w (w.acceptPart x p) :=
  ExtN_acceptPart w x p

/-- `give` only extends the log and keeps the clock. -/
theorem ext_give (w : World) (n x p : Nat) : ExtN w ((give n w x p).1) :=
  ExtN_give n w x p

/-- `givePart` only extends the log and keeps the clock. -/
theorem ext_givePart (w : World) (x p : Nat) : ExtN w ((w.givePart x p).1) :=
  ExtN_givePart w x p

/-- `tryList_givePart` only extends the log and keeps the clock. -/
theorem ext_tryList_givePart (w : World) (l : List Nat) (p : Nat) : ExtN w ((tryList givePart w l p).1) :=
  ExtN_tryList_givePart w l p

/-- `passHandler` only extends the log and keeps the clock. -/
theorem ext_passHandler (w : World) (x : Nat) : ExtN w (w.passHandler x) :=
  ExtN_passHandler w x

/-- `bufferLoop` only extends the log and keeps the clock. -/
theorem ext_bufferLoop (w : World) (n x : Nat) : ExtN w (bufferLoop n w x) :=
  ExtN_bufferLoop n w x

/-- `passPart` only extends the log and keeps the clock. -/
theorem ext_passPart (w : World) (x : Nat) : ExtN w (w.passPart x) :=
  ExtN_passPart w x

/-- `failDev` only extends the log and keeps the clock. -/
theorem ext_failDev (w : World) (x : Nat) : ExtN w (w.failDev x) :=
  ExtN_failDev w x

/-- `releaseIfIdle` only extends the log and keeps the clock. -/
theorem ext_releaseIfIdle (w : World) (x : Nat) : ExtN w (w.releaseIfIdle x) :=
  ExtN_releaseIfIdle w x

/-- `initDev` only extends the log and keeps the clock. -/
theorem ext_initDev (w : World) (x : Nat) : ExtN w (w.initDev x) :=
  ExtN_initDev w x

/-- `applyOp` only extends the log and keeps the clock. -/
theorem ext_applyOp (w : World) (op : Op) : ExtN w ((w.applyOp op).1) :=
  ExtN_applyOp w op

/-- `applyOps` only extends the log and keeps the clock. -/
theorem ext_applyOps (w : World) (ops : List Op) : ExtN w (w.applyOps ops) :=
  ExtN_applyOps w ops

/-- `runScript` only extends the log and keeps the clock. -/
theorem ext_runScript (w : World) (k : Nat) : ExtN w (w.runScript k) :=
  ExtN_runScript w k

/-- `scanWaiting` only extends the log and keeps the clock. -/
theorem ext_scanWaiting (w : World) (n i : Nat) : ExtN w (scanWaiting scanOps n w i) :=
  ExtN_scanWaiting n w i

/-- `rmCheck` only extends the log and keeps the clock. -/
theorem ext_rmCheck (w : World)  : ExtN w (w.rmCheck) :=
  ExtN_rmCheck w

/-- `hookStart` only extends the log and keeps the clock. -/
theorem ext_hookStart (w : World) (tgt : Nat) (tag : Int) : ExtN w (w.hookStart tgt tag) :=
  ExtN_hookStart w tgt tag

/-- `hookEnd` only extends the log and keeps the clock. -/
theorem ext_hookEnd (w : World) (tgt : Nat) (tag : Int) : ExtN w (w.hookEnd tgt tag) :=
  ExtN_hookEnd w tgt tag

/-- `startWork` only extends the log and keeps the clock. -/
theorem ext_startWork (w : World) (m seq : Nat) : ExtN w (w.startWork m seq) :=
  ExtN_startWork w m seq

/-- `finishWork` only extends the log and keeps the clock. -/
theorem ext_finishWork (w : World) (m seq : Nat) : ExtN w (w.finishWork m seq) :=
  ExtN_finishWork w m seq

/-- `schedUpdate` only extends the log and keeps the clock. -/
theorem ext_schedUpdate (w : World) (s : Nat) (advance : Bool) : ExtN w (w.schedUpdate s advance) :=
  ExtN_schedUpdate w s advance

/-- `periodicSense` only extends the log and keeps the clock. -/
theorem ext_periodicSense (w : World) (s : Nat) : ExtN w (w.periodicSense s) :=
  ExtN_periodicSense w s

/-- `exec` only extends the log and keeps the clock. -/
theorem ext_exec (w : World) (a : Action) : ExtN w (w.exec a) :=
  ExtN_exec w a

/-- `initAsset` only extends the log and keeps the clock. -/
theorem ext_initAsset (w : World) (a : AssetRef) : ExtN w (w.initAsset a) :=
  ExtN_initAsset w a

/-- `addDev` only extends the log and keeps the clock. -/
theorem ext_addDev (w : World) (d : Dev) : ExtN w (w.addDev d) :=
  ExtN_addDev w d

/-- `addAsset` only extends the log and keeps the clock. -/
theorem ext_addAsset (w : World) (spec : AssetSpec) : ExtN w (w.addAsset spec) :=
  ExtN_addAsset w spec

/-- `simulateInit` only extends the log and keeps the clock. -/
theorem ext_simulateInit (w : World)  : ExtN w (w.simulateInit) :=
  ExtN_simulateInit w

/-- A general `tryList` extends the log if the function it iterates does. -/
theorem ext_tryList (g : World → Nat → Nat → World × Bool)
    (hg : ∀ w y p, ExtN w (g w y p).1) (w : World) (l : List Nat) (p : Nat) :
    ExtN w (tryList g w l p).1 :=
  ExtN_tryList g hg w l p

/-- **The trace is append-only**: a step of the event loop (`Environment.step`: pop an event, set
the clock, run its action unless cancelled) never removes or rewrites a record. -/
theorem trace_is_append_only {w w' : World} {e : Event} (h : w.step = some (e, w')) : Ext w w' :=
  Ext_step h

/-- Consequently every record of the old log is still there, at the same position. -/
theorem trace_prefix {w w' : World} {e : Event} (h : w.step = some (e, w')) (i : Nat)
    (hi : i < w.recs.length) : w'.recs[i]? = w.recs[i]? := by
  obtain ⟨l, hl⟩ := trace_is_append_only h
  rw [hl, List.getElem?_append_left hi]

/-! ### (b) exactly one record per occurrence, stamped with the current values -/

/-- `rmEffects`: the records returned by the resource manager are appended in order, each stamped
with the current time. -/
theorem resource_records (w : World) (recs : List ResRec) (chk : Bool) :
    (w.rmEffects recs chk).recs =
      w.recs ++ recs.map (fun r => Rec.resUpdate r.res w.now r.inUse r.cap) :=
  rmEffects_recs' w recs chk

/-- `_fail()`: the `resource_update` records of the release of the reserved resources, followed by
exactly one `device_failure` record with the current time and the part that was in process. -/
theorem failure_record (w : World) (x : Nat) :
    (w.failDev x).recs =
      w.recs ++ releaseRecs w x ++ [Rec.failure x w.now (w.dev x).part] :=
  failDev_recs w x

/-- The records in front of the failure record are the stamped records of
`ReservedResources.release()` (none if nothing was reserved). -/
theorem failure_record_resources (w : World) (x : Nat) :
    releaseRecs w x =
      match (w.dev x).reserved with
      | none => []
      | some id => (w.rm.release id none).2.2.1.map
          (fun r => Rec.resUpdate r.res w.now r.inUse r.cap) := rfl

/-- `_on_received_new_part`: (for a buffer: the new level, then) exactly one `received_part`
record with the current time and the part's quality and value BEFORE the receive callbacks run;
everything after it is written by the move attempt. -/
theorem received_record (w : World) (x p : Nat) :
    ∃ tail, (w.onReceived x p).recs =
      w.recs ++
        (if (w.dev x).kind = .buffer then [Rec.level x w.now ((w.dev x).level + w.leafCount p)]
          else []) ++
        [Rec.received x w.now p (w.part p).quality (w.partValue p)] ++ tail :=
  onReceived_recs w x p

/-- The same for `_accept_part` (which calls `_on_received_new_part`). -/
theorem received_record_accept (w : World) (x p : Nat) :
    ∃ tail, (w.acceptPart x p).recs =
      w.recs ++
        (if (w.dev x).kind = .buffer then [Rec.level x w.now ((w.dev x).level + w.leafCount p)]
          else []) ++
        [Rec.received x w.now p (w.part p).quality (w.partValue p)] ++ tail :=
  acceptPart_recs w x p

/-- A buffer that receives a part writes exactly two records: its new level and the
`received_part` record. -/
theorem received_record_buffer (w : World) (x p : Nat) (h : (w.dev x).kind = .buffer) :
    (w.onReceived x p).recs = w.recs ++
      [Rec.level x w.now ((w.dev x).level + w.leafCount p),
       Rec.received x w.now p (w.part p).quality (w.partValue p)] :=
  onReceived_buffer_recs w x p h

/-- The counter of a sink goes up by the number of parts received (a batch counts its parts),
together with the one `received_part` record of `received_record`. -/
theorem sink_count (w : World) (x p : Nat) (h : (w.dev x).kind = .sink) :
    ((w.onReceived x p).dev x).recvCount = (w.dev x).recvCount + w.leafCount p ∧
    ((w.acceptPart x p).dev x).recvCount = (w.dev x).recvCount + w.leafCount p :=
  ⟨onReceived_sink_recvCount w x p h, acceptPart_sink_recvCount w x p h⟩

/-- A processor's `_finish_cycle` writes at most one record, a `produced_part` record, as the
LAST thing it does; it carries the current time and the quality and value the part has AFTER the
finish callbacks (= in the resulting world).  `procPre` is the handler part of the method. -/
theorem produced_record (w : World) (x : Nat) (h : (w.dev x).kind = .processor) :
    (w.finishCycle x).recs = w.recs ++
      match ((procPre w x).dev x).output with
      | none => []
      | some p => [Rec.produced x w.now p ((w.finishCycle x).part p).quality
          ((w.finishCycle x).partValue p)] :=
  finishCycle_processor_recs w x h

/-- Exactly one `produced_part` record per finished cycle: on an operational processor that
holds part `p` and has a free output the handler part succeeds. -/
theorem produced_record_once (w : World) (x p : Nat) (h : (w.dev x).kind = .processor)
    (hop : w.operational x = true) (hp : (w.dev x).part = some p)
    (ho : (w.dev x).output = none) :
    (w.finishCycle x).recs = w.recs ++
      [Rec.produced x w.now p ((w.finishCycle x).part p).quality
          ((w.finishCycle x).partValue p)] :=
  finishCycle_processor_produced w x p h hop hp ho

/-- The `_finish_cycle` of every other device writes nothing. -/
theorem produced_record_only_processors (w : World) (x : Nat) (h : (w.dev x).kind ≠ .processor) :
    (w.finishCycle x).recs = w.recs :=
  finishCycle_other_recs w x h

/-- `Source._pass_part_downstream`: either the hand-over succeeded — then exactly one
`supplied_new_part` record is written (current time, the part that was in the output; the
records around it are not `supplied_new_part` records) and the counter of this source, and of no
other device, goes up by one — or no such record is written and no counter changes (`ExtF`). -/
theorem supplied_record (w : World) (x : Nat) (h : (w.dev x).kind = .source) :
    (∃ p l₁ l₂, (w.dev x).output = some p ∧
        (w.passPart x).recs = w.recs ++ l₁ ++ [Rec.supplied x w.now p] ++ l₂ ∧
        (∀ r ∈ l₁, isSup r = false) ∧ (∀ r ∈ l₂, isSup r = false) ∧
        ((w.passPart x).dev x).produced = (w.dev x).produced + 1 ∧
        ∀ y, y ≠ x → ((w.passPart x).dev y).produced = (w.dev y).produced) ∨
      ExtF w (w.passPart x) :=
  passPart_source_cases w x h

/-- What `ExtF` gives: no `supplied_new_part` record is appended, no counter changes. -/
theorem extF_spec {w w' : World} (h : ExtF w w') :
    w'.now = w.now ∧ (∃ l, w'.recs = w.recs ++ l ∧ ∀ r ∈ l, isSup r = false) ∧
    (∀ y, (w'.dev y).produced = (w.dev y).produced) ∧
    ∀ y, countSupplied w' y = countSupplied w y :=
  ⟨h.now_eq, h.ext, h.produced, h.countSupplied⟩

/-- `_pass_part_downstream` of every device that is not a source writes no
`supplied_new_part` record and changes no counter. -/
theorem supplied_record_only_sources (w : World) (x : Nat) (h : (w.dev x).kind ≠ .source) :
    ExtF w (w.passPart x) :=
  ExtF_passPart_other w x h

/-- **supplied_count**, one step: `_pass_part_downstream` of ANY device `x` preserves, for EVERY
device `y`, the difference between the counter `produced` and the number of
`supplied_new_part` records of `y`: both go up by one together or not at all. -/
theorem supplied_count (w : World) (x y : Nat) :
    ((w.passPart x).dev y).produced - countSupplied (w.passPart x) y =
      (w.dev y).produced - countSupplied w y :=
  passPart_supplied_count w x y

/-- The same for the actions of all events that run no scenario script (the remaining actions —
`script`, `rmCheck`, `startWork`, `finishWork` — may run scripted operations that create devices). -/
theorem supplied_count_exec (w : World) (a : Action) (y : Nat)
    (ha : match a with
      | .terminate | .finishCycle _ | .passPart _ | .fail _ | .releaseIfIdle _
      | .schedUpdate _ | .periodicSense _ | .unknown _ => True
      | _ => False) :
    ((w.exec a).dev y).produced - countSupplied (w.exec a) y =
      (w.dev y).produced - countSupplied w y :=
  exec_supplied_count w a y ha

/-- Hence `produced = #supplied_new_part records` is preserved by these actions. -/
theorem supplied_count_inv (w : World) (a : Action) (y : Nat)
    (ha : match a with
      | .terminate | .finishCycle _ | .passPart _ | .fail _ | .releaseIfIdle _
      | .schedUpdate _ | .periodicSense _ | .unknown _ => True
      | _ => False)
    (h : (w.dev y).produced = countSupplied w y) :
    ((w.exec a).dev y).produced = countSupplied (w.exec a) y := by
  have := supplied_count_exec w a y ha
  omega

/-- `ActionScheduler._update_state`: exactly one `schedule_update` record (current time, the
state entered) when a transition happens, none when a non-cyclical schedule has run out. -/
theorem schedule_record (w : World) (s : Nat) (advance : Bool) :
    (w.schedUpdate s advance).recs = w.recs ++
      match ((w.scheds.getD s default).s.update advance).2 with
      | none => []
      | some (st, _, _) => [Rec.schedUpdate s w.now st] :=
  schedUpdate_recs w s advance

/-- `create_work_order`: exactly one `enter_queue` record (current time, target, tag, info) iff
the request is not a duplicate; nothing else is written. -/
theorem work_order_enter_record (w : World) (m tgt : Nat) (tag info : Int) :
    (w.applyOp (.workOrder m tgt tag info)).1.recs = w.recs ++
      if (w.maint m).requested tgt tag then [] else [Rec.workOrder 0 m w.now tgt tag info] :=
  applyOp_workOrder_recs w m tgt tag info

/-- `_start_work_order`: exactly one `start` record for the order, written before the target's
`start_work` hook runs (the tail is what the hook writes; nothing for a processor target). -/
theorem work_order_start_record (w : World) (m seq : Nat) (o : Order)
    (h : (w.maint m).findActive seq = some o) :
    ∃ tail, (w.startWork m seq).recs =
      w.recs ++ [Rec.workOrder 1 m w.now o.target o.tag o.info] ++ tail :=
  startWork_recs w m seq o h

/-- `_finish_work_order`: exactly one `finish` record for the order, the LAST record, written
after the target's `end_work` hook has run (`pre` is what the hook writes). -/
theorem work_order_finish_record (w : World) (m seq : Nat) (o : Order)
    (h : (w.maint m).findActive seq = some o) :
    ∃ pre, (w.finishWork m seq).recs =
      w.recs ++ pre ++ [Rec.workOrder 2 m w.now o.target o.tag o.info] :=
  finishWork_recs w m seq o h

/-- No order, no record. -/
theorem work_order_unknown (w : World) (m seq : Nat) (h : (w.maint m).findActive seq = none) :
    (w.startWork m seq).recs = w.recs ∧ (w.finishWork m seq).recs = w.recs :=
  ⟨startWork_none_recs w m seq h, finishWork_none_recs w m seq h⟩

/-- The default hooks (the target is a processor: shut down / restore) write nothing. -/
theorem work_order_default_hooks (w : World) (tgt : Nat) (tag : Int) (d : Nat)
    (h : (w.targets.getD tgt default).dev = some d) :
    (w.hookStart tgt tag).recs = w.recs ∧ (w.hookEnd tgt tag).recs = w.recs :=
  ⟨hookStart_dev_recs w tgt tag d h, hookEnd_dev_recs w tgt tag d h⟩

/-! ### (c) last-record invariants, one step -/

/-- What `Faithful rm rm' recs` says, spelled out: if the pool of `r` changed, `recs` contains a
record about `r` and the last such record is the new pool; a resource without a record is
unchanged. -/
theorem faithful_spec {rm rm' : RM} {recs : List ResRec} (h : Faithful rm rm' recs) (r : Nat) :
    (∀ x, lastFor recs r = some x → x = ⟨r, rm'.usage r, rm'.capacity r⟩) ∧
    (lastFor recs r = none → rm'.usage r = rm.usage r ∧ rm'.capacity r = rm.capacity r) ∧
    ((rm'.usage r, rm'.capacity r) ≠ (rm.usage r, rm.capacity r) →
      ∃ x, x ∈ recs ∧ lastFor recs r = some x ∧ x = ⟨r, rm'.usage r, rm'.capacity r⟩) := by
  have hr := h r
  refine ⟨?_, ?_, ?_⟩
  · intro x hx; rw [hx] at hr; exact hr
  · intro hn; rw [hn] at hr
    exact ⟨congrArg Prod.fst hr, congrArg Prod.snd hr⟩
  · intro hne
    cases e : lastFor recs r with
    | none => rw [e] at hr; exact absurd hr hne
    | some x =>
      rw [e] at hr
      refine ⟨x, ?_, rfl, hr⟩
      have : x ∈ recs.filter (fun y => y.res == r) := List.mem_of_getLast? e
      exact (List.mem_filter.1 this).1

/-- **last_resource_eq**, `add_resources` on an initialised manager. -/
theorem last_resource_eq_add (rm : RM) (r : Nat) (amt : Int) (hi : rm.inited = true) :
    Faithful rm (rm.add r amt).1 (rm.add r amt).2.2.1 :=
  Faithful.add rm r amt hi

/-- **last_resource_eq**, `reserve_resources` on an initialised manager. -/
theorem last_resource_eq_reserve (rm : RM) (req : Req) (hi : rm.inited = true) :
    Faithful rm (rm.reserve req).1 (rm.reserve req).2.2.2 :=
  Faithful.reserve rm req hi

/-- **last_resource_eq**, `ReservedResources.release` (all or part) on an initialised manager. -/
theorem last_resource_eq_release (rm : RM) (id : Nat) (part : Option Req)
    (hi : rm.inited = true) :
    Faithful rm (rm.release id part).1 (rm.release id part).2.2.1 :=
  Faithful.release rm id part hi

/-- The pool-level functions `take` / `credit` (`_reserve` / `_release_resources`). -/
theorem last_resource_eq_take_credit (rm : RM) (req : Req) (hi : rm.inited = true) :
    Faithful rm (rm.take req).1 (rm.take req).2 ∧ Faithful rm (rm.credit req).1 (rm.credit req).2 :=
  ⟨Faithful.take rm req hi, Faithful.credit rm req hi⟩

/-- The same at the level of the world's log (`ResStep w w'`: the log is extended, the last
`resource_update` record of every resource in the new piece shows the new pool, a resource
without a new record has an unchanged pool), for the scripted operations and for
`_release_reserved_resources`. -/
theorem last_resource_eq_world (w : World) (hi : w.rm.inited = true) :
    (∀ r amt, ResStep w (w.applyOp (.addRes r amt)).1) ∧
    (∀ h req, ResStep w (w.applyOp (.reserve h req)).1) ∧
    (∀ h part, ResStep w (w.applyOp (.release h part)).1) ∧
    (∀ x, ResStep w (w.releaseReserved x)) :=
  ⟨fun r amt => applyOp_addRes_resStep w r amt hi,
   fun h req => applyOp_reserve_resStep w h req hi,
   fun h part => applyOp_release_resStep w h part hi,
   fun x => releaseReserved_resStep w x hi⟩

/-- **last_level_eq**, receiving: after a buffer accepted a part, its last `level` record is its
level (which went up by the number of parts received). -/
theorem last_level_eq_accept (w : World) (x p : Nat) (h : (w.dev x).kind = .buffer) :
    lastLevel (w.acceptPart x p).recs x = some ((w.acceptPart x p).dev x).level ∧
    ((w.acceptPart x p).dev x).level = (w.dev x).level + w.leafCount p :=
  ⟨acceptPart_buffer_lastLevel w x p h, acceptPart_buffer_level w x p h⟩

/-- The release loop of `Buffer._pass_part_downstream`, unfolded once: after every successful
hand-over it performs the release step `releaseStep` … -/
theorem bufferLoop_step (f : Nat) (w : World) (x : Nat) :
    bufferLoop (f + 1) w x =
      match (w.dev x).buf with
      | [] => w
      | (t, p) :: _ =>
        if (w.dev x).delay - (w.now - t) > 0 then w
        else match tryList givePart w (w.sortedDown x) p with
          | (w1, true) => bufferLoop f (releaseStep w1 x (w.leafCount p)) x
          | (w1, false) => w1 :=
  bufferLoop_succ f w x

/-- … **last_level_eq**, releasing: and the release step writes exactly one `level` record, equal
to the buffer's new level (the old level minus the parts released). -/
theorem last_level_eq_release (w : World) (x n : Nat) :
    (releaseStep w x n).recs = w.recs ++ [Rec.level x w.now ((releaseStep w x n).dev x).level] ∧
    lastLevel (releaseStep w x n).recs x = some ((releaseStep w x n).dev x).level ∧
    (x < w.devs.length → ((releaseStep w x n).dev x).level = (w.dev x).level - n) :=
  ⟨releaseStep_recs w x n, releaseStep_lastLevel w x n, releaseStep_level w x n⟩

/-- What `ExtL` gives: no `level` record is appended and the level of every device is unchanged
(and the clock; the log is only extended). -/
theorem extL_spec {w w' : World} (h : ExtL w w') :
    w'.now = w.now ∧ (∃ l, w'.recs = w.recs ++ l ∧ ∀ r ∈ l, isLevel r = false) ∧
    ∀ y, (w'.dev y).level = (w.dev y).level :=
  ⟨h.now_eq, h.ext, h.level⟩

/-- The level of a buffer changes nowhere else among the functions covered in (b): not in `_fail`,
`_finish_cycle`, the cycle machinery behind them, the release of resources, shutdown / restore,
the scheduler's transition, and not when a device other than a buffer receives a part. -/
theorem level_changes_nowhere_else (w : World) :
    (∀ x, ExtL w (w.failDev x)) ∧ (∀ x, ExtL w (w.finishCycle x)) ∧
    (∀ x, ExtL w (w.scheduleFinish x)) ∧ (∀ x, ExtL w (w.tryMove x)) ∧
    (∀ x, ExtL w (w.releaseReserved x)) ∧ (∀ x, ExtL w (w.procAcquire x).1) ∧
    (∀ x, ExtL w (w.releaseIfIdle x)) ∧
    (∀ x f lost, ExtL w (w.shutdownDev x f lost)) ∧ (∀ x, ExtL w (w.restoreDev x)) ∧
    (∀ recs chk, ExtL w (w.rmEffects recs chk)) ∧ (∀ s adv, ExtL w (w.schedUpdate s adv)) ∧
    (∀ x p, (w.dev x).kind ≠ .buffer → ExtL w (w.onReceived x p)) ∧
    (∀ x p, (w.dev x).kind ≠ .buffer → ExtL w (w.acceptPart x p)) :=
  ⟨ExtL_failDev w, ExtL_finishCycle w, ExtL_scheduleFinish w, ExtL_tryMove w,
   ExtL_releaseReserved w, ExtL_procAcquire w, ExtL_releaseIfIdle w, ExtL_shutdownDev w,
   ExtL_restoreDev w, ExtL_rmEffects w, ExtL_schedUpdate w, ExtL_onReceived_other w,
   ExtL_acceptPart_other w⟩

/-- What `ExtV` gives: the new piece of the log records every level change — for every device,
the last `level` record about it in the new piece is its new level, and a device without a new
`level` record keeps its level. -/
theorem extV_spec {w w' : World} (h : ExtV w w') :
    w'.now = w.now ∧ ∃ l, w'.recs = w.recs ++ l ∧
      ∀ y, (lastLevel l y).getD (w.dev y).level = (w'.dev y).level :=
  ⟨h.now_eq, h.ext⟩

/-- **last_level_eq** beyond one step: EVERY function of the factory floor logs every level change
(`ExtV`): receiving and passing parts through arbitrary networks of devices (`give`, which may
loop back into the same buffer), the buffer's release loop, `_pass_part_downstream` of every
kind of device, initialisation. -/
theorem level_always_logged (w : World) :
    (∀ x p, ExtV w (w.onReceived x p)) ∧ (∀ x p, ExtV w (w.acceptPart x p)) ∧
    (∀ n x p, ExtV w (give n w x p).1) ∧ (∀ x p, ExtV w (w.givePart x p).1) ∧
    (∀ x, ExtV w (w.passHandler x)) ∧ (∀ n x, ExtV w (bufferLoop n w x)) ∧
    (∀ x, ExtV w (w.passPart x)) ∧ (∀ x, ExtV w (w.initDev x)) :=
  ⟨ExtV_onReceived w, ExtV_acceptPart w, fun n x p => ExtV_give n w x p, ExtV_givePart w,
   ExtV_passHandler w, fun n x => ExtV_bufferLoop n w x, ExtV_passPart w, ExtV_initDev w⟩

/-- **last_level_eq** as an invariant: "the last `level` record of every device is its level
(0 if there is none)" is preserved by the action of every event that runs no scenario script
(the remaining actions — `script`, `rmCheck`, `startWork`, `finishWork` — may run scripted
operations; not covered here). -/
theorem last_level_eq_exec (w : World) (a : Action)
    (ha : match a with
      | .terminate | .finishCycle _ | .passPart _ | .fail _ | .releaseIfIdle _
      | .schedUpdate _ | .periodicSense _ | .unknown _ => True
      | _ => False)
    (h : ∀ y, (lastLevel w.recs y).getD 0 = (w.dev y).level) :
    ∀ y, (lastLevel (w.exec a).recs y).getD 0 = ((w.exec a).dev y).level :=
  (ExtV_exec w a ha).levelInv h

/-! ### (d) the `add_datapoint` sites regenerated from the Python sources -/

/-- The (class, method) pairs that write datapoints with the given label. -/
def sitesOf (label : String) : List (String × String) :=
  (Gen.datapointSites.filter (fun s => s.1 == label)).map (·.2)

/-- **sites_complete**: every label has precisely the sites the model mirrors — one site each
for `received_part` (`onReceived`), `produced_part` (processor `finishCycle`),
`supplied_new_part` (source `passPart`), `device_failure` (`failDev`), `resource_update`
(`rmEffects`), `schedule_update` (`schedUpdate`), the maintainer's generic
`_record_work_order_datapoint` (`applyOp .workOrder` / `startWork` / `finishWork`), and two for
`level` (`onReceived` and `bufferLoop`) — and there is no other site. -/
theorem sites_complete :
    sitesOf "received_part" = [("PartHandler", "_on_received_new_part")] ∧
    sitesOf "produced_part" = [("PartProcessor", "_finish_cycle")] ∧
    sitesOf "supplied_new_part" = [("Source", "_pass_part_downstream")] ∧
    sitesOf "device_failure" = [("PartProcessor", "_fail")] ∧
    (sitesOf "level").isPerm
      [("Buffer", "_on_received_new_part"), ("Buffer", "_pass_part_downstream")] = true ∧
    sitesOf "resource_update" = [("ResourceManager", "_record_resource_amount_update")] ∧
    sitesOf "schedule_update" = [("ActionScheduler", "_update_state")] ∧
    sitesOf "$list_label" = [("Maintainer", "_record_work_order_datapoint")] ∧
    (Gen.datapointSites.map (·.1)).isPerm
      ["received_part", "produced_part", "supplied_new_part", "device_failure", "level", "level",
       "resource_update", "schedule_update", "$list_label"] = true := by
  decide

/-! ### non-vacuity -/

/-- A buffer (device 0) in front of a sink (device 1); part 0 exists. -/
def wB : World :=
  { devs := [{ kind := .buffer, inited := true, aid := 1, down := [1] },
             { kind := .sink, inited := true, aid := 2, up := [0] }],
    parts := [{ quality := 3, value := 7 }] }

/-- A processor (device 0) holding part 0, with a finish callback that changes value and quality. -/
def wP : World :=
  { devs := [{ kind := .processor, inited := true, aid := 1, part := some 0,
               finCbs := [{ addValue := 5, setQuality := some 9 }] }],
    parts := [{ quality := 3, value := 7 }] }

/-- A source (device 0) with part 0 in its output, in front of a sink (device 1). -/
def wS : World :=
  { devs := [{ kind := .source, inited := true, aid := 1, output := some 0, down := [1], cycle := 4 },
             { kind := .sink, inited := true, aid := 2, up := [0] }],
    parts := [{ quality := 1, value := 2 }] }

/-- A maintainer and a plain target with parameters for tag 1. -/
def wM : World :=
  { maints := [{ m := {}, aid := 1, inited := true }], targets := [{ params := [(1, 10, 0, 3)] }] }

/-- A scheduler with a two-entry timetable. -/
def wT : World := { scheds := [{ s := { tt := [(5, 1), (3, 0)] }, aid := 1 }] }

/-- An initialised resource manager with one pool. -/
def rm0 : RM := { pools := [(0, 1, 5)], inited := true }

/-- The buffer accepts the part: level record, then the `received_part` record with the part's
quality 3 and value 7; its level is the one recorded. -/
example : (wB.acceptPart 0 0).recs = [Rec.level 0 0 1, Rec.received 0 0 0 3 7] := by decide
example : (wB.dev 0).kind = .buffer ∧ ((wB.acceptPart 0 0).dev 0).level = 1 := by decide
example : lastLevel (wB.acceptPart 0 0).recs 0 = some 1 := by decide

/-- The level invariant holds in `wB` (no record, level 0) and after the buffer received the part
(record 1, level 1): `last_level_eq_exec` is not vacuous. -/
example : (∀ y, y < 2 → (lastLevel wB.recs y).getD 0 = (wB.dev y).level) ∧
    (∀ y, y < 2 → (lastLevel (wB.acceptPart 0 0).recs y).getD 0 = ((wB.acceptPart 0 0).dev y).level) := by
  decide

/-- The sink accepts the part: one `received_part` record, the counter goes from 0 to 1. -/
example : (wB.acceptPart 1 0).recs = [Rec.received 1 0 0 3 7] ∧
    (wB.dev 1).kind = .sink ∧ ((wB.acceptPart 1 0).dev 1).recvCount = 1 := by decide

/-- The hypotheses of `produced_record_once` hold in `wP`; the record carries quality 9 and value
12 — the values AFTER the finish callback (before: 3 and 7). -/
example : (wP.dev 0).kind = .processor ∧ wP.operational 0 = true ∧ (wP.dev 0).part = some 0 ∧
    (wP.dev 0).output = none := by decide
example : (wP.finishCycle 0).recs = [Rec.produced 0 0 0 9 12] := by decide

/-- A failure of the same processor: exactly the failure record with the lost part. -/
example : (wP.failDev 0).recs = [Rec.failure 0 0 (some 0)] := by decide

/-- The source hands its part over: the first alternative of `supplied_record` happens — one
`supplied_new_part` record, the counter goes from 0 to 1 — and the sink's record is in front. -/
example : (wS.dev 0).kind = .source ∧ (wS.passPart 0).recs =
    [Rec.received 1 0 0 1 2, Rec.supplied 0 0 0] ∧
    ((wS.passPart 0).dev 0).produced = 1 ∧ countSupplied (wS.passPart 0) 0 = 1 ∧
    (wS.passPart 0).error = none := by decide

/-- … and the second alternative: with a blocked sink nothing is supplied. -/
example : (({ wS with devs := wS.devs.set 1 { kind := .sink, blockInput := true } }).passPart 0).recs
    = [] := by decide

/-- Work orders: one record per transition. -/
example : (wM.applyOp (.workOrder 0 0 1 42)).1.recs = [Rec.workOrder 0 0 0 0 1 42] := by decide
example : ((wM.applyOp (.workOrder 0 0 1 42)).1.applyOp (.workOrder 0 0 1 43)).1.recs =
    [Rec.workOrder 0 0 0 0 1 42] := by decide
example : (((wM.applyOp (.workOrder 0 0 1 42)).1.startWork 0 0).finishWork 0 0).recs =
    [Rec.workOrder 0 0 0 0 1 42, Rec.workOrder 1 0 0 0 1 42, Rec.workOrder 2 0 0 0 1 42] := by
  decide

/-- A scheduler transition writes its record. -/
example : (wT.schedUpdate 0 false).recs = [Rec.schedUpdate 0 0 1] := by decide

/-- The resource manager: the records show the new pools. -/
example : rm0.inited = true ∧ (rm0.add 0 3).2.2.1 = [⟨0, 1, 8⟩] ∧
    (rm0.reserve [(0, 2)]).2.2.2 = [⟨0, 3, 5⟩] ∧
    ((rm0.add 0 3).1.usage 0, (rm0.add 0 3).1.capacity 0) = (1, 8) := by decide

example : lastFor (rm0.add 0 3).2.2.1 0 = some ⟨0, 1, 8⟩ ∧ lastFor (rm0.add 0 3).2.2.1 1 = none := by
  decide

/-- The hypothesis `inited = true` of `last_resource_eq_*` is needed: before `initialize` the
manager changes pools without writing records (`_env is None` in the source). -/
example : ¬ Faithful { pools := [(0, 1, 5)] } (RM.add { pools := [(0, 1, 5)] } 0 3).1
    (RM.add { pools := [(0, 1, 5)] } 0 3).2.2.1 := by
  intro h
  have := (faithful_spec h 0).2.1 (by decide)
  revert this
  decide

/-- The world-level form on a concrete world. -/
example : ({ rm := rm0 } : World).rm.inited = true ∧
    (({ rm := rm0 } : World).applyOp (.addRes 0 3)).1.recs = [Rec.resUpdate 0 0 1 8] := by decide

/-- `Ext` is not trivial: it fails when a record is dropped. -/
example : ¬ Ext (wB.acceptPart 0 0) wB := by
  intro ⟨l, h⟩
  have : (wB.acceptPart 0 0).recs = [Rec.level 0 0 1, Rec.received 0 0 0 3 7] := by decide
  rw [this] at h
  cases h

/-- `wS` with a pending `pass_part` event of the source at time 2. -/
def wE : World :=
  { wS with env := { events := [{ uid := 0, time := 2, prio := 28, «weight» := 0, asset := 1,
                                  act := (Action.passPart 0).toNat }] } }

/-- A step of the event loop: the clock moves to 2 and the log is extended. -/
example : ∃ e w', wE.step = some (e, w') ∧
    w'.recs = [Rec.received 1 2 0 1 2, Rec.supplied 0 2 0] := by
  refine ⟨_, _, rfl, ?_⟩
  decide

end C15
end SimProc
