/-
C16D — value accounting adds up in worlds that CREATE ASSETS WHILE RUNNING (classes, reachability
and the condition `devNew` / `ScriptsNew` on constructor payloads: `Props/C15D.lean`).

In EVERY state reachable from a fresh world (`C15W.Fresh`), for every device and maintainer — present
from the start or constructed at any time by a script or from outside:

6. `vinv_reachable_dyn` — the value bookkeeping satisfies `C16.VInv` (value = start + Σ history
   deltas, running totals consistent, no zero entries); for ARBITRARY constructor payloads
   (`ReachableAny`, no `ScriptsNew`: the initialisation of a late device resets its bookkeeping), and
   so do `labels_reachable_dyn` and `maintainer_value_reachable_dyn`;
7. `source_value_reachable_dyn` — a source's value is its starting value minus `costProduced`, which
   is what its history records (all entries are supply costs);
   `sink_value_reachable_dyn` — a sink's value is its starting value plus `recvValue` (all entries
   are collections); with closed wiring (`sink_value_records_dyn`) `recvValue` is the sum of the
   values in the sink's `received_part` records;
   `other_value_reachable_dyn` — every other device keeps its starting value, no history;
   `maintainer_value_reachable_dyn` — a maintainer's value is its starting value plus its history,
   all of whose entries are work-order costs.
   THE STARTING VALUE: `(w.dev x).val.init` never changes once the device exists
   (`C15D.devices_kept_dyn`, `C15D.later_kept_dyn`); for a device of the fresh world it is the fresh
   world's (`*_value_initial_dyn`), for a created device it is the value in its constructor payload
   (`created_source_value_dyn`, `created_sink_value_dyn`, `created_maintainer_value_dyn`: stated for
   every state later than the constructor call).
   Frames for every world and arbitrary payloads: `only_pass_part_changes_devices_dyn`,
   `only_start_work_changes_maintainers_dyn`, `maintainer_start_step_dyn`.

The clauses `costProduced = 0`, `recvValue = 0` of `devNew` are needed:
`source_value_stale_false`, `sink_value_stale_false`.  (`val` itself may be stale:
`C15D.stale_val_is_harmless`.)
-/
import SimProc.Props.C15D
import SimProc.Props.C16W
import SimProc.Proofs.C16DSteps

namespace SimProc
namespace C16D
open World C15 C15D
open C15W hiding Reachable reachable_simulate

/-! ### 6. the bookkeeping invariant -/

/-- **vinv_reachable**, worlds that create assets: every device's and every maintainer's `val`
satisfies `C16.VInv`. -/
theorem vinv_reachable_dyn {w0 w : World} (hf : Fresh w0) (hr : ReachableAny w0 w) :
    (∀ x, C16.VInv (w.dev x).val) ∧ ∀ m, C16.VInv (w.maint m).val := by
  have h := inv_val (I0 := ValInv) (I := ValInv) ValInv.step (fun _ h => h)
    (ValInv.dstep (fun _ _ h => h)) (fun _ _ h => h) hf.valInv hf hr
  refine ⟨fun x => ?_, fun m => ?_⟩
  · have := h.1 x; rw [key_dev] at this; exact this
  · have := h.2 m; rw [key_mval] at this; exact this

/-- Spelled out: value = starting value + sum of the recorded changes. -/
theorem value_eq_history_dyn {w0 w : World} (hf : Fresh w0) (hr : ReachableAny w0 w)
    (x : Nat) : (w.dev x).val.value = (w.dev x).val.init + C16.deltaSum (w.dev x).val.hist :=
  ((vinv_reachable_dyn hf hr).1 x).value_eq

/-! ### 7. the amounts -/

theorem valueInv_reachable_dyn {w0 w : World} (hf : Fresh w0) (hn : ScriptsNew w0) (hr : Reachable w0 w)
    (x : Nat) :
    (w.dev x).val.value = (w.dev x).val.init - (w.dev x).costProduced + (w.dev x).recvValue ∧
    ((w.dev x).kind ≠ .source → (w.dev x).costProduced = 0) ∧
    ((w.dev x).kind ≠ .sink → (w.dev x).recvValue = 0) := by
  have h := inv_new (I0 := ZeroInv) (I := ValueInv) ZeroInv.step (fun _ h => h.valueInv)
    (ValueInv.dstep (fun _ _ h => h)) (fun _ _ h => h) hf.zeroInv hf hn hr x
  rw [key_dev] at h
  exact h

theorem labels_reachable_dyn {w0 w : World} (hf : Fresh w0) (hr : ReachableAny w0 w) :
    (∀ x, ∀ e ∈ (w.dev x).val.hist, ((w.dev x).kind = .source ∧ e.label = lblSupplied) ∨
      ((w.dev x).kind = .sink ∧ e.label = lblCollected)) ∧
    ∀ m, ∀ e ∈ (w.maint m).val.hist, e.label = lblWorkOrder := by
  have h := inv_val (I0 := LabelInv) (I := LabelInv) LabelInv.step (fun _ h => h)
    (LabelInv.dstep (fun _ _ h => h)) (fun _ _ h => h) hf.labelInv hf hr
  refine ⟨fun x => ?_, fun m => ?_⟩
  · have := h.1 x; rw [key_dev] at this; exact this
  · have := h.2 m; rw [key_mval] at this; exact this

/-- **source_value**: the value of a source — old or created — is its starting value minus the cost
of the parts it supplied; that cost is what its value history records. -/
theorem source_value_reachable_dyn {w0 w : World} (hf : Fresh w0) (hn : ScriptsNew w0)
    (hr : Reachable w0 w) (x : Nat) (hk : (w.dev x).kind = .source) :
    (w.dev x).val.value = (w.dev x).val.init - (w.dev x).costProduced ∧
    (w.dev x).costProduced = - C16.deltaSum (w.dev x).val.hist ∧
    ∀ e ∈ (w.dev x).val.hist, e.label = lblSupplied := by
  obtain ⟨h1, _, h3⟩ := valueInv_reachable_dyn hf hn hr x
  have h0 : (w.dev x).recvValue = 0 := h3 (by rw [hk]; intro h; cases h)
  have hv := value_eq_history_dyn hf hr.any x
  refine ⟨by omega, by omega, fun e he => ?_⟩
  rcases (labels_reachable_dyn hf hr.any).1 x e he with h | h
  · exact h.2
  · rw [hk] at h; cases h.1

/-- **sink_value**: the value of a sink — old or created — is its starting value plus the value it
collected; all entries of its history are collections. -/
theorem sink_value_reachable_dyn {w0 w : World} (hf : Fresh w0) (hn : ScriptsNew w0)
    (hr : Reachable w0 w) (x : Nat) (hk : (w.dev x).kind = .sink) :
    (w.dev x).val.value = (w.dev x).val.init + (w.dev x).recvValue ∧
    (w.dev x).recvValue = C16.deltaSum (w.dev x).val.hist ∧
    ∀ e ∈ (w.dev x).val.hist, e.label = lblCollected := by
  obtain ⟨h1, h2, _⟩ := valueInv_reachable_dyn hf hn hr x
  have h0 : (w.dev x).costProduced = 0 := h2 (by rw [hk]; intro h; cases h)
  have hv := value_eq_history_dyn hf hr.any x
  refine ⟨by omega, by omega, fun e he => ?_⟩
  rcases (labels_reachable_dyn hf hr.any).1 x e he with h | h
  · rw [hk] at h; cases h.1
  · exact h.2

/-- … and with closed wiring the collected value is the sum of the values in the sink's
`received_part` records (false without: `C15D.received_per_sink_dangling_false`). -/
theorem sink_value_records_dyn {need : Nat → Nat} {w0 w : World} (hf : Fresh w0) (hn : ScriptsNew w0)
    (hd : C02W.Dyn need w0) (hr : ReachableW need w0 w) (x : Nat) (hk : (w.dev x).kind = .sink) :
    (w.dev x).val.value = (w.dev x).val.init + receivedValue w x := by
  rw [← received_value_reachable_dyn hf hn hd hr x hk]
  exact (sink_value_reachable_dyn hf hn hr.new x hk).1

/-- Every other device keeps its starting value; its history stays empty. -/
theorem other_value_reachable_dyn {w0 w : World} (hf : Fresh w0) (hn : ScriptsNew w0)
    (hr : Reachable w0 w) (x : Nat) (h1 : (w.dev x).kind ≠ .source) (h2 : (w.dev x).kind ≠ .sink) :
    (w.dev x).val.value = (w.dev x).val.init ∧ (w.dev x).val.hist = [] := by
  obtain ⟨hv, hc, hrv⟩ := valueInv_reachable_dyn hf hn hr x
  have a := hc h1
  have b := hrv h2
  refine ⟨by omega, ?_⟩
  cases e : (w.dev x).val.hist with
  | nil => rfl
  | cons y l =>
    exfalso
    rcases (labels_reachable_dyn hf hr.any).1 x y (by rw [e]; exact List.mem_cons_self ..) with h | h
    · exact h1 h.1
    · exact h2 h.1

/-- **maintainer_value**: the value of a maintainer — old or created — is its starting value plus its
history, whose entries are all costs of started work orders. -/
theorem maintainer_value_reachable_dyn {w0 w : World} (hf : Fresh w0) (hr : ReachableAny w0 w)
    (m : Nat) :
    (w.maint m).val.value = (w.maint m).val.init + C16.deltaSum (w.maint m).val.hist ∧
    ∀ e ∈ (w.maint m).val.hist, e.label = lblWorkOrder :=
  ⟨((vinv_reachable_dyn hf hr).2 m).value_eq, (labels_reachable_dyn hf hr).2 m⟩

/-! ### the starting value: assets of the fresh world -/

theorem source_value_initial_dyn {w0 w : World} (hf : Fresh w0) (hn : ScriptsNew w0)
    (hr : Reachable w0 w) (x : Nat) (hx : x < w0.devs.length) (hk : (w0.dev x).kind = .source) :
    (w.dev x).val.value = (w0.dev x).val.init - (w.dev x).costProduced := by
  have hkept := (devices_kept_dyn hf hr.any).2.2.1 x hx
  rw [← hkept.2]
  exact (source_value_reachable_dyn hf hn hr x (hkept.1.trans hk)).1

theorem sink_value_initial_dyn {w0 w : World} (hf : Fresh w0) (hn : ScriptsNew w0)
    (hr : Reachable w0 w) (x : Nat) (hx : x < w0.devs.length) (hk : (w0.dev x).kind = .sink) :
    (w.dev x).val.value = (w0.dev x).val.init + (w.dev x).recvValue := by
  have hkept := (devices_kept_dyn hf hr.any).2.2.1 x hx
  rw [← hkept.2]
  exact (sink_value_reachable_dyn hf hn hr x (hkept.1.trans hk)).1

/-- A sink of the fresh world: its value is the fresh world's starting value plus the sum of the
values in its `received_part` records — no wiring hypothesis. -/
theorem sink_value_records_initial_dyn {w0 w : World} (hf : Fresh w0) (hn : ScriptsNew w0)
    (hr : Reachable w0 w) (x : Nat) (hx : x < w0.devs.length) (hk : (w0.dev x).kind = .sink) :
    (w.dev x).val.value = (w0.dev x).val.init + receivedValue w x := by
  have hkept := (devices_kept_dyn hf hr.any).2.2.1 x hx
  rw [← received_value_initial_dyn hf hn hr x hx (hkept.1.trans hk)]
  exact sink_value_initial_dyn hf hn hr x hx hk

theorem maintainer_value_initial_dyn {w0 w : World} (hf : Fresh w0) (hr : ReachableAny w0 w)
    (m : Nat) (hm : m < w0.maints.length) :
    (w.maint m).val.value = (w0.maint m).val.init + C16.deltaSum (w.maint m).val.hist := by
  rw [← (devices_kept_dyn hf hr).2.2.2 m hm]
  exact (maintainer_value_reachable_dyn hf hr m).1

/-! ### the starting value: created assets

`w1` is any reachable state, the constructor call is issued in `w1` from outside
(`applyOps [.create …]`: the call and the note of its result), `w` is any state later than the call.
(For calls issued by scripts the same follows with `C15D.created_device_dyn` and
`C15D.later_kept_dyn`, which are about single calls and arbitrary later states.) -/

theorem later_any {A : World → List Op → Prop} {w w' : World} (h : Later A w w') : Later AAny w w' := by
  induction h with
  | refl => exact .refl
  | step _ hs ih => exact .step ih hs
  | run n _ ih => exact .run n ih
  | runBegin d _ ih => exact .runBegin d ih
  | ops l _ _ ih => exact .ops l ih trivial

/-- The device with index `w1.devs.length` of any later state has the payload's kind and starting
value. -/
theorem created_device_kept_dyn {w0 w1 w : World} (hf : Fresh w0) (hr1 : ReachableAny w0 w1) (d : Dev)
    (hl : Later AAny (w1.applyOps [.create (.dev d)]) w) :
    (w.dev w1.devs.length).kind = d.kind ∧ (w.dev w1.devs.length).val.init = d.val.init := by
  have hst := started_reachable hf hr1
  obtain ⟨hlen, hnew, _⟩ := created_device_dyn w1 d hst
  have hst' : (w1.applyOps [.create (.dev d)]).started = true := (started_applyOps _ w1).trans hst
  have hlen' : (w1.applyOps [.create (.dev d)]).devs.length = w1.devs.length + 1 := hlen
  have hnew' : dkey ((w1.applyOps [.create (.dev d)]).dev w1.devs.length) = { dkey d with val := d.val.reset } :=
    hnew
  have hk := (later_kept_dyn hst' hl).2.2.1 w1.devs.length (by omega)
  have e1 := congrArg DKey.kind hnew'
  have e2 := congrArg (fun k => k.val.init) hnew'
  simp only [dkey] at e1 e2
  exact ⟨hk.1.trans e1, hk.2.trans e2⟩

/-- **A source created while the simulation runs**: in every later state its value is the value in
its constructor payload minus the cost of the parts it supplied. -/
theorem created_source_value_dyn {w0 w1 w : World} (hf : Fresh w0) (hn : ScriptsNew w0)
    (hr1 : Reachable w0 w1) (d : Dev) (hd : devNew d = true) (hk : d.kind = .source)
    (hl : Later ANew (w1.applyOps [.create (.dev d)]) w) :
    (w.dev w1.devs.length).val.value = d.val.init - (w.dev w1.devs.length).costProduced := by
  have hr : Reachable w0 w := by
    refine Reach.later ?_ hl
    exact Reach.ops _ hr1 (by intro op hop; simp only [List.mem_singleton] at hop; subst hop; exact hd)
  have hkept := created_device_kept_dyn hf hr1.any d (later_any hl)
  rw [← hkept.2]
  exact (source_value_reachable_dyn hf hn hr _ (hkept.1.trans hk)).1

/-- **A sink created while the simulation runs**: in every later state its value is the value in
its constructor payload plus the value it collected. -/
theorem created_sink_value_dyn {w0 w1 w : World} (hf : Fresh w0) (hn : ScriptsNew w0)
    (hr1 : Reachable w0 w1) (d : Dev) (hd : devNew d = true) (hk : d.kind = .sink)
    (hl : Later ANew (w1.applyOps [.create (.dev d)]) w) :
    (w.dev w1.devs.length).val.value = d.val.init + (w.dev w1.devs.length).recvValue := by
  have hr : Reachable w0 w := by
    refine Reach.later ?_ hl
    exact Reach.ops _ hr1 (by intro op hop; simp only [List.mem_singleton] at hop; subst hop; exact hd)
  have hkept := created_device_kept_dyn hf hr1.any d (later_any hl)
  rw [← hkept.2]
  exact (sink_value_reachable_dyn hf hn hr _ (hkept.1.trans hk)).1

/-- **A maintainer created while the simulation runs** with value `v`: in every later state its
value is `v` plus its history (the costs of the work orders it started). -/
theorem created_maintainer_value_dyn {w0 w1 w : World} (hf : Fresh w0)
    (hr1 : ReachableAny w0 w1) (cap : Option Int) (v : Int)
    (hl : Later AAny (w1.applyOps [.create (.maint cap v)]) w) :
    (w.maint w1.maints.length).val.value = v + C16.deltaSum (w.maint w1.maints.length).val.hist := by
  have hr : ReachableAny w0 w := by
    refine Reach.later ?_ hl
    exact Reach.ops _ hr1 trivial
  obtain ⟨hlen, hnew, _⟩ := created_maint_dyn w1 cap v
  have hst' : (w1.applyOps [.create (.maint cap v)]).started = true :=
    (started_applyOps _ w1).trans (started_reachable hf hr1)
  have hlen' : (w1.applyOps [.create (.maint cap v)]).maints.length = w1.maints.length + 1 := hlen
  have hnew' : ((w1.applyOps [.create (.maint cap v)]).maint w1.maints.length).val = { init := v, value := v } :=
    hnew
  have hk := (later_kept_dyn hst' hl).2.2.2 w1.maints.length (by omega)
  have e : (w.maint w1.maints.length).val.init = v := by rw [hk, hnew']
  rw [← e]
  exact (maintainer_value_reachable_dyn hf hr _).1

/-! ### the amounts, one step; frames (every world, arbitrary payloads)

`C16W.source_supply_step` and `C16W.sink_receive_step` need no hypothesis and apply as they are. -/

/-- `_start_work_order`: the maintainer is charged the order's cost as the target reports it at that
moment — once — whatever the target's hook does afterwards (it may construct assets). -/
theorem maintainer_start_step_dyn (w : World) (m seq : Nat) (o : Order)
    (h : (w.maint m).findActive seq = some o) (hm : m < w.maints.length) :
    ((w.startWork m seq).maint m).val =
      ((w.maint m).startCost w.now (w.targetParams o.target o.tag).2.2).val ∧
    ((w.startWork m seq).maint m).val.value =
      (w.maint m).val.value - (w.targetParams o.target o.tag).2.2 := by
  have := startWork_val_dyn w m seq o h hm
  refine ⟨this, ?_⟩
  rw [this]
  exact (C12.cost_once (w.maint m) w.now _).1

/-- Only `pass_part` events change any of `produced`, `costProduced`, `recvCount`, `recvValue`,
`level`, `val` of an existing device (an event may create devices: those get new indices). -/
theorem only_pass_part_changes_devices_dyn (w : World) (a : Action) (ha : ∀ d, a ≠ .passPart d)
    (x : Nat) (hx : x < w.devs.length) : dkey ((w.exec a).dev x) = dkey (w.dev x) :=
  exec_dev_frame_dyn w a ha x hx

/-- Only `start_work` events change the value of an existing maintainer. -/
theorem only_start_work_changes_maintainers_dyn (w : World) (a : Action)
    (ha : ∀ m o, a ≠ .startWork m o) (m : Nat) (hm : m < w.maints.length) :
    ((w.exec a).maint m).val = (w.maint m).val :=
  exec_maint_frame_dyn w a ha m hm

/-! ### the clauses `costProduced = 0`, `recvValue = 0` of `devNew` are needed -/

/-- A "source" constructed with `costProduced := 2`: its value is its starting value, not that
minus 2. -/
theorem source_value_stale_false :
    Fresh (mkStale { kind := .source, maxParts := some 0, costProduced := 2 }) ∧
    ¬ ScriptsNew (mkStale { kind := .source, maxParts := some 0, costProduced := 2 }) ∧
    ((runStale { kind := .source, maxParts := some 0, costProduced := 2 }).dev 0).kind = .source ∧
    ((runStale { kind := .source, maxParts := some 0, costProduced := 2 }).dev 0).val.value = 0 ∧
    ((runStale { kind := .source, maxParts := some 0, costProduced := 2 }).dev 0).val.init = 0 ∧
    ((runStale { kind := .source, maxParts := some 0, costProduced := 2 }).dev 0).costProduced = 2 :=
  ⟨by decide, by decide, by decide +kernel, by decide +kernel, by decide +kernel, by decide +kernel⟩

/-- A "sink" constructed with `recvValue := 2`. -/
theorem sink_value_stale_false :
    Fresh (mkStale { kind := .sink, recvValue := 2 }) ∧
    ¬ ScriptsNew (mkStale { kind := .sink, recvValue := 2 }) ∧
    ((runStale { kind := .sink, recvValue := 2 }).dev 0).kind = .sink ∧
    ((runStale { kind := .sink, recvValue := 2 }).dev 0).val.value = 0 ∧
    ((runStale { kind := .sink, recvValue := 2 }).dev 0).val.init = 0 ∧
    ((runStale { kind := .sink, recvValue := 2 }).dev 0).recvValue = 2 :=
  ⟨by decide, by decide, by decide +kernel, by decide +kernel, by decide +kernel, by decide +kernel⟩

/-! ### non-vacuity (the example of `Props/C15D.lean`: script 0 creates source 2 → buffer 3 → sink 4
and maintainer 0 at time 4) -/

/-- The created source supplied three parts of value 5 (value 0 − 15), the created sink collected
them (value 0 + 15), the created maintainer (value 50) paid 7 for the work order it started at
time 4; the created buffer keeps its value. -/
example : (exDR.dev 2).kind = .source ∧ (exDR.dev 2).costProduced = 15 ∧ (exDR.dev 2).val.value = -15 ∧
    (exDR.dev 2).val.hist.length = 3 := by decide +kernel
example : (exDR.dev 4).kind = .sink ∧ (exDR.dev 4).recvValue = 15 ∧ (exDR.dev 4).val.value = 15 ∧
    (exDR.dev 4).val.hist.map (·.total) = [5, 10, 15] := by decide +kernel
example : (exDR.maint 0).val = { init := 50, value := 43, hist := [⟨lblWorkOrder, 4, -7, 43⟩] } := by
  decide +kernel
example : (exDR.dev 3).kind = .buffer ∧ (exDR.dev 3).val = {} := by decide +kernel
/-- The old line: source 0 supplied two parts of value 1 to sink 1. -/
example : (exDR.dev 0).val.value = -2 ∧ (exDR.dev 1).val.value = 2 := by decide +kernel

/-- The theorems applied to it. -/
example : (exDR.dev 2).val.value = (exDR.dev 2).val.init - (exDR.dev 2).costProduced :=
  (source_value_reachable_dyn (by decide) (by decide) (reachable_simulate 300 20 exD) 2
    (by decide +kernel)).1
example : (exDR.dev 4).val.value = (exDR.dev 4).val.init + receivedValue exDR 4 :=
  sink_value_records_dyn (need := fun _ => 0) (by decide) (by decide) (by decide)
    (reachable_simulate 300 20 exD) 4 (by decide +kernel)
example : ∀ m, C16.VInv (exDR.maint m).val :=
  (vinv_reachable_dyn (by decide) (reachable_simulate 300 20 exD)).2

/-- A source with starting value 100 constructed from outside after the run, then simulated for
another 10 time units: `created_source_value_dyn` gives its value in terms of the payload. -/
def lateSrc : Dev := { kind := .source, cycle := 1, maxParts := some 2, genValue := 3, up := [],
                       val := { init := 100, value := 100 } }
def exDR3 : World := runLoop 100 ((exDR.applyOps [.create (.dev lateSrc)]).runBegin 10).1

example : (exDR3.dev 5).val.value = 100 - (exDR3.dev 5).costProduced :=
  created_source_value_dyn (w0 := exD) (w1 := exDR) (by decide) (by decide)
    (reachable_simulate 300 20 exD) lateSrc (by decide) rfl (.run 100 (.runBegin 10 .refl))
example : exDR.devs.length = 5 ∧ (exDR3.dev 5).kind = .source ∧ exDR3.now = 30 := by decide +kernel

/-- The one-step lemma on a concrete world: the maintainer of `C15.wM` starts order 0 of cost 3. -/
example : ((C15.wM.applyOp (.workOrder 0 0 1 42)).1.maint 0).findActive 0 ≠ none ∧
    (((C15.wM.applyOp (.workOrder 0 0 1 42)).1.startWork 0 0).maint 0).val.value = -3 := by decide

end C16D
end SimProc
