/-
C03 — the notification mechanism of the factory floor.

"Whenever simulated time is about to advance, no device is holding a part that is ready to leave
while one of its downstream neighbours would accept that part; every blocked part is genuinely
blocked.  Every change that can unblock a part leads to a new hand-over attempt at that same
instant."

This file proves the part of the property that is about the notification mechanism itself
(`SimProc/Model/Floor.lean`: `schedulePass`, `notifyUp`, `spaceAvail`, `passHandler`, and the
unblocking sites); the invariant over all reachable states is not attempted here.

* (a) `schedulePass_attempt`: `schedulePass u 0` clears the flag and queues a live PASS_PART event at
  the present instant; the request is never rejected; nothing is removed from the queue.
* (b) `notifyUp_mono`, `spaceAvail_mono` (+ spelled-out corollaries): notifications never remove or
  cancel a queued event, never move the clock, never set a `waitingDS` flag.
* (c) `notify_wakes_direct`: every flagged operational upstream neighbour is woken.
* (d) `notify_wakes_through_gates` / `notify_wakes_reach`: the same through chains of gates / through
  the complete dispatch (groups included), with explicit fuel.
* (e) `blocked_implies_flagged`, `buffer_blocked_implies_flagged`.
* (f) the unblocking sites: `setBlock_unblock` (+ `setBlock_wakes`), `restoreDev_unblock_output`,
  `restoreDev_attempt`, `restoreDev_idle`, `procResourceCb_unblock`, `sink_finishCycle_unblock`,
  `adjustParts_unblock` (+ `adjustParts_attempt`), `rewire_unblock`, `rewireStep_unblock`,
  `rewire_wakes`, `passHandler_success_notifies`, `buffer_passPart_notifies`,
  `buffer_tryMove_notifies`.
* (g) `attempt_before_clock_advances`, `step_runs_attempt`: a queued attempt at `now` is popped (and
  run as `passPart u`) before the clock moves.
* `fuel_sufficient`: the fuel of the model's `notify` (`2 * devs.length + 3`) suffices for long chains of gates.

Definitions used in the statements (all in `SimProc/Proofs/C03Lemmas.lean`):
`IsAttempt u t a e` — `e` is a live PASS_PART event of device `u` at time `t` for asset `a`;
`passTime w = max 0 w.now`; `Attempt w u` — such an event for the present instant is queued in `w`;
`Pending w u` — `u` is flagged or an attempt is queued; `Woken w u` — flag cleared and attempt queued;
`Mono w w'`, `Step w w'` — the monotonicity relations; `forwardsUp`, `Reach`, `ReachesUp` — whom the
dispatch reaches.
-/
import SimProc.Proofs.C03Lemmas
import SimProc.Props.C01

namespace SimProc
namespace C03
open World FloorCoreL

/-! ### the vocabulary, spelled out -/

/-- `IsAttempt` spelled out. -/
theorem isAttempt_iff (u : Nat) (t a : Int) (e : Event) :
    IsAttempt u t a e ↔
      (e.act = (Action.passPart u).toNat ∧ e.time = t ∧ e.prio = pPassPart ∧ e.asset = a ∧
        e.cancelled = false) := Iff.rfl

/-- `Woken` spelled out. -/
theorem woken_iff (w : World) (u : Nat) :
    Woken w u ↔ ((w.dev u).waitingDS = false ∧
      ∃ e ∈ w.env.events, IsAttempt u (passTime w) (w.dev u).aid e) := Iff.rfl

/-- `Pending` spelled out. -/
theorem pending_iff (w : World) (u : Nat) :
    Pending w u ↔ ((w.dev u).waitingDS = true ∨
      ∃ e ∈ w.env.events, IsAttempt u (passTime w) (w.dev u).aid e) := Iff.rfl

/-- In every state with a non-negative clock the attempt time is the present instant. -/
theorem passTime_eq_now {w : World} (h : 0 ≤ w.now) : passTime w = w.now :=
  passTime_of_nonneg h

/-- `forwardsUp` spelled out: every kind of device hands `notify_upstream_of_available_space` to
its `up` list, except a buffer without room and a group input. -/
theorem forwardsUp_iff (w : World) (x : Nat) :
    forwardsUp w x = true ↔
      ((w.dev x).kind ≠ .ginput ∧ ((w.dev x).kind = .buffer → hasRoom (w.dev x) = true)) := by
  unfold forwardsUp
  cases hk : (w.dev x).kind <;> simp

/-- The conclusion of the wake-up theorems, relative to the state `w` before the call. -/
def WokenFrom (w w' : World) (u : Nat) : Prop :=
  (w'.dev u).waitingDS = false ∧
    ∃ e ∈ w'.env.events, e.act = (Action.passPart u).toNat ∧ e.time = w.now ∧
      e.prio = pPassPart ∧ e.asset = (w.dev u).aid ∧ e.cancelled = false

/-- From the internal form to the spelled-out form. -/
theorem Woken.from {w w' : World} {u : Nat} (h : Woken w' u) (hnow : w'.now = w.now)
    (haid : (w'.dev u).aid = (w.dev u).aid) (h0 : 0 ≤ w.now) : WokenFrom w w' u := by
  obtain ⟨hf, e, he, hat⟩ := h
  rw [passTime_congr hnow, passTime_of_nonneg h0, haid] at hat
  exact ⟨hf, e, he, hat⟩

/-- The same when `w'` is reached from `w` by notification steps. -/
theorem Woken.from_step {w w' : World} {u : Nat} (h : Woken w' u) (hs : Step w w')
    (h0 : 0 ≤ w.now) : WokenFrom w w' u :=
  h.from hs.mono.now (core_eq_dev_aid hs.core u) h0

/-! ### (a) the hand-over attempt -/

/-- **(a)** `schedulePass u 0` on a non-sink device with a valid index, in a state whose clock is
non-negative: the `waitingDS` flag of `u` is cleared; the queue contains a live PASS_PART event of
`u` at the present instant with priority `pPassPart` and `u`'s asset id; the request is never
rejected (the error flag is untouched — no "sched-past"); the clock does not move; the new queue
is the old queue with exactly that one event inserted, so no queued event is removed. -/
theorem schedulePass_attempt (w : World) (u : Nat) (hu : u < w.devs.length)
    (hk : (w.dev u).kind ≠ .sink) (hnow : 0 ≤ w.now) :
    ((w.schedulePass u 0).dev u).waitingDS = false ∧
    (∃ e ∈ (w.schedulePass u 0).env.events,
      e.act = (Action.passPart u).toNat ∧ e.time = w.now ∧ e.prio = pPassPart ∧
      e.asset = (w.dev u).aid ∧ e.cancelled = false ∧
      (w.schedulePass u 0).env.events = insort e w.env.events) ∧
    (w.schedulePass u 0).error = w.error ∧
    (w.schedulePass u 0).now = w.now ∧
    (∀ e ∈ w.env.events, e ∈ (w.schedulePass u 0).env.events) := by
  have hm := mono_schedulePass w u 0
  refine ⟨(schedulePass_woken w u hu hk).1, ⟨passEvent w u, ?_, ?_⟩,
    schedulePass_zero_error w u hk, hm.now, fun e he => hm.mem he⟩
  · rw [schedulePass_zero_events w u hk]; exact mem_insort_self _ _
  · obtain ⟨h1, h2, h3, h4, h5⟩ := passEvent_isAttempt w u
    rw [passTime_of_nonneg hnow] at h2
    exact ⟨h1, h2, h3, h4, h5, schedulePass_zero_events w u hk⟩

/-- **(a), without the assumption on the clock**: the event is scheduled for `max 0 now`, which is
never in the past, so the request is accepted in every state. -/
theorem schedulePass_attempt' (w : World) (u : Nat) (hu : u < w.devs.length)
    (hk : (w.dev u).kind ≠ .sink) :
    Woken (w.schedulePass u 0) u ∧ w.now ≤ passTime w ∧
    (w.schedulePass u 0).error = w.error ∧ Mono w (w.schedulePass u 0) :=
  ⟨schedulePass_woken w u hu hk, now_le_passTime w, schedulePass_zero_error w u hk,
    mono_schedulePass w u 0⟩

/-- **(a), the request itself**: the `sched` call `schedulePass u 0` issues reports `.ok`. -/
theorem schedulePass_never_rejected (w : World) (u : Nat) :
    ((w.setDev u { w.dev u with waitingDS := false }).sched (passTime w) (w.dev u).aid
      (.passPart u) pPassPart).2 = .ok := by
  have h := sched_of_le (w.setDev u { w.dev u with waitingDS := false }) (passTime w)
    (w.dev u).aid (.passPart u) pPassPart (now_le_passTime w)
  rw [h]

/-- `schedulePass` with ANY offset never removes a queued event, never moves the clock and never
sets a flag. -/
theorem schedulePass_mono (w : World) (x : Nat) (o : Int) : Mono w (w.schedulePass x o) :=
  mono_schedulePass w x o

/-! ### (b) monotonicity of the queue under notifications -/

/-- **(b)** `notifyUp` never moves the clock, never touches the paused events, never removes,
cancels or reorders a queued event (`w.env.events` is a sublist of the new queue) and never sets a
`waitingDS` flag. -/
theorem notifyUp_mono (n : Nat) (w : World) (x : Nat) : Mono w (notifyUp n w x) :=
  (step_notifyUp n w x).mono

/-- **(b)** The same for `spaceAvail`. -/
theorem spaceAvail_mono (n : Nat) (w : World) (x : Nat) : Mono w (spaceAvail n w x) :=
  (step_spaceAvail n w x).mono

/-- **(b)** … and for the entry points `notify` / `spaceAvailable`. -/
theorem notify_mono (w : World) (x : Nat) : Mono w (w.notify x) := (step_notify w x).mono

/-- **(b)** … and for `spaceAvailable`. -/
theorem spaceAvailable_mono (w : World) (x : Nat) : Mono w (w.spaceAvailable x) :=
  (step_spaceAvailable w x).mono

/-- **(b), spelled out.** -/
theorem notifyUp_keeps_events (n : Nat) (w : World) (x : Nat) :
    (∀ e ∈ w.env.events, e ∈ (notifyUp n w x).env.events) ∧ (notifyUp n w x).now = w.now ∧
    (∀ y, ((notifyUp n w x).dev y).waitingDS = true → (w.dev y).waitingDS = true) :=
  ⟨fun _ he => (notifyUp_mono n w x).mem he, (notifyUp_mono n w x).now, (notifyUp_mono n w x).flags⟩

/-- **(b), spelled out**, for `spaceAvail`. -/
theorem spaceAvail_keeps_events (n : Nat) (w : World) (x : Nat) :
    (∀ e ∈ w.env.events, e ∈ (spaceAvail n w x).env.events) ∧ (spaceAvail n w x).now = w.now ∧
    (∀ y, ((spaceAvail n w x).dev y).waitingDS = true → (w.dev y).waitingDS = true) :=
  ⟨fun _ he => (spaceAvail_mono n w x).mem he, (spaceAvail_mono n w x).now,
    (spaceAvail_mono n w x).flags⟩

/-- **(b), the flagged-or-attempted invariant**: a device that is flagged, or for which an attempt
at the present instant is already queued, is still flagged or has an attempt queued after any
notification — a notification never "loses" a blocked device. -/
theorem notifyUp_keeps_pending (n : Nat) (w : World) (x u : Nat) (h : Pending w u) :
    Pending (notifyUp n w x) u := (step_notifyUp n w x).pend u h

/-- **(b), the flagged-or-attempted invariant**, for `spaceAvail`. -/
theorem spaceAvail_keeps_pending (n : Nat) (w : World) (x u : Nat) (h : Pending w u) :
    Pending (spaceAvail n w x) u := (step_spaceAvail n w x).pend u h

/-! ### (c), (d) who is woken -/

/-- **General wake-up theorem.** If the dispatch of `notifyUp n · x` reaches `u` (`Reach`, a
relation on the wiring only), `u` has a valid index, is not a sink, is operational and is flagged,
then after `notifyUp n w x` the flag of `u` is cleared and a live PASS_PART event of `u` at the
present instant is in the queue. `notifyUp` folds over ALL upstream devices: the event survives
the rest of the fold by (b), and nothing re-sets the flag. -/
theorem notify_wakes_reach (n : Nat) (w : World) (x u : Nat) (hr : Reach w true n x u)
    (hu : u < w.devs.length) (hns : (w.dev u).kind ≠ .sink) (hop : w.operational u = true)
    (hfl : (w.dev u).waitingDS = true) (hnow : 0 ≤ w.now) :
    WokenFrom w (notifyUp n w x) u :=
  (reach_wakes hu hns hop hr w rfl (Or.inl hfl)).from_step (step_notifyUp n w x) hnow

/-- **(c)** For every device `x` that forwards notifications to its `up` list (any handler-like
device that is not a buffer; a buffer with room; a gate; a group path; a group output — see
`forwardsUp_iff`), every handler-like non-sink `u ∈ (w.dev x).up` with a valid index that is
operational and flagged is woken by `notifyUp (n+2) w x`, whatever else is in the `up` list
(duplicates of `u` included: the first occurrence schedules the event). -/
theorem notify_wakes_direct (n : Nat) (w : World) (x u : Nat) (hx : forwardsUp w x = true)
    (hmem : u ∈ (w.dev x).up) (hu : u < w.devs.length)
    (hhl : isHandlerLike (w.dev u).kind = true) (hns : (w.dev u).kind ≠ .sink)
    (hop : w.operational u = true) (hfl : (w.dev u).waitingDS = true) (hnow : 0 ≤ w.now) :
    WokenFrom w (notifyUp (n + 2) w x) u :=
  notify_wakes_reach (n + 2) w x u
    ((Reach.up hx hmem (Reach.self (n := 0) hhl)).le (by omega)) hu hns hop hfl hnow

/-- **(c) for the entry point** `notify` (fuel `2 * devs.length + 3 ≥ 2`). -/
theorem notify_wakes_direct' (w : World) (x u : Nat) (hx : forwardsUp w x = true)
    (hmem : u ∈ (w.dev x).up) (hu : u < w.devs.length)
    (hhl : isHandlerLike (w.dev u).kind = true) (hns : (w.dev u).kind ≠ .sink)
    (hop : w.operational u = true) (hfl : (w.dev u).waitingDS = true) (hnow : 0 ≤ w.now) :
    WokenFrom w (w.notify x) u :=
  notify_wakes_direct (2 * w.devs.length + 1) w x u hx hmem hu hhl hns hop hfl hnow

/-- **(d), one gate**: `u` is an upstream neighbour of a gate `g` which is an upstream neighbour of
`x`. -/
theorem notify_wakes_through_gate (n : Nat) (w : World) (x g u : Nat) (hx : forwardsUp w x = true)
    (hg : g ∈ (w.dev x).up) (hkg : (w.dev g).kind = .gate) (hmem : u ∈ (w.dev g).up)
    (hu : u < w.devs.length) (hhl : isHandlerLike (w.dev u).kind = true)
    (hns : (w.dev u).kind ≠ .sink) (hop : w.operational u = true)
    (hfl : (w.dev u).waitingDS = true) (hnow : 0 ≤ w.now) :
    WokenFrom w (notifyUp (n + 4) w x) u :=
  notify_wakes_reach (n + 4) w x u
    (((ReachesUp.gate hg hkg (ReachesUp.direct hmem hhl)).reach hx).le (by omega))
    hu hns hop hfl hnow

/-- **(d), any chain of gates**: if `u` is upstream of `x` behind `k` gates and the fuel is at
least `2k + 2` (every gate costs two units: `spaceAvail` then `notifyUp`), `u` is woken. -/
theorem notify_wakes_through_gates (n k : Nat) (w : World) (x u : Nat)
    (hchain : ReachesUp w k x u) (hfuel : 2 * k + 2 ≤ n) (hx : forwardsUp w x = true)
    (hu : u < w.devs.length) (hns : (w.dev u).kind ≠ .sink) (hop : w.operational u = true)
    (hfl : (w.dev u).waitingDS = true) (hnow : 0 ≤ w.now) :
    WokenFrom w (notifyUp n w x) u :=
  notify_wakes_reach n w x u ((hchain.reach hx).le hfuel) hu hns hop hfl hnow

/-- **(d) for the entry point** `notify`, whose fuel is `2 * devs.length + 3`: every chain of at most
`devs.length` gates — i.e. every chain of distinct gates, whatever its length (see `fuel_sufficient`
below; an earlier version of the model used `devs.length + 3`, which was too small for chains of
four or more gates — found by this proof and repaired in `World.fuel`). -/
theorem notify_wakes_through_gates' (k : Nat) (w : World) (x u : Nat)
    (hchain : ReachesUp w k x u) (hfuel : k ≤ w.devs.length)
    (hx : forwardsUp w x = true) (hu : u < w.devs.length) (hns : (w.dev u).kind ≠ .sink)
    (hop : w.operational u = true) (hfl : (w.dev u).waitingDS = true) (hnow : 0 ≤ w.now) :
    WokenFrom w (w.notify x) u :=
  notify_wakes_through_gates _ k w x u hchain (by unfold World.fuel; omega) hx hu hns hop hfl hnow

/-- **(c)/(d), group input**: an input device `x` of a group has the group's input node as its
upstream neighbour; the notification is handed to every path of the group and from there to the
paths' upstream neighbours. -/
theorem notify_wakes_group_input (n : Nat) (w : World) (x gi gp u : Nat)
    (hx : forwardsUp w x = true) (hgi : gi ∈ (w.dev x).up) (hkgi : (w.dev gi).kind = .ginput)
    (hgp : gp ∈ (w.groups.getD (w.dev gi).group default).paths)
    (hkgp : (w.dev gp).kind = .gpath) (hmem : u ∈ (w.dev gp).up)
    (hu : u < w.devs.length) (hhl : isHandlerLike (w.dev u).kind = true)
    (hns : (w.dev u).kind ≠ .sink) (hop : w.operational u = true)
    (hfl : (w.dev u).waitingDS = true) (hnow : 0 ≤ w.now) :
    WokenFrom w (notifyUp (n + 5) w x) u := by
  have hf : forwardsUp w gp = true := by unfold forwardsUp; rw [hkgp]
  have h1 : Reach w true 2 gp u := .up hf hmem (.self (n := 0) hhl)
  have h2 : Reach w true 3 gi u := .paths hkgi hgp h1
  have h3 : Reach w false 4 gi u := .fwd (Or.inr (Or.inl hkgi)) h2
  exact notify_wakes_reach (n + 5) w x u ((Reach.up hx hgi h3).le (by omega)) hu hns hop hfl hnow

/-- **(c)/(d), group output**: a device `x` downstream of a group path `p` notifies the group's
output node, which notifies the group's output devices. -/
theorem notify_wakes_group_output (n : Nat) (w : World) (x p u : Nat)
    (hx : forwardsUp w x = true) (hp : p ∈ (w.dev x).up) (hkp : (w.dev p).kind = .gpath)
    (hko : (w.dev (w.groups.getD (w.dev p).group default).output).kind = .goutput)
    (hmem : u ∈ (w.dev (w.groups.getD (w.dev p).group default).output).up)
    (hu : u < w.devs.length) (hhl : isHandlerLike (w.dev u).kind = true)
    (hns : (w.dev u).kind ≠ .sink) (hop : w.operational u = true)
    (hfl : (w.dev u).waitingDS = true) (hnow : 0 ≤ w.now) :
    WokenFrom w (notifyUp (n + 5) w x) u := by
  have hf : forwardsUp w (w.groups.getD (w.dev p).group default).output = true := by
    unfold forwardsUp; rw [hko]
  have h1 : Reach w true 2 (w.groups.getD (w.dev p).group default).output u :=
    .up hf hmem (.self (n := 0) hhl)
  have h2 : Reach w false 3 (w.groups.getD (w.dev p).group default).output u :=
    .fwd (Or.inr (Or.inr hko)) h1
  have h3 : Reach w false 4 p u := .gpath hkp h2
  exact notify_wakes_reach (n + 5) w x u ((Reach.up hx hp h3).le (by omega)) hu hns hop hfl hnow

/-- **(d), gates forward `spaceAvail`**: the same for a direct `spaceAvailable`-style call at a
gate (as issued by `rewire`). -/
theorem spaceAvail_wakes_reach (n : Nat) (w : World) (y u : Nat) (hr : Reach w false n y u)
    (hu : u < w.devs.length) (hns : (w.dev u).kind ≠ .sink) (hop : w.operational u = true)
    (hfl : (w.dev u).waitingDS = true) (hnow : 0 ≤ w.now) :
    WokenFrom w (spaceAvail n w y) u :=
  (reach_wakes hu hns hop hr w rfl (Or.inl hfl)).from_step (step_spaceAvail n w y) hnow

/-- `spaceAvail` on a flagged operational handler-like device IS the hand-over attempt. -/
theorem spaceAvail_self (n : Nat) (w : World) (u : Nat)
    (hhl : isHandlerLike (w.dev u).kind = true) (hop : w.operational u = true)
    (hfl : (w.dev u).waitingDS = true) : spaceAvail (n + 1) w u = w.schedulePass u 0 := by
  rw [spaceAvail_handlerLike n w u hhl, hop, hfl]; rfl

/-! ### (e) a blocked ready part is always flagged -/

/-- **(e)** `passHandler` on an operational device (valid index) that holds an output either hands
the part over (the output slot is empty afterwards) or ends with the device flagged
`waitingDS = true`. -/
theorem blocked_implies_flagged (w : World) (x p : Nat) (hx : x < w.devs.length)
    (hop : w.operational x = true) (hout : (w.dev x).output = some p) :
    ((w.passHandler x).dev x).output = none ∨ ((w.passHandler x).dev x).waitingDS = true := by
  have hlen : ∀ w1 b, tryList givePart w (w.sortedDown x) p = (w1, b) → x < w1.devs.length := by
    intro w1 b heq
    rw [len_of_eq heq (tryList_givePart_len _ _ _)]; exact hx
  unfold passHandler
  dsimp only
  rw [if_neg (by simp [hop])]
  simp only [hout]
  split
  · next w1 heq =>
    left
    rw [core_eq_dev_output (notify_core _ _) x, dev_modDev_same (hlen _ _ heq)]
  · next w1 heq =>
    right
    rw [dev_modDev_same (hlen _ _ heq)]

/-- **(e), which case**: the outcome is decided by the hand-over: accepted by some downstream
neighbour → output empty; refused by all → flagged. -/
theorem passHandler_cases (w : World) (x p : Nat) (hx : x < w.devs.length)
    (hop : w.operational x = true) (hout : (w.dev x).output = some p) :
    ((tryList givePart w (w.sortedDown x) p).2 = true →
      ((w.passHandler x).dev x).output = none) ∧
    ((tryList givePart w (w.sortedDown x) p).2 = false →
      ((w.passHandler x).dev x).waitingDS = true) := by
  have hlen : ∀ w1 b, tryList givePart w (w.sortedDown x) p = (w1, b) → x < w1.devs.length := by
    intro w1 b heq
    rw [len_of_eq heq (tryList_givePart_len _ _ _)]; exact hx
  unfold passHandler
  dsimp only
  rw [if_neg (by simp [hop])]
  simp only [hout]
  split
  · next w1 heq =>
    refine ⟨fun _ => ?_, fun h => by simp [heq] at h⟩
    rw [core_eq_dev_output (notify_core _ _) x, dev_modDev_same (hlen _ _ heq)]
  · next w1 heq =>
    refine ⟨fun h => (by simp [heq] at h), fun _ => ?_⟩
    rw [dev_modDev_same (hlen _ _ heq)]

/-- For plain handlers and processors (and gates etc., which never hold parts) `passPart` is
`passHandler`. -/
theorem passPart_eq_passHandler (w : World) (x : Nat)
    (hk : (w.dev x).kind = .handler ∨ (w.dev x).kind = .processor) :
    w.passPart x = w.passHandler x := by
  unfold passPart
  rcases hk with hk | hk <;> simp only [hk]

/-- **(e), buffers**: after `passPart` on a buffer (valid index), if the buffer is not empty and
its head has expired (`delay − (now − t) ≤ 0`: the head part is ready to leave and was refused),
the buffer is flagged `waitingDS = true` — or, if the final `notify` has reached the buffer itself
through a loop in the wiring, the flag has already been turned into a queued hand-over attempt at
the present instant. -/
theorem buffer_blocked_implies_flagged (w : World) (x : Nat) (hx : x < w.devs.length)
    (hk : (w.dev x).kind = .buffer) (t : Int) (q : Nat) (rest : List (Int × Nat))
    (hbuf : ((w.passPart x).dev x).buf = (t, q) :: rest)
    (hexp : ((w.passPart x).dev x).delay - ((w.passPart x).now - t) ≤ 0) :
    Pending (w.passPart x) x := by
  unfold passPart at hbuf hexp ⊢
  simp only [hk] at hbuf hexp ⊢
  generalize hw1 : bufferLoop ((w.dev x).buf.length + 1) w x = w1 at hbuf hexp ⊢
  have hx1 : x < w1.devs.length := by rw [← hw1, bufferLoop_len]; exact hx
  cases hb : (w1.dev x).buf with
  | nil =>
    simp only [hb] at hbuf hexp ⊢
    rw [core_eq_dev_buf (notify_core _ _) x, hb] at hbuf
    cases hbuf
  | cons hd tl =>
    obtain ⟨t0, q0⟩ := hd
    simp only [hb] at hbuf hexp ⊢
    split at hbuf
    · next hrem =>
      exfalso
      rw [if_pos hrem] at hexp
      rw [core_eq_dev_buf (notify_core _ _) x, core_eq_dev_buf (schedulePass_core _ _ _) x, hb]
        at hbuf
      rw [core_eq_dev_delay (notify_core _ _) x, core_eq_dev_delay (schedulePass_core _ _ _) x,
        (notify_mono _ x).now, (mono_schedulePass w1 x _).now] at hexp
      injection hbuf with h1 _
      injection h1 with h1 _
      rw [h1] at hrem
      omega
    · next hrem =>
      rw [if_neg hrem]
      refine (step_notify _ x).pend x (Or.inl ?_)
      rw [dev_setDev_same hx1]

/-! ### (f) the unblocking sites -/

/-- **(f1)** Unblocking the input of a blocked device performs the notification in the same
call. -/
theorem setBlock_unblock (w : World) (x : Nat) (hb : (w.dev x).blockInput = true) :
    w.setBlock x false = (w.modDev x (fun d => { d with blockInput := false })).notify x := by
  simp [setBlock, hb]

/-- **(f1), composed with (c)**: unblocking the input of `x` wakes every flagged operational
handler-like upstream neighbour. -/
theorem setBlock_wakes (w : World) (x u : Nat) (hb : (w.dev x).blockInput = true)
    (hx : forwardsUp w x = true) (hmem : u ∈ (w.dev x).up) (hu : u < w.devs.length)
    (hhl : isHandlerLike (w.dev u).kind = true) (hns : (w.dev u).kind ≠ .sink)
    (hop : w.operational u = true) (hfl : (w.dev u).waitingDS = true) (hnow : 0 ≤ w.now) :
    WokenFrom w (w.setBlock x false) u := by
  rw [setBlock_unblock w x hb]
  generalize hw2 : w.modDev x (fun d => { d with blockInput := false }) = w2
  have hfld : ∀ {α} (g : Dev → α), (∀ d b, g { d with blockInput := b } = g d) →
      ∀ y, g (w2.dev y) = g (w.dev y) := by
    intro α g hg y
    rw [← hw2]; exact modDev_dev_field g w x _ (hg _ _) y
  have hx2 : forwardsUp w2 x = true := by
    unfold forwardsUp hasRoom at hx ⊢
    rw [hfld Dev.kind (fun _ _ => rfl), hfld Dev.cap (fun _ _ => rfl),
      hfld Dev.level (fun _ _ => rfl)]
    exact hx
  have hop2 : w2.operational u = true := by
    unfold operational at hop ⊢
    rw [hfld Dev.kind (fun _ _ => rfl), hfld Dev.shutDown (fun _ _ => rfl)]
    exact hop
  have hlen : w2.devs.length = w.devs.length := by rw [← hw2]; simp
  have := notify_wakes_direct' w2 x u hx2
    (by rw [hfld Dev.up (fun _ _ => rfl)]; exact hmem) (by rw [hlen]; exact hu)
    (by rw [hfld Dev.kind (fun _ _ => rfl)]; exact hhl)
    (by rw [hfld Dev.kind (fun _ _ => rfl)]; exact hns) hop2
    (by rw [hfld Dev.waitingDS (fun _ _ => rfl)]; exact hfl)
    (by rw [← hw2]; exact hnow)
  unfold WokenFrom at this ⊢
  rw [hfld Dev.aid (fun _ _ => rfl)] at this
  rw [show w2.now = w.now by rw [← hw2]; rfl] at this
  exact this

/-- The bookkeeping `restoreDev` does after the (possible) hand-over attempt: restart the usage
clock if a part is in process, run the restored-callbacks. -/
def restoreTail (x n : Nat) (w : World) : World :=
  (List.range n).foldl (fun w k => w.addRes (.restored x k))
    (if (w.dev x).part.isSome then w.modDev x (fun d => { d with lastUseStart := some w.now })
     else w)

/-- The bookkeeping removes nothing from the queue and sets no flag. -/
theorem restoreTail_mono (x n : Nat) (w : World) : Mono w (restoreTail x n w) := by
  unfold restoreTail
  refine Mono.trans ?_ (Mono.foldl _ (fun w k => mono_addRes w _) _ _)
  split
  · exact mono_modDev w x _ (fun h => h)
  · exact Mono.refl w

/-- The bookkeeping does not change asset ids. -/
theorem restoreTail_aid (x n : Nat) (w : World) (y : Nat) :
    ((restoreTail x n w).dev y).aid = (w.dev y).aid := by
  unfold restoreTail
  refine (foldl_preserve (fun w : World => (w.dev y).aid)
    (fun (w : World) (k : Nat) => w.addRes (.restored x k)) _ _ (fun w k => rfl)).trans ?_
  split
  · exact modDev_dev_field Dev.aid w x _ rfl y
  · rfl

/-- The state in which `restoreDev` decides what to do: the machine is marked as running again and
its paused events are back in the queue. -/
def restoreHead (w : World) (x : Nat) : World :=
  (w.setDev x { w.dev x with shutDown := false, lastRestore := some w.now }).envOp
    (.unpause (w.dev x).aid)

/-- The restored machine in that state. -/
theorem restoreHead_dev (w : World) (x : Nat) (hx : x < w.devs.length) :
    (restoreHead w x).dev x = { w.dev x with shutDown := false, lastRestore := some w.now } := by
  unfold restoreHead; rw [dev_envOp, dev_setDev_same hx]

/-- Un-pausing the machine's events does not move the clock. -/
theorem restoreHead_now (w : World) (x : Nat) : (restoreHead w x).now = w.now := by
  simp [restoreHead, World.now, envOp, Env.apply, Env.unpause]

/-- **(f2)** Restoring a shut-down machine that holds a finished part: the hand-over attempt is
scheduled in the same call (followed only by bookkeeping). -/
theorem restoreDev_unblock_output (w : World) (x : Nat) (hx : x < w.devs.length)
    (hsd : (w.dev x).shutDown = true) (hout : (w.dev x).output.isSome = true) :
    w.restoreDev x =
      restoreTail x (w.dev x).nRestCbs ((restoreHead w x).schedulePass x 0) := by
  unfold restoreDev restoreTail restoreHead
  dsimp only
  rw [if_neg (by simp [hsd])]
  generalize hH : (w.setDev x _).envOp _ = H
  have hd2 : H.dev x = { w.dev x with shutDown := false, lastRestore := some w.now } := by
    rw [← hH, dev_envOp, dev_setDev_same hx]
  have hout2 : (H.dev x).output.isSome = true := by rw [hd2]; exact hout
  rw [if_pos hout2]

/-- **(f2)** Restoring a shut-down machine (valid index, not a sink) that holds a finished part
schedules the hand-over attempt for it at the present instant: afterwards its flag is cleared and
the live PASS_PART event is queued. -/
theorem restoreDev_attempt (w : World) (x : Nat) (hx : x < w.devs.length)
    (hsd : (w.dev x).shutDown = true) (hns : (w.dev x).kind ≠ .sink)
    (hout : (w.dev x).output.isSome = true) (hnow : 0 ≤ w.now) :
    WokenFrom w (w.restoreDev x) x := by
  rw [restoreDev_unblock_output w x hx hsd hout]
  have hd2 := restoreHead_dev w x hx
  have hlen2 : (restoreHead w x).devs.length = w.devs.length := by simp [restoreHead, envOp]
  have hwk : Woken ((restoreHead w x).schedulePass x 0) x :=
    schedulePass_woken _ x (by rw [hlen2]; exact hx) (by rw [hd2]; exact hns)
  have hm := restoreTail_mono x (w.dev x).nRestCbs ((restoreHead w x).schedulePass x 0)
  have ha := restoreTail_aid x (w.dev x).nRestCbs ((restoreHead w x).schedulePass x 0) x
  have hwk' : Woken (restoreTail x (w.dev x).nRestCbs ((restoreHead w x).schedulePass x 0)) x := by
    refine ⟨?_, hwk.2.mono hm ha⟩
    cases hfl : ((restoreTail x (w.dev x).nRestCbs
        ((restoreHead w x).schedulePass x 0)).dev x).waitingDS with
    | false => rfl
    | true => have := hm.flags x hfl; rw [hwk.1] at this; cases this
  refine hwk'.from ?_ ?_ hnow
  · rw [hm.now, (mono_schedulePass _ x 0).now, restoreHead_now]
  · rw [ha, core_eq_dev_aid (schedulePass_core _ x 0) x, hd2]

/-- **(f2)** Restoring an idle shut-down machine (no part in process, no finished part) notifies
its upstream neighbours in the same call (followed only by the restored-callbacks). -/
theorem restoreDev_idle (w : World) (x : Nat) (hx : x < w.devs.length)
    (hsd : (w.dev x).shutDown = true) (hout : (w.dev x).output = none)
    (hpart : (w.dev x).part = none) :
    w.restoreDev x =
      (List.range (w.dev x).nRestCbs).foldl (fun w k => w.addRes (.restored x k))
        ((restoreHead w x).notify x) := by
  unfold restoreDev restoreHead
  dsimp only
  rw [if_neg (by simp [hsd])]
  generalize hH : (w.setDev x _).envOp _ = H
  have hd2 : H.dev x = { w.dev x with shutDown := false, lastRestore := some w.now } := by
    rw [← hH, dev_envOp, dev_setDev_same hx]
  have hout2 : ¬ (H.dev x).output.isSome = true := by rw [hd2]; simp [hout]
  have hpart2 : (H.dev x).part.isNone = true := by rw [hd2]; simp [hpart]
  have hpart3 : ¬ ((H.notify x).dev x).part.isSome = true := by
    rw [core_eq_dev_part (notify_core _ x) x, hd2]; simp [hpart]
  rw [if_neg hout2, if_pos hpart2, if_neg hpart3]

/-- **(f3)** The resource callback of a processor (its pending request can now be served) clears
`waitingRes` and notifies in the same call. -/
theorem procResourceCb_unblock (w : World) (x : Nat) :
    w.procResourceCb x = (w.modDev x (fun d => { d with waitingRes := false })).notify x := rfl

/-- **(f4)** The end of a sink's cycle empties the sink and ends with the notification. -/
theorem sink_finishCycle_unblock (w : World) (x : Nat) (hk : (w.dev x).kind = .sink) :
    w.finishCycle x =
      ((w.finishCycleHandler x).modDev x (fun d => { d with output := none })).notify x := by
  unfold finishCycle
  simp only [hk]

/-- **(f5)** Raising (adjusting) the part budget of a source whose budget was exhausted ends with
`schedulePass`: a new hand-over attempt (`adjustedMax` is the new budget, see `FloorCore2`). -/
theorem adjustParts_unblock (w : World) (x : Nat) (v m : Int)
    (hm : (w.dev x).maxParts = some m) (hex : m - (w.dev x).produced < 1) :
    w.adjustParts x v =
      (w.setDev x { w.dev x with maxParts := adjustedMax (w.dev x) v }).schedulePass x 0 := by
  have ha : adjustedMax (w.dev x) v =
      some (if m + v < (w.dev x).produced then (w.dev x).produced else m + v) := by
    simp [adjustedMax, hm]
  rw [ha]
  unfold adjustParts
  simp only [hm]
  rw [if_pos (by simpa using hex)]

/-- **(f5), composed with (a)**: afterwards the source's flag is cleared and the live PASS_PART
event at the present instant is queued. -/
theorem adjustParts_attempt (w : World) (x : Nat) (v m : Int) (hx : x < w.devs.length)
    (hns : (w.dev x).kind ≠ .sink) (hm : (w.dev x).maxParts = some m)
    (hex : m - (w.dev x).produced < 1) (hnow : 0 ≤ w.now) :
    WokenFrom w (w.adjustParts x v) x := by
  rw [adjustParts_unblock w x v m hm hex]
  generalize hd : ({ w.dev x with maxParts := adjustedMax (w.dev x) v } : Dev) = d
  have hdx : (w.setDev x d).dev x = d := dev_setDev_same hx
  have hwk : Woken ((w.setDev x d).schedulePass x 0) x :=
    schedulePass_woken _ x (by simpa using hx) (by rw [hdx, ← hd]; exact hns)
  refine hwk.from ?_ ?_ hnow
  · rw [(mono_schedulePass _ x 0).now]; rfl
  · rw [core_eq_dev_aid (schedulePass_core _ x 0) x, hdx, ← hd]

/-- **(f6)** `rewire x ups` = a preparation phase (disconnect `x` from its old upstream neighbours,
install the new `up` list) followed by one `rewireStep` per new upstream neighbour. -/
theorem rewire_unblock (w : World) (x : Nat) (ups : List Nat) :
    w.rewire x ups = ups.foldl (rewireStep x) (rewirePre w x ups) := rewire_eq w x ups

/-- **(f6)** The step for a NEW upstream neighbour `u` (valid index, not yet connected to `x`) that
is initialised adds the connection and calls `spaceAvailable u` in the same step. -/
theorem rewireStep_unblock (x : Nat) (w : World) (u : Nat) (hu : u < w.devs.length)
    (hnew : x ∉ (w.dev u).down) (hin : (w.dev u).inited = true) :
    rewireStep x w u =
      (w.modDev u (fun du => { du with down := du.down ++ [x] })).spaceAvailable u :=
  rewireStep_new x w u hu hnew hin

/-- **(f6)** The step for an upstream neighbour that is already connected does nothing (no
spurious wake-up). -/
theorem rewireStep_connected (x : Nat) (w : World) (u : Nat) (h : x ∈ (w.dev u).down) :
    rewireStep x w u = w := by
  unfold rewireStep
  rw [if_pos (by simpa using h)]

/-- **(f6), composed with (a)–(c)**: if `u` is one of the new upstream neighbours of `x`, is a
handler-like non-sink device with a valid index, initialised, operational, flagged, and was not
connected to `x` before, then after `rewire x ups` the connection `u → x` exists, the flag of `u`
is cleared and the live PASS_PART event of `u` at the present instant is queued — whatever the
other entries of `ups` are (the event survives the rest of the loop). -/
theorem rewire_wakes (w : World) (x : Nat) (ups : List Nat) (u : Nat) (hmem : u ∈ ups)
    (hu : u < w.devs.length) (hhl : isHandlerLike (w.dev u).kind = true)
    (hns : (w.dev u).kind ≠ .sink) (hop : w.operational u = true)
    (hin : (w.dev u).inited = true) (hfl : (w.dev u).waitingDS = true)
    (hnew : x ∉ (w.dev u).down) (hnow : 0 ≤ w.now) :
    x ∈ ((w.rewire x ups).dev u).down ∧ WokenFrom w (w.rewire x ups) u := by
  rw [rewire_eq]
  obtain ⟨k1, d1⟩ := rewirePre_keeps w x ups u
  have r1 : Ready u (rewirePre w x ups) := k1.ready ⟨hu, hhl, hns, hop, hin⟩
  obtain ⟨hwk, hdown⟩ := rewire_fold_wakes x u ups hmem _ r1 (k1.pend (Or.inl hfl)) (d1 hnew)
  have k2 : Keeps u w (ups.foldl (rewireStep x) (rewirePre w x ups)) :=
    k1.trans (Keeps.foldl u _ (fun w a => keeps_rewireStep u x w a) _ _)
  exact ⟨hdown, hwk.from k2.mono.now k2.aid hnow⟩

/-- **(f7)** A successful hand-over by `passHandler` empties the output slot and notifies the
device's own upstream neighbours in the same call (the device can take a new part). -/
theorem passHandler_success_notifies (w w1 : World) (x p : Nat) (hop : w.operational x = true)
    (hout : (w.dev x).output = some p)
    (hgive : tryList givePart w (w.sortedDown x) p = (w1, true)) :
    w.passHandler x = (w1.modDev x (fun d => { d with output := none })).notify x := by
  unfold passHandler
  dsimp only
  rw [if_neg (by simp [hop])]
  simp only [hout, hgive]

/-- **(f8)** `passPart` on a buffer always ends with the notification of its upstream neighbours
(which is forwarded iff the buffer has room, see `forwardsUp_iff`). -/
theorem buffer_passPart_notifies (w : World) (x : Nat) (hk : (w.dev x).kind = .buffer) :
    ∃ w2 : World, w.passPart x = w2.notify x := by
  unfold passPart
  simp only [hk]
  exact ⟨_, rfl⟩

/-- **(f8)** A buffer that moves a received part into its store notifies its upstream neighbours
in the same call; the only thing that follows is the scheduling of the PASS_PART event of the
stored part (when it is the only one). -/
theorem buffer_tryMove_notifies (w : World) (x p : Nat) (hk : (w.dev x).kind = .buffer)
    (hp : (w.dev x).part = some p) :
    w.tryMove x =
      (fun N : World => if (N.dev x).buf.length == 1 then N.schedulePass x (w.dev x).delay else N)
        ((w.setDev x { w.dev x with buf := (w.dev x).buf ++ [(w.now, p)], part := none }).notify x) := by
  unfold tryMove
  simp only [hk, hp]

/-! ### (g) the attempt is made before the clock advances -/

/-- **(g)** If the queue (satisfying the queue invariant of C01) contains an event at the present
instant — e.g. the PASS_PART event of a hand-over attempt — then the next popped event has the
present instant as its time: the clock does not advance; and unless the popped event IS that
event, it is still queued afterwards (so the statement applies again, until it is popped). -/
theorem attempt_before_clock_advances {s s' : Env} {e e' : Event} (h : C01.Inv s)
    (he : e ∈ s.events) (ht : e.time = s.now) (hp : s.step = some (e', s')) :
    e'.time = s.now ∧ s'.now = s.now ∧ (e' = e ∨ e ∈ s'.events) := by
  have h1 := C01.step_min_time h hp e he
  have h2 := h.future e' (C01.step_min h hp).1
  obtain ⟨es, heq, rfl⟩ := Env.step_some.mp hp
  have ht' : e'.time = s.now := by omega
  refine ⟨ht', ht', ?_⟩
  rw [heq] at he
  rcases List.mem_cons.mp he with rfl | he
  · exact Or.inl rfl
  · exact Or.inr he

/-- Decoding the action code of a PASS_PART event gives `passPart u` back. -/
theorem ofNat_passPart (u : Nat) : Action.ofNat (Action.passPart u).toNat = .passPart u := by
  have h1 : (3 + 16 * u) % 16 = 3 := by omega
  have h2 : (3 + 16 * u) / 16 = u := by omega
  simp only [Action.ofNat, Action.toNat, h1, h2]

/-- **(g), at the level of the world**: with a live PASS_PART event of `u` for the present instant
in the queue, `World.step` pops an event of the present instant; if it pops that event, the action
it runs is exactly `passPart u` — the hand-over attempt — with the clock unchanged; otherwise the
event stays queued. -/
theorem step_runs_attempt {w w' : World} {u : Nat} {a : Int} {e e' : Event}
    (h : C01.Inv w.env) (he : e ∈ w.env.events) (hat : IsAttempt u w.now a e)
    (hp : w.step = some (e', w')) :
    ∃ env', w.env.step = some (e', env') ∧ e'.time = w.now ∧ env'.now = w.now ∧
      (e' = e → w' = ({ w with env := env' }).passPart u) ∧ (e' ≠ e → e ∈ env'.events) := by
  unfold World.step at hp
  split at hp
  · cases hp
  · next e0 env' hs =>
    injection hp with hp
    injection hp with h1 h2
    subst h1
    obtain ⟨t1, t2, t3⟩ := attempt_before_clock_advances h he hat.2.1 hs
    refine ⟨env', hs, t1, t2, ?_, ?_⟩
    · intro hee
      subst hee
      have hl : e0.live = true := by simp [Event.live, hat.2.2.2.2]
      rw [hl, hat.1, ofNat_passPart] at h2
      exact h2.symm
    · intro hne
      rcases t3 with t3 | t3
      · exact absurd t3 hne
      · exact t3

/-! ### non-vacuity -/

/-- source 0 (holding part 0, flagged) → handler 1. -/
def exDirect : World :=
  { devs := [{ kind := .source, aid := 1, down := [1], output := some 0, waitingDS := true,
               inited := true },
             { kind := .handler, aid := 2, up := [0], inited := true }],
    parts := [{}] }

/-- source 0 (flagged) → gate 1 → sink 2. -/
def exGate : World :=
  { devs := [{ kind := .source, aid := 1, down := [1], output := some 0, waitingDS := true,
               inited := true },
             { kind := .gate, aid := 2, up := [0], down := [2], inited := true },
             { kind := .sink, aid := 3, up := [1], inited := true }],
    parts := [{}] }

/-- source 0 (flagged) → gates 1, 2, 3, 4 → sink 5. -/
def exChain : World :=
  { devs := [{ kind := .source, aid := 1, down := [1], output := some 0, waitingDS := true,
               inited := true },
             { kind := .gate, aid := 2, up := [0], down := [2], inited := true },
             { kind := .gate, aid := 3, up := [1], down := [3], inited := true },
             { kind := .gate, aid := 4, up := [2], down := [4], inited := true },
             { kind := .gate, aid := 5, up := [3], down := [5], inited := true },
             { kind := .sink, aid := 6, up := [4], inited := true }],
    parts := [{}] }

/-- (a): hypotheses satisfiable, the event is really there. -/
example :
    0 < exDirect.devs.length ∧ (exDirect.dev 0).kind ≠ .sink ∧ 0 ≤ exDirect.now ∧
    (exDirect.schedulePass 0 0).env.events.map (fun e => (e.act, e.time, e.prio, e.asset, e.cancelled))
      = [(3, 0, 28, 1, false)] ∧
    ((exDirect.schedulePass 0 0).dev 0).waitingDS = false := by decide

/-- (c): the hypotheses of `notify_wakes_direct'` hold for `x = 1`, `u = 0`, and the conclusion is
visible in the computed state. -/
example :
    forwardsUp exDirect 1 = true ∧ 0 ∈ (exDirect.dev 1).up ∧ 0 < exDirect.devs.length ∧
    isHandlerLike (exDirect.dev 0).kind = true ∧ (exDirect.dev 0).kind ≠ .sink ∧
    exDirect.operational 0 = true ∧ (exDirect.dev 0).waitingDS = true ∧ 0 ≤ exDirect.now ∧
    (exDirect.notify 1).env.events.map (fun e => (e.act, e.time, e.prio, e.asset, e.cancelled))
      = [(3, 0, 28, 1, false)] ∧
    ((exDirect.notify 1).dev 0).waitingDS = false ∧ (exDirect.notify 1).error = none := by decide

example : WokenFrom exDirect (exDirect.notify 1) 0 :=
  notify_wakes_direct' exDirect 1 0 (by decide) (by decide) (by decide) (by decide) (by decide)
    (by decide) (by decide) (by decide)

/-- (d): one gate. -/
example : ReachesUp exGate 1 2 0 :=
  .gate (g := 1) (by decide) (by decide) (.direct (by decide) (by decide))

example : WokenFrom exGate (exGate.notify 2) 0 :=
  notify_wakes_through_gates' 1 exGate 2 0
    (.gate (g := 1) (by decide) (by decide) (.direct (by decide) (by decide)))
    (by decide) (by decide) (by decide) (by decide) (by decide) (by decide) (by decide)

example :
    (exGate.notify 2).env.events.map (fun e => (e.act, e.time, e.prio, e.asset, e.cancelled))
      = [(3, 0, 28, 1, false)] ∧ ((exGate.notify 2).dev 0).waitingDS = false := by decide

/-- (d): a chain of four gates, with enough fuel (`2·4 + 2 = 10`). -/
theorem exChain_reaches : ReachesUp exChain 4 5 0 :=
  .gate (g := 4) (by decide) (by decide) <| .gate (g := 3) (by decide) (by decide) <|
  .gate (g := 2) (by decide) (by decide) <| .gate (g := 1) (by decide) (by decide) <|
  .direct (by decide) (by decide)

example : WokenFrom exChain (notifyUp 10 exChain 5) 0 :=
  notify_wakes_through_gates 10 4 exChain 5 0 exChain_reaches (by decide) (by decide) (by decide)
    (by decide) (by decide) (by decide) (by decide)

/-- source 0 (holding part 0, not flagged) → handler 1 whose input is blocked. -/
def exBlocked : World :=
  { devs := [{ kind := .source, aid := 1, down := [1], output := some 0, inited := true },
             { kind := .handler, aid := 2, up := [0], inited := true, blockInput := true }],
    parts := [{}] }

/-- (e): refused → flagged; accepted → output empty. -/
example :
    0 < exBlocked.devs.length ∧ exBlocked.operational 0 = true ∧
    (exBlocked.dev 0).output = some 0 ∧
    ((exBlocked.passHandler 0).dev 0).waitingDS = true ∧
    ((exBlocked.passHandler 0).dev 0).output = some 0 := by decide

def exFree : World :=
  { devs := [{ kind := .source, aid := 1, down := [1], output := some 0, inited := true },
             { kind := .handler, aid := 2, up := [0], inited := true }],
    parts := [{}] }

example :
    ((exFree.passHandler 0).dev 0).waitingDS = false ∧
    ((exFree.passHandler 0).dev 0).output = none ∧
    ((exFree.passHandler 0).dev 1).output = some 0 := by decide

/-- (f1) + (c): the blocked source of `exBlocked`, once flagged, is woken by unblocking. -/
example : WokenFrom (exBlocked.passHandler 0) ((exBlocked.passHandler 0).setBlock 1 false) 0 :=
  setBlock_wakes _ 1 0 (by decide) (by decide) (by decide) (by decide) (by decide) (by decide)
    (by decide) (by decide) (by decide)

/-- buffer 0 holding part 0 since time 0 (no delay) → handler 1 whose input is blocked. -/
def exBuf : World :=
  { devs := [{ kind := .buffer, aid := 1, down := [1], buf := [(0, 0)], level := 1, cap := some 2,
               inited := true },
             { kind := .handler, aid := 2, up := [0], inited := true, blockInput := true }],
    parts := [{}] }

/-- (e), buffer: the hypotheses of `buffer_blocked_implies_flagged` hold and the flag is set. -/
example :
    ((exBuf.passPart 0).dev 0).buf = [(0, 0)] ∧
    ((exBuf.passPart 0).dev 0).delay - ((exBuf.passPart 0).now - 0) ≤ 0 ∧
    ((exBuf.passPart 0).dev 0).waitingDS = true := by decide

/-- (c), `x` a buffer with room: source 0 (flagged) → buffer 1 (1 of 2). -/
def exRoom : World :=
  { devs := [{ kind := .source, aid := 1, down := [1], output := some 0, waitingDS := true,
               inited := true },
             { kind := .buffer, aid := 2, up := [0], level := 1, cap := some 2, inited := true }],
    parts := [{}] }

example : WokenFrom exRoom (exRoom.notify 1) 0 :=
  notify_wakes_direct' exRoom 1 0 (by decide) (by decide) (by decide) (by decide) (by decide)
    (by decide) (by decide) (by decide)

/-- … and a full buffer does not forward (the hypothesis `forwardsUp` is not always true). -/
def exFull : World :=
  { devs := [{ kind := .source, aid := 1, down := [1], output := some 0, waitingDS := true,
               inited := true },
             { kind := .buffer, aid := 2, up := [0], level := 2, cap := some 2, inited := true }],
    parts := [{}] }

example : forwardsUp exFull 1 = false ∧ ((exFull.notify 1).dev 0).waitingDS = true := by decide

/-- (f2): a shut-down processor holding a finished part. -/
def exShut : World :=
  { devs := [{ kind := .processor, aid := 1, shutDown := true, output := some 0, inited := true }],
    parts := [{}] }

example : WokenFrom exShut (exShut.restoreDev 0) 0 :=
  restoreDev_attempt exShut 0 (by decide) (by decide) (by decide) (by decide) (by decide)

example :
    (exShut.restoreDev 0).env.events.map (fun e => (e.act, e.time, e.prio, e.asset, e.cancelled))
      = [(3, 0, 28, 1, false)] := by decide

/-- (f5): a source whose budget (0 parts) is exhausted. -/
def exBudget : World :=
  { devs := [{ kind := .source, aid := 1, maxParts := some 0, output := some 0, inited := true }],
    parts := [{}] }

example : WokenFrom exBudget (exBudget.adjustParts 0 5) 0 :=
  adjustParts_attempt exBudget 0 5 0 (by decide) (by decide) (by decide) (by decide) (by decide)

/-- (f6): a flagged source that is not connected to anything gets handler 1 as its downstream
neighbour. -/
def exRewire : World :=
  { devs := [{ kind := .source, aid := 1, output := some 0, waitingDS := true, inited := true },
             { kind := .handler, aid := 2, inited := true }],
    parts := [{}] }

example : 1 ∈ ((exRewire.rewire 1 [0]).dev 0).down ∧
    WokenFrom exRewire (exRewire.rewire 1 [0]) 0 :=
  rewire_wakes exRewire 1 [0] 0 (by decide) (by decide) (by decide) (by decide) (by decide)
    (by decide) (by decide) (by decide) (by decide)

/-- (g): the queue after the notification satisfies the invariant of C01, contains the attempt at
the present instant, and the next step runs it without advancing the clock: the part moves on. -/
example : C01.Inv (exDirect.notify 1).env :=
  ⟨by unfold SortedEv; decide, by decide, by decide, by decide⟩

example :
    (exDirect.notify 1).step.map
      (fun r => (r.1.act, r.1.time, r.2.now, (r.2.dev 1).output, r.2.error)) =
    some (3, 0, 0, some 0, none) := by decide

/-- source 0 (flagged) → group path 1 of group 0 = [input node 2 → handler 3 (flagged) → output
node 4] → sink 5. -/
def exGroup : World :=
  { devs := [{ kind := .source, aid := 1, down := [1], output := some 0, waitingDS := true,
               inited := true },
             { kind := .gpath, aid := 2, up := [0], down := [5], group := 0, inited := true },
             { kind := .ginput, aid := 3, down := [3], group := 0, inited := true },
             { kind := .handler, aid := 4, up := [2], down := [4], output := some 1,
               waitingDS := true, inited := true },
             { kind := .goutput, aid := 5, up := [3], group := 0, inited := true },
             { kind := .sink, aid := 6, up := [1], inited := true }],
    groups := [{ paths := [1], input := 2, output := 4 }],
    parts := [{}, {}] }

/-- the handler inside the group notifies the source in front of the group … -/
example : WokenFrom exGroup (exGroup.notify 3) 0 :=
  notify_wakes_group_input 4 exGroup 3 2 1 0 (by decide) (by decide) (by decide) (by decide)
    (by decide) (by decide) (by decide) (by decide) (by decide) (by decide) (by decide) (by decide)

/-- … and the sink behind the group notifies the handler inside the group. -/
example : WokenFrom exGroup (exGroup.notify 5) 3 :=
  notify_wakes_group_output 4 exGroup 5 1 3 (by decide) (by decide) (by decide) (by decide)
    (by decide) (by decide) (by decide) (by decide) (by decide) (by decide) (by decide)

example :
    (exGroup.notify 5).env.events.map (fun e => (e.act, e.time, e.prio, e.asset, e.cancelled))
      = [(3 + 16 * 3, 0, 28, 4, false)] ∧ (exGroup.notify 5).error = none := by decide

/-- **The fuel of the model suffices for long gate chains.**  Every gate costs two units of fuel
(`spaceAvail` then `notifyUp`); with `World.fuel = 2 * devs.length + 3` the notification of the sink
of the six-device world `exChain` (source → 4 gates → sink) reaches the flagged source: no error,
flag cleared, one attempt queued.  (With the earlier fuel `devs.length + 3 = 9 < 10` it did not —
the model then reported the explicit error `"fuel"`.) -/
theorem fuel_sufficient :
    (exChain.notify 5).error = none ∧ ((exChain.notify 5).dev 0).waitingDS = false ∧
    (exChain.notify 5).env.events.length = 1 ∧
    ((notifyUp 9 exChain 5).error = some "fuel") := by
  decide

end C03
end SimProc
