/-
C15D — the recorded data is a faithful log in worlds that CREATE ASSETS WHILE RUNNING.

`Props/C15W.lean` proves the record / counter invariants of C15 for every state reachable from a
fresh world whose scripts create nothing (`NoCreate`).  Here the scripts run by events, and the
operations issued from outside between steps, MAY construct assets of every kind (devices of any
kind with any wiring, groups, maintainers, schedulers, sensors, cms) at any time.

THE CONDITION ON CONSTRUCTOR PAYLOADS (`devNew`, decidable; `ScriptsNew w` for the scripts, `opNew`
for outside operations): a created device record has its counters and its level at zero
(`produced = costProduced = recvCount = recvValue = 0`, `level = 0`).  Nothing else is asked: kind,
wiring, slots, parameters, flags are arbitrary — and so is the value bookkeeping `val`: a device
constructed on a started system is initialised at once and `initialize` resets `val`
(`stale_val_is_harmless`).  Each clause is needed: `supplied_count_stale_false` (`produced`),
`last_level_stale_false` (`level`), `received_count_stale_false` (`recvCount`), and `Props/C16D.lean`
for `costProduced` / `recvValue`.  `C20W.specFresh` (only `inited = false`) does not fit: it allows
`produced := 5` (`C15W.supplied_count_create_false`) and forbids nothing that matters here.

REACHABLE STATES: `Reach A w0 w` — initialise, then steps, runs, `runBegin` and lists `l` of outside
operations with `A w l`.  `Reachable = Reach ANew` (payloads `opNew`), `ReachableAny` (no condition),
`ReachableNB` (no created device is set up for batches), `ReachableW need` / `ReachableWB need`
(additionally admissible for closed wiring: `C02W.OpsOK`).

THEOREMS, for every state reachable from a `C15W.Fresh` world:
1. `supplied_count_reachable_dyn` — `produced` = number of `supplied_new_part` records, for every
   device, old or created.
2. `received_count_reachable_dyn` — the counters of the sinks add up to the delivered leaf parts;
   `only_sinks_count_dyn`; `no_batches_reachable_dyn`.
   PER SINK the counter / collected value equals the number / sum of the sink's `received_part`
   records (`received_count_per_sink_dyn`, `received_value_reachable_dyn`) in worlds with CLOSED WIRING
   (`C02W.Dyn need w0`: every downstream entry and group input names an existing device, and stays
   so).  Without closed wiring this is FALSE for created sinks (`received_per_sink_dangling_false`:
   the model lets a part be handed to a device index that does not exist yet; the record is written,
   and a sink created later under that index inherits it).  What is true without any wiring
   hypothesis: the per-sink equations for the sinks of the fresh world
   (`received_value_initial_dyn`, `received_count_per_sink_initial_dyn`), and for ANY sink, from the
   moment it exists, counter and records move in step (`received_value_offset_dyn`,
   `received_count_offset_dyn`); `received_records_in_range_dyn` (closed wiring: no record about
   a missing device).
3. `last_level_reachable_dyn` — last `level` record = level (0 without one).
4. `last_resource_reachable_dyn` (+ `rm_inited_reachable_dyn`, `no_record_no_pool_dyn`,
   `resource_silent_before_init_dyn`) — for ARBITRARY payloads (`ReachableAny`).
5. `records_stamped_now_dyn`, `exec_stamped_dyn` — for EVERY world, no hypothesis at all;
   `log_sorted_reachable_dyn`, `clock_mono_step_dyn` — arbitrary payloads.
6. What is kept: `devices_kept_dyn` (device and maintainer lists only grow; kinds and starting values
   of what exists never change), `later_kept_dyn` (between any two reachable states),
   `created_device_dyn` / `created_maint_dyn` (what a constructor call appends).

Method (`Proofs/C15D*.lean`): the key / `KStep` transition system of C15W extended by two sites
("a constructor-fresh device is appended", "a fresh maintainer is appended"): `DStep`; every
invariant of `KStep` that holds for an appended fresh device lifts (`DStep.lift`); the world
functions, `addAsset` included, are `DStep`s.  The initialisation of a late device resets its
`val`; that reset is moved in front of the wiring steps (`KStep.resetAt`), so no invariant ever sees
a stale bookkeeping.
-/
import SimProc.Proofs.C15DWire
import SimProc.Proofs.C15DSink
import SimProc.Props.C15W
import SimProc.Props.C02W

namespace SimProc
namespace C15D
open World C15 C15W

/-! ### reachable states -/

/-- outside operations: constructor payloads with counters and level at zero -/
def ANew : World → List Op → Prop := fun _ l => ∀ op ∈ l, opNew op = true
/-- … and not set up for batches -/
def ANB : World → List Op → Prop := fun _ l => ∀ op ∈ l, opNew op = true ∧ opNB op = true
/-- no condition -/
def AAny : World → List Op → Prop := fun _ _ => True

abbrev Reachable := Reach ANew
abbrev ReachableAny := Reach AAny
abbrev ReachableNB := Reach ANB
abbrev ReachableW (need : Nat → Nat) := Reach (AW need)
abbrev ReachableWB (need : Nat → Nat) := Reach (AWB need)

theorem Reachable.any {w0 w : World} (h : Reachable w0 w) : ReachableAny w0 w :=
  h.mono (fun _ _ _ => trivial)
theorem ReachableNB.new {w0 w : World} (h : ReachableNB w0 w) : Reachable w0 w :=
  h.mono (fun _ _ h op hop => (h op hop).1)
theorem ReachableW.new {need : Nat → Nat} {w0 w : World} (h : ReachableW need w0 w) : Reachable w0 w :=
  h.mono (fun _ _ h => h.1)
theorem ReachableWB.nb {need : Nat → Nat} {w0 w : World} (h : ReachableWB need w0 w) : ReachableNB w0 w :=
  h.mono (fun _ _ h => h.1)
theorem ReachableWB.w {need : Nat → Nat} {w0 w : World} (h : ReachableWB need w0 w) : ReachableW need w0 w :=
  h.mono (fun _ _ h => ⟨fun op hop => (h.1 op hop).1, h.2⟩)

instance (need : Nat → Nat) (w : World) (l : List Op) : Decidable (AW need w l) := by
  unfold AW; infer_instance
instance (need : Nat → Nat) (w : World) (l : List Op) : Decidable (AWB need w l) := by
  unfold AWB; infer_instance
instance (w : World) (l : List Op) : Decidable (ANew w l) := by unfold ANew; infer_instance
instance (w : World) (l : List Op) : Decidable (ANB w l) := by unfold ANB; infer_instance

/-- `System.simulate(d)` (initialise, begin the run, loop) ends in a reachable state, whatever
the class of outside operations. -/
theorem reachable_simulate {A : World → List Op → Prop} (n : Nat) (d : Int) (w0 : World) :
    Reach A w0 (runLoop n (w0.simulateInit.runBegin d).1) := .run n (.runBegin d .init)

/-- A world whose scripts create nothing is in the class. -/
theorem scriptsNew_of_noCreate {w : World} (h : NoCreate w) : ScriptsNew w := by
  intro l hl op hop
  have := h l hl op hop
  cases op <;> first | rfl | cases this

/-! ### lifting -/

theorem inv_any {I0 I : WKey → Prop} {w0 w : World}
    (hinit : ∀ {k k'}, KStep .init k k' → I0 k → I0 k') (hconv : ∀ k, I0 k → I k)
    (hstep : ∀ {k k'}, DStep PAny .run k k' → I k → I k')
    (henv : ∀ (k : WKey) (e : Env), I k → I { k with env := e })
    (h0 : I0 (key w0)) (hf : Fresh w0) (hr : ReachableAny w0 w) : I (key w) :=
  reach_inv ctxAny (clsTrue _) (fun _ _ _ _ _ _ _ => trivial) hinit hconv hstep henv h0
    (scriptsS_any w0) hf.2.2.1 trivial trivial hr

/-- arbitrary payloads; all that is known of a created device is that its `val` has been reset -/
theorem inv_val {I0 I : WKey → Prop} {w0 w : World}
    (hinit : ∀ {k k'}, KStep .init k k' → I0 k → I0 k') (hconv : ∀ k, I0 k → I k)
    (hstep : ∀ {k k'}, DStep PVal .run k k' → I k → I k')
    (henv : ∀ (k : WKey) (e : Env), I k → I { k with env := e })
    (h0 : I0 (key w0)) (hf : Fresh w0) (hr : ReachableAny w0 w) : I (key w) :=
  reach_inv ctxVal (clsTrue _) (fun _ _ _ _ _ _ _ => trivial) hinit hconv hstep henv h0
    (scriptsS_any w0) hf.2.2.1 trivial trivial hr

theorem inv_new {I0 I : WKey → Prop} {w0 w : World}
    (hinit : ∀ {k k'}, KStep .init k k' → I0 k → I0 k') (hconv : ∀ k, I0 k → I k)
    (hstep : ∀ {k k'}, DStep PNew .run k k' → I k → I k')
    (henv : ∀ (k : WKey) (e : Env), I k → I { k with env := e })
    (h0 : I0 (key w0)) (hf : Fresh w0) (hn : ScriptsNew w0) (hr : Reachable w0 w) : I (key w) :=
  reach_inv ctxNew (clsTrue _) (fun _ _ h => opS_new h) hinit hconv hstep henv h0
    (scriptsS_new hn) hf.2.2.1 trivial trivial hr

theorem inv_nb {I0 I : WKey → Prop} {w0 w : World}
    (hinit : ∀ {k k'}, KStep .init k k' → I0 k → I0 k') (hconv : ∀ k, I0 k → I k)
    (hstep : ∀ {k k'}, DStep PNB .run k k' → I k → I k')
    (henv : ∀ (k : WKey) (e : Env), I k → I { k with env := e })
    (h0 : I0 (key w0)) (hf : Fresh w0) (hn : ScriptsNew w0) (hb : ScriptsNB w0)
    (hr : ReachableNB w0 w) : I (key w) :=
  reach_inv ctxNB (clsTrue _) (fun _ _ h => opS_nb h) hinit hconv hstep henv h0
    (scriptsS_nb hn hb) hf.2.2.1 trivial trivial hr

theorem inRK_fresh {w0 : World} (hf : Fresh w0) : InRK (key w0) := by
  intro y _ r hr
  rw [key_recs, hf.1] at hr
  cases hr

theorem inv_w {need : Nat → Nat} {I0 I : WKey → Prop} {w0 w : World}
    (hinit : ∀ {k k'}, KStep .init k k' → I0 k → I0 k') (hconv : ∀ k, I0 k → I k)
    (hstep : ∀ {k k'}, DStep PW .run k k' → I k → I k')
    (henv : ∀ (k : WKey) (e : Env), I k → I { k with env := e })
    (h0 : I0 (key w0)) (hf : Fresh w0) (hn : ScriptsNew w0) (hd : C02W.Dyn need w0)
    (hr : ReachableW need w0 w) : I (key w) :=
  reach_inv ctxW (clsW need (AW need) (fun _ _ h => h.2)) (fun _ _ h => opS_new h.1) hinit hconv hstep
    henv h0 (scriptsS_new hn) hf.2.2.1 (inRK_fresh hf) ((C02W.dyn_iff need w0).1 hd) hr

theorem inv_wb {need : Nat → Nat} {I0 I : WKey → Prop} {w0 w : World}
    (hinit : ∀ {k k'}, KStep .init k k' → I0 k → I0 k') (hconv : ∀ k, I0 k → I k)
    (hstep : ∀ {k k'}, DStep PWB .run k k' → I k → I k')
    (henv : ∀ (k : WKey) (e : Env), I k → I { k with env := e })
    (h0 : I0 (key w0)) (hf : Fresh w0) (hn : ScriptsNew w0) (hb : ScriptsNB w0)
    (hd : C02W.Dyn need w0) (hr : ReachableWB need w0 w) : I (key w) :=
  reach_inv ctxWB (clsW need (AWB need) (fun _ _ h => h.2)) (fun _ _ h => opS_nb h.1) hinit hconv hstep
    henv h0 (scriptsS_nb hn hb) hf.2.2.1 (inRK_fresh hf) ((C02W.dyn_iff need w0).1 hd) hr

theorem scr_step {w w' : World} {e : Event} (hs : w.step = some (e, w')) : w'.scripts = w.scripts := by
  obtain ⟨env', _, rfl⟩ := step_cases hs
  split
  · rw [C02V.scr_exec]
  · rfl

theorem scr_runLoop (n : Nat) (w : World) : (runLoop n w).scripts = w.scripts := by
  induction n generalizing w with
  | zero => exact C02V.scr_setErr ..
  | succ n ih =>
    unfold runLoop
    split
    · split
      · rfl
      · rename_i e w' hst
        exact (ih w').trans (scr_step hst)
    · rfl

/-- Scripts never change … -/
theorem scripts_reachable {A : World → List Op → Prop} {w0 w : World} (hr : Reach A w0 w) :
    w.scripts = w0.scripts := by
  induction hr with
  | init => exact C02V.scr_simulateInit w0
  | step _ hs ih => rw [scr_step hs]; exact ih
  | run n _ ih => rw [scr_runLoop]; exact ih
  | runBegin d _ ih => rw [scr_runBegin]; exact ih
  | ops l _ _ ih => rw [C02V.scr_applyOps]; exact ih

/-- … so the conditions on their payloads hold in every reachable state. -/
theorem scriptsNew_reachable {A : World → List Op → Prop} {w0 w : World} (hn : ScriptsNew w0)
    (hr : Reach A w0 w) : ScriptsNew w := by
  unfold ScriptsNew; rw [scripts_reachable hr]; exact hn

theorem scriptsNB_reachable {A : World → List Op → Prop} {w0 w : World} (hn : ScriptsNB w0)
    (hr : Reach A w0 w) : ScriptsNB w := by
  unfold ScriptsNB; rw [scripts_reachable hr]; exact hn

/-! ### 1. sources: counter = number of records -/

/-- **supplied_count**, worlds that create assets: in every reachable state the counter `produced`
of every device — present from the start or created at any time — equals the number of its
`supplied_new_part` records. -/
theorem supplied_count_reachable_dyn {w0 w : World} (hf : Fresh w0) (hn : ScriptsNew w0)
    (hr : Reachable w0 w) (x : Nat) : (w.dev x).produced = countSupplied w x := by
  have := inv_new (I0 := SupInv) (I := SupInv) SupInv.step (fun _ h => h)
    (SupInv.dstep (fun _ _ h => h)) (fun _ _ h => h) hf.supInv hf hn hr x
  rw [key_dev] at this
  exact this

/-! ### 2. sinks -/

/-- **received_count**, worlds that create assets: the counters of the sinks add up to the number of
leaf parts delivered (a batch counts its parts), … -/
theorem received_count_reachable_dyn {w0 w : World} (hf : Fresh w0) (hn : ScriptsNew w0)
    (hr : Reachable w0 w) :
    ((w.devs.filter (fun d => d.kind == .sink)).map (·.recvCount)).sum = w.delivered.length := by
  have h := inv_new (I0 := DelivInv) (I := DelivInv) DelivInv.step (fun _ h => h)
    (DelivInv.dstep (fun _ _ h => h)) (fun _ _ h => h) hf.delivInv hf hn hr
  have h1 : (w.devs.map (·.recvCount)).sum = w.delivered.length := by
    have := h.1
    simp only [recvTotal, key, List.map_map] at this
    exact this
  rw [← h1]
  apply sum_filter_of_zero
  intro d hd hk
  obtain ⟨y, hy, rfl⟩ := List.getElem_of_mem hd
  have h2 := h.2 y
  rw [key_dev] at h2
  have e : w.dev y = w.devs[y] := by
    simp [World.dev, List.getD_eq_getElem?_getD, hy]
  rw [e] at h2
  have hk' : ¬ w.devs[y].kind = .sink := by simpa using hk
  exact h2 hk'

/-- … and only sinks count. -/
theorem only_sinks_count_dyn {w0 w : World} (hf : Fresh w0) (hn : ScriptsNew w0) (hr : Reachable w0 w)
    (x : Nat) (hk : (w.dev x).kind ≠ .sink) : (w.dev x).recvCount = 0 := by
  have h := (inv_new (I0 := DelivInv) (I := DelivInv) DelivInv.step (fun _ h => h)
    (DelivInv.dstep (fun _ _ h => h)) (fun _ _ h => h) hf.delivInv hf hn hr).2 x
  rw [key_dev] at h
  exact h hk

/-- Without batches (`NoBatch w0`, and no created device is set up for them: `ScriptsNB`,
`ReachableNB`) none ever appears. -/
theorem no_batches_reachable_dyn {w0 w : World} (hf : Fresh w0) (hn : ScriptsNew w0)
    (hnb : ScriptsNB w0) (hb : NoBatch w0) (hr : ReachableNB w0 w) :
    (∀ p, (w.part p).kids = none) ∧ ∀ x, (w.dev x).genBatch = 0 ∧ (w.dev x).bsize = none := by
  have h := inv_nb (I0 := LeafInv) (I := LeafInv) LeafInv.step (fun _ h => h)
    (LeafInv.dstep (fun _ _ h => h.2)) (fun _ _ h => h) hb.leafInv hf hn hnb hr
  refine ⟨fun p => part_kids_of_pl w p h.2, fun x => ?_⟩
  have := h.1 x
  rw [key_dev] at this
  exact this

/-- **received_count per sink**, closed wiring, no batches: the counter of every sink — old or
created — is the number of its `received_part` records. -/
theorem received_count_per_sink_dyn {need : Nat → Nat} {w0 w : World} (hf : Fresh w0)
    (hn : ScriptsNew w0) (hnb : ScriptsNB w0) (hb : NoBatch w0) (hd : C02W.Dyn need w0)
    (hr : ReachableWB need w0 w) (x : Nat) (hk : (w.dev x).kind = .sink) :
    (w.dev x).recvCount = countReceived w x := by
  have h := (inv_wb (I0 := CountInv) (I := CountInv) CountInv.step (fun _ h => h)
    (CountInv.dstep (fun _ _ h => h)) (fun _ _ h => h) (hf.countInv hb) hf hn hnb hd hr).2 x
  rw [key_dev] at h
  exact h hk

/-- **received value per sink**, closed wiring: the value collected by a sink — old or created — is
the sum of the values in its `received_part` records. -/
theorem received_value_reachable_dyn {need : Nat → Nat} {w0 w : World} (hf : Fresh w0)
    (hn : ScriptsNew w0) (hd : C02W.Dyn need w0) (hr : ReachableW need w0 w) (x : Nat)
    (hk : (w.dev x).kind = .sink) : (w.dev x).recvValue = receivedValue w x := by
  have h := inv_w (I0 := RecvValInv) (I := RecvValInv) RecvValInv.step (fun _ h => h)
    (RecvValInv.dstep (fun _ _ h => h)) (fun _ _ h => h) hf.recvValInv hf hn hd hr x
  rw [key_dev] at h
  exact h hk

/-- With closed wiring no `received_part` record is ever about a device that does not exist (yet). -/
theorem received_records_in_range_dyn {need : Nat → Nat} {w0 w : World} (hf : Fresh w0)
    (hn : ScriptsNew w0) (hd : C02W.Dyn need w0) (hr : ReachableW need w0 w) :
    ∀ x t p q v, Rec.received x t p q v ∈ w.recs → x < w.devs.length := by
  have h := (reach_key ctxW (clsW need (AW need) (fun _ _ h => h.2)) (fun _ _ h => opS_new h.1)
    (scriptsS_new hn) hf.2.2.1 (inRK_fresh hf) ((C02W.dyn_iff need w0).1 hd) hr).2.2.2.1
  intro x t p q v hm
  apply Classical.byContradiction
  intro hx
  have := h x (by rw [key_devs_length]; omega) _ hm
  simp [isReceivedBy] at this

/-- Closed wiring is kept (C02W). -/
theorem dyn_reachable_dyn {need : Nat → Nat} {w0 w : World} (hf : Fresh w0)
    (hn : ScriptsNew w0) (hd : C02W.Dyn need w0) (hr : ReachableW need w0 w) : C02W.Dyn need w :=
  (C02W.dyn_iff need w).2 (reach_key ctxW (clsW need (AW need) (fun _ _ h => h.2))
    (fun _ _ h => opS_new h.1) (scriptsS_new hn) hf.2.2.1 (inRK_fresh hf)
    ((C02W.dyn_iff need w0).1 hd) hr).2.2.2.2.1

/-! #### per sink, without closed wiring

What remains true in every world of the class: for the sinks of the fresh world the per-sink
equations hold; for any sink, from the moment it exists, counter and records move in step. -/

/-- The sinks of the fresh world: collected value = sum of the values in the sink's records.  No
wiring hypothesis. -/
theorem received_value_initial_dyn {w0 w : World} (hf : Fresh w0) (hn : ScriptsNew w0)
    (hr : Reachable w0 w) (x : Nat) (hx : x < w0.devs.length) (hk : (w.dev x).kind = .sink) :
    (w.dev x).recvValue = receivedValue w x := by
  have h0 : x < (key w0).devs.length ∧ RecvValAt x 0 (key w0) := by
    refine ⟨by simpa using hx, fun _ => ?_⟩
    rw [key_dev]
    show (w0.dev x).recvValue = recvSum w0.recs x + 0
    rw [(hf.dev x).2.2.2.1, hf.1]; rfl
  have h := (inv_new (I0 := fun k => x < k.devs.length ∧ RecvValAt x 0 k)
    (I := fun k => x < k.devs.length ∧ RecvValAt x 0 k)
    (fun h hi => ⟨by rw [(KStep.static h).1]; exact hi.1, RecvValAt.step h hi.2⟩) (fun _ h => h)
    (fun h hi => RecvValAt.dstep h hi) (fun _ _ h => h) h0 hf hn hr).2
  unfold RecvValAt at h
  rw [key_dev] at h
  have := h hk
  change (w.dev x).recvValue = recvSum w.recs x + 0 at this
  simpa [receivedValue] using this

/-- The sinks of the fresh world, no batches: counter = number of the sink's records.  No wiring
hypothesis. -/
theorem received_count_per_sink_initial_dyn {w0 w : World} (hf : Fresh w0) (hn : ScriptsNew w0)
    (hnb : ScriptsNB w0) (hb : NoBatch w0) (hr : ReachableNB w0 w) (x : Nat) (hx : x < w0.devs.length)
    (hk : (w.dev x).kind = .sink) : (w.dev x).recvCount = countReceived w x := by
  have h0 : LeafInv (key w0) ∧ x < (key w0).devs.length ∧ CountAt x 0 (key w0) := by
    refine ⟨hb.leafInv, by simpa using hx, fun _ => ?_⟩
    rw [key_dev]
    show (w0.dev x).recvCount = (countRecv w0.recs x : Int) + 0
    rw [(hf.dev x).2.2.1, hf.1]; rfl
  have h := (inv_nb (I0 := fun k => LeafInv k ∧ x < k.devs.length ∧ CountAt x 0 k)
    (I := fun k => LeafInv k ∧ x < k.devs.length ∧ CountAt x 0 k)
    (fun h hi => ⟨LeafInv.step h hi.1, by rw [(KStep.static h).1]; exact hi.2.1,
      CountAt.step h hi.1 hi.2.2⟩) (fun _ h => h)
    (fun h hi => CountAt.dstep (fun _ _ h => h.2) h hi) (fun _ _ h => h) h0 hf hn hnb hr).2.2
  unfold CountAt at h
  rw [key_dev] at h
  have := h hk
  change (w.dev x).recvCount = (countRecv w.recs x : Int) + 0 at this
  simpa [countReceived] using this

/-- **Any sink, from the moment it exists** (`w`: any started world of the class — e.g. the state
right after the sink's constructor call; `w'`: any later state): the collected value and the sum
of the recorded values grow by the same amount. -/
theorem received_value_offset_dyn {w w' : World} (hn : ScriptsNew w) (hst : w.started = true)
    (hl : Later ANew w w') (x : Nat) (hx : x < w.devs.length) (hk : (w.dev x).kind = .sink) :
    (w'.dev x).recvValue - receivedValue w' x = (w.dev x).recvValue - receivedValue w x := by
  have hkey := (later_key ctxNew (clsTrue ANew) (fun _ _ h => opS_new h) (scriptsS_new hn) trivial
    trivial hst hl).1
  have h0 : x < (key w).devs.length ∧
      RecvValAt x ((w.dev x).recvValue - recvSum w.recs x) (key w) := by
    refine ⟨by simpa using hx, fun _ => ?_⟩
    rw [key_dev]
    show (w.dev x).recvValue = recvSum w.recs x + _
    omega
  have h := (DRun.preserve (I := fun k => x < k.devs.length ∧
      RecvValAt x ((w.dev x).recvValue - recvSum w.recs x) k)
    (fun h hi => RecvValAt.dstep h hi) (fun _ _ h => h) hkey h0).2
  have hk' : (w'.dev x).kind = .sink := by
    have := (hkey.grows.2.2.1 x (by simpa using hx)).1
    rw [key_dev, key_dev] at this
    exact this.trans hk
  unfold RecvValAt at h
  rw [key_dev] at h
  have := h hk'
  change (w'.dev x).recvValue = recvSum w'.recs x + ((w.dev x).recvValue - recvSum w.recs x) at this
  simp only [receivedValue]
  omega

/-- The same for the counter, without batches. -/
theorem received_count_offset_dyn {w w' : World} (hn : ScriptsNew w) (hnb : ScriptsNB w)
    (hb : NoBatch w) (hst : w.started = true) (hl : Later ANB w w') (x : Nat) (hx : x < w.devs.length)
    (hk : (w.dev x).kind = .sink) :
    (w'.dev x).recvCount - countReceived w' x = (w.dev x).recvCount - countReceived w x := by
  have hkey := (later_key ctxNB (clsTrue ANB) (fun _ _ h => opS_nb h) (scriptsS_nb hn hnb) trivial
    trivial hst hl).1
  have h0 : LeafInv (key w) ∧ x < (key w).devs.length ∧
      CountAt x ((w.dev x).recvCount - countRecv w.recs x) (key w) := by
    refine ⟨hb.leafInv, by simpa using hx, fun _ => ?_⟩
    rw [key_dev]
    show (w.dev x).recvCount = (countRecv w.recs x : Int) + _
    omega
  have h := (DRun.preserve (I := fun k => LeafInv k ∧ x < k.devs.length ∧
      CountAt x ((w.dev x).recvCount - countRecv w.recs x) k)
    (fun h hi => CountAt.dstep (fun _ _ h => h.2) h hi) (fun _ _ h => h) hkey h0).2.2
  have hk' : (w'.dev x).kind = .sink := by
    have := (hkey.grows.2.2.1 x (by simpa using hx)).1
    rw [key_dev, key_dev] at this
    exact this.trans hk
  unfold CountAt at h
  rw [key_dev] at h
  have := h hk'
  change (w'.dev x).recvCount = (countRecv w'.recs x : Int) + ((w.dev x).recvCount - countRecv w.recs x) at this
  simp only [countReceived]
  omega

/-! ### 3. buffers -/

/-- **last_level**, worlds that create assets: the last `level` record of every device — old or
created — is its level; a device without such a record has level 0. -/
theorem last_level_reachable_dyn {w0 w : World} (hf : Fresh w0) (hn : ScriptsNew w0)
    (hr : Reachable w0 w) : LevelInv w := by
  intro x
  have := inv_new (I0 := LevelInvK) (I := LevelInvK) LevelInvK.step (fun _ h => h)
    (LevelInvK.dstep (fun _ _ h => h)) (fun _ _ h => h) hf.levelInv hf hn hr x
  rw [key_dev] at this
  exact this

theorem last_level_buffer_dyn {w0 w : World} (hf : Fresh w0) (hn : ScriptsNew w0) (hr : Reachable w0 w)
    (x : Nat) :
    (∀ n, lastLevel w.recs x = some n → n = (w.dev x).level) ∧
    (lastLevel w.recs x = none → (w.dev x).level = 0) := by
  have h := last_level_reachable_dyn hf hn hr x
  constructor
  · intro n e; rw [e] at h; exact h
  · intro e; rw [e] at h; exact h.symm

/-! ### 4. resources (arbitrary constructor payloads) -/

/-- **last_resource**: once the resource manager is initialised, every resource that has a pool has
a `resource_update` record, and the last one carries `(usage, capacity)` — whatever is created. -/
theorem last_resource_reachable_dyn {w0 w : World} (hf : Fresh w0) (hr : ReachableAny w0 w)
    (hi : w.rm.inited = true) (r : Nat) (hp : (w.rm.lookup r).isSome) :
    lastResUpdate w.recs r = some (w.rm.usage r, w.rm.capacity r) := by
  have h1 := (inv_any (I0 := ResInv) (I := ResInv) ResInv.step (fun _ h => h) ResInv.dstep
    (fun _ _ h => h) hf.resInv hf hr).2.1 hi r
  have h2 := (inv_any (I0 := HasRecInv) (I := HasRecInv) HasRecInv.step (fun _ h => h)
    HasRecInv.dstep (fun _ _ h => h) hf.hasRecInv hf hr).2 hi r hp
  have e := usage_congr (a := rmOf (key w)) (b := w.rm) rfl r
  rw [e.1, e.2] at h1
  change (lastResUpdate w.recs r).getD (0, 0) = _ at h1
  change (lastResUpdate w.recs r).isSome at h2
  cases e' : lastResUpdate w.recs r with
  | none => rw [e'] at h2; cases h2
  | some v => rw [e'] at h1; exact congrArg some h1

theorem rm_inited_reachable_dyn {w0 w : World} (hf : Fresh w0) (hs : w0.started = false)
    (hr : ReachableAny w0 w) : w.rm.inited = true := by
  obtain ⟨_, h2, _⟩ := reach_key ctxAny (clsTrue _) (fun _ _ _ _ _ _ _ => trivial)
    (scriptsS_any w0) hf.2.2.1 trivial trivial hr
  exact DRun.preserve (I := fun k => k.rmInited = true) (fun h hi => inited_dstep h hi)
    (fun _ _ h => h) h2 (simulateInit_inited w0 hs)

theorem no_record_no_pool_dyn {w0 w : World} (hf : Fresh w0) (hr : ReachableAny w0 w)
    (hi : w.rm.inited = true) (r : Nat) (h : lastResUpdate w.recs r = none) :
    w.rm.usage r = 0 ∧ w.rm.capacity r = 0 := by
  have h1 := (inv_any (I0 := ResInv) (I := ResInv) ResInv.step (fun _ h => h) ResInv.dstep
    (fun _ _ h => h) hf.resInv hf hr).2.1 hi r
  have e := usage_congr (a := rmOf (key w)) (b := w.rm) rfl r
  rw [e.1, e.2] at h1
  change (lastResUpdate w.recs r).getD (0, 0) = _ at h1
  rw [h] at h1
  exact ⟨(congrArg Prod.fst h1).symm, (congrArg Prod.snd h1).symm⟩

theorem resource_silent_before_init_dyn {w0 w : World} (hf : Fresh w0) (hr : ReachableAny w0 w) :
    (w.rm.pools.map (·.1)).Nodup ∧ (w.rm.inited = false → ∀ r, lastResUpdate w.recs r = none) := by
  have h := inv_any (I0 := ResInv) (I := ResInv) ResInv.step (fun _ h => h) ResInv.dstep
    (fun _ _ h => h) hf.resInv hf hr
  exact ⟨h.1, h.2.2⟩

/-! ### 5. time stamps (every world, arbitrary payloads) -/

/-- Every function that runs inside an event — scripts that construct anything included — stamps
its records with the clock.  No hypothesis. -/
theorem exec_stamped_dyn (w : World) (a : Action) :
    (w.exec a).now = w.now ∧ ∃ l, (w.exec a).recs = w.recs ++ l ∧ ∀ r ∈ l, Rec.time r = w.now :=
  (DS_exec (ph := .run) ctxAny w a (scriptsS_any w) trivial (Or.inr trivial)
    (fun _ _ => ⟨rfl, fun _ => rfl⟩) (fun _ _ _ => rfl)).stamped

/-- **records_stamped_now**: every record appended by a step of the event loop carries the clock
value of that step.  No hypothesis. -/
theorem records_stamped_now_dyn {w w' : World} {e : Event} (h : w.step = some (e, w')) :
    w'.now = e.time ∧ ∃ l, w'.recs = w.recs ++ l ∧ ∀ r ∈ l, Rec.time r = w'.now := by
  obtain ⟨env', henv, rfl⟩ := step_cases h
  have hnow : env'.now = e.time := by
    obtain ⟨es, _, rfl⟩ := Env.step_some.mp henv
    rfl
  split
  · obtain ⟨h1, l, h2, h3⟩ := exec_stamped_dyn ({ w with env := env' } : World) (Action.ofNat e.act)
    have h1' : (({ w with env := env' } : World).exec (Action.ofNat e.act)).now = env'.now := h1
    refine ⟨h1'.trans hnow, l, h2, fun r hr => ?_⟩
    rw [h3 r hr]
    exact h1'.symm
  · exact ⟨hnow, [], by simp, by simp⟩

/-- **The log is sorted by time** and lies in the past, in every reachable state; the queue
invariant of C01 holds. -/
theorem log_sorted_reachable_dyn {w0 w : World} (hf : Fresh w0) (he : C01.Inv w0.env)
    (hr : ReachableAny w0 w) :
    C01.Inv w.env ∧ (∀ r ∈ w.recs, Rec.time r ≤ w.now) ∧
    w.recs.Pairwise (fun a b => Rec.time a ≤ Rec.time b) := by
  obtain ⟨h1, h2, _⟩ := reach_key ctxAny (clsTrue _) (fun _ _ _ _ _ _ _ => trivial)
    (scriptsS_any w0) hf.2.2.1 trivial trivial hr
  exact TimeInv.drun h2 (TimeInv.step h1 (hf.timeInv he))

theorem clock_mono_step_dyn {w0 w w' : World} {e : Event} (hf : Fresh w0) (he : C01.Inv w0.env)
    (hr : ReachableAny w0 w) (h : w.step = some (e, w')) : w.now ≤ w'.now := by
  have hI := (log_sorted_reachable_dyn hf he hr).1
  obtain ⟨env', henv, _⟩ := step_cases h
  have := (records_stamped_now_dyn h).1
  rw [this]
  exact ((C01.step_clock hI henv).1 ▸ (C01.step_clock hI henv).2)

/-! ### 6. what is kept, what is created -/

theorem grows_world {w w' : World} (h : Grows (key w) (key w')) :
    w.devs.length ≤ w'.devs.length ∧ w.maints.length ≤ w'.maints.length ∧
    (∀ x, x < w.devs.length → (w'.dev x).kind = (w.dev x).kind ∧ (w'.dev x).val.init = (w.dev x).val.init) ∧
    (∀ m, m < w.maints.length → (w'.maint m).val.init = (w.maint m).val.init) := by
  obtain ⟨h1, h2, h3, h4⟩ := h
  refine ⟨by simpa using h1, by simpa [key] using h2, fun x hx => ?_, fun m hm => ?_⟩
  · have := h3 x (by simpa using hx)
    rw [key_dev, key_dev] at this
    exact this
  · have := h4 m (by simpa [key] using hm)
    rw [key_mval, key_mval] at this
    exact this

/-- The device and maintainer lists only grow; the kinds and starting values of the devices and
maintainers of the fresh world never change. -/
theorem devices_kept_dyn {w0 w : World} (hf : Fresh w0) (hr : ReachableAny w0 w) :
    w0.devs.length ≤ w.devs.length ∧ w0.maints.length ≤ w.maints.length ∧
    (∀ x, x < w0.devs.length → (w.dev x).kind = (w0.dev x).kind ∧ (w.dev x).val.init = (w0.dev x).val.init) ∧
    (∀ m, m < w0.maints.length → (w.maint m).val.init = (w0.maint m).val.init) :=
  grows_world (reach_grows ctxAny (clsTrue _) (fun _ _ _ _ _ _ _ => trivial) (scriptsS_any w0)
    hf.2.2.1 trivial trivial hr)

/-- Every reachable state has been started. -/
theorem started_reachable {w0 w : World} (hf : Fresh w0) (hr : ReachableAny w0 w) : w.started = true :=
  (reach_key ctxAny (clsTrue _) (fun _ _ _ _ _ _ _ => trivial) (scriptsS_any w0) hf.2.2.1 trivial
    trivial hr).2.2.2.2.2

/-- The same between any two states of a started world, one later than the other: a device keeps
its kind and its starting value from its creation on. -/
theorem later_kept_dyn {w w' : World} (hst : w.started = true) (hl : Later AAny w w') :
    w.devs.length ≤ w'.devs.length ∧ w.maints.length ≤ w'.maints.length ∧
    (∀ x, x < w.devs.length → (w'.dev x).kind = (w.dev x).kind ∧ (w'.dev x).val.init = (w.dev x).val.init) ∧
    (∀ m, m < w.maints.length → (w'.maint m).val.init = (w.maint m).val.init) :=
  grows_world (later_key ctxAny (clsTrue _) (fun _ _ _ _ _ _ _ => trivial) (scriptsS_any w) trivial
    trivial hst hl).1.grows

/-- **What a device constructor call appends** (on a started system): one device, whose observable
key is the payload's with the value bookkeeping reset (`value = init`, no history) — in particular
its kind and its starting value are the payload's; the keys of the existing devices are untouched. -/
theorem created_device_dyn (w : World) (d : Dev) (hst : w.started = true) :
    (w.applyOp (.create (.dev d))).1.devs.length = w.devs.length + 1 ∧
    dkey ((w.applyOp (.create (.dev d))).1.dev w.devs.length) = { dkey d with val := d.val.reset } ∧
    ∀ x, x < w.devs.length → dkey ((w.applyOp (.create (.dev d))).1.dev x) = dkey (w.dev x) := by
  show (w.addDev d).devs.length = _ ∧ dkey ((w.addDev d).dev _) = _ ∧
    ∀ x, x < w.devs.length → dkey ((w.addDev d).dev x) = _
  have h := key_devs_addDev w d hst
  have hl : (w.addDev d).devs.length = w.devs.length + 1 := by
    have := congrArg List.length h
    simpa using this
  have hg : ∀ x, dkey ((w.addDev d).dev x) =
      ((key w).devs ++ [{ dkey d with val := d.val.reset }]).getD x default := by
    intro x
    rw [← key_dev, WKey.dev, h]
  refine ⟨hl, ?_, fun x hx => ?_⟩
  · rw [hg, getD_append_one, if_pos (by simp)]
  · rw [hg, getD_append_one, if_neg (by simp; omega), ← key_dev]
    rfl

/-- **What the maintainer constructor appends**: a maintainer whose value and starting value are
the constructor's argument, with an empty history. -/
theorem created_maint_dyn (w : World) (cap : Option Int) (v : Int) :
    (w.applyOp (.create (.maint cap v))).1.maints.length = w.maints.length + 1 ∧
    ((w.applyOp (.create (.maint cap v))).1.maint w.maints.length).val = { init := v, value := v } ∧
    ∀ m, m < w.maints.length →
      ((w.applyOp (.create (.maint cap v))).1.maint m).val = (w.maint m).val := by
  show (w.addAsset (.maint cap v)).maints.length = _ ∧ ((w.addAsset (.maint cap v)).maint _).val = _ ∧
    ∀ m, m < w.maints.length → ((w.addAsset (.maint cap v)).maint m).val = _
  have hk : (key (w.addAsset (.maint cap v))).mvals = (key w).mvals ++ [{ init := v, value := v }] := by
    unfold addAsset
    dsimp only
    split
    · rw [key_initMaint_fresh _ _ (by rw [maint_append]; exact ⟨rfl, rfl⟩), key_addMaint]
    · rw [key_addMaint]
  have hl : (w.addAsset (.maint cap v)).maints.length = w.maints.length + 1 := by
    have := congrArg List.length hk
    simpa [key] using this
  have hg : ∀ m, ((w.addAsset (.maint cap v)).maint m).val =
      ((key w).mvals ++ [({ init := v, value := v } : AssetVal)]).getD m default := by
    intro m
    rw [← key_mval, WKey.mval, hk]
  refine ⟨hl, ?_, fun m hm => ?_⟩
  · rw [hg, getD_append_one, if_pos (by simp [key])]
  · rw [hg, getD_append_one, if_neg (by simp [key]; omega), ← key_mval]
    rfl

/-! ### the clauses of `devNew` are needed

A script that, at time 1, constructs one device from the record `d`; the world is then simulated. -/

/-- The world whose script 0 (scheduled for time 1) creates `d`. -/
def mkStale (d : Dev) : World :=
  (({ scripts := [[.create (.dev d)]] } : World).applyOp (.sched 1 0 0 pOtherLow)).1

/-- `System.simulate(5)` on it. -/
def runStale (d : Dev) : World := runLoop 50 ((mkStale d).simulateInit.runBegin 5).1

/-- `produced`: a "source" that claims to have supplied 5 parts has no record (this is
`C15W.supplied_count_create_false` in the present vocabulary). -/
theorem supplied_count_stale_false :
    Fresh (mkStale { kind := .source, produced := 5, maxParts := some 0 }) ∧
    ¬ ScriptsNew (mkStale { kind := .source, produced := 5, maxParts := some 0 }) ∧
    Reachable (mkStale { kind := .source, produced := 5, maxParts := some 0 })
      (runStale { kind := .source, produced := 5, maxParts := some 0 }) ∧
    ((runStale { kind := .source, produced := 5, maxParts := some 0 }).dev 0).produced = 5 ∧
    countSupplied (runStale { kind := .source, produced := 5, maxParts := some 0 }) 0 = 0 :=
  ⟨by decide, by decide, reachable_simulate 50 5 _, by decide +kernel, by decide +kernel⟩

/-- `level`: a buffer that claims to hold 3 parts has no `level` record. -/
theorem last_level_stale_false :
    Fresh (mkStale { kind := .buffer, level := 3 }) ∧ ¬ ScriptsNew (mkStale { kind := .buffer, level := 3 }) ∧
    ((runStale { kind := .buffer, level := 3 }).dev 0).level = 3 ∧
    lastLevel (runStale { kind := .buffer, level := 3 }).recs 0 = none ∧
    ¬ LevelInv (runStale { kind := .buffer, level := 3 }) := by
  refine ⟨by decide, by decide, by decide +kernel, by decide +kernel, fun h => ?_⟩
  have := h 0
  revert this
  decide +kernel

/-- `recvCount`: a sink that claims to have received 2 parts: nothing was delivered. -/
theorem received_count_stale_false :
    Fresh (mkStale { kind := .sink, recvCount := 2 }) ∧ ¬ ScriptsNew (mkStale { kind := .sink, recvCount := 2 }) ∧
    (((runStale { kind := .sink, recvCount := 2 }).devs.filter (fun d => d.kind == .sink)).map
      (·.recvCount)).sum = 2 ∧
    (runStale { kind := .sink, recvCount := 2 }).delivered.length = 0 :=
  ⟨by decide, by decide, by decide +kernel, by decide +kernel⟩

/-- A stale value bookkeeping in the payload (value 7 ≠ starting value 1, a forged history entry)
is NOT a problem: the payload is `devNew`, and the device that appears has been reset by its
initialisation. -/
def staleSrc : Dev :=
  { kind := .source, maxParts := some 0, val := { init := 1, value := 7, hist := [⟨9, 9, 9, 9⟩] } }

theorem stale_val_is_harmless :
    ScriptsNew (mkStale staleSrc) ∧
    ((runStale staleSrc).dev 0).val = { init := 1, value := 1, hist := [] } :=
  ⟨by decide, by decide +kernel⟩

/-! ### closed wiring is needed for the per-sink theorems -/

/-- A source whose downstream entry names device 1, which does not exist; script 0 (time 5) creates
a sink — which gets index 1. -/
def cexDangling : World :=
  let w : World := { scripts := [[.create (.dev { kind := .sink })]] }
  let w := w.addAsset (.dev { kind := .source, cycle := 2, maxParts := some 5, genValue := 2, down := [1] })
  (w.applyOp (.sched 5 0 0 pOtherLow)).1

/-- **The per-sink theorems are false without closed wiring**: the parts supplied at times 2 and 4
are handed to "device 1" (the model accepts: a missing device reads as an idle default handler) and
recorded as received by device 1; the sink created at time 5 under index 1 receives three parts but
finds five `received_part` records.  All other hypotheses hold; the general statements
(`received_count_reachable_dyn`, …) hold. -/
theorem received_per_sink_dangling_false :
    Fresh cexDangling ∧ ScriptsNew cexDangling ∧ ScriptsNB cexDangling ∧ NoBatch cexDangling ∧
    ¬ C02W.DynAuto cexDangling ∧
    Reachable cexDangling (runLoop 100 (cexDangling.simulateInit.runBegin 12).1) ∧
    ((runLoop 100 (cexDangling.simulateInit.runBegin 12).1).dev 1).kind = .sink ∧
    ((runLoop 100 (cexDangling.simulateInit.runBegin 12).1).dev 1).recvCount = 3 ∧
    countReceived (runLoop 100 (cexDangling.simulateInit.runBegin 12).1) 1 = 5 ∧
    ((runLoop 100 (cexDangling.simulateInit.runBegin 12).1).dev 1).recvValue = 6 ∧
    receivedValue (runLoop 100 (cexDangling.simulateInit.runBegin 12).1) 1 = 10 ∧
    (runLoop 100 (cexDangling.simulateInit.runBegin 12).1).delivered.length = 3 :=
  ⟨by decide, by decide, by decide, by decide, by decide, reachable_simulate 100 12 _,
   by decide +kernel, by decide +kernel, by decide +kernel, by decide +kernel, by decide +kernel,
   by decide +kernel⟩

/-- What remains true there (`received_count_offset_dyn`, `received_value_offset_dyn`): after five
steps the sink has just been created — counter 0, two stale records of value 2 each; at the end of
the run counter 3, five records: the differences (−2 and −4) have not changed. -/
def cexDanglingAt : World := runLoop 5 (cexDangling.simulateInit.runBegin 12).1

example : cexDanglingAt.devs.length = 2 ∧ (cexDanglingAt.dev 1).recvCount = 0 ∧
    countReceived cexDanglingAt 1 = 2 ∧ receivedValue cexDanglingAt 1 = 4 := by decide +kernel
example : ((runLoop 50 cexDanglingAt).dev 1).recvCount = 3 ∧ countReceived (runLoop 50 cexDanglingAt) 1 = 5 ∧
    ((runLoop 50 cexDanglingAt).dev 1).recvValue = 6 ∧ receivedValue (runLoop 50 cexDanglingAt) 1 = 10 := by
  decide +kernel
example : ((runLoop 50 cexDanglingAt).dev 1).recvCount - countReceived (runLoop 50 cexDanglingAt) 1 =
    (cexDanglingAt.dev 1).recvCount - countReceived cexDanglingAt 1 :=
  received_count_offset_dyn (by decide +kernel) (by decide +kernel) (by decide +kernel)
    (by decide +kernel) (.run 50 .refl) 1 (by decide +kernel) (by decide +kernel)

/-- No `need` function makes `cexDangling` a world with closed wiring. -/
theorem cexDangling_not_dyn (need : Nat → Nat) : ¬ C02W.Dyn need cexDangling :=
  fun h => received_per_sink_dangling_false.2.2.2.2.1 ((C02W.dynAuto_iff _).2 ⟨need, h⟩)

/-! ### non-vacuity -/

/-- A running line source 0 → sink 1, a resource pool, a maintenance target; script 0, run by an
event at time 4, constructs a second line — source 2 (3 parts of value 5, one every 2 time units)
→ buffer 3 (capacity 2, delay 1) → sink 4 — and a maintainer (value 50), and issues a work order
(cost 7) to the new maintainer. -/
def exD : World :=
  let w : World := { rm := { pools := [(0, 0, 1)] }, targets := [{ params := [(1, 2, 0, 7)] }],
                     scripts := [[.create (.dev { kind := .source, cycle := 2, maxParts := some 3, genValue := 5 }),
                                  .create (.dev { kind := .buffer, up := [2], cap := some 2, delay := 1 }),
                                  .create (.dev { kind := .sink, up := [3] }),
                                  .create (.maint none 50),
                                  .workOrder 0 0 1 0]] }
  let w := w.addAsset (.dev { kind := .source, cycle := 3, maxParts := some 2, genValue := 1 })
  let w := w.addAsset (.dev { kind := .sink, up := [0] })
  (w.applyOp (.sched 4 0 0 pOtherLow)).1

/-- `System.simulate(20)` on it. -/
def exDR : World := runLoop 300 (exD.simulateInit.runBegin 20).1

/-- The hypotheses hold — also those of the per-sink theorems (closed wiring, no batches) … -/
example : Fresh exD ∧ ScriptsNew exD ∧ ScriptsNB exD ∧ NoBatch exD ∧ ¬ NoCreate exD := by decide
example : C02W.Dyn (fun _ => 0) exD := by decide
example : ReachableWB (fun _ => 0) exD exDR := reachable_simulate 300 20 exD
example : C01.Inv exD.env := by
  have : exD.env =
      (({} : Env).applyAll Arith.exact [.sched 4 0 (Action.script 0).toNat pOtherLow 0]).1 := rfl
  rw [this]; exact C01.inv_reachable _ _

/-- … the run completes; two devices at the start, five at the end, one maintainer created … -/
example : exD.devs.length = 2 ∧ exD.maints.length = 0 ∧ exDR.error = none ∧ exDR.now = 20 ∧
    exDR.devs.length = 5 ∧ exDR.maints.length = 1 ∧ exDR.recs.length = 23 := by decide +kernel

/-- … and the conclusions are about non-trivial data of the CREATED devices: the new source
supplied three parts, … -/
example : (exDR.dev 2).kind = .source ∧ (exDR.dev 2).produced = 3 ∧ countSupplied exDR 2 = 3 := by
  decide +kernel
/-- … the new sink received them (value 15), besides the two parts of the old line, … -/
example : (exDR.dev 4).kind = .sink ∧ (exDR.dev 4).recvCount = 3 ∧ countReceived exDR 4 = 3 ∧
    (exDR.dev 4).recvValue = 15 ∧ receivedValue exDR 4 = 15 ∧ (exDR.dev 1).recvCount = 2 ∧
    exDR.delivered.length = 5 := by decide +kernel
/-- … the new buffer filled and emptied (six `level` records, the last one 0). -/
example : (exDR.dev 3).kind = .buffer ∧ lastLevel exDR.recs 3 = some 0 ∧ (exDR.dev 3).level = 0 ∧
    (exDR.recs.filter isLevel).length = 6 := by decide +kernel

/-- In the middle of the run (after 14 steps) the new buffer holds a part. -/
example : lastLevel (runLoop 14 (exD.simulateInit.runBegin 20).1).recs 3 = some 1 ∧
    ((runLoop 14 (exD.simulateInit.runBegin 20).1).dev 3).level = 1 := by decide +kernel

/-- The theorems applied to the example. -/
example : ∀ x, (exDR.dev x).produced = countSupplied exDR x :=
  supplied_count_reachable_dyn (by decide) (by decide) (reachable_simulate 300 20 exD)
example : LevelInv exDR :=
  last_level_reachable_dyn (by decide) (by decide) (reachable_simulate 300 20 exD)
example : (exDR.dev 4).recvCount = countReceived exDR 4 :=
  received_count_per_sink_dyn (need := fun _ => 0) (by decide) (by decide) (by decide) (by decide)
    (by decide) (reachable_simulate 300 20 exD) 4 (by decide +kernel)
example : (exDR.dev 4).recvValue = receivedValue exDR 4 :=
  received_value_reachable_dyn (need := fun _ => 0) (by decide) (by decide) (by decide)
    (reachable_simulate 300 20 exD) 4 (by decide +kernel)

/-- An operation issued from outside after the run constructs one more sink behind source 0; the
state is reachable (`Reach.ops`), the theorems apply to it. -/
def exDR2 : World := exDR.applyOps [.create (.dev { kind := .sink, up := [0] })]

example : ReachableWB (fun _ => 0) exD exDR2 :=
  Reach.ops _ (reachable_simulate 300 20 exD) (by decide +kernel)
example : exDR2.devs.length = 6 ∧ (exDR2.dev 5).kind = .sink ∧ (exDR2.dev 0).down = [1, 5] := by
  decide +kernel
example : (exDR2.dev 5).recvCount = countReceived exDR2 5 :=
  received_count_per_sink_dyn (need := fun _ => 0) (by decide) (by decide) (by decide) (by decide)
    (by decide) (Reach.ops _ (reachable_simulate 300 20 exD) (by decide +kernel)) 5 (by decide +kernel)

/-- What the constructor call of the script appended (`created_device_dyn` on the world in which the
script starts: started, two devices). -/
example : (exD.simulateInit).started = true ∧
    dkey (((exD.simulateInit).applyOp (.create (.dev { kind := .source, cycle := 2, maxParts := some 3, genValue := 5 }))).1.dev 2) =
      dkey { kind := .source, cycle := 2, maxParts := some 3, genValue := 5 } :=
  ⟨by decide, (created_device_dyn _ _ (by decide)).2.1⟩

/-- One step of the event loop that creates: the event at time 4 runs script 0; three devices and a
maintainer appear, the record of the step (the work order entering the queue) is stamped 4. -/
example : ∃ e w', (runLoop 2 (exD.simulateInit.runBegin 20).1).step = some (e, w') ∧ w'.now = 4 ∧
    (runLoop 2 (exD.simulateInit.runBegin 20).1).devs.length = 2 ∧
    w'.devs.length = 5 ∧ w'.maints.length = 1 ∧ w'.recs.map Rec.time = [0, 3, 3, 4] := by
  refine ⟨_, _, rfl, ?_⟩
  decide +kernel

end C15D
end SimProc
