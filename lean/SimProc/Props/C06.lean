/-
C06 — cycle times are honoured across interruptions.

"Every part accepted by a handler or processor is released from processing after exactly the cycle
time in effect when it was accepted (one-shot offsets included, floored at zero) of operational
time: maintenance shutdown time is added on top, a failure ends processing by losing the part."

All theorems are about `SimProc/Model/Floor.lean` for an ARBITRARY world `w` and device index `x`;
the statements about the event queue are composed with the environment theorems of
`SimProc/Props/C07.lean` (`remaining_delay_preserved`, `cancelled_never_runs`, `pause_withholds`).

The chain of statements: `accept_schedules_finish` (accepting a part inserts exactly one finish
event at `now + max 0 (cycle + offset)`, cycle and offset as the receive callbacks left them, and
consumes the offset) — `maintenance_pauses_timer` / `timer_paused_while_down` /
`restore_preserves_remaining_delay` / `maintenance_adds_downtime` (the event is withheld while the
machine is down and comes back with its remaining delay, i.e. shifted by exactly the down time) —
`fail_cancels_timer` / `failed_timer_never_runs` (after a failure it never runs) —
`finish_releases_part` (when it runs, the part moves to the output slot and a pass-part event is
scheduled).
-/
import SimProc.Proofs.C13Lemmas
import SimProc.Props.C13

namespace SimProc
namespace C06
open World FloorCoreL

/-! ### f. `_schedule_finish_cycle` -/

/-- The delay used by `_schedule_finish_cycle`: cycle time plus one-shot offset, floored at 0. -/
theorem finishDelay_eq (w : World) (x : Nat) :
    w.finishDelay x = max 0 (w.cycleTime x + (w.dev x).offset) := finishDelay_eq_max w x

/-- `_schedule_finish_cycle` with a positive delay `c = max 0 (cycle_time + offset)`: the world
afterwards is the old one with the offset reset to 0 and with the environment that results from
ONE accepted `schedule_event(now + c, id, _finish_cycle, FINISH_PROCESSING)` (the request is never
in the past, so no error is raised); nothing else changes — in particular the part stays in
process. -/
theorem scheduleFinish_spec_pos (w : World) (x : Nat)
    (hc : 0 < max 0 (w.cycleTime x + (w.dev x).offset)) :
    let c := max 0 (w.cycleTime x + (w.dev x).offset)
    let op := EnvOp.sched (w.now + c) (w.dev x).aid (Action.finishCycle x).toNat pFinish
      (weightOf w.seed w.wmod (w.now + c) (w.dev x).aid (Action.finishCycle x).toNat pFinish)
    w.scheduleFinish x =
      { w.setDev x { w.dev x with offset := 0 } with env := (w.env.apply Arith.exact op).1 } ∧
    (w.env.apply Arith.exact op).2 = .ok := by
  intro c op
  have hc' : 0 < w.finishDelay x := by rw [finishDelay_eq]; exact hc
  have hcc : c = w.finishDelay x := (finishDelay_eq w x).symm
  have hle : w.now ≤ w.now + c := by omega
  have h2 := schedLib_ok_env (w.setDev x { w.dev x with offset := 0 }) (w.now + c) (w.dev x).aid
    (.finishCycle x) pFinish hle
  refine ⟨?_, h2.2⟩
  rw [scheduleFinish_pos w x hc', ← hcc]
  have h1 := schedLib_ok (w.setDev x { w.dev x with offset := 0 }) (w.now + c) (w.dev x).aid
    (.finishCycle x) pFinish hle
  rw [h1]
  have h3 := h2.1
  rw [h1] at h3
  exact with_env_congr rfl h3

/-- Consequences of `scheduleFinish_spec_pos` for the device itself. -/
theorem scheduleFinish_pos_dev (w : World) {x : Nat} (hx : x < w.devs.length)
    (hc : 0 < max 0 (w.cycleTime x + (w.dev x).offset)) :
    (w.scheduleFinish x).dev x = { w.dev x with offset := 0 } ∧
    (w.scheduleFinish x).error = w.error ∧ (w.scheduleFinish x).recs = w.recs := by
  rw [(scheduleFinish_spec_pos w x hc).1]
  exact ⟨dev_setDev_same hx, rfl, rfl⟩

/-- `_schedule_finish_cycle` with delay zero (`cycle_time + offset ≤ 0`): the offset is reset and
the cycle is finished at once, in the same event. -/
theorem scheduleFinish_spec_nonpos (w : World) (x : Nat)
    (hc : max 0 (w.cycleTime x + (w.dev x).offset) ≤ 0) :
    w.scheduleFinish x = (w.setDev x { w.dev x with offset := 0 }).finishCycle x :=
  scheduleFinish_nonpos w x (by rw [finishDelay_eq]; exact hc)

/-! ### g. shutdown pauses, failure cancels, restore resumes the device's timer -/

/-- A maintenance shutdown of an operational machine applies exactly
`pause_matching_events(asset_id = id)` to the environment; on a machine that is already down it
leaves the environment alone. -/
theorem maintenance_pauses_timer (w : World) {x : Nat} (hx : x < w.devs.length) :
    (w.shutdownDev x false none).env =
      if (w.dev x).shutDown then w.env
      else (w.env.apply Arith.exact (.pause (w.dev x).aid)).1 := by
  rw [shutdownDev_env w false none hx]
  cases (w.dev x).shutDown <;> simp [Env.apply]

/-- By `C07.pause_withholds` / `pause_paused` / `pause_keeps_order`: while the machine is down for
maintenance none of its events is pending — in particular its finish event cannot fire —, each of
them waits in the paused list stamped with the time of the shutdown, and the events of all other
assets stay pending in their order. -/
theorem timer_paused_while_down (w : World) {x : Nat} (hx : x < w.devs.length)
    (hs : (w.dev x).shutDown = false) :
    (∀ e, e ∈ (w.shutdownDev x false none).env.events ↔ e ∈ w.env.events ∧ e.asset ≠ (w.dev x).aid) ∧
    (∀ e ∈ w.env.events, e.asset = (w.dev x).aid →
      { e with pausedAt := some w.now } ∈ (w.shutdownDev x false none).env.paused) ∧
    (w.shutdownDev x false none).env.events.Sublist w.env.events ∧
    (w.shutdownDev x false none).env.now = w.env.now := by
  rw [maintenance_pauses_timer w hx]
  simp only [hs, Bool.false_eq_true, if_false, Env.apply]
  refine ⟨fun e => C07.pause_withholds w.env _ e, ?_, C07.pause_keeps_order w.env _, rfl⟩
  intro e he ha
  rw [C07.pause_paused]
  refine List.mem_append.mpr (Or.inr (List.mem_map.mpr ⟨e, List.mem_filter.mpr ⟨he, ?_⟩, rfl⟩))
  simpa using ha

/-- `_shutdown(True, lost)` applies exactly `cancel_matching_events(asset_id = id)` to the
environment, unless the machine is already down and nothing is lost. -/
theorem failure_cancels_timer (w : World) {x : Nat} (lost : Option Nat) (hx : x < w.devs.length) :
    (w.shutdownDev x true lost).env =
      if (w.dev x).shutDown && lost.isNone then w.env
      else (w.env.apply Arith.exact (.cancel (w.dev x).aid)).1 := by
  rw [shutdownDev_env w true lost hx]
  cases (w.dev x).shutDown <;> cases lost <;> simp [Env.apply]

/-- `_fail()`: giving back the reserved resources may schedule the resource manager's check (the
environment `failMid` only grows: same clock, same paused events, old queue a sub-list of the new
one); then exactly `cancel_matching_events(asset_id = id)` is applied — unless the machine was
already down with no part in process, when nothing is cancelled. -/
theorem fail_cancels_timer (w : World) {x : Nat} (hx : x < w.devs.length) :
    (w.failDev x).env =
      (if (w.dev x).shutDown && (w.dev x).part.isNone then (w.failMid x).env
       else ((w.failMid x).env.apply Arith.exact (.cancel (w.dev x).aid)).1) ∧
    EnvGrows w.env (w.failMid x).env := by
  refine ⟨?_, failMid_envGrows w x⟩
  rw [failDev_env w hx]
  rfl

/-- After the failure of a machine that was operational or had a part in process, every pending
or paused event of the machine is cancelled — in particular the finish event of the lost part —,
and every event of the machine that existed before is still there, cancelled. -/
theorem fail_cancels_all (w : World) {x : Nat} (hx : x < w.devs.length)
    (h : (w.dev x).shutDown = false ∨ (w.dev x).part.isSome = true) :
    (∀ e ∈ (w.failDev x).env.events ++ (w.failDev x).env.paused,
      e.asset = (w.dev x).aid → e.cancelled = true) ∧
    (∀ e ∈ w.env.events, e.asset = (w.dev x).aid →
      { e with cancelled := true } ∈ (w.failDev x).env.events) ∧
    (∀ e ∈ w.env.paused, e.asset = (w.dev x).aid →
      { e with cancelled := true } ∈ (w.failDev x).env.paused) := by
  have hc : ((w.dev x).shutDown && (w.dev x).part.isNone) = false := by
    rcases h with h | h
    · simp [h]
    · cases hp : (w.dev x).part <;> simp [hp] at h ⊢
  have hg := failMid_envGrows w x
  rw [(fail_cancels_timer w hx).1, hc]
  simp only [Bool.false_eq_true, if_false, Env.apply]
  refine ⟨?_, ?_, ?_⟩
  · intro e he ha
    simp only [Env.cancel, ← List.map_append] at he
    obtain ⟨e0, _, rfl⟩ := List.mem_map.mp he
    have ha' : e0.asset = (w.dev x).aid := by simpa using ha
    exact (C07.cancelIf_spec _ e0).1 ha'
  · intro e he ha
    have he' := hg.mem he
    simp only [Env.cancel]
    refine List.mem_map.mpr ⟨e, he', ?_⟩
    simp [Event.cancelIf, ha]
  · intro e he ha
    simp only [Env.cancel, hg.2.1]
    refine List.mem_map.mpr ⟨e, he, ?_⟩
    simp [Event.cancelIf, ha]

/-- By `C07.cancelled_never_runs`: the next step after such a failure does not run an event of
the machine (it reports it as skipped) … -/
theorem failed_timer_never_runs (w : World) {x : Nat} (hx : x < w.devs.length)
    (h : (w.dev x).shutDown = false ∨ (w.dev x).part.isSome = true) (ar : Arith) (e : Event)
    (hr : ((w.failDev x).env.apply ar .step).2 = .ran e) : e.asset ≠ (w.dev x).aid := by
  intro ha
  have hlive := C07.cancelled_never_runs ar _ e hr
  have hmem : e ∈ (w.failDev x).env.events := by
    cases hs : (w.failDev x).env.step with
    | none => rw [apply_step_none ar hs] at hr; cases hr
    | some p =>
      obtain ⟨e1, s'⟩ := p
      rw [apply_step_some ar hs] at hr
      obtain ⟨es, heq, _⟩ := Env.step_some.mp hs
      by_cases hl : e1.live = true
      · simp only [hl, if_true] at hr
        cases hr
        simp [heq]
      · simp [hl] at hr
  have := (fail_cancels_all w hx h).1 e (List.mem_append.mpr (Or.inl hmem)) ha
  rw [hlive] at this
  cases this

/-- … and, by `C07.cancelled_stays` and the uniqueness of uids (`C01.Inv`), neither does any later
step, whatever sequence of environment operations follows (restores, new parts, other machines'
events, …): no event of the machine that existed at the failure ever has its action run. -/
theorem failed_timer_never_runs_later (w : World) {x : Nat} (hx : x < w.devs.length)
    (h : (w.dev x).shutDown = false ∨ (w.dev x).part.isSome = true)
    (hinv : C01.Inv (w.failDev x).env) (ar : Arith) (ops : List EnvOp) (e : Event)
    (hr : EnvOut.ran e ∈ ((w.failDev x).env.applyAll ar ops).2) :
    ∀ e0 ∈ (w.failDev x).env.events ++ (w.failDev x).env.paused,
      e0.asset = (w.dev x).aid → e.uid ≠ e0.uid := by
  intro e0 he0 ha hu
  have hc := (fail_cancels_all w hx h).1 e0 he0 ha
  apply cancelled_uid_never_runs ar ops hinv e hr
  unfold C07.cancelledUids
  exact List.mem_map.mpr ⟨e0, List.mem_filter.mpr ⟨he0, hc⟩, hu.symm⟩

/-- `restore_functionality()` of a machine that is down applies exactly
`unpause_matching_events(asset_id = id)` and then lets the flow part (`restoreFlow`: schedule the
hand-over of a finished part, or notify upstream if the machine is empty) schedule what it
schedules: the environment only grows after the unpause.  If a part is in process and the output
slot is empty, nothing is scheduled: the environment is exactly the unpaused one. -/
theorem restore_resumes_timer (w : World) (x : Nat) (hs : (w.dev x).shutDown = true) :
    (w.restoreDev x).env = ((w.restorePre x).restoreFlow x).env ∧
    (w.restorePre x).env = (w.env.apply Arith.exact (.unpause (w.dev x).aid)).1 ∧
    EnvGrows (w.env.apply Arith.exact (.unpause (w.dev x).aid)).1 (w.restoreDev x).env ∧
    ((w.dev x).part.isSome = true → (w.dev x).output = none →
      (w.restoreDev x).env = (w.env.apply Arith.exact (.unpause (w.dev x).aid)).1) := by
  refine ⟨restoreDev_env w x hs, rfl, ?_, ?_⟩
  · rw [restoreDev_env w x hs]
    exact restoreFlow_envGrows _ _
  · intro hp ho
    exact restoreDev_env_busy w hs ho hp

/-- By `C07.remaining_delay_preserved`: when the machine is restored, every paused event of the
machine — in particular the finish event of the part in process — is pending again with exactly
the delay that remained when it was paused (same uid, action, priority, cancellation flag). -/
theorem restore_preserves_remaining_delay (w : World) (x : Nat)
    (hs : (w.dev x).shutDown = true) (hP : C07.PInv w.env) :
    ∀ e ∈ w.env.paused, e.asset = (w.dev x).aid → ∃ p, e.pausedAt = some p ∧
      ∃ e' ∈ (w.restoreDev x).env.events,
        e'.uid = e.uid ∧ e'.act = e.act ∧ e'.asset = e.asset ∧ e'.prio = e.prio ∧
        e'.cancelled = e.cancelled ∧ e'.time - w.now = e.time - p := by
  intro e he ha
  obtain ⟨p, hp, e', he', h'⟩ := C07.remaining_delay_preserved w.env _ hP e he ha
  exact ⟨p, hp, e', (restore_resumes_timer w x hs).2.2.1.mem he', h'⟩

/-- Maintenance time is added on top: an event of the machine that is pending (due at `e.time`)
when the operational machine is shut down for maintenance at time `w.now` is paused with that
stamp; and in ANY later world `w'` in which it is still paused, the machine is still down and the
pause bookkeeping invariant of C07 holds (it holds in every reachable environment,
`C07.pinv_reachable`), the restoration makes it pending again, due at
`e.time + (w'.now − w.now)`: shifted by exactly the length of the down time. -/
theorem maintenance_adds_downtime (w : World) {x : Nat} (hx : x < w.devs.length)
    (hs : (w.dev x).shutDown = false) (e : Event) (he : e ∈ w.env.events)
    (ha : e.asset = (w.dev x).aid) :
    { e with pausedAt := some w.now } ∈ (w.shutdownDev x false none).env.paused ∧
    ∀ w' : World, (w'.dev x).shutDown = true → (w'.dev x).aid = (w.dev x).aid →
      C07.PInv w'.env → { e with pausedAt := some w.now } ∈ w'.env.paused →
      ∃ e' ∈ (w'.restoreDev x).env.events,
        e'.uid = e.uid ∧ e'.act = e.act ∧ e'.asset = e.asset ∧ e'.cancelled = e.cancelled ∧
        e'.time = e.time + (w'.now - w.now) := by
  refine ⟨(timer_paused_while_down w hx hs).2.1 e he ha, ?_⟩
  intro w' hs' haid hP hmem
  obtain ⟨p, hp, e', he', h1, h2, h3, _, h5, h6⟩ :=
    restore_preserves_remaining_delay w' x hs' hP _ hmem (by rw [haid]; exact ha)
  simp only [Option.some.injEq] at hp
  subst hp
  exact ⟨e', he', h1, h2, h3, h5, by simp only at h6; omega⟩

/-! ### h. the offset is one-shot -/

/-- The one-shot offset is consumed by the cycle it is applied to: after `_schedule_finish_cycle`
of a processor the offset is 0 if a finish event was scheduled; if the cycle was finished at once
(delay 0) it is exactly the sum of the offsets the finish callbacks of THIS cycle requested for
the next one (they run iff a part is in the output slot afterwards), never the old offset. -/
theorem offset_one_shot (w : World) {x : Nat} (hk : (w.dev x).kind = .processor) :
    ((w.scheduleFinish x).dev x).offset =
      if 0 < max 0 (w.cycleTime x + (w.dev x).offset) then 0
      else if ((w.scheduleFinish x).dev x).output.isSome
        then ((w.dev x).finCbs.map PartCb.offset).sum else 0 := by
  have hx := lt_of_processor hk
  split
  · next hc => rw [(scheduleFinish_pos_dev w hx hc).1]
  · next hc =>
    have hc' : max 0 (w.cycleTime x + (w.dev x).offset) ≤ 0 := Int.not_lt.1 hc
    rw [scheduleFinish_spec_nonpos w x hc']
    have hk0 : ((w.setDev x { w.dev x with offset := 0 }).dev x).kind = .processor := by
      rw [dev_setDev_same hx]; exact hk
    rw [finishCycle_proc_offset _ hk0, dev_setDev_same hx]
    simp

/-- In particular: without finish callbacks that set an offset, the offset is 0 after every
`_schedule_finish_cycle`. -/
theorem offset_one_shot_plain (w : World) {x : Nat} (hk : (w.dev x).kind = .processor)
    (h0 : ∀ c ∈ (w.dev x).finCbs, c.offset = 0) : ((w.scheduleFinish x).dev x).offset = 0 := by
  rw [offset_one_shot w hk]
  have : ((w.dev x).finCbs.map PartCb.offset).sum = 0 := by
    generalize (w.dev x).finCbs = l at h0
    induction l with
    | nil => rfl
    | cons c cs ih =>
      rw [List.map_cons, List.sum_cons, h0 c (by simp), ih (fun c hc => h0 c (by simp [hc]))]
      rfl
  split
  · rfl
  · split
    · exact this
    · rfl

/-! ### accepting a part starts exactly one timer -/

/-- The delay of the cycle that starts with accepting part `p`: the cycle time and offset in
effect after the receive callbacks ran (`recvDev`), floored at zero. -/
theorem acceptDelay_spec (w : World) {x : Nat} (p : Nat) (hx : x < w.devs.length)
    (hk : (w.dev x).kind = .processor ∨ (w.dev x).kind = .handler) :
    w.acceptDelay x p = max 0 ((recvDev p (w.dev x)).cycle + (recvDev p (w.dev x)).offset) :=
  acceptDelay_eq w p hx hk

/-- A handler or processor that accepts part `p` (it is operational, unblocked, both slots empty)
with a positive delay `c` schedules EXACTLY ONE event: the finish event of the device, due at
`now + c`, live and not paused; the clock, the paused events and all pending events are as before.
The device then has the part in process, an empty output slot, offset 0 (consumed), and — a
processor — its utilisation interval open since now. -/
theorem accept_schedules_finish (w : World) {x : Nat} (p : Nat) (hx : x < w.devs.length)
    (hk : (w.dev x).kind = .processor ∨ (w.dev x).kind = .handler)
    (hacc : w.canAcceptBasic x p = true) (hc : 0 < w.acceptDelay x p) :
    (w.acceptPart x p).env =
      { w.env with
        events := insort
          { uid := w.env.nextUid
            time := w.now + w.acceptDelay x p
            prio := pFinish
            weight := weightOf w.seed w.wmod (w.now + w.acceptDelay x p) (w.dev x).aid
              (Action.finishCycle x).toNat pFinish
            asset := (w.dev x).aid
            act := (Action.finishCycle x).toNat
            pausedAt := none
            cancelled := false } w.env.events
        nextUid := w.env.nextUid + 1 } ∧
    ((w.acceptPart x p).dev x).part = some p ∧
    ((w.acceptPart x p).dev x).output = none ∧
    ((w.acceptPart x p).dev x).offset = 0 ∧
    ((w.dev x).kind = .processor → ((w.acceptPart x p).dev x).lastUseStart = some w.now) ∧
    (w.acceptPart x p).error = w.error := by
  obtain ⟨_, _, ho0⟩ := canAccept_fields w hk hacc
  have hlen := (acceptPre_frame w x p).2.2.2
  have hx1 : x < (w.acceptPre x p).devs.length := by rw [hlen]; exact hx
  rw [acceptPart_pos w p hx hk hacc hc]
  refine ⟨rfl, ?_, ?_, ?_, ?_, ?_⟩
  · show (((w.acceptPre x p).setDev x _).dev x).part = _
    rw [dev_setDev_same hx1]
    exact recvDev_field Dev.part (fun _ _ _ => rfl) p (w.dev x)
  · show (((w.acceptPre x p).setDev x _).dev x).output = _
    rw [dev_setDev_same hx1]
    exact (recvDev_field Dev.output (fun _ _ _ => rfl) p (w.dev x)).trans ho0
  · show (((w.acceptPre x p).setDev x _).dev x).offset = _
    rw [dev_setDev_same hx1]
  · intro hkp
    show (((w.acceptPre x p).setDev x _).dev x).lastUseStart = _
    rw [dev_setDev_same hx1]
    simp [hkp]
  · show (w.acceptPre x p).error = _
    unfold acceptPre
    dsimp only
    rw [foldl_preserve World.error _ _ _ (fun (w : World) c => applyPartCb_error w x p c)]
    show (((w.modDev x _).addHist p x).setWaiting x false false).error = _
    have : ∀ (w : World) a b, (w.setWaiting x a b).error = w.error := by
      intro w a b
      unfold setWaiting
      dsimp only
      repeat' split
      all_goals rfl
    rw [this, addHist_error, modDev_error]

/-- With delay 0 a processor finishes the accepted part in the same event: it is in the output
slot at once, the input slot is empty again, the utilisation interval is closed. -/
theorem accept_finishes_at_once (w : World) {x : Nat} (p : Nat)
    (hk : (w.dev x).kind = .processor) (hacc : w.canAcceptBasic x p = true)
    (hc : w.acceptDelay x p ≤ 0) :
    ((w.acceptPart x p).dev x).output = some p ∧ ((w.acceptPart x p).dev x).part = none ∧
    ((w.acceptPart x p).dev x).lastUseStart = none := by
  obtain ⟨_, _, ho0⟩ := canAccept_fields w (Or.inl hk) hacc
  have hd : decide (0 < w.acceptDelay x p) = false := by simpa using hc
  have key : ∀ {α} (g : Dev → α), (∀ d, g d.core = g d) →
      (∀ d cy o, g { d with cycle := cy, offset := o } = g d) →
      g ((w.acceptPart x p).dev x) =
        g (finDev w.now true { w.dev x with part := some p, lastUseStart := some w.now }) := by
    intro α g h1 h2
    rw [acceptPart_proc_field' g h1 h2 w p hk hacc, hd]
    rfl
  refine ⟨?_, ?_, ?_⟩
  · rw [key Dev.output (fun _ => rfl) (fun _ _ _ => rfl)]
    simp [finDev, finH, ho0]
  · rw [key Dev.part (fun _ => rfl) (fun _ _ _ => rfl)]
    simp [finDev, finH, ho0]
  · rw [key Dev.lastUseStart (fun _ => rfl) (fun _ _ _ => rfl)]
    simp [finDev]

/-! ### when the finish event runs, the part is released from processing -/

/-- `_finish_cycle` of an operational processor with part `p` in process and a free output slot:
the part moves to the output slot (released from processing), the utilisation interval is closed,
the machine stays operational, and a pass-part event of the machine, due now, is in the queue (its
action hands the part downstream). -/
theorem finish_releases_part (w : World) {x p : Nat} (hk : (w.dev x).kind = .processor)
    (hs : (w.dev x).shutDown = false) (hp : (w.dev x).part = some p)
    (ho : (w.dev x).output = none) :
    ((w.finishCycle x).dev x).output = some p ∧ ((w.finishCycle x).dev x).part = none ∧
    ((w.finishCycle x).dev x).lastUseStart = none ∧
    ((w.finishCycle x).dev x).shutDown = false ∧
    ∃ e ∈ (w.finishCycle x).env.events,
      e.act = (Action.passPart x).toNat ∧ e.asset = (w.dev x).aid ∧
      e.time = (if w.now < 0 then 0 else w.now) ∧ e.prio = pPassPart ∧ e.cancelled = false ∧
      e.pausedAt = none := by
  have hop : w.operational x = true := by simp [operational, hk, hs]
  refine ⟨?_, ?_, ?_, ?_, finishCycle_proc_pass_event w hk hs hp ho⟩
  · rw [finishCycle_proc_field Dev.output (fun _ => rfl) (fun _ _ _ => rfl) w hk]
    simp [finDev, finH, hop, hp, ho]
  · rw [finishCycle_proc_field Dev.part (fun _ => rfl) (fun _ _ _ => rfl) w hk]
    simp [finDev, finH, hop, hp, ho]
  · rw [finishCycle_proc_field Dev.lastUseStart (fun _ => rfl) (fun _ _ _ => rfl) w hk]
    simp [finDev]
  · rw [finishCycle_proc_field Dev.shutDown (fun _ => rfl) (fun _ _ _ => rfl) w hk]
    simp [finDev, finH, hop, hp, ho, hs]

/-- The same for a plain handler (which is always operational): `_finish_cycle` moves the part to
the output slot and schedules the hand-over, nothing else. -/
theorem finish_releases_part_handler (w : World) {x p : Nat} (hk : (w.dev x).kind = .handler)
    (hp : (w.dev x).part = some p) (ho : (w.dev x).output = none) :
    w.finishCycle x =
      (w.setDev x { w.dev x with output := some p, part := none }).schedulePass x 0 := by
  have hop : w.operational x = true := by simp [operational, hk]
  have h : w.finishCycle x = w.finishCycleHandler x := by
    unfold finishCycle; simp only [hk]
  rw [h]
  exact finishCycleHandler_ok w hop hp ho

/-! ### non-vacuity -/

open C13 (exW exIdle exProc exSink advance)

-- f./accept: the idle machine (cycle time 5) accepts part 0 at time 3: delay 5, one finish event
-- due at 8, offset consumed, part in process
example : exIdle.canAcceptBasic 0 0 = true ∧ exIdle.acceptDelay 0 0 = 5 ∧
    (exIdle.acceptPart 0 0).env.events.map (fun e => (e.uid, e.time, e.asset, e.act, e.prio)) =
      [(0, 8, 1, (Action.finishCycle 0).toNat, pFinish)] ∧
    ((exIdle.acceptPart 0 0).dev 0).part = some 0 := by decide

/-- The idle machine with a one-shot offset of −2 and a receive callback that sets the cycle time
to 9 and adds +1 to the offset: the cycle that starts now lasts `max 0 (9 + (−2 + 1)) = 8`. -/
def exOff : World :=
  { exIdle with
    devs := [{ exProc with
               part := none, lastUseStart := none, offset := -2
               recvCbs := [{ setCycle := some 9, offset := 1 }] }, exSink] }

example : exOff.acceptDelay 0 0 = 8 ∧
    (exOff.acceptPart 0 0).env.events.map (fun e => e.time) = [11] ∧
    ((exOff.acceptPart 0 0).dev 0).offset = 0 ∧ ((exOff.acceptPart 0 0).dev 0).cycle = 9 := by
  decide

/-- The idle machine with offset −7 (delay `max 0 (5 − 7) = 0`) and a finish callback that asks
for an offset of 2 for the NEXT cycle: the part is finished at once, and the offset afterwards is
2 — so "the offset is 0 after every `_schedule_finish_cycle`" is false as it stands;
`offset_one_shot` is the true statement. -/
def exZero : World :=
  { exIdle with
    devs := [{ exProc with
               part := none, lastUseStart := none, offset := -7
               finCbs := [{ offset := 2 }] }, exSink] }

example : exZero.acceptDelay 0 0 = 0 ∧ ((exZero.acceptPart 0 0).dev 0).output = some 0 ∧
    ((exZero.acceptPart 0 0).dev 0).part = none ∧ ((exZero.acceptPart 0 0).dev 0).offset = 2 ∧
    (exZero.acceptPart 0 0).env.events.map (fun e => (e.time, e.act)) =
      [(3, (Action.passPart 0).toNat)] := by decide

-- g. maintenance: the finish event due at 7 is paused at 3, nothing of the machine is pending;
-- restored at 10 it is due at 14 = 7 + (10 − 3)
example : (exW.shutdownDev 0 false none).env.events = [] ∧
    (exW.shutdownDev 0 false none).env.paused.map (fun e => (e.uid, e.time, e.pausedAt)) =
      [(0, 7, some 3)] ∧
    ((advance (exW.shutdownDev 0 false none) 10).restoreDev 0).env.events.map
      (fun e => (e.uid, e.time, e.pausedAt)) = [(0, 14, some 3)] := by decide

-- the hypotheses of `maintenance_adds_downtime` / `restore_preserves_remaining_delay` hold there
example : C07.PInv (advance (exW.shutdownDev 0 false none) 10).env := by
  intro e he
  have : e = { C13.exEv with pausedAt := some 3 } := by
    have h : (advance (exW.shutdownDev 0 false none) 10).env.paused =
        [{ C13.exEv with pausedAt := some 3 }] := by decide
    rw [h] at he; simpa using he
  subst this
  exact ⟨3, rfl, by decide, by decide⟩

-- failure: the finish event is cancelled and the next step skips it; the invariant needed by
-- `failed_timer_never_runs_later` holds
example : (exW.failDev 0).env.events.map (fun e => (e.uid, e.cancelled)) = [(0, true)] ∧
    ((exW.failDev 0).env.apply Arith.exact .step).2 =
      .skipped { C13.exEv with cancelled := true } := by decide

example : C01.Inv (exW.failDev 0).env :=
  ⟨by unfold SortedEv; decide, by decide, by decide, by decide⟩

-- F6 repair: a failure during a maintenance shutdown cancels the PAUSED finish event, so the
-- restoration does not resume the processing of the lost part
example : ((exW.shutdownDev 0 false none).failDev 0).env.paused.map (fun e => (e.uid, e.cancelled)) =
      [(0, true)] ∧
    ((((advance ((exW.shutdownDev 0 false none).failDev 0) 10).restoreDev 0).env.apply Arith.exact
      .step).2 = .skipped { C13.exEv with pausedAt := some 3, cancelled := true, time := 14 }) := by
  decide

-- when the finish event runs (time 7) the part moves to the output slot and a pass-part event is
-- scheduled
example : (((advance exW 7).finishCycle 0).dev 0).output = some 0 ∧
    (((advance exW 7).finishCycle 0).dev 0).part = none ∧
    ((advance exW 7).finishCycle 0).env.events.map (fun e => (e.time, e.act)) =
      [(7, (Action.finishCycle 0).toNat), (7, (Action.passPart 0).toNat)] := by decide

end C06
end SimProc
