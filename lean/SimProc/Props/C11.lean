/-
C11 — resources of a processor: acquired atomically on acceptance, held while a part is in
process, given back on failure and when idle, kept through maintenance; pool usage is the sum of
the holdings of the processors that hold reservations.

All theorems are about the functions of `SimProc/Model/Floor.lean` on an ARBITRARY world `w`
(no reachability assumption); what is assumed of the resource manager is the invariant `C09.Inv`
(proved for every sequence of manager operations in `Props/C09.lean`) and, of the declared
request, that it is a dictionary with non-negative amounts.
-/
import SimProc.Proofs.C11Lemmas
import SimProc.Props.C09
import SimProc.Props.C01

namespace SimProc
namespace C11
open World FloorCoreL

/-- The positive entries of a request: what a reservation made for it holds. -/
def pos (req : Req) : Req := req.filter (fun p => p.2 > 0)

/-- Processor `x` holds a reservation whose holdings are exactly the positive entries of `req`. -/
def Holding (w : World) (x : Nat) (req : Req) : Prop :=
  ∃ id, (w.dev x).reserved = some id ∧ w.rm.held id = some (pos req)

/-! ### a. acquisition is atomic -/

/-- **a1.** A processor without a declared requirement, or one that already holds its
reservation, may accept as far as resources are concerned, and nothing at all changes. -/
theorem acquire_noop (w : World) (x : Nat)
    (h : (w.dev x).resReq = none ∨ (w.dev x).reserved.isSome = true) :
    w.procAcquire x = (w, true) :=
  procAcquire_noop w x h

/-- **a2 (main).** A processor `x` that declares `req` (a dictionary without negative amounts) and
holds nothing.  `procAcquire` answers `true` exactly when every positive requested amount fits
into capacity minus usage of its pool.  In that case the manager is the one after
`reserve_resources(req)`; the device differs only in `reserved`, which names the NEW reservation;
that reservation holds exactly the positive entries of `req`; every pool's usage grew by exactly
the requested (positive) amount and no capacity changed; the waiting list is untouched.
Otherwise nothing is taken: pools and reservations are unchanged, the device differs only in the
flag `waitingRes`, which is set; the request was appended to the waiting list with callback
`Cb.proc x` exactly if the flag was not set before (so the processor is registered at most once);
no error is raised; and on an initialised manager a new registration queues an availability check
at the current instant.  No other device changes in either case. -/
theorem acquire_atomic (w : World) (x : Nat) (req : Req)
    (hinv : C09.Inv w.rm) (hk : C09.NodupKeys req) (hnn : ∀ e ∈ req, 0 ≤ e.2)
    (hreq : (w.dev x).resReq = some req) (hres : (w.dev x).reserved = none) :
    ((w.procAcquire x).2 = true ↔ C09.fits w.rm req) ∧
    ((w.procAcquire x).2 = true →
      (w.procAcquire x).1.rm = (w.rm.reserve req).1 ∧
      (w.procAcquire x).1.dev x = { w.dev x with reserved := some w.rm.resv.length } ∧
      w.rm.held w.rm.resv.length = none ∧
      (w.procAcquire x).1.rm.held w.rm.resv.length = some (pos req) ∧
      (∀ r, (w.procAcquire x).1.rm.usage r =
        w.rm.usage r + (if 0 < C09.amt req r then C09.amt req r else 0)) ∧
      (∀ r, (w.procAcquire x).1.rm.capacity r = w.rm.capacity r) ∧
      (w.procAcquire x).1.rm.waiting = w.rm.waiting) ∧
    ((w.procAcquire x).2 = false →
      (w.procAcquire x).1.rm.pools = w.rm.pools ∧
      (w.procAcquire x).1.rm.resv = w.rm.resv ∧
      (w.procAcquire x).1.dev x = { w.dev x with waitingRes := true } ∧
      (w.procAcquire x).1.rm.waiting =
        (if (w.dev x).waitingRes then w.rm.waiting else w.rm.waiting ++ [(req, Cb.proc x)]) ∧
      (w.procAcquire x).1.error = w.error ∧
      (w.rm.inited = true → (w.dev x).waitingRes = false →
        Queued (w.procAcquire x).1 .rmCheck w.now pOtherHigh (-1))) ∧
    (∀ y, y ≠ x → (w.procAcquire x).1.dev y = w.dev y) := by
  have hx := valid_of_resReq hreq
  refine ⟨?_, ?_, ?_, fun y hy => procAcquire_dev_ne w hy⟩
  · by_cases hf : C09.fits w.rm req
    · rw [procAcquire_fits w x req hreq hres hnn hf]; simp [hf]
    · rw [procAcquire_not_fits w x req hreq hres hnn hf]
      split <;> simp [hf]
  · intro ht
    have hf : C09.fits w.rm req := by
      apply Classical.byContradiction
      intro hf
      rw [procAcquire_not_fits w x req hreq hres hnn hf] at ht
      split at ht <;> simp at ht
    have hs := (C09.reserve_iff_fits w.rm req hnn).2 hf
    obtain ⟨id, hid⟩ := Option.isSome_iff_exists.1 hs
    obtain ⟨hu, hc, hh, hlen⟩ := C09.reserve_takes_exactly w.rm req id hinv hk hid
    subst hlen
    have hrm : (w.procAcquire x).1.rm = (w.rm.reserve req).1 := by
      rw [procAcquire_fits w x req hreq hres hnn hf]
      simp only [modDev_rm, rmEffects_rm]
    rw [hrm]
    refine ⟨rfl, ?_, ?_, hh, hu, hc, ?_⟩
    · rw [procAcquire_fits w x req hreq hres hnn hf]
      simp only
      rw [dev_modDev_same (by rw [rmEffects_devs]; exact hx), dev_rmEffects]
      rfl
    · rw [RM.held_eq]; exact RM.alookup_length_of_ids _ hinv.resvIds
    · rw [(C09.reserve_success hid).2.2.2]
      exact RM.take_waiting _ _
  · intro hfalse
    have hf : ¬ C09.fits w.rm req := by
      intro hf
      rw [procAcquire_fits w x req hreq hres hnn hf] at hfalse
      simp at hfalse
    have heq := procAcquire_not_fits w x req hreq hres hnn hf
    by_cases hw : (w.dev x).waitingRes = true
    · rw [heq, if_pos hw]
      refine ⟨rfl, rfl, ?_, by rw [if_pos hw], rfl, fun _ h => by rw [hw] at h; cases h⟩
      show w.dev x = { w.dev x with waitingRes := true }
      rw [← hw]
    · rw [heq, if_neg hw]
      have hw' : (w.dev x).waitingRes = false := by simpa using hw
      refine ⟨?_, ?_, ?_, ?_, ?_, ?_⟩
      · simp only [modDev_rm, rmEffects_rm]; rfl
      · simp only [modDev_rm, rmEffects_rm]; rfl
      · simp only
        rw [dev_modDev_same (by rw [rmEffects_devs]; exact hx), dev_rmEffects]
        rfl
      · simp only [modDev_rm, rmEffects_rm, if_neg hw]; rfl
      · simp only [modDev_error]
        exact rmEffects_error _ _ _
      · intro hin _
        apply Queued_of_env_eq (modDev_env _ _ _)
        rw [hin]
        exact Queued_schedLib_new _ _ _ _ _ (Int.le_refl _)

/-- **a3.** If the declared request contains a negative amount, `reserve_resources` raises: the
processor does not accept, the error is reported and nothing else changes. -/
theorem acquire_negative (w : World) (x : Nat) (req : Req)
    (hreq : (w.dev x).resReq = some req) (hres : (w.dev x).reserved = none)
    (hneg : ∃ e ∈ req, e.2 < 0) :
    w.procAcquire x = (w.setErr "reserve-raised", false) :=
  procAcquire_negative w x req hreq hres hneg

/-- **a4.** All-or-nothing without any hypothesis: whenever `procAcquire` refuses, no pool and no
reservation has changed and no device holds anything it did not hold before. -/
theorem acquire_refused_takes_nothing (w : World) (x : Nat) (h : (w.procAcquire x).2 = false) :
    (w.procAcquire x).1.rm.pools = w.rm.pools ∧ (w.procAcquire x).1.rm.resv = w.rm.resv ∧
    ∀ y, ((w.procAcquire x).1.dev y).reserved = (w.dev y).reserved :=
  procAcquire_false w x h

/-! ### b. a part is accepted only together with the resources -/

/-- **b1 (main).** A processor that declares `req` accepts part `p` (`give_part` answers `true`).
Provided that whatever it held before was its declared reservation (`hdecl`; trivially true if it
held nothing), in the resulting world it holds a reservation whose holdings are exactly the
positive entries of `req` — whatever the acceptance triggered (callbacks, an immediate finish for
cycle time 0, notifications).  If it held nothing before, the request fitted and the resources
were taken in this very call: the manager is the one after `reserve_resources(req)`, the processor
references the new reservation and every pool's usage grew by exactly the requested amount.  If
it held its reservation already, the manager is untouched. -/
theorem accept_holds (f : Nat) (w w' : World) (x p : Nat) (req : Req)
    (hinv : C09.Inv w.rm) (hk : C09.NodupKeys req) (hnn : ∀ e ∈ req, 0 ≤ e.2)
    (hkind : (w.dev x).kind = .processor) (hreq : (w.dev x).resReq = some req)
    (hdecl : ∀ id, (w.dev x).reserved = some id → w.rm.held id = some (pos req))
    (hg : give (f + 1) w x p = (w', true)) :
    Holding w' x req ∧
    ((w.dev x).reserved = none →
      C09.fits w.rm req ∧ w'.rm = (w.rm.reserve req).1 ∧
      (w'.dev x).reserved = some w.rm.resv.length ∧
      ∀ r, w'.rm.usage r = w.rm.usage r + (if 0 < C09.amt req r then C09.amt req r else 0)) ∧
    ((w.dev x).reserved.isSome = true →
      w'.rm = w.rm ∧ (w'.dev x).reserved = (w.dev x).reserved) := by
  rw [give_processor f w x p hkind] at hg
  split at hg
  case isFalse => cases hg
  rcases hpa : w.procAcquire x with ⟨w1, b⟩
  rw [hpa] at hg
  cases b
  · cases hg
  simp only [Prod.mk.injEq, and_true] at hg
  subst hg
  have hkeep := acceptPart_keepA w1 x p
  have hrm : (w1.acceptPart x p).rm = w1.rm := keep_rm _ hkeep
  have hrs : ((w1.acceptPart x p).dev x).reserved = (w1.dev x).reserved :=
    congrArg (·.1) (keep_dev _ hkeep x)
  have hw1 : w1 = (w.procAcquire x).1 := by rw [hpa]
  have hb : (w.procAcquire x).2 = true := by rw [hpa]
  cases hr : (w.dev x).reserved with
  | none =>
    obtain ⟨hiff, hsucc, -, -⟩ := acquire_atomic w x req hinv hk hnn hreq hr
    obtain ⟨h1, h2, -, h4, h5, -, -⟩ := hsucc hb
    rw [← hw1] at h1 h2 h4 h5
    have hres1 : (w1.dev x).reserved = some w.rm.resv.length := by rw [h2]
    refine ⟨⟨w.rm.resv.length, by rw [hrs, hres1], by rw [hrm]; exact h4⟩, ?_, ?_⟩
    · intro _
      exact ⟨hiff.1 hb, by rw [hrm, h1], by rw [hrs, hres1], fun r => by rw [hrm]; exact h5 r⟩
    · intro h; cases h
  | some id =>
    have hno := acquire_noop w x (Or.inr (by rw [hr]; rfl))
    have : w1 = w := by rw [hw1, hno]
    subst this
    refine ⟨⟨id, by rw [hrs, hr], by rw [hrm]; exact hdecl id hr⟩, ?_, ?_⟩
    · intro h; cases h
    · intro _; exact ⟨hrm, by rw [hrs, hr]⟩

/-- **b2.** If a processor refuses the part (`give_part` answers `false`, for whatever reason), no
device has a part it did not have before, no pool and no reservation has changed and no device's
`reserved` has changed: no part without resources, no resources without a part. -/
theorem accept_refused (f : Nat) (w w' : World) (x p : Nat)
    (hkind : (w.dev x).kind = .processor) (hg : give (f + 1) w x p = (w', false)) :
    (∀ y, (w'.dev y).part = (w.dev y).part) ∧
    w'.rm.pools = w.rm.pools ∧ w'.rm.resv = w.rm.resv ∧
    (∀ y, (w'.dev y).reserved = (w.dev y).reserved) := by
  rw [give_processor f w x p hkind] at hg
  split at hg
  case isFalse =>
    simp only [Prod.mk.injEq, and_true] at hg
    subst hg
    exact ⟨fun _ => rfl, rfl, rfl, fun _ => rfl⟩
  rcases hpa : w.procAcquire x with ⟨w1, b⟩
  rw [hpa] at hg
  cases b
  · simp only [Prod.mk.injEq, and_true] at hg
    subst hg
    have hw1 : w1 = (w.procAcquire x).1 := by rw [hpa]
    have hb : (w.procAcquire x).2 = false := by rw [hpa]
    obtain ⟨h1, h2, h3⟩ := procAcquire_false w x hb
    rw [hw1]
    exact ⟨fun y => procAcquire_dev_field (fun d => d.part) (fun _ _ _ => rfl) w x y, h1, h2, h3⟩
  · cases hg

/-! ### c. a failure gives the resources back -/

/-- **c1.** What `_fail()` does to the manager: a full release of the reservation the processor
holds (nothing if it holds none). -/
theorem fail_rm (w : World) (x : Nat) :
    (w.failDev x).rm =
      match (w.dev x).reserved with
      | none => w.rm
      | some id => (w.rm.release id none).1 :=
  failDev_rm w x

/-- **c2 (main).** A processor that holds reservation `id` with holdings `h` fails: afterwards it
holds nothing and has no part; every pool's usage dropped by exactly the amount held, no capacity
changed, the reservation is empty; every other device keeps its reservation and its part. -/
theorem fail_releases (w : World) (x id : Nat) (h : Req) (hinv : C09.Inv w.rm)
    (hres : (w.dev x).reserved = some id) (hh : w.rm.held id = some h) :
    ((w.failDev x).dev x).reserved = none ∧ ((w.failDev x).dev x).part = none ∧
    (∀ r, (w.failDev x).rm.usage r = w.rm.usage r - C09.amt h r) ∧
    (∀ r, (w.failDev x).rm.capacity r = w.rm.capacity r) ∧
    (w.failDev x).rm.held id = some [] ∧
    (∀ y, y ≠ x → ((w.failDev x).dev y).reserved = (w.dev y).reserved ∧
      ((w.failDev x).dev y).part = (w.dev y).part) := by
  have hx := valid_of_reserved hres
  obtain ⟨h1, h2⟩ := failDev_dev w x hx
  obtain ⟨hu, hc, hhd⟩ := C09.release_all_exact w.rm id h hinv hh
  have hrm : (w.failDev x).rm = (w.rm.release id none).1 := by rw [failDev_rm, hres]
  rw [hrm]
  exact ⟨h1, h2, hu, hc, hhd, fun y hy => failDev_dev_ne w x y hy⟩

/-- **c3.** A processor that holds nothing fails: the manager is untouched. -/
theorem fail_without_reservation (w : World) (x : Nat) (hres : (w.dev x).reserved = none) :
    (w.failDev x).rm = w.rm := by
  rw [failDev_rm, hres]

/-! ### d. a maintenance shutdown keeps the resources -/

/-- **d (main).** `_shutdown` (maintenance: `shutdownDev x false none`; in fact for every
argument) and `restore_functionality` leave the resource manager untouched, and for EVERY device
its reservation, its part in process and its finished part: a processor shut down for maintenance
with a part in process keeps holding exactly what it held. -/
theorem keeps_through_maintenance (w : World) (x : Nat) :
    ((w.shutdownDev x false none).rm = w.rm ∧
      ∀ y, ((w.shutdownDev x false none).dev y).reserved = (w.dev y).reserved ∧
        ((w.shutdownDev x false none).dev y).part = (w.dev y).part ∧
        ((w.shutdownDev x false none).dev y).output = (w.dev y).output) ∧
    ((w.restoreDev x).rm = w.rm ∧
      ∀ y, ((w.restoreDev x).dev y).reserved = (w.dev y).reserved ∧
        ((w.restoreDev x).dev y).part = (w.dev y).part ∧
        ((w.restoreDev x).dev y).output = (w.dev y).output) := by
  have h1 := shutdownDev_keepM w x false none
  have h2 := restoreDev_keepM w x
  refine ⟨⟨keep_rm _ h1, fun y => ?_⟩, ⟨keep_rm _ h2, fun y => ?_⟩⟩
  · have := keep_dev _ h1 y
    exact ⟨congrArg (·.1) this, congrArg (·.2.2.2.2.2.1) this, congrArg (·.2.2.2.2.2.2) this⟩
  · have := keep_dev _ h2 y
    exact ⟨congrArg (·.1) this, congrArg (·.2.2.2.2.2.1) this, congrArg (·.2.2.2.2.2.2) this⟩

/-- **d'.** In terms of `Holding`: a processor that holds exactly its declared amounts still does
after a maintenance shutdown — and it really is shut down then — and after being restored. -/
theorem maintenance_keeps_holding (w : World) (x : Nat) (req : Req) (hh : Holding w x req) :
    (Holding (w.shutdownDev x false none) x req ∧
      ((w.shutdownDev x false none).dev x).shutDown = true) ∧
    Holding (w.restoreDev x) x req := by
  obtain ⟨⟨r1, d1⟩, ⟨r2, d2⟩⟩ := keeps_through_maintenance w x
  obtain ⟨id, hid, hheld⟩ := hh
  exact ⟨⟨⟨id, by rw [(d1 x).1, hid], by rw [r1]; exact hheld⟩,
      shutdownDev_shutDown w x false none (valid_of_reserved hid)⟩,
    ⟨id, by rw [(d2 x).1, hid], by rw [r2]; exact hheld⟩⟩

/-! ### e. an idle processor releases at the same instant, after the hand-over -/

/-- **e1.** `_finish_cycle` of a processor that holds a reservation leaves a live
`RELEASE_RESERVED_RESOURCES` event for it in the queue: action `releaseIfIdle x`, time `now`,
priority `pRelease`, asset the processor's id. -/
theorem finish_schedules_release (w : World) (x : Nat) (hk : (w.dev x).kind = .processor)
    (hr : (w.dev x).reserved.isSome = true) :
    Queued (w.finishCycle x) (.releaseIfIdle x) w.now pRelease (w.dev x).aid :=
  finishCycle_release_queued w x hk hr

/-- **e2.** If moreover the cycle finishes regularly (operational, part `p` in process, output
free, clock not negative) the `PASS_PART` event for the finished part is queued for the same
instant, with priority `pPassPart`. -/
theorem finish_schedules_pass (w : World) (x p : Nat) (hk : (w.dev x).kind = .processor)
    (hop : w.operational x = true) (hp : (w.dev x).part = some p) (ho : (w.dev x).output = none)
    (h0 : 0 ≤ w.now) :
    Queued (w.finishCycle x) (.passPart x) w.now pPassPart (w.dev x).aid :=
  finishCycle_pass_queued w x p hk hop hp ho h0

/-- **e3.** `_release_resources_if_idle` with a part in process on an operational processor does
nothing at all. -/
theorem releaseIfIdle_busy (w : World) (x : Nat) (hop : w.operational x = true)
    (hp : (w.dev x).part.isSome = true) : w.releaseIfIdle x = w := by
  unfold releaseIfIdle
  have : (w.dev x).part.isNone = false := by
    cases h : (w.dev x).part <;> simp_all
  simp [hop, this]

/-- **e4.** `_release_resources_if_idle` on a processor that is idle (no part in process) or not
operational releases everything: the reservation is dropped, every pool's usage falls by exactly
what was held, capacities are unchanged. -/
theorem releaseIfIdle_idle (w : World) (x id : Nat) (h : Req) (hinv : C09.Inv w.rm)
    (hidle : w.operational x = false ∨ (w.dev x).part = none)
    (hres : (w.dev x).reserved = some id) (hh : w.rm.held id = some h) :
    ((w.releaseIfIdle x).dev x).reserved = none ∧
    (∀ r, (w.releaseIfIdle x).rm.usage r = w.rm.usage r - C09.amt h r) ∧
    (∀ r, (w.releaseIfIdle x).rm.capacity r = w.rm.capacity r) ∧
    (w.releaseIfIdle x).rm.held id = some [] ∧
    (∀ y, ((w.releaseIfIdle x).dev y).part = (w.dev y).part) := by
  have heq : w.releaseIfIdle x = w.releaseReserved x := by
    unfold releaseIfIdle
    rcases hidle with h | h <;> simp [h]
  obtain ⟨hu, hc, hhd⟩ := C09.release_all_exact w.rm id h hinv hh
  have hrm : (w.releaseReserved x).rm = (w.rm.release id none).1 := by
    rw [releaseReserved_rm, hres]
  rw [heq, hrm]
  exact ⟨releaseReserved_reserved w x, hu, hc, hhd,
    fun y => releaseReserved_dev_field (fun d => d.part) (fun _ _ => rfl) w x y⟩

/-- **e5.** `releaseIfIdle` of a processor that holds nothing changes nothing. -/
theorem releaseIfIdle_nothing_held (w : World) (x : Nat) (hres : (w.dev x).reserved = none) :
    w.releaseIfIdle x = w := by
  unfold releaseIfIdle
  split
  · exact releaseReserved_none w x hres
  · rfl

/-- **e6 (ordering, from C01).** `pRelease < pPassPart`; hence in a queue satisfying the C01
invariant, as long as a `PASS_PART` event `ep` is queued for the same time as a `RELEASE` event
`er`, a step never takes `er`: the hand-over is executed first, and `er` is still queued
afterwards. -/
theorem pass_before_release {s s' : Env} {e ep er : Event} (hinv : C01.Inv s)
    (hstep : s.step = some (e, s')) (hp : ep ∈ s.events) (hr : er ∈ s.events)
    (ht : ep.time = er.time) (hpp : ep.prio = pPassPart) (hpr : er.prio = pRelease) :
    e ≠ er ∧ er ∈ s'.events := by
  have hne : e ≠ er := by
    intro he
    subst he
    have := C01.step_max_prio hinv hstep ep hp ht
    rw [hpp, hpr] at this
    exact absurd this (by decide)
  refine ⟨hne, ?_⟩
  obtain ⟨es, heq, rfl⟩ := Env.step_some.mp hstep
  rw [heq] at hr
  rcases List.mem_cons.1 hr with h | h
  · exact absurd h.symm hne
  · exact h

/-- **e7 (no time passes, from C01).** While an event for the current instant is queued (such as
the `RELEASE` event of e1), a step does not advance the clock; the event is either the one taken
or still queued. -/
theorem clock_waits_for_release {s s' : Env} {e er : Event} (hinv : C01.Inv s)
    (hstep : s.step = some (e, s')) (hr : er ∈ s.events) (ht : er.time = s.now) :
    s'.now = s.now ∧ (e = er ∨ er ∈ s'.events) := by
  have h1 := C01.step_min_time hinv hstep er hr
  obtain ⟨h2, h3⟩ := C01.step_clock hinv hstep
  refine ⟨by omega, ?_⟩
  obtain ⟨es, heq, rfl⟩ := Env.step_some.mp hstep
  rw [heq] at hr
  rcases List.mem_cons.1 hr with h | h
  · exact Or.inl h.symm
  · exact Or.inr h

/-! ### f. pool usage is the sum of what the holders hold -/

/-- Number of devices whose `reserved` names reservation `id`. -/
def refCount (w : World) (id : Nat) : Nat := w.rsv.count (some id)

/-- Sum, over the devices that hold a reservation, of what that reservation holds of `r`. -/
def holdersSum (w : World) (r : Nat) : Int :=
  isum (w.devs.map fun d =>
    match d.reserved with
    | some id => C09.amt ((w.rm.held id).getD []) r
    | none => 0)

/-- Sum over the reservations no device references (those made by scenario scripts). -/
def unownedSum (w : World) (r : Nat) : Int :=
  isum (w.rm.resv.map fun p => if refCount w p.1 = 0 then C09.amt p.2 r else 0)

/-- No non-empty reservation is referenced by two devices. -/
def AtMostOne (w : World) : Prop := ∀ p ∈ w.rm.resv, p.2 ≠ [] → refCount w p.1 ≤ 1

/-- Every device's `reserved` names an existing reservation, and every non-empty reservation of
the manager is referenced by exactly one device. -/
def OwnedBy (w : World) : Prop := Owned w.rm.resv w.rsv

/-- `OwnedBy` is the special case of `AtMostOne` without unreferenced non-empty reservations. -/
theorem OwnedBy.atMostOne {w : World} (h : OwnedBy w) : AtMostOne w :=
  fun p hp hne => Nat.le_of_eq (h.2 p hp hne)

/-- `refCount` as a count over the devices. -/
theorem refCount_eq (w : World) (id : Nat) :
    refCount w id = w.devs.countP (fun d => d.reserved == some id) := by
  unfold refCount rsv
  rw [List.count_eq_countP, List.countP_map]
  rfl

/-- The holders' sum, regrouped by reservation: each reservation counts once per device that
references it. -/
theorem holdersSum_eq (w : World) (hinv : C09.Inv w.rm) (r : Nat) :
    holdersSum w r = isum (w.rm.resv.map fun p => C09.amt p.2 r * (refCount w p.1 : Int)) := by
  have hn := hinv.rinv.resvNodup
  unfold holdersSum
  rw [isum_map_congr w.devs _ (fun d => isum (w.rm.resv.map fun p =>
      if (d.reserved == some p.1) = true then C09.amt p.2 r else 0))]
  · rw [isum_swap]
    apply isum_map_congr
    intro p _
    rw [isum_map_ite_const, refCount_eq]
  · intro d _
    cases hd : d.reserved with
    | none => simp [isum_map_zero]
    | some id =>
      simp only
      have := isum_alookup w.rm.resv hn id (fun v => C09.amt v r)
      rw [RM.held_eq]
      rw [isum_map_congr w.rm.resv _ (fun p => if p.1 = id then C09.amt p.2 r else 0)]
      · rw [this]
        cases alookup w.rm.resv id <;> rfl
      · intro p _
        by_cases h : p.1 = id
        · simp [h]
        · have : ¬ id = p.1 := fun h' => h h'.symm
          simp [h, this]

/-- **f1 (general closed form).** If no non-empty reservation is referenced by two devices, the
usage of every pool is the sum of what the devices' reservations hold plus what the reservations
nobody references (scripts' reservations) hold. -/
theorem usage_eq_holders_plus_unowned (w : World) (hinv : C09.Inv w.rm) (hex : AtMostOne w)
    (r : Nat) : w.rm.usage r = holdersSum w r + unownedSum w r := by
  rw [hinv.usageEq, C09.heldSum_eq, holdersSum_eq w hinv]
  unfold unownedSum
  rw [← isum_map_add]
  apply isum_map_congr
  intro p hp
  show C09.amt p.2 r = _
  by_cases he : p.2 = []
  · rw [he]; simp [C09.amt, RM.heldAmt]
  · have := hex p hp he
    rcases Nat.le_one_iff_eq_zero_or_eq_one.1 this with h | h <;> simp [h]

/-- **f2 (main).** Under `OwnedBy` the usage of every pool equals the sum of the holdings of the
devices currently holding reservations. -/
theorem usage_is_sum_of_holders (w : World) (hinv : C09.Inv w.rm) (hown : OwnedBy w) (r : Nat) :
    w.rm.usage r = holdersSum w r := by
  rw [usage_eq_holders_plus_unowned w hinv hown.atMostOne r]
  have : unownedSum w r = 0 := by
    unfold unownedSum
    rw [isum_map_congr _ _ (fun _ => 0), isum_map_zero]
    intro p hp
    by_cases he : p.2 = []
    · rw [he]; simp [C09.amt, RM.heldAmt]
    · have h1 : refCount w p.1 = 1 := hown.2 p hp he
      simp [h1]
  rw [this]; omega

/-- `OwnedBy` only reads the reservations and the devices' `reserved` fields. -/
theorem OwnedBy.congr {w w' : World} (h1 : w'.rm.resv = w.rm.resv) (h2 : w'.rsv = w.rsv)
    (h : OwnedBy w) : OwnedBy w' := by
  unfold OwnedBy; rw [h1, h2]; exact h

/-- Everything that happens while a part is accepted, processed and finished keeps `OwnedBy`. -/
theorem OwnedBy.of_keepA {w w' : World} (hk : keep Dev.resA w' = keep Dev.resA w) (h : OwnedBy w) :
    OwnedBy w' :=
  h.congr (by rw [keep_rm _ hk]) (rsv_of_keep Dev.resA (·.1) (fun _ => rfl) hk)

/-- Shutting down and restoring keep `OwnedBy`. -/
theorem OwnedBy.of_keepM {w w' : World} (hk : keep Dev.resM w' = keep Dev.resM w) (h : OwnedBy w) :
    OwnedBy w' :=
  h.congr (by rw [keep_rm _ hk]) (rsv_of_keep Dev.resM (·.1) (fun _ => rfl) hk)

/-- **f3.** `procAcquire` preserves `OwnedBy` (for the whole world, not only for `x`): the new
reservation gets a fresh id and is referenced by `x` alone. -/
theorem acquire_preserves_owned (w : World) (x : Nat) (hinv : C09.Inv w.rm) (h : OwnedBy w) :
    OwnedBy (w.procAcquire x).1 := by
  rcases procAcquire_shape w x with ⟨h1, h2⟩ | ⟨hd, hnone, hx, h1, h2⟩
  · exact h.congr h2 h1
  · unfold OwnedBy
    rw [h1, h2]
    have hx' : x < w.rsv.length := by rw [rsv_length]; exact hx
    refine Owned.acquire h ?_ hx' (by rw [rsv_getElem w x hx']; exact hnone) hd
    intro p hp
    obtain ⟨i, hi, hpi⟩ := List.getElem_of_mem hp
    have := hinv.resvIds i hi
    rw [hpi] at this
    omega

/-- **f4.** `releaseReserved` preserves `OwnedBy` (no hypothesis on the manager needed). -/
theorem release_preserves_owned (w : World) (x : Nat) (h : OwnedBy w) :
    OwnedBy (w.releaseReserved x) := by
  obtain ⟨h1, h2⟩ := releaseReserved_shape w x
  unfold OwnedBy
  rw [h1, h2]
  cases hr : (w.dev x).reserved with
  | none =>
    simp only
    rw [set_self_of_getElem]
    · exact h
    · intro hx; rw [rsv_getElem w x hx, hr]
  | some id =>
    have hx : x < w.rsv.length := by rw [rsv_length]; exact valid_of_reserved hr
    have hg : w.rsv[x] = some id := by rw [rsv_getElem w x hx, hr]
    cases hh : w.rm.held id with
    | none =>
      simp only [hh]
      rw [RM.held_eq, alookup_eq_none_iff] at hh
      exact Owned.drop_dangling h hx hg hh
    | some hd =>
      simp only [hh]
      exact Owned.release h hx hg

/-- **f5.** `_fail()` preserves `OwnedBy`. -/
theorem fail_preserves_owned (w : World) (x : Nat) (h : OwnedBy w) : OwnedBy (w.failDev x) := by
  obtain ⟨w0, h1, h2, heq⟩ := failDev_eq w x
  rw [heq]
  apply OwnedBy.of_keepM (shutdownDev_keepM _ x true _)
  have h0 : OwnedBy w0 := h.congr (by rw [h2]) (rsv_of_devs_eq h1)
  have h3 : OwnedBy (w0.modDev x fun d => { d with part := none }) :=
    OwnedBy.congr (w := w0) rfl
      (rsv_of_keep Dev.reserved id (fun _ => rfl) (keep_modDev Dev.reserved w0 x _ rfl)) h0
  exact (release_preserves_owned _ x h3).congr rfl rfl

/-- **f6.** `releaseIfIdle`, a maintenance shutdown and a restore preserve `OwnedBy`. -/
theorem idle_maintenance_preserve_owned (w : World) (x : Nat) (h : OwnedBy w) :
    OwnedBy (w.releaseIfIdle x) ∧ (∀ b l, OwnedBy (w.shutdownDev x b l)) ∧ OwnedBy (w.restoreDev x) := by
  refine ⟨?_, fun b l => h.of_keepM (shutdownDev_keepM w x b l), h.of_keepM (restoreDev_keepM w x)⟩
  unfold releaseIfIdle
  split
  · exact release_preserves_owned w x h
  · exact h

/-- **f7.** Offering a part to a processor (`give`, accepted or not) preserves `OwnedBy`. -/
theorem give_preserves_owned (f : Nat) (w : World) (x p : Nat) (hinv : C09.Inv w.rm)
    (hkind : (w.dev x).kind = .processor) (h : OwnedBy w) : OwnedBy (give (f + 1) w x p).1 := by
  rw [give_processor f w x p hkind]
  split
  · have h1 := acquire_preserves_owned w x hinv h
    rcases hpa : w.procAcquire x with ⟨w1, b⟩
    rw [hpa] at h1
    cases b
    · exact h1
    · exact OwnedBy.of_keepA (acceptPart_keepA w1 x p) h1
  · exact h

/-! ### g. "a part in process only while holding" as an invariant of the processor's own operations -/

/-- The local resource invariant of processor `x`: whatever reservation it holds is exactly its
declared one, and it has a part in process only while it holds a reservation. -/
def ProcInv (w : World) (x : Nat) : Prop :=
  ∀ req, (w.dev x).resReq = some req →
    (∀ id, (w.dev x).reserved = some id → w.rm.held id = some (pos req)) ∧
    ((w.dev x).part.isSome = true → (w.dev x).reserved.isSome = true)

/-- What the invariant says: with a part in process the processor holds exactly the declared
amounts. -/
theorem ProcInv.holding {w : World} {x : Nat} (h : ProcInv w x) {req : Req}
    (hreq : (w.dev x).resReq = some req) (hp : (w.dev x).part.isSome = true) : Holding w x req := by
  obtain ⟨h1, h2⟩ := h req hreq
  obtain ⟨id, hid⟩ := Option.isSome_iff_exists.1 (h2 hp)
  exact ⟨id, hid, h1 id hid⟩

/-- The invariant only reads `resReq`, `reserved`, `part` of `x` and the reservations. -/
theorem ProcInv.congr {w w' : World} {x : Nat} (hq : (w'.dev x).resReq = (w.dev x).resReq)
    (hr : (w'.dev x).reserved = (w.dev x).reserved)
    (hp : (w'.dev x).part.isSome = true → (w.dev x).part.isSome = true)
    (hv : w'.rm.resv = w.rm.resv) (h : ProcInv w x) : ProcInv w' x := by
  intro req hreq
  rw [hq] at hreq
  obtain ⟨h1, h2⟩ := h req hreq
  refine ⟨fun id hid => ?_, fun hpp => ?_⟩
  · rw [RM.held_eq, hv, ← RM.held_eq]; exact h1 id (by rw [← hr]; exact hid)
  · rw [hr]; exact h2 (hp hpp)

/-- **g1.** Offering a part to the processor (accepted or refused) preserves its invariant. -/
theorem give_preserves_procInv (f : Nat) (w : World) (x p : Nat) (hinv : C09.Inv w.rm)
    (hkind : (w.dev x).kind = .processor)
    (hwf : ∀ req, (w.dev x).resReq = some req → C09.NodupKeys req ∧ ∀ e ∈ req, 0 ≤ e.2)
    (h : ProcInv w x) : ProcInv (give (f + 1) w x p).1 x := by
  have hq : ((give (f + 1) w x p).1.dev x).resReq = (w.dev x).resReq := by
    rw [give_processor f w x p hkind]
    split
    · rcases hpa : w.procAcquire x with ⟨w1, b⟩
      have h1 : (w1.dev x).resReq = (w.dev x).resReq := by
        have := procAcquire_dev_field (fun d => d.resReq) (fun _ _ _ => rfl) w x x
        rw [hpa] at this; exact this
      cases b
      · exact h1
      · exact (congrArg (·.2.1) (keep_dev _ (acceptPart_keepA w1 x p) x)).trans h1
    · rfl
  rcases hg : give (f + 1) w x p with ⟨w', b⟩
  rw [hg] at hq
  cases b
  · obtain ⟨hp, _, hv, hr⟩ := accept_refused f w w' x p hkind hg
    exact h.congr hq (hr x) (fun hpp => by rw [← hp x]; exact hpp) hv
  · intro req hreq
    rw [hq] at hreq
    obtain ⟨hk, hnn⟩ := hwf req hreq
    obtain ⟨⟨id, hid, hheld⟩, _, _⟩ :=
      accept_holds f w w' x p req hinv hk hnn hkind hreq (h req hreq).1 hg
    refine ⟨fun id' hid' => ?_, fun _ => by rw [hid]; rfl⟩
    rw [hid] at hid'
    cases hid'
    exact hheld

/-- **g2.** `releaseIfIdle` preserves the invariant unless it is run on a processor that is shut
down with a part in process (the one case in which it releases although a part is in process). -/
theorem releaseIfIdle_preserves_procInv (w : World) (x : Nat)
    (hop : w.operational x = true ∨ (w.dev x).part = none) (h : ProcInv w x) :
    ProcInv (w.releaseIfIdle x) x := by
  by_cases hidle : (w.dev x).part = none
  · have heq : w.releaseIfIdle x = w.releaseReserved x := by
      unfold releaseIfIdle; simp [hidle]
    rw [heq]
    intro req _
    have hpart : ((w.releaseReserved x).dev x).part = none :=
      (releaseReserved_dev_field (fun d => d.part) (fun _ _ => rfl) w x x).trans hidle
    refine ⟨fun id hid => ?_, fun hp => ?_⟩
    · rw [releaseReserved_reserved] at hid; cases hid
    · rw [hpart] at hp; cases hp
  · have hop' : w.operational x = true := by
      rcases hop with h | h
      · exact h
      · exact absurd h hidle
    rw [releaseIfIdle_busy w x hop' (by cases hp : (w.dev x).part <;> simp_all)]
    exact h

/-- **g3.** A failure, a (maintenance) shutdown and a restore preserve the invariant. -/
theorem fail_maintenance_preserve_procInv (w : World) (x : Nat) (h : ProcInv w x) :
    ProcInv (w.failDev x) x ∧ (∀ b l, ProcInv (w.shutdownDev x b l) x) ∧
    ProcInv (w.restoreDev x) x := by
  refine ⟨?_, fun b l => ?_, ?_⟩
  · by_cases hx : x < w.devs.length
    · obtain ⟨h1, h2⟩ := failDev_dev w x hx
      intro req _
      refine ⟨fun id hid => ?_, fun hp => ?_⟩
      · rw [h1] at hid; cases hid
      · rw [h2] at hp; cases hp
    · intro req hreq
      have hlen : (w.failDev x).devs.length = w.devs.length := by
        obtain ⟨w0, h1, _, heq⟩ := failDev_eq w x
        rw [heq, keep_length _ (shutdownDev_keepM _ x true _)]
        show (World.releaseReserved _ x).devs.length = _
        rw [releaseReserved_devs_length, modDev_devs_length, h1]
      rw [dev_of_length_le (by rw [hlen]; omega)] at hreq
      cases hreq
  · have hk := shutdownDev_keepM w x b l
    have hd := keep_dev _ hk x
    have hpart : ((World.dev _ x).part) = (w.dev x).part := congrArg (·.2.2.2.2.2.1) hd
    exact h.congr (congrArg (·.2.1) hd) (congrArg (·.1) hd)
      (fun hp => by rw [← hpart]; exact hp) (by rw [keep_rm _ hk])
  · have hk := restoreDev_keepM w x
    have hd := keep_dev _ hk x
    have hpart : ((World.dev _ x).part) = (w.dev x).part := congrArg (·.2.2.2.2.2.1) hd
    exact h.congr (congrArg (·.2.1) hd) (congrArg (·.1) hd)
      (fun hp => by rw [← hpart]; exact hp) (by rw [keep_rm _ hk])

/-- **g4.** Finishing a cycle preserves the invariant: the part leaves the input (or stays, if an
assertion fails), the reservation stays until the `RELEASE` event of `finish_schedules_release`. -/
theorem finish_preserves_procInv (w : World) (x : Nat) (hk : (w.dev x).kind = .processor)
    (h : ProcInv w x) : ProcInv (w.finishCycle x) x := by
  have hkeep := finishCycle_keepA w x
  have hd := keep_dev _ hkeep x
  refine h.congr (congrArg (·.2.1) hd) (congrArg (·.1) hd) (fun hp => ?_) (by rw [keep_rm _ hkeep])
  rcases finishCycle_part w x x hk with h1 | h1
  · rw [← h1]; exact hp
  · rw [h1] at hp; cases hp

/-! ### non-vacuity -/

/-- Pools: resource 0 with capacity 3, resource 1 with capacity 1; initialised. -/
def exRM : RM := ({} : RM).applyAll [.add 0 3, .add 1 1, .init]

/-- Two processors, each declaring `{0: 2, 1: 0}`, cycle time 1; two parts. -/
def exW : World :=
  { rm := exRM
    devs := [{ kind := .processor, aid := 1, inited := true, cycle := 1, resReq := some [(0, 2), (1, 0)] },
             { kind := .processor, aid := 2, inited := true, cycle := 1, resReq := some [(0, 2), (1, 0)] }]
    parts := [{}, {}] }

/-- Processor 0 has accepted part 0. -/
def exW1 : World := (give 3 exW 0 0).1
/-- … and processor 1 has been offered part 1 (refused: only 1 unit of resource 0 is left). -/
def exW2 : World := (give 3 exW1 1 1).1

/-- The hypotheses of the theorems hold in the example worlds. -/
example : C09.Inv exW.rm := C09.inv_reachable _ (by simp [C09.WFOp])
/-- The declared request of the example is a dictionary without negative amounts. -/
theorem exReq_wf : C09.NodupKeys [(0, 2), (1, 0)] ∧ ∀ e ∈ [((0 : Nat), (2 : Int)), (1, 0)], 0 ≤ e.2 := by
  unfold C09.NodupKeys; decide
example : OwnedBy exW := by
  constructor
  · intro id h; simp [exW, rsv] at h
  · intro p hp; simp [exW, exRM, RM.applyAll, RM.apply, RM.add, RM.init, RM.lookup, RM.setPool] at hp
/-- `OwnedBy` holds along the example run (by the preservation theorems f3/f7). -/
theorem exOwned : OwnedBy exW1 ∧ OwnedBy exW2 := by
  have hi : C09.Inv exW.rm := C09.inv_reachable _ (by simp [C09.WFOp])
  have h0 : OwnedBy exW := by
    constructor
    · intro id h; simp [exW, rsv] at h
    · intro p hp; simp [exW, exRM, RM.applyAll, RM.apply, RM.add, RM.init, RM.lookup, RM.setPool] at hp
  have h1 : OwnedBy exW1 := give_preserves_owned 2 exW 0 0 hi (by decide) h0
  have hi1 : C09.Inv exW1.rm := by
    have : exW1.rm = (exW.rm.reserve [(0, 2), (1, 0)]).1 :=
      ((accept_holds 2 exW exW1 0 0 [(0, 2), (1, 0)] hi exReq_wf.1 exReq_wf.2 (by decide)
        (by decide) (by decide) (Prod.ext rfl (by decide))).2.1 (by decide)).2.1
    rw [this]
    exact C09.inv_reserve hi _ exReq_wf.1
  exact ⟨h1, give_preserves_owned 2 exW1 1 1 hi1 (by decide) h1⟩

/-- a/b: acceptance acquires exactly the declared positive amounts; the zero entry is not held. -/
example : C09.fits exW.rm [(0, 2), (1, 0)] := by
  intro e he hpos
  simp at he
  rcases he with rfl | rfl
  · exact ⟨0, 3, by decide, by decide⟩
  · simp at hpos
example :
    (give 3 exW 0 0).2 = true ∧ (exW1.dev 0).reserved = some 0 ∧ (exW1.dev 0).part = some 0 ∧
    exW1.rm.held 0 = some (pos [(0, 2), (1, 0)]) ∧ pos [(0, 2), (1, 0)] = [(0, 2)] ∧
    exW1.rm.usage 0 = 2 ∧ exW1.rm.usage 1 = 0 ∧ exW.rm.usage 0 = 0 := by decide

/-- a/b: the second processor is refused atomically and registered exactly once, also when it is
offered the part a second time. -/
example :
    (give 3 exW1 1 1).2 = false ∧ (exW2.dev 1).part = none ∧ (exW2.dev 1).reserved = none ∧
    (exW2.dev 1).waitingRes = true ∧ exW2.rm.usage 0 = 2 ∧
    exW2.rm.waiting = [([(0, 2), (1, 0)], Cb.proc 1)] ∧
    (give 3 exW2 1 1).2 = false ∧ (give 3 exW2 1 1).1.rm.waiting.length = 1 := by decide

/-- c: a failure of the holder gives everything back. -/
example :
    ((exW2.failDev 0).dev 0).reserved = none ∧ ((exW2.failDev 0).dev 0).part = none ∧
    (exW2.failDev 0).rm.usage 0 = 0 ∧ (exW2.failDev 0).rm.capacity 0 = 3 ∧
    (exW2.failDev 0).rm.held 0 = some [] := by decide

/-- d: a maintenance shutdown with the part in process keeps the reservation; so does restoring. -/
example :
    ((exW2.shutdownDev 0 false none).dev 0).shutDown = true ∧
    ((exW2.shutdownDev 0 false none).dev 0).part = some 0 ∧
    ((exW2.shutdownDev 0 false none).dev 0).reserved = some 0 ∧
    (exW2.shutdownDev 0 false none).rm.usage 0 = 2 ∧
    (((exW2.shutdownDev 0 false none).restoreDev 0).dev 0).reserved = some 0 ∧
    ((exW2.shutdownDev 0 false none).restoreDev 0).rm.usage 0 = 2 := by decide

/-- e: finishing the cycle queues PASS_PART (priority 28) and RELEASE (priority 24) for the same
instant, in this order; the reservation is still held; the release event then frees the idle
processor, whereas with a part in process it does nothing. -/
example :
    ((exW2.finishCycle 0).env.events.map fun e => (Action.ofNat e.act, e.time, e.prio, e.asset)) =
      [(.rmCheck, 0, 44, -1), (.passPart 0, 0, 28, 1), (.releaseIfIdle 0, 0, 24, 1),
       (.finishCycle 0, 1, 32, 1)] := by decide
example :
    ((exW2.finishCycle 0).dev 0).reserved = some 0 ∧ ((exW2.finishCycle 0).dev 0).part = none ∧
    (((exW2.finishCycle 0).releaseIfIdle 0).dev 0).reserved = none ∧
    ((exW2.finishCycle 0).releaseIfIdle 0).rm.usage 0 = 0 ∧
    (exW2.releaseIfIdle 0).rm.usage 0 = 2 ∧ ((exW2.releaseIfIdle 0).dev 0).reserved = some 0 := by
  decide

/-- f: usage is the sum over the holders (2 = 2 + 0), and 0 after the release. -/
example :
    holdersSum exW2 0 = 2 ∧ exW2.rm.usage 0 = 2 ∧ unownedSum exW2 0 = 0 ∧ refCount exW2 0 = 1 ∧
    holdersSum ((exW2.finishCycle 0).releaseIfIdle 0) 0 = 0 := by decide

/-- e6/e7 on a concrete queue: RELEASE scheduled first, PASS_PART second, same instant — the
step takes PASS_PART and does not advance the clock. -/
def exEnv : Env :=
  (({} : Env).applyAll Arith.exact [.sched 0 1 (Action.releaseIfIdle 0).toNat pRelease 0,
    .sched 0 1 (Action.passPart 0).toNat pPassPart 0]).1
example : C01.Inv exEnv := C01.inv_reachable _ _
example :
    exEnv.events.map (fun e => (e.prio, e.time)) = [(28, 0), (24, 0)] ∧
    exEnv.step.map (fun r => (Action.ofNat r.1.act, r.2.now, r.2.events.map (·.prio))) =
      some (.passPart 0, 0, [24]) := by decide

/-- f2 applied to the example world. -/
example : exW2.rm.usage 0 = holdersSum exW2 0 := by
  have hi : C09.Inv exW.rm := C09.inv_reachable _ (by simp [C09.WFOp])
  have hi2 : C09.Inv exW2.rm := by
    have : exW2.rm = ((exW.rm.apply (.reserve [(0, 2), (1, 0)])).1.apply
        (.register [(0, 2), (1, 0)] (.proc 1))).1 := by rfl
    rw [this]
    exact C09.inv_apply _ _ (C09.inv_apply _ _ hi exReq_wf.1) exReq_wf.1
  exact usage_is_sum_of_holders exW2 hi2 exOwned.2 0

/-- Boundary of g2 (why its hypothesis is needed): `releaseIfIdle` run on a processor that is shut
down with a part in process does release — the model relies on the RELEASE event being paused with
the machine's other events during a maintenance shutdown. -/
example :
    (((exW2.shutdownDev 0 false none).releaseIfIdle 0).dev 0).part = some 0 ∧
    (((exW2.shutdownDev 0 false none).releaseIfIdle 0).dev 0).reserved = none := by decide

/-- g: the processor invariant holds in the example and is not trivial there. -/
example : ProcInv exW2 0 ∧ Holding exW2 0 [(0, 2), (1, 0)] := by
  have hh : Holding exW2 0 [(0, 2), (1, 0)] := ⟨0, by decide, by decide⟩
  refine ⟨?_, hh⟩
  intro req hreq
  have : req = [(0, 2), (1, 0)] := by
    have h2 : (exW2.dev 0).resReq = some [(0, 2), (1, 0)] := by decide
    rw [h2] at hreq; cases hreq; rfl
  subst this
  refine ⟨fun id hid => ?_, fun _ => by decide⟩
  have h2 : (exW2.dev 0).reserved = some 0 := by decide
  rw [h2] at hid; cases hid
  decide

end C11
end SimProc
