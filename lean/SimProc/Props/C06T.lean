/-
C06T — EXACT CYCLE TIMES ACROSS INTERRUPTIONS, as theorems over whole runs.

"Cycle times are honoured exactly, one part at a time, across interruptions: a handler / processor /
sink that accepts a part at time t with cycle time c in effect (one-shot offset included, floored at
zero) finishes it exactly when the device has been OPERATIONAL for c time units since t: time spent
shut down (maintenance) is added on top; a failure discards the part and its timer; no second part
is accepted before the first has left the input slot; nothing finishes early or late."

The run.  `wAt w k` is the `k`-th world of the run of the event loop from `w` (`World.step`
iterated), `trace n w = [w_0, …, w_n]`, `evAt w k` the event popped by step `k → k+1`;
`runLoop_trace`: `World.runLoop` follows this trace.  All theorems are for a run that starts in ANY
world satisfying the closed-world invariant `C06W.WI` — by `C06W.timer_reachable` every world
reachable from a fresh, statically well-formed world (`C06W.Static'`, `C06W.Init`), whatever the
topology, the parameters, the scripts of the class and the tie-break weights (`wi_trace`,
`cycle_time_exact_reachable`).

Vocabulary.  `C06W.rem s x` is the list of timers of device `x`: (uid of the live finish event,
remaining work).  `Starts w x i u D`: step `i → i+1` creates timer `u` of `x` with remaining work `D`
(the uid is unallocated in `w_i`, and `rem w_{i+1} x = [(u, D)]` — what accepting a part does,
`C06W.accept_starts_timer`; `starts_is_accept` shows that nothing else does it and that `D` is the
cycle time in effect, `startDelay` — for a handler or processor the `acceptDelay` of C06).  `Pops w x j u`: step
`j → j+1` pops the live finish event `u` of `x` — the cycle is finished (`finish_step`).
`upTime w x a b` / `downTime w x a b`: the time `x` is operational / shut down during steps
`a, …, b−1`.

0. `run_follows_trace`, `wi_trace`, `wi_start`, `starts_before_pops`.
1. `cycle_time_exact` (`_run`, `_reachable`), `cycle_time_uninterrupted`, `cycle_time_never_down`,
   `not_early`, `starts_is_accept`.
2. `timer_dies_only_by_failure` (+ `timer_survives`, `script_keeps_timer`, `dead_stays_dead`,
   `timer_never_duplicated`).
3. `one_part_at_a_time`.
4. `pending_due_exactly`, `remaining_while_alive`, `no_early_no_late`, `produced_record_exact`,
   `no_late_at_run_end`.

Machinery: `SimProc/Proofs/C06T*.lean` (the action of every event as a sequence of atomic moves —
frame, accept, empty the output slot, shutdown, restore, fail — between states satisfying the floor
invariant).
-/
import SimProc.Proofs.C06TTrace
import SimProc.Proofs.C06TBirth
import SimProc.Props.C06W
import SimProc.Props.C01W

namespace SimProc
namespace C06T
open World FloorCoreL C06W

/-! ### the run -/

/-- The invariant holds along the whole trace. -/
theorem wi_trace {w : World} (h : WI w) (k : Nat) : WI (wAt w k) := wi_wAt h k

/-- … in particular along the trace of every run from a reachable world. -/
theorem wi_trace_reachable (n : Nat) (w : World) (hs : Static' w) (hi : Init w) (k : Nat) :
    WI (wAt (runLoop n w.simulateInit) k) := wi_wAt (timer_reachable n w hs hi) k

/-- The invariant holds at the start of the simulation of a fresh world of the static class. -/
theorem wi_start {w : World} (hs : Static' w) (hi : Init w) : WI w.simulateInit :=
  timer_simulateInit (wi_init hs hi).1 (wi_init hs hi).2

/-- `World.runLoop` follows the trace: with fuel `n` it ends in some `w_k`, `k ≤ n` (with the error flag
set on top if the fuel ran out), and every step before was taken while the run was not terminated. -/
theorem run_follows_trace (n : Nat) (w : World) :
    ∃ k, k ≤ n ∧ (runLoop n w = wAt w k ∨ runLoop n w = (wAt w k).setErr "fuel") ∧
      ∀ m, m < k → (wAt w m).env.running = true ∧ ∃ e, (wAt w m).step = some (e, wAt w (m + 1)) :=
  runLoop_trace n w

/-- The creating step comes before the popping step. -/
theorem starts_before_pops {w : World} (h : WI w) {x i j u : Nat} {D : Int} (hs : Starts w x i u D)
    (hp : Pops w x j u) : i < j := by
  obtain ⟨e, hst, _, _, hu⟩ := hp.step
  obtain ⟨env', henv, _⟩ := step_kind (wi_wAt h j) hst
  have h1 : e.uid < (wAt w j).env.nextUid :=
    (wi_wAt h j).fi.ei.1.fresh e (List.mem_append.mpr (Or.inl (mem_events_of_step henv)))
  apply Classical.byContradiction
  intro hij
  have := uid_wAt_mono h (show j ≤ i by omega)
  have := hs.1
  omega

/-! ### 1. exact cycle times -/

/-- **Cycle times are honoured exactly, across interruptions.**  If step `i → i+1` of the run
creates timer `u` of device `x` with delay `D` (the device accepts a part) and step `j → j+1` pops
it (the cycle is finished), then between the two the device has been OPERATIONAL for exactly `D`
time units:
`Σ_{k=i+1}^{j} (if x operational in w_k then now w_{k+1} − now w_k else 0) = D`;
equivalently: finish time = accept time + `D` + the total time `x` was shut down in between. -/
theorem cycle_time_exact {w : World} (h : WI w) {x : Nat} (hk : (w.dev x).kind ≠ .source)
    {i j u : Nat} {D : Int} (hs : Starts w x i u D) (hp : Pops w x j u) :
    upTime w x (i + 1) (j + 1) = D ∧
    (wAt w (j + 1)).now = (wAt w (i + 1)).now + D + downTime w x (i + 1) (j + 1) := by
  have hij := starts_before_pops h hs hp
  have hj := remaining_along h hk hs hp hij j (by omega) (Nat.le_refl _)
  obtain ⟨e, hst, hl, ha, hu⟩ := hp.step
  have hkj : ((wAt w j).dev x).kind ≠ .source := by rw [kind_wAt h]; exact hk
  obtain ⟨p, hr, hop, _⟩ := finish_step (wi_wAt h j) hst hkj hl ha
  rw [hr] at hj
  simp only [List.cons.injEq, Prod.mk.injEq, and_true] at hj
  have hnow : (wAt w (j + 1)).now = e.time := (step_now (wi_wAt h j) hst).1
  have h1 : upTime w x (i + 1) (j + 1) = D := by
    rw [upTime_succ w x (show i + 1 ≤ j by omega), hop]
    simp only [if_true, dt]
    rw [hnow]; omega
  refine ⟨h1, ?_⟩
  have := upTime_add_downTime w x (show i + 1 ≤ j + 1 by omega)
  omega

/-- **Uninterrupted cycles take exactly the cycle time**: if the device is operational in every
world from the accept to the finish, `finish time = accept time + D`. -/
theorem cycle_time_uninterrupted {w : World} (h : WI w) {x : Nat} (hk : (w.dev x).kind ≠ .source)
    {i j u : Nat} {D : Int} (hs : Starts w x i u D) (hp : Pops w x j u)
    (hup : ∀ k, i + 1 ≤ k → k ≤ j → (wAt w k).operational x = true) :
    (wAt w (j + 1)).now = (wAt w (i + 1)).now + D := by
  have := (cycle_time_exact h hk hs hp).2
  rw [downTime_zero_of_up w x (i + 1) (j + 1) (fun k h1 h2 => hup k h1 (by omega))] at this
  omega

/-- Handlers and sinks are never shut down: their cycles always take exactly the cycle time. -/
theorem cycle_time_never_down {w : World} (h : WI w) {x : Nat}
    (hk : (w.dev x).kind = .handler ∨ (w.dev x).kind = .sink)
    {i j u : Nat} {D : Int} (hs : Starts w x i u D) (hp : Pops w x j u) :
    (wAt w (j + 1)).now = (wAt w (i + 1)).now + D := by
  refine cycle_time_uninterrupted h (by rcases hk with hk | hk <;> rw [hk] <;> decide) hs hp ?_
  intro k _ _
  unfold World.operational
  rw [kind_wAt h]
  rcases hk with hk | hk <;> rw [hk]

/-- **Nothing finishes early**: a cycle never ends before `D` time units have passed. -/
theorem not_early {w : World} (h : WI w) {x : Nat} (hk : (w.dev x).kind ≠ .source)
    {i j u : Nat} {D : Int} (hs : Starts w x i u D) (hp : Pops w x j u) :
    (wAt w (i + 1)).now + D ≤ (wAt w (j + 1)).now := by
  have := (cycle_time_exact h hk hs hp).2
  have := downTime_nonneg h x (i + 1) (j + 1)
  omega

/-- `cycle_time_exact` for every run from a reachable world: a fresh world in the static class,
initialised, run with any fuel `n`, and then traced. -/
theorem cycle_time_exact_reachable (n : Nat) (w0 : World) (hs0 : Static' w0) (hi0 : Init w0)
    {x : Nat} (hk : ((runLoop n w0.simulateInit).dev x).kind ≠ .source) {i j u : Nat} {D : Int}
    (hs : Starts (runLoop n w0.simulateInit) x i u D) (hp : Pops (runLoop n w0.simulateInit) x j u) :
    upTime (runLoop n w0.simulateInit) x (i + 1) (j + 1) = D ∧
    (wAt (runLoop n w0.simulateInit) (j + 1)).now =
      (wAt (runLoop n w0.simulateInit) (i + 1)).now + D +
        downTime (runLoop n w0.simulateInit) x (i + 1) (j + 1) :=
  cycle_time_exact (timer_reachable n w0 hs0 hi0) hk hs hp

/-- `cycle_time_exact` for the run of a fresh world of the static class from its initialisation. -/
theorem cycle_time_exact_run (w0 : World) (hs0 : Static' w0) (hi0 : Init w0)
    {x : Nat} (hk : (w0.simulateInit.dev x).kind ≠ .source) {i j u : Nat} {D : Int}
    (hs : Starts w0.simulateInit x i u D) (hp : Pops w0.simulateInit x j u) :
    upTime w0.simulateInit x (i + 1) (j + 1) = D ∧
    (wAt w0.simulateInit (j + 1)).now =
      (wAt w0.simulateInit (i + 1)).now + D + downTime w0.simulateInit x (i + 1) (j + 1) :=
  cycle_time_exact (wi_start hs0 hi0) hk hs hp

/-- **`Starts` is accepting a part, with the cycle time in effect.**  If step `i → i+1` creates
timer `u` of `x` with remaining work `D`, then `x` is a handler, processor or sink, the popped event
`e` was live and in the course of its action — in a state `wm` reached from the popped state by
atomic moves (`Moves`: frames, accepts, emptied output slots, shutdowns, restorations, the failure of
the event), at the time of the event — `x` accepted a part `p` (`_can_accept_part` held: operational,
unblocked, both slots empty), and that `_accept_part` created exactly this timer; nothing else
creates timers.  `D` is the cycle time in effect: `startDelay = max 0 (cycle time + one-shot offset)`
as the receive callbacks left them (`startDelay_eq`) — it is positive —, and `p` is the part in the
input slot after the step.  For a handler or processor this is `acceptDelay` of C06/C13
(`C06.acceptDelay_spec`) and `u` is the uid counter of `wm`.  (The accept time is
`now w_{i+1} = e.time`.) -/
theorem starts_is_accept {w : World} (h : WI w) {x : Nat} (hk : (w.dev x).kind ≠ .source)
    {i u : Nat} {D : Int} (hs : Starts w x i u D) :
    ∃ e env' wm p, (wAt w i).step = some (e, wAt w (i + 1)) ∧
      (wAt w i).env.step = some (e, env') ∧ e.live = true ∧ (wAt w (i + 1)).now = e.time ∧
      Moves (fun d => Action.ofNat e.act = .fail d) ({ wAt w i with env := env' } : World) wm ∧
      FI wm ∧ wm.now = e.time ∧ wm.canAcceptBasic x p = true ∧
      rem (wm.acceptPart x p).env x = [(u, D)] ∧
      isT (w.dev x).kind = true ∧ 0 < D ∧ D = startDelay wm x p ∧
      ((wAt w (i + 1)).dev x).part = some p ∧
      ((w.dev x).kind = .processor ∨ (w.dev x).kind = .handler →
        D = wm.acceptDelay x p ∧
        D = max 0 ((recvDev p (wm.dev x)).cycle + (recvDev p (wm.dev x)).offset) ∧
        u = wm.env.nextUid) := by
  have hwi := wi_wAt h i
  have hki : ((wAt w i).dev x).kind ≠ .source := by rw [kind_wAt h]; exact hk
  have hm : (u, D) ∈ rem (wAt w (i + 1)).env x := by rw [hs.2]; exact List.mem_singleton.mpr rfl
  cases hst0 : (wAt w i).step with
  | none =>
    rw [wAt_succ_none hst0] at hm
    have := rem_uid_lt hwi.fi.ei hm
    have := hs.1
    omega
  | some q =>
    have hst := step_wAt (e := q.1) (w' := q.2) hst0
    obtain ⟨env', wm, p, g1, g2, g3, g4, g5, g6, g7, g8, g9, g10⟩ := birth_step hwi hst hki hm hs.1
    have hmem : (u, D) ∈ rem (wm.acceptPart x p).env x := by rw [g9]; exact List.mem_singleton.mpr rfl
    have hkw : (wm.dev x).kind = (w.dev x).kind := by rw [g7, kind_wAt h]
    have hT : isT (wm.dev x).kind = true := by
      cases hT : isT (wm.dev x).kind with
      | true => rfl
      | false =>
        exfalso
        have hTi : isT ((wAt w (i + 1)).dev x).kind = false := by rw [kind_wAt h, ← hkw]; exact hT
        have := (isT_of_rem (wi_wAt h (i + 1)).fi (by rw [kind_wAt h]; exact hk) hm).1
        rw [hTi] at this; cases this
    obtain ⟨b1, b2, b3⟩ := accept_timer_T g4 p g6 hT g8 hmem
    refine ⟨q.1, env', wm, p, hst0.symm.trans hst, g1, g2, (step_now hwi hst).1, g3, g4, g5, g8, g9,
      hkw ▸ hT, b2 ▸ b1, b2, g10.trans b3, ?_⟩
    intro hkind
    have hkm : (wm.dev x).kind = .processor ∨ (wm.dev x).kind = .handler := by
      rw [hkw]; exact hkind
    obtain ⟨_, a2, a3, _⟩ := accept_timer g4 p g6 hkm g8 hmem
    exact ⟨a2, a2.trans (C06.acceptDelay_spec wm p g6 hkm), a3⟩

/-! ### 2. a timer dies only by finishing or by the failure of its device -/

/-- **One step.**  A timer `u` of `x` that exists before a step of the event loop and not after it
was either popped by the step (its finish event ran: the cycle is finished, `finish_step`) or the
step is the failure of `x`: `Failed` — the event is the live `fail x` event of the processor `x`, the
step is `_fail()`, the part in process is discarded, no timer is left, the machine is down, and the
`device_failure` record names the lost part (see also `C13.fail_drops_input_only`,
`C06.fail_cancels_all`, `C06.failed_timer_never_runs_later`). -/
theorem timer_dies_only_by_failure_step {w w' : World} {e : Event} (h : WI w)
    (hst : w.step = some (e, w')) {x : Nat} (hk : (w.dev x).kind ≠ .source) {u : Nat} {r : Int}
    (hm : (u, r) ∈ rem w.env x) (hd : ∀ r', (u, r') ∉ rem w'.env x) :
    (e.live = true ∧ e.act = finAct x ∧ e.uid = u) ∨ Failed w e w' x :=
  timer_death h hst hk hm hd

/-- **Along the run.**  A timer `u` of `x` that exists in `w_k` and not in `w_{k+1}` was popped by
step `k → k+1` (finished) or `x` failed in that step. -/
theorem timer_dies_only_by_failure {w : World} (h : WI w) {x : Nat} (hk : (w.dev x).kind ≠ .source)
    {k u : Nat} {r : Int} (hm : (u, r) ∈ rem (wAt w k).env x)
    (hd : ∀ r', (u, r') ∉ rem (wAt w (k + 1)).env x) :
    ∃ e, (wAt w k).step = some (e, wAt w (k + 1)) ∧
      (Pops w x k u ∨ Failed (wAt w k) e (wAt w (k + 1)) x) := by
  cases hs : (wAt w k).step with
  | none =>
    rw [wAt_succ_none hs] at hd
    exact absurd hm (hd r)
  | some q =>
    have hst := step_wAt (e := q.1) (w' := q.2) hs
    refine ⟨q.1, hs ▸ hst, ?_⟩
    rcases timer_death (wi_wAt h k) hst (by rw [kind_wAt h]; exact hk) hm hd with ⟨h1, h2, h3⟩ | hf
    · exact Or.inl ⟨q.1, _, hst, h1, h2, h3⟩
    · exact Or.inr hf

/-- **Survival.**  Any other step — a maintenance shutdown or restoration of `x` or of another
machine, any script of the class, hand-overs, other devices' events, cancelled events — keeps the
timer (same uid), takes from its remaining work exactly the time `x` was operational, and keeps the
part in process. -/
theorem timer_survives {w w' : World} {e : Event} (h : WI w) (hst : w.step = some (e, w')) {x : Nat}
    (hk : (w.dev x).kind ≠ .source) {u : Nat} {r : Int} (hm : (u, r) ∈ rem w.env x)
    (hfin : ¬ (e.live = true ∧ e.act = finAct x))
    (hfail : ¬ (e.live = true ∧ Action.ofNat e.act = .fail x)) :
    rem w'.env x = [(u, r - (if w.operational x then e.time - w.now else 0))] ∧
    (w'.dev x).part = (w.dev x).part := by
  have h' := wi_step h hst
  have hk' : (w'.dev x).kind ≠ .source := by
    rw [((step_spec h hst).choose_spec.2.2.ka x).1]; exact hk
  have hex : ∃ r', (u, r') ∈ rem w'.env x := by
    apply Classical.byContradiction
    intro hno
    rcases timer_death h hst hk hm (fun r' hr' => hno ⟨r', hr'⟩) with ⟨h1, h2, _⟩ | hf
    · exact hfin ⟨h1, h2⟩
    · exact hfail ⟨hf.live, hf.act⟩
  obtain ⟨r', hm'⟩ := hex
  have hrate := remaining_rate h hst x hk (singleton_of_mem h hk hm) hm'
  rw [singleton_of_mem h' hk' hm', hrate]
  exact ⟨rfl, timer_keeps_part h hst hk hm hm'⟩

/-- In particular a script (whatever it does: shutdowns, restorations, work orders, parameter
changes, …) never destroys or replaces a timer. -/
theorem script_keeps_timer {w w' : World} {e : Event} (h : WI w) (hst : w.step = some (e, w'))
    {x : Nat} (hk : (w.dev x).kind ≠ .source) {u : Nat} {r : Int} (hm : (u, r) ∈ rem w.env x)
    {k : Nat} (ha : Action.ofNat e.act = .script k) :
    rem w'.env x = [(u, r - (if w.operational x then e.time - w.now else 0))] ∧
    (w'.dev x).part = (w.dev x).part := by
  refine timer_survives h hst hk hm ?_ ?_
  · rintro ⟨_, h2⟩; rw [h2, ofNat_finAct] at ha; cases ha
  · rintro ⟨_, h2⟩; rw [h2] at ha; cases ha

/-- Timers are never duplicated: at most one per device in every world of the run. -/
theorem timer_never_duplicated {w : World} (h : WI w) {x : Nat} (hk : (w.dev x).kind ≠ .source)
    (k : Nat) : (rem (wAt w k).env x).length ≤ 1 :=
  rem_length_le_one (wi_wAt h k) x (by rw [kind_wAt h]; exact hk)

/-- A dead timer stays dead: uids are never reused. -/
theorem dead_stays_dead {w : World} (h : WI w) {x : Nat} (hk : (w.dev x).kind ≠ .source) {k u : Nat}
    (hu : u < (wAt w k).env.nextUid) (hd : ∀ r, (u, r) ∉ rem (wAt w k).env x) :
    ∀ m, k ≤ m → ∀ r, (u, r) ∉ rem (wAt w m).env x := by
  intro m
  induction m with
  | zero =>
    intro hkm
    have : k = 0 := by omega
    subst this; exact hd
  | succ m ih =>
    intro hkm
    by_cases hk' : k ≤ m
    · intro r hm
      cases hs : (wAt w m).step with
      | none => rw [wAt_succ_none hs] at hm; exact ih hk' r hm
      | some q =>
        have hst := step_wAt (e := q.1) (w' := q.2) hs
        obtain ⟨r0, hm0, _⟩ := rem_step (wi_wAt h m) hst x (by rw [kind_wAt h]; exact hk) hm
          (Nat.lt_of_lt_of_le hu (uid_wAt_mono h hk'))
        exact ih hk' r0 hm0
    · have : k = m + 1 := by omega
      subst this; exact hd

/-! ### 3. one part at a time -/

/-- A timing device with a part in its input slot refuses every part. -/
theorem busy_refuses {w : World} {x p : Nat} (hT : isT (w.dev x).kind = true)
    (hp : (w.dev x).part = some p) (q : Nat) : w.canAcceptBasic x q = false := by
  unfold World.canAcceptBasic
  cases hk : (w.dev x).kind <;> simp_all [isT]

/-- **One part at a time.**  Between the accept step and the finish step the input slot of the
device holds one and the same part `p` in every world, the output slot is empty, `u` is the only
timer, and the device accepts no other part (`_can_accept_part` is false); the finish step empties
the input slot and a handler or processor then has `p` in its output slot.  (A failure in between is
excluded by the hypothesis that the timer is popped: `timer_dies_only_by_failure`.) -/
theorem one_part_at_a_time {w : World} (h : WI w) {x : Nat} (hk : (w.dev x).kind ≠ .source)
    {i j u : Nat} {D : Int} (hs : Starts w x i u D) (hp : Pops w x j u) :
    ∃ p,
      (∀ k, i + 1 ≤ k → k ≤ j →
        ((wAt w k).dev x).part = some p ∧ ((wAt w k).dev x).output = none ∧
        (∃ r, rem (wAt w k).env x = [(u, r)]) ∧ ∀ q, (wAt w k).canAcceptBasic x q = false) ∧
      ((wAt w (j + 1)).dev x).part = none ∧ rem (wAt w (j + 1)).env x = [] ∧
      ((w.dev x).kind ≠ .sink → ((wAt w (j + 1)).dev x).output = some p) := by
  have hij := starts_before_pops h hs hp
  have hrem := remaining_along h hk hs hp hij
  obtain ⟨e, hst, hl, ha, hu⟩ := hp.step
  have hkk : ∀ k, ((wAt w k).dev x).kind ≠ .source := fun k => by rw [kind_wAt h]; exact hk
  obtain ⟨p, _, _, hpj, _, hT, _, hp', hr', ho'⟩ := finish_step (wi_wAt h j) hst (hkk j) hl ha
  have hTk : ∀ k, isT ((wAt w k).dev x).kind = true := fun k => by
    rw [kind_wAt h, ← kind_wAt h j]; exact hT
  -- the part is the same in all worlds of the stretch: downward from `j`
  have hpart : ∀ d k, k + d = j → i + 1 ≤ k → ((wAt w k).dev x).part = some p := by
    intro d
    induction d with
    | zero => intro k hkj _; have : k = j := by omega
              subst this; exact hpj
    | succ d ih =>
      intro k hkj hik
      obtain ⟨ek, hstk⟩ := step_earlier hst (show k ≤ j by omega)
      have h1 := hrem k hik (by omega)
      have h2 := hrem (k + 1) (by omega) (by omega)
      have := timer_keeps_part (wi_wAt h k) hstk (hkk k)
        (by rw [h1]; exact List.mem_singleton.mpr rfl) (by rw [h2]; exact List.mem_singleton.mpr rfl)
      rw [← this]; exact ih (k + 1) (by omega) (by omega)
  refine ⟨p, ?_, hp', hr', fun hne => ho' (by rw [kind_wAt h]; exact hne)⟩
  intro k h1 h2
  have hpk := hpart (j - k) k (by omega) h1
  refine ⟨hpk, ?_, ⟨_, hrem k h1 h2⟩, busy_refuses (hTk k) hpk⟩
  exact ((timer_spec (wi_wAt h k) x (hTk k)).1 p hpk).1

/-! ### 4. nothing finishes early or late -/

/-- **In every reachable state**, a pending live finish event of a device is THE timer of the device,
the device is operational with a part in process, the event is due exactly at `now + remaining
work`, and it is not overdue (`now ≤ due time`: the clock never passes a pending timer). -/
theorem pending_due_exactly {w : World} (h : WI w) {x : Nat} (hk : (w.dev x).kind ≠ .source)
    {e : Event} (he : e ∈ finE w.env x) :
    rem w.env x = [(e.uid, e.time - w.now)] ∧ w.operational x = true ∧
    (w.dev x).part.isSome = true ∧ w.now ≤ e.time := by
  have hm : (e.uid, e.time - w.now) ∈ rem w.env x := mem_rem.mpr (Or.inl ⟨e, he, rfl, rfl⟩)
  refine ⟨singleton_of_mem h hk hm, ?_, (isT_of_rem h.fi hk hm).2,
    h.fi.ei.1.future e (mem_finE.mp he).1⟩
  rw [operational_eq]; exact op_of_pending (h.fi.timer x hk) he

/-- **No early, no late, as long as the timer is alive** (whether or not the cycle is ever
finished: the device may fail later, or the run may end first).  If step `i → i+1` creates timer `u`
of `x` with delay `D` and the timer is still alive in `w_K`, then in every world `w_k` in between:
`u` is THE timer of `x`, with remaining work `D − (operational time since the accept)`, which lies
between `0` and `D`; the part in process is the accepted one; and whenever `x` is operational there,
the finish event is pending, due exactly at `accept time + D + (down time so far)`, and not
overdue. -/
theorem remaining_while_alive {w : World} (h : WI w) {x : Nat} (hk : (w.dev x).kind ≠ .source)
    {i K u : Nat} {D : Int} (hs : Starts w x i u D) (hal : ∃ r, (u, r) ∈ rem (wAt w K).env x) :
    ∀ k, i + 1 ≤ k → k ≤ K →
      rem (wAt w k).env x = [(u, D - upTime w x (i + 1) k)] ∧
      0 ≤ D - upTime w x (i + 1) k ∧ D - upTime w x (i + 1) k ≤ D ∧
      ((wAt w k).dev x).part = ((wAt w (i + 1)).dev x).part ∧
      ((wAt w k).operational x = true →
        ∃ e, finE (wAt w k).env x = [e] ∧ finP (wAt w k).env x = [] ∧ e.uid = u ∧
          e.time = (wAt w (i + 1)).now + D + downTime w x (i + 1) k ∧ (wAt w k).now ≤ e.time) := by
  intro k h1 h2
  obtain ⟨hr, hpart⟩ := remaining_from h hk hs.2 hal k h1 h2
  have hwk := wi_wAt h k
  have hkk : ((wAt w k).dev x).kind ≠ .source := by rw [kind_wAt h]; exact hk
  have hm : (u, D - upTime w x (i + 1) k) ∈ rem (wAt w k).env x := by
    rw [hr]; exact List.mem_singleton.mpr rfl
  have hsum := upTime_add_downTime w x h1
  have hnn : 0 ≤ D - upTime w x (i + 1) k := by
    rcases mem_rem.mp hm with ⟨e, he, _, hre⟩ | ⟨e, he, _, hre⟩
    · have := hwk.fi.ei.1.future e (mem_finE.mp he).1
      show 0 ≤ D - upTime w x (i + 1) k
      rw [hre]
      have : (wAt w k).env.now ≤ e.time := this
      omega
    · obtain ⟨q, hq, hq1, _⟩ := hwk.fi.ei.2 e (mem_finP.mp he).1
      rw [hre, hq]
      simp only [Option.getD_some]
      omega
  refine ⟨hr, hnn, by have := upTime_nonneg h x (i + 1) k; omega, hpart, ?_⟩
  intro hop
  obtain ⟨hT, hps⟩ := isT_of_rem hwk.fi hkk hm
  obtain ⟨p, hpp⟩ := Option.isSome_iff_exists.mp hps
  obtain ⟨e, hE, hP, hmem, _, _, _, hfut⟩ := ((timer_spec hwk x hT).1 p hpp).2.1 hop
  have hre : rem (wAt w k).env x = [(e.uid, e.time - (wAt w k).now)] := by
    unfold rem; rw [hE, hP]; rfl
  rw [hr] at hre
  simp only [List.cons.injEq, Prod.mk.injEq, and_true] at hre
  refine ⟨e, hE, hP, hre.1.symm, ?_, hfut⟩
  omega

/-- **No early, no late, along a finished cycle.**  In every world `w_k` between the accept step and
the finish step: `u` is the timer of `x` with remaining work `D − (operational time since the
accept)`, which lies between `0` and `D`; and whenever `x` is operational there, the finish event is
pending, due exactly at `accept time + D + (down time so far)`, and not overdue. -/
theorem no_early_no_late {w : World} (h : WI w) {x : Nat} (hk : (w.dev x).kind ≠ .source)
    {i j u : Nat} {D : Int} (hs : Starts w x i u D) (hp : Pops w x j u) :
    ∀ k, i + 1 ≤ k → k ≤ j →
      rem (wAt w k).env x = [(u, D - upTime w x (i + 1) k)] ∧
      0 ≤ D - upTime w x (i + 1) k ∧ D - upTime w x (i + 1) k ≤ D ∧
      ((wAt w k).operational x = true →
        ∃ e, finE (wAt w k).env x = [e] ∧ finP (wAt w k).env x = [] ∧ e.uid = u ∧
          e.time = (wAt w (i + 1)).now + D + downTime w x (i + 1) k ∧ (wAt w k).now ≤ e.time) :=
  fun k h1 h2 =>
    let ⟨a, b, c, _, d⟩ := remaining_while_alive h hk hs (alive_at_pop h hk hp) k h1 h2
    ⟨a, b, c, d⟩

/-- **The finish record is stamped exactly.**  For a processor, the finish step appends exactly one
`produced_part` record to the data log, for the part that was accepted, stamped
`accept time + D + (total time the machine was shut down in between)`. -/
theorem produced_record_exact {w : World} (h : WI w) {x : Nat} (hk : (w.dev x).kind = .processor)
    {i j u : Nat} {D : Int} (hs : Starts w x i u D) (hp : Pops w x j u) :
    ∃ p, ((wAt w (i + 1)).dev x).part = some p ∧
      (wAt w (j + 1)).recs = (wAt w j).recs ++
        [Rec.produced x ((wAt w (i + 1)).now + D + downTime w x (i + 1) (j + 1)) p
          ((wAt w (j + 1)).part p).quality ((wAt w (j + 1)).partValue p)] := by
  have hks : (w.dev x).kind ≠ .source := by rw [hk]; decide
  have hij := starts_before_pops h hs hp
  obtain ⟨p, hall, _⟩ := one_part_at_a_time h hks hs hp
  obtain ⟨e, hst, hl, ha, _⟩ := hp.step
  have hrec := finish_step_record (wi_wAt h j) hst (by rw [kind_wAt h]; exact hk) hl ha
    (hall j (by omega) (Nat.le_refl _)).1
  have hnow : (wAt w (j + 1)).now = e.time := (step_now (wi_wAt h j) hst).1
  refine ⟨p, (hall (i + 1) (Nat.le_refl _) (by omega)).1, ?_⟩
  rw [hrec, ← hnow, (cycle_time_exact h hks hs hp).2]

/-- **Not late at the end of a run.**  When `run(d)` from time `t0` has been carried through
(`C01W.run_ends_world`: the run stopped because it was terminated at `t0 + d`), no live finish event
that is still pending is due at or before `t0 + d`: every cycle whose end fell into the run has been
finished (or was ended by a failure). -/
theorem no_late_at_run_end {w0 w1 : World} {hist : List Event} {d : Int} (hr : C01W.ReachI w0 hist)
    (hb : w0.runBegin d = (w1, .ok)) (n : Nat) (ht : (runLoop n w1).env.terminated = true) (x : Nat)
    (e : Event) (he : e ∈ finE (runLoop n w1).env x) :
    (runLoop n w1).now = w0.now + d ∧ w0.now + d < e.time :=
  let h := (C01W.run_ends_world hr hb n).2.1 ht
  ⟨h.1, h.2 e (mem_finE.mp he).1⟩

/-! ### non-vacuity -/

instance (w : World) (x i u : Nat) (D : Int) : Decidable (Starts w x i u D) := by
  unfold Starts; infer_instance

/-- decidable form of `Pops` -/
def popsB (w : World) (x j u : Nat) : Bool :=
  match (wAt w j).step with
  | some (e, _) => e.live && e.act == finAct x && e.uid == u
  | none => false

theorem pops_of_popsB {w : World} {x j u : Nat} (h : popsB w x j u = true) : Pops w x j u := by
  unfold popsB at h
  split at h
  · rename_i e w' hs
    simp only [Bool.and_eq_true, beq_iff_eq] at h
    exact ⟨e, w', hs, h.1.1, h.1.2, h.2⟩
  · cases h

/-- The example line of `C06W`: source (cycle 2, two parts) → processor (cycle 5, maintenance target)
→ sink; script 0 at time 3 shuts the processor down, script 1 at time 6 restores it. -/
def ex0 : World := exWorld.simulateInit

/-- the hypotheses of all theorems hold for the example … -/
theorem wi_ex0 : WI ex0 := wi_start static'_exWorld init_exWorld
example (k : Nat) : WI (wAt ex0 k) := wi_trace wi_ex0 k

-- … the trace is the run (`runLoop_trace`): the run loop with fuel 40 ends in the world `w_13` of the
-- trace (same clock, same data log, …), with an empty queue and without error
example : (runLoop 40 ex0).now = (wAt ex0 13).now ∧ (runLoop 40 ex0).recs = (wAt ex0 13).recs ∧
    (wAt ex0 13).now = 15 ∧ (wAt ex0 13).error = none ∧ (wAt ex0 13).env.events = [] ∧
    (wAt ex0 12).env.events ≠ [] := by decide

-- the run: clock, timers of the processor, its input slot, whether it is operational, in w_0 … w_7
example : (List.range 8).map (fun k => ((wAt ex0 k).now, rem (wAt ex0 k).env 1, ((wAt ex0 k).dev 1).part,
      (wAt ex0 k).operational 1)) =
    [(0, [], none, true), (2, [], none, true), (2, [(4, 5)], some 0, true), (3, [(4, 4)], some 0, false),
     (4, [(4, 4)], some 0, false), (4, [(4, 4)], some 0, false), (6, [(4, 4)], some 0, true),
     (10, [], none, true)] := by decide

-- step 1 → 2 (time 2) creates timer 4 of the processor with delay 5; step 6 → 7 pops it
theorem starts_ex0 : Starts ex0 1 1 4 5 := by decide
theorem pops_ex0 : Pops ex0 1 6 4 := pops_of_popsB (by decide)
example : (ex0.dev 1).kind ≠ .source := by decide

-- `cycle_time_exact` on the example, by the theorem …
example : upTime ex0 1 2 7 = 5 ∧ (wAt ex0 7).now = (wAt ex0 2).now + 5 + downTime ex0 1 2 7 :=
  cycle_time_exact wi_ex0 (by decide) starts_ex0 pops_ex0
-- … and evaluated: accepted at 2, operational for 1 + 4 = 5, shut down from 3 to 6, finished at 10
example : upTime ex0 1 2 7 = 5 ∧ downTime ex0 1 2 7 = 3 ∧ (wAt ex0 2).now = 2 ∧ (wAt ex0 7).now = 10 := by
  decide
-- the cycle is NOT uninterrupted (so `cycle_time_uninterrupted` does not apply), and indeed 10 ≠ 2 + 5
example : (wAt ex0 3).operational 1 = false := by decide

/-- **Down time is added on top** (the hypothesis of `cycle_time_uninterrupted` is needed): in the
example the cycle of 5 time units that starts at time 2 ends at 10, not at 7. -/
theorem downtime_is_added_example :
    (wAt ex0 7).now ≠ (wAt ex0 2).now + 5 ∧ (wAt ex0 7).now = (wAt ex0 2).now + 5 + 3 := by decide

-- `produced_record_exact` by the theorem, and evaluated: the record is stamped 10 = 2 + 5 + 3
example := produced_record_exact wi_ex0 (x := 1) (by decide) starts_ex0 pops_ex0
example : (wAt ex0 7).recs = (wAt ex0 6).recs ++ [Rec.produced 1 10 0 1 0] := by decide

-- `starts_is_accept` by the theorem; evaluated: the delay 5 is the cycle time of the processor
example := starts_is_accept wi_ex0 (x := 1) (by decide) starts_ex0
example : (exWorld.devs.map (·.cycle)) = [2, 5, 0] ∧ startDelay (wAt ex0 1) 1 0 = 5 := by decide

-- `one_part_at_a_time` / `no_early_no_late` by the theorems; evaluated: while part 0 is in process
-- the processor refuses the second part; in w_6 (operational again) the finish event is due at
-- 10 = 2 + 5 + (down time so far: 3)
example := one_part_at_a_time wi_ex0 (x := 1) (by decide) starts_ex0 pops_ex0
example := no_early_no_late wi_ex0 (x := 1) (by decide) starts_ex0 pops_ex0
example : (wAt ex0 4).canAcceptBasic 1 1 = false ∧ (finE (wAt ex0 6).env 1).map (·.time) = [10] ∧
    downTime ex0 1 2 6 = 3 ∧ upTime ex0 1 2 6 = 1 := by decide

/-- The same line; script 0 (time 3) schedules a FAILURE of the processor at time 4. -/
def exF : World := { exWorld with scripts := [[.schedFail 1 4], [.restore 1]] }

theorem static'_exF : Static' exF where
  static := by
    refine static_line exF exSrc exProc exSink rfl rfl rfl rfl rfl rfl ?_ ?_
    · intro l hl op hop
      simp only [exF, List.mem_cons, List.mem_nil_iff, or_false] at hl
      rcases hl with rfl | rfl <;>
        (simp only [List.mem_cons, List.mem_nil_iff, or_false] at hop; subst hop
         first | trivial | (show (exF.dev 1).kind ≠ Kind.sink; decide))
    · rintro ⟨n, hn, d, hd, _⟩
      simp only [C02V.acts, exF, exWorld, exEnv, List.append_nil, List.map_cons, List.map_nil,
        List.mem_cons, List.mem_nil_iff, or_false] at hn
      rcases hn with rfl | rfl <;> simp [Action.ofNat, Action.toNat] at hd
  aids := by decide
  targets := by
    intro t ht d hd
    simp only [exF, exWorld, List.mem_cons, List.mem_nil_iff, or_false] at ht
    subst ht
    cases hd
    decide
  noPause := by decide
  noBadFail := by
    rintro ⟨n, hn, d, hd, _⟩
    simp only [C02V.acts, exF, exWorld, exEnv, List.append_nil, List.map_cons, List.map_nil,
      List.mem_cons, List.mem_nil_iff, or_false] at hn
    rcases hn with rfl | rfl <;> simp [Action.ofNat, Action.toNat] at hd

theorem init_exF : Init exF where
  slots := by decide
  procs := by decide
  noFinish := by decide
  queue := ⟨by unfold SortedEv; decide, by decide, by decide, by decide⟩
  paused := by intro e he; cases he
  err := rfl

def exF0 : World := exF.simulateInit
theorem wi_exF0 : WI exF0 := wi_start static'_exF init_exF

-- the run with the failure: timer 4 (created at time 2, delay 5) is alive in w_5 with remaining work 3
-- and gone in w_6 — the step 5 → 6 is the failure of the processor at time 4; the part is lost
example : (List.range 8).map (fun k => ((wAt exF0 k).now, rem (wAt exF0 k).env 1, ((wAt exF0 k).dev 1).part)) =
    [(0, [], none), (2, [], none), (2, [(4, 5)], some 0), (3, [(4, 4)], some 0), (4, [(4, 3)], some 0),
     (4, [(4, 3)], some 0), (4, [], none), (6, [], none)] := by decide

-- `timer_dies_only_by_failure` on the example: the timer is not popped in step 5 → 6, so the processor
-- failed (by the theorem); evaluated: the `device_failure` record names the lost part 0
example : ∃ e, (wAt exF0 5).step = some (e, wAt exF0 6) ∧
    (Pops exF0 1 5 4 ∨ Failed (wAt exF0 5) e (wAt exF0 6) 1) :=
  timer_dies_only_by_failure wi_exF0 (x := 1) (by decide) (k := 5) (u := 4) (r := 3) (by decide)
    (by intro r' hr'
        have : rem (wAt exF0 6).env 1 = [] := by decide
        rw [this] at hr'; cases hr')
example : popsB exF0 1 5 4 = false ∧
    (evAt exF0 5).map (fun e => (e.live, Action.ofNat e.act)) = some (true, Action.fail 1) ∧
    (wAt exF0 6).recs = (wAt exF0 5).recs ++ [Rec.failure 1 4 (some 0)] ∧
    ((wAt exF0 6).dev 1).shutDown = true := by decide
-- `remaining_while_alive` on the run with the failure (the cycle is never finished): alive in w_5
example := remaining_while_alive wi_exF0 (x := 1) (by decide) (i := 1) (u := 4) (D := 5) (K := 5)
  (by decide) ⟨3, by decide⟩
-- the cancelled finish event is popped later (step 8 → 9) and skipped: the timer never fires
example : (evAt exF0 8).map (fun e => (e.uid, e.act == finAct 1, e.live)) = some (4, true, false) := by
  decide
-- `timer_survives`: the script of step 2 → 3 (time 3) keeps timer 4 and takes 3 − 2 = 1 from it
example : (evAt exF0 2).map (fun e => Action.ofNat e.act) = some (Action.script 0) ∧
    rem (wAt exF0 2).env 1 = [(4, 5)] ∧ rem (wAt exF0 3).env 1 = [(4, 4)] := by decide

end C06T
end SimProc
