/-
C19D — periodic sensors sample on their grid in worlds that CONSTRUCT SENSORS WHILE RUNNING
(C19 with the late-creation clause of C20).

`Props/C19W.lean` proves the sampling theorems for every state reachable from a fresh world whose
scripts create nothing: one anchor `t0 = w0.now` for all sensors.  Here the scripts run by events (also
those run by maintenance hooks and by callbacks of the resource manager), and the operations issued
from outside between steps / between two runs, may call constructors: `create (.sensor sw)` of a
PERIODIC sensor (payload clause `sensNew`: periodic, interval not negative, not yet registered — its
stored series may be anything, initialisation resets them), `create (.maint …)`, `create .cms`.

STATIC CLASS `SDS w0`: `C18W.Static` of the world without its scripts, `C18W.Fresh`, the registration
invariant `C20W.Reg` (asset id = registration index + 1 — what makes the id handed out by a later
constructor call fresh), and the scripts are in the dynamic class `opDS`: no `pause` / `unpause` /
`cancel` of an initial scheduler / sensor id nor of an id larger than the initial registry,
constructor calls only for periodic sensors (`sensNew`), maintainers, cms.
NOT covered: `create` of devices, groups, schedulers (for those see `Props/C18D.lean`; the two
developments are not combined) and of output-part sensors (`late_output_sensor_misses_parts`: an
output-part sensor created late has not seen the parts finished before, so C19W-2 as stated fails).

REACHABLE STATES `ReachS w0 B w` carry the ANCHORS `B s` (the time at which sensor `s` was
initialised): `B s = w0.now` for the sensors of `w0` (`anchor_initial`); a sensor constructed during a
step is anchored at the time of that step (`anchor_created_step`), one constructed from outside —
e.g. between two runs — at the clock of that moment (`anchor_created_outside`); anchors never change.

1. `periodic_sensor_dyn`: `C19W.periodic_sensor_reachable` with `t0 = B s` for every periodic sensor,
   initial or constructed; `sample_step_dyn`: the sample stores the values of that moment, one
   callback result per callback in registration order.
2. `series_dyn`: `C19W.series_reachable` for every periodic sensor, initial or constructed.
3. `late_sensor_equals_early_shifted` (+ `_initial`): same interval ⇒ same sampling times shifted by
   the difference of the anchors.
4. `sensNew_interval_needed`, `idOK_needed`, `late_output_sensor_misses_parts`,
   `registered_flag_irrelevant`; non-vacuity.
Machinery: `Proofs/C19DInv.lean`, `Proofs/C19DWorld.lean`.
-/
import SimProc.Proofs.C19DWorld
import SimProc.Props.C19W

namespace SimProc
namespace C19D
open World FloorCoreL C18W C19W
open C03W (noScr)
open C18D (Ctx idOK ctxOf)

/-! ### the class, the reachable states -/

/-- **The static class.** -/
structure SDS (w : World) : Prop where
  stat : C18W.Static (noScr w)
  fresh : C18W.Fresh w
  reg : C20W.Reg w
  scr : ∀ l ∈ w.scripts, ∀ op ∈ l, opDS (tk w).ta w.assets.length op = true

/-- The states reachable from `w0`, with the anchors of the sensors. -/
inductive ReachS (w0 : World) : (Nat → Int) → World → Prop where
  | init : ReachS w0 (fun _ => w0.now) w0.simulateInit
  | step {B : Nat → Int} {w w' : World} {e : Event} : ReachS w0 B w → w.step = some (e, w') →
      ReachS w0 (stepB B w w') w'
  | run {B : Nat → Int} {w : World} (n : Nat) : ReachS w0 B w → ReachS w0 (runB n B w) (runLoop n w)
  | runBegin {B : Nat → Int} {w : World} (d : Int) : ReachS w0 B w → ReachS w0 B (w.runBegin d).1
  | ops {B : Nat → Int} {w : World} (ops : List Op) : ReachS w0 B w →
      (∀ op ∈ ops, opDS (tk w0).ta w0.assets.length op = true) → ReachS w0 (extB B w) (w.applyOps ops)

/-- **The invariant holds in every reachable state.** -/
theorem ws_reachable {w0 w : World} {B : Nat → Int} (hs : SDS w0) (hr : ReachS w0 B w) :
    WS (ctxOf w0) B w := by
  induction hr with
  | init => exact ws_init hs.stat hs.fresh hs.reg hs.scr
  | step _ hst ih => exact (ih.step hst).1
  | run n _ ih => exact (ih.runLoop n).1
  | runBegin d _ ih => exact ih.runBegin d
  | ops ops _ hops ih => exact (ih.applyOps ops hops).1

/-! ### the anchors -/

/-- The sensor list only grows; the sensors of the fresh world are anchored at its clock. -/
theorem anchor_initial {w0 w : World} {B : Nat → Int} (hs : SDS w0) (hr : ReachS w0 B w) :
    w0.sensors.length ≤ w.sensors.length ∧ ∀ s, s < w0.sensors.length → B s = w0.now := by
  induction hr with
  | init =>
    have := ginit_simulateInit hs.stat (C18D.fresh_noScr hs.fresh)
    rw [show (noScr w0).simulateInit = noScr w0.simulateInit from C03W.es_simulateInit w0 []] at this
    have hl := this.lengths.2
    simp only [sstat, List.length_map] at hl
    exact ⟨Nat.le_of_eq (Eq.symm hl), fun _ _ => rfl⟩
  | step hp hst ih =>
    have := ((ws_reachable hs hp).step hst).2
    refine ⟨by omega, fun s hlt => ?_⟩
    have : s < _ := Nat.lt_of_lt_of_le hlt ih.1
    simp [stepB, this, ih.2 s hlt]
  | run n hp ih =>
    obtain ⟨_, a, l⟩ := (ws_reachable hs hp).runLoop n
    exact ⟨by omega, fun s hlt => by rw [a s (by omega), ih.2 s hlt]⟩
  | @runBegin B1 w1 d hp ih =>
    have := (C20W.Same_runBegin w1 d).sensors_length
    exact ⟨by rw [this]; exact ih.1, ih.2⟩
  | ops ops hp hops ih =>
    obtain ⟨_, _, l⟩ := (ws_reachable hs hp).applyOps ops hops
    refine ⟨by omega, fun s hlt => ?_⟩
    have : s < _ := Nat.lt_of_lt_of_le hlt ih.1
    simp [extB, this, ih.2 s hlt]

/-- A sensor constructed during a step (by a script) is anchored at the time of that step; the others
keep their anchors. -/
theorem anchor_created_step (B : Nat → Int) (w w' : World) (s : Nat) :
    (w.sensors.length ≤ s → stepB B w w' s = w'.now) ∧ (s < w.sensors.length → stepB B w w' s = B s) := by
  constructor
  · intro h; simp [stepB, Nat.not_lt.mpr h]
  · intro h; simp [stepB, h]

/-- A sensor constructed from outside — e.g. after a run has ended — is anchored at the clock of that
moment (the end time of the previous run); the others keep their anchors. -/
theorem anchor_created_outside (B : Nat → Int) (w : World) (s : Nat) :
    (w.sensors.length ≤ s → extB B w s = w.now) ∧ (s < w.sensors.length → extB B w s = B s) := by
  constructor
  · intro h; simp [extB, Nat.not_lt.mpr h]
  · intro h; simp [extB, h]

/-- Running the loop keeps the anchors of the sensors that exist. -/
theorem anchor_run {w0 w : World} {B : Nat → Int} (hs : SDS w0) (hr : ReachS w0 B w) (n : Nat) (s : Nat)
    (h : s < w.sensors.length) : runB n B w s = B s :=
  ((ws_reachable hs hr).runLoop n).2.1 s h

/-- What a constructor call for a sensor does in a started world: the sensor is appended with the next
asset id, registered, and initialised at once. -/
theorem create_sensor_spec (w : World) (sw : SensorW) (hst : w.started = true) :
    (w.applyOp (.create (.sensor sw))).1 =
      (regSens w (newSens w sw)).initAsset (.sensor w.sensors.length) :=
  addSens_eq w sw hst

/-- **The clause `registered = false` of `sensNew` loses no generality**: in a started world a constructor
call for a periodic sensor does exactly the same whatever the `registered` flag of the payload is
(initialisation raises the flag at once and, for a periodic sensor, does not read it).  The clause is
there because the registry invariant `C20W.Reg` is stated for constructor-fresh payloads. -/
theorem registered_flag_irrelevant (w : World) (sw : SensorW) (hst : w.started = true)
    (hk : sw.s.kind = .periodic) :
    w.addAsset (.sensor sw) = w.addAsset (.sensor { sw with registered := false }) := by
  rw [addSens_eq w sw hst, addSens_eq w _ hst]
  unfold initAsset regSens newSens
  simp only [getD_append_singleton, hk]
  congr 1
  simp

/-! ### C19D-1: periodic sensors, initial or constructed -/

/-- **C19D-1.**  `C19W.periodic_sensor_reachable` for every periodic sensor `s` that exists in a
reachable state — present from the start or constructed at time `B s` while running / between two
runs.  There is a sample log `(time, values, callbacks)` such that
* the `k`-th sample (`k = 0, 1, …`) was taken at `B s + (k+1)·interval`, not after the clock, with one
  value per variable of the sensor;
* the sensor's state is exactly its reset state after these samples (`C19.runPeriodic`);
* the `.sense` results of the sensor are exactly one per sample and callback registered at that
  moment, in registration order (the callbacks of a sample are a prefix of the present ones);
* exactly one `.periodicSense s` event exists: pending, not paused, live, with the sensor's asset id
  and priority `SENSOR`, due at `B s + (K+1)·interval` after `K` samples — not before the clock. -/
theorem periodic_sensor_dyn {w0 w : World} {B : Nat → Int} (hs : SDS w0) (hr : ReachS w0 B w)
    {s : Nat} (hl : s < w.sensors.length) (hk : (w.sensors.getD s default).s.kind = .periodic) :
    ∃ log : SLog,
      (w.sensors.getD s default).s =
        C19.runPeriodic (w.sensors.getD s default).s.reset (samples log) ∧
      log.map (·.1) = (List.range log.length).map
        (fun (k : Nat) => B s + ((k : Int) + 1) * (w.sensors.getD s default).s.interval) ∧
      (∀ x ∈ log, x.2.1.length = (w.sensors.getD s default).vars.length ∧ x.1 ≤ w.now ∧
        x.2.2 <+: (w.sensors.getD s default).s.cbs) ∧
      senseResults w s = logRes s log ∧
      ∃ e, senseEvents w s = [e] ∧ sensePaused w s = [] ∧ e.cancelled = false ∧
        e.time = B s + ((log.length : Int) + 1) * (w.sensors.getD s default).s.interval ∧
        w.now ≤ e.time ∧ e.asset = (w.sensors.getD s default).aid ∧ e.prio = pSensor := by
  have hw := ws_reachable hs hr
  have hpi := ((hw.gs.sens s).1 hl).1 hk
  have hq := hw.inv
  obtain ⟨log, h1, h2, h3, h4, h5, h6, ⟨e, h7, h8, h9, h10, h11⟩, h12⟩ := hpi.ex
  rw [show (tk (noScr w)).sensors = w.sensors from rfl] at h1 h2 h3 h5 h8 h10
  rw [show (tk (noScr w)).resT = (tk w).resT from rfl, senseResults_tk] at h4
  refine ⟨log, h1, h2, fun x hx => ⟨h3 x hx, h6 x hx, h5 x hx⟩, h4, e, h7, h12, h9, h8, ?_, h10, h11⟩
  have hm : e ∈ w.env.events.filter (psEv s) := by
    rw [show w.env.events.filter (psEv s) = [e] from h7]; simp
  exact hq.future e (List.mem_filter.mp hm).1

/-- **C19D-1, the sample.**  A step that executes the `.periodicSense s` event `ev` in a reachable
state `w`: `s` exists, the event is live; the sensor stores `ev.time` and the values of its variables
AS THEY ARE IN `w`; every callback registered at that moment gets exactly one
`.sense s cb ev.time values` result, in registration order, and nothing else is appended to the
results of the sensor. -/
theorem sample_step_dyn {w0 w w' : World} {B : Nat → Int} {ev : Event} (hs : SDS w0)
    (hr : ReachS w0 B w) (hst : w.step = some (ev, w')) {s : Nat} (hev : psEv s ev = true) :
    ev.cancelled = false ∧ s < w.sensors.length ∧
    (w.sensors.getD s default).s.kind = .periodic ∧
    (w'.sensors.getD s default).s = (w.sensors.getD s default).s.periodic ev.time
      ((w.sensors.getD s default).vars.map (fun k => w.svars.getD k 0)) ∧
    senseResults w' s = senseResults w s ++ (w.sensors.getD s default).s.cbs.map (fun cb =>
      Res.sense s cb ev.time ((w.sensors.getD s default).vars.map (fun k => w.svars.getD k 0))) := by
  have hw := ws_reachable hs hr
  obtain ⟨es, he, rfl⟩ := step_cases hst
  have hown := hw.gs.owner (x := ev) (by rw [he]; simp) (psEv_tracked hev)
  rcases hown with ⟨s2, h1, _⟩ | ⟨s2, h1, h2, _, hk, _⟩
  · rw [psEv_not_suEv h1] at hev; cases hev
  · have : s2 = s := by
      have a1 : ev.act = 10 + 16 * s := by simpa [psEv] using hev
      have a2 : ev.act = 10 + 16 * s2 := by simpa [psEv] using h1
      omega
    subst this
    have hnow : w.env.now ≤ ev.time := hw.inv.future ev (by rw [he]; exact List.mem_cons_self)
    obtain ⟨_, hcan, _⟩ := (((hw.gs.sens s2).1 h2).1 hk).pop he hev hnow false
    have hlive : ev.live = true := by simp [Event.live, hcan]
    have hact : ev.act = 10 + 16 * s2 := by simpa [psEv] using hev
    rw [if_pos hlive, hact, ofNat_ps]
    have ha := periodicSense_refines (noScr ({ w with env := popEnv w.env ev es } : World)) s2
      (hw.gs.sok.ivl_at s2 hk)
    rw [show (noScr ({ w with env := popEnv w.env ev es } : World)).periodicSense s2 =
      noScr (({ w with env := popEnv w.env ev es } : World).periodicSense s2) from
      C03W.es_periodicSense _ [] _] at ha
    rw [show ({ w with env := popEnv w.env ev es } : World).exec (Action.periodicSense s2) =
      ({ w with env := popEnv w.env ev es } : World).periodicSense s2 from rfl]
    generalize ({ w with env := popEnv w.env ev es } : World).periodicSense s2 = w2 at ha ⊢
    refine ⟨hcan, h2, hk, ?_⟩
    generalize hE : (noScr w2).env = e' at ha
    generalize hC : tk (noScr w2) = c' at ha
    cases ha with
    | mk wt hi =>
      have hsens := congrArg TK.sensors hC
      have hres := congrArg TK.resT hC
      refine ⟨?_, ?_⟩
      · rw [show w2.sensors = (tk (noScr w2)).sensors from rfl, hsens]
        exact congrArg SensorW.s (getD_set_same _ _ _ _ (show s2 < w.sensors.length from h2))
      · rw [← senseResults_tk w2, show (tk w2).resT = (tk (noScr w2)).resT from rfl, hres]
        dsimp only
        rw [senseLog_append, senseLog_self]
        show senseLog (tk w).resT s2 ++ _ = _
        rw [senseResults_tk]
        rfl

/-! ### C19D-2: the series -/

/-- **C19D-2.**  `C19W.series_reachable` for every periodic sensor, initial or constructed: with one
probe per variable and a data capacity `c ≥ 1` (or none), the time column and every data column hold
exactly the most recent `min(K, c)` samples — the sample times `B s + interval, B s + 2·interval, …`
and the values probed then — so all columns have the same length. -/
theorem series_dyn {w0 w : World} {B : Nat → Int} (hs : SDS w0) (hr : ReachS w0 B w)
    {s : Nat} (hl : s < w.sensors.length) (hk : (w.sensors.getD s default).s.kind = .periodic)
    (hc : ∀ c, (w.sensors.getD s default).s.cap = some c → 1 ≤ c)
    (hn : (w.sensors.getD s default).vars.length = (w.sensors.getD s default).s.nprobes) :
    ∃ smp : List (Int × List Int),
      smp.map (·.1) = (List.range smp.length).map
        (fun (k : Nat) => B s + ((k : Int) + 1) * (w.sensors.getD s default).s.interval) ∧
      (w.sensors.getD s default).s.time = C19.lastN (w.sensors.getD s default).s.cap (smp.map (·.1)) ∧
      (w.sensors.getD s default).s.data =
        (List.range (w.sensors.getD s default).s.nprobes).map
          (fun j => C19.lastN (w.sensors.getD s default).s.cap (smp.map (fun x => x.2.getD j 0))) ∧
      ∀ l ∈ (w.sensors.getD s default).s.data, l.length = (w.sensors.getD s default).s.time.length := by
  obtain ⟨log, h1, h2, h3, _⟩ := periodic_sensor_dyn hs hr hl hk
  have hs' : ∀ x ∈ samples log, x.2.length = (w.sensors.getD s default).s.nprobes := by
    intro x hx
    obtain ⟨y, hy, rfl⟩ := List.mem_map.mp hx
    rw [← hn]
    exact (h3 y hy).1
  obtain ⟨w1, w2⟩ := C19.series_window (w.sensors.getD s default).s (samples log) hc hs'
  have w3 := C19.series_aligned (w.sensors.getD s default).s (samples log) hc hs'
  rw [← h1] at w1 w2 w3
  refine ⟨samples log, ?_, w1, w2, w3⟩
  have : (samples log).map (·.1) = log.map (·.1) := by simp [samples]
  rw [this, h2]
  simp [samples]

/-! ### C19D-3: late = early, shifted -/

/-- **Late equals early, shifted.**  Two periodic sensors with the same interval — `s` in a state
reachable from `w0`, `s'` in a state reachable from `w0'` (possibly the same world): there are sample
logs of both (state = reset state after the samples, `.sense` results = one per sample and callback)
such that the `k`-th sampling time of `s` is the `k`-th sampling time of `s'` shifted by the difference
`B s - B' s'` of the anchors, and if they have taken the same number of samples, the pending event of
`s` is due at the time of the pending event of `s'` plus that difference. -/
theorem late_sensor_equals_early_shifted {w0 w w0' w' : World} {B B' : Nat → Int} (hs : SDS w0)
    (hr : ReachS w0 B w) (hs' : SDS w0') (hr' : ReachS w0' B' w') {s s' : Nat}
    (hl : s < w.sensors.length) (hl' : s' < w'.sensors.length)
    (hk : (w.sensors.getD s default).s.kind = .periodic)
    (hk' : (w'.sensors.getD s' default).s.kind = .periodic)
    (hint : (w.sensors.getD s default).s.interval = (w'.sensors.getD s' default).s.interval) :
    ∃ log log' : SLog,
      (w.sensors.getD s default).s =
        C19.runPeriodic (w.sensors.getD s default).s.reset (samples log) ∧
      senseResults w s = logRes s log ∧
      (w'.sensors.getD s' default).s =
        C19.runPeriodic (w'.sensors.getD s' default).s.reset (samples log') ∧
      senseResults w' s' = logRes s' log' ∧
      (∀ k, k < log.length → k < log'.length →
        (log.map (·.1))[k]? = ((log'.map (·.1))[k]?).map (fun t => t + (B s - B' s'))) ∧
      (log.length = log'.length → ∀ e e', senseEvents w s = [e] → senseEvents w' s' = [e'] →
        e.time = e'.time + (B s - B' s')) := by
  obtain ⟨log, a1, a2, _, a4, x, a5, _, _, a8, _⟩ := periodic_sensor_dyn hs hr hl hk
  obtain ⟨log', b1, b2, _, b4, x', b5, _, _, b8, _⟩ := periodic_sensor_dyn hs' hr' hl' hk'
  refine ⟨log, log', a1, a4, b1, b4, ?_, ?_⟩
  · intro k hk1 hk2
    rw [a2, b2, List.getElem?_map, List.getElem?_map, List.getElem?_range hk1,
      List.getElem?_range hk2, hint]
    simp only [Option.map_some, Option.some.injEq]
    omega
  · intro hK e e' he he'
    rw [he] at a5
    rw [he'] at b5
    have e1 : e = x := by simpa using a5
    have e2 : e' = x' := by simpa using b5
    rw [e1, e2, a8, b8, hint, hK]
    omega

/-- … in particular for a sensor constructed at `tc = B s` and a sensor with the same interval present
from the start of another world `w0'`: the shift is `tc - w0'.now`. -/
theorem late_sensor_equals_early_shifted_initial {w0 w w0' w' : World} {B B' : Nat → Int} (hs : SDS w0)
    (hr : ReachS w0 B w) (hs' : SDS w0') (hr' : ReachS w0' B' w') {s s' : Nat}
    (hl : s < w.sensors.length) (hl' : s' < w0'.sensors.length)
    (hk : (w.sensors.getD s default).s.kind = .periodic)
    (hk' : (w'.sensors.getD s' default).s.kind = .periodic)
    (hint : (w.sensors.getD s default).s.interval = (w'.sensors.getD s' default).s.interval) :
    ∃ log log' : SLog,
      (w.sensors.getD s default).s =
        C19.runPeriodic (w.sensors.getD s default).s.reset (samples log) ∧
      senseResults w s = logRes s log ∧
      (w'.sensors.getD s' default).s =
        C19.runPeriodic (w'.sensors.getD s' default).s.reset (samples log') ∧
      senseResults w' s' = logRes s' log' ∧
      (∀ k, k < log.length → k < log'.length →
        (log.map (·.1))[k]? = ((log'.map (·.1))[k]?).map (fun t => t + (B s - w0'.now))) := by
  obtain ⟨l, a⟩ := anchor_initial hs' hr'
  rw [← a s' hl']
  obtain ⟨log, log', h1, h2, h3, h4, h5, _⟩ :=
    late_sensor_equals_early_shifted hs hr hs' hr' hl (by omega) hk hk' hint
  exact ⟨log, log', h1, h2, h3, h4, h5⟩

/-! ### non-vacuity -/

/-- A processor (asset id 1), a periodic sensor (asset id 2, interval 3, capacity 2, probing variable
0) and a cms (asset id 3).  Script 0, run at time 5, sets variable 0 to 42, constructs a second
periodic sensor (interval 2, no capacity bound; it receives asset id 4) and registers the cms as a
callback of the new sensor. -/
def exW : World :=
  { devs := [{ kind := .processor, aid := 1 }]
    sensors := [{ s := { kind := .periodic, interval := 3, cap := some 2, nprobes := 1 }, aid := 2, vars := [0] }]
    cmsSensors := [[]]
    assets := [.dev 0, .sensor 0, .cms 0]
    scripts := [[.setVar 0 42,
                 .create (.sensor { s := { kind := .periodic, interval := 2, nprobes := 1 }, vars := [0] }),
                 .addSensor 0 1]]
    env := { terminated := false, nextUid := 1
             events := [{ uid := 0, time := 5, prio := pOtherLow, weight := 0, asset := -1,
                          act := (Action.script 0).toNat }] } }

theorem sds_exW : SDS exW where
  stat := ⟨by decide, by decide, by decide, by decide, by decide, by decide⟩
  fresh := ⟨rfl, ⟨by unfold SortedEv; decide, by decide, by decide, by decide⟩, by decide, by decide,
    by decide, by decide, by decide, by decide⟩
  reg := by decide
  scr := by decide

/-- first run: initialise, run for 12 time units -/
def ex1 : World := runLoop 40 (exW.simulateInit.runBegin 12).1
/-- between two runs a third periodic sensor (interval 3 like the initial one, capacity 1) is constructed from outside -/
def ex2 : World := ex1.applyOps
  [.create (.sensor { s := { kind := .periodic, interval := 3, nprobes := 1, cap := some 1 }, vars := [0] })]
/-- second run: 10 more time units -/
def ex3 : World := runLoop 40 (ex2.runBegin 10).1

def exB1 : Nat → Int := runB 40 (fun _ => exW.now) (exW.simulateInit.runBegin 12).1
def exB2 : Nat → Int := extB exB1 ex1
def exB3 : Nat → Int := runB 40 exB2 (ex2.runBegin 10).1

theorem reach_ex1 : ReachS exW exB1 ex1 := .run 40 (.runBegin 12 .init)
theorem reach_ex2 : ReachS exW exB2 ex2 := .ops _ reach_ex1 (by decide)
theorem reach_ex3 : ReachS exW exB3 ex3 := .run 40 (.runBegin 10 reach_ex2)

-- the first run ends at 12 with two sensors: the initial one anchored at 0 (samples at 3, 6, 9, 12; the
-- capacity window keeps the last two), the one constructed by the script anchored at 5 (samples at
-- 5 + 2k = 7, 9, 11, one callback result each), next samples pending at 15 and 13
example : ex1.now = 12 ∧ ex1.sensors.length = 2 ∧ exB1 0 = 0 ∧ exB1 1 = 5 ∧
    (ex1.sensors.getD 0 default).s.time = [9, 12] ∧ (ex1.sensors.getD 0 default).s.data = [[42, 42]] ∧
    (ex1.sensors.getD 1 default).s.time = [7, 9, 11] ∧
    senseResults ex1 1 = [.sense 1 1000 7 [42], .sense 1 1000 9 [42], .sense 1 1000 11 [42]] ∧
    (senseEvents ex1 0).map (fun e => (e.time, e.asset, e.cancelled)) = [(15, 2, false)] ∧
    (senseEvents ex1 1).map (fun e => (e.time, e.asset, e.cancelled)) = [(13, 4, false)] := by decide

-- the third sensor, constructed between the runs, is anchored at the end time 12 of the first run
example : ex2.now = 12 ∧ ex2.sensors.length = 3 ∧ exB2 2 = 12 ∧ exB2 1 = 5 ∧ exB2 0 = 0 ∧
    (senseEvents ex2 2).map (fun e => (e.time, e.asset, e.cancelled)) = [(15, 5, false)] := by decide

-- after the second run (clock 22) it has sampled at 15, 18 and 21 (capacity 1 keeps the last one)
example : ex3.now = 22 ∧ exB3 2 = 12 ∧ exB3 1 = 5 ∧ (ex3.sensors.getD 2 default).s.time = [21] ∧
    (ex3.sensors.getD 1 default).s.time = [7, 9, 11, 13, 15, 17, 19, 21] ∧
    (senseEvents ex3 2).map (fun e => (e.time, e.asset, e.cancelled)) = [(24, 5, false)] := by decide

/-- `periodic_sensor_dyn` instantiated for the sensor constructed at 5: it has taken exactly the samples
at 7, 9, 11 and its pending event is due at 5 + 4·2 = 13. -/
example : ∃ log : SLog, log.map (·.1) = [7, 9, 11] ∧ senseResults ex1 1 = logRes 1 log ∧
    ∃ e, senseEvents ex1 1 = [e] ∧ e.cancelled = false ∧ e.time = 13 ∧ e.asset = 4 := by
  obtain ⟨log, _, h2, _, h4, e, h5, _, h7, h8, _, h10, _⟩ :=
    periodic_sensor_dyn sds_exW reach_ex1 (s := 1) (by decide) (by decide)
  have hm : e ∈ senseEvents ex1 1 := by rw [h5]; simp
  have ht : e.time = 13 := (by decide : ∀ x ∈ senseEvents ex1 1, x.time = 13) e hm
  have hb : exB1 1 = 5 := by decide
  have hi : (ex1.sensors.getD 1 default).s.interval = 2 := by decide
  rw [ht, hb, hi] at h8
  have hlen : log.length = 3 := by omega
  rw [hlen, hb, hi] at h2
  exact ⟨log, by rw [h2]; decide, h4, e, h5, h7, ht, by rw [h10]; decide⟩

/-- `series_dyn` instantiated for the sensor constructed between the runs (capacity 1). -/
example : ∀ l ∈ (ex3.sensors.getD 2 default).s.data, l.length = (ex3.sensors.getD 2 default).s.time.length := by
  obtain ⟨_, _, _, _, h⟩ := series_dyn sds_exW reach_ex3 (s := 2) (by decide) (by decide) (by decide)
    (by decide)
  exact h

/-- `sample_step_dyn` instantiated: the step taken from the end of the first run (after the second
`runBegin`) executes the event of the constructed sensor 1 due at 13. -/
example : ∃ ev w', (ex2.runBegin 10).1.step = some (ev, w') ∧ psEv 1 ev = true ∧
    senseResults w' 1 = senseResults ex2 1 ++ [.sense 1 1000 13 [42]] := by
  have hex : ((ex2.runBegin 10).1.step.map (fun p => (psEv 1 p.1, p.1.time))) = some (true, 13) := by decide
  cases hst : (ex2.runBegin 10).1.step with
  | none => rw [hst] at hex; cases hex
  | some q =>
    obtain ⟨ev, w'⟩ := q
    rw [hst] at hex
    simp only [Option.map_some, Option.some.injEq, Prod.mk.injEq] at hex
    have := (sample_step_dyn sds_exW (.runBegin 10 reach_ex2) hst hex.1).2.2.2.2
    refine ⟨ev, w', rfl, hex.1, ?_⟩
    rw [this, hex.2]
    decide

/-- `late_sensor_equals_early_shifted_initial` instantiated: the sensor constructed from outside at 12
(interval 3) against the initial sensor (interval 3, anchored at 0): its sampling times are those of the
initial sensor shifted by 12. -/
example : ∃ log log' : SLog, senseResults ex3 2 = logRes 2 log ∧ senseResults ex1 0 = logRes 0 log' ∧
    ∀ k, k < log.length → k < log'.length →
      (log.map (·.1))[k]? = ((log'.map (·.1))[k]?).map (fun t => t + (12 - 0)) := by
  obtain ⟨log, log', _, h2, _, h4, h5⟩ :=
    late_sensor_equals_early_shifted_initial sds_exW reach_ex3 sds_exW reach_ex1 (s := 2) (s' := 0)
      (by decide) (by decide) (by decide) (by decide) (by decide)
  refine ⟨log, log', h2, h4, ?_⟩
  have hb : exB3 2 = 12 := by decide
  have hn : exW.now = 0 := by decide
  rw [hb, hn] at h5
  exact h5

/-! #### the clauses are needed -/

/-- **The interval clause of `sensNew` is needed**: a script constructs a periodic sensor with a
negative interval; every other clause of the class holds.  The request for its first sample lies in the
past and is rejected: the constructed sensor exists, is periodic, and has no pending event. -/
theorem sensNew_interval_needed :
    let sw : SensorW := { s := { kind := .periodic, interval := -1, nprobes := 1 }, vars := [0] }
    let w : World := { exW with scripts := [[.create (.sensor sw)]] }
    C18W.Static (noScr w) ∧ C18W.Fresh w ∧ C20W.Reg w ∧ sensNew sw = false ∧
    sw.registered = false ∧ sw.s.kind = .periodic ∧
    (runLoop 2 w.simulateInit).sensors.length = 2 ∧
    ((runLoop 2 w.simulateInit).sensors.getD 1 default).s.kind = .periodic ∧
    senseEvents (runLoop 2 w.simulateInit) 1 = [] ∧
    (runLoop 2 w.simulateInit).error = some "sched-past" := by
  refine ⟨⟨by decide, by decide, by decide, by decide, by decide, by decide⟩,
    ⟨rfl, ⟨by unfold SortedEv; decide, by decide, by decide, by decide⟩, by decide, by decide,
      by decide, by decide, by decide, by decide⟩, by decide, by decide, by decide, by decide, by decide,
    by decide, by decide, by decide⟩

/-- **The bound on paused ids is needed**: a script constructs a sensor (it receives asset id 4, one
more than the initial registry) and pauses id 4: the sensor's event is paused. -/
theorem idOK_needed :
    let sw : SensorW := { s := { kind := .periodic, interval := 2, nprobes := 1 }, vars := [0] }
    let w : World := { exW with scripts := [[.create (.sensor sw), .pause 4]] }
    C18W.Static (noScr w) ∧ C18W.Fresh w ∧ C20W.Reg w ∧ sensNew sw = true ∧
    idOK (tk w).ta w.assets.length 4 = false ∧ (!(tk w).ta.contains 4) = true ∧
    senseEvents (runLoop 2 w.simulateInit) 1 = [] ∧
    (sensePaused (runLoop 2 w.simulateInit) 1).length = 1 := by
  refine ⟨⟨by decide, by decide, by decide, by decide, by decide, by decide⟩,
    ⟨rfl, ⟨by unfold SortedEv; decide, by decide, by decide, by decide⟩, by decide, by decide,
      by decide, by decide, by decide, by decide⟩, by decide, by decide, by decide, by decide, by decide,
    by decide⟩

/-- an output-part sensor on the processor of `C18W.exW` (probing quality and value of every part) -/
def swO : SensorW := { s := { kind := .output, interval := 0, nprobes := 2 }, proc := 1, attrs := [0, 1] }
/-- the line of `C18W.exW`; script 0, run at time 9, constructs the output-part sensor `swO` -/
def wO : World :=
  { C18W.exW with
    scripts := [[.create (.sensor swO)]]
    env := { terminated := false, nextUid := 1
             events := [{ uid := 0, time := 9, prio := pOtherLow, weight := 0, asset := -1,
                          act := (Action.script 0).toNat }] } }

/-- **The kind clause of `sensNew`**: an output-part sensor constructed at time 9 (every other clause
holds) has not seen the parts its processor finished at 5 and 8: its state is NOT its reset state after
one `outStep` per `produced` record of the processor, so `C19W.output_sensor_reachable` as stated fails
for sensors constructed late. -/
theorem late_output_sensor_misses_parts :
    C18W.Static (noScr wO) ∧ C18W.Fresh wO ∧ C20W.Reg wO ∧ sensNew swO = false ∧
    swO.registered = false ∧ 0 ≤ swO.s.interval ∧
    (runLoop 50 wO.simulateInit).sensors.length = 3 ∧
    ((runLoop 50 wO.simulateInit).sensors.getD 2 default).s.kind = .output ∧
    produced (runLoop 50 wO.simulateInit) 1 = [(5, 1, 5), (8, 1, 5), (11, 1, 5)] ∧
    ((runLoop 50 wO.simulateInit).sensors.getD 2 default).s.data = [[1], [5]] ∧
    (outRun [0, 1] ((runLoop 50 wO.simulateInit).sensors.getD 2 default).s.reset
      (produced (runLoop 50 wO.simulateInit) 1)).data = [[1, 1, 1], [5, 5, 5]] := by
  refine ⟨⟨by decide, by decide, by decide, by decide, by decide, by decide⟩,
    ⟨rfl, ⟨by unfold SortedEv; decide, by decide, by decide, by decide⟩, by decide, by decide,
      by decide, by decide, by decide, by decide⟩, by decide, by decide, by decide, by decide, by decide,
    by decide, by decide, by decide, by decide⟩
end C19D
end SimProc
