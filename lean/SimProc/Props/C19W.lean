/-
C19W — sensors sample when they should and keep bounded, aligned data, closed-world.

`Props/C19.lean` proves the behaviour of the `Sensor` component alone.  Here: the world glue
(`World.periodicSense`, `initAsset (.sensor s)`, `senseOutput` inside a processor's `finishCycle`,
the actions `.periodicSense s`, the scripted operations `setVar` / `addSensor`) in EVERY state
reachable (`C18W.Reachable`) from a fresh world (`C18W.Fresh`) of the static class
(`C18W.Static`, see `Props/C18W.lean`), for every topology, parameter choice, script and
tie-break weight.

1. `periodic_sensor_reachable` (C19W-1): a registered periodic sensor has taken its `k`-th sample
   at `t0 + (k+1)·interval`, its state is its reset state after those samples (`C19.runPeriodic`),
   its `.sense` results are one per sample and callback registered at that moment, and exactly one
   `.periodicSense s` event is pending, due one interval after the last sample;
   `series_reachable` (`C19.series_window`, `C19.series_aligned` in every reachable state);
   `sample_step` (a sample stores the values of the sensor's variables as they are when the event
   runs; every callback gets exactly one result), `no_sample_elsewhere`.
2. `output_sensor_reachable` (C19W-2): a registered output-part sensor sits exactly once in the
   sensor list of its processor and nowhere else; its state is its reset state after one `outStep`
   (count, measure if it is its turn) per `produced` record of the processor;
   `output_samples_reachable` with `decision_pattern` (`C19.output_pattern` lifted): with sensing
   interval `n ≥ 0` exactly the parts number 0, n+1, 2(n+1), … the processor has finished since
   initialisation are measured; `finishCycle_senses` / `prod_sensor` (what `senseOutput` does per
   `finishCycle`).
Machinery: `Proofs/C18W*.lean`, `Proofs/C19W{Inv,Global,Step}.lean`.
-/
import SimProc.Proofs.C19WStep
import SimProc.Props.C18W

namespace SimProc
namespace C19W
open World FloorCoreL C18W

/-! ### vocabulary -/

/-- the pending `.periodicSense s` events -/
def senseEvents (w : World) (s : Nat) : List Event := w.env.events.filter (psEv s)
/-- the paused `.periodicSense s` events -/
def sensePaused (w : World) (s : Nat) : List Event := w.env.paused.filter (psEv s)
/-- the `.sense` results of sensor `s` -/
def senseResults (w : World) (s : Nat) : List Res := senseLog w.results s
/-- the parts device `x` has finished: (time, quality, value) of its `produced` records -/
def produced (w : World) (x : Nat) : List (Int × Int × Int) := prodLog w.recs x

theorem senseResults_tk (w : World) (s : Nat) : senseLog (tk w).resT s = senseResults w s :=
  senseLog_filter w.results s
theorem produced_tk (w : World) (x : Nat) : prodLog (tk w).recsT x = produced w x :=
  prodLog_filter w.recs x

/-! ### the invariants in every reachable state -/

/-- The static data of a sensor never change. -/
theorem sensor_static {w0 w : World} (hs : Static w0) (hf : Fresh w0) (hr : Reachable w0 w) (s : Nat) :
    (w.sensors.getD s default).aid = (w0.sensors.getD s default).aid ∧
    (w.sensors.getD s default).vars = (w0.sensors.getD s default).vars ∧
    (w.sensors.getD s default).proc = (w0.sensors.getD s default).proc ∧
    (w.sensors.getD s default).attrs = (w0.sensors.getD s default).attrs ∧
    (w.sensors.getD s default).s.kind = (w0.sensors.getD s default).s.kind ∧
    (w.sensors.getD s default).s.interval = (w0.sensors.getD s default).s.interval ∧
    (w.sensors.getD s default).s.cap = (w0.sensors.getD s default).s.cap ∧
    (w.sensors.getD s default).s.nprobes = (w0.sensors.getD s default).s.nprobes ∧
    w.sensors.length = w0.sensors.length ∧ w.devs.length = w0.devs.length := by
  have h := wi_reachable hs hf hr
  have := sensS_of_sstat h.ss s
  simp only [sensS, Prod.mk.injEq] at this
  obtain ⟨h1, h2, h3, h4, h5, h6, h7, h8⟩ := this
  have hl := lengths_of_sstat h.ss
  exact ⟨h1, h2, h3, h4, h5, h6, h7, h8, hl.2.1, by simpa [tk] using hl.2.2⟩

theorem sensInv_reachable {w0 w : World} (hs : Static w0) (hf : Fresh w0) (hr : Reachable w0 w)
    {s : Nat} (hl : AssetRef.sensor s ∈ w0.assets) :
    ((w.sensors.getD s default).s.kind = .periodic → PI w0.now w.env (tk w) s) ∧
    ((w.sensors.getD s default).s.kind = .output → OI w.env (tk w) s) := by
  have h := wi_reachable hs hf hr
  have hlt : s < w0.sensors.length := (refs_of_static hs).2 s hl
  exact (h.gi.sens s).1 ⟨by rw [(lengths_of_sstat h.ss).2.1]; exact hlt, hl⟩

/-! ### C19W-1: periodic sensors -/

/-- **C19W-1.**  For every registered periodic sensor `s` in every reachable state there is a sample
log `(time, values, callbacks)` such that
* the `k`-th sample (`k = 0, 1, …`) was taken at `t0 + (k+1)·interval`, not after the clock, with one
  value per variable of the sensor;
* the sensor's state — data columns, time column, last values — is exactly its reset state after
  these samples (`C19.runPeriodic`);
* the `.sense` results of the sensor are exactly one per sample and callback registered at that
  moment, in order (the callbacks of a sample are a prefix of the present ones);
* exactly one `.periodicSense s` event exists: pending, not paused, not cancelled, with the
  sensor's asset id and priority `SENSOR`, due at `t0 + (K+1)·interval` after `K` samples — not
  before the clock. -/
theorem periodic_sensor_reachable {w0 w : World} (hs : Static w0) (hf : Fresh w0)
    (hr : Reachable w0 w) {s : Nat} (hl : AssetRef.sensor s ∈ w0.assets)
    (hk : (w0.sensors.getD s default).s.kind = .periodic) :
    ∃ log : SLog,
      (w.sensors.getD s default).s =
        C19.runPeriodic (w.sensors.getD s default).s.reset (samples log) ∧
      log.map (·.1) = (List.range log.length).map
        (fun (k : Nat) => w0.now + ((k : Int) + 1) * (w0.sensors.getD s default).s.interval) ∧
      (∀ x ∈ log, x.2.1.length = (w0.sensors.getD s default).vars.length ∧ x.1 ≤ w.now ∧
        x.2.2 <+: (w.sensors.getD s default).s.cbs) ∧
      senseResults w s = logRes s log ∧
      ∃ e, senseEvents w s = [e] ∧ sensePaused w s = [] ∧ e.cancelled = false ∧
        e.time = w0.now + ((log.length : Int) + 1) * (w0.sensors.getD s default).s.interval ∧
        w.now ≤ e.time ∧ e.asset = (w.sensors.getD s default).aid ∧ e.prio = pSensor := by
  obtain ⟨_, hv, _, _, hk', hi, _⟩ := sensor_static hs hf hr s
  have hpi := (sensInv_reachable hs hf hr hl).1 (hk'.trans hk)
  have hq := (wi_reachable hs hf hr).inv
  obtain ⟨log, h1, h2, h3, h4, h5, h6, ⟨e, h7, h8, h9, h10, h11⟩, h12⟩ := hpi.ex
  rw [show (tk w).sensors = w.sensors from rfl] at h1 h2 h3 h5 h8 h10
  rw [hi] at h2 h8
  rw [hv] at h3
  rw [senseResults_tk] at h4
  refine ⟨log, h1, h2, fun x hx => ⟨h3 x hx, h6 x hx, h5 x hx⟩, h4, e, h7, h12, h9, h8, ?_, h10, h11⟩
  have hm : e ∈ w.env.events.filter (psEv s) := by
    rw [show w.env.events.filter (psEv s) = [e] from h7]; simp
  exact hq.future e (List.mem_filter.mp hm).1

/-- **`C19.series_window` and `C19.series_aligned` in every reachable state**: with one probe per
variable and a data capacity `c ≥ 1`, the time column and every data column of a registered
periodic sensor hold exactly the most recent `min(K, c)` samples — the sample times
`t0 + interval, t0 + 2·interval, …` and the values probed then — so all columns have the same
length. -/
theorem series_reachable {w0 w : World} (hs : Static w0) (hf : Fresh w0) (hr : Reachable w0 w)
    {s : Nat} (hl : AssetRef.sensor s ∈ w0.assets)
    (hk : (w0.sensors.getD s default).s.kind = .periodic)
    (hc : ∀ c, (w0.sensors.getD s default).s.cap = some c → 1 ≤ c)
    (hn : (w0.sensors.getD s default).vars.length = (w0.sensors.getD s default).s.nprobes) :
    ∃ smp : List (Int × List Int),
      smp.map (·.1) = (List.range smp.length).map
        (fun (k : Nat) => w0.now + ((k : Int) + 1) * (w0.sensors.getD s default).s.interval) ∧
      (w.sensors.getD s default).s.time = C19.lastN (w0.sensors.getD s default).s.cap (smp.map (·.1)) ∧
      (w.sensors.getD s default).s.data =
        (List.range (w0.sensors.getD s default).s.nprobes).map
          (fun j => C19.lastN (w0.sensors.getD s default).s.cap (smp.map (fun x => x.2.getD j 0))) ∧
      ∀ l ∈ (w.sensors.getD s default).s.data, l.length = (w.sensors.getD s default).s.time.length := by
  obtain ⟨log, h1, h2, h3, _⟩ := periodic_sensor_reachable hs hf hr hl hk
  obtain ⟨_, _, _, _, _, _, hcap, hnp, _⟩ := sensor_static hs hf hr s
  have hc' : ∀ c, (w.sensors.getD s default).s.cap = some c → 1 ≤ c := by rw [hcap]; exact hc
  have hs' : ∀ x ∈ samples log, x.2.length = (w.sensors.getD s default).s.nprobes := by
    intro x hx
    obtain ⟨y, hy, rfl⟩ := List.mem_map.mp hx
    rw [hnp, ← hn]
    exact (h3 y hy).1
  obtain ⟨w1, w2⟩ := C19.series_window (w.sensors.getD s default).s (samples log) hc' hs'
  have w3 := C19.series_aligned (w.sensors.getD s default).s (samples log) hc' hs'
  rw [← h1] at w1 w2 w3
  rw [hcap] at w1 w2
  rw [hnp] at w2
  refine ⟨samples log, ?_, w1, w2, w3⟩
  have : (samples log).map (·.1) = log.map (·.1) := by simp [samples]
  rw [this, h2]
  simp [samples]

/-- **C19W-1, the sample.**  A step of the event loop that executes the `.periodicSense s` event
`ev` in a reachable state `w`: the event is live; the sensor stores `ev.time` and the values of its
variables AS THEY ARE IN `w` (`Sensor.periodic`: append, trim to the capacity window); every
callback registered at that moment gets exactly one `.sense s cb ev.time values` result, in
registration order, and nothing else is appended to the results of the sensor. -/
theorem sample_step {w0 w w' : World} {ev : Event} (hs : Static w0) (hf : Fresh w0)
    (hr : Reachable w0 w) (hst : w.step = some (ev, w')) {s : Nat} (hev : psEv s ev = true) :
    ev.cancelled = false ∧
    (w'.sensors.getD s default).s = (w.sensors.getD s default).s.periodic ev.time
      ((w.sensors.getD s default).vars.map (fun k => w.svars.getD k 0)) ∧
    senseResults w' s = senseResults w s ++ (w.sensors.getD s default).s.cbs.map (fun cb =>
      Res.sense s cb ev.time ((w.sensors.getD s default).vars.map (fun k => w.svars.getD k 0))) := by
  have hwi := wi_reachable hs hf hr
  cases step_kinds hwi hst with
  | sched s' es he hs' _ _ _ => rw [suEv_not_psEv hev] at hs'; cases hs'
  | other es he ht _ _ _ => rw [psEv_tracked hev] at ht; cases ht
  | sense s' es he hps hlt _ hcan ha =>
    have : s' = s := by
      have a1 : ev.act = 10 + 16 * s := by simpa [psEv] using hev
      have a2 : ev.act = 10 + 16 * s' := by simpa [psEv] using hps
      omega
    subst this
    refine ⟨hcan, ?_⟩
    generalize hE : w'.env = e' at ha
    generalize hC : tk w' = c' at ha
    cases ha with
    | mk wt hi =>
      have hsens : w'.sensors = (tk w).sensors.set s' _ := congrArg TK.sensors hC
      have hres : (tk w').resT = _ := congrArg TK.resT hC
      refine ⟨?_, ?_⟩
      · rw [hsens, getD_set_same _ _ _ _ (show s' < (tk w).sensors.length from hlt)]
        rfl
      · rw [← senseResults_tk w', hres, senseLog_append, senseLog_self, senseResults_tk]
        rfl

/-- **C19W-1, nothing else.**  A step that executes any other event leaves the data of a registered
periodic sensor (data columns, time column, last values) and its `.sense` results as they are. -/
theorem no_sample_elsewhere {w0 w w' : World} {ev : Event} (hs : Static w0) (hf : Fresh w0)
    (hr : Reachable w0 w) (hst : w.step = some (ev, w')) {s : Nat}
    (hl : AssetRef.sensor s ∈ w0.assets) (hk : (w0.sensors.getD s default).s.kind = .periodic)
    (hev : psEv s ev = false) :
    sensData (w'.sensors.getD s default) = sensData (w.sensors.getD s default) ∧
    senseResults w' s = senseResults w s := by
  have hwi := wi_reachable hs hf hr
  obtain ⟨_, _, _, _, hk', _⟩ := sensor_static hs hf hr s
  have hpi := (sensInv_reachable hs hf hr hl).1 (hk'.trans hk)
  rw [← senseResults_tk w', ← senseResults_tk w]
  cases step_kinds hwi hst with
  | sched s' es he hs' _ _ ha =>
    have hfr := ha.frame
    exact ⟨by rw [show w'.sensors = (tk w').sensors from rfl, hfr.sensors]; rfl,
      schedFrame_senseLog hfr s⟩
  | sense s' es he hps _ _ _ ha =>
    have hne : s ≠ s' := by
      intro h; subst h; rw [hps] at hev; cases hev
    have hfr := ha.frame
    exact ⟨by rw [show w'.sensors = (tk w').sensors from rfl, hfr.sensors s hne]; rfl,
      sensFrame_senseLog hfr hne⟩
  | other es he ht _ _ hc => exact CRun.quiet hc hpi.nofin

/-- A sensor that is not registered with the system is never initialised: it has no event, writes
no result and is attached to no device. -/
theorem unregistered_sensor_silent {w0 w : World} (hs : Static w0) (hf : Fresh w0)
    (hr : Reachable w0 w) {s : Nat} (hn : AssetRef.sensor s ∉ w0.assets) :
    senseEvents w s = [] ∧ sensePaused w s = [] ∧ senseResults w s = [] ∧
    ∀ x, s ∉ (w.dev x).finSensors := by
  have h := ((wi_reachable hs hf hr).gi.sens s).2 (fun hc => hn hc.2)
  refine ⟨h.ev, h.pa, by rw [← senseResults_tk]; exact h.log, fun x => ?_⟩
  have := h.nofin x
  rw [finS_tk] at this
  exact List.count_eq_zero.mp this

/-! ### C19W-2: output-part sensors -/

/-! ### the counter pattern of an output-part sensor -/

/-- the sensor's counter state after `n` finished parts -/
def cpIter : Nat → Sensor → Sensor
  | 0, s => s
  | n + 1, s => cpIter n s.countPart.1

theorem countPart_congr {s s' : Sensor} (hc : s.counter = s'.counter) (hi : s.interval = s'.interval) :
    s.countPart.2 = s'.countPart.2 ∧ s.countPart.1.counter = s'.countPart.1.counter ∧
    s.countPart.1.interval = s'.countPart.1.interval := by
  unfold Sensor.countPart
  dsimp only
  rw [hc]
  split <;> exact ⟨rfl, by simp [hi], hi⟩

theorem outStep_counter (attrs : List Nat) (s : Sensor) (q v : Int) :
    (outStep attrs s q v).counter = s.countPart.1.counter ∧
    (outStep attrs s q v).interval = s.countPart.1.interval := by
  unfold outStep
  split <;> exact ⟨rfl, rfl⟩

theorem outRun_counter (attrs : List Nat) (l : List (Int × Int × Int)) :
    ∀ (s s' : Sensor), s.counter = s'.counter → s.interval = s'.interval →
      (outRun attrs s l).counter = (cpIter l.length s').counter ∧
      (outRun attrs s l).interval = (cpIter l.length s').interval := by
  induction l with
  | nil => intro s s' hc hi; exact ⟨hc, hi⟩
  | cons x l ih =>
    intro s s' hc hi
    show (outRun attrs (outStep attrs s x.2.1 x.2.2) l).counter = _ ∧ _
    obtain ⟨h1, h2⟩ := outStep_counter attrs s x.2.1 x.2.2
    obtain ⟨_, c2, c3⟩ := countPart_congr hc hi
    exact ih _ _ (h1.trans c2) (h2.trans c3)

theorem pattern_getElem (m : Nat) : ∀ (s : Sensor) (j : Nat), j < m →
    (C19.pattern m s)[j]? = some (cpIter j s).countPart.2 := by
  induction m with
  | zero => intro s j h; omega
  | succ m ih =>
    intro s j h
    cases j with
    | zero => simp [C19.pattern, cpIter]
    | succ j =>
      simp only [C19.pattern, List.getElem?_cons_succ, cpIter]
      exact ih _ _ (by omega)

/-- **The decision on the `j`-th finished part** (counting from 0) of a sensor that was reset, with
sensing interval `n ≥ 0`: it is measured iff `j mod (n+1) = 0` (`C19.output_pattern`). -/
theorem decision_pattern (attrs : List Nat) (s : Sensor) (hi : 0 ≤ s.interval)
    (l : List (Int × Int × Int)) :
    (outRun attrs s.reset l).countPart.2 = decide (l.length % (s.interval.toNat + 1) = 0) := by
  obtain ⟨h1, h2⟩ := outRun_counter attrs l s.reset s.reset rfl rfl
  rw [(countPart_congr h1 h2).1]
  have h3 := pattern_getElem (l.length + 1) s.reset l.length (by omega)
  have h4 := C19.output_pattern s.reset rfl hi (l.length + 1) l.length (by omega)
  rw [h3] at h4
  exact Option.some.inj h4

/-- The measurements as a function of the decisions. -/
theorem outSamples_eq (attrs : List Nat) (s : Sensor) (l : List (Int × Int × Int)) :
    outSamples attrs s l = (List.range l.length).filterMap (fun j =>
      if (outRun attrs s (l.take j)).countPart.2 then
        (l[j]?).map (fun x => (x.1, outVals attrs x.2.1 x.2.2))
      else none) := by
  induction l generalizing s with
  | nil => rfl
  | cons x l ih =>
    rw [outSamples, ih, List.length_cons, List.range_succ_eq_map, List.filterMap_cons]
    have h0 : outRun attrs s (List.take 0 (x :: l)) = s := rfl
    rw [h0, List.filterMap_map]
    have hrest : List.filterMap ((fun j =>
          if (outRun attrs s (List.take j (x :: l))).countPart.2 = true then
            Option.map (fun x => (x.1, outVals attrs x.2.1 x.2.2)) (x :: l)[j]?
          else none) ∘ Nat.succ) (List.range l.length) =
        List.filterMap (fun j =>
          if (outRun attrs (outStep attrs s x.2.1 x.2.2) (List.take j l)).countPart.2 = true then
            Option.map (fun x => (x.1, outVals attrs x.2.1 x.2.2)) l[j]?
          else none) (List.range l.length) := by
      rfl
    rw [hrest]
    split <;> simp


/-- **C19W-2.**  For every registered output-part sensor `s` (attached to device `proc`) in every
reachable state:
* if `proc` exists, `s` occurs exactly once in the sensor list of `proc`; it occurs in the list of no
  other device; it has no event;
* its state — counter, data columns, last values — is exactly its reset state after one `outStep`
  (count the part; if the counter says so, measure quality / value as recorded) per `produced`
  record of `proc`, i.e. per part `proc` has finished since initialisation;
* there is a sample log `(time, values, callbacks)` whose samples are exactly the measurements
  `outSamples` takes on those parts, and the `.sense` results of the sensor are exactly one per
  sample and callback registered at that moment. -/
theorem output_sensor_reachable {w0 w : World} (hs : Static w0) (hf : Fresh w0)
    (hr : Reachable w0 w) {s : Nat} (hl : AssetRef.sensor s ∈ w0.assets)
    (hk : (w0.sensors.getD s default).s.kind = .output) :
    ((w0.sensors.getD s default).proc < w0.devs.length →
      ((w.dev (w0.sensors.getD s default).proc).finSensors).count s = 1) ∧
    (∀ y, y ≠ (w0.sensors.getD s default).proc → s ∉ (w.dev y).finSensors) ∧
    senseEvents w s = [] ∧ sensePaused w s = [] ∧
    (w.sensors.getD s default).s =
      outRun (w0.sensors.getD s default).attrs (w.sensors.getD s default).s.reset
        (produced w (w0.sensors.getD s default).proc) ∧
    ∃ log : SLog,
      samples log = outSamples (w0.sensors.getD s default).attrs (w.sensors.getD s default).s.reset
        (produced w (w0.sensors.getD s default).proc) ∧
      senseResults w s = logRes s log ∧
      (∀ x ∈ log, x.2.2 <+: (w.sensors.getD s default).s.cbs) := by
  obtain ⟨_, _, hp, ha, hk', _, _, _, _, hdl⟩ := sensor_static hs hf hr s
  have hoi := (sensInv_reachable hs hf hr hl).2 (hk'.trans hk)
  obtain ⟨log, h1, h2, h3, h4⟩ := hoi.ex
  have hfin := hoi.fin
  have hnofin := hoi.nofin
  rw [show (tk w).sensors = w.sensors from rfl] at h1 h2 h4 hfin hnofin
  rw [hp, ha, produced_tk] at h1 h2
  rw [hp] at hfin hnofin
  rw [senseResults_tk] at h3
  refine ⟨?_, ?_, hoi.ev, hoi.pa, h1, log, h2, h3, h4⟩
  · intro hlt
    have := hfin (by simpa [tk, hdl] using hlt)
    rwa [finS_tk] at this
  · intro y hy
    have := hnofin y hy
    rw [finS_tk] at this
    exact List.count_eq_zero.mp this

/-- **`C19.output_pattern` in every reachable state**: with a sensing interval `n ≥ 0`, the
measurements of a registered output-part sensor are exactly those of the parts number
`0, n+1, 2(n+1), …` its processor has finished since initialisation, with the time, quality and
value recorded for the part. -/
theorem output_samples_reachable {w0 w : World} (hs : Static w0) (hf : Fresh w0)
    (hr : Reachable w0 w) {s : Nat} (hl : AssetRef.sensor s ∈ w0.assets)
    (hk : (w0.sensors.getD s default).s.kind = .output)
    (hi : 0 ≤ (w0.sensors.getD s default).s.interval) :
    ∃ log : SLog, senseResults w s = logRes s log ∧
      samples log = (List.range (produced w (w0.sensors.getD s default).proc).length).filterMap
        (fun j => if j % ((w0.sensors.getD s default).s.interval.toNat + 1) = 0 then
            ((produced w (w0.sensors.getD s default).proc)[j]?).map
              (fun x => (x.1, outVals (w0.sensors.getD s default).attrs x.2.1 x.2.2))
          else none) := by
  obtain ⟨_, _, _, _, _, log, h2, h3, _⟩ := output_sensor_reachable hs hf hr hl hk
  obtain ⟨_, _, _, _, _, hint, _⟩ := sensor_static hs hf hr s
  refine ⟨log, h3, ?_⟩
  rw [h2, outSamples_eq]
  congr 1
  funext j
  have := decision_pattern (w0.sensors.getD s default).attrs (w.sensors.getD s default).s
    (by rw [hint]; exact hi) ((produced w (w0.sensors.getD s default).proc).take j)
  by_cases hj : j ≤ (produced w (w0.sensors.getD s default).proc).length
  · rw [this, List.length_take, Nat.min_eq_left hj, hint]
    simp
  · have hnone : (produced w (w0.sensors.getD s default).proc)[j]? = none :=
      List.getElem?_eq_none (by omega)
    rw [hnone]
    simp

/-- **What `senseOutput` does per `finishCycle`** (key level): when processor `x` finishes a part
(`TK.prod`: the sensors attached to `x` in order, then the `produced` record), a sensor `s` that
occurs once in the list of `x` makes exactly one `outStep` on the part's recorded quality and value
and — if it is its turn — appends one `.sense` result per callback; a sensor that does not occur in
the list is untouched. -/
theorem prod_sensor (c : TK) (x : Nat) (t : Int) (p : Nat) (q v : Int) (s : Nat) :
    ((c.finS x).count s = 1 → s < c.sensors.length →
      (c.prod x t p q v).sensors.getD s default =
        { c.sensors.getD s default with
          s := outStep (c.sensors.getD s default).attrs (c.sensors.getD s default).s q v } ∧
      senseLog (c.prod x t p q v).resT s = senseLog c.resT s ++
        (if (c.sensors.getD s default).s.countPart.2 then
          (c.sensors.getD s default).s.cbs.map
            (fun cb => Res.sense s cb t (outVals (c.sensors.getD s default).attrs q v))
         else [])) ∧
    ((c.finS x).count s = 0 →
      (c.prod x t p q v).sensors.getD s default = c.sensors.getD s default ∧
      senseLog (c.prod x t p q v).resT s = senseLog c.resT s) ∧
    prodLog (c.prod x t p q v).recsT x = prodLog c.recsT x ++ [(t, q, v)] := by
  refine ⟨fun h1 hs => foldl_outSense_once (c.finS x) c h1 hs t q v,
    fun h0 => foldl_outSense_notin (c.finS x) c h0 t q v, ?_⟩
  rw [prod_recsT, prodLog_append, prodLog_single]

/-- **What `senseOutput` does per `finishCycle`** (world level): `_finish_cycle` of a processor is
the handler's part followed by `finishProcRest`, whose last action — when a part was produced — is
`prodStep`: `senseOutput` for every attached sensor, in order, then the `produced` record; on the
tracked key this is exactly `TK.prod` with the time, quality and value that are recorded. -/
theorem finishCycle_senses (w : World) (x : Nat) (hk : (w.dev x).kind = .processor) :
    w.finishCycle x = finishProcRest (w.finishCycleHandler x) x ∧
    ∀ (w1 : World) (p : Nat),
      (prodStep w1 x p (w1.dev x).finSensors).env = w1.env ∧
      tk (prodStep w1 x p (w1.dev x).finSensors) =
        (tk w1).prod x w1.now p (w1.part p).quality (w1.partValue p) :=
  ⟨finishCycle_processor w x hk, fun w1 p => tk_prodStep w1 x p⟩

/-! ### non-vacuity -/

-- the example world `C18W.exW` (a line source → processor → sink with two schedulers, a periodic
-- sensor — interval 3, capacity 2, probing variable 0 — and an output-part sensor on the processor
-- — sensing interval 1, probing quality and value) satisfies the hypotheses
example : Static exW ∧ Fresh exW ∧ AssetRef.sensor 0 ∈ exW.assets ∧ AssetRef.sensor 1 ∈ exW.assets ∧
    (exW.sensors.getD 0 default).s.kind = .periodic ∧ (exW.sensors.getD 1 default).s.kind = .output :=
  ⟨static_exW, fresh_exW, by decide, by decide, rfl, rfl⟩

-- the conclusions are not trivial.  After 25 steps (time 11) the periodic sensor has sampled at 3, 6,
-- 9; variable 0 was 0 at time 3 and 42 (set by the script at 5) afterwards; the capacity window keeps
-- the last two samples, time and data aligned; the cms callback (added at 5) got one result for the
-- samples at 6 and 9, none for the sample at 3; the next sample is pending at 12 = 0 + 4·3
example : (exRun 25).now = 11 ∧
    ((exRun 25).sensors.getD 0 default).s.time = [6, 9] ∧
    ((exRun 25).sensors.getD 0 default).s.data = [[42, 42]] ∧
    senseResults (exRun 25) 0 = [.sense 0 1000 6 [42], .sense 0 1000 9 [42]] ∧
    (senseEvents (exRun 25) 0).map (fun e => (e.time, e.asset, e.cancelled)) = [(12, 6, false)] ∧
    sensePaused (exRun 25) 0 = [] := by decide

-- the same as a run of `C19.runPeriodic` on the three samples (the statement of the theorem)
example : (C19.runPeriodic ((exRun 25).sensors.getD 0 default).s.reset
      [(3, [0]), (6, [42]), (9, [42])]).time = [6, 9] ∧
    (C19.runPeriodic ((exRun 25).sensors.getD 0 default).s.reset
      [(3, [0]), (6, [42]), (9, [42])]).data = [[42, 42]] := by decide

/-- `periodic_sensor_reachable` and `series_reachable` instantiated on the example. -/
example : ∃ e, senseEvents (exRun 25) 0 = [e] ∧ e.cancelled = false ∧ (exRun 25).now ≤ e.time := by
  obtain ⟨log, _, _, _, _, e, h1, _, h3, _, h5, _⟩ :=
    periodic_sensor_reachable static_exW fresh_exW (reach_exRun 25) (s := 0) (by decide) rfl
  exact ⟨e, h1, h3, h5⟩

example : ∀ l ∈ ((exRun 25).sensors.getD 0 default).s.data,
    l.length = ((exRun 25).sensors.getD 0 default).s.time.length := by
  obtain ⟨_, _, _, _, h⟩ := series_reachable static_exW fresh_exW (reach_exRun 25) (s := 0)
    (by decide) rfl (by decide) (by decide)
  exact h

-- the output-part sensor (sensing interval 1: every second part) after 50 steps: the processor has
-- finished three parts (at 5, 8, 11, quality 1, value 5); parts 0 and 2 were measured, part 1 was
-- not; the cms callback (added at time 5, after the first part) got the result for part 2 only; the
-- sensor is attached to the processor (device 1) exactly once
set_option maxRecDepth 8192 in
example : produced (exRun 50) 1 = [(5, 1, 5), (8, 1, 5), (11, 1, 5)] ∧
    ((exRun 50).sensors.getD 1 default).s.data = [[1, 1], [5, 5]] ∧
    ((exRun 50).sensors.getD 1 default).s.counter = 1 ∧
    senseResults (exRun 50) 1 = [.sense 1 1000 11 [1, 5]] ∧
    (exRun 50).devs.map (·.finSensors) = [[], [1], []] := by decide

example : outSamples [0, 1] ((exRun 50).sensors.getD 1 default).s.reset (produced (exRun 50) 1) =
    [(5, [1, 5]), (11, [1, 5])] := by decide

/-- `output_samples_reachable` instantiated on the example. -/
example : ∃ log : SLog, senseResults (exRun 50) 1 = logRes 1 log ∧
    samples log = [(5, [1, 5]), (11, [1, 5])] := by
  obtain ⟨log, h1, h2⟩ := output_samples_reachable static_exW fresh_exW (reach_exRun 50) (s := 1)
    (by decide) rfl (by decide)
  refine ⟨log, h1, ?_⟩
  rw [h2]
  decide

/-- `sample_step` instantiated: the step taken after 20 steps executes the sensor's event due at 9. -/
example : ∃ ev w', (exRun 20).step = some (ev, w') ∧ psEv 0 ev = true ∧
    senseResults w' 0 = senseResults (exRun 20) 0 ++ [.sense 0 1000 9 [42]] := by
  have hex : ((exRun 20).step.map (fun p => (psEv 0 p.1, p.1.time))) = some (true, 9) := by decide
  cases hst : (exRun 20).step with
  | none => rw [hst] at hex; cases hex
  | some q =>
    obtain ⟨ev, w'⟩ := q
    rw [hst] at hex
    simp only [Option.map_some, Option.some.injEq, Prod.mk.injEq] at hex
    have := (sample_step static_exW fresh_exW (reach_exRun 20) hst hex.1).2.2
    refine ⟨ev, w', rfl, hex.1, ?_⟩
    rw [this, hex.2]
    decide

/-! #### non-vacuity, continued: the conditions of the static class are needed -/

/-- A periodic sensor alone; interval, asset id, scripts and the registry vary. -/
def exP (scripts : List (List Op)) (sensors : List SensorW) (assets : List AssetRef) : World :=
  { devs := [{ kind := .processor, aid := 2 }]
    sensors := sensors
    assets := assets
    scripts := scripts
    env := { terminated := false, nextUid := 1
             events := [{ uid := 0, time := 1, prio := pOtherLow, weight := 0, asset := -1,
                          act := (Action.script 0).toNat }] } }

def exPs (interval aid : Int) : List SensorW :=
  [{ s := { kind := .periodic, interval := interval, nprobes := 0 }, aid := aid }]

/-- **Negative intervals are excluded for a reason**: the request for the first sample lies in the
past and is rejected (`sched-past`); no event is pending — all other conditions hold. -/
theorem periodic_false_negative_interval :
    let w := exP [] (exPs (-1) 4) [.sensor 0]
    Fresh w ∧ (∀ a ∈ (tk w).ta, a ≠ 0 ∧ ∀ d ∈ w.devs, d.aid ≠ a) ∧
    (∀ l ∈ w.scripts, ∀ op ∈ l, opOK (tk w).ta op = true) ∧ w.assets.Nodup ∧
    (∀ a ∈ w.assets, refOK w a = true) ∧
    senseEvents w.simulateInit 0 = [] ∧ w.simulateInit.error = some "sched-past" := by
  refine ⟨⟨rfl, ⟨by unfold SortedEv; decide, by decide, by decide, by decide⟩, by decide, by decide,
    by decide, by decide, by decide, by decide⟩, by decide, by decide, by decide, by decide, by decide,
    by decide⟩

/-- **The asset id of a sensor must differ from the device ids**: a maintenance shutdown of the
processor (asset id 2) pauses the sensor's event with the processor's. -/
theorem periodic_false_shared_id :
    let w := exP [[.shutdown 0]] (exPs 5 2) [.sensor 0]
    Fresh w ∧ (∀ l ∈ w.scripts, ∀ op ∈ l, opOK (tk w).ta op = true) ∧
    (∀ sw ∈ w.sensors, sw.s.kind = .periodic → 0 ≤ sw.s.interval) ∧ w.assets.Nodup ∧
    (∀ a ∈ w.assets, refOK w a = true) ∧
    senseEvents (runLoop 1 w.simulateInit) 0 = [] ∧
    (sensePaused (runLoop 1 w.simulateInit) 0).length = 1 := by
  refine ⟨⟨rfl, ⟨by unfold SortedEv; decide, by decide, by decide, by decide⟩, by decide, by decide,
    by decide, by decide, by decide, by decide⟩, by decide, by decide, by decide, by decide, by decide,
    by decide⟩

/-- **Registry entries must refer to existing sensors**: a dangling entry `.sensor 0` is initialised
like a default periodic sensor — a `.periodicSense 0` event with asset id 0 is scheduled and
re-scheduled forever, but there is no sensor to store the samples. -/
theorem periodic_false_dangling_ref :
    let w := exP [] [] [.sensor 0]
    Fresh w ∧ (∀ a ∈ (tk w).ta, a ≠ 0 ∧ ∀ d ∈ w.devs, d.aid ≠ a) ∧
    (∀ l ∈ w.scripts, ∀ op ∈ l, opOK (tk w).ta op = true) ∧ w.assets.Nodup ∧
    (senseEvents (runLoop 3 w.simulateInit) 0).map (fun e => (e.time, e.asset)) = [(3, 0)] ∧
    ((runLoop 3 w.simulateInit).sensors.getD 0 default).s.time = [] := by
  refine ⟨⟨rfl, ⟨by unfold SortedEv; decide, by decide, by decide, by decide⟩, by decide, by decide,
    by decide, by decide, by decide, by decide⟩, by decide, by decide, by decide, by decide, by decide⟩

end C19W
end SimProc
