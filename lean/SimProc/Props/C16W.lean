/-
C16W — value accounting adds up, closed-world: in EVERY state reachable from a fresh world
(`C15W.Fresh`, `C15W.Reachable`, scripts that create no assets: `C15W.NoCreate`)

6. `vinv_reachable` — the value bookkeeping of every device and every maintainer satisfies
   `C16.VInv` (value = start + Σ history deltas, running totals consistent, no zero entries):
   all value changes go through `AssetVal.addValue / addCost / reset`;
7. `source_value_reachable` — a source's value is its starting value minus `costProduced`;
   `sink_value_reachable` — a sink's value is its starting value plus `recvValue`, which is the
   sum of the values in its `received_part` records; `other_value_reachable` — every other device
   keeps its starting value; `maintainer_value_reachable` — a maintainer's value is its starting
   value plus its history, all of whose entries are work-order costs;
   with the one-step amounts: `source_supply_step` (the value of the output read BEFORE the
   hand-over), `sink_receive_step` (the part's value at receipt), `maintainer_start_step` (the
   order's cost read at that moment, cf. `C12.cost_once`), and the frames `only_pass_part_*`,
   `only_start_work_*`: nothing else changes these values.
-/
import SimProc.Props.C15W
import SimProc.Props.C12
import SimProc.Props.C15

namespace SimProc
namespace C16W
open World C15 C15W

/-! ### 6. the bookkeeping invariant -/

/-- **vinv_reachable**: every device's and every maintainer's `val` satisfies `C16.VInv`. -/
theorem vinv_reachable {w0 w : World} (hf : Fresh w0) (hn : NoCreate w0) (hr : Reachable w0 w) :
    (∀ x, C16.VInv (w.dev x).val) ∧ ∀ m, C16.VInv (w.maint m).val := by
  have h := reach_inv (I0 := ValInv) (I := ValInv) ValInv.step (fun _ h => h) ValInv.step
    (fun _ _ h => h) hf.valInv hn hf.2.2.1 hr
  refine ⟨fun x => ?_, fun m => ?_⟩
  · have := h.1 x; rw [key_dev] at this; exact this
  · have := h.2 m; rw [key_mval] at this; exact this

/-- Spelled out: value = starting value + sum of the recorded changes, for every device. -/
theorem value_eq_history {w0 w : World} (hf : Fresh w0) (hn : NoCreate w0) (hr : Reachable w0 w)
    (x : Nat) : (w.dev x).val.value = (w0.dev x).val.init + C16.deltaSum (w.dev x).val.hist := by
  rw [((vinv_reachable hf hn hr).1 x).value_eq, ((reach_static hn hf.2.2.1 hr).2.2.1 x).2]

/-- The starting values, the kinds and the number of devices never change. -/
theorem static_reachable {w0 w : World} (hf : Fresh w0) (hn : NoCreate w0) (hr : Reachable w0 w) :
    w.devs.length = w0.devs.length ∧ w.maints.length = w0.maints.length ∧
    (∀ x, (w.dev x).kind = (w0.dev x).kind ∧ (w.dev x).val.init = (w0.dev x).val.init) ∧
    (∀ m, (w.maint m).val.init = (w0.maint m).val.init) :=
  reach_static hn hf.2.2.1 hr

/-! ### 7. the amounts -/

theorem valueInv_reachable {w0 w : World} (hf : Fresh w0) (hn : NoCreate w0) (hr : Reachable w0 w)
    (x : Nat) :
    (w.dev x).val.value = (w.dev x).val.init - (w.dev x).costProduced + (w.dev x).recvValue ∧
    ((w.dev x).kind ≠ .source → (w.dev x).costProduced = 0) ∧
    ((w.dev x).kind ≠ .sink → (w.dev x).recvValue = 0) := by
  have h := reach_inv (I0 := ZeroInv) (I := ValueInv) ZeroInv.step (fun _ h => h.valueInv)
    ValueInv.step (fun _ _ h => h) hf.zeroInv hn hf.2.2.1 hr x
  rw [key_dev] at h
  exact h

theorem labels_reachable {w0 w : World} (hf : Fresh w0) (hn : NoCreate w0) (hr : Reachable w0 w) :
    (∀ x, ∀ e ∈ (w.dev x).val.hist, ((w.dev x).kind = .source ∧ e.label = lblSupplied) ∨
      ((w.dev x).kind = .sink ∧ e.label = lblCollected)) ∧
    ∀ m, ∀ e ∈ (w.maint m).val.hist, e.label = lblWorkOrder := by
  have h := reach_inv (I0 := LabelInv) (I := LabelInv) LabelInv.step (fun _ h => h) LabelInv.step
    (fun _ _ h => h) hf.labelInv hn hf.2.2.1 hr
  refine ⟨fun x => ?_, fun m => ?_⟩
  · have := h.1 x; rw [key_dev] at this; exact this
  · have := h.2 m; rw [key_mval] at this; exact this

/-- **source_value**: the value of a source is its starting value minus the cost of the parts it
supplied; that cost is what its value history records (all entries are supply costs). -/
theorem source_value_reachable {w0 w : World} (hf : Fresh w0) (hn : NoCreate w0) (hr : Reachable w0 w)
    (x : Nat) (hk : (w.dev x).kind = .source) :
    (w.dev x).val.value = (w0.dev x).val.init - (w.dev x).costProduced ∧
    (w.dev x).costProduced = - C16.deltaSum (w.dev x).val.hist ∧
    ∀ e ∈ (w.dev x).val.hist, e.label = lblSupplied := by
  obtain ⟨h1, _, h3⟩ := valueInv_reachable hf hn hr x
  have h0 : (w.dev x).recvValue = 0 := h3 (by rw [hk]; intro h; cases h)
  have hi := ((reach_static hn hf.2.2.1 hr).2.2.1 x).2
  have hv := ((vinv_reachable hf hn hr).1 x).value_eq
  refine ⟨by omega, by omega, fun e he => ?_⟩
  rcases (labels_reachable hf hn hr).1 x e he with h | h
  · exact h.2
  · rw [hk] at h; cases h.1

/-- **sink_value**: the value of a sink is its starting value plus the value it collected, which is
the sum of the values in its `received_part` records. -/
theorem sink_value_reachable {w0 w : World} (hf : Fresh w0) (hn : NoCreate w0) (hr : Reachable w0 w)
    (x : Nat) (hk : (w.dev x).kind = .sink) :
    (w.dev x).val.value = (w0.dev x).val.init + (w.dev x).recvValue ∧
    (w.dev x).recvValue = receivedValue w x ∧
    ∀ e ∈ (w.dev x).val.hist, e.label = lblCollected := by
  obtain ⟨h1, h2, _⟩ := valueInv_reachable hf hn hr x
  have h0 : (w.dev x).costProduced = 0 := h2 (by rw [hk]; intro h; cases h)
  have hi := ((reach_static hn hf.2.2.1 hr).2.2.1 x).2
  refine ⟨by omega, received_value_reachable hf hn hr x hk, fun e he => ?_⟩
  rcases (labels_reachable hf hn hr).1 x e he with h | h
  · rw [hk] at h; cases h.1
  · exact h.2

/-- Every other device keeps its starting value; its history stays empty. -/
theorem other_value_reachable {w0 w : World} (hf : Fresh w0) (hn : NoCreate w0) (hr : Reachable w0 w)
    (x : Nat) (h1 : (w.dev x).kind ≠ .source) (h2 : (w.dev x).kind ≠ .sink) :
    (w.dev x).val.value = (w0.dev x).val.init ∧ (w.dev x).val.hist = [] := by
  obtain ⟨hv, hc, hrv⟩ := valueInv_reachable hf hn hr x
  have hi := ((reach_static hn hf.2.2.1 hr).2.2.1 x).2
  have a := hc h1
  have b := hrv h2
  refine ⟨by omega, ?_⟩
  cases e : (w.dev x).val.hist with
  | nil => rfl
  | cons y l =>
    exfalso
    rcases (labels_reachable hf hn hr).1 x y (by rw [e]; exact List.mem_cons_self ..) with h | h
    · exact h1 h.1
    · exact h2 h.1

/-- **maintainer_value**: the value of a maintainer is its starting value plus its history, whose
entries are all costs of started work orders. -/
theorem maintainer_value_reachable {w0 w : World} (hf : Fresh w0) (hn : NoCreate w0)
    (hr : Reachable w0 w) (m : Nat) :
    (w.maint m).val.value = (w0.maint m).val.init + C16.deltaSum (w.maint m).val.hist ∧
    ∀ e ∈ (w.maint m).val.hist, e.label = lblWorkOrder := by
  refine ⟨?_, (labels_reachable hf hn hr).2 m⟩
  rw [((vinv_reachable hf hn hr).2 m).value_eq, (reach_static hn hf.2.2.1 hr).2.2.2 m]

/-! ### the amounts, one step -/

/-- `Source._pass_part_downstream`: a successful hand-over increases the counter by one and
`costProduced` by exactly the value of the output part read BEFORE the hand-over, and books that
amount as a cost (so `val.value` drops by it); otherwise no field of the source changes. -/
theorem source_supply_step (w : World) (x : Nat) (hk : (w.dev x).kind = .source) :
    (∃ p, (w.dev x).output = some p ∧
        ((w.passPart x).dev x).produced = (w.dev x).produced + 1 ∧
        ((w.passPart x).dev x).costProduced = (w.dev x).costProduced + w.partValue p ∧
        ((w.passPart x).dev x).val = (w.dev x).val.addCost lblSupplied w.now (w.partValue p) ∧
        ((w.passPart x).dev x).val.value = (w.dev x).val.value - w.partValue p) ∨
      dkey ((w.passPart x).dev x) = dkey (w.dev x) := by
  rcases C15W.source_supply_step w x hk with ⟨p, h1, h2, h3, h4⟩ | h
  · exact Or.inl ⟨p, h1, h2, h3, h4, by rw [h4, addCost_value]⟩
  · exact Or.inr h

/-- `Sink._on_received_new_part` (through `_accept_part`): the counters go up by the number of
parts and by the part's value at receipt, and that value is booked. -/
theorem sink_receive_step (w : World) (x p : Nat) (hk : (w.dev x).kind = .sink) :
    ((w.acceptPart x p).dev x).recvCount = (w.dev x).recvCount + w.leafCount p ∧
    ((w.acceptPart x p).dev x).recvValue = (w.dev x).recvValue + w.partValue p ∧
    ((w.acceptPart x p).dev x).val = (w.dev x).val.addValue lblCollected w.now (w.partValue p) ∧
    ((w.acceptPart x p).dev x).val.value = (w.dev x).val.value + w.partValue p := by
  refine ⟨acceptPart_sink_recvCount w x p hk, acceptPart_sink_recvValue w x p hk,
    acceptPart_sink_val w x p hk, ?_⟩
  rw [acceptPart_sink_val w x p hk, addValue_value]

/-- `_start_work_order`: the maintainer is charged the order's cost as the target reports it at
that moment — once (`C12.cost_once`) — whatever the target's hook does afterwards. -/
theorem maintainer_start_step (w : World) (m seq : Nat) (o : Order) (hn : NoCreate w)
    (h : (w.maint m).findActive seq = some o) (hm : m < w.maints.length) :
    ((w.startWork m seq).maint m).val =
      ((w.maint m).startCost w.now (w.targetParams o.target o.tag).2.2).val ∧
    ((w.startWork m seq).maint m).val.value =
      (w.maint m).val.value - (w.targetParams o.target o.tag).2.2 := by
  have := startWork_val w m seq o hn h hm
  refine ⟨this, ?_⟩
  rw [this]
  exact (C12.cost_once (w.maint m) w.now _).1

/-- Nothing else changes the values of the devices: only `pass_part` events change any of
`produced`, `costProduced`, `recvCount`, `recvValue`, `level`, `val` of any device, … -/
theorem only_pass_part_changes_devices (w : World) (a : Action) (hn : NoCreate w)
    (ha : ∀ d, a ≠ .passPart d) (x : Nat) : dkey ((w.exec a).dev x) = dkey (w.dev x) :=
  exec_dev_frame w a hn ha x

/-- … a `pass_part` event of a device that is not a source changes these fields only for sinks
and buffers (so a source's value changes only in its own `pass_part` event), … -/
theorem pass_part_of_others_spares_sources (w : World) (d : Nat) (hk : (w.dev d).kind ≠ .source)
    (x : Nat) (hs : (w.dev x).kind ≠ .sink) (hb : (w.dev x).kind ≠ .buffer) :
    dkey ((w.exec (.passPart d)).dev x) = dkey (w.dev x) :=
  exec_passPart_frame w d hk x hs hb

/-- … and only `start_work` events change the value of a maintainer. -/
theorem only_start_work_changes_maintainers (w : World) (a : Action) (hn : NoCreate w)
    (ha : ∀ m o, a ≠ .startWork m o) (m : Nat) : ((w.exec a).maint m).val = (w.maint m).val :=
  exec_maint_frame w a hn ha m

/-! ### non-vacuity (the example line of `Props/C15W.lean`) -/

/-- The source supplied three parts of value 5 (value 0 − 15), the sink collected three parts of
value 9 (value 0 + 27), the maintainer paid 7 for the work order it started at time 1. -/
example : (exR.dev 0).kind = .source ∧ (exR.dev 0).costProduced = 15 ∧ (exR.dev 0).val.value = -15 ∧
    (exR.dev 0).val.hist.length = 3 := by decide +kernel
example : (exR.dev 3).kind = .sink ∧ (exR.dev 3).recvValue = 27 ∧ (exR.dev 3).val.value = 27 ∧
    (exR.dev 3).val.hist.map (·.total) = [9, 18, 27] := by decide +kernel
example : (exR.maint 0).val = { init := 100, value := 93, hist := [⟨lblWorkOrder, 1, -7, 93⟩] } := by
  decide +kernel

/-- The theorems applied to it. -/
example : (exR.dev 0).val.value = (exW.dev 0).val.init - (exR.dev 0).costProduced :=
  (source_value_reachable (by decide) (by decide) (reachable_simulate 200 20 exW) 0
    (by decide +kernel)).1
example : ∀ m, C16.VInv (exR.maint m).val :=
  (vinv_reachable (by decide) (by decide) (reachable_simulate 200 20 exW)).2

/-- One-step lemmas on the concrete worlds of `Props/C15.lean`: the source of `wS` supplies part 0
of value 2 (first alternative of `source_supply_step`), the sink of `wB` receives part 0 of
value 7. -/
example : (C15.wS.dev 0).kind = .source ∧ (C15.wS.dev 0).output = some 0 ∧ C15.wS.partValue 0 = 2 ∧
    ((C15.wS.passPart 0).dev 0).costProduced = 2 ∧ ((C15.wS.passPart 0).dev 0).val.value = -2 := by
  decide
example : (C15.wB.dev 1).kind = .sink ∧ ((C15.wB.acceptPart 1 0).dev 1).recvValue = 7 ∧
    ((C15.wB.acceptPart 1 0).dev 1).val.value = 7 := by decide
/-- The maintainer of `wM` starts order 0 of cost 3. -/
example : ((C15.wM.applyOp (.workOrder 0 0 1 42)).1.maint 0).findActive 0 ≠ none ∧
    (((C15.wM.applyOp (.workOrder 0 0 1 42)).1.startWork 0 0).maint 0).val.value = -3 := by decide

end C16W
end SimProc
