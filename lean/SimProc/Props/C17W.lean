/-
C17W — the part batcher in the closed world.

`Props/C17.lean` proves the batching property for ONE call of the batcher's functions, under the
well-formedness hypothesis `C17.Wf` (and `InputNonempty`).  This file proves, for EVERY state
reachable by the event loop and EVERY batcher, in every topology:

* `batcher_wf_reachable`: `C17.Wf` holds — so the one-call theorems of C17 apply everywhere;
* `sizes_reachable`: the batch under construction has fewer than `n` parts, the output of a size-`n`
  batcher is a batch of exactly `n` parts, the output of a single-mode batcher is a single part, and
  the batcher is settled (an output is waiting or the input is exhausted);
* `order_step` / `order_reachable`: during one event the sequence `C17.seqOf` of parts inside a
  batcher only changes by appending the leaves of newly accepted parts at the END, or by removing
  the leaves of the handed-over output at the FRONT — the concatenated sequence of parts leaving is
  the sequence of parts arriving.

Closed-world hypotheses (`Init`): fresh, statically well-formed, every configured batch size is
positive (`SizesPos`; for size 0 the model emits batches of one part: `sizes_false_zero`).
A batcher cannot hand a part to itself (its output slot is occupied during the hand-over), so no
topological restriction is needed.  The only event that breaks the order property is a failure of
the batcher itself (the model lets any device fail; the library only `PartProcessor`s; scripts cannot
schedule it: `applyOp` rejects `schedFail` on other devices): it drops the input (`order_false_fail`)
— excluded by a hypothesis on the event in `order_step`, or by the static condition `NoFailNonProc`
(no such failure event in the initial queue; preserved by every step) in `order_step_static` /
`order_reachable_closed`.
Machinery: `SimProc/Proofs/C17W*.lean` (and the shared `C05W*.lean`).
-/
import SimProc.Proofs.C17WFail
import SimProc.Props.C05W

namespace SimProc
namespace C17W
open World C02V C05W

/-- The closed-world hypotheses. -/
structure Init (w : World) : Prop where
  fresh : C02.Fresh w
  static : Static w
  sizes : SizesPos w

/-- The invariant of C17W holds after initialisation. -/
theorem ci_init (w : World) (h : Init w) : CI w.simulateInit := by
  refine ⟨(C02.consS_iff _).1 (C02.consS_simulateInit w (C02.consS_fresh w h.fresh)),
    static_simulateInit w h.static, ?_⟩
  intro y hy
  have hk : (w.dev y).kind = .batcher := by
    rw [← kind_of_tv (sr_simulateInit (fun _ => True) w).1 y]; exact hy
  have hlt : y < w.devs.length := lt_of_kind_batcher hk
  have hmem : w.dev y ∈ w.devs := by
    simp only [World.dev, List.getD_eq_getElem?_getD, List.getElem?_eq_getElem hlt, Option.getD_some]
    exact List.getElem_mem hlt
  have hheld := h.fresh.2.2.2.2 _ hmem
  simp only [C02.held, List.append_eq_nil_iff, List.map_eq_nil_iff] at hheld
  obtain ⟨_, s2, s3, s4⟩ := sdev_fields (sdev_simulateInit w y hk)
  have hp : (w.simulateInit.dev y).part = none := by
    rw [s2]; cases h' : (w.dev y).part <;> simp_all
  have ho : (w.simulateInit.dev y).output = none := by
    rw [s3]; cases h' : (w.dev y).output <;> simp_all
  have hi : (w.simulateInit.dev y).inprog = none := by
    rw [s4]; cases h' : (w.dev y).inprog <;> simp_all
  have hb : (w.simulateInit.dev y).bsize = (w.dev y).bsize :=
    (bdev_fields (bdev_of_bv (bv_simulateInit w) y)).2.2.2.2.1
  refine ⟨⟨?_, fun _ => hi, ?_, ?_, ?_⟩, Or.inr hp⟩
  · intro n hn; rw [hb] at hn; exact h.sizes _ hmem n hn
  · intro n _ b hb'; rw [hi] at hb'; cases hb'
  · intro n _ o ho'; rw [ho] at ho'; cases ho'
  · intro _ o ho'; rw [ho] at ho'; cases ho'

theorem ci_reachable (n : Nat) (w : World) (h : Init w) : CI (runLoop n w.simulateInit) :=
  ci_runLoop n _ (ci_init w h)

/-! ### 3. well-formedness and sizes in every reachable state -/

/-- **`C17.Wf` holds for every batcher of every reachable state** (so every one-call theorem of
`Props/C17.lean` is applicable there). -/
theorem batcher_wf_reachable (n : Nat) (w : World) (h : Init w) (x : Nat)
    (hx : ((runLoop n w.simulateInit).dev x).kind = .batcher) : C17.Wf (runLoop n w.simulateInit) x :=
  ((ci_reachable n w h).bat x hx).toBatPre.wf (ci_reachable n w h).inv

/-- The same as a step property: the closed-world invariant is preserved by every event. -/
theorem batcher_wf_step (w w' : World) (e : Event) (h : CI w) (hst : w.step = some (e, w')) (x : Nat)
    (hx : (w'.dev x).kind = .batcher) : C17.Wf w' x :=
  ((ci_step w w' e h hst).bat x hx).toBatPre.wf (ci_step w w' e h hst).inv

/-- **Sizes.**  In every reachable state, for every batcher `x`:
a batcher of size `n` has `n > 0`, its batch under construction (if any) holds fewer than `n` parts,
and its output (if any) is a batch of EXACTLY `n` parts;
a single-mode batcher has no batch under construction and its output (if any) is a single part;
and an output is waiting to leave or the input is exhausted. -/
theorem sizes_reachable (n : Nat) (w : World) (h : Init w) (x : Nat)
    (hx : ((runLoop n w.simulateInit).dev x).kind = .batcher) :
    let w' := runLoop n w.simulateInit
    (∀ m, (w'.dev x).bsize = some m →
      0 < m ∧
      (∀ b, (w'.dev x).inprog = some b → ((w'.part b).kids.getD []).length < m) ∧
      (∀ o, (w'.dev x).output = some o → ∃ l, (w'.part o).kids = some l ∧ l.length = m)) ∧
    ((w'.dev x).bsize = none →
      (w'.dev x).inprog = none ∧ ∀ o, (w'.dev x).output = some o → (w'.part o).kids = none) ∧
    ((w'.dev x).output.isSome ∨ (w'.dev x).part = none) := by
  have hb := (ci_reachable n w h).bat x hx
  exact ⟨fun m hm => ⟨hb.pos m hm, hb.prog_lt m hm, hb.out_batch m hm⟩,
    fun hn => ⟨hb.noprog hn, hb.out_single hn⟩, hb.settled⟩

/-- Well-formedness and the size invariant in every state of every closed-world execution
(`C05W.Exec`: several `run` calls, static scripted operations from outside). -/
theorem batcher_exec (w0 w : World) (h : Init w0) (he : Exec w0 w) (x : Nat)
    (hx : (w.dev x).kind = .batcher) : C17.Wf w x ∧ BatOK w x :=
  ⟨((ci_exec (ci_init w0 h) he).bat x hx).toBatPre.wf (ci_exec (ci_init w0 h) he).inv,
    (ci_exec (ci_init w0 h) he).bat x hx⟩

/-! ### 4. order -/

/-- **What one event does to the sequence of parts inside a batcher.**  Let `w` satisfy the
closed-world invariant (every reachable state does), `w.step = some (e, w')`, `y` a batcher, and
the event not a (live) failure of `y` itself.  Then either

* `y` accepted the parts `ps` (possibly none; each of them was held by another device before the
  event) during this event and their leaves — as they were before the event — have been appended at
  the END: `seqOf w' y = seqOf w y ++ leaves of ps`; or
* `y` handed over its output `o` and exactly its leaves have left at the FRONT:
  `seqOf w y = leavesOf o ++ seqOf w' y`.  -/
theorem order_step (w w' : World) (e : Event) (h : CI w) (hst : w.step = some (e, w')) (y : Nat)
    (hy : (w.dev y).kind = .batcher) (hnf : ¬ (e.live = true ∧ Action.ofNat e.act = .fail y)) :
    (∃ ps : List Nat, C17.seqOf w' y = C17.seqOf w y ++ ps.flatMap w.leavesOf ∧
      ∀ q ∈ ps, ∃ d, d ≠ y ∧ q ∈ (sdev (w.dev d)).held) ∨
    (∃ o, (w.dev y).output = some o ∧ C17.seqOf w y = w.leavesOf o ++ C17.seqOf w' y) := by
  unfold World.step at hst
  split at hst
  · cases hst
  · rename_i e' env' henv
    simp only [Option.some.injEq, Prod.mk.injEq] at hst
    obtain ⟨rfl, rfl⟩ := hst
    have hS1 := static_pop w e' env' h.stat henv
    have hI1 : InvW ({ w with env := env' } : World) := h.inv.of_sv rfl
    have hB1 : BatAll ({ w with env := env' } : World) := fun y hy =>
      batOK_transport (w := w) rfl rfl (fun _ _ => rfl) (h.bat y hy)
    split
    · rename_i hlive
      by_cases hp : ∃ d, Action.ofNat e'.act = .passPart d
      · obtain ⟨d, hd⟩ := hp
        rw [hd]
        have hpp := bat_passPart ({ w with env := env' } : World) d hI1 hB1 (hS1.2.1 d)
        by_cases hdy : y = d
        · subst hdy
          rcases hpp.giver hy with g | ⟨o, g1, g2⟩
          · exact Or.inl ⟨[], by rw [List.flatMap_nil, List.append_nil]; exact g, by simp⟩
          · exact Or.inr ⟨o, g1, g2⟩
        · obtain ⟨ps, g, m⟩ := hpp.others y hy hdy
          exact Or.inl ⟨ps, g, fun q hq => ⟨d, Ne.symm hdy, m q hq⟩⟩
      · have hq := (bat_quiet ({ w with env := env' } : World) (Action.ofNat e'.act) hI1 hS1 hB1
          (fun d hd => hp ⟨d, hd⟩)).2 y hy (fun hf => hnf ⟨hlive, hf⟩)
        exact Or.inl ⟨[], by rw [List.flatMap_nil, List.append_nil]; exact hq, by simp⟩
    · exact Or.inl ⟨[], by rw [List.flatMap_nil, List.append_nil]; rfl, by simp⟩

/-- The order property in the form "`seqOf w y = pre ++ mid` and `seqOf w' y = mid ++ post`" where
`pre` is empty or the leaves of the output that was handed over, and `post` is empty unless `pre` is
(a batcher cannot accept while it hands over): the leaves accepted in this step. -/
theorem order_reachable (w w' : World) (e : Event) (h : CI w) (hst : w.step = some (e, w')) (y : Nat)
    (hy : (w.dev y).kind = .batcher) (hnf : ¬ (e.live = true ∧ Action.ofNat e.act = .fail y)) :
    ∃ pre mid post, C17.seqOf w y = pre ++ mid ∧ C17.seqOf w' y = mid ++ post ∧
      (pre = [] ∨ ∃ o, (w.dev y).output = some o ∧ pre = w.leavesOf o ∧ post = []) ∧
      (∃ ps : List Nat, post = ps.flatMap w.leavesOf ∧ ∀ q ∈ ps, ∃ d, d ≠ y ∧ q ∈ (sdev (w.dev d)).held) := by
  rcases order_step w w' e h hst y hy hnf with ⟨ps, g, m⟩ | ⟨o, g1, g2⟩
  · exact ⟨[], C17.seqOf w y, ps.flatMap w.leavesOf, by simp, g, Or.inl rfl, ps, rfl, m⟩
  · exact ⟨w.leavesOf o, C17.seqOf w' y, [], g2, by simp, Or.inr ⟨o, g1, rfl, rfl⟩, [], rfl, by simp⟩

/-! ### 4'. order, with the failure of batchers excluded statically -/

/-- `NoFailNonProc` (no failure event for a device other than a `PartProcessor` is pending or
paused) holds in every state reachable from a world that satisfies it. -/
theorem noFail_reachable (n : Nat) (w : World) (h : Init w) (hn : NoFailNonProc w) :
    NoFailNonProc (runLoop n w.simulateInit) :=
  noFail_runLoop n _ (ci_init w h).inv (ci_init w h).stat (noFail_simulateInit w hn)

/-- A world whose queues are empty satisfies `NoFailNonProc`. -/
theorem noFail_of_empty (w : World) (h1 : w.env.events = []) (h2 : w.env.paused = []) : NoFailNonProc w := by
  rintro ⟨n, hn, _⟩
  simp [acts, h1, h2] at hn

/-- **Order, for every event**: in a state that satisfies the closed-world invariant and
`NoFailNonProc` (every state reachable from an initial world that does: `ci_reachable`,
`noFail_reachable`), every step changes the sequence of parts inside a batcher only by appending the
leaves of accepted parts at the END or by removing the leaves of the handed-over output at the
FRONT. -/
theorem order_step_static (w w' : World) (e : Event) (h : CI w) (hn : NoFailNonProc w)
    (hst : w.step = some (e, w')) (y : Nat) (hy : (w.dev y).kind = .batcher) :
    (∃ ps : List Nat, C17.seqOf w' y = C17.seqOf w y ++ ps.flatMap w.leavesOf ∧
      ∀ q ∈ ps, ∃ d, d ≠ y ∧ q ∈ (sdev (w.dev d)).held) ∨
    (∃ o, (w.dev y).output = some o ∧ C17.seqOf w y = w.leavesOf o ++ C17.seqOf w' y) := by
  refine order_step w w' e h hst y hy ?_
  rintro ⟨_, hf⟩
  have henv : ∃ env', w.env.step = some (e, env') := by
    unfold World.step at hst
    split at hst
    · cases hst
    · rename_i e' env' henv
      simp only [Option.some.injEq, Prod.mk.injEq] at hst
      exact ⟨env', hst.1 ▸ henv⟩
  obtain ⟨env', henv⟩ := henv
  have := noFail_head w e env' hn henv y hf
  rw [hy] at this; cases this

/-- The closed-world form: every step from a reachable state. -/
theorem order_reachable_closed (n : Nat) (w0 : World) (h : Init w0) (hn : NoFailNonProc w0)
    (e : Event) (w' : World) (hst : (runLoop n w0.simulateInit).step = some (e, w')) (y : Nat)
    (hy : ((runLoop n w0.simulateInit).dev y).kind = .batcher) :
    ∃ pre mid post, C17.seqOf (runLoop n w0.simulateInit) y = pre ++ mid ∧ C17.seqOf w' y = mid ++ post ∧
      (pre = [] ∨ ∃ o, ((runLoop n w0.simulateInit).dev y).output = some o ∧
        pre = (runLoop n w0.simulateInit).leavesOf o ∧ post = []) ∧
      (∃ ps : List Nat, post = ps.flatMap (runLoop n w0.simulateInit).leavesOf) := by
  rcases order_step_static _ w' e (ci_reachable n w0 h) (noFail_reachable n w0 h hn) hst y hy with
    ⟨ps, g, _⟩ | ⟨o, g1, g2⟩
  · exact ⟨[], _, ps.flatMap _, by simp, g, Or.inl rfl, ps, rfl⟩
  · exact ⟨_, C17.seqOf w' y, [], g2, by simp, Or.inr ⟨o, g1, rfl, rfl⟩, [], rfl⟩

/-- Order in every closed-world execution. -/
theorem order_exec (w0 w w' : World) (h : Init w0) (hn : NoFailNonProc w0) (he : Exec w0 w) (e : Event)
    (hst : w.step = some (e, w')) (y : Nat) (hy : (w.dev y).kind = .batcher) :
    (∃ ps : List Nat, C17.seqOf w' y = C17.seqOf w y ++ ps.flatMap w.leavesOf ∧
      ∀ q ∈ ps, ∃ d, d ≠ y ∧ q ∈ (sdev (w.dev d)).held) ∨
    (∃ o, (w.dev y).output = some o ∧ C17.seqOf w y = w.leavesOf o ++ C17.seqOf w' y) :=
  order_step_static w w' e (ci_exec (ci_init w0 h) he)
    (noFail_exec (ci_init w0 h) (noFail_simulateInit w0 hn) he) hst y hy

/-! ### the hypotheses are needed -/

/-- A batcher configured with size 0 (blocked sink downstream, so the output stays). -/
def cexZero : World :=
  { env := { terminated := false }
    devs := [{ kind := .source, aid := 1, down := [1], maxParts := some 2, cycle := 1 },
             { kind := .batcher, aid := 2, up := [0], down := [2], bsize := some 0 },
             { kind := .sink, aid := 3, up := [1], blockInput := true }]
    assets := [.dev 0, .dev 1, .dev 2] }

/-- Without `SizesPos`: a batcher of size 0 emits a batch of ONE part. -/
theorem sizes_false_zero :
    C02.Fresh cexZero ∧ Static cexZero ∧ ¬ SizesPos cexZero ∧
      ((runLoop 2 cexZero.simulateInit).dev 1).kind = .batcher ∧
      ((runLoop 2 cexZero.simulateInit).dev 1).bsize = some 0 ∧
      ((runLoop 2 cexZero.simulateInit).dev 1).output = some 1 ∧
      ((runLoop 2 cexZero.simulateInit).part 1).kids = some [0] := by
  refine ⟨⟨rfl, rfl, rfl, rfl, by decide⟩, static_of_line _ rfl (by decide) (by decide), by decide,
    by decide, by decide, by decide, by decide⟩

/-- A failure event for the batcher (device 1) waits in the initial queue; the source delivers one
batch of three parts; the sink is blocked. -/
def cexFail : World :=
  { env := { terminated := false, nextUid := 101
             events := [{ uid := 100, time := 5, prio := 20, weight := 0, asset := 2, act := (Action.fail 1).toNat }] }
    devs := [{ kind := .source, aid := 1, down := [1], maxParts := some 1, cycle := 1, genBatch := 3 },
             { kind := .batcher, aid := 2, up := [0], down := [2], bsize := some 2 },
             { kind := .sink, aid := 3, up := [1], blockInput := true }]
    assets := [.dev 0, .dev 1, .dev 2] }

theorem init_cexFail : Init cexFail :=
  ⟨⟨rfl, rfl, rfl, rfl, by decide⟩, static_of_line _ rfl (by decide) (by decide), by decide⟩

/-- The hypothesis "not a failure of the batcher itself" of `order_step` is needed: the failure
drops the remaining input (part 2) at the END of the sequence `[0, 1, 2]`, while the output `[0, 1]`
stays. -/
theorem order_false_fail :
    Init cexFail ∧ ∃ e w', (runLoop 5 cexFail.simulateInit).step = some (e, w') ∧
      ¬ ((∃ ps : List Nat, C17.seqOf w' 1 =
            C17.seqOf (runLoop 5 cexFail.simulateInit) 1 ++ ps.flatMap (runLoop 5 cexFail.simulateInit).leavesOf) ∨
         (∃ o, ((runLoop 5 cexFail.simulateInit).dev 1).output = some o ∧
            C17.seqOf (runLoop 5 cexFail.simulateInit) 1 =
              (runLoop 5 cexFail.simulateInit).leavesOf o ++ C17.seqOf w' 1)) := by
  have hmap : (runLoop 5 cexFail.simulateInit).step.map (fun r => C17.seqOf r.2 1) = some [0, 1] := by decide
  have hseq : C17.seqOf (runLoop 5 cexFail.simulateInit) 1 = [0, 1, 2] := by decide
  have hout : ((runLoop 5 cexFail.simulateInit).dev 1).output = some 4 := by decide
  have hlv : (runLoop 5 cexFail.simulateInit).leavesOf 4 = [0, 1] := by decide
  refine ⟨init_cexFail, ?_⟩
  cases hst : (runLoop 5 cexFail.simulateInit).step with
  | none => rw [hst] at hmap; cases hmap
  | some r =>
    obtain ⟨e, w'⟩ := r
    rw [hst] at hmap
    have hw' : C17.seqOf w' 1 = [0, 1] := by simpa using hmap
    refine ⟨e, w', rfl, ?_⟩
    rintro (⟨ps, h⟩ | ⟨o, ho, h⟩)
    · rw [hw', hseq] at h
      have := congrArg List.length h
      simp at this
    · rw [hout] at ho
      obtain rfl : 4 = o := Option.some.inj ho
      rw [hw', hseq, hlv] at h
      exact absurd h (by decide)

/-! ### non-vacuity -/

/-- The hypotheses are satisfiable: source → batcher (size 2) → buffer (capacity 3, delay 4) → sink. -/
theorem init_exW : Init exW :=
  ⟨⟨rfl, rfl, rfl, rfl, by decide⟩, static_exW, by decide⟩

-- a batch under construction with one part (< 2) …
example : ((runLoop 7 exW.simulateInit).dev 1).inprog = some 4 ∧
    ((runLoop 7 exW.simulateInit).part 4).kids = some [3] ∧ C17.seqOf (runLoop 7 exW.simulateInit) 1 = [3] := by
  decide
-- … becomes an output of exactly 2 parts when the next part is accepted: appended at the END
example : ((runLoop 9 exW.simulateInit).dev 1).output = some 4 ∧
    ((runLoop 9 exW.simulateInit).part 4).kids = some [3, 5] ∧
    C17.seqOf (runLoop 9 exW.simulateInit) 1 = [3, 5] := by decide
-- when the buffer takes the batch, its leaves leave at the FRONT
example : C17.seqOf (runLoop 13 exW.simulateInit) 1 = [3, 5] ∧ C17.seqOf (runLoop 14 exW.simulateInit) 1 = [] ∧
    ((runLoop 14 exW.simulateInit).dev 2).buf = [(6, 4)] := by decide

-- the theorems apply to these states
example : C17.Wf (runLoop 7 exW.simulateInit) 1 := batcher_wf_reachable 7 exW init_exW 1 (by decide)
example : ∃ l, ((runLoop 9 exW.simulateInit).part 4).kids = some l ∧ l.length = 2 :=
  ((sizes_reachable 9 exW init_exW 1 (by decide)).1 2 (by decide)).2.2 4 (by decide)
example (e : Event) (w' : World) (hst : (runLoop 8 exW.simulateInit).step = some (e, w'))
    (hnf : ¬ (e.live = true ∧ Action.ofNat e.act = .fail 1)) :
    (∃ ps : List Nat, C17.seqOf w' 1 =
        C17.seqOf (runLoop 8 exW.simulateInit) 1 ++ ps.flatMap (runLoop 8 exW.simulateInit).leavesOf ∧
      ∀ q ∈ ps, ∃ d, d ≠ 1 ∧ q ∈ (sdev ((runLoop 8 exW.simulateInit).dev d)).held) ∨
    (∃ o, ((runLoop 8 exW.simulateInit).dev 1).output = some o ∧
      C17.seqOf (runLoop 8 exW.simulateInit) 1 = (runLoop 8 exW.simulateInit).leavesOf o ++ C17.seqOf w' 1) :=
  order_step _ w' e (ci_reachable 8 exW init_exW) hst 1 (by decide) hnf

example : NoFailNonProc exW := noFail_of_empty exW rfl rfl
example : ¬ NoFailNonProc cexFail := by
  intro h
  exact h ⟨(Action.fail 1).toNat, by decide, 1, by decide, by decide⟩

end C17W
end SimProc
