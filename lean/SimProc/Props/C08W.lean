/-
C08W — the closed-world routing invariant (property C08 along the whole event loop).

"Parts move only along configured upstream-to-downstream connections, pass a decision gate only if
its predicate accepts them, never enter a device whose input is blocked, and a part that entered a
shared group through one group path leaves the group through that same path (innermost first when
groups are nested).  A part's routing history lists in order, without gaps and without leftovers
from refused hand-overs, exactly the source, gates, group paths and devices it went through."

CONTENTS
* `give_history_exact` — one hand-over, exactly (any nesting of gates and groups): the history of the
  part (and of its kids) grows by one hand-over chain `GChain` (configured connections, gates, group
  paths in, innermost path out), every gate of the chain accepted the part AT THIS HAND-OVER, nothing
  on the chain was blocked, no other part changes.
* `Route w` — the invariant: what a device holds has a history that starts at a source (R5), is a
  walk along configured connections (R2: `WalkU`; in terms of single connections: `Linked (Edge …)`),
  and ends at the holder (R1; exception: the empty history of a batch a batcher has just built); a
  held batch has exactly the group-path stack its history yields (R3: `Walk`); all stacks consist of
  group paths.  `Stacks w` — the exact group-path stack (R3) also for the leaf parts in the slots.
* `Gates w` — every decision gate in the history of a leaf part in a slot accepts the part now (R4).
* `route_init`, `route_exec`, `route_step`, `route_runLoop`, `route_reachable`, `route_simulate` —
  `Route` holds in every state reachable from a fresh, statically well-formed world (`Static`: no
  rewire / create in scripts, wiring closed, no failure of a sink pending; ANY topology: gates,
  buffers, batchers, batches, nested and shared groups); `Stacks` holds in addition if the world has
  no batcher (`NoBatcher`); `Gates` holds in addition if moreover no receive / finish callback
  changes value or quality of parts (`NoCb`, decidable).
* FALSE as first stated, with machine-checked counterexamples: `stacks_unpacked_false` (with a
  batcher inside a group `Stacks` fails for the parts taken out of a batch: the kids of a batch do not
  take part in the batch's group-path bookkeeping), `gate_kid_false` ("every gate in the history
  accepts the part now" fails for parts inside a batch: the gate judged the batch).
* `down_const` — the configured graph never changes in a `Static` world; `static_of_wired` — a
  decidable sufficient condition for `Static`.
* corollaries in the words of the property: `ends_at_holder`, `starts_at_source`, `history_is_walk`,
  `batch_stack_exact`, `same_path_exit_reachable`, `exit_through_top`, `stack_entries_are_paths`,
  `gates_accept_now`, `no_leftovers_reachable`.
The machinery is in `SimProc/Proofs/C08W*.lean`.
-/
import SimProc.Props.C02
import SimProc.Props.C08
import SimProc.Proofs.C08WWorld
import SimProc.Proofs.C08WEdge

namespace SimProc
namespace C08W
open World C02V C08L

/-! ## (a) one hand-over, exactly -/

/-- **`give_history_exact`.**  Let `give f w y p` succeed, for an existing part `p` whose kids are
existing, pairwise different parts other than `p`.  Then there are an accepting device `z` (with a
slot of its own), a list `c` of decision gates and group paths, and a stack `s'` such that
* `c ++ [z]` is a hand-over chain from `y` for the stack of `p`: each entry is reached from the one
  before along a configured connection (through group inputs; out of a group through the configured
  downstream list of the innermost entered group path, which is popped), group paths push themselves;
* no device of `c ++ [z]` was blocked, and every decision gate in `c` accepted `p`;
* the history of `p` and of each of its kids is the old one followed by exactly `c ++ [z]`; the
  stack of `p` is `s'`; history and stack of every other existing part are unchanged (in particular
  the refused offers made on the way left nothing). -/
theorem give_history_exact (f : Nat) (w : World) (y p : Nat) (w' : World) (hp : p < w.parts.length)
    (hnd : (p :: ((w.part p).kids.getD [])).Nodup)
    (hkv : ∀ k ∈ (w.part p).kids.getD [], k < w.parts.length)
    (h : give f w y p = (w', true)) :
    ∃ z c s', GChain (topo w) y (w.part p).stack (c ++ [z]) s' ∧
      isHandlerLike (w.dev z).kind = true ∧
      (∀ g ∈ c ++ [z], (w.dev g).blockInput = false) ∧
      (∀ g ∈ c, (w.dev g).kind = .gate → w.gatePred (w.dev g).pred p = true) ∧
      (w'.part p).hist = (w.part p).hist ++ (c ++ [z]) ∧ (w'.part p).stack = s' ∧
      (∀ k ∈ (w.part p).kids.getD [], (w'.part k).hist = (w.part k).hist ++ (c ++ [z])) ∧
      (∀ q, q < w.parts.length → q ∉ p :: ((w.part p).kids.getD []) →
        (w'.part q).hist = (w.part q).hist ∧ (w'.part q).stack = (w.part q).stack) := by
  obtain ⟨z, c, s', w1, hC, hzk, hca, hw', hq, hb, hok⟩ := give_exact f w y p w' hp h
  have hlen : w1.parts.length = w.parts.length := hb.length
  have hst : (w1.part p).stack = s' := by
    have := (bumped_part hb p hp).2; simpa using this
  have hbb : Bumped w.parts (w1.addHist p z).parts p (c ++ [z]) s' := by
    have h2 := bumped_addHist w1 p z
    rw [hst] at h2
    exact hb.trans h2
  obtain ⟨fP, fK, fO⟩ := bumped_facts hbb hp hnd hkv
  obtain ⟨_, _, gO⟩ := bumped_facts hb hp hnd hkv
  have hacc : ∀ q, q < w.parts.length → (w'.part q).hist = ((w1.addHist p z).part q).hist ∧
      (w'.part q).stack = (w1.part q).stack := by
    intro q hq'
    have := acceptPart_hist_stack w1 z p q (by rw [hlen]; exact hq')
    rw [hw']; exact ⟨this.1, this.2.1⟩
  have hkids : ∀ l, (sv w).kids[p]? = some (some l) ↔ (w.part p).kids = some l := by
    intro l; rw [sv_kids_get w hp]; simp
  refine ⟨z, c, s', hC, hzk, ?_, hok.gates, ?_, ?_, ?_, ?_⟩
  · intro g hg
    rcases List.mem_append.1 hg with hg | hg
    · exact hok.unblocked g hg
    · have : g = z := by simpa using hg
      rw [this, ← hq.blk]; exact canAccept_unblocked hca
  · rw [(hacc p hp).1]; exact fP.1
  · rw [(hacc p hp).2]; exact hst
  · intro k hk
    cases hkk : (w.part p).kids with
    | none => rw [hkk] at hk; simp at hk
    | some l =>
      rw [hkk] at hk
      rw [(hacc k (hkv k (by rw [hkk]; exact hk))).1]
      exact fK l ((hkids l).2 hkk) k hk
  · intro q hq' hqn
    have hqp : q ≠ p := fun e => hqn (by rw [e]; exact List.mem_cons_self ..)
    have hql : ∀ l, (sv w).kids[p]? = some (some l) → q ∉ l := by
      intro l hl hm
      have := (hkids l).1 hl
      exact hqn (List.mem_cons_of_mem _ (by rw [this]; exact hm))
    have h1 := fO q (by rw [sv_kids_length]; exact hq') hqp hql
    have h2 := gO q (by rw [sv_kids_length]; exact hq') hqp hql
    exact ⟨by rw [(hacc q hq').1]; exact h1.1, by rw [(hacc q hq').2]; exact h2.2⟩

/-- The same for the entry point `givePart`. -/
theorem givePart_history_exact (w : World) (y p : Nat) (w' : World) (hp : p < w.parts.length)
    (hnd : (p :: ((w.part p).kids.getD [])).Nodup)
    (hkv : ∀ k ∈ (w.part p).kids.getD [], k < w.parts.length)
    (h : givePart w y p = (w', true)) :
    ∃ z c s', GChain (topo w) y (w.part p).stack (c ++ [z]) s' ∧
      isHandlerLike (w.dev z).kind = true ∧
      (∀ g ∈ c ++ [z], (w.dev g).blockInput = false) ∧
      (∀ g ∈ c, (w.dev g).kind = .gate → w.gatePred (w.dev g).pred p = true) ∧
      (w'.part p).hist = (w.part p).hist ++ (c ++ [z]) ∧ (w'.part p).stack = s' ∧
      (∀ k ∈ (w.part p).kids.getD [], (w'.part k).hist = (w.part k).hist ++ (c ++ [z])) ∧
      (∀ q, q < w.parts.length → q ∉ p :: ((w.part p).kids.getD []) →
        (w'.part q).hist = (w.part q).hist ∧ (w'.part q).stack = (w.part q).stack) :=
  give_history_exact _ w y p w' hp hnd hkv h

/-- The hypotheses of `give_history_exact` hold for every part a device other than a sink holds in a
conservative world (in particular for the part a device is about to pass on). -/
theorem held_part_wellformed {w : World} (hc : C02.ConsS w) {x p : Nat} (hx : x < w.devs.length)
    (hk : (w.dev x).kind ≠ .sink) (hp : p ∈ C02.held (w.dev x)) :
    p < w.parts.length ∧ (p :: ((w.part p).kids.getD [])).Nodup ∧
      ∀ k ∈ (w.part p).kids.getD [], k < w.parts.length := by
  have hI : InvW w := (C02.consS_iff w).1 hc
  have := histIdxs_nodup hI hx hk hp
  exact ⟨held_valid hI hx hp, this.1, this.2⟩

/-- A chain (for a stack of group paths) consists of single connections: its first entry is reached
from the device the part was offered to, and consecutive entries are connected (`Edge`). -/
theorem chain_is_path {t : Topo} {y : Nat} {s c s' : List Nat} (h : GChain t y s c s')
    (hs : ∀ g ∈ s, t.kind g = .gpath) :
    ∃ b rest, c = b :: rest ∧ Thru t y b ∧ Linked (Edge t) c := h.linked hs

/-- Everything before the accepting device is a decision gate or a group path. -/
theorem chain_inner {t : Topo} {y z : Nat} {s c s' : List Nat} (h : GChain t y s (c ++ [z]) s') :
    ∀ d ∈ c, t.kind d = .gate ∨ t.kind d = .gpath := by
  have := h.inner
  rw [List.dropLast_concat] at this
  exact this

/-! ## (b) the invariant -/

/-- Part `p` sits in a slot of device `x` (input, output, buffer content, batch under
construction). -/
def Holds (w : World) (x p : Nat) : Prop := x < w.devs.length ∧ p ∈ C02.held (w.dev x)

instance (w : World) (x p : Nat) : Decidable (Holds w x p) := by unfold Holds; infer_instance

/-- **The routing invariant** (on the slot view, see `Proofs/C08WView.lean`; in the terms of the
world: `ends_at_holder`, `starts_at_source`, `history_is_walk`, `batch_stack_exact`,
`stack_entries_are_paths` below). -/
def Route (w : World) : Prop :=
  RouteV (sv w) (topo w) (hiOf w) (skOf w) ∧ PathsV (sv w) (topo w) (skOf w)

/-- The exact group-path stacks of the leaf parts that sit directly in a slot. -/
def Stacks (w : World) : Prop := StackV (sv w) (topo w) (hiOf w) (skOf w)

/-- Every decision gate in the history of a leaf part that sits directly in a slot accepts the part
now. -/
def Gates (w : World) : Prop := GateV (sv w) (topo w) (hiOf w) (accOf w)

theorem routeN_FF (w : World) : RouteN False False w ↔ Route w :=
  ⟨fun h => ⟨h.1, h.2.2.1⟩, fun h => ⟨h.1, fun hn => hn.elim, h.2, fun hn => hn.elim⟩⟩

theorem routeN_TF (w : World) : RouteN True False w ↔ Route w ∧ Stacks w :=
  ⟨fun h => ⟨⟨h.1, h.2.2.1⟩, h.2.1 trivial⟩, fun h => ⟨h.1.1, fun _ => h.2, h.1.2, fun hn => hn.elim⟩⟩

theorem routeN_TT (w : World) : RouteN True True w ↔ Route w ∧ Stacks w ∧ Gates w :=
  ⟨fun h => ⟨⟨h.1, h.2.2.1⟩, h.2.1 trivial, h.2.2.2 trivial⟩,
   fun h => ⟨h.1.1, fun _ => h.2.1, h.1.2, fun _ => h.2.2⟩⟩

theorem invW_iff (w : World) : InvW w ↔ C02.ConsS w := (C02.consS_iff w).symm

/-! ### the configured graph is fixed -/

/-- **`down_const`.**  One step of the event loop of a statically well-formed world changes neither
the configured downstream lists nor kinds, groups and group inputs (nor gate predicates and part
callbacks: `pcv`). -/
theorem down_const (w w' : World) (e : Event) (hs : Static w) (hst : w.step = some (e, w')) :
    topo w' = topo w ∧ pcv w' = pcv w ∧
      ∀ x, (w'.dev x).down = (w.dev x).down ∧ (w'.dev x).kind = (w.dev x).kind := by
  have h := topo_of_tv (tv_step w w' e hs hst).1
  refine ⟨h, (tv_step w w' e hs hst).2, fun x => ⟨?_, ?_⟩⟩
  · exact congrArg (fun t => t.down x) h
  · exact congrArg (fun t => t.kind x) h

/-- … and so does a whole run. -/
theorem down_const_runLoop (n : Nat) (w : World) (hc : C02.ConsS w) (hs : Static w) :
    topo (runLoop n w) = topo w ∧
      ∀ x, ((runLoop n w).dev x).down = (w.dev x).down ∧ ((runLoop n w).dev x).kind = (w.dev x).kind := by
  have h := topo_of_tv (tv_runLoop n w ((invW_iff w).2 hc) hs)
  refine ⟨h, fun x => ⟨?_, ?_⟩⟩
  · exact congrArg (fun t => t.down x) h
  · exact congrArg (fun t => t.kind x) h

theorem down_const_simulateInit (w : World) : topo w.simulateInit = topo w :=
  topo_of_tv (sr_simulateInit (fun _ => True) w).1

/-! ### preservation -/

/-- **`route_init`**: a fresh world satisfies all three invariants. -/
theorem route_init (w : World) (hf : C02.Fresh w) : Route w ∧ Stacks w ∧ Gates w :=
  (routeN_TT w).1 (route_of_empty w hf.1 (fun d hd => hf.2.2.2.2 d hd))

/-- **`route_exec`**: every admissible event action (`ActOK`: every device a hand-over can reach
exists; no failure of a sink) of a world with static scripts preserves the routing invariant —
`script`, `finishCycle`, `passPart`, `fail`, `releaseIfIdle`, `rmCheck`, `startWork`, `finishWork`,
`schedUpdate`, `periodicSense`, `terminate`, `unknown`. -/
theorem route_exec (w : World) (a : Action) (hc : C02.ConsS w) (hR : Route w)
    (hs : ScriptsStatic w) (ha : ActOK w a) : Route (w.exec a) :=
  (routeN_FF _).1 (routeN_exec (nb := False) (nc := False) w a ((invW_iff w).2 hc) ((routeN_FF w).2 hR)
    (fun h => h.elim) (fun h => h.elim) hs ha)

/-- … in a world without batchers, the exact stacks of the top-level leaves … -/
theorem stacks_exec (w : World) (a : Action) (hc : C02.ConsS w) (hR : Route w) (hS : Stacks w)
    (hnb : NoBatcher w) (hs : ScriptsStatic w) (ha : ActOK w a) : Stacks (w.exec a) :=
  ((routeN_TF _).1 (routeN_exec (nb := True) (nc := False) w a ((invW_iff w).2 hc)
    ((routeN_TF w).2 ⟨hR, hS⟩) (fun _ => hnb) (fun h => h.elim) hs ha)).2

/-- … and, without batchers and without value/quality-changing callbacks, the gate verdicts. -/
theorem gates_exec (w : World) (a : Action) (hc : C02.ConsS w) (hR : Route w) (hS : Stacks w)
    (hG : Gates w) (hnb : NoBatcher w) (hcb : NoCb w) (hs : ScriptsStatic w) (ha : ActOK w a) :
    Gates (w.exec a) :=
  ((routeN_TT _).1 (routeN_exec (nb := True) (nc := True) w a ((invW_iff w).2 hc)
    ((routeN_TT w).2 ⟨hR, hS, hG⟩) (fun _ => hnb) (fun _ => ⟨hnb, hcb⟩) hs ha)).2.2

/-- **`route_step`**: one step of the event loop of a statically well-formed world. -/
theorem route_step (w w' : World) (e : Event) (hc : C02.ConsS w) (hR : Route w) (hs : Static w)
    (hst : w.step = some (e, w')) : C02.ConsS w' ∧ Route w' ∧ Static w' := by
  have := routeN_step (nb := False) (nc := False) w w' e ((invW_iff w).2 hc) ((routeN_FF w).2 hR)
    (fun h => h.elim) (fun h => h.elim) hs hst
  exact ⟨(invW_iff w').1 this.1, (routeN_FF w').1 this.2.1, this.2.2.1⟩

theorem stacks_step (w w' : World) (e : Event) (hc : C02.ConsS w) (hR : Route w) (hS : Stacks w)
    (hnb : NoBatcher w) (hs : Static w) (hst : w.step = some (e, w')) :
    Stacks w' ∧ NoBatcher w' := by
  have := routeN_step (nb := True) (nc := False) w w' e ((invW_iff w).2 hc) ((routeN_TF w).2 ⟨hR, hS⟩)
    (fun _ => hnb) (fun h => h.elim) hs hst
  exact ⟨((routeN_TF w').1 this.2.1).2, this.2.2.2.1 trivial⟩

theorem gates_step (w w' : World) (e : Event) (hc : C02.ConsS w) (hR : Route w) (hS : Stacks w)
    (hG : Gates w) (hnb : NoBatcher w) (hcb : NoCb w) (hs : Static w) (hst : w.step = some (e, w')) :
    Gates w' ∧ NoBatcher w' ∧ NoCb w' := by
  have := routeN_step (nb := True) (nc := True) w w' e ((invW_iff w).2 hc) ((routeN_TT w).2 ⟨hR, hS, hG⟩)
    (fun _ => hnb) (fun _ => ⟨hnb, hcb⟩) hs hst
  exact ⟨((routeN_TT w').1 this.2.1).2.2, this.2.2.2.2 trivial⟩

/-- **`route_runLoop`**: a whole run. -/
theorem route_runLoop (n : Nat) (w : World) (hc : C02.ConsS w) (hR : Route w) (hs : Static w) :
    C02.ConsS (runLoop n w) ∧ Route (runLoop n w) ∧ Static (runLoop n w) := by
  have := routeN_runLoop (nb := False) (nc := False) n w ((invW_iff w).2 hc) ((routeN_FF w).2 hR)
    (fun h => h.elim) (fun h => h.elim) hs
  exact ⟨(invW_iff _).1 this.1, (routeN_FF _).1 this.2.1, this.2.2.1⟩

theorem stacks_runLoop (n : Nat) (w : World) (hc : C02.ConsS w) (hR : Route w) (hS : Stacks w)
    (hnb : NoBatcher w) (hs : Static w) : Stacks (runLoop n w) ∧ NoBatcher (runLoop n w) := by
  have := routeN_runLoop (nb := True) (nc := False) n w ((invW_iff w).2 hc) ((routeN_TF w).2 ⟨hR, hS⟩)
    (fun _ => hnb) (fun h => h.elim) hs
  exact ⟨((routeN_TF _).1 this.2.1).2, this.2.2.2.1 trivial⟩

theorem gates_runLoop (n : Nat) (w : World) (hc : C02.ConsS w) (hR : Route w) (hS : Stacks w)
    (hG : Gates w) (hnb : NoBatcher w) (hcb : NoCb w) (hs : Static w) :
    Gates (runLoop n w) ∧ NoBatcher (runLoop n w) ∧ NoCb (runLoop n w) := by
  have := routeN_runLoop (nb := True) (nc := True) n w ((invW_iff w).2 hc) ((routeN_TT w).2 ⟨hR, hS, hG⟩)
    (fun _ => hnb) (fun _ => ⟨hnb, hcb⟩) hs
  exact ⟨((routeN_TT _).1 this.2.1).2.2, this.2.2.2.2 trivial⟩

/-- Initialisation (`System.simulate` before the loop). -/
theorem route_simulateInit (w : World) (hc : C02.ConsS w) (hR : Route w) : Route w.simulateInit :=
  (routeN_FF _).1 (routeN_simulateInit (nb := False) (nc := False) w ((invW_iff w).2 hc)
    ((routeN_FF w).2 hR) (fun h => h.elim)).2

theorem stacks_simulateInit (w : World) (hc : C02.ConsS w) (hR : Route w) (hS : Stacks w) :
    Stacks w.simulateInit :=
  ((routeN_TF _).1 (routeN_simulateInit (nb := True) (nc := False) w ((invW_iff w).2 hc)
    ((routeN_TF w).2 ⟨hR, hS⟩) (fun h => h.elim)).2).2

theorem gates_simulateInit (w : World) (hc : C02.ConsS w) (hR : Route w) (hS : Stacks w)
    (hG : Gates w) (hnb : NoBatcher w) (hcb : NoCb w) : Gates w.simulateInit :=
  ((routeN_TT _).1 (routeN_simulateInit (nb := True) (nc := True) w ((invW_iff w).2 hc)
    ((routeN_TT w).2 ⟨hR, hS, hG⟩) (fun _ => ⟨hnb, hcb⟩)).2).2.2

/-- **The invariant in every reachable state**: initialise a fresh, statically well-formed world,
then run the event loop with any fuel.  `Route` always; `Stacks` if there is no batcher; `Gates` if
moreover no callback changes value or quality of parts. -/
theorem route_reachable (n : Nat) (w : World) (hf : C02.Fresh w) (hs : Static w) :
    let w' := runLoop n w.simulateInit
    C02.ConsS w' ∧ Static w' ∧ topo w' = topo w ∧ Route w' ∧ (NoBatcher w → Stacks w') ∧
      (NoBatcher w → NoCb w → Gates w') := by
  have hc0 := C02.consS_fresh w hf
  have hc1 := C02.consS_simulateInit w hc0
  have hs1 := C02.static_simulateInit' w hs
  obtain ⟨hR0, hS0, hG0⟩ := route_init w hf
  have hR1 := route_simulateInit w hc0 hR0
  have hS1 := stacks_simulateInit w hc0 hR0 hS0
  have h2 := route_runLoop n _ hc1 hR1 hs1
  refine ⟨h2.1, h2.2.2, ?_, h2.2.1, ?_, ?_⟩
  · rw [(down_const_runLoop n _ hc1 hs1).1, down_const_simulateInit]
  · intro hnb
    have hnb1 : NoBatcher w.simulateInit := hnb.of_tv (sr_simulateInit (fun _ => True) w).1
    exact (stacks_runLoop n _ hc1 hR1 hS1 hnb1 hs1).1
  · intro hnb hcb
    have hnb1 : NoBatcher w.simulateInit := hnb.of_tv (sr_simulateInit (fun _ => True) w).1
    have hcb1 : NoCb w.simulateInit := hcb.of_pcv (pcv_simulateInit w)
    have hG1 := gates_simulateInit w hc0 hR0 hS0 hG0 hnb hcb
    exact (gates_runLoop n _ hc1 hR1 hS1 hG1 hnb1 hcb1 hs1).1

theorem pcv_runBegin (w : World) (d : Int) : pcv (w.runBegin d).1 = pcv w := by
  unfold World.runBegin
  dsimp only
  split <;> rfl

/-- The same for `System.simulate(d)`: initialise, begin a run of duration `d` (this schedules the
terminate event), then loop. -/
theorem route_simulate (n : Nat) (d : Int) (w : World) (hf : C02.Fresh w) (hs : Static w) :
    let w' := runLoop n (w.simulateInit.runBegin d).1
    C02.ConsS w' ∧ Static w' ∧ topo w' = topo w ∧ Route w' ∧ (NoBatcher w → Stacks w') ∧
      (NoBatcher w → NoCb w → Gates w') := by
  have hc0 := C02.consS_fresh w hf
  have hc1 := C02.consS_simulateInit w hc0
  have hs1 := C02.static_simulateInit' w hs
  obtain ⟨hR0, hS0, hG0⟩ := route_init w hf
  have hR1 := route_simulateInit w hc0 hR0
  have hS1 := stacks_simulateInit w hc0 hR0 hS0
  have r := rf_runBegin w.simulateInit d
  have hc2 : C02.ConsS (w.simulateInit.runBegin d).1 :=
    (invW_iff _).1 (InvW.of_rf ((invW_iff _).2 hc1) r)
  have hs2 := static_runBegin w.simulateInit d hs1
  have hR2 : Route (w.simulateInit.runBegin d).1 :=
    (routeN_FF _).1 (RouteN.of_rf ((routeN_FF _).2 hR1) r)
  have hS2 : Stacks (w.simulateInit.runBegin d).1 :=
    ((routeN_TF _).1 (RouteN.of_rf ((routeN_TF _).2 ⟨hR1, hS1⟩) r)).2
  have h2 := route_runLoop n _ hc2 hR2 hs2
  refine ⟨h2.1, h2.2.2, ?_, h2.2.1, ?_, ?_⟩
  · rw [(down_const_runLoop n _ hc2 hs2).1, topo_of_tv r.tv, down_const_simulateInit]
  · intro hnb
    have hnb1 : NoBatcher w.simulateInit := hnb.of_tv (sr_simulateInit (fun _ => True) w).1
    exact (stacks_runLoop n _ hc2 hR2 hS2 (hnb1.of_tv r.tv) hs2).1
  · intro hnb hcb
    have hnb1 : NoBatcher w.simulateInit := hnb.of_tv (sr_simulateInit (fun _ => True) w).1
    have hcb1 : NoCb w.simulateInit := hcb.of_pcv (pcv_simulateInit w)
    have hG1 := gates_simulateInit w hc0 hR0 hS0 hG0 hnb hcb
    have hG2 : Gates (w.simulateInit.runBegin d).1 :=
      ((routeN_TT _).1 (RouteN.of_rf ((routeN_TT _).2 ⟨hR1, hS1, hG1⟩) r)).2.2
    exact (gates_runLoop n _ hc2 hR2 hS2 hG2 (hnb1.of_tv r.tv) (hcb1.of_pcv r.pc) hs2).1

/-! ## (c) the property in its own words -/

theorem holds_sv {w : World} {x p : Nat} (h : Holds w x p) :
    (sv w).devs[x]? = some (sdev (w.dev x)) ∧ p ∈ (sdev (w.dev x)).held :=
  ⟨sv_get w x h.1, h.2⟩

theorem holds_valid {w : World} (hc : C02.ConsS w) {x p : Nat} (h : Holds w x p) :
    p < w.parts.length := held_valid ((invW_iff w).2 hc) h.1 h.2

theorem getLast?_cons_lastOf (s : Nat) (h : List Nat) : (s :: h).getLast? = some (lastOf s h) := by
  induction h generalizing s with
  | nil => rfl
  | cons a h ih => rw [List.getLast?_cons_cons, ih a, lastOf_cons]

/-- What the invariant says about a leaf part held by `x` (directly or inside a batch). -/
theorem leaf_facts {t : Topo} {hi : Nat → List Nat} {x k : Nat} (h : GoodLeaf t hi x k) :
    (hi k).getLast? = some x ∧ (∃ s, (hi k).head? = some s ∧ t.kind s = .source) ∧
      Linked (Edge t) (hi k) := by
  obtain ⟨s, h0, h1, h2, h3, h4⟩ := h
  rw [h1]
  exact ⟨by rw [getLast?_cons_lastOf, h4], ⟨s, rfl, h2⟩, h3.linked⟩

/-- **`ends_at_holder`.**  In a state satisfying the invariant, the last entry of the history of a
part is the device that holds it: for a leaf in a slot, for every leaf inside a held batch, and for
a held batch — except that the history of a batch a batcher has just put together is still empty (a
batcher does not sign the batches it builds; the kids have signed it). -/
theorem ends_at_holder {w : World} (hc : C02.ConsS w) (hR : Route w) {x p : Nat} (h : Holds w x p) :
    ((w.part p).kids = none → (w.part p).hist.getLast? = some x) ∧
    (∀ l, (w.part p).kids = some l →
      ((w.part p).hist = [] ∨ (w.part p).hist.getLast? = some x) ∧
      ∀ k ∈ l, (w.part k).hist.getLast? = some x) := by
  obtain ⟨hz, hq⟩ := holds_sv h
  have hk := sv_kids_get w (holds_valid hc h)
  refine ⟨?_, ?_⟩
  · intro hn
    rw [hn] at hk
    exact (leaf_facts (hR.1.leaf x _ p hz hq hk)).1
  · intro l hl
    rw [hl] at hk
    refine ⟨?_, fun k hkl => (leaf_facts (hR.1.kid x _ p l k hz hq hk hkl)).1⟩
    obtain ⟨o, h0, h1, _, h3⟩ := hR.1.batch x _ p l hz hq hk
    have h1' : (w.part p).hist = o :: h0 ∨ (w.part p).hist = h0 := h1
    rcases h1' with h1 | h1
    · right; rw [h1, getLast?_cons_lastOf, h3]
    · cases h0 with
      | nil => left; exact h1
      | cons a h0 =>
        right
        rw [h1, getLast?_cons_lastOf]
        rw [lastOf_cons] at h3
        rw [h3]

/-- **`starts_at_source`** (R5).  The history of a held leaf (in a slot or inside a batch) starts
with a source. -/
theorem starts_at_source {w : World} (hc : C02.ConsS w) (hR : Route w) {x p : Nat} (h : Holds w x p) :
    ((w.part p).kids = none → ∃ s, (w.part p).hist.head? = some s ∧ (w.dev s).kind = .source) ∧
    (∀ l, (w.part p).kids = some l → ∀ k ∈ l,
      ∃ s, (w.part k).hist.head? = some s ∧ (w.dev s).kind = .source) := by
  obtain ⟨hz, hq⟩ := holds_sv h
  have hk := sv_kids_get w (holds_valid hc h)
  refine ⟨?_, ?_⟩
  · intro hn
    rw [hn] at hk
    exact (leaf_facts (hR.1.leaf x _ p hz hq hk)).2.1
  · intro l hl k hkl
    rw [hl] at hk
    exact (leaf_facts (hR.1.kid x _ p l k hz hq hk hkl)).2.1

theorem linked_tail {R : Nat → Nat → Prop} {a : Nat} {l : List Nat} (h : Linked R (a :: l)) :
    Linked R l := by
  cases l with
  | nil => trivial
  | cons b l => exact h.2

/-- **`history_is_walk`** (R2).  Consecutive entries of the history of a held part (leaf, kid or
batch) are connected: the later one is reached from the earlier one through a configured
downstream connection — directly, through group inputs, or through a group output and the
configured downstream list of a group path — or the earlier one is a group path and the later one
is reached from the input device of its group (`Edge`). -/
theorem history_is_walk {w : World} (hc : C02.ConsS w) (hR : Route w) {x p : Nat} (h : Holds w x p) :
    Linked (Edge (topo w)) (w.part p).hist ∧
    (∀ l, (w.part p).kids = some l → ∀ k ∈ l, Linked (Edge (topo w)) (w.part k).hist) := by
  obtain ⟨hz, hq⟩ := holds_sv h
  have hk := sv_kids_get w (holds_valid hc h)
  cases hkk : (w.part p).kids with
  | none =>
    rw [hkk] at hk
    exact ⟨(leaf_facts (hR.1.leaf x _ p hz hq hk)).2.2, fun l hl => by cases hl⟩
  | some l =>
    rw [hkk] at hk
    refine ⟨?_, fun l' hl' k hkl => ?_⟩
    · obtain ⟨o, h0, h1, h2, _⟩ := hR.1.batch x _ p l hz hq hk
      have h1' : (w.part p).hist = o :: h0 ∨ (w.part p).hist = h0 := h1
      have hl := h2.toU.linked
      rcases h1' with h1 | h1
      · rw [h1]; exact hl
      · rw [h1]; exact linked_tail hl
    · cases hl'
      exact (leaf_facts (hR.1.kid x _ p l k hz hq hk hkl)).2.2

/-- **Exact group-path stack of a batch** (R3, every statically well-formed world).  The stack of a
held batch is what the group-path bookkeeping along its history yields, started with the empty
stack at its origin `o` (the source that generated it — first entry of the history — or the batcher
that built it — then the history starts after `o`): a group path pushes itself, a group output pops
the innermost path `g` and continues with the downstream devices of exactly `g`.  In particular
every path on the stack is a group path that occurs in the history. -/
theorem batch_stack_exact {w : World} (hc : C02.ConsS w) (hR : Route w) {x p : Nat} (h : Holds w x p)
    {l : List Nat} (hl : (w.part p).kids = some l) :
    (∃ o h0, ((w.part p).hist = o :: h0 ∨ (w.part p).hist = h0) ∧
      Walk (topo w) o [] h0 (w.part p).stack) ∧
    ∀ g ∈ (w.part p).stack, g ∈ (w.part p).hist ∧ (w.dev g).kind = .gpath := by
  obtain ⟨hz, hq⟩ := holds_sv h
  have hk := sv_kids_get w (holds_valid hc h)
  rw [hl] at hk
  obtain ⟨o, h0, h1, h2, _⟩ := hR.1.batch x _ p l hz hq hk
  have h1' : (w.part p).hist = o :: h0 ∨ (w.part p).hist = h0 := h1
  refine ⟨⟨o, h0, h1', h2⟩, ?_⟩
  intro g hg
  have := h2.stack_mem g hg
  refine ⟨?_, this.2⟩
  rcases h1' with h1 | h1
  · rw [h1]; exact List.mem_cons_of_mem _ this.1
  · rw [h1]; exact this.1

/-- The stack of every existing part consists of group paths. -/
theorem stack_entries_are_paths {w : World} (hR : Route w) {q : Nat} (hq : q < w.parts.length) :
    ∀ g ∈ (w.part q).stack, (w.dev g).kind = .gpath :=
  hR.2 q (by rw [sv_kids_length]; exact hq)

/-- **`same_path_exit_reachable`** (R3 for the leaves in the slots; worlds without batchers).  The
stack of a leaf part that sits in a slot is exactly what the group-path bookkeeping along its
history yields: the group paths entered and not yet left, innermost last.  Hence when it is offered
to a group output next, it leaves through the innermost entered path (`C08.same_path_exit`), and a
part whose history has as many exits as entries has the empty stack. -/
theorem same_path_exit_reachable {w : World} (hc : C02.ConsS w) (hS : Stacks w) {x p : Nat}
    (h : Holds w x p) (hl : (w.part p).kids = none) :
    (∃ s h0, (w.part p).hist = s :: h0 ∧ Walk (topo w) s [] h0 (w.part p).stack) ∧
    ∀ g ∈ (w.part p).stack, g ∈ (w.part p).hist ∧ (w.dev g).kind = .gpath := by
  obtain ⟨hz, hq⟩ := holds_sv h
  have hk := sv_kids_get w (holds_valid hc h)
  rw [hl] at hk
  obtain ⟨s, h0, h1, h2, _⟩ := hS x _ p hz hq hk
  have h1' : (w.part p).hist = s :: h0 := h1
  refine ⟨⟨s, h0, h1', h2⟩, ?_⟩
  intro g hg
  have := h2.stack_mem g hg
  exact ⟨by rw [h1']; exact List.mem_cons_of_mem _ this.1, this.2⟩

/-- What the next group output does with such a part (one call; from `Props/C08.lean`): it offers it
to the sorted downstream list of the top of the stack — by `same_path_exit_reachable` the innermost
group path of the history that has not been left yet. -/
theorem exit_through_top (f : Nat) (w : World) (x p : Nat) (s : List Nat) (g : Nat)
    (hk : (w.dev x).kind = .goutput) (hs : (w.part p).stack = s ++ [g]) (w' : World)
    (h : give (f + 1) w x p = (w', true)) :
    ∃ y wm, y ∈ (w.dev g).down ∧ give f wm y p = (w', true) := by
  obtain ⟨y, wm, hy, _, hg⟩ := C08.goutput_passes_downstream f w w' x p s g hk hs h
  exact ⟨y, wm, hy, hg⟩

/-- **`gates_accept_now`** (R4 as an invariant; worlds without batchers and without callbacks that
change value or quality).  Every decision gate in the history of a leaf part that sits in a slot
accepts the part now.  (False for parts inside batches: `gate_kid_false`.  What holds in every world,
per hand-over: `give_history_exact`.) -/
theorem gates_accept_now {w : World} (hc : C02.ConsS w) (hG : Gates w) {x p : Nat} (h : Holds w x p)
    (hl : (w.part p).kids = none) :
    ∀ g ∈ (w.part p).hist, (w.dev g).kind = .gate → w.gatePred (w.dev g).pred p = true := by
  obtain ⟨hz, hq⟩ := holds_sv h
  have hk := sv_kids_get w (holds_valid hc h)
  rw [hl] at hk
  exact hG x _ p hz hq hk

/-- **`no_leftovers_reachable`.**  An offer round that is refused by every downstream device leaves
the whole parts table — histories and stacks of all parts — exactly as it was, and in every state
satisfying the invariant the history of a held leaf consists of its source followed by hand-over
chains only, the last of which ends at the holder: there is no entry of a device that refused. -/
theorem no_leftovers_reachable {w : World} (hc : C02.ConsS w) (hR : Route w) {x p : Nat}
    (h : Holds w x p) (hl : (w.part p).kids = none) :
    (∃ s h0, (w.part p).hist = s :: h0 ∧ (w.dev s).kind = .source ∧ WalkU (topo w) s h0 ∧
      lastOf s h0 = x) ∧
    ∀ l w', tryList givePart w l p = (w', false) → w'.parts = w.parts := by
  obtain ⟨hz, hq⟩ := holds_sv h
  have hk := sv_kids_get w (holds_valid hc h)
  rw [hl] at hk
  exact ⟨hR.1.leaf x _ p hz hq hk, fun l w' h' => C08.no_leftovers_tryList_givePart w l p w' h'⟩

/-! ## (d) the exact stack is FALSE for parts unpacked from a batch

`group.py` keeps the group-path stack (`_group_pathing`) on the part object that is handed over; for
a batch that is the batch, not the parts in it.  A part that a batcher inside a group takes out of a
batch therefore has the group path in its history but not on its stack: `Stacks` fails (and the part
can never leave the group: a group output refuses it with the model error `no-group-path`). -/

/-- Without group outputs a chain only ever pushes: the stack grows by the group paths of the chain. -/
theorem gchain_stack_len {t : Topo} (hno : ∀ d, t.kind d ≠ .goutput) {y : Nat} {s c s' : List Nat}
    (h : GChain t y s c s') :
    s'.length = s.length + (c.filter (fun d => t.kind d == .gpath)).length := by
  induction h with
  | slot y s hk =>
    have : (t.kind y == Kind.gpath) = false := by
      cases hkk : t.kind y <;> simp_all [isHandlerLike]
    simp [List.filter, this]
  | gate y s y' c s' hk _ _ ih =>
    have : (t.kind y == Kind.gpath) = false := by rw [hk]; rfl
    rw [List.filter_cons, this]; exact ih
  | ginput y s y' c s' _ _ _ ih => exact ih
  | gpath y s c s' hk _ ih =>
    have : (t.kind y == Kind.gpath) = true := by rw [hk]; rfl
    rw [List.filter_cons, this, ih]
    simp only [List.length_append, List.length_cons, List.length_nil, if_true]
    omega
  | goutput y s g y' c s' hk _ _ _ => exact absurd hk (hno y)

theorem walk_stack_len {t : Topo} (hno : ∀ d, t.kind d ≠ .goutput) {o : Nat} {h s' : List Nat}
    (w : Walk t o [] h s') : s'.length = (h.filter (fun d => t.kind d == .gpath)).length := by
  induction w with
  | nil => rfl
  | snoc h s1 y c s2 _ _ hc ih =>
    rw [gchain_stack_len hno hc, ih, List.filter_append, List.length_append]

/-- A source of batches of two parts (0) feeds, through the group path 1 and the group input 2, a
batcher (3) inside the group, which unpacks the batches and passes the parts to the sink 4. -/
def exUnpack : World :=
  { env := { terminated := false },
    devs := [{ kind := .source, aid := 1, down := [1], maxParts := some 1, cycle := 1, genBatch := 2 },
             { kind := .gpath, aid := 2, up := [0], group := 0 },
             { kind := .ginput, aid := 3, down := [3], group := 0 },
             { kind := .batcher, aid := 4, up := [2], down := [4], cycle := 1 },
             { kind := .sink, aid := 5, up := [3] }],
    groups := [{ paths := [1], input := 2, output := 2 }],
    assets := [.dev 0, .dev 1, .dev 2, .dev 3, .dev 4] }

theorem fresh_exUnpack : C02.Fresh exUnpack := by
  refine ⟨rfl, rfl, rfl, rfl, ?_⟩
  decide

theorem static_exUnpack : Static exUnpack :=
  static_of_wired (by intro l hl; cases hl) (by decide) ⟨rfl, rfl⟩

/-- **`Stacks` is false with a batcher inside a group**: after two events of the (fresh, statically
well-formed) world `exUnpack`, part 0 — a leaf that the batcher 3 has just taken out of the batch —
sits in the output slot of the batcher with the history `[0, 1, 3]` (source, group path, batcher) and
the EMPTY stack, although it is inside the group entered through path 1. -/
theorem stacks_unpacked_false :
    C02.Fresh exUnpack ∧ Static exUnpack ∧
      Holds (runLoop 2 exUnpack.simulateInit) 3 0 ∧
      ((runLoop 2 exUnpack.simulateInit).part 0).kids = none ∧
      ((runLoop 2 exUnpack.simulateInit).part 0).hist = [0, 1, 3] ∧
      ((runLoop 2 exUnpack.simulateInit).part 0).stack = [] ∧
      ¬ Stacks (runLoop 2 exUnpack.simulateInit) := by
  have hH : Holds (runLoop 2 exUnpack.simulateInit) 3 0 := by decide
  have hk : ((runLoop 2 exUnpack.simulateInit).part 0).kids = none := by decide
  have hh : ((runLoop 2 exUnpack.simulateInit).part 0).hist = [0, 1, 3] := by decide
  have hs : ((runLoop 2 exUnpack.simulateInit).part 0).stack = [] := by decide
  refine ⟨fresh_exUnpack, static_exUnpack, hH, hk, hh, hs, ?_⟩
  intro hS
  obtain ⟨hz, hq⟩ := holds_sv hH
  have hkk := sv_kids_get (runLoop 2 exUnpack.simulateInit) (q := 0) (by decide)
  rw [hk] at hkk
  obtain ⟨s, h0, h1, h2, _⟩ := hS 3 _ 0 hz hq hkk
  have h1' : ((runLoop 2 exUnpack.simulateInit).part 0).hist = s :: h0 := h1
  rw [hh] at h1'
  have hs0 : h0 = [1, 3] := by cases h1'; rfl
  subst hs0
  have hno : ∀ d, (topo (runLoop 2 exUnpack.simulateInit)).kind d ≠ .goutput := by
    intro d
    have hall : ∀ e ∈ (runLoop 2 exUnpack.simulateInit).devs, e.kind ≠ .goutput := by decide
    show ((runLoop 2 exUnpack.simulateInit).dev d).kind ≠ .goutput
    by_cases hd : d < (runLoop 2 exUnpack.simulateInit).devs.length
    · apply hall
      unfold World.dev
      rw [List.getD_eq_getElem?_getD, List.getElem?_eq_getElem hd]
      exact List.getElem_mem hd
    · rw [dev_of_ge _ d (Nat.le_of_not_lt hd)]; decide
  have := walk_stack_len hno h2
  have hs' : skOf (runLoop 2 exUnpack.simulateInit) 0 = [] := hs
  rw [hs'] at this
  have hc : (([1, 3] : List Nat).filter
      (fun d => (topo (runLoop 2 exUnpack.simulateInit)).kind d == .gpath)).length = 1 := by decide
  rw [hc] at this
  cases this

/-! ### "every gate in the history accepts the part NOW" is false for parts inside batches

A decision gate evaluates its predicate on what it is handed — for a batch: on the batch (value =
sum of the values of its parts).  The gate signs the histories of the parts in the batch as well, so
a part can have a gate in its history that would not accept the part on its own.  (What is true, for
every hand-over: `give_history_exact` — every gate of the chain accepted what was handed over, at
the hand-over.) -/

/-- A source of batches of two parts of value 3 (0), a gate that accepts value ≥ 5 (1), a handler (2),
a sink (3). -/
def exGateBatch : World :=
  { env := { terminated := false },
    devs := [{ kind := .source, aid := 1, down := [1], maxParts := some 1, cycle := 1, genBatch := 2,
               genValue := 3 },
             { kind := .gate, aid := 2, up := [0], down := [2], pred := .valueGe 5 },
             { kind := .handler, aid := 3, up := [1], down := [3], cycle := 3 },
             { kind := .sink, aid := 4, up := [2] }],
    assets := [.dev 0, .dev 1, .dev 2, .dev 3] }

theorem gate_kid_false :
    C02.Fresh exGateBatch ∧ Static exGateBatch ∧
      Holds (runLoop 2 exGateBatch.simulateInit) 2 2 ∧
      ((runLoop 2 exGateBatch.simulateInit).part 2).kids = some [0, 1] ∧
      ((runLoop 2 exGateBatch.simulateInit).part 0).hist = [0, 1, 2] ∧
      ((runLoop 2 exGateBatch.simulateInit).dev 1).kind = .gate ∧
      (runLoop 2 exGateBatch.simulateInit).gatePred ((runLoop 2 exGateBatch.simulateInit).dev 1).pred 2 = true ∧
      (runLoop 2 exGateBatch.simulateInit).gatePred ((runLoop 2 exGateBatch.simulateInit).dev 1).pred 0 = false :=
  ⟨⟨rfl, rfl, rfl, rfl, by decide⟩,
   static_of_wired (by intro l hl; cases hl) (by decide) ⟨rfl, rfl⟩,
   by decide, by decide, by decide, by decide, by decide, by decide⟩

/-! ### non-vacuity -/

/-- A line with a decision gate (1, accepts quality ≥ 1) in front of two parallel handlers (2, 3):
source 0 (three parts) → gate 1 → handlers 2 | 3 → sink 4; handler 2 has a receive callback (it sets
the cycle time: no change of value or quality), and there is a script (never run). -/
def exGate : World :=
  { env := { terminated := false },
    devs := [{ kind := .source, aid := 1, down := [1], maxParts := some 3, cycle := 1 },
             { kind := .gate, aid := 2, up := [0], down := [2, 3], pred := .qualityGe 1 },
             { kind := .handler, aid := 3, up := [1], down := [4], cycle := 3,
               recvCbs := [{ setCycle := some 3 }] },
             { kind := .handler, aid := 4, up := [1], down := [4], cycle := 3 },
             { kind := .sink, aid := 5, up := [2, 3] }],
    scripts := [[.block 3 true, .adjust 0 1]],
    assets := [.dev 0, .dev 1, .dev 2, .dev 3, .dev 4] }

/-- A shared group 0 (input 4, handler 5, output 6) used by two lines through the group paths 1
(source 0 → … → sink 7) and 3 (source 2 → … → sink 8). -/
def exGrp : World :=
  { env := { terminated := false },
    devs := [{ kind := .source, aid := 1, down := [1], maxParts := some 2, cycle := 1 },
             { kind := .gpath, aid := 2, up := [0], down := [7], group := 0 },
             { kind := .source, aid := 3, down := [3], maxParts := some 2, cycle := 1 },
             { kind := .gpath, aid := 4, up := [2], down := [8], group := 0 },
             { kind := .ginput, aid := 5, down := [5], group := 0 },
             { kind := .handler, aid := 6, up := [4], down := [6], cycle := 2 },
             { kind := .goutput, aid := 7, up := [5], group := 0 },
             { kind := .sink, aid := 8, up := [1], collect := true },
             { kind := .sink, aid := 9, up := [3], collect := true }],
    groups := [{ paths := [1, 3], input := 4, output := 6 }],
    assets := [.dev 0, .dev 1, .dev 2, .dev 3, .dev 4, .dev 5, .dev 6, .dev 7, .dev 8] }

-- the hypotheses of `route_reachable` are satisfiable: fresh, statically well-formed, no batcher
theorem fresh_exGate : C02.Fresh exGate := ⟨rfl, rfl, rfl, rfl, by decide⟩
theorem static_exGate : Static exGate := by
  refine static_of_wired ?_ (by decide) ⟨rfl, rfl⟩
  intro l hl op hop
  have hl' : l = [.block 3 true, .adjust 0 1] := by simpa [exGate] using hl
  subst hl'
  rcases List.mem_cons.1 hop with rfl | hop
  · trivial
  · have : op = .adjust 0 1 := by simpa using hop
    subst this; trivial
theorem noBatcher_exGate : NoBatcher exGate := by
  intro x
  by_cases hx : x < exGate.devs.length
  · have hall : ∀ e ∈ exGate.devs, e.kind ≠ .batcher := by decide
    apply hall
    unfold World.dev
    rw [List.getD_eq_getElem?_getD, List.getElem?_eq_getElem hx]
    exact List.getElem_mem hx
  · rw [dev_of_ge _ x (Nat.le_of_not_lt hx)]; decide

theorem fresh_exGrp : C02.Fresh exGrp := ⟨rfl, rfl, rfl, rfl, by decide⟩
theorem static_exGrp : Static exGrp :=
  static_of_wired (by intro l hl; cases hl) (by decide) ⟨rfl, rfl⟩
theorem noBatcher_exGrp : NoBatcher exGrp := by
  intro x
  by_cases hx : x < exGrp.devs.length
  · have hall : ∀ e ∈ exGrp.devs, e.kind ≠ .batcher := by decide
    apply hall
    unfold World.dev
    rw [List.getD_eq_getElem?_getD, List.getElem?_eq_getElem hx]
    exact List.getElem_mem hx
  · rw [dev_of_ge _ x (Nat.le_of_not_lt hx)]; decide

-- … and the conclusions are about something: after 9 events both handlers of the gate line hold a
-- part whose history is source, gate, handler; part 0 has been delivered through handler 2
example : Holds (runLoop 9 exGate.simulateInit) 2 2 ∧ Holds (runLoop 9 exGate.simulateInit) 3 1 ∧
    ((runLoop 9 exGate.simulateInit).part 2).hist = [0, 1, 2] ∧
    ((runLoop 9 exGate.simulateInit).part 1).hist = [0, 1, 3] ∧
    ((runLoop 9 exGate.simulateInit).part 0).hist = [0, 1, 2, 4] := by decide

-- the invariant there, from the closed-world theorem
example : Route (runLoop 9 exGate.simulateInit) ∧ Stacks (runLoop 9 exGate.simulateInit) ∧
    Gates (runLoop 9 exGate.simulateInit) := by
  have h := route_reachable 9 exGate fresh_exGate static_exGate
  exact ⟨h.2.2.2.1, h.2.2.2.2.1 noBatcher_exGate, h.2.2.2.2.2 noBatcher_exGate (by decide)⟩

-- the gate (device 1, quality ≥ 1) is in the history of part 2 and accepts it
example : 1 ∈ ((runLoop 9 exGate.simulateInit).part 2).hist ∧
    ((runLoop 9 exGate.simulateInit).dev 1).kind = .gate ∧
    (runLoop 9 exGate.simulateInit).gatePred ((runLoop 9 exGate.simulateInit).dev 1).pred 2 = true := by
  decide

-- the chain the gate line writes: gate 1, then handler 2 (`GChain`, `Edge`)
example : GChain (topo exGate) 1 [] [1, 2] [] :=
  GChain.gate 1 [] 2 [2] [] rfl (by decide) (GChain.slot 2 [] rfl)
example : Edge (topo exGate) 0 1 ∧ Edge (topo exGate) 1 3 ∧ Edge (topo exGate) 3 4 :=
  ⟨Or.inl ⟨1, by decide, Thru.self 1 (Or.inr (Or.inl rfl))⟩,
   Or.inl ⟨3, by decide, Thru.self 3 (Or.inl rfl)⟩,
   Or.inl ⟨4, by decide, Thru.self 4 (Or.inl rfl)⟩⟩

-- the shared group: after 3 events part 0 is inside the group (held by handler 5), entered through
-- path 1: history source, path, handler; path 1 on the stack
example : Holds (runLoop 3 exGrp.simulateInit) 5 0 ∧
    ((runLoop 3 exGrp.simulateInit).part 0).hist = [0, 1, 5] ∧
    ((runLoop 3 exGrp.simulateInit).part 0).stack = [1] := by decide

-- … and after 8 events it has left through the same path (sink 7 is downstream of path 1, sink 8 of
-- path 3) with the empty stack; the group output did not sign the history
example : ((runLoop 8 exGrp.simulateInit).part 0).hist = [0, 1, 5, 7] ∧
    ((runLoop 8 exGrp.simulateInit).part 0).stack = [] ∧
    ((runLoop 8 exGrp.simulateInit).dev 7).collected = [0] := by decide

-- the chains of the group: in through path 1 (push), out through the group output (pop 1, then
-- the downstream list of path 1)
example : GChain (topo exGrp) 1 [] [1, 5] [1] :=
  GChain.gpath 1 [] [5] [1] rfl (GChain.ginput 4 [1] 5 [5] [1] rfl (by decide) (GChain.slot 5 [1] rfl))
example : GChain (topo exGrp) 6 ([] ++ [1]) [7] [] :=
  GChain.goutput 6 [] 1 7 [7] [] rfl (by decide) (GChain.slot 7 [] rfl)
example : Walk (topo exGrp) 0 [] [1, 5, 7] [] := by
  have h1 : Walk (topo exGrp) 0 [] ([] ++ [1, 5]) [1] :=
    Walk.snoc [] [] 1 [1, 5] [1] Walk.nil (by decide)
      (GChain.gpath 1 [] [5] [1] rfl (GChain.ginput 4 [1] 5 [5] [1] rfl (by decide) (GChain.slot 5 [1] rfl)))
  exact Walk.snoc [1, 5] [1] 6 [7] [] h1 (by decide)
    (GChain.goutput 6 [] 1 7 [7] [] rfl (by decide) (GChain.slot 7 [] rfl))

example : Route (runLoop 3 exGrp.simulateInit) ∧ Stacks (runLoop 3 exGrp.simulateInit) := by
  have h := route_reachable 3 exGrp fresh_exGrp static_exGrp
  exact ⟨h.2.2.2.1, h.2.2.2.2.1 noBatcher_exGrp⟩

-- hypotheses of `give_history_exact` (a hand-over into the group) and its conclusion, computed
example : (0 :: (((runLoop 2 exGrp.simulateInit).part 0).kids.getD [])).Nodup ∧
    (∀ k ∈ ((runLoop 2 exGrp.simulateInit).part 0).kids.getD [], k < (runLoop 2 exGrp.simulateInit).parts.length) := by
  decide
example : 0 < (runLoop 2 exGrp.simulateInit).parts.length ∧
    (givePart (runLoop 2 exGrp.simulateInit) 1 0).2 = true ∧
    (((givePart (runLoop 2 exGrp.simulateInit) 1 0).1).part 0).hist = [0] ++ ([1] ++ [5]) ∧
    (((givePart (runLoop 2 exGrp.simulateInit) 1 0).1).part 0).stack = [1] := by decide

-- the batch world: `Route` holds there, too (only `Stacks` fails)
example : Route (runLoop 2 exUnpack.simulateInit) :=
  (route_reachable 2 exUnpack fresh_exUnpack static_exUnpack).2.2.2.1

end C08W
end SimProc
