/-
C05W — the buffer contract in the closed world.

`Props/C05.lean` proves the contract of a buffer for ONE call of `give_part` / `_pass_part_downstream`
(and, for the release loop, only under a frame hypothesis on the downstream topology).  This file
proves it for EVERY state reachable by the event loop, for EVERY buffer, in EVERY topology (the
downstream of a buffer may contain gates, groups, batchers, other buffers; a buffer may even reach
itself through pass-through controllers — its content is rotated then, see `C05W.bufOK_rotate`):

* `bufOK_reachable`: `C05.BufOK` (level = number of leaf parts stored, level ≤ capacity, arrival
  times non-decreasing and not in the future) for every buffer of every reachable state;
* `queue_step` / `fifo_reachable` / `min_delay_reachable`: during one event, entries leave a buffer
  only from the front and only after their minimum delay, new entries are appended at the end with
  the current time.  These need no invariant at all (only static scripts).

`bufOK_exec` extends `bufOK_reachable` to every state of every closed-world execution (`C05W.Exec`:
initialise once, then any interleaving of `run(d)` calls and static scripted operations from outside).

Closed-world hypotheses (`Init`): the world is fresh (`C02.Fresh`), statically well-formed
(`C02V.Static`), its event queue satisfies the queue invariant `C01.Inv` (e.g. it is empty), and the
reported level of every buffer is 0 (`LevelZero`; the `Dev` default).  The last two are needed:
`bufOK_reachable_false_level`, `bufOK_reachable_false_env`.

The crux — the leaf counts of STORED parts never change — is conservation (`C02.ConsS`, carried
along): only a batcher changes `kids`, and only of the part in its input slot and of its shell under
construction (`C05W.kox_acceptPart`), which no buffer holds (`ConsV.topNodup`).
Machinery: `SimProc/Proofs/C05W*.lean`.
-/
import SimProc.Proofs.C05WExec
import SimProc.Props.C02

namespace SimProc
namespace C05W
open World C02V

/-! ### hypotheses on the initial world -/

/-- The reported level of every buffer is 0 (as the constructor sets it). -/
def LevelZero (w : World) : Prop := ∀ d ∈ w.devs, d.kind = .buffer → d.level = 0

instance (w : World) : Decidable (LevelZero w) := by unfold LevelZero; infer_instance

/-- The closed-world hypotheses. -/
structure Init (w : World) : Prop where
  fresh : C02.Fresh w
  static : Static w
  env : C01.Inv w.env
  level : LevelZero w

/-- The invariant of C05W holds after initialisation. -/
theorem bi_init (w : World) (h : Init w) : BI w.simulateInit := by
  refine ⟨(C02.consS_iff _).1 (C02.consS_simulateInit w (C02.consS_fresh w h.fresh)),
    static_simulateInit w h.static, ei_simulateInit w h.env, ?_⟩
  intro x hx
  have hk : (w.dev x).kind = .buffer := by
    rw [← kind_of_tv (sr_simulateInit (fun _ => True) w).1 x]; exact hx
  have hlt : x < w.devs.length := lt_of_kind_buffer hk
  have hmem : w.dev x ∈ w.devs := by
    simp only [World.dev, List.getD_eq_getElem?_getD, List.getElem?_eq_getElem hlt, Option.getD_some]
    exact List.getElem_mem hlt
  obtain ⟨f1, f2, _, _, _, _⟩ := bdev_fields (bdev_of_bv (bv_simulateInit w) x)
  have hl : (w.simulateInit.dev x).level = 0 := f1.trans (h.level _ hmem hk)
  have hb : (w.simulateInit.dev x).buf = [] := by
    rw [f2]
    have := h.fresh.2.2.2.2 _ hmem
    simp only [C02.held, List.append_eq_nil_iff, List.map_eq_nil_iff] at this
    exact this.1.2
  exact ⟨by rw [hl, hb]; rfl, fun c _ => by rw [hb]; exact Nat.zero_le _, by rw [hb]; exact List.Pairwise.nil,
    fun e he => by rw [hb] at he; cases he⟩

/-! ### 1. the contract in every reachable state -/

/-- The invariant (conservation, static well-formedness, queue invariant of the environment, contract
of every buffer) is preserved by every step of the event loop. -/
theorem bufOK_step (w w' : World) (e : Event) (h : BI w) (hst : w.step = some (e, w')) : BI w' :=
  bi_step w w' e h hst

/-- **The buffer contract holds for every buffer of every reachable state**: the reported level is
the number of leaf parts stored (batches count their parts), it does not exceed the capacity, the
arrival times are non-decreasing and not in the future.  Any topology, any scripts without
`rewire`/`create`, any fuel. -/
theorem bufOK_reachable (n : Nat) (w : World) (h : Init w) (x : Nat)
    (hx : ((runLoop n w.simulateInit).dev x).kind = .buffer) :
    C05.BufOK (runLoop n w.simulateInit) x :=
  (bi_runLoop n _ (bi_init w h)).buf x hx

/-- The same for every state of every closed-world execution `C05W.Exec`: initialisation, then any
interleaving of `run(d)` calls (`runBegin`, steps) and static scripted operations from outside. -/
theorem bufOK_exec (w0 w : World) (h : Init w0) (he : Exec w0 w) (x : Nat)
    (hx : (w.dev x).kind = .buffer) : C05.BufOK w x :=
  (bi_exec (bi_init w0 h) he).buf x hx

/-- Conservation holds along (this is what the proof of `bufOK_reachable` rests on). -/
theorem consS_reachable (n : Nat) (w : World) (h : Init w) : C02.ConsS (runLoop n w.simulateInit) :=
  (C02.consS_iff _).2 (bi_runLoop n _ (bi_init w h)).inv

/-- The clock never goes backwards along a closed-world run. -/
theorem clock_mono_step (w w' : World) (e : Event) (h : C01.Inv w.env) (hs : ScriptsStatic w)
    (hst : w.step = some (e, w')) : w.now ≤ w'.now := by
  unfold World.step at hst
  split at hst
  · cases hst
  · rename_i e' env' henv
    simp only [Option.some.injEq, Prod.mk.injEq] at hst
    obtain ⟨rfl, rfl⟩ := hst
    have h1 : w.now ≤ env'.now := (C01.step_clock h henv).2
    split
    · have hn := now_exec ({ w with env := env' } : World) (Action.ofNat e'.act) (scriptsNoRC_of_static hs)
      exact Int.le_trans h1 (Int.le_of_eq hn.symm)
    · exact h1

/-! ### 2. FIFO and minimum delay, as properties of one step of the event loop -/

/-- **What one event does to the queue of a buffer.**  If `w.step = some (e, w')` then for every
buffer `x`: the new queue is the old queue without its first `k` entries, followed by new entries;
every new entry is stamped with the (new) current time; every entry that left had waited at least
the minimum delay; the minimum delay itself is unchanged.  (In the self-loop case — the buffer
reaches itself through pass-through controllers — a released entry re-enters at the end with the
current time; the statement covers this.)  No reachability hypothesis is needed, only static
scripts. -/
theorem queue_step (w w' : World) (e : Event) (hs : ScriptsStatic w) (hst : w.step = some (e, w'))
    (x : Nat) (hx : (w.dev x).kind = .buffer) :
    (w'.dev x).delay = (w.dev x).delay ∧
    ∃ k new, (w'.dev x).buf = (w.dev x).buf.drop k ++ new ∧ (∀ en ∈ new, en.1 = w'.now) ∧
      ∀ en ∈ (w.dev x).buf.take k, en.1 + (w.dev x).delay ≤ w'.now := by
  unfold World.step at hst
  split at hst
  · cases hst
  · rename_i e' env' henv
    simp only [Option.some.injEq, Prod.mk.injEq] at hst
    obtain ⟨rfl, rfl⟩ := hst
    split
    · obtain ⟨⟨hd, k, new, h1, h2, h3⟩, hn⟩ :=
        qev_exec ({ w with env := env' } : World) (Action.ofNat e'.act) (scriptsNoRC_of_static hs) x hx
      refine ⟨hd, k, new, h1, ?_, ?_⟩
      · intro en hen; rw [hn]; exact h2 en hen
      · intro en hen; rw [hn]; exact h3 en hen
    · exact ⟨rfl, 0, [], by rw [List.drop_zero, List.append_nil]; rfl, by simp, by simp⟩

/-- **FIFO**: parts leave a buffer from the front, in arrival order, and new parts are appended at
the end (with the current time as arrival time). -/
theorem fifo_reachable (w w' : World) (e : Event) (hw : Static w) (hst : w.step = some (e, w'))
    (x : Nat) (hx : (w.dev x).kind = .buffer) :
    ∃ k new, (w'.dev x).buf = (w.dev x).buf.drop k ++ new ∧ ∀ en ∈ new, en.1 = w'.now := by
  obtain ⟨_, k, new, h1, h2, _⟩ := queue_step w w' e hw.1 hst x hx
  exact ⟨k, new, h1, h2⟩

/-- **Minimum delay**: no part leaves a buffer before its arrival time plus the minimum delay: the
entries dropped from the front in this step (the `k` of `fifo_reachable`; any `k` that fits) all
satisfy `arrival + delay ≤ now`. -/
theorem min_delay_reachable (w w' : World) (e : Event) (hw : Static w) (hst : w.step = some (e, w'))
    (x : Nat) (hx : (w.dev x).kind = .buffer) :
    ∃ k new, (w'.dev x).buf = (w.dev x).buf.drop k ++ new ∧ (∀ en ∈ new, en.1 = w'.now) ∧
      ∀ en ∈ (w.dev x).buf.take k, en.1 + (w.dev x).delay ≤ w'.now :=
  (queue_step w w' e hw.1 hst x hx).2

/-- The step properties apply to every reachable state (they are static well-formed). -/
theorem static_reachable (n : Nat) (w : World) (h : Init w) : Static (runLoop n w.simulateInit) :=
  (bi_runLoop n _ (bi_init w h)).stat

/-- In a reachable state the entries that stay in the queue also keep their leaf counts, so the
level drops exactly by the number of leaf parts released and rises by the number accepted: this is
`bufOK_reachable` before and after the step (`level = leafSum buf` in both states). -/
theorem level_step (w w' : World) (e : Event) (h : BI w) (hst : w.step = some (e, w')) (x : Nat)
    (hx : (w.dev x).kind = .buffer) :
    (w.dev x).level = C05.leafSum w (w.dev x).buf ∧ (w'.dev x).level = C05.leafSum w' (w'.dev x).buf := by
  have h' := bi_step w w' e h hst
  have hk : (w'.dev x).kind = .buffer := by
    unfold World.step at hst
    split at hst
    · cases hst
    · rename_i e' env' henv
      simp only [Option.some.injEq, Prod.mk.injEq] at hst
      obtain ⟨rfl, rfl⟩ := hst
      split
      · rw [kind_exec _ _ (static_pop w e' env' h.stat henv)]; exact hx
      · exact hx
  exact ⟨(h.buf x hx).levelEq, (h'.buf x hk).levelEq⟩

/-! ### the hypotheses `LevelZero` and `C01.Inv` are needed -/

/-- A fresh buffer that reports level 5. -/
def cexLevel : World := { devs := [{ kind := .buffer, level := 5 }] }

theorem static_of_nodown (w : World) (hs : w.scripts = []) (hd : ∀ x, (w.dev x).down = [])
    (he : w.env.events = [] ∧ w.env.paused = []) : Static w := by
  refine ⟨(by intro l hl; rw [hs] at hl; cases hl), ?_, ?_⟩
  · intro x y hy; rw [hd x] at hy; cases hy
  · rintro ⟨n, hn, _⟩
    simp [acts, he.1, he.2] at hn

/-- Without `LevelZero` the contract fails at once. -/
theorem bufOK_reachable_false_level :
    C02.Fresh cexLevel ∧ Static cexLevel ∧ C01.Inv cexLevel.env ∧
      ¬ C05.BufOK (runLoop 1 cexLevel.simulateInit) 0 := by
  refine ⟨⟨rfl, rfl, rfl, rfl, by decide⟩, ?_, C01.inv_init, fun h => absurd h.levelEq (by decide)⟩
  refine static_of_nodown _ rfl ?_ ⟨rfl, rfl⟩
  intro x
  have hx : x = 0 ∨ 1 ≤ x := by omega
  rcases hx with rfl | hx
  · rfl
  · rw [dev_of_ge cexLevel x (by simpa [cexLevel] using hx)]; rfl

/-! ### helpers for concrete worlds -/

/-- The action is not the failure of a sink. -/
def FailOK (w : World) : Action → Prop
  | .fail d => (w.dev d).kind ≠ .sink
  | _ => True

instance (w : World) (a : Action) : Decidable (FailOK w a) := by
  cases a <;> (unfold FailOK; infer_instance)

/-- No failure of a sink among the given events (decidable form). -/
def NoSinkFail (w : World) (l : List Event) : Prop := ∀ e ∈ l, FailOK w (Action.ofNat e.act)

instance (w : World) (l : List Event) : Decidable (NoSinkFail w l) := by
  unfold NoSinkFail; infer_instance

/-- A world without scripts in which every device is a `PartHandler` (source, machine, buffer,
batcher, sink) wired to existing devices is statically well-formed. -/
theorem static_of_line (w : World) (hs : w.scripts = [])
    (hk : ∀ d ∈ w.devs, isHandlerLike d.kind = true ∧ ∀ y ∈ d.down, y < w.devs.length)
    (hb : NoSinkFail w (w.env.events ++ w.env.paused)) : Static w := by
  have hmem : ∀ x, x < w.devs.length → w.dev x ∈ w.devs := by
    intro x hx
    simp only [World.dev, List.getD_eq_getElem?_getD, List.getElem?_eq_getElem hx, Option.getD_some]
    exact List.getElem_mem hx
  refine ⟨(by intro l hl; rw [hs] at hl; cases hl), ?_, ?_⟩
  · intro x y hy z hr
    by_cases hx : x < w.devs.length
    · have hylt := (hk _ (hmem x hx)).2 y hy
      have := C02.reach_handlerLike (t := st w) (y := y)
        (by rw [st_kind]; exact (hk _ (hmem y hylt)).1) hr
      rw [this]; exact hylt
    · rw [dev_of_ge w x (Nat.le_of_not_lt hx)] at hy; cases hy
  · rintro ⟨n, hn, d, hd, hsink⟩
    rw [mem_acts] at hn
    obtain ⟨e, he, rfl⟩ := hn
    have := hb e (by simpa using he)
    rw [hd] at this
    exact this hsink

/-- The same with decision gates among the devices (no groups). -/
theorem static_of_gates (w : World) (hs : w.scripts = [])
    (hk : ∀ d ∈ w.devs, (isHandlerLike d.kind = true ∨ d.kind = .gate) ∧ ∀ y ∈ d.down, y < w.devs.length)
    (hb : NoSinkFail w (w.env.events ++ w.env.paused)) : Static w := by
  have hmem : ∀ x, x < w.devs.length → w.dev x ∈ w.devs := by
    intro x hx
    simp only [World.dev, List.getD_eq_getElem?_getD, List.getElem?_eq_getElem hx, Option.getD_some]
    exact List.getElem_mem hx
  have hreach : ∀ y z, Reach (st w) y z → y < w.devs.length → z < w.devs.length := by
    intro y z hr
    induction hr with
    | self y _ => exact id
    | gate y z u _ hz _ ih =>
      intro hy
      rw [st_down] at hz
      exact ih ((hk _ (hmem y hy)).2 z hz)
    | gpath y u hkind _ _ =>
      intro hy
      rw [st_kind] at hkind
      rcases (hk _ (hmem y hy)).1 with h | h <;> rw [hkind] at h <;> cases h
    | goutput y g z u hkind _ _ _ =>
      intro hy
      rw [st_kind] at hkind
      rcases (hk _ (hmem y hy)).1 with h | h <;> rw [hkind] at h <;> cases h
  refine ⟨(by intro l hl; rw [hs] at hl; cases hl), ?_, ?_⟩
  · intro x y hy z hr
    by_cases hx : x < w.devs.length
    · exact hreach y z hr ((hk _ (hmem x hx)).2 y hy)
    · rw [dev_of_ge w x (Nat.le_of_not_lt hx)] at hy; cases hy
  · rintro ⟨n, hn, d, hd, hsink⟩
    rw [mem_acts] at hn
    obtain ⟨e, he, rfl⟩ := hn
    have := hb e (by simpa using he)
    rw [hd] at this
    exact this hsink

theorem inv_of_empty (s : Env) (h1 : s.events = []) (h2 : s.paused = []) : C01.Inv s := by
  constructor <;> simp [h1, h2, SortedEv]

/-- The clock went backwards: a queue that violates `C01.Inv` (an event in the past behind an
event in the future). -/
def cexEnv : World :=
  { env := { terminated := false, now := 10, nextUid := 102
             events := [{ uid := 100, time := 20, prio := 0, weight := 0, asset := 99, act := (Action.unknown 77).toNat },
                        { uid := 101, time := 0, prio := 0, weight := 0, asset := 99, act := (Action.unknown 77).toNat }] }
    devs := [{ kind := .source, aid := 1, down := [1], maxParts := some 1, cycle := 0 },
             { kind := .buffer, aid := 2, up := [0], down := [2], delay := 100 },
             { kind := .sink, aid := 3, up := [1] }]
    assets := [.dev 0, .dev 1, .dev 2] }

/-- Without the queue invariant of the initial environment the contract fails: the buffer accepts a
part at time 10, then the stale event sets the clock back to 0. -/
theorem bufOK_reachable_false_env :
    C02.Fresh cexEnv ∧ Static cexEnv ∧ LevelZero cexEnv ∧ ¬ C01.Inv cexEnv.env ∧
      ((runLoop 4 cexEnv.simulateInit).dev 1).kind = .buffer ∧
      ¬ C05.BufOK (runLoop 4 cexEnv.simulateInit) 1 := by
  refine ⟨⟨rfl, rfl, rfl, rfl, by decide⟩, static_of_line _ rfl (by decide) (by decide), by decide,
    fun h => absurd (h.future _ (List.mem_cons_of_mem _ (List.mem_cons_self ..))) (by decide), by decide,
    fun h => absurd (h.arrived (10, 0) (by decide)) (by decide)⟩

/-! ### non-vacuity -/

/-- source (6 parts, cycle time 1) → batcher (size 2) → buffer (capacity 3, delay 4) → sink. -/
def exW : World :=
  { env := { terminated := false }
    devs := [{ kind := .source, aid := 1, down := [1], maxParts := some 6, cycle := 1 },
             { kind := .batcher, aid := 2, up := [0], down := [2], bsize := some 2 },
             { kind := .buffer, aid := 3, up := [1], down := [3], cap := some 3, delay := 4 },
             { kind := .sink, aid := 4, up := [2] }]
    assets := [.dev 0, .dev 1, .dev 2, .dev 3] }

theorem static_exW : Static exW := static_of_line _ rfl (by decide) (by decide)

/-- The hypotheses are satisfiable. -/
theorem init_exW : Init exW :=
  ⟨⟨rfl, rfl, rfl, rfl, by decide⟩, static_exW, inv_of_empty _ rfl rfl, by decide⟩

-- after 9 events the buffer stores the batch 1 = [0, 2] that arrived at time 2; the level counts its parts
example : ((runLoop 9 exW.simulateInit).dev 2).buf = [(2, 1)] ∧ ((runLoop 9 exW.simulateInit).dev 2).level = 2 ∧
    ((runLoop 9 exW.simulateInit).part 1).kids = some [0, 2] ∧ (runLoop 9 exW.simulateInit).now = 4 := by decide

-- the theorem applies to this state, and its conclusion is the non-trivial `2 = 2`, `2 ≤ 3`, `2 ≤ 4`
example : C05.BufOK (runLoop 9 exW.simulateInit) 2 := bufOK_reachable 9 exW init_exW 2 (by decide)
example : C05.leafSum (runLoop 9 exW.simulateInit) ((runLoop 9 exW.simulateInit).dev 2).buf = 2 := by decide

-- the run goes on: all 6 parts reach the sink, the buffer is empty again
example : ((runLoop 30 exW.simulateInit).dev 3).recvCount = 6 ∧ ((runLoop 30 exW.simulateInit).dev 2).buf = [] ∧
    ((runLoop 30 exW.simulateInit).dev 2).level = 0 ∧ (runLoop 30 exW.simulateInit).error = none := by decide

-- one step: at time 6 = 2 + 4 the batch leaves (k = 1: the minimum delay has just expired) …
example : ((runLoop 12 exW.simulateInit).dev 2).buf = [(2, 1)] ∧
    (runLoop 12 exW.simulateInit).step.map (fun r => ((r.2.dev 2).buf, r.2.now)) = some ([], 6) := by decide
-- … and in the next step the next batch is appended with the current time (k = 0, one new entry)
example : (runLoop 13 exW.simulateInit).step.map (fun r => ((r.2.dev 2).buf, r.2.now)) = some ([(6, 4)], 6) := by
  decide

-- the step theorems apply to these steps
example (e : Event) (w' : World) (hst : (runLoop 12 exW.simulateInit).step = some (e, w')) :
    ∃ k new, (w'.dev 2).buf = ((runLoop 12 exW.simulateInit).dev 2).buf.drop k ++ new ∧
      (∀ en ∈ new, en.1 = w'.now) ∧
      ∀ en ∈ ((runLoop 12 exW.simulateInit).dev 2).buf.take k,
        en.1 + ((runLoop 12 exW.simulateInit).dev 2).delay ≤ w'.now :=
  min_delay_reachable _ w' e (static_reachable 12 exW init_exW) hst 2 (by decide)

/-! ### non-vacuity: a buffer that reaches itself through a decision gate -/

/-- source → buffer (1) → gate (2) → [sink (3, blocked), buffer (1)]: the gate hands every released
part back to the buffer. -/
def exLoop : World :=
  { env := { terminated := false }
    devs := [{ kind := .source, aid := 1, down := [1], maxParts := some 2, cycle := 1 },
             { kind := .buffer, aid := 2, up := [0, 2], down := [2], cap := some 3, delay := 2 },
             { kind := .gate, aid := 3, up := [1], down := [3, 1] },
             { kind := .sink, aid := 4, up := [2], blockInput := true }]
    assets := [.dev 0, .dev 1, .dev 2, .dev 3] }

theorem init_exLoop : Init exLoop :=
  ⟨⟨rfl, rfl, rfl, rfl, by decide⟩, static_of_gates _ rfl (by decide) (by decide), inv_of_empty _ rfl rfl,
    by decide⟩

-- the content is rotated: the head (arrived at 1) leaves at time 3 = 1 + 2 and re-enters at the end
example : ((runLoop 6 exLoop.simulateInit).dev 1).buf = [(1, 0), (2, 1)] ∧
    (runLoop 6 exLoop.simulateInit).step.map (fun r => ((r.2.dev 1).buf, (r.2.dev 1).level, r.2.now)) =
      some ([(2, 1), (3, 0)], 2, 3) := by decide

-- the contract holds all along (here after 12 events)
example : C05.BufOK (runLoop 12 exLoop.simulateInit) 1 := bufOK_reachable 12 exLoop init_exLoop 1 (by decide)
example : ((runLoop 12 exLoop.simulateInit).dev 1).buf = [(7, 0), (8, 1)] ∧
    ((runLoop 12 exLoop.simulateInit).dev 1).level = 2 := by decide

end C05W
end SimProc
