/-
C07 — pausing, resuming and cancelling events preserves remaining delays.

All theorems are about `SimProc/Model/Env.lean`.  Statements about *amounts* of time use
`Arith.exact`; the others hold for every arithmetic.
-/
import SimProc.Proofs.EnvLemmas
import SimProc.Proofs.C07Lemmas
import SimProc.Props.C01

namespace SimProc
namespace C07

/-- Pause bookkeeping invariant: every paused event carries the time `p` at which it was paused,
`p` is not after its due time and not after the clock. -/
def PInv (s : Env) : Prop :=
  ∀ e ∈ s.paused, ∃ p, e.pausedAt = some p ∧ p ≤ e.time ∧ p ≤ s.now

/-! ### pause -/

/-- Pausing withholds exactly the asset's pending events … -/
theorem pause_withholds (s : Env) (a : Int) (e : Event) :
    e ∈ (s.pause a).events ↔ e ∈ s.events ∧ e.asset ≠ a := by
  simp [Env.pause, List.mem_filter]

/-- … leaves all others in the queue in their order … -/
theorem pause_keeps_order (s : Env) (a : Int) : (s.pause a).events.Sublist s.events := by
  exact List.filter_sublist

/-- … and moves the asset's events, stamped with the current time and otherwise unchanged, to the
end of the paused list (in queue order). -/
theorem pause_paused (s : Env) (a : Int) :
    (s.pause a).paused =
      s.paused ++ (s.events.filter (fun e => e.asset == a)).map
        (fun e => { e with pausedAt := some s.now }) := by
  rfl

/-- The clock, uid counter and termination flag are untouched by pause/unpause/cancel. -/
theorem pause_frame (s : Env) (a : Int) :
    (s.pause a).now = s.now ∧ (s.pause a).nextUid = s.nextUid ∧
    (s.pause a).terminated = s.terminated := by
  exact ⟨rfl, rfl, rfl⟩

/-- A redundant pause changes nothing. -/
theorem pause_idem (s : Env) (a : Int) : (s.pause a).pause a = s.pause a := by
  have h1 := filter_not_filter (fun e : Event => e.asset == a) s.events
  have h2 := filter_not_idem (fun e : Event => e.asset == a) s.events
  unfold Env.pause
  simp only [h1, h2, List.map_nil, List.append_nil]

theorem pause_noop (s : Env) (a : Int) (h : ∀ e ∈ s.events, e.asset ≠ a) : s.pause a = s := by
  have h1 : s.events.filter (fun e => e.asset == a) = [] :=
    filter_eq_nil_of_forall _ _ (fun e he => by simpa using h e he)
  have h2 : s.events.filter (fun e => !(e.asset == a)) = s.events :=
    filter_eq_self_of_forall _ _ (fun e he => by simpa using h e he)
  unfold Env.pause
  simp only [h1, h2, List.map_nil, List.append_nil]

/-! ### unpause -/

/-- The events resumed by `unpause a`: the asset's paused events, shifted. -/
def resumed (ar : Arith) (s : Env) (a : Int) : List Event :=
  (s.paused.filter (fun e => e.asset == a)).map
    (fun e => { e with time := shiftTime ar s.now e.time (e.pausedAt.getD s.now) })

/-- Resuming re-inserts exactly the asset's paused events (shifted), keeps every queued event, and
the queue stays sorted. -/
theorem unpause_perm (ar : Arith) (s : Env) (a : Int) :
    (s.unpause ar a).events.Perm (resumed ar s a ++ s.events) := by
  unfold Env.unpause resumed
  simp only [foldl_insort_map]
  exact insortAll_perm _ _

theorem unpause_sorted (ar : Arith) (s : Env) (a : Int) (h : C01.Inv s) :
    SortedEv (s.unpause ar a).events := by
  exact (C01.inv_unpause ar a h).sorted

/-- Queued events keep their relative order across an unpause. -/
theorem unpause_keeps_order (ar : Arith) (s : Env) (a : Int) :
    s.events.Sublist (s.unpause ar a).events := by
  unfold Env.unpause
  simp only [foldl_insort_map]
  exact sublist_insortAll _ _

/-- Paused events of other assets stay paused, in order; none of the asset's remain. -/
theorem unpause_paused (ar : Arith) (s : Env) (a : Int) :
    (s.unpause ar a).paused = s.paused.filter (fun e => !(e.asset == a)) := by
  rfl

/-- With exact arithmetic and the pause invariant the shift is exactly `+ (now − pausedAt)`
(the clamp of `shiftTime` is the identity) … -/
theorem unpause_shift_exact (now t p : Int) (h1 : p ≤ t) (h2 : p ≤ now) :
    shiftTime Arith.exact now t p = t + (now - p) := by
  have _ := h2  -- not needed: `p ≤ t` alone makes the clamp the identity
  unfold shiftTime Arith.exact
  simp only
  split <;> omega

/-- … so the remaining delay of every resumed event is preserved: its new due time minus the
clock equals its old due time minus the time it was paused at. -/
theorem remaining_delay_preserved (s : Env) (a : Int) (h : PInv s) :
    ∀ e ∈ s.paused, e.asset = a → ∃ p, e.pausedAt = some p ∧
      ∃ e' ∈ (s.unpause Arith.exact a).events,
        e'.uid = e.uid ∧ e'.act = e.act ∧ e'.asset = e.asset ∧ e'.prio = e.prio ∧
        e'.cancelled = e.cancelled ∧ e'.time - s.now = e.time - p := by
  intro e he ha
  obtain ⟨p, hp, hpt, hpn⟩ := h e he
  refine ⟨p, hp, ?_⟩
  refine ⟨{ e with time := shiftTime Arith.exact s.now e.time (e.pausedAt.getD s.now) }, ?_,
    rfl, rfl, rfl, rfl, rfl, ?_⟩
  · refine (unpause_perm Arith.exact s a).mem_iff.mpr ?_
    refine List.mem_append.mpr (Or.inl ?_)
    unfold resumed
    exact List.mem_map.mpr ⟨e, List.mem_filter.mpr ⟨he, by simpa using ha⟩, rfl⟩
  · simp only [hp, Option.getD_some]
    rw [unpause_shift_exact _ _ _ hpt hpn]
    omega

/-- A redundant resume changes nothing. -/
theorem unpause_idem (ar : Arith) (s : Env) (a : Int) :
    (s.unpause ar a).unpause ar a = s.unpause ar a := by
  have h1 := filter_not_filter (fun e : Event => e.asset == a) s.paused
  have h2 := filter_not_idem (fun e : Event => e.asset == a) s.paused
  unfold Env.unpause
  simp only [h1, h2, List.foldl_nil]

theorem unpause_noop (ar : Arith) (s : Env) (a : Int) (h : ∀ e ∈ s.paused, e.asset ≠ a) :
    s.unpause ar a = s := by
  have h1 : s.paused.filter (fun e => e.asset == a) = [] :=
    filter_eq_nil_of_forall _ _ (fun e he => by simpa using h e he)
  have h2 : s.paused.filter (fun e => !(e.asset == a)) = s.paused :=
    filter_eq_self_of_forall _ _ (fun e he => by simpa using h e he)
  unfold Env.unpause
  simp only [h1, h2, List.foldl_nil]

/-! ### cancel -/

/-- Cancelling flags exactly the asset's pending and paused events and changes nothing else. -/
theorem cancel_spec (s : Env) (a : Int) :
    (s.cancel a).events = s.events.map (Event.cancelIf a) ∧
    (s.cancel a).paused = s.paused.map (Event.cancelIf a) ∧
    (s.cancel a).now = s.now ∧ (s.cancel a).nextUid = s.nextUid := by
  exact ⟨rfl, rfl, rfl, rfl⟩

theorem cancelIf_spec (a : Int) (e : Event) :
    (e.asset = a → (Event.cancelIf a e).cancelled = true) ∧
    (e.asset ≠ a → Event.cancelIf a e = e) ∧
    (Event.cancelIf a e).uid = e.uid ∧ (Event.cancelIf a e).time = e.time ∧
    (Event.cancelIf a e).asset = e.asset ∧ (Event.cancelIf a e).act = e.act := by
  refine ⟨?_, ?_, by simp, by simp, by simp, by simp⟩
  · intro h; simp [Event.cancelIf_cancelled, h]
  · intro h; unfold Event.cancelIf; simp [h]

/-- Uids of cancelled events known to the environment. -/
def cancelledUids (s : Env) : List Nat :=
  ((s.events ++ s.paused).filter (·.cancelled)).map Event.uid

/-- Every event known after an operation is either freshly created or is an event known before
(same uid) whose `cancelled` flag has not been cleared. -/
private theorem track (ar : Arith) (s : Env) (op : EnvOp) :
    ∀ e' ∈ (s.apply ar op).1.events ++ (s.apply ar op).1.paused,
      e'.uid = s.nextUid ∨ ∃ e ∈ s.events ++ s.paused, e'.uid = e.uid ∧
        (e.cancelled = true → e'.cancelled = true) := by
  have keep : ∀ e' ∈ s.events ++ s.paused, e'.uid = s.nextUid ∨ ∃ e ∈ s.events ++ s.paused,
      e'.uid = e.uid ∧ (e.cancelled = true → e'.cancelled = true) :=
    fun e' he' => Or.inr ⟨e', he', rfl, id⟩
  have hsched : ∀ (s0 s' : Env) t a act p w, s0.events = s.events → s0.paused = s.paused →
      s0.nextUid = s.nextUid → s0.schedule t a act p w = some s' →
      ∀ e' ∈ s'.events ++ s'.paused, e'.uid = s.nextUid ∨ ∃ e ∈ s.events ++ s.paused,
        e'.uid = e.uid ∧ (e.cancelled = true → e'.cancelled = true) := by
    intro s0 s' t a act p w h1 h2 h3 hs e' he'
    obtain ⟨_, rfl⟩ := Env.schedule_some.mp hs
    simp only [List.mem_append] at he'
    rcases he' with he' | he'
    · rcases insort_mem.mp he' with rfl | he'
      · left; exact h3
      · exact keep e' (by rw [← h1]; simp [he'])
    · exact keep e' (by rw [← h2]; simp [he'])
  cases op with
  | sched t a act p w =>
    simp only [Env.apply]
    cases hs : s.schedule t a act p w with
    | none => exact keep
    | some s' => exact hsched s s' t a act p w rfl rfl rfl hs
  | runBegin d w =>
    simp only [Env.apply]
    cases hs : s.runBegin ar d w with
    | none => exact keep
    | some s' => exact hsched { s with terminated := false } s' _ _ _ _ _ rfl rfl rfl hs
  | pause a =>
    intro e' he'
    simp only [Env.apply, Env.pause, List.mem_append, List.mem_map, List.mem_filter] at he'
    rcases he' with ⟨he', _⟩ | he' | ⟨e0, ⟨he0, _⟩, rfl⟩
    · exact keep e' (by simp [he'])
    · exact keep e' (by simp [he'])
    · exact Or.inr ⟨e0, by simp [he0], rfl, id⟩
  | unpause a =>
    intro e' he'
    simp only [Env.apply, Env.unpause, foldl_insort_map, List.mem_append, List.mem_filter] at he'
    rcases he' with he' | ⟨he', _⟩
    · rcases insortAll_mem.mp he' with he' | he'
      · rcases List.mem_map.mp he' with ⟨e0, he0, rfl⟩
        exact Or.inr ⟨e0, by simp [(List.mem_filter.mp he0).1], rfl, id⟩
      · exact keep e' (by simp [he'])
    · exact keep e' (by simp [he'])
  | cancel a =>
    intro e' he'
    simp only [Env.apply, Env.cancel, ← List.map_append] at he'
    obtain ⟨e0, he0, rfl⟩ := List.mem_map.mp he'
    refine Or.inr ⟨e0, he0, by simp, ?_⟩
    intro hc; simp [Event.cancelIf_cancelled, hc]
  | step =>
    cases hs : s.step with
    | none => rw [apply_step_none ar hs]; exact keep
    | some q =>
      obtain ⟨e0, s'⟩ := q
      rw [apply_step_some ar hs]
      obtain ⟨es, heq, rfl⟩ := Env.step_some.mp hs
      intro e' he'
      simp only [List.mem_append] at he'
      rcases he' with he' | he'
      · exact keep e' (by rw [heq]; simp [he'])
      · exact keep e' (by simp [he'])

/-- Once cancelled, always cancelled: no operation clears the flag of an event that is still
pending or paused (uids identify events, by `C01.Inv`). -/
theorem cancelled_stays (ar : Arith) (s : Env) (op : EnvOp) (h : C01.Inv s) :
    ∀ e ∈ (s.apply ar op).1.events ++ (s.apply ar op).1.paused,
      e.uid ∈ cancelledUids s → e.cancelled = true := by
  intro e' he' hu
  unfold cancelledUids at hu
  obtain ⟨e0, he0, hue0⟩ := List.mem_map.mp hu
  obtain ⟨he0m, he0c⟩ := List.mem_filter.mp he0
  rcases track ar s op e' he' with hf | ⟨e, he, hue, hc⟩
  · have := h.fresh e0 he0m
    omega
  · have : e = e0 := eq_of_nodup_map Event.uid h.uids he he0m (by omega)
    subst this
    exact hc he0c

/-- The action of a cancelled event never runs: a step that pops it reports `skipped`. -/
theorem cancelled_never_runs (ar : Arith) (s : Env) (e : Event) (h : (s.apply ar .step).2 = .ran e) :
    e.cancelled = false := by
  exact C01.ran_live ar s e h

/-- Along any operation sequence, no uid that was cancelled (at the moment it was popped) is ever
reported as run. -/
theorem ran_not_cancelled (ar : Arith) (s : Env) (ops : List EnvOp) :
    ∀ e, EnvOut.ran e ∈ (s.applyAll ar ops).2 → e.cancelled = false := by
  induction ops generalizing s with
  | nil => intro e he; simp [Env.applyAll] at he
  | cons op ops ih =>
    intro e he
    simp only [Env.applyAll, List.mem_cons] at he
    rcases he with he | he
    · by_cases hst : op = .step
      · subst hst
        exact C01.ran_live ar s e he.symm
      · have := (C01.apply_non_step ar s op hst).1
        rw [← he] at this; simp [EnvOut.isPop] at this
    · exact ih _ e he

/-! ### events scheduled after the call are unaffected -/

/-- An event scheduled after `pause a` / `cancel a` is pending, live and at its requested time,
even if it belongs to asset `a`. -/
theorem later_events_unaffected_pause (s s' : Env) (a t : Int) (b : Int) (act : Nat) (p : Int) (w : Nat)
    (h : (s.pause a).schedule t b act p w = some s') :
    ∃ e ∈ s'.events, e.uid = (s.pause a).nextUid ∧ e.time = t ∧ e.asset = b ∧
      e.cancelled = false ∧ e.pausedAt = none := by
  obtain ⟨_, rfl⟩ := Env.schedule_some.mp h
  exact ⟨_, insort_mem.mpr (Or.inl rfl), rfl, rfl, rfl, rfl, rfl⟩

theorem later_events_unaffected_cancel (s s' : Env) (a t : Int) (b : Int) (act : Nat) (p : Int) (w : Nat)
    (h : (s.cancel a).schedule t b act p w = some s') :
    ∃ e ∈ s'.events, e.uid = (s.cancel a).nextUid ∧ e.time = t ∧ e.asset = b ∧
      e.cancelled = false ∧ e.pausedAt = none := by
  obtain ⟨_, rfl⟩ := Env.schedule_some.mp h
  exact ⟨_, insort_mem.mpr (Or.inl rfl), rfl, rfl, rfl, rfl, rfl⟩

/-! ### the pause invariant holds in every reachable state (exact arithmetic) -/

theorem pinv_init : PInv {} := by
  intro e he; cases he

theorem pinv_apply (s : Env) (op : EnvOp) (h : C01.Inv s) (hp : PInv s) :
    PInv (s.apply Arith.exact op).1 := by
  cases op with
  | sched t a act p w =>
    simp only [Env.apply]
    cases hs : s.schedule t a act p w with
    | none => exact hp
    | some s' => obtain ⟨_, rfl⟩ := Env.schedule_some.mp hs; exact hp
  | runBegin d w =>
    simp only [Env.apply]
    cases hs : s.runBegin Arith.exact d w with
    | none => exact hp
    | some s' => obtain ⟨_, rfl⟩ := Env.schedule_some.mp hs; exact hp
  | pause a =>
    intro e he
    simp only [Env.apply, Env.pause, List.mem_append, List.mem_map, List.mem_filter] at he ⊢
    rcases he with he | ⟨e0, ⟨he0, _⟩, rfl⟩
    · exact hp e he
    · exact ⟨s.now, rfl, h.future e0 he0, Int.le_refl _⟩
  | unpause a =>
    intro e he
    exact hp e (List.mem_filter.mp he).1
  | cancel a =>
    intro e he
    simp only [Env.apply, Env.cancel, List.mem_map] at he ⊢
    obtain ⟨e0, he0, rfl⟩ := he
    simpa using hp e0 he0
  | step =>
    cases hs : s.step with
    | none => rw [apply_step_none _ hs]; exact hp
    | some q =>
      obtain ⟨e0, s'⟩ := q
      rw [apply_step_some _ hs]
      have hc := (C01.step_clock h hs)
      obtain ⟨es, heq, rfl⟩ := Env.step_some.mp hs
      intro e he
      obtain ⟨p, h1, h2, h3⟩ := hp e he
      exact ⟨p, h1, h2, Int.le_trans h3 hc.2⟩

theorem pinv_applyAll {s : Env} (ops : List EnvOp) (h : C01.Inv s) (hp : PInv s) :
    PInv (s.applyAll Arith.exact ops).1 := by
  induction ops generalizing s with
  | nil => exact hp
  | cons op ops ih =>
    simp only [Env.applyAll]
    exact ih (C01.inv_apply Arith.exact op h) (pinv_apply s op h hp)

theorem pinv_reachable (ops : List EnvOp) : PInv ((({} : Env).applyAll Arith.exact ops).1) := by
  exact (pinv_applyAll ops C01.inv_init pinv_init)

/-! ### non-vacuity: pause at a non-zero time, nested pause, resume; delay preserved -/

example :
    let ops : List EnvOp :=
      [.sched 40 1 5 28 3, .sched 8 2 6 28 1, .step, .pause 1, .sched 24 2 7 28 0, .step,
       .unpause 1, .step]
    (({} : Env).applyAll Arith.exact ops).2.map (fun o => match o with
        | .ran e => e.time | _ => -1)
      = [-1, -1, 8, -1, -1, 24, -1, 56] := by decide

end C07
end SimProc
