/-
C14 (c) — a run can be split: running for `a` and then for `b` time units gives the same evolution
as running once for `a + b`, when the tie-break weights are held fixed (they are arguments of the
operations here) and user priorities are above TERMINATE.

The statement is about the environment model driven by an ARBITRARY closed system of actions
(`Sys`): an action is a function of its code, the user state and the clock, and talks to the
environment only through operations (schedule / pause / unpause / cancel).
-/
import SimProc.Proofs.EnvLemmas
import SimProc.Props.C01
import SimProc.Proofs.SplitSim

namespace SimProc
namespace C14

/-- A closed system of actions over a user state `σ`. -/
structure Sys (σ : Type) where
  act : Nat → σ → Int → σ × List EnvOp

/-- The operations an action may issue (as in C01: priorities above TERMINATE, not the
environment's private terminate action, never the internal asset id −1, no `step`/`run` from
inside an action). -/
def ActOp : EnvOp → Prop
  | .sched _ _ act p _ => act ≠ terminateAct ∧ prioTerminate < p
  | .pause a => a ≠ -1
  | .unpause a => a ≠ -1
  | .cancel a => a ≠ -1
  | .step => False
  | .runBegin _ _ => False

def UserSys {σ : Type} (S : Sys σ) : Prop := ∀ a u now, ∀ op ∈ (S.act a u now).2, ActOp op

/-- One iteration of the loop of `Environment.run`: pop, set the clock, run the action of a live
non-terminate event and apply the operations it issues. -/
def Sys.step {σ : Type} (S : Sys σ) (st : σ × Env) : Option (σ × Env) :=
  match st.2.step with
  | none => none
  | some (e, env') =>
    if e.live && !(e.act == terminateAct) then
      let r := S.act e.act st.1 env'.now
      some (r.1, (env'.applyAll Arith.exact r.2).1)
    else some (st.1, env')

def Sys.loop {σ : Type} (S : Sys σ) : Nat → σ × Env → σ × Env
  | 0, st => st
  | f + 1, st =>
    if st.2.running then
      match S.step st with
      | none => st
      | some st' => Sys.loop S f st'
    else st

/-- `Environment.run(d)` with loop fuel `f` and tie-break weight `w` for the terminate event. -/
def Sys.run {σ : Type} (S : Sys σ) (f : Nat) (d : Int) (w : Nat) (st : σ × Env) : Option (σ × Env) :=
  match st.2.runBegin Arith.exact d w with
  | none => none
  | some env => some (Sys.loop S f (st.1, env))

/-- Events up to their internal numbering. -/
def noUid (e : Event) : Event := { e with uid := 0 }

/-- Same environment up to the numbering of events (a split run creates one more terminate event,
which shifts the uids). -/
def EnvEq (x y : Env) : Prop :=
  x.now = y.now ∧ x.terminated = y.terminated ∧
  x.events.map noUid = y.events.map noUid ∧ x.paused.map noUid = y.paused.map noUid

/-! ### bridge to the mirrored definitions of `SimProc/Proofs/SplitSim.lean` -/

theorem noUid_eq : noUid = Split.nu := rfl

theorem step_eq {σ : Type} (S : Sys σ) (st : σ × Env) : S.step st = Split.sstep S.act st := rfl

theorem loop_eq {σ : Type} (S : Sys σ) (f : Nat) (st : σ × Env) :
    S.loop f st = Split.sloop S.act f st := by
  induction f generalizing st with
  | zero => rfl
  | succ f ih =>
    simp only [Sys.loop, Split.sloop, step_eq]
    by_cases hr : st.2.running = true
    · simp only [hr, if_true]
      cases Split.sstep S.act st with
      | none => rfl
      | some st' => exact ih st'
    · simp [hr]

theorem run_eq {σ : Type} (S : Sys σ) (f : Nat) (d : Int) (w : Nat) (st : σ × Env) :
    S.run f d w st = Split.srun S.act f d w st := by
  simp only [Sys.run, Split.srun]
  cases Env.runBegin Arith.exact st.2 d w with
  | none => rfl
  | some env => simp only [loop_eq]

theorem actOp_aop {op : EnvOp} (h : ActOp op) : Split.AOp op := by
  cases op <;> simp_all [ActOp, Split.AOp, C01.UserOp]

/-- Running for `a` and then for `b` equals running once for `a + b`: same final user state (hence
the same sequence of executed actions with the same clock readings — the user state may record
them) and the same environment up to event numbering.  The `terminated = true` hypotheses say that
each run completed (the loop fuel of the executable model did not run out). -/
theorem run_split {σ : Type} (S : Sys σ) (hS : UserSys S) (u : σ) (s : Env)
    (hi : C01.Inv s) (hu : C01.UserState s) (a b : Int) (ha : 0 ≤ a) (hb : 0 ≤ b)
    (w w1 w2 f f1 f2 : Nat) (r1 r2 r : σ × Env)
    (h1 : S.run f1 a w1 (u, s) = some r1) (hd1 : r1.2.terminated = true)
    (h2 : S.run f2 b w2 r1 = some r2) (hd2 : r2.2.terminated = true)
    (h : S.run f (a + b) w (u, s) = some r) (hd : r.2.terminated = true) :
    r.1 = r2.1 ∧ EnvEq r.2 r2.2 := by
  have _ := ha
  rw [run_eq] at h1 h2 h
  have hact : ∀ a u now, ∀ op ∈ (S.act a u now).2, Split.AOp op :=
    fun a u now op hop => actOp_aop (hS a u now op hop)
  exact Split.run_split_core S.act hact u s hi hu a b hb w w1 w2 f f1 f2 r1 r2 r h1 hd1 h2 hd2 h hd

/-! ### non-vacuity: a system whose action 5 reschedules itself 3 ticks later and logs the clock -/
def exSys : Sys (List Int) where
  act := fun a log now => (log ++ [now], if a == 5 then [.sched (now + 3) 2 5 28 0] else [])

example :
    let s0 : Env := (({} : Env).apply Arith.exact (.sched 2 2 5 28 0)).1
    ((exSys.run 100 10 7 ([], s0)).map (·.1)) = some [2, 5, 8] ∧
    (((exSys.run 100 4 1 ([], s0)).bind (exSys.run 100 6 2)).map (·.1)) = some [2, 5, 8] := by
  decide

end C14
end SimProc
