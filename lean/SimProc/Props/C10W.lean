/-
C10W — C10 ("waiting resource requests are served: exactly once, in order, only when feasible") AT
WORLD LEVEL: the scan `World.rmCheck = scanWaiting World.scanOps …` with the callbacks the world
can run (`Cb.proc d` ↦ `procResourceCb d`, `Cb.script k` ↦ `runScript k`), in every world reachable
by the event loop.

`Props/C10.lean` proves the statement for a generic scan over an abstract state with two interface
laws, and for the manager + a "check pending" flag.  `Props/C11W.lean` lifts the last clause to the
world for a class that forbids scripted `register / reserve / release / merge / rewire / create`.
Here the class is much larger:

**The class** `Cls` (decidable; `Proofs/C10WCBase.lean`, `Proofs/C10WInv.lean`): device asset
ids are ≥ 1 (what `addDev` assigns), and every scripted operation satisfies `opC`: it is a user
operation on the event queue (`C01W.opUser`: a scripted `sched` has a priority above `TERMINATE`,
scripted pause / unpause / cancel do not name the environment's internal asset id −1 — the id that
carries the availability check), and a scripted constructor call does not create a device whose
`waitingRes` flag is already set.  EVERYTHING ELSE IS ALLOWED: scripted `register`, `reserve`,
`release`, `merge`, `addRes` (the `rm` scenario family), `rewire`, `create`, shutdown / restore /
failures, work orders, any topology (no `Static`, no `C11W.S`, no bound on the number of devices).
That the −1 clause is needed is shown by `internal_cancel_needed`.

**Fresh worlds** `Fresh` (decidable): not started; no PROCESSOR waits (script requests registered
before `simulate` are allowed — the F9 situation), no `waitingRes` flag set; `C01.Inv` of the queue.

**Reachable states** `Reachable w0 w`: `simulateInit`, then events (`step`), whole runs of the
event loop (`runLoop n`), `runBegin d`, operations of the class issued from outside.

What is proved (nothing `_partial`; one model artefact is explicit, see 3.):

0. `inv0_reachable`: the invariant `Inv0` — `P` (the class, and the shape `WaitOK` of the waiting
   list), manager initialised, queue invariant — in every reachable state.
1. ONE CHECK (items 1a–1c of the task; all UNCONDITIONAL unless stated):
   * `scan_laws`: `World.scanOps` satisfies `C10.Laws` for every world and every callback; hence
     C10's generic theorems apply verbatim (`check_exactly_once`, `check_registration_order`);
   * `served_only_when_feasible`: a callback is invoked only for a waiting entry that fits the pools
     at that moment, with exactly the registered request;
   * `check_shuffle` (stronger than C10's two theorems): waiting list before the check ++ the
     registrations made by callbacks during the check is an INTERLEAVING (`Shuffle`) of the served
     entries (in callback order) and the entries still waiting afterwards (in list order) — so each
     entry is served at most once and removed exactly when served, unserved entries stay in order,
     new registrations are appended behind, the served entries are a subsequence in registration
     order (`served_sublist`, `unserved_sublist`, `served_perm`);
   * `check_cbLog`: the callback records `.cb k` the check writes to the action log are exactly the
     script callbacks of its call log, in order; `other_event_keeps`: no other event, operation or
     run start writes a callback record or removes a waiting entry;
   * processors (`proc_callback`, under `P`): the entry served names a processor whose flag is set
     and whose declared request is the registered one; its callback clears the flag, does not touch
     the manager, the entry is removed and the invariant holds again — the processor then acquires
     or re-registers through `procAcquire` (`procAcquire_refused`: a refused processor is waiting
     afterwards — it was already, or it has just appended its declared request and set its flag),
     which keeps `WaitOK` (`waitOK_reachable`; the race
     "called back, then overtaken, then registered again" is the example `exW2` below).
2. EXACTLY ONCE OVER A RUN (unconditional: no class, any start world, any operation from outside):
   registrations are numbered in the order in which they are made (`TReach`: the transitions of
   `Reachable` with a ghost numbering `Tag` — `tagStep`, `tagRun`; inside a check the instrumented
   scan `scanTag` numbers the registrations made by callbacks and logs the number of every entry it
   serves); `served_once`: the numbers of all registrations served so far and of those still
   waiting are pairwise distinct — no registration is called back twice, a served registration is
   not waiting any more (until it is registered again, under a new number: example `exW2`);
   `served_is_log`: what is logged as served during a check is, without the numbers, its call
   log; `treach_exists`: every reachable world carries such a numbering.
3. FIRST FEASIBLE CHECK.
   * `check_after_change` (any world): on an initialised manager every scripted registration,
     successful non-zero capacity change and successful release leaves a live check queued for the
     current instant;
   * for `ReachableD` (reachable with every executed check reaching the end of the waiting list —
     `StepDone` / `RunDone`, decidable; the executable model's scan has fuel 10000, the Python loop
     has none): `inv_reachable`, `check_pending` — whenever a waiting request (of a processor or of a
     script) fits, a live availability check is queued for the current instant;
     `no_feasible_waiting_at_advance`, `no_feasible_waiting_when_clock_advances` — when the clock is
     about to advance no waiting request fits (C11W's 4a/4b, lifted to `Cls`);
   * `complete_check_reestablishes`, `complete_check_waiting`: after a complete check the entries
     still waiting are exactly those the scan passed over, and each did not fit when the scan looked
     at it; a request that fits then has a NEW check queued;
   * fuel: `stepDone_of_quiet` (fewer than 10000 requests wait and no waiting callback script
     contains a `register`), `cbQuiet_reachable` / `stepDone_of_class` (the static class `RegQuiet`
     "callbacks do not register": then the side condition is just the bound on the length of the
     waiting list); `fuel_needed`: a callback that registers itself again with an always feasible
     request never lets the scan end, with any fuel (Python: an infinite loop) — the condition is
     not an artefact of the proof.
4. `internal_cancel_needed`, `device_aid_needed`, `created_flag_needed`, `fuel_needed`: the
   conditions are needed.

The scripted `sched` priority clause of `opUser` (above `TERMINATE`) is inherited from `C01W.Via`
(the event-queue refinement this development builds on); it is the only respect in which `Cls`
is not larger than `C11W.S`.
-/
import SimProc.Proofs.C10WLog
import SimProc.Proofs.C10WQuiet

namespace SimProc
namespace C10W
open World FloorCoreL C01W

/-! ### 0. reachable states and the invariant -/

/-- **Reachable states**: `System.simulate`'s initialisation of the fresh world, then any number
of events (`Environment.step`, or whole runs of the event loop `runLoop` with any fuel), beginnings
of `Environment.run(d)` and operations of the class issued from outside between events. -/
inductive Reachable (w0 : World) : World → Prop
  | init : Reachable w0 w0.simulateInit
  | step {w w' : World} {e : Event} : Reachable w0 w → w.step = some (e, w') → Reachable w0 w'
  | loop {w : World} (n : Nat) : Reachable w0 w → Reachable w0 (runLoop n w)
  | run {w : World} (d : Int) : Reachable w0 w → Reachable w0 (w.runBegin d).1
  | op {w : World} (o : Op) : Reachable w0 w → opC o = true → Reachable w0 (w.applyOp o).1

/-- The simplest reachable states: initialise, then run the event loop with fuel `n`. -/
def reach (n : Nat) (w : World) : World := runLoop n w.simulateInit

theorem reach_reachable (n : Nat) (w : World) : Reachable w (reach n w) := .loop n .init

/-- **0. The invariant holds in every reachable state** (no fuel condition). -/
theorem inv0_reachable {w0 w : World} (hC : Cls w0) (hF : Fresh w0) (hr : Reachable w0 w) :
    Inv0 w := by
  induction hr with
  | init => exact (inv_simulateInit hC hF).i0
  | step _ hst ih => exact ih.step hst
  | loop n _ ih => exact ih.runLoop n
  | run d _ ih => exact ih.runBegin d
  | op o _ hok ih => exact ih.step_C (C_applyOp _ o hok)

section
variable {w0 w : World} (hC : Cls w0) (hF : Fresh w0) (hr : Reachable w0 w)
include hC hF hr

/-- The class is preserved. -/
theorem cls_reachable : Cls w := ⟨(inv0_reachable hC hF hr).p.aid, (inv0_reachable hC hF hr).p.scr⟩

/-- **Shape of the waiting list** in every reachable state: a processor waits at most once; a
waiting processor has its `waitingRes` flag set and waits with its declared request; a processor
whose flag is set is in the list (so it will be called back). -/
theorem waitOK_reachable : WaitOK w := (inv0_reachable hC hF hr).p.wait

/-- The manager is initialised, the queue invariant holds. -/
theorem rm_inited_reachable : w.rm.inited = true ∧ C01.Inv w.env :=
  ⟨(inv0_reachable hC hF hr).ini, (inv0_reachable hC hF hr).q⟩

end

/-! ### 1. one check -/

/-- **1. `World.scanOps` satisfies the interface laws of C10** — for every world, every callback,
unconditionally. -/
theorem scan_laws : C10.Laws World.scanOps := scanOps_laws

/-- The call log of the check executed in world `w`: (request, callback, manager at the moment of
the call), in call order. -/
def checkLog (w : World) : List (Req × Cb × RM) := (C10.scanLog World.scanOps 10000 w 0).2

/-- The entries served by the check executed in world `w`, in callback order. -/
def served (w : World) : List (Req × Cb) := (checkLog w).map (fun c => (c.1, c.2.1))

/-- The instrumented scan computes `rmCheck`. -/
theorem checkLog_state (w : World) : (C10.scanLog World.scanOps 10000 w 0).1 = w.rmCheck :=
  C10.scanLog_state _ _ _ _

/-- **1a.** A callback is invoked only for a waiting entry whose whole request fits the pools at
that moment, and it is given exactly the registered request. -/
theorem served_only_when_feasible (w : World) :
    ∀ c ∈ checkLog w, c.2.2.canFulfill c.1 = true ∧ (c.1, c.2.1) ∈ c.2.2.waiting :=
  C10.cb_only_when_feasible _ _ _ _

/-- **1b.** The waiting list before the check, extended by the registrations made by callbacks
during the check (`added`, appended behind), is an interleaving of the entries served (in callback
order) and the entries still waiting afterwards (in list order). -/
theorem check_shuffle (w : World) :
    ∃ added : List (Req × Cb), Shuffle (w.rm.waiting ++ added) (served w) w.rmCheck.rm.waiting := by
  obtain ⟨added, h⟩ := scan_shuffle World.scanOps scan_laws 10000 w
  rw [checkLog_state] at h
  exact ⟨added, h⟩

/-- **1b′ (exactly once per check).** Served entries together with the entries still waiting are
exactly (as a multiset) the entries waiting before plus those registered during the check. -/
theorem served_perm (w : World) :
    ∃ added : List (Req × Cb), (served w ++ w.rmCheck.rm.waiting).Perm (w.rm.waiting ++ added) := by
  obtain ⟨added, h⟩ := check_shuffle w
  exact ⟨added, h.perm⟩

/-- **1c (registration order).** The served entries are a subsequence of the waiting list
(extended by the registrations made during the check): requests that are feasible together are
called back in registration order. -/
theorem served_sublist (w : World) :
    ∃ added : List (Req × Cb), (served w).Sublist (w.rm.waiting ++ added) := by
  obtain ⟨added, h⟩ := check_shuffle w
  exact ⟨added, h.sublist_left⟩

/-- **1b″.** Entries that are not served stay, in order; registrations made during the check are
behind them. -/
theorem unserved_sublist (w : World) :
    ∃ added : List (Req × Cb), w.rmCheck.rm.waiting.Sublist (w.rm.waiting ++ added) := by
  obtain ⟨added, h⟩ := check_shuffle w
  exact ⟨added, h.sublist_right⟩

/-- C10's own two theorems, instantiated by `scan_laws`. -/
theorem check_exactly_once (w : World) :
    ∃ added : List (Req × Cb),
      (served w ++ (World.scanOps.rm (C10.scanLog World.scanOps 10000 w 0).1).waiting).Perm
        (w.rm.waiting ++ added) :=
  C10.cb_exactly_once World.scanOps scan_laws 10000 w 0

theorem check_registration_order (w : World) :
    ∃ added : List (Req × Cb), (served w).Sublist (w.rm.waiting ++ added) :=
  C10.cb_registration_order World.scanOps scan_laws 10000 w

/-- **1c (the action log).** The callback records `.cb k` written by the check are exactly the
script callbacks among the served entries, in order. -/
theorem check_cbLog (w : World) :
    cbLog w.rmCheck = cbLog w ++ (served w).filterMap (fun e => scriptOf e.2) := by
  have := scan_cbLog 10000 w 0
  unfold served checkLog
  rw [List.filterMap_map]
  exact this

/-- Nothing but a check writes a callback record or removes a waiting entry: events other than the
check, operations, run starts only append to the waiting list and leave the callback log alone. -/
theorem other_event_keeps (w : World) :
    (∀ a, a ≠ .rmCheck → cbLog (w.exec a) = cbLog w ∧ ∃ l, (w.exec a).rm.waiting = w.rm.waiting ++ l) ∧
    (∀ o, cbLog (w.applyOp o).1 = cbLog w ∧ ∃ l, (w.applyOp o).1.rm.waiting = w.rm.waiting ++ l) ∧
    (∀ d, cbLog (w.runBegin d).1 = cbLog w ∧ (w.runBegin d).1.rm.waiting = w.rm.waiting) ∧
    (cbLog w.simulateInit = cbLog w ∧ ∃ l, w.simulateInit.rm.waiting = w.rm.waiting ++ l) :=
  ⟨fun a ha => ⟨(U_exec w a ha).cbLog, (U_exec w a ha).wapp'⟩,
   fun o => ⟨(U0_applyOp w o).cbLog, (U0_applyOp w o).wapp⟩,
   fun d => ⟨(U_runBegin w d).cbLog, by rw [KU_rm (KU_runBegin w d)]⟩,
   ⟨(U_simulateInit w).cbLog, (U_simulateInit w).wapp'⟩⟩

/-- **1a (processors).** Under the invariant, when the check serves entry `i = (req, proc d)`:
processor `d` has its flag set and `req` is its declared request; the callback clears the flag and
does not touch the manager; after the entry is removed the invariant holds again. -/
theorem proc_callback (w : World) (i d : Nat) (req : Req) (hp : P w)
    (hi : w.rm.waiting[i]? = some (req, .proc d)) :
    (w.dev d).waitingRes = true ∧ (w.dev d).resReq = some req ∧
    (World.scanOps.call w (.proc d) req).rm = w.rm ∧
    ((World.scanOps.call w (.proc d) req).dev d).waitingRes = false ∧
    P (World.scanOps.erase (World.scanOps.call w (.proc d) req) i) := by
  obtain ⟨h1, h2⟩ := hp.wait.entry _ (List.mem_of_getElem? hi) d rfl
  obtain ⟨hrm, _, _, _, hfl⟩ := procResourceCb_spec w d
  exact ⟨h1, h2, hrm, hfl (lt_of_resReq h2), P_serveProc w i d req hp hi⟩

/-- A processor that is refused its resources is waiting afterwards: it was waiting already
(nothing changes), or it has just registered its declared request at the end of the waiting list
and set its flag; the only other way to be refused is the model's error branch (a declared request
with a negative amount). -/
theorem procAcquire_refused (w : World) (x : Nat) (req : Req)
    (hreq : (w.dev x).resReq = some req) (hf : (w.procAcquire x).2 = false) :
    ((w.dev x).waitingRes = true ∧ (w.procAcquire x).1 = w) ∨
    ((w.dev x).waitingRes = false ∧
      (w.procAcquire x).1.rm.waiting = w.rm.waiting ++ [(req, .proc x)] ∧
      ((w.procAcquire x).1.dev x).waitingRes = true) ∨
    (w.rm.reserve req).2.1 = .err .value := by
  have hx : x < w.devs.length := lt_of_resReq hreq
  unfold procAcquire at hf ⊢
  simp only [hreq] at hf ⊢
  split at hf
  · cases hf
  · rename_i hres
    simp only [hres, Bool.false_eq_true, if_false]
    rcases hr : w.rm.reserve req with ⟨rm, res, id, recs⟩
    rw [hr] at hf
    cases id with
    | some id => simp at hf
    | none =>
      cases res with
      | err e =>
        right; right
        -- the only error of `reserve` is `.value`
        unfold RM.reserve at hr
        split at hr
        · cases hr; rfl
        · dsimp only at hr
          split at hr <;> cases hr
      | ok | bool _ | none_ | some_ | cb _ | hook _ _ _ | act _ _ _ _ _ | sense _ _ _ _ | shut _ _ _ _ | restored _ _ =>
        dsimp only
        cases hfl : (w.dev x).waitingRes with
        | true => left; simp
        | false =>
          right; left
          simp only [Bool.false_eq_true, if_false]
          have hx1 : x < (({ w with rm := (w.rm.register req (.proc x)).1 } : World).rmEffects []
              (w.rm.register req (.proc x)).2).devs.length := by
            have := KC_devs (KC_rmEffects ({ w with rm := (w.rm.register req (.proc x)).1 } : World) []
              (w.rm.register req (.proc x)).2)
            have h2 := congrArg List.length this
            simp only [List.length_map] at h2
            rw [h2]; exact hx
          refine ⟨trivial, ?_, ?_⟩
          · show (World.rmEffects _ [] _).rm.waiting = _
            rw [KU_rm (KU_rmEffects _ [] _)]; rfl
          · rw [dev_modDev, if_pos ⟨rfl, hx1⟩]

/-- The check keeps the invariant (with the model's fuel or any other). -/
theorem check_keeps_invariant (w : World) (h : Inv0 w) : Inv0 w.rmCheck := h.scan 10000 0

/-! ### 2. exactly once over a run -/

/-- The registration numbers after one event: a live check event runs the instrumented scan (new
registrations are numbered after every callback, served numbers are logged); after any other event
the registrations it made get the next numbers. -/
def tagStep (w : World) (g : Tag) : Tag :=
  match w.env.step, w.step with
  | some (e, env'), some (_, w') =>
    if e.live = true ∧ Action.ofNat e.act = .rmCheck then
      scanTag World.scanOps 10000 ({ w with env := env' } : World) 0 g
    else g.sync w'.rm.waiting
  | _, _ => g

/-- … after a run of the event loop. -/
def tagRun : Nat → World → Tag → Tag
  | 0, _, g => g
  | n + 1, w, g =>
    if w.env.running then
      match w.step with
      | none => g
      | some (_, w') => tagRun n w' (tagStep w g)
    else g

/-- **Worlds with registration numbers**: every registration gets the next free number when it is
made; the check logs the number of every entry it serves.  Same transitions as `Reachable`, but NO
class restriction: any operation may be issued from outside, any world may be the start. -/
inductive TReach (w0 : World) : World → Tag → Prop
  | init : TReach w0 w0.simulateInit (({} : Tag).sync w0.simulateInit.rm.waiting)
  | step {w w' : World} {e : Event} {g : Tag} : TReach w0 w g → w.step = some (e, w') →
      TReach w0 w' (tagStep w g)
  | loop {w : World} {g : Tag} (n : Nat) : TReach w0 w g → TReach w0 (runLoop n w) (tagRun n w g)
  | run {w : World} {g : Tag} (d : Int) : TReach w0 w g → TReach w0 (w.runBegin d).1 g
  | op {w : World} {g : Tag} (o : Op) : TReach w0 w g →
      TReach w0 (w.applyOp o).1 (g.sync (w.applyOp o).1.rm.waiting)

theorem tagOK_step {w w' : World} {e : Event} {g : Tag} (ih : TagOK g w.rm.waiting)
    (hst : w.step = some (e, w')) : TagOK (tagStep w g) w'.rm.waiting := by
  obtain ⟨env1, hs1, _, hdead, hlive⟩ := step_via hst
  unfold tagStep
  rw [hs1, hst]
  dsimp only
  split
  · rename_i hc
    rw [hlive hc.1, hc.2]
    exact tagOK_scan World.scanOps scan_laws 10000 _ 0 g ih
  · rename_i hne
    cases hl : e.live with
    | false =>
      rw [hdead hl]
      have : TagOK g ({ w with env := env1 } : World).rm.waiting := ih
      rw [Tag.sync_self this]; exact this
    | true =>
      have ha : Action.ofNat e.act ≠ .rmCheck := fun h => hne ⟨hl, h⟩
      rw [hlive hl]
      exact TagOK.of_U (w := ({ w with env := env1 } : World)) ih (U_exec _ _ ha)

theorem tagOK_run (n : Nat) : ∀ {w : World} {g : Tag}, TagOK g w.rm.waiting →
    TagOK (tagRun n w g) (runLoop n w).rm.waiting := by
  induction n with
  | zero =>
    intro w g h
    rw [World.runLoop, tagRun, KU_rm (KU_setErr w "fuel")]
    exact h
  | succ n ih =>
    intro w g h
    rw [World.runLoop, tagRun]
    by_cases hrun : w.env.running = true
    · rw [if_pos hrun, if_pos hrun]
      cases hst : w.step with
      | none => exact h
      | some q =>
        obtain ⟨e, w'⟩ := q
        exact ih (tagOK_step h hst)
    · rw [if_neg hrun, if_neg hrun]
      exact h

/-- The numbering is consistent in every reachable world. -/
theorem tagOK_reachable {w0 w : World} {g : Tag} (h : TReach w0 w g) : TagOK g w.rm.waiting := by
  induction h with
  | init => exact (tagOK_init.sync w0.simulateInit.rm.waiting)
  | step _ hst ih => exact tagOK_step ih hst
  | loop n _ ih => exact tagOK_run n ih
  | run d _ ih => rw [KU_rm (KU_runBegin _ d)]; exact ih
  | op o _ ih => exact TagOK.of_U0 ih (U0_applyOp _ o)

/-- **2. No double service.**  In every reachable world the registration numbers of all entries
served so far and of all entries still waiting are pairwise distinct (and the tagged waiting list
is the waiting list): no registration is called back twice, and a registration that has been
called back is not waiting any more — until it is registered again, under a new number. -/
theorem served_once {w0 w : World} {g : Tag} (h : TReach w0 w g) :
    (g.served.map (·.1)).Nodup ∧ (∀ x ∈ g.served, ∀ y ∈ g.tw, x.1 ≠ y.1) ∧
    g.tw.map (·.2) = w.rm.waiting ∧ (g.tw.map (·.1)).Nodup := by
  have hk := tagOK_reachable h
  have hn := hk.nodup
  rw [List.map_append] at hn
  obtain ⟨h1, h2, h3⟩ := List.nodup_append.1 hn
  exact ⟨h1, fun x hx y hy => h3 _ (List.mem_map.2 ⟨x, hx, rfl⟩) _ (List.mem_map.2 ⟨y, hy, rfl⟩),
    hk.proj, h2⟩

/-- What a check logs as served (with numbers) is, without the numbers, its call log; numbers are
only ever added to the served log (`served_prefix_scan`). -/
theorem served_is_log (w : World) (g : Tag) (h : TagOK g w.rm.waiting) :
    (scanTag World.scanOps 10000 w 0 g).served.map (·.2) = g.served.map (·.2) ++ served w :=
  served_scan World.scanOps scan_laws 10000 w 0 g h

/-- Every reachable world carries a numbering. -/
theorem treach_exists {w0 w : World} (hr : Reachable w0 w) : ∃ g, TReach w0 w g := by
  induction hr with
  | init => exact ⟨_, .init⟩
  | step _ hst ih => obtain ⟨g, h⟩ := ih; exact ⟨_, .step h hst⟩
  | loop n _ ih => obtain ⟨g, h⟩ := ih; exact ⟨_, .loop n h⟩
  | run d _ ih => obtain ⟨g, h⟩ := ih; exact ⟨_, .run d h⟩
  | op o _ _ ih => obtain ⟨g, h⟩ := ih; exact ⟨_, .op o h⟩

/-! ### 3. a feasible waiting request has a check pending; none is left when time advances -/

/-- **Reachable states in which every executed check reached the end of the waiting list**
(`StepDone` / `RunDone`, decidable: the executable model's scan has fuel 10000 — the Python loop is
unbounded; see `stepDone_of_quiet` for a sufficient condition and `fuel_needed` for why a
condition is needed). -/
inductive ReachableD (w0 : World) : World → Prop
  | init : ReachableD w0 w0.simulateInit
  | step {w w' : World} {e : Event} : ReachableD w0 w → w.step = some (e, w') → StepDone w →
      ReachableD w0 w'
  | loop {w : World} (n : Nat) : ReachableD w0 w → RunDone n w → ReachableD w0 (runLoop n w)
  | run {w : World} (d : Int) : ReachableD w0 w → ReachableD w0 (w.runBegin d).1
  | op {w : World} (o : Op) : ReachableD w0 w → opC o = true → ReachableD w0 (w.applyOp o).1

theorem ReachableD.reachable {w0 w : World} (h : ReachableD w0 w) : Reachable w0 w := by
  induction h with
  | init => exact .init
  | step _ hst _ ih => exact .step ih hst
  | loop n _ _ ih => exact .loop n ih
  | run d _ ih => exact .run d ih
  | op o _ hok ih => exact .op o ih hok

/-- **The closed-world invariant** (`Inv0` and `Pend`) in every such state. -/
theorem inv_reachable {w0 w : World} (hC : Cls w0) (hF : Fresh w0) (hr : ReachableD w0 w) :
    Inv w := by
  induction hr with
  | init => exact inv_simulateInit hC hF
  | step _ hst hd ih => exact ih.step hst hd
  | loop n _ hd ih => exact ih.runLoop n hd
  | run d _ ih => exact ih.runBegin d
  | op o _ hok ih => exact ih.step_C (C_applyOp _ o hok)

section
variable {w0 w : World} (hC : Cls w0) (hF : Fresh w0) (hr : ReachableD w0 w)
include hC hF hr

/-- **3a (`C10.PendInv` lifted to the world, for the class `Cls`).** If some waiting request —
of a processor or of a script — fits, a live availability check (`rmCheck`, priority
`OTHER_HIGH`, asset −1) is queued for the current instant. -/
theorem check_pending (hf : C10.feasibleWaiting w.rm) :
    C11W.QueuedL w .rmCheck w.now pOtherHigh (-1) :=
  (inv_reachable hC hF hr).pend hf

/-- **3b.** In a reachable state in which no live queued event is due at the current instant (the
clock is about to advance), no waiting request fits. -/
theorem no_feasible_waiting_at_advance
    (hadv : ∀ e ∈ w.env.events, e.cancelled = false → e.time ≠ w.now) :
    ∀ e ∈ w.rm.waiting, w.rm.canFulfill e.1 = false := by
  intro e he
  cases hc : w.rm.canFulfill e.1 with
  | false => rfl
  | true =>
    obtain ⟨ev, hev, _, ht, _, _, hl⟩ := check_pending hC hF hr ⟨e, he, hc⟩
    exact absurd ht (hadv ev hev hl)

/-- **3b′ (in terms of `Environment.step`).** If the next step advances the clock, no waiting
request fits: every request is served at the first check at which it fits, and such a check runs
before time moves on. -/
theorem no_feasible_waiting_when_clock_advances (e : Event) (env' : Env)
    (hst : w.env.step = some (e, env')) (hadv : w.env.now < env'.now) :
    ∀ r ∈ w.rm.waiting, w.rm.canFulfill r.1 = false := by
  have hI := inv_reachable hC hF hr
  apply no_feasible_waiting_at_advance hC hF hr
  intro ev hev _ ht
  have h1 := C01.step_min_time hI.i0.q hst ev hev
  have h2 := (C01.step_clock hI.i0.q hst).1
  unfold World.now at ht
  omega

end

/-- **3a′ (`C10.check_after_change` at world level).** On an initialised manager every scripted
registration, every non-zero capacity change that succeeds and every release that succeeds leaves
a live availability check queued for the current instant — in ANY world (no class, no
reachability). -/
theorem check_after_change (w : World) (hi : w.rm.inited = true) :
    (∀ k req, C11W.QueuedL (w.applyOp (.register k req)).1 .rmCheck
      (w.applyOp (.register k req)).1.now pOtherHigh (-1)) ∧
    (∀ r a, a ≠ 0 → (w.applyOp (.addRes r a)).2 = .ok →
      C11W.QueuedL (w.applyOp (.addRes r a)).1 .rmCheck (w.applyOp (.addRes r a)).1.now
        pOtherHigh (-1)) ∧
    (∀ h part, (w.applyOp (.release h part)).2 = .ok →
      C11W.QueuedL (w.applyOp (.release h part)).1 .rmCheck (w.applyOp (.release h part)).1.now
        pOtherHigh (-1)) := by
  obtain ⟨h1, h2, h3⟩ := C10.check_after_change w.rm hi
  refine ⟨?_, ?_, ?_⟩
  · intro k req
    simp only [applyOp]
    have : (w.rm.register req (.script k)).2 = true := h1 req (.script k)
    rw [this]; exact chkNow_rmEffects _ _
  · intro r a ha hok
    have h2' := h2 r a ha
    simp only [applyOp, RM.apply] at hok h2' ⊢
    rcases hr : w.rm.add r a with ⟨rm, res, recs, chk⟩
    rw [hr] at hok h2'
    dsimp only at hok h2' ⊢
    rw [h2' hok]; exact chkNow_rmEffects _ _
  · intro h part hok
    simp only [applyOp] at hok ⊢
    cases hv : w.getVar h with
    | none => rw [hv] at hok; cases hok
    | some id =>
      rw [hv] at hok
      dsimp only at hok ⊢
      have h3' := h3 id part
      have e1 : (w.rm.apply (.release id part)).2.1 = (w.rm.release id part).2.1 := by
        simp only [RM.apply]
      have e2 : (w.rm.apply (.release id part)).2.2 = (w.rm.release id part).2.2.2 := by
        simp only [RM.apply]
      rw [e1, e2] at h3'
      rw [h3' hok]; exact chkNow_rmEffects _ _

/-- **3c.** A check that reaches the end of the waiting list re-establishes the pending-check
invariant whatever the callbacks do (they may release, reserve, add capacity, register …): after
it, a request that fits has a NEW check queued for the current instant. -/
theorem complete_check_reestablishes (w : World) (h0 : Inv0 w)
    (hd : C10.scanDone World.scanOps 10000 w 0 = true) :
    C10.feasibleWaiting w.rmCheck.rm → C11W.QueuedL w.rmCheck .rmCheck w.rmCheck.now pOtherHigh (-1) :=
  pend_scan 10000 w 0 h0 (Or.inr (fun j _ hj => absurd hj (Nat.not_lt_zero j))) hd

/-- **3d (fuel).** If fewer than 10000 requests are waiting and no script that is waiting for a
callback contains a `register` operation (`CbQuiet`, decidable), the check executed by the next
step reaches the end of the waiting list. -/
theorem stepDone_of_quiet (w : World) (hq : CbQuiet w) (hlen : w.rm.waiting.length < 10000) :
    StepDone w := by
  unfold StepDone
  split
  · trivial
  · intro _ _
    exact scanDone_of_quiet 10000 _ 0 hq (by show w.rm.waiting.length - 0 < 10000; omega)

/-- **Reachable states of the quiet class**: as `Reachable`, and an operation issued from outside
registers only a callback script that contains no `register`. -/
inductive ReachableQ (w0 : World) : World → Prop
  | init : ReachableQ w0 w0.simulateInit
  | step {w w' : World} {e : Event} : ReachableQ w0 w → w.step = some (e, w') → ReachableQ w0 w'
  | loop {w : World} (n : Nat) : ReachableQ w0 w → ReachableQ w0 (runLoop n w)
  | run {w : World} (d : Int) : ReachableQ w0 w → ReachableQ w0 (w.runBegin d).1
  | op {w : World} (o : Op) : ReachableQ w0 w → opC o = true → regQuietOp w o →
      ReachableQ w0 (w.applyOp o).1

theorem ReachableQ.reachable {w0 w : World} (h : ReachableQ w0 w) : Reachable w0 w := by
  induction h with
  | init => exact .init
  | step _ hst ih => exact .step ih hst
  | loop n _ ih => exact .loop n ih
  | run d _ ih => exact .run d ih
  | op o _ hok _ ih => exact .op o ih hok

/-- **3d′ (the static class "callbacks do not register").**  If every script that some script
registers as a callback contains no `register` operation (`RegQuiet`, static and decidable) and
the callbacks waiting initially are quiet, then in every reachable state every waiting callback
script is quiet (no other hypothesis: neither `Cls` nor `Fresh` is needed) … -/
theorem cbQuiet_reachable {w0 w : World} (hR : RegQuiet w0) (h0 : CbQuiet w0)
    (hr : ReachableQ w0 w) : CbQuiet w ∧ RegQuiet w := by
  have : QInv w := by
    induction hr with
    | init => exact QInv.simulateInit ⟨h0, hR⟩
    | step _ hst ih => exact ih.step hst
    | loop n _ ih => exact ih.runLoop n
    | run d _ ih => exact ih.runBegin d
    | op o _ _ hq ih => exact ih.applyOp o hq
  exact ⟨this.cb, this.reg⟩

/-- … hence the model's fuel suffices for the next check whenever fewer than 10000 requests are
waiting: in the quiet class the side condition `StepDone` of `ReachableD` is a bound on the length
of the waiting list. -/
theorem stepDone_of_class {w0 w : World} (hR : RegQuiet w0) (h0 : CbQuiet w0)
    (hr : ReachableQ w0 w) (hlen : w.rm.waiting.length < 10000) : StepDone w :=
  stepDone_of_quiet w (cbQuiet_reachable hR h0 hr).1 hlen

/-- The entries the check executed in world `w` passes over without serving them, with the manager
at the moment the scan looked at them. -/
def passedOver (w : World) : List (Req × Cb × RM) := skipLog World.scanOps 10000 w 0

/-- **3e (served at the first check at which it fits).**  After a check that reaches the end of
the waiting list, the entries still waiting are exactly the entries the scan passed over — in
order, including those registered during the check —, and each of them did NOT fit when the scan
looked at it (feasibility is re-evaluated for every entry, after the callbacks before it).  With
3a: a request that fits has a check pending, and that check serves it unless an entry in front of
it takes the resources first. -/
theorem complete_check_waiting (w : World)
    (hd : C10.scanDone World.scanOps 10000 w 0 = true) :
    w.rmCheck.rm.waiting = (passedOver w).map (fun c => (c.1, c.2.1)) ∧
    ∀ c ∈ passedOver w, c.2.2.canFulfill c.1 = false ∧ (c.1, c.2.1) ∈ c.2.2.waiting := by
  have := scan_complete_waiting World.scanOps scan_laws 10000 w 0 hd
  rw [List.drop_zero] at this
  exact ⟨this, skipLog_infeasible _ _ _ _⟩

/-! ### 4. the conditions are needed -/

/-- A callback script that registers itself again with the empty (always feasible) request. -/
def exLoop : World :=
  { scripts := [[], [.register 1 []]]
    rm := { waiting := [([], .script 1)], inited := true } }

theorem loop_call (w : World) (hs : w.scripts.getD 1 [] = [.register 1 []]) :
    (World.scanOps.call w (.script 1) []).rm.waiting = w.rm.waiting ++ [([], .script 1)] := by
  show ((w.addRes (.cb 1)).runScript 1).rm.waiting = _
  unfold runScript
  have : (w.addRes (.cb 1)).scripts.getD 1 [] = [.register 1 []] := hs
  rw [this]
  simp only [applyOps, List.foldl_cons, List.foldl_nil, applyOp]
  show (World.rmEffects _ [] _).rm.waiting = _
  rw [KU_rm (KU_rmEffects _ [] _)]
  rfl

theorem loop_never_done (f : Nat) : ∀ w : World, w.scripts.getD 1 [] = [.register 1 []] →
    w.rm.waiting = [([], .script 1)] → C10.scanDone World.scanOps f w 0 = false := by
  induction f with
  | zero => intro w _ _; rfl
  | succ f ih =>
    intro w hs hw
    have hw' : (World.scanOps.rm w).waiting[0]? = some ([], .script 1) := by
      show w.rm.waiting[0]? = _; rw [hw]; rfl
    have hc : (World.scanOps.rm w).canFulfill [] = true := rfl
    simp only [C10.scanDone, hw', hc, if_true]
    refine ih _ ?_ ?_
    · show (World.scanOps.call w (.script 1) []).scripts.getD 1 [] = _
      have : (World.scanOps.call w (.script 1) []).scripts = w.scripts :=
        (U_runScript (w.addRes (.cb 1)) 1).scr
      rw [this]; exact hs
    · show (World.scanOps.call w (.script 1) []).rm.waiting.eraseIdx 0 = _
      rw [loop_call w hs, hw]; rfl

/-- **The fuel condition is needed.**  In `exLoop` (a world of the class) the waiting callback
script registers itself again with a request that always fits: with NO amount of fuel does the
scan reach the end of the waiting list (the Python loop `_check_pending_requests` does not
terminate) — and `CbQuiet` fails, as it must. -/
theorem fuel_needed : Cls exLoop ∧ ¬ CbQuiet exLoop ∧
    ∀ f, C10.scanDone World.scanOps f exLoop 0 = false :=
  ⟨by decide, by decide, fun f => loop_never_done f exLoop rfl rfl⟩

/-! ### non-vacuity -/

instance (l : List Event) : Decidable (SortedEv l) := by unfold SortedEv; infer_instance

instance (s : Env) : Decidable (C01.Inv s) :=
  decidable_of_iff (SortedEv s.events ∧ (∀ e ∈ s.events, s.now ≤ e.time) ∧
      ((s.events ++ s.paused).map Event.uid).Nodup ∧ ∀ e ∈ s.events ++ s.paused, e.uid < s.nextUid)
    ⟨fun ⟨a, b, c, d⟩ => ⟨a, b, c, d⟩, fun h => ⟨h.sorted, h.future, h.uids, h.fresh⟩⟩

instance (w : World) : Decidable (Fresh w) := by unfold Fresh; infer_instance
instance (w : World) (act : Action) (t prio asset : Int) :
    Decidable (C11W.QueuedL w act t prio asset) := by unfold C11W.QueuedL; infer_instance
instance (rm : RM) : Decidable (C10.feasibleWaiting rm) := by
  unfold C10.feasibleWaiting; infer_instance

/-- Two scripted events: script 0 at t = 1, script 2 at t = 5. -/
def exEnv : Env :=
  (({ terminated := false } : Env).applyAll Arith.exact
    [.sched 1 0 (Action.script 0).toNat 8 0, .sched 5 0 (Action.script 2).toNat 8 0]).1

/-- A source feeding two processors (cycle times 10 and 2) that compete for the single unit of
pool 0, and a sink.  Script 0 REGISTERS a request for one unit with callback script 1; the
callback script 1 RESERVES the unit (handle 0); script 2 ADDS two units of capacity. -/
def exW : World :=
  { env := exEnv
    scripts := [[.register 1 [(0, 1)]], [.reserve 0 [(0, 1)]], [.addRes 0 2]]
    rm := { pools := [(0, 0, 1)] }
    devs := [{ kind := .source, aid := 1, down := [1, 2], cycle := 1, maxParts := some 3 },
             { kind := .processor, aid := 2, up := [0], down := [3], cycle := 10, resReq := some [(0, 1)] },
             { kind := .processor, aid := 3, up := [0], down := [3], cycle := 2, resReq := some [(0, 1)] },
             { kind := .sink, aid := 4, up := [1, 2] }]
    assets := [.dev 0, .dev 1, .dev 2, .dev 3] }

/-- The hypotheses of all theorems are satisfiable on a non-trivial world whose scripts register
and reserve … -/
example : Cls exW ∧ Fresh exW := by decide

/-- … and fail where they should: a script that cancels / pauses the internal asset id, a script
that schedules at the `TERMINATE` priority, a constructor call with the flag set, a device with
asset id 0, a processor already flagged / already in the list before the start; release, merge,
rewire, create, shutdown, pause of a device are inside the class. -/
example : ¬ Cls { exW with scripts := [[.cancel (-1)]] } ∧
    ¬ Cls { exW with scripts := [[.pause (-1)]] } ∧
    ¬ Cls { exW with scripts := [[.sched 3 1 0 4]] } ∧
    ¬ Cls { exW with scripts := [[.create (.dev { kind := .processor, waitingRes := true })]] } ∧
    ¬ Cls { exW with devs := [{ kind := .processor, aid := 0 }] } ∧
    ¬ Fresh { exW with devs := [{ kind := .processor, aid := 1, waitingRes := true }] } ∧
    ¬ Fresh { exW with rm := { waiting := [([(0, 1)], .proc 1)] } } ∧
    Fresh { exW with rm := { waiting := [([(0, 1)], .script 1)] } } ∧
    Cls { exW with scripts := [[.release 0 none, .merge 0 1, .rewire 3 [1], .shutdown 1, .pause 2,
      .create (.dev { kind := .processor, resReq := some [(0, 2)] }), .register 7 [(0, 5)],
      .reserve 1 [(0, 1)], .addRes 0 (-1), .cancel 3]] } := by
  decide

/-- The world after the next event has been taken from the queue (the state in which its action
runs). -/
def popped (w : World) : World :=
  match w.env.step with
  | some (_, env') => { w with env := env' }
  | none => w

/-- t = 1: the script has registered its request; a check is queued for the current instant
(nothing fits: processor 1 holds the unit). -/
example : (reach 3 exW).now = 1 ∧ (reach 3 exW).rm.waiting = [([(0, 1)], .script 1)] ∧
    C11W.QueuedL (reach 3 exW) .rmCheck 1 pOtherHigh (-1) ∧
    ¬ C10.feasibleWaiting (reach 3 exW).rm := by decide

/-- t = 2: processor 2 has been refused and waits BEHIND the script's request; its flag is set … -/
example : (reach 6 exW).now = 2 ∧
    (reach 6 exW).rm.waiting = [([(0, 1)], .script 1), ([(0, 1)], .proc 2)] ∧
    ((reach 6 exW).dev 2).waitingRes = true ∧ ((reach 6 exW).dev 2).resReq = some [(0, 1)] := by
  decide

/-- … as `waitOK_reachable` says (hypotheses discharged by `decide`). -/
example : WaitOK (reach 6 exW) :=
  waitOK_reachable (by decide) (by decide) (reach_reachable 6 exW)

/-- Every check of the run reaches the end of the waiting list (so the states are `ReachableD`);
no waiting callback script registers (`stepDone_of_quiet` applies as well). -/
theorem exW_reachableD (n : Nat) (h : RunDone n exW.simulateInit) : ReachableD exW (reach n exW) :=
  .loop n .init h

example : RunDone 12 exW.simulateInit ∧ CbQuiet (reach 8 exW) ∧
    (reach 8 exW).rm.waiting.length < 10000 := by decide

/-- `exW` is in the static class "callbacks do not register" (so `stepDone_of_class` applies to
every state of the run); `exW3` below is not. -/
example : RegQuiet exW ∧ CbQuiet exW := by decide

example : StepDone (reach 8 exW) :=
  stepDone_of_class (w0 := exW) (by decide) (by decide) (.loop 8 .init) (by decide)

/-- 3b is not trivial: after the check at t = 2 nothing is due at the current instant — and indeed
neither the script's nor the processor's request fits. -/
example : (∀ e ∈ (reach 7 exW).env.events, e.cancelled = false → e.time ≠ (reach 7 exW).now) ∧
    (reach 7 exW).rm.waiting.length = 2 ∧ (reach 7 exW).rm.canFulfill [(0, 1)] = false := by decide

example : ∀ e ∈ (reach 7 exW).rm.waiting, (reach 7 exW).rm.canFulfill e.1 = false :=
  no_feasible_waiting_at_advance (by decide) (by decide) (exW_reachableD 7 (by decide)) (by decide)

/-- 3a: at t = 5 script 2 has added two units: both waiting requests fit, and the check is queued
for the current instant — by `decide`, and as `check_pending` says. -/
example : (reach 8 exW).now = 5 ∧ (reach 8 exW).rm.pools = [(0, 1, 3)] ∧
    C10.feasibleWaiting (reach 8 exW).rm ∧
    C11W.QueuedL (reach 8 exW) .rmCheck 5 pOtherHigh (-1) := by decide

example : C11W.QueuedL (reach 8 exW) .rmCheck (reach 8 exW).now pOtherHigh (-1) :=
  check_pending (by decide) (by decide) (exW_reachableD 8 (by decide)) (by decide)

/-- **The order of service.**  The check executed at t = 5 serves both requests, in registration
order: first the script (callback record `.cb 1`; its script reserves one unit), then processor 2
(flag cleared; its upstream is woken up); nothing is left waiting. -/
example :
    served (popped (reach 8 exW)) = [([(0, 1)], .script 1), ([(0, 1)], .proc 2)] ∧
    (popped (reach 8 exW)).rmCheck.rm.waiting = [] ∧
    cbLog (popped (reach 8 exW)) = [] ∧ cbLog (popped (reach 8 exW)).rmCheck = [1] ∧
    ((popped (reach 8 exW)).rmCheck.dev 2).waitingRes = false ∧
    (popped (reach 8 exW)).rmCheck.rm.pools = [(0, 2, 3)] ∧
    (popped (reach 8 exW)).rmCheck.env.events.map (fun e => (e.time, Action.ofNat e.act)) =
      [(5, .passPart 0), (11, .finishCycle 1)] := by decide

/-- … and that is the next state of the run; one event later processor 2 has acquired the third
unit and works. -/
example : (reach 9 exW).rm.waiting = [] ∧ cbLog (reach 9 exW) = [1] ∧
    (reach 10 exW).rm.pools = [(0, 3, 3)] ∧ ((reach 10 exW).dev 2).reserved = some 2 ∧
    ((reach 10 exW).dev 2).part = some 1 := by decide

/-- The registration numbers: the script's request is registration 0, the processor's is 1; both
are served once, in that order, and nothing waits. -/
example :
    (tagRun 12 exW.simulateInit (({} : Tag).sync exW.simulateInit.rm.waiting)).served =
      [(0, ([(0, 1)], .script 1)), (1, ([(0, 1)], .proc 2))] ∧
    (tagRun 12 exW.simulateInit (({} : Tag).sync exW.simulateInit.rm.waiting)).tw = [] ∧
    (tagRun 12 exW.simulateInit (({} : Tag).sync exW.simulateInit.rm.waiting)).next = 2 := by decide

/-- As `exW`, but script 2 adds ONE unit only. -/
def exW1 : World :=
  { exW with scripts := [[.register 1 [(0, 1)]], [.reserve 0 [(0, 1)]], [.addRes 0 1]] }

/-- **Only when feasible.**  Both requests fit when the check starts, but the script's callback
takes the unit: when the scan reaches processor 2 its request does not fit any more — it is not
called back and stays waiting, flag set (Python re-evaluates feasibility before every callback). -/
example : Cls exW1 ∧ Fresh exW1 ∧
    C10.feasibleWaiting (reach 8 exW1).rm ∧
    (reach 8 exW1).rm.canFulfill [(0, 1)] = true ∧
    served (popped (reach 8 exW1)) = [([(0, 1)], .script 1)] ∧
    (popped (reach 8 exW1)).rmCheck.rm.waiting = [([(0, 1)], .proc 2)] ∧
    ((popped (reach 8 exW1)).rmCheck.dev 2).waitingRes = true ∧
    (popped (reach 8 exW1)).rmCheck.rm.canFulfill [(0, 1)] = false := by decide

/-- As `exW1`, but the script registers at t = 3, i.e. BEHIND processor 2. -/
def exW2 : World :=
  { exW1 with env := (({ terminated := false } : Env).applyAll Arith.exact
      [.sched 3 0 (Action.script 0).toNat 8 0, .sched 5 0 (Action.script 2).toNat 8 0]).1 }

/-- **Called back, overtaken, registered again.**  Now processor 2 is first: it is called back
(its callback only wakes up its upstream — it does not take the unit), then the script's request
still fits, is called back and takes the unit; when the upstream hands the part over a moment
later, processor 2 is refused again and RE-REGISTERS: flag set again, one entry, behind — the shape
`WaitOK` is kept throughout (`waitOK_reachable`), and the re-registration gets a new number. -/
example : Cls exW2 ∧ Fresh exW2 ∧
    (reach 8 exW2).rm.waiting = [([(0, 1)], .proc 2), ([(0, 1)], .script 1)] ∧
    served (popped (reach 8 exW2)) = [([(0, 1)], .proc 2), ([(0, 1)], .script 1)] ∧
    (reach 9 exW2).rm.waiting = [] ∧ ((reach 9 exW2).dev 2).waitingRes = false ∧
    (reach 10 exW2).rm.waiting = [([(0, 1)], .proc 2)] ∧ ((reach 10 exW2).dev 2).waitingRes = true ∧
    (tagRun 10 exW2.simulateInit (({} : Tag).sync exW2.simulateInit.rm.waiting)).served.map (·.1) = [0, 1] ∧
    (tagRun 10 exW2.simulateInit (({} : Tag).sync exW2.simulateInit.rm.waiting)).tw =
      [(2, ([(0, 1)], .proc 2))] := by decide

example : WaitOK (reach 10 exW2) :=
  waitOK_reachable (by decide) (by decide) (reach_reachable 10 exW2)

/-- `check_shuffle` is not trivial: registrations made DURING a check are appended behind.  A
callback script that registers another (infeasible) request: the entry appears behind the
unserved ones. -/
def exW3 : World :=
  { exW1 with scripts := [[.register 1 [(0, 1)]], [.reserve 0 [(0, 1)], .register 2 [(0, 9)]], [.addRes 0 1]] }

example : Cls exW3 ∧ Fresh exW3 ∧
    (popped (reach 8 exW3)).rm.waiting = [([(0, 1)], .script 1), ([(0, 1)], .proc 2)] ∧
    served (popped (reach 8 exW3)) = [([(0, 1)], .script 1)] ∧
    (popped (reach 8 exW3)).rmCheck.rm.waiting = [([(0, 1)], .proc 2), ([(0, 9)], .script 2)] ∧
    ¬ CbQuiet (reach 8 exW3) ∧ ¬ RegQuiet exW3 ∧ StepDone (reach 8 exW3) := by decide

/-- 3e on `exW3`: the check is complete; what is left waiting is what the scan passed over — the
processor's request (the unit had just been taken by the script) and the request registered by
the callback during the check — and neither fitted when the scan looked at it. -/
example : C10.scanDone World.scanOps 10000 (popped (reach 8 exW3)) 0 = true ∧
    (passedOver (popped (reach 8 exW3))).map (fun c => (c.1, c.2.1)) =
      [([(0, 1)], .proc 2), ([(0, 9)], .script 2)] ∧
    (passedOver (popped (reach 8 exW3))).map (fun c => c.2.2.pools) =
      [[(0, 2, 2)], [(0, 2, 2)]] := by decide

/-! ### the class conditions are needed -/

/-- As `exW`, but script 2 also cancels the events of the internal asset id −1. -/
def exC : World :=
  { exW with scripts := [[.register 1 [(0, 1)]], [.reserve 0 [(0, 1)]], [.addRes 0 2, .cancel (-1)]] }

/-- **Scripts must not cancel (or pause) the internal asset id.**  In the fresh world `exC`
(outside the class only by the `cancel (-1)`) the script adds capacity — the check is scheduled —
and cancels it: at t = 5 both waiting requests fit, no live check is queued (3a fails), nothing
live is due, and the clock advances to t = 11 with the feasible requests still waiting (3b
fails). -/
theorem internal_cancel_needed :
    Fresh exC ∧ ¬ Cls exC ∧
    (reach 9 exC).now = 5 ∧ C10.feasibleWaiting (reach 9 exC).rm ∧
    ¬ C11W.QueuedL (reach 9 exC) .rmCheck 5 pOtherHigh (-1) ∧
    (∀ e ∈ (reach 9 exC).env.events, e.cancelled = false → e.time ≠ (reach 9 exC).now) ∧
    (reach 10 exC).now = 11 ∧ C10.feasibleWaiting (reach 10 exC).rm := by decide

/-- As `exW`, but processor 2 carries the internal asset id −1 and script 2 also shuts it down. -/
def exA : World :=
  { exW with
    scripts := [[.register 1 [(0, 1)]], [.reserve 0 [(0, 1)]], [.addRes 0 2, .shutdown 2]]
    devs := [{ kind := .source, aid := 1, down := [1, 2], cycle := 1, maxParts := some 3 },
             { kind := .processor, aid := 2, up := [0], down := [3], cycle := 10, resReq := some [(0, 1)] },
             { kind := .processor, aid := -1, up := [0], down := [3], cycle := 2, resReq := some [(0, 1)] },
             { kind := .sink, aid := 4, up := [1, 2] }] }

/-- **No device may carry the internal asset id −1** (`addDev` assigns ids ≥ 1).  In `exA` the
maintenance shutdown of the device with id −1 pauses the availability check that the capacity
increase has just scheduled: both requests fit, no check is queued, the clock advances. -/
theorem device_aid_needed :
    Fresh exA ∧ ¬ Cls exA ∧
    (reach 8 exA).now = 5 ∧ C10.feasibleWaiting (reach 8 exA).rm ∧
    ¬ C11W.QueuedL (reach 8 exA) .rmCheck 5 pOtherHigh (-1) ∧
    (reach 8 exA).env.paused.map (fun e => Action.ofNat e.act) = [.rmCheck] ∧
    (reach 9 exA).now = 11 ∧ C10.feasibleWaiting (reach 9 exA).rm := by decide

/-- **A constructor must not create a device that claims to be waiting.**  A device created with
`waitingRes = true` is never in the waiting list (the `flag` clause of `WaitOK` fails) and will
never register: `procAcquire` believes it is already waiting. -/
theorem created_flag_needed :
    let w : World := (({ exW with scripts := [] } : World).applyOp
      (.create (.dev { kind := .processor, resReq := some [(0, 5)], waitingRes := true }))).1
    (w.dev 4).waitingRes = true ∧ w.rm.waiting = [] ∧
    (w.procAcquire 4).2 = false ∧ (w.procAcquire 4).1.rm.waiting = [] := by decide

end C10W
end SimProc
