/-
C02 — parts are conserved: never duplicated, dropped or invented.

Closed-world theorem about `SimProc/Model/Floor.lean` + `World.lean`: in EVERY state reachable by
executing events, scripted operations, constructor calls and initialisation — for every topology,
every parameter choice, every script and every tie-break weight — the leaf parts inside non-sink devices, the leaf parts delivered to
sinks and the leaf parts reported lost are, together, exactly the leaf parts the sources
generated, each exactly once.

STATUS.  The first formulation ("`Cons` is preserved by EVERY action of EVERY world") is false: the
executable model is more permissive than the implementation (a `fail` action may target a sink —
in the library only `PartProcessor` has `schedule_failure`; a hand-over may target a device index
that does not exist) and `Cons` alone is not inductive.  The machine-checked counterexamples are
kept as theorems (`cons_exec_false_sink / _dangling / _inprog`, `cons_step_false`,
`cons_runLoop_false`).  The proved statements are: `cons_exec'`, `cons_step'`, `cons_runLoop'`
(strengthened invariant `ConsS`, admissible actions `ActOK`/`SafeRun`: no failure of a sink, every
device a hand-over can reach exists) and the closed-world theorems `cons_step_static`,
`cons_runLoop_static`, `conservation_reachable` for statically well-formed worlds (`Static`: scripts
without rewiring/creation, failures only on non-sinks, wiring closed under reachability).  The machinery is in `SimProc/Proofs/`
(`SV*`, `Views`, `Floor*`, `World*`, `Topo`, `Budget`, `Static*`).
-/
import SimProc.Model.World
import SimProc.Proofs.WorldExec
import SimProc.Proofs.Budget
import SimProc.Proofs.StaticWorld

namespace SimProc
namespace C02
open World C02V

/-- The (top-level) parts a device holds: input slot, output slot, buffer content, batch under
construction. -/
def held (d : Dev) : List Nat :=
  d.part.toList ++ d.output.toList ++ d.buf.map (·.2) ++ d.inprog.toList

/-- Leaf parts inside the line.  Sinks are excluded: a part counts as delivered from the moment a
sink accepts it (`World.delivered`). -/
def inside (w : World) : List Nat :=
  (w.devs.filter (fun d => d.kind != .sink)).flatMap (fun d => (held d).flatMap w.leavesOf)

/-- Everything that exists: inside ++ delivered ++ lost. -/
def mass (w : World) : List Nat := inside w ++ w.delivered ++ w.lost

/-- The conservation invariant (with the structural facts its proof needs). -/
structure Cons (w : World) : Prop where
  /-- every generated leaf is in exactly one place -/
  perm : (mass w).Perm w.generated
  nodup : w.generated.Nodup
  /-- no top-level part is held twice (by any devices, sinks included) -/
  topNodup : (w.devs.flatMap held).Nodup
  /-- ids are valid -/
  heldValid : ∀ d ∈ w.devs, ∀ p ∈ held d, p < w.parts.length
  /-- batches are one level deep: the parts of a batch are leaves -/
  kidsLeaf : ∀ p, p < w.parts.length → ∀ l, (w.part p).kids = some l →
    ∀ k ∈ l, k < w.parts.length ∧ (w.part k).kids = none
  genValid : ∀ p ∈ w.generated, p < w.parts.length ∧ (w.part p).kids = none

/-- A world before anything was generated: no device holds anything, no part exists. -/
def Fresh (w : World) : Prop :=
  w.parts = [] ∧ w.generated = [] ∧ w.delivered = [] ∧ w.lost = [] ∧ ∀ d ∈ w.devs, held d = []


/-! ### bridge to the slot view (`SimProc/Proofs/SV.lean`, `Views.lean`) -/

theorem held_eq (d : Dev) : held d = (sdev d).held := rfl

theorem inside_eq (w : World) : inside w = (sv w).inside := by
  unfold inside SV.inside
  have hl : (sv w).leaves = w.leavesOf := funext (leaves_eq w)
  rw [hl]
  simp only [sv, List.filter_map, List.flatMap_map]
  rfl

theorem mass_eq (w : World) : mass w = (sv w).mass := by
  unfold mass SV.mass; rw [inside_eq]; rfl

theorem kids_getElem (w : World) (p : Nat) (v : Option (List Nat)) :
    (sv w).kids[p]? = some v ↔ p < w.parts.length ∧ (w.part p).kids = v := by
  simp only [sv, World.part, List.getElem?_map, List.getD_eq_getElem?_getD]
  by_cases hp : p < w.parts.length
  · simp [hp]
  · simp [hp, List.getElem?_eq_none (Nat.le_of_not_lt hp)]

theorem cons_iff (w : World) : Cons w ↔ ConsV (sv w) := by
  constructor
  · intro h
    refine ⟨?_, h.nodup, ?_, ?_, ?_, ?_⟩
    · rw [← mass_eq]; exact h.perm
    · have := h.topNodup
      simp only [sv, List.flatMap_map]
      exact this
    · intro d hd p hp
      simp only [sv, List.mem_map] at hd
      obtain ⟨d', hd', rfl⟩ := hd
      simpa [sv] using h.heldValid d' hd' p hp
    · intro p l hl k hk
      rw [kids_getElem] at hl
      rw [kids_getElem]
      exact h.kidsLeaf p hl.1 l hl.2 k hk
    · intro p hp
      rw [kids_getElem]
      exact h.genValid p hp
  · intro h
    refine ⟨?_, h.nodup, ?_, ?_, ?_, ?_⟩
    · rw [mass_eq]; exact h.perm
    · have := h.topNodup
      simp only [sv, List.flatMap_map] at this
      exact this
    · intro d hd p hp
      have := h.heldValid (sdev d) (by simp only [sv, List.mem_map]; exact ⟨d, hd, rfl⟩) p hp
      simpa [sv] using this
    · intro p hp l hl k hk
      have := h.kidsLeaf p l ((kids_getElem w p _).2 ⟨hp, hl⟩) k hk
      exact (kids_getElem w k _).1 this
    · intro p hp
      exact (kids_getElem w p _).1 (h.genValid p hp)

theorem cons_fresh (w : World) (h : Fresh w) : Cons w := by
  obtain ⟨h1, h2, h3, h4, h5⟩ := h
  rw [cons_iff]
  apply consV_fresh
  · simp [sv, h1]
  · exact h2
  · exact h3
  · exact h4
  · intro d hd
    simp only [sv, List.mem_map] at hd
    obtain ⟨d', hd', rfl⟩ := hd
    exact h5 d' hd'

/-! ### preservation by every way the state can change -/

/-- A device as a constructor creates it: empty slots. -/
def SpecOK : AssetSpec → Prop
  | .dev d => held d = []
  | _ => True

/-- Scripted operations whose `create` payloads are constructor-fresh devices. -/
def OpOK : Op → Prop
  | .create spec => SpecOK spec
  | _ => True

def ScriptsOK (w : World) : Prop := ∀ l ∈ w.scripts, ∀ op ∈ l, OpOK op

theorem specOK_iff (s : AssetSpec) : SpecOK s ↔ SpecOK' s := by cases s <;> exact Iff.rfl
theorem opOK_iff (o : Op) : OpOK o ↔ OpOK' o := by
  cases o
  case create s => exact specOK_iff s
  all_goals exact Iff.rfl
theorem scriptsOK_iff (w : World) : ScriptsOK w ↔ ScriptsOK' w := by
  unfold ScriptsOK ScriptsOK'
  constructor
  · intro h l hl op hop; exact (opOK_iff op).1 (h l hl op hop)
  · intro h l hl op hop; exact (opOK_iff op).2 (h l hl op hop)


theorem cons_addAsset (w : World) (spec : AssetSpec) (h : Cons w) (hs : SpecOK spec) :
    Cons (w.addAsset spec) := by
  rw [cons_iff] at *
  exact pres_addAsset closed_consV w spec h ((specOK_iff spec).1 hs)

theorem cons_applyOp (w : World) (op : Op) (h : Cons w) (ho : OpOK op) : Cons (w.applyOp op).1 := by
  rw [cons_iff] at *
  exact pres_applyOp closed_consV w op h ((opOK_iff op).1 ho)

theorem scripts_applyOp (w : World) (op : Op) : (w.applyOp op).1.scripts = w.scripts :=
  scr_applyOp w op

theorem scripts_exec (w : World) (a : Action) : (w.exec a).scripts = w.scripts :=
  scr_exec w a

theorem cons_simulateInit (w : World) (h : Cons w) : Cons w.simulateInit := by
  rw [cons_iff] at *
  exact pres_simulateInit closed_consV w h

/-! ### the property -/

/-- In every state satisfying the invariant, the number generated equals the number inside
devices plus the number received by sinks plus the number reported lost, and no part is in two
places. -/
theorem conservation (w : World) (h : Cons w) :
    w.generated.length = (inside w).length + w.delivered.length + w.lost.length ∧
    (mass w).Nodup := by
  rw [cons_iff] at h
  have := conservationV (sv w) h
  rw [mass_eq, inside_eq]
  exact this

/-- A single-slot device accepts a part only into an empty slot: whenever `give` reports success
for a handler-like device, both of its slots were empty (so it never holds two parts). -/
theorem accept_only_empty (f : Nat) (w : World) (x p : Nat)
    (hk : isHandlerLike (w.dev x).kind = true) (hg : (give f w x p).2 = true) :
    (w.dev x).part = none ∧ (w.dev x).output = none := by
  cases f with
  | zero => simp [give] at hg
  | succ f =>
    unfold give at hg
    simp only [] at hg
    have key : w.canAcceptBasic x p = true := by
      cases hkind : (w.dev x).kind <;> simp only [hkind] at hg hk <;>
        first
          | (simp [isHandlerLike] at hk; done)
          | (split at hg
             · assumption
             · simp at hg)
    exact canAccept_slots hk key

/-- A source never supplies more parts than its budget (initial amount plus adjustments). -/
def Budget (w : World) : Prop :=
  ∀ d ∈ w.devs, d.kind = .source → ∀ m, d.maxParts = some m → d.produced ≤ m

theorem budget_passPart (w : World) (x : Nat) (h : Budget w) : Budget (w.passPart x) :=
  C02V.budget_passPart w x h

theorem budget_adjust (w : World) (x : Nat) (v : Int) (h : Budget w) : Budget (w.adjustParts x v) :=
  C02V.budget_adjust w x v h


/-! ### The strengthened invariant and the corrected closed-world theorems

`cons_exec`, `cons_step` and `cons_runLoop` are FALSE as stated (see `cons_exec_false_*` below):

* `Cons` is not inductive: nothing in `Cons` says that the batch under construction (`inprog`) of a
  batcher is a batch, nor that what a sink holds has been counted in `delivered`.  The strengthened
  invariant is `ConsS` (= `Cons` ∧ these two facts).
* Even for `ConsS`, two kinds of events break conservation in the model:
  a failure of a sink that holds a part (the part is counted as delivered AND as lost); a
  hand-over to a device index that does not exist (the default device accepts, the part vanishes).
  `ActOK` excludes exactly these.  (A buffer that reaches itself through flow controllers is fine since
  the model fix `buf := d.buf.drop 1` in `bufferLoop`: the proof covers the self-hand-over.)
-/

/-- `Cons` together with the two facts that make it inductive. -/
def ConsS (w : World) : Prop :=
  Cons w ∧
  (∀ d ∈ w.devs, ∀ b, d.inprog = some b → ∃ l, (w.part b).kids = some l) ∧
  (∀ d ∈ w.devs, d.kind = .sink → ∀ p ∈ held d, ∀ l ∈ w.leavesOf p, l ∈ w.delivered)

theorem consS_iff (w : World) : ConsS w ↔ C02V.Inv (sv w) := by
  unfold ConsS C02V.Inv
  rw [cons_iff]
  constructor
  · rintro ⟨h, h1, h2⟩
    refine ⟨h, ⟨?_, ?_⟩⟩
    · intro d hd b hb
      simp only [sv, List.mem_map] at hd
      obtain ⟨d', hd', rfl⟩ := hd
      obtain ⟨l, hl⟩ := h1 d' hd' b hb
      exact ⟨l, (kids_getElem w b _).2 ⟨lt_of_kids hl, hl⟩⟩
    · intro d hd hk p hp l hl
      simp only [sv, List.mem_map] at hd
      obtain ⟨d', hd', rfl⟩ := hd
      rw [leaves_eq] at hl
      exact h2 d' hd' hk p hp l hl
  · rintro ⟨h, ⟨h1, h2⟩⟩
    refine ⟨h, ?_, ?_⟩
    · intro d hd b hb
      obtain ⟨l, hl⟩ := h1 (sdev d) (by simp only [sv, List.mem_map]; exact ⟨d, hd, rfl⟩) b hb
      exact ⟨l, ((kids_getElem w b _).1 hl).2⟩
    · intro d hd hk p hp l hl
      have := h2 (sdev d) (by simp only [sv, List.mem_map]; exact ⟨d, hd, rfl⟩) hk p hp l
        (by rw [leaves_eq]; exact hl)
      exact this

theorem ConsS.cons {w : World} (h : ConsS w) : Cons w := h.1

theorem consS_fresh (w : World) (h : Fresh w) : ConsS w := by
  refine ⟨cons_fresh w h, ?_, ?_⟩
  · intro d hd b hb
    have := h.2.2.2.2 d hd
    simp [held, hb] at this
  · intro d hd _ p hp
    have := h.2.2.2.2 d hd
    rw [this] at hp; cases hp

theorem consS_addAsset (w : World) (spec : AssetSpec) (h : ConsS w) (hs : SpecOK spec) :
    ConsS (w.addAsset spec) := by
  rw [consS_iff] at *
  exact pres_addAsset closed_inv w spec h ((specOK_iff spec).1 hs)

theorem consS_applyOp (w : World) (op : Op) (h : ConsS w) (ho : OpOK op) : ConsS (w.applyOp op).1 := by
  rw [consS_iff] at *
  exact pres_applyOp closed_inv w op h ((opOK_iff op).1 ho)

theorem consS_simulateInit (w : World) (h : ConsS w) : ConsS w.simulateInit := by
  rw [consS_iff] at *
  exact pres_simulateInit closed_inv w h

/-- Corrected `cons_exec`: every admissible event action (`ActOK`, see `Proofs/WorldExec.lean`:
no failure of a sink; for `passPart x`, every device the hand-over can reach exists —
`GiveOK`/`Reach` in `Proofs/FloorPass.lean`/`Proofs/Topo.lean`) preserves the
strengthened invariant. -/
theorem cons_exec' (w : World) (a : Action) (h : ConsS w) (hs : ScriptsOK w) (ha : ActOK w a) :
    ConsS (w.exec a) := by
  rw [consS_iff] at *
  exact (good_exec w a ⟨h, (scriptsOK_iff w).1 hs⟩ ha).1

/-- Corrected `cons_step`. -/
theorem cons_step' (w w' : World) (e : Event) (h : ConsS w) (hs : ScriptsOK w)
    (hst : w.step = some (e, w'))
    (ha : ∀ env', w.env.step = some (e, env') → e.live = true →
      ActOK { w with env := env' } (Action.ofNat e.act)) :
    ConsS w' ∧ ScriptsOK w' := by
  have := good_step w w' e ⟨(consS_iff w).1 h, (scriptsOK_iff w).1 hs⟩ hst ha
  exact ⟨(consS_iff w').2 this.1, (scriptsOK_iff w').2 this.2⟩

/-- Corrected `cons_runLoop`: along every run in which each executed action is admissible
(`SafeRun`), the strengthened invariant holds. -/
theorem cons_runLoop' (n : Nat) (w : World) (h : ConsS w) (hs : ScriptsOK w) (hr : SafeRun n w) :
    ConsS (runLoop n w) ∧ ScriptsOK (runLoop n w) := by
  have := good_runLoop n w ⟨(consS_iff w).1 h, (scriptsOK_iff w).1 hs⟩ hr
  exact ⟨(consS_iff _).2 this.1, (scriptsOK_iff _).2 this.2⟩

/-! ### counterexamples to `cons_exec` as stated -/

/-- a sink (cycle time > 0) holding the delivered part 0 -/
def cexSink : World :=
  { devs := [{ kind := .sink, part := some 0 }], parts := [{}], generated := [0], delivered := [0] }
/-- a handler whose downstream device 5 does not exist -/
def cexDangling : World :=
  { devs := [{ kind := .handler, output := some 0, down := [5] }], parts := [{}], generated := [0] }
/-- a batcher whose batch under construction is a leaf part -/
def cexInprog : World :=
  { devs := [{ kind := .batcher, part := some 0, inprog := some 1, bsize := some 5 }], parts := [{}, {}],
    generated := [0, 1] }

private theorem cons_of_leaves (w : World) (h1 : (mass w).Perm w.generated) (h2 : w.generated.Nodup)
    (h3 : (w.devs.flatMap held).Nodup) (h4 : ∀ d ∈ w.devs, ∀ p ∈ held d, p < w.parts.length)
    (h5 : ∀ p, p < w.parts.length → (w.part p).kids = none)
    (h6 : ∀ p ∈ w.generated, p < w.parts.length) : Cons w :=
  ⟨h1, h2, h3, h4, fun p hp l hl => (by rw [h5 p hp] at hl; cases hl), fun p hp => ⟨h6 p hp, h5 p (h6 p hp)⟩⟩

theorem cons_cexSink : Cons cexSink :=
  cons_of_leaves _ (by decide) (by decide) (by decide) (by decide) (by decide) (by decide)
theorem cons_cexDangling : Cons cexDangling :=
  cons_of_leaves _ (by decide) (by decide) (by decide) (by decide) (by decide) (by decide)
theorem cons_cexInprog : Cons cexInprog :=
  cons_of_leaves _ (by decide) (by decide) (by decide) (by decide) (by decide) (by decide)

private theorem not_cons_of_count (w : World)
    (h : w.generated.length ≠ (inside w).length + w.delivered.length + w.lost.length) : ¬ Cons w :=
  fun hc => h (conservation w hc).1

/-- `cons_exec` is false: a failing sink loses a part that was already counted as delivered. -/
theorem cons_exec_false_sink : Cons cexSink ∧ ScriptsOK cexSink ∧ ¬ Cons (cexSink.exec (.fail 0)) :=
  ⟨cons_cexSink, (by intro l hl; cases hl), not_cons_of_count _ (by decide)⟩
/-- `cons_exec` is false: a part handed to a device index that does not exist vanishes. -/
theorem cons_exec_false_dangling :
    Cons cexDangling ∧ ScriptsOK cexDangling ∧ ¬ Cons (cexDangling.exec (.passPart 0)) :=
  ⟨cons_cexDangling, (by intro l hl; cases hl), not_cons_of_count _ (by decide)⟩
/-- `Cons` is not inductive: a leaf part as the batch under construction is turned into a batch. -/
theorem cons_exec_false_inprog :
    Cons cexInprog ∧ ScriptsOK cexInprog ∧ ¬ Cons (cexInprog.exec (.passPart 0)) :=
  ⟨cons_cexInprog, (by intro l hl; cases hl), not_cons_of_count _ (by decide)⟩

/-- the failing sink with the failure event in the queue of a running environment -/
def cexRun : World :=
  { cexSink with env := { events := [{ uid := 0, time := 0, prio := 20, weight := 0, asset := 0, act := 4 }],
                          terminated := false } }

theorem cons_cexRun : Cons cexRun :=
  cons_of_leaves _ (by decide) (by decide) (by decide) (by decide) (by decide) (by decide)

/-- `cons_step` is false (the popped event is the failure of the sink). -/
theorem cons_step_false : Cons cexRun ∧ ScriptsOK cexRun ∧
    ∃ e w', cexRun.step = some (e, w') ∧ ¬ Cons w' := by
  refine ⟨cons_cexRun, (by intro l hl; cases hl), ?_⟩
  refine ⟨_, _, rfl, ?_⟩
  exact not_cons_of_count _ (by decide)

/-- `cons_runLoop` is false. -/
theorem cons_runLoop_false : Cons cexRun ∧ ScriptsOK cexRun ∧ ¬ Cons (runLoop 2 cexRun) :=
  ⟨cons_cexRun, (by intro l hl; cases hl), not_cons_of_count _ (by decide)⟩

/-- `ActOK` does not depend on the environment. -/
theorem actOK_env (w : World) (e : Env) (a : Action) : ActOK { w with env := e } a ↔ ActOK w a := by
  cases a <;> exact Iff.rfl

/-! ### the static closed-world theorem

`Static w` (`Proofs/StaticWorld.lean`): the scripts contain no `rewire`, no `create` and schedule
failures only for devices that are not sinks; the wiring satisfies `GiveOK` at every device (every
device a hand-over can reach exists); and no
failure of a sink is among the pending or paused events.  This is preserved by every event, makes
every executed action admissible, and therefore the (strengthened) conservation invariant holds
in every state reachable by `step`/`runLoop`/`simulateInit`. -/

theorem cons_step_static (w w' : World) (e : Event) (h : ConsS w) (hw : Static w)
    (hst : w.step = some (e, w')) : ConsS w' ∧ Static w' := by
  have := static_step w w' e ((consS_iff w).1 h) hw hst
  exact ⟨(consS_iff w').2 this.1, this.2⟩

theorem cons_runLoop_static (n : Nat) (w : World) (h : ConsS w) (hw : Static w) :
    ConsS (runLoop n w) ∧ Static (runLoop n w) := by
  have := static_runLoop n w ((consS_iff w).1 h) hw
  exact ⟨(consS_iff _).2 this.1, this.2⟩

theorem static_simulateInit' (w : World) (hw : Static w) : Static w.simulateInit :=
  static_simulateInit w hw

/-- The property in every state reachable from a fresh, statically well-formed world: initialise,
then run the event loop with any fuel. -/
theorem conservation_reachable (n : Nat) (w : World) (hf : Fresh w) (hw : Static w) :
    let w' := runLoop n w.simulateInit
    w'.generated.length = (inside w').length + w'.delivered.length + w'.lost.length ∧ (mass w').Nodup := by
  have h1 := consS_simulateInit w (consS_fresh w hf)
  have h2 := cons_runLoop_static n _ h1 (static_simulateInit w hw)
  exact conservation _ h2.1.cons

/-! ### sanity check: `Static` is satisfiable (a line source → handler → sink) -/

theorem reach_handlerLike {t : ST} {y z : Nat} (hk : isHandlerLike (t.kind y) = true) (h : Reach t y z) :
    z = y := by
  cases h
  case self => rfl
  case gate =>
    rename_i hg _ _
    rcases hg with hg | hg <;> rw [hg] at hk <;> cases hk
  case gpath => rename_i hg _; rw [hg] at hk; cases hk
  case goutput => simp_all [isHandlerLike]

def exLine : World :=
  { devs := [{ kind := .source, down := [1], maxParts := some 3 }, { kind := .handler, down := [2], up := [0] },
             { kind := .sink, up := [1] }] }

theorem static_exLine : Static exLine := by
  refine ⟨(by intro l hl; cases hl), ?_, ?_⟩
  · intro x y hy z hr
    have hx : x = 0 ∨ x = 1 ∨ 2 ≤ x := by omega
    rcases hx with rfl | rfl | hx
    · have : y = 1 := by simpa [exLine, World.dev] using hy
      subst this
      have := reach_handlerLike (t := st exLine) (y := 1) (by decide) hr
      subst this
      decide
    · have : y = 2 := by simpa [exLine, World.dev] using hy
      subst this
      have := reach_handlerLike (t := st exLine) (y := 2) (by decide) hr
      subst this
      decide
    · exfalso
      have : (exLine.dev x).down = [] := by
        have hx' : x = 2 ∨ 3 ≤ x := by omega
        rcases hx' with rfl | hx'
        · rfl
        · rw [dev_of_ge exLine x (by simpa [exLine] using hx')]; rfl
      rw [this] at hy; cases hy
  · rintro ⟨n, hn, _⟩
    simp [acts, exLine] at hn

end C02
end SimProc
