/-
C16 — value accounting adds up.

Part 1: the value bookkeeping of every asset (`SimProc/Model/Asset.lean`, mirrored from
`Asset.add_value/add_cost/initialize`), for every sequence of value changes.
Part 2 (sites): the places where the library changes an asset's value use exactly that
bookkeeping with the documented amounts (source: minus the value of the supplied part; sink: the
value of the received part at receipt; maintainer: the cost of the started order) — see
`Props/C16Sites.lean`.
-/
import SimProc.Model.Asset

namespace SimProc
namespace C16

def deltaSum (h : List VEntry) : Int := (h.map (·.delta)).foldl (· + ·) 0

/-- Each history entry carries the running total: entry k's total = start + sum of the first k+1
changes. -/
def TotalsOK : Int → List VEntry → Prop
  | _, [] => True
  | start, e :: t => e.total = start + e.delta ∧ TotalsOK e.total t

/-- The invariant of an asset's value bookkeeping. -/
structure VInv (a : AssetVal) : Prop where
  value_eq : a.value = a.init + deltaSum a.hist
  totals : TotalsOK a.init a.hist
  nonzero : ∀ e ∈ a.hist, e.delta ≠ 0

/-- One change: `add_value` or `add_cost`. -/
inductive VOp where
  | addValue (label : Nat) (now v : Int)
  | addCost (label : Nat) (now c : Int)
  | reset
deriving Repr, DecidableEq

def applyV (a : AssetVal) : VOp → AssetVal
  | .addValue l n v => a.addValue l n v
  | .addCost l n c => a.addCost l n c
  | .reset => a.reset

/-! ### helper lemmas -/

private theorem foldl_add (l : List Int) (a : Int) :
    l.foldl (· + ·) a = a + l.foldl (· + ·) 0 := by
  induction l generalizing a with
  | nil => simp
  | cons x xs ih =>
    simp only [List.foldl_cons]
    rw [ih (a + x), ih (0 + x)]
    omega

private theorem deltaSum_nil : deltaSum [] = 0 := rfl

private theorem deltaSum_cons (e : VEntry) (h : List VEntry) :
    deltaSum (e :: h) = e.delta + deltaSum h := by
  simp only [deltaSum, List.map_cons, List.foldl_cons]
  rw [foldl_add]
  omega

private theorem deltaSum_append (h : List VEntry) (e : VEntry) :
    deltaSum (h ++ [e]) = deltaSum h + e.delta := by
  induction h with
  | nil => simp [deltaSum]
  | cons x xs ih =>
    rw [List.cons_append, deltaSum_cons, deltaSum_cons, ih]
    omega

private theorem totalsOK_append (s : Int) (h : List VEntry) (e : VEntry) :
    TotalsOK s (h ++ [e]) ↔ TotalsOK s h ∧ e.total = (s + deltaSum h) + e.delta := by
  induction h generalizing s with
  | nil => simp [TotalsOK, deltaSum]
  | cons x xs ih =>
    simp only [List.cons_append, TotalsOK, ih, deltaSum_cons]
    constructor
    · rintro ⟨h1, h2, h3⟩
      exact ⟨⟨h1, h2⟩, by omega⟩
    · rintro ⟨⟨h1, h2⟩, h3⟩
      exact ⟨h1, h2, by omega⟩

private theorem vinv_addValue (a : AssetVal) (l : Nat) (now v : Int) (h : VInv a) :
    VInv (a.addValue l now v) := by
  unfold AssetVal.addValue
  split
  · exact h
  · rename_i hv
    have hv' : v ≠ 0 := by simpa using hv
    refine ⟨?_, ?_, ?_⟩
    · simp only [deltaSum_append]
      have := h.value_eq
      omega
    · rw [totalsOK_append]
      refine ⟨h.totals, ?_⟩
      have := h.value_eq
      simp only
      omega
    · intro e he
      rcases List.mem_append.mp he with he | he
      · exact h.nonzero e he
      · simp only [List.mem_singleton] at he
        subst he
        exact hv'

theorem vinv_new (v : Int) : VInv { init := v, value := v } := by
  refine ⟨?_, ?_, ?_⟩
  · simp [deltaSum]
  · simp [TotalsOK]
  · intro e he; simp at he

theorem vinv_apply (a : AssetVal) (op : VOp) (h : VInv a) : VInv (applyV a op) := by
  cases op with
  | addValue l n v => exact vinv_addValue a l n v h
  | addCost l n c => exact vinv_addValue a l n (-c) h
  | reset =>
    refine ⟨?_, ?_, ?_⟩
    · simp [applyV, AssetVal.reset, deltaSum]
    · simp [applyV, AssetVal.reset, TotalsOK]
    · intro e he; simp [applyV, AssetVal.reset] at he

private theorem vinv_foldl (a : AssetVal) (ops : List VOp) (h : VInv a) :
    VInv (ops.foldl applyV a) := by
  induction ops generalizing a with
  | nil => exact h
  | cons op ops ih => exact ih _ (vinv_apply a op h)

/-- Every asset's value always equals its starting value plus the sum of the changes in its value
history, after any sequence of changes. -/
theorem value_eq_initial_plus_history (v : Int) (ops : List VOp) :
    VInv (ops.foldl applyV { init := v, value := v }) :=
  vinv_foldl _ ops (vinv_new v)

/-- The starting value never changes. -/
theorem init_const (a : AssetVal) (op : VOp) : (applyV a op).init = a.init := by
  cases op <;> simp only [applyV, AssetVal.addCost, AssetVal.addValue, AssetVal.reset] <;>
    (try split) <;> rfl

/-- A non-zero change appends exactly one entry `(label, time, change, running total)` … -/
theorem history_entry_shape (a : AssetVal) (l : Nat) (now v : Int) (hv : v ≠ 0) :
    (a.addValue l now v).hist = a.hist ++ [⟨l, now, v, a.value + v⟩] ∧
    (a.addValue l now v).value = a.value + v := by
  simp [AssetVal.addValue, hv]

/-- … a zero change is not recorded and changes nothing … -/
theorem zero_not_recorded (a : AssetVal) (l : Nat) (now : Int) : a.addValue l now 0 = a := by
  simp [AssetVal.addValue]

/-- … and a cost is a negative change. -/
theorem addCost_eq (a : AssetVal) (l : Nat) (now c : Int) : a.addCost l now c = a.addValue l now (-c) := rfl

/-- The system's net value is the sum over its registered assets — the model's definition. -/
def netValue (vals : List AssetVal) : Int := (vals.map (·.value)).foldl (· + ·) 0

theorem net_value_is_sum (vals : List AssetVal) (h : ∀ a ∈ vals, VInv a) :
    netValue vals = (vals.map (fun a => a.init + deltaSum a.hist)).foldl (· + ·) 0 := by
  unfold netValue
  congr 1
  apply List.map_congr_left
  intro a ha
  exact (h a ha).value_eq

/-! ### non-vacuity -/
example :
    let a := [VOp.addValue 2 5 7, .addCost 1 6 0, .addCost 3 8 4].foldl applyV { init := 10, value := 10 }
    a.value = 13 ∧ a.hist.length = 2 ∧ a.hist.map (·.total) = [17, 13] := by decide

end C16
end SimProc
